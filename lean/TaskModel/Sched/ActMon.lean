import TaskModel.Sched.Lemmas
import TaskModel.Sched.Monitors
/-!
Per-activation trace monitors and the generic soundness theorem: if a monitor's state
is related to the activation's model state by a relation that `stepLocal` preserves,
then the monitor accepts the events of every activation in every accepted trace.
-/
namespace TaskModel.Sched

theorem evsOf_append (a : Nat) (l1 l2 : List Label) : evsOf a (l1 ++ l2) = evsOf a l1 ++ evsOf a l2 := by
  induction l1 with
  | nil => rfl
  | cons l ls ih => simp only [List.cons_append, evsOf]; split <;> simp [ih]

/-- the relation between a trace prefix and the configuration it leads to -/
def MonInv {σ} (m : ActMon σ) (R : σ → Act → Prop) (c : Config) (tr : List Label) : Prop :=
  ∀ a, match c.act? a with
    | none => evsOf a tr = []
    | some x => ∃ s, m.run m.init (evsOf a tr) = some s ∧ R s x

theorem monInv_step {σ} (m : ActMon σ) (R : σ → Act → Prop) (P : Program) (F : Flags)
    (hfresh : ∀ c kind t, ∃ s, m.step m.init (.enter kind t) = some s ∧ R s (freshAct P F c kind t))
    (hlocal : ∀ o s x ev y eff, R s x → stepLocal F o x ev = some (y, eff) →
      ∃ s', m.step s ev = some s' ∧ R s' y)
    (hkids : ∀ s x k, R s x → R s { x with kids := k })
    (c c' : Config) (tr : List Label) (l : Label)
    (hinv : MonInv m R c tr) (hs : step P F c l = some c') : MonInv m R c' (tr ++ [l]) := by
  intro a
  rcases step_cases P F c c' l hs with ⟨k, t, he, hen⟩ | ⟨hne, x, y, eff, hx, hl, rfl⟩
  · -- enter
    obtain ⟨hnone, hnew, hoth⟩ := enterAct_acts P F c c' l.act k t hen
    by_cases ha : a = l.act
    · subst ha
      rw [hnew]
      have h0 := hinv l.act
      rw [hnone] at h0
      obtain ⟨s, hs1, hs2⟩ := hfresh c k t
      refine ⟨s, ?_, hs2⟩
      simp only [evsOf_append, h0, evsOf, if_true, List.nil_append, he, ActMon.run, hs1]
    · have hev : evsOf a (tr ++ [l]) = evsOf a tr := by
        simp only [evsOf_append, evsOf]
        rw [if_neg (fun e => ha e.symm)]; simp
      rw [hev]
      rcases hoth a ha with h1 | ⟨px, slot, h1, h2, _⟩
      · rw [h1]; exact hinv a
      · have h0 := hinv a
        rw [h1] at h0
        rw [h2]
        obtain ⟨s, hs1, hs2⟩ := h0
        exact ⟨s, hs1, hkids s px _ hs2⟩
  · -- local
    by_cases ha : a = l.act
    · subst ha
      simp only [act?_set_self]
      have h0 := hinv l.act
      rw [hx] at h0
      obtain ⟨s, hs1, hs2⟩ := h0
      obtain ⟨s', hs3, hs4⟩ := hlocal _ s x l.ev y eff hs2 hl
      refine ⟨s', ?_, hs4⟩
      simp only [evsOf_append, evsOf, if_true, ActMon.run_append, hs1, Option.bind, ActMon.run, hs3]
    · have hev : evsOf a (tr ++ [l]) = evsOf a tr := by
        simp only [evsOf_append, evsOf]
        rw [if_neg (fun e => ha e.symm)]; simp
      rw [hev, act?_set_other _ _ _ _ ha, act?_applyEff]
      exact hinv a

/-- **Generic soundness of per-activation monitors.** -/
theorem actMon_sound {σ} (m : ActMon σ) (R : σ → Act → Prop) (P : Program) (F : Flags)
    (hfresh : ∀ c kind t, ∃ s, m.step m.init (.enter kind t) = some s ∧ R s (freshAct P F c kind t))
    (hlocal : ∀ o s x ev y eff, R s x → stepLocal F o x ev = some (y, eff) →
      ∃ s', m.step s ev = some s' ∧ R s' y)
    (hkids : ∀ s x k, R s x → R s { x with kids := k })
    (n : Nat) (tr : List Label) (c : Config) (h : replay P F (init n) tr = some c) :
    MonInv m R c tr := by
  have key : ∀ (tr2 : List Label) (c0 : Config) (tr0 : List Label), MonInv m R c0 tr0 →
      ∀ c1, replay P F c0 tr2 = some c1 → MonInv m R c1 (tr0 ++ tr2) := by
    intro tr2
    induction tr2 with
    | nil => intro c0 tr0 h0 c1 h1; simp [replay] at h1; subst h1; simpa using h0
    | cons l ls ih =>
      intro c0 tr0 h0 c1 h1
      simp only [replay] at h1
      split at h1
      · rename_i c2 hs
        have := ih c2 (tr0 ++ [l]) (monInv_step m R P F hfresh hlocal hkids c0 c2 tr0 l h0 hs) c1 h1
        simpa using this
      · cases h1
  have h0 : MonInv m R (init n) [] := by
    intro a; simp [init, Config.act?, evsOf]
  simpa using key tr (init n) [] h0 c h

/-- corollary: the monitor accepts the events of every activation of an accepted trace -/
theorem actMon_accepts {σ} (m : ActMon σ) (R : σ → Act → Prop) (P : Program) (F : Flags)
    (hfresh : ∀ c kind t, ∃ s, m.step m.init (.enter kind t) = some s ∧ R s (freshAct P F c kind t))
    (hlocal : ∀ o s x ev y eff, R s x → stepLocal F o x ev = some (y, eff) →
      ∃ s', m.step s ev = some s' ∧ R s' y)
    (hkids : ∀ s x k, R s x → R s { x with kids := k })
    (n : Nat) (tr : List Label) (c : Config) (h : replay P F (init n) tr = some c) (a : Nat) :
    (m.run m.init (evsOf a tr)).isSome = true := by
  have := actMon_sound m R P F hfresh hlocal hkids n tr c h a
  split at this
  · rw [this]; rfl
  · obtain ⟨s, hs, _⟩ := this; rw [hs]; rfl

/-- **Local invariants**: a predicate on single activations that holds of fresh
activations and is preserved by `stepLocal` (and by gaining a kid) holds of every
activation of every reachable configuration. -/
theorem localInv_sound (Good : Act → Prop) (P : Program) (F : Flags)
    (hfresh : ∀ c kind t, Good (freshAct P F c kind t))
    (hlocal : ∀ o x ev y eff, Good x → stepLocal F o x ev = some (y, eff) → Good y)
    (hkids : ∀ x k, Good x → Good { x with kids := k })
    (n : Nat) (tr : List Label) (c : Config) (h : replay P F (init n) tr = some c)
    (a : Nat) (x : Act) (hx : c.act? a = some x) : Good x := by
  let m : ActMon Unit := { init := (), step := fun _ _ => some () }
  have := actMon_sound m (fun _ x => Good x) P F
    (fun c kind t => ⟨(), rfl, hfresh c kind t⟩)
    (fun o _ x ev y eff hg hs => ⟨(), rfl, hlocal o x ev y eff hg hs⟩)
    (fun _ x k hg => hkids x k hg) n tr c h a
  rw [hx] at this
  obtain ⟨_, _, hg⟩ := this
  exact hg

end TaskModel.Sched
