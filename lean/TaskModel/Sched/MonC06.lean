import TaskModel.Sched.Dedup
/-!
Sched.MonC06 — soundness of the raw-trace monitor `regOnce` (a dedup key is registered
at most once) on every trace the model accepts.
-/
namespace TaskModel.Sched

theorem regOnce_other (l : Label) (ls : List Label) (seen : List Nat) (h : ∀ k, l.ev ≠ .register k) :
    regOnce (l :: ls) seen = regOnce ls seen := by
  obtain ⟨a, ev⟩ := l
  cases ev <;> first | rfl | exact absurd rfl (h _)

theorem regOnce_register (l : Label) (ls : List Label) (seen : List Nat) (k : Nat) (h : l.ev = .register k) :
    regOnce (l :: ls) seen = (!seen.contains k && regOnce ls (k :: seen)) := by
  obtain ⟨a, ev⟩ := l
  simp only at h
  subst h
  rfl

theorem regOnce_sound_gen (P : Program) (F : Flags) (tr : List Label) :
    ∀ (c c' : Config) (seen : List Nat), (∀ k, k ∈ seen → (c.execs.lookup k).isSome = true) →
      replay P F c tr = some c' → regOnce tr seen = true := by
  induction tr with
  | nil => intros; rfl
  | cons l ls ih =>
    intro c c' seen hseen h
    simp only [replay] at h
    split at h
    · rename_i c1 hs
      rcases step_execs P F c c1 l hs with ⟨he, hne⟩ | ⟨k, hev, hnone, he⟩
      · rw [regOnce_other l ls seen hne]
        exact ih c1 c' seen (by rw [he]; exact hseen) h
      · rw [regOnce_register l ls seen k hev]
        have hk : k ∉ seen := by
          intro hm
          have := hseen k hm
          rw [hnone] at this; cases this
        have : regOnce ls (k :: seen) = true := by
          apply ih c1 c' (k :: seen) _ h
          intro k' hk'
          rw [he]
          rcases List.mem_cons.mp hk' with e | hm
          · subst e; rw [lookup_cons_self]; rfl
          · by_cases hkk : k' = k
            · subst hkk; rw [lookup_cons_self]; rfl
            · rw [lookup_cons_ne _ _ _ _ hkk]; exact hseen k' hm
        rw [this]
        simpa using hk
    · cases h

/-- **every accepted trace passes `regOnce`** -/
theorem regOnce_sound (P : Program) (F : Flags) (n : Nat) (tr : List Label) (c : Config)
    (h : replay P F (init n) tr = some c) : regOnce tr [] = true :=
  regOnce_sound_gen P F tr (init n) c [] (by intro k hk; cases hk) h

set_option maxHeartbeats 1000000 in
/-- `exec` is entered by `register` only -/
theorem stepLocal_exec (F : Flags) (o : Obs) (x : Act) (ev : Ev) (y : Act) (eff : Eff)
    (h : stepLocal F o x ev = some (y, eff)) (hy : y.phase = .exec) : ∃ k, ev = .register k := by
  step_local_cases h
  all_goals (first
    | exact ⟨_, rfl⟩
    | (exfalso; cases hy; done)
    | (exfalso; have := stop_mid hy; cases this; done)
    | (exfalso; have := afterCmd_mid hy; cases this; done)
    | (exfalso; have := afterDefer_mid hy; cases this; done)
    | (exfalso; have := next_mid hy; cases this; done))

end TaskModel.Sched
