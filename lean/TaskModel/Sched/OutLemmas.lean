import TaskModel.Sched.WaiterLemmas
import TaskModel.Sched.MonC01
/-!
Sched.OutLemmas — the shape of outcomes and results in every reachable configuration
(model of the patched `RunTask`: the execution ends with the *bare* failure, marked if it is
of the wrappable kind; every activation sharing it wraps it according to its own call).

* `ShapeOut`: an outcome never contains a `TaskRunError` (`Bare`), an unmarked outcome is
  never an exit status, a marked outcome is a failure.
* `Reach_sound`: in every reachable configuration every activation satisfies `StatusInv`,
  `OutInv` (`res = wrapFor indirect out`) and `Shape` (its outcome and the result of the
  `task:` entry it was handed back are well shaped).  This is a global invariant: a caller
  takes its callee's result, a dependent one of its dependencies' results, a waiter the
  outcome of the execution it waited for.
* corollaries: `res_direct`, `res_indirect` — a directly called task returns
  `TaskRunError{bare}` for a marked outcome and the unmarked error otherwise, never a bare
  exit status, never a doubly wrapped error; a task called through `deps:` / `task:`
  returns the bare error.
-/
namespace TaskModel.Sched.S2

/-- not a `TaskRunError` -/
def Bare (r : Res) : Prop := ∀ q, r ≠ .run q

structure ShapeOut (o : Outcome) : Prop where
  bare : Bare o.err
  plain : o.wrappable = false → ∀ n, o.err ≠ .exit n
  marked : o.wrappable = true → o.err.isOk = false

structure Shape (x : Act) : Prop where
  out : ShapeOut x.out
  callRes : Bare x.callRes

theorem Bare_ok : Bare .ok := fun _ h => by cases h
theorem Bare_ctx : Bare .ctx := fun _ h => by cases h
theorem Bare_generic : Bare .generic := fun _ h => by cases h
theorem Bare_typed (c : Nat) : Bare (.typed c) := fun _ h => by cases h
theorem Bare_exit (n : Nat) : Bare (.exit n) := fun _ h => by cases h

theorem ShapeOut.mkPlain (r : Res) (hb : Bare r) (hne : ∀ n, r ≠ .exit n) : ShapeOut ⟨r, false⟩ :=
  ⟨hb, fun _ => hne, fun h => (by cases h)⟩
theorem ShapeOut.mkMarked (r : Res) (hb : Bare r) (hok : r.isOk = false) : ShapeOut ⟨r, true⟩ :=
  ⟨hb, fun h => (by cases h), fun _ => hok⟩

theorem Bare_shellRes (c : Cmd) : Bare (shellRes c) := by
  intro q
  cases c with
  | shell n ie d =>
    cases n with
    | zero => simp [shellRes]
    | succ m => simp only [shellRes]; split <;> simp
  | call t d => simp [shellRes]

theorem Bare_altRes (c : Cmd) : Bare (altRes c) := by
  intro q
  cases c with
  | shell n ie d =>
    simp only [altRes]; split
    · simp
    · exact Bare_shellRes _ q
  | call t d => simp [altRes]

theorem ShapeOut_default : ShapeOut {} := ShapeOut.mkPlain .ok Bare_ok (fun _ h => by cases h)

theorem ShapeOut_depOut (r : Res) (hb : Bare r) (hok : r.isOk = false) : ShapeOut (depOut r) := by
  cases r with
  | exit n => exact ShapeOut.mkMarked _ (Bare_exit n) rfl
  | run q => exact absurd rfl (hb q)
  | ok => cases hok
  | ctx => exact ShapeOut.mkPlain _ Bare_ctx (fun _ h => by cases h)
  | generic => exact ShapeOut.mkPlain _ Bare_generic (fun _ h => by cases h)
  | typed c => exact ShapeOut.mkPlain _ (Bare_typed c) (fun _ h => by cases h)

theorem Shape_fresh (P : Program) (F : Flags) (c : Config) (kind : Kind) (t : Nat) :
    Shape (freshAct P F c kind t) := by
  simp only [freshAct]
  cases h : earlyResult P[t]? (c.callCount t + 1) F.maxCalls with
  | none => exact ⟨ShapeOut_default, Bare_ok⟩
  | some r =>
    have hr : r = .ok ∨ r = .generic ∨ ∃ k, r = .typed k := by
      unfold earlyResult at h
      split at h
      · cases h; exact .inr (.inr ⟨_, rfl⟩)
      · repeat' split at h
        all_goals cases h
        all_goals first | exact .inl rfl | exact .inr (.inl rfl) | exact .inr (.inr ⟨_, rfl⟩)
    refine ⟨ShapeOut.mkPlain r ?_ ?_, Bare_ok⟩
    · rcases hr with e | e | ⟨k, e⟩ <;> rw [e]
      · exact Bare_ok
      · exact Bare_generic
      · exact Bare_typed k
    · intro n hq
      rcases hr with e | e | ⟨k, e⟩ <;> (rw [e] at hq; cases hq)

theorem fail_Shape (z : Act) (e : Res) (hb : Bare e) (hok : e.isOk = false) (hc : Bare z.callRes) : Shape (z.fail e) :=
  ⟨ShapeOut.mkMarked e hb hok, hc⟩

theorem next_Shape (x : Act) (cs : List Cmd) (i : Nat) (h : Shape x) : Shape (x.next cs i) :=
  ⟨by rw [next_out]; exact h.out, by rw [(next_more x cs i).2.2.1]; exact h.callRes⟩

theorem afterDefer_Shape (x : Act) (h : Shape x) : Shape x.afterDefer :=
  ⟨by rw [afterDefer_out]; exact h.out, by rw [(afterDefer_fields x).2.2.2.1]; exact h.callRes⟩

theorem afterCmd_Shape (x : Act) (c : Cmd) (r : Res) (h : Shape x) (hb : Bare r) : Shape (x.afterCmd c r) := by
  have hn := next_Shape x x.rest.tail (x.idx + 1) h
  have hf : ∀ (z : Act) (e : Res), z.callRes = x.callRes → Bare e → e.isOk = false → Shape (z.fail e) :=
    fun z e hz h1 h2 => fail_Shape z e h1 h2 (by rw [hz]; exact h.callRes)
  cases r with
  | run q => exact absurd rfl (hb q)
  | ok =>
    have : x.afterCmd c .ok = x.next x.rest.tail (x.idx + 1) := by
      cases c with
      | shell k ie d => cases ie <;> rfl
      | call t d => rfl
    rw [this]; exact hn
  | exit n =>
    cases c with
    | shell k ie d =>
      cases ie with
      | true => exact hn
      | false =>
        simp only [Act.afterCmd]
        split
        · exact hn
        · exact hf _ _ rfl (fun _ h => (by cases h)) rfl
    | call t d =>
      simp only [Act.afterCmd]
      split
      · exact hn
      · exact hf _ _ rfl (fun _ h => (by cases h)) rfl
  | ctx =>
    cases c with
    | shell k ie d => cases ie <;> exact hf _ _ rfl (fun _ h => (by cases h)) rfl
    | call t d => exact hf _ _ rfl (fun _ h => (by cases h)) rfl
  | generic =>
    cases c with
    | shell k ie d => cases ie <;> exact hf _ _ rfl (fun _ h => (by cases h)) rfl
    | call t d => exact hf _ _ rfl (fun _ h => (by cases h)) rfl
  | typed k' =>
    cases c with
    | shell k ie d => cases ie <;> exact hf _ _ rfl (fun _ h => (by cases h)) rfl
    | call t d => exact hf _ _ rfl (fun _ h => (by cases h)) rfl

/-- one local step keeps the shape, provided what the activation reads from the rest of the
configuration is well shaped: the result of its callee, the results of its dependencies,
the outcome of the execution it waits for -/
theorem Shape_local (F : Flags) (o : Obs) (x : Act) (ev : Ev) (y : Act) (eff : Eff) (hS : Shape x)
    (hkid : ∀ r, o.callKid () = some r → Bare r)
    (hdeps : ∀ rs r, o.deps () = some rs → r ∈ rs → Bare r)
    (hexec : ∀ q, o.execResult () = some q → ShapeOut q)
    (h : stepLocal F o x ev = some (y, eff)) : Shape y := by
  have hL := LStep_of_stepLocal F o x ev y eff h
  have plain : ∀ r : Res, Bare r → (∀ n, r ≠ .exit n) → Shape (x.stop r) :=
    fun r h1 h2 => ⟨ShapeOut.mkPlain r h1 h2, hS.callRes⟩
  cases hL with
  | guardsPassed hp hc => exact next_Shape x _ _ hS
  | cmdEndBody i r cmd tl hp hr hc hs =>
    refine afterCmd_Shape x cmd r hS ?_
    rcases hs with e | e | e | e <;> rw [e]
    · exact Bare_ctx
    · exact Bare_generic
    · exact Bare_shellRes _
    · exact Bare_altRes _
  | callReacqBody i cmd tl hp hc hr =>
    exact afterCmd_Shape { x with holds := true } cmd x.callRes ⟨hS.out, hS.callRes⟩ hS.callRes
  | callReacqDefer i hp hc => exact afterDefer_Shape { x with holds := true } ⟨hS.out, hS.callRes⟩
  | cmdEndDefer j r cmd hp hd hs => exact afterDefer_Shape x hS
  | callRet i d r hp hk => exact ⟨hS.out, hkid r hk⟩
  | depsDoneFail r rs hp hd hr hm =>
    exact ⟨ShapeOut_depOut r (hdeps rs r hd (by simpa using hm)) hr, hS.callRes⟩
  | wWake r hp he => exact ⟨hexec r he, hS.callRes⟩
  | ctxErr hp hc => exact plain _ Bare_ctx (fun _ h => by cases h)
  | precondFail hp hc => exact plain _ Bare_generic (fun _ h => by cases h)
  | upToDate hp hc => exact plain _ Bare_ok (fun _ h => by cases h)
  | promptFail hp hc =>
    refine plain _ ?_ ?_
    · unfold promptRes; split
      · exact Bare_generic
      · exact Bare_typed _
    · intro n h; unfold promptRes at h; split at h <;> cases h
  | waitCycle k hp hr hk hcyc => exact plain _ (Bare_typed _) (fun _ h => by cases h)
  | _ => exact ⟨hS.out, hS.callRes⟩

/-! ### the global invariant -/

/-- a result in `depResults` is the result of a finished activation recorded as a dependency kid -/
theorem depResults_mem (c : Config) (x : Act) (n j0 : Nat) (rs : List Res) (h : depResults c x n j0 = some rs)
    (r : Res) (hr : r ∈ rs) : ∃ j id, x.kids.lookup (slotOfDep j) = some id ∧ kidDone c id = some r := by
  induction n generalizing j0 rs with
  | zero =>
    simp only [depResults] at h
    cases h; cases hr
  | succ n ih =>
    simp only [depResults] at h
    split at h
    · cases h
    · rename_i id hid
      split at h
      · rename_i r0 rs' hr0 hrs
        cases h
        rcases List.mem_cons.mp hr with e | e
        · subst e; exact ⟨j0, id, hid, hr0⟩
        · exact ih _ _ hrs e
      · cases h

/-- the `k`-th call given to `Run` is served by an activation of kind `top k` -/
def TopsKind (c : Config) : Prop :=
  ∀ k id, c.tops.lookup k = some id → ∃ x, c.act? id = some x ∧ x.kind = .top k

theorem bumpCalls_tops (P : Program) (c : Config) (t : Nat) : (bumpCalls P c t).tops = c.tops := by
  unfold bumpCalls; split
  · split <;> rfl
  · rfl

theorem enterAct_tops (P : Program) (F : Flags) (c c' : Config) (a : Nat) (kind : Kind) (t : Nat)
    (h : enterAct P F c a kind t = some c') :
    (∃ k, kind = .top k ∧ c'.tops = (k, a) :: c.tops) ∨ c'.tops = c.tops := by
  unfold enterAct at h
  split at h
  · cases h
  · split at h
    · cases h
    · rename_i k hc
      cases h
      exact .inl ⟨k, enterCheck_top F c a kind t k hc, rfl⟩
    · cases h
      exact .inr (bumpCalls_tops P c t)

theorem TopsKind_step (P : Program) (F : Flags) (c c' : Config) (l : Label) (hT : TopsKind c)
    (hs : step P F c l = some c') : TopsKind c' := by
  intro k id hlk
  rcases step_cases P F c c' l hs with ⟨kd, t, _, hen⟩ | ⟨_, x, y, eff, hx, hl, rfl⟩
  · obtain ⟨hnone, hnew, hoth⟩ := enterAct_acts' P F c c' l.act kd t hen
    have hold : ∀ k id, c.tops.lookup k = some id → ∃ x, c'.act? id = some x ∧ x.kind = .top k := by
      intro k id h0
      obtain ⟨x, hx, hk⟩ := hT k id h0
      have hne : id ≠ l.act := by intro e; subst e; rw [hx] at hnone; cases hnone
      rcases hoth id hne with h1 | ⟨px, slot, h1, h2, _⟩
      · exact ⟨x, by rw [h1]; exact hx, hk⟩
      · rw [hx] at h1; cases h1
        exact ⟨_, h2, hk⟩
    rcases enterAct_tops P F c c' l.act kd t hen with ⟨k0, hkd, ht⟩ | ht
    · rw [ht] at hlk
      by_cases hk : k = k0
      · subst hk
        rw [lookup_cons_self] at hlk; cases hlk
        exact ⟨_, hnew, by rw [(freshAct_fields P F c kd t).2.2.2.2.2.2.2.2.2.2.1, hkd]⟩
      · rw [lookup_cons_ne _ _ _ _ hk] at hlk
        exact hold k id hlk
    · rw [ht] at hlk; exact hold k id hlk
  · have ht : ((applyEff c l.act eff).set l.act y).tops = c.tops := by cases eff <;> rfl
    rw [ht] at hlk
    obtain ⟨x0, hx0, hk⟩ := hT k id hlk
    by_cases hid : id = l.act
    · subst hid
      rw [hx] at hx0; cases hx0
      exact ⟨y, by simp, by rw [(stepLocal_frame F _ x l.ev y eff hl).1.2.2.1]; exact hk⟩
    · exact ⟨x0, by rw [act?_set_other _ _ _ _ hid, act?_applyEff]; exact hx0, hk⟩

structure Reach (c : Config) : Prop where
  kid : KidInv c
  tops : TopsKind c
  acts : ∀ a x, c.act? a = some x → StatusInv x ∧ OutInv x ∧ Shape x

/-- a recorded kid that has finished returned a bare error: it was not called directly -/
theorem Reach.kid_bare {c : Config} (hR : Reach c) (p : Nat) (px : Act) (slot id : Nat) (r : Res)
    (hp : c.act? p = some px) (hl : px.kids.lookup slot = some id) (hd : kidDone c id = some r) : Bare r := by
  obtain ⟨k, hk, hko⟩ := hR.kid p px slot id hp hl
  obtain ⟨k', hk', _, hres⟩ := (kidDone_some c id r).mp hd
  rw [hk] at hk'; cases hk'
  obtain ⟨hst, hout, hsh⟩ := hR.acts id k hk
  have hind : k.indirect = true := by
    rw [hst.2.1]
    rcases hko with ⟨j, _, e, _⟩ | ⟨i, d, _, e, _⟩ <;> rw [e]
  rw [← hres, hout, hind, wrapFor_indirect]
  exact hsh.out.bare

theorem Reach_init (n : Nat) : Reach (init n) :=
  ⟨KidInv_init n, by intro k id h; simp [init] at h, by intro a x hx; simp [init, Config.act?] at hx⟩

theorem Reach_step (P : Program) (F : Flags) (c c' : Config) (l : Label) (hR : Reach c)
    (hs : step P F c l = some c') : Reach c' := by
  refine ⟨KidInv_step P F c c' l hR.kid hs, TopsKind_step P F c c' l hR.tops hs, ?_⟩
  intro b z hz
  rcases step_cases P F c c' l hs with ⟨kd, t, _, hen⟩ | ⟨_, x, y, eff, hx, hl, rfl⟩
  · obtain ⟨hnone, hnew, hoth⟩ := enterAct_acts' P F c c' l.act kd t hen
    by_cases hb : b = l.act
    · subst hb
      rw [hnew] at hz; cases hz
      exact ⟨StatusInv_fresh P F c kd t, OutInv_fresh P F c kd t, Shape_fresh P F c kd t⟩
    · rcases hoth b hb with h1 | ⟨px, slot, h1, h2, _⟩
      · rw [h1] at hz; exact hR.acts b z hz
      · rw [h2] at hz; cases hz
        obtain ⟨g1, g2, g3⟩ := hR.acts b px h1
        exact ⟨g1, g2, ⟨g3.out, g3.callRes⟩⟩
  · by_cases hb : b = l.act
    · subst hb
      rw [act?_set_self] at hz; cases hz
      obtain ⟨g1, g2, g3⟩ := hR.acts _ x hx
      refine ⟨StatusInv_local F _ x l.ev z eff g1 hl, OutInv_local F _ x l.ev z eff g2 hl, ?_⟩
      refine Shape_local F _ x l.ev z eff g3 ?_ ?_ ?_ hl
      · intro r hr
        simp only [obsOf, callKidOf] at hr
        split at hr
        · split at hr
          · rename_i id hid
            exact hR.kid_bare _ x _ id r hx hid hr
          · cases hr
        · cases hr
      · intro rs r hrs hr
        simp only [obsOf] at hrs
        obtain ⟨j, id, h1, h2⟩ := depResults_mem c x _ _ rs hrs r hr
        exact hR.kid_bare _ x _ id r hx h1 h2
      · intro q hq
        simp only [obsOf] at hq
        cases hw : x.waitsFor with
        | none => rw [hw] at hq; simp [execResultOf] at hq
        | some k =>
          rw [hw] at hq
          obtain ⟨e, ex, _, hex, _, ho⟩ := (execResultOf_some c k q).mp hq
          rw [← ho]; exact (hR.acts e ex hex).2.2.out
    · rw [act?_set_other _ _ _ _ hb, act?_applyEff] at hz
      exact hR.acts b z hz

theorem Reach_sound (P : Program) (F : Flags) (n : Nat) (tr : List Label) (c : Config)
    (h : replay P F (init n) tr = some c) : Reach c :=
  replay_inv P F Reach (fun c l c' hi hs => Reach_step P F c c' l hi hs) (init n) tr c (Reach_init n) h

theorem Shape_sound (P : Program) (F : Flags) (n : Nat) (tr : List Label) (c : Config)
    (h : replay P F (init n) tr = some c) (a : Nat) (x : Act) (hx : c.act? a = some x) : Shape x :=
  ((Reach_sound P F n tr c h).acts a x hx).2.2

/-- the error a dependency group reports (`depsDone r`) is never a `TaskRunError` -/
theorem step_depsDone_bare (P : Program) (F : Flags) (c c' : Config) (a : Nat) (r : Res) (hR : Reach c)
    (hs : step P F c ⟨a, .depsDone r⟩ = some c') : Bare r := by
  obtain ⟨x, y, eff, hx, hl, _⟩ := step_local_of P F c c' a _ (fun _ _ e => by cases e) hs
  have hL := LStep_of_stepLocal F _ x _ y eff hl
  cases hL with
  | depsDoneOk _ rs hp hd hr ha => rw [isOk_eq_ok r hr]; exact Bare_ok
  | depsDoneFail _ rs hp hd hr hm =>
    simp only [obsOf] at hd
    obtain ⟨j, id, h1, h2⟩ := depResults_mem c x _ _ rs hd r (by simpa using hm)
    exact hR.kid_bare a x _ id r hx h1 h2

/-! ### what `Run` returns -/

theorem precheck_typed (P : Program) : ∀ (ts : List Nat) (e : Res), precheck P ts = some e → ∃ k, e = .typed k := by
  intro ts
  induction ts with
  | nil => intro e h; cases h
  | cons t ts ih =>
    intro e h
    simp only [precheck] at h
    split at h
    · cases h; exact ⟨_, rfl⟩
    · split at h
      · cases h; exact ⟨_, rfl⟩
      · exact ih e h

theorem seqResult_top (c : Config) : ∀ (n k : Nat) (r : Res), seqResult c n k = some r →
    r = .ok ∨ ∃ k' id, c.tops.lookup k' = some id ∧ kidDone c id = some r := by
  intro n
  induction n with
  | zero => intro k r h; simp only [seqResult] at h; cases h; exact .inl rfl
  | succ n ih =>
    intro k r h
    simp only [seqResult] at h
    split at h
    · cases h
    · rename_i id hid
      split at h
      · cases h
      · rename_i r0 hr0
        split at h
        · exact ih _ _ h
        · split at h
          · cases h; exact .inr ⟨k, id, hid, hr0⟩
          · cases h

theorem parResults_top (c : Config) : ∀ (n k : Nat) (rs : List Res), parResults c n k = some rs →
    ∀ r, r ∈ rs → ∃ k' id, c.tops.lookup k' = some id ∧ kidDone c id = some r := by
  intro n
  induction n with
  | zero => intro k rs h r hr; simp only [parResults] at h; cases h; cases hr
  | succ n ih =>
    intro k rs h r hr
    simp only [parResults] at h
    split at h
    · cases h
    · rename_i id hid
      split at h
      · rename_i r0 rs' hr0 hrs
        cases h
        rcases List.mem_cons.mp hr with e | e
        · subst e; exact ⟨k, id, hid, hr0⟩
        · exact ih _ _ hrs r e
      · cases h

/-- the error `Run` returned in a run the final check accepts: success, the pre-check's typed
error (unknown / internal task), or the result of one of the top-level activations -/
theorem finalCheck_result (P : Program) (F : Flags) (calls : List Nat) (c : Config) (result : Res)
    (h : finalCheck P F calls c result = none) :
    result = .ok ∨ (∃ k, result = .typed k) ∨ ∃ k id, c.tops.lookup k = some id ∧ kidDone c id = some result := by
  unfold finalCheck at h
  split at h
  · rename_i e he
    split at h
    · cases h
    · split at h
      · cases h
      · rename_i hne
        obtain ⟨k, hk⟩ := precheck_typed P calls e he
        exact .inr (.inl ⟨k, by rw [Decidable.not_not.mp hne, hk]⟩)
  · split at h
    · cases h
    · split at h
      · cases h
      · split at h
        · split at h
          · cases h
          · rename_i rs hrs
            split at h
            · rename_i hok; exact .inl (isOk_eq_ok _ hok)
            · split at h
              · rename_i hc
                exact .inr (.inr (parResults_top c _ _ rs hrs result (by simpa using hc)))
              · cases h
        · split at h
          · cases h
          · rename_i r hr
            split at h
            · rename_i he; subst he
              rcases seqResult_top c _ _ _ hr with e | e
              · exact .inl e
              · exact .inr (.inr e)
            · cases h

/-! ### what a result looks like -/

/-- success and failure are the outcome's, whoever wraps it -/
theorem wrapFor_isOk (b : Bool) (o : Outcome) (h : ShapeOut o) : (wrapFor b o).isOk = o.err.isOk := by
  unfold wrapFor
  split
  · rename_i hw
    cases b
    · rw [h.marked hw]; rfl
    · rfl
  · rfl

/-- a directly called task: `TaskRunError{bare error}` for a marked outcome (a failing command
or a dependency's exit status), the unmarked error otherwise -/
theorem wrapFor_direct (o : Outcome) : wrapFor false o = if o.wrappable then .run o.err else o.err := by
  unfold wrapFor; split <;> rfl

theorem wrapFor_direct_ne_exit (o : Outcome) (h : ShapeOut o) (n : Nat) : wrapFor false o ≠ .exit n := by
  rw [wrapFor_direct]
  split
  · intro e; cases e
  · rename_i hw; exact h.plain (by simpa using hw) n

theorem wrapFor_not_double (b : Bool) (o : Outcome) (h : ShapeOut o) (q : Res) : wrapFor b o ≠ .run (.run q) := by
  unfold wrapFor
  split
  · cases b
    · simp only [Bool.false_eq_true, if_false]
      intro e; exact h.bare q (Res.run.inj e)
    · simp only [if_true]; exact h.bare _
  · exact h.bare _

end TaskModel.Sched.S2
