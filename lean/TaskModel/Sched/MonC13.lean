import TaskModel.Sched.TokenLemmas
/-!
Sched.MonC13 — definitions and helper lemmas for C13: which guards fail (`earlyBlocked`:
decided at `enter`; `lateBlocked`: decided in phase `guards`), the per-activation monitor
`noCmdMon` (an activation of a guarded task starts no command), its relation to the model
state, and its link to the raw monitor `guardedNoCmd`.
-/
namespace TaskModel.Sched.S7

/-- a guard checked before a slot is taken fails: platform, `requires`, compilation, enum -/
def earlyBlocked (d : TaskDef) : Bool := !d.platformOk || !d.requiresOk || !d.compileOk || !d.enumOk
/-- a guard checked after the dependencies fails: precondition, prompt without `--yes` -/
def lateBlocked (F : Flags) (d : TaskDef) : Bool := !d.precondOk || (d.prompt && !F.yes)
/-- some guard fails (the expression `guardedNoCmd` uses) -/
def blockedD (F : Flags) (d : TaskDef) : Bool :=
  !d.platformOk || !d.requiresOk || !d.compileOk || !d.enumOk || !d.precondOk || (d.prompt && !F.yes)

theorem blockedD_split (F : Flags) (d : TaskDef) : blockedD F d = (earlyBlocked d || lateBlocked F d) := by
  simp [blockedD, earlyBlocked, lateBlocked, Bool.or_assoc]

/-- what `earlyResult` answers for a failing early guard -/
def earlyRes (d : TaskDef) : Option Res :=
  if !d.platformOk then some .ok
  else if !d.requiresOk then some (.typed 206)
  else if !d.compileOk then some .generic
  else if !d.enumOk then some (.typed 207)
  else none

theorem earlyRes_some (d : TaskDef) : (earlyRes d).isSome = earlyBlocked d := by
  unfold earlyRes earlyBlocked
  cases d.platformOk <;> cases d.requiresOk <;> cases d.compileOk <;> cases d.enumOk <;> rfl

/-- phases in which no command of the activation is or has been running -/
def cmdFree : Phase → Bool
  | .body | .inShell _ _ | .inCall _ _ | .callReturned _ _ | .defers => false
  | _ => true

/-- the events that start a command (shell or `task:`) -/
def isCmdEv : Ev → Bool
  | .cmdStart _ _ _ | .callRelease _ _ => true
  | _ => false

/-- C13 on the raw events of one activation: the first event is `enter`, which fixes
whether a guard of the task fails; if so no command ever starts.  State: `none` before
`enter`, then `some blocked`. -/
def noCmdMon (P : Program) (F : Flags) : ActMon (Option Bool) where
  init := none
  step s ev :=
    match s, ev with
    | none, .enter _ t => some (some (match P[t]? with | some d => blockedD F d | none => false))
    | none, _ => none
    | some _, .enter _ _ => none
    | some b, ev => if b && isCmdEv ev then none else some (some b)

/-! ### fresh activations -/

theorem freshAct_earlyRes (P : Program) (F : Flags) (c : Config) (kind : Kind) (t : Nat) (r : Res)
    (h : earlyRes (freshAct P F c kind t).def_ = some r) :
    (freshAct P F c kind t).phase = .early ∧ (freshAct P F c kind t).res = r := by
  have hd : (freshAct P F c kind t).def_ = (P[t]?).getD {} := (freshAct_fields P F c kind t).2.2.2.2.2.2.2.2.2.2.2.2.1
  rw [hd] at h
  cases hp : P[t]? with
  | none => rw [hp] at h; simp [earlyRes] at h
  | some d =>
    rw [hp] at h
    simp only [Option.getD_some] at h
    unfold freshAct earlyResult
    rw [hp]
    unfold earlyRes at h
    simp only
    split at h
    · rename_i h1; cases h; simp [h1]
    · rename_i h1
      split at h
      · rename_i h2; cases h; simp [h1, h2]
      · rename_i h2
        split at h
        · rename_i h3; cases h; simp [h1, h2, h3]
        · rename_i h3
          split at h
          · rename_i h4; cases h; simp [h1, h2, h3, h4]
          · cases h

theorem freshAct_unknown (P : Program) (F : Flags) (c : Config) (kind : Kind) (t : Nat) (h : P[t]? = none) :
    (freshAct P F c kind t).phase = .early ∧ (freshAct P F c kind t).res = .typed 200 := by
  simp [freshAct, earlyResult, h]

/-! ### the invariant of a guarded activation -/

/-- model state of an activation whose task has a failing guard -/
structure Guarded (F : Flags) (x : Act) : Prop where
  early : ∀ r, earlyRes x.def_ = some r →
    (x.phase = .early ∨ x.phase = .done) ∧ x.res = r ∧ x.holds = false
  late : lateBlocked F x.def_ = true → cmdFree x.phase = true
  quiet : blockedD F x.def_ = true → x.started = [] ∧ x.regs = [] ∧ x.ran = []

theorem guarded_fresh (P : Program) (F : Flags) (c : Config) (kind : Kind) (t : Nat) :
    Guarded F (freshAct P F c kind t) := by
  obtain ⟨hph, _, hrg, hrn, hst, _, hh, _⟩ := freshAct_fields P F c kind t
  constructor
  · intro r hr
    obtain ⟨h1, h2⟩ := freshAct_earlyRes P F c kind t r hr
    exact ⟨.inl h1, h2, hh⟩
  · intro _; rcases hph with e | e <;> rw [e] <;> rfl
  · intro _; exact ⟨hst, hrg, hrn⟩

set_option maxHeartbeats 1000000 in
/-- a late guard that fails keeps the activation out of the command loop -/
theorem stepLocal_late (F : Flags) (o : Obs) (x : Act) (ev : Ev) (y : Act) (eff : Eff)
    (hb : lateBlocked F x.def_ = true) (hc : cmdFree x.phase = true)
    (h : stepLocal F o x ev = some (y, eff)) :
    cmdFree y.phase = true ∧ y.started = x.started ∧ y.regs = x.regs ∧ y.ran = x.ran := by
  steplocal_cases h
  all_goals (try (simp_all [cmdFree, lateBlocked, Act.stop, Act.stopDeps]; done))
  all_goals (simp_all [cmdFree, lateBlocked])

theorem stepLocal_not_done (F : Flags) (o : Obs) (x : Act) (ev : Ev) (y : Act) (eff : Eff)
    (h : stepLocal F o x ev = some (y, eff)) : x.phase ≠ .done := by
  intro hp
  unfold stepLocal at h
  rw [hp] at h
  cases ev <;> simp at h

theorem guarded_local (F : Flags) (o : Obs) (x : Act) (ev : Ev) (y : Act) (eff : Eff)
    (hg : Guarded F x) (h : stepLocal F o x ev = some (y, eff)) : Guarded F y := by
  have hst := stepLocal_static F o x ev y eff h
  have hnd := stepLocal_not_done F o x ev y eff h
  constructor
  · intro r hr
    rw [hst.def_] at hr
    obtain ⟨hph, hres, hh⟩ := hg.early r hr
    rcases hph with e | e
    · obtain ⟨_, _, hy⟩ := stepLocal_early F o x ev y eff e h
      rw [hy]; exact ⟨.inr rfl, hres, hh⟩
    · exact absurd e hnd
  · intro hb
    rw [hst.def_] at hb
    exact (stepLocal_late F o x ev y eff hb (hg.late hb) h).1
  · intro hb
    rw [hst.def_] at hb
    obtain ⟨h1, h2, h3⟩ := hg.quiet hb
    rw [blockedD_split, Bool.or_eq_true] at hb
    rcases hb with hb | hb
    · rw [← earlyRes_some] at hb
      cases hr : earlyRes x.def_ with
      | none => rw [hr] at hb; cases hb
      | some r =>
        obtain ⟨hph, _, _⟩ := hg.early r hr
        rcases hph with e | e
        · obtain ⟨_, _, hy⟩ := stepLocal_early F o x ev y eff e h
          rw [hy]; exact ⟨h1, h2, h3⟩
        · exact absurd e hnd
    · obtain ⟨_, e1, e2, e3⟩ := stepLocal_late F o x ev y eff hb (hg.late hb) h
      exact ⟨by rw [e1, h1], by rw [e2, h2], by rw [e3, h3]⟩

theorem guarded_kids (F : Flags) (x : Act) (k : List (Nat × Nat)) (hg : Guarded F x) :
    Guarded F { x with kids := k } := ⟨hg.early, hg.late, hg.quiet⟩

/-- a guarded activation is never in a phase from which a command can start -/
theorem guarded_cmdFree (F : Flags) (x : Act) (hg : Guarded F x) (hb : blockedD F x.def_ = true) :
    cmdFree x.phase = true := by
  rw [blockedD_split, Bool.or_eq_true] at hb
  rcases hb with hb | hb
  · rw [← earlyRes_some] at hb
    cases hr : earlyRes x.def_ with
    | none => rw [hr] at hb; cases hb
    | some r =>
      rcases (hg.early r hr).1 with e | e <;> rw [e] <;> rfl
  · exact hg.late hb

/-! ### a failed precondition fails the activation -/

/-- phases after the body and its deferred entries -/
def postPhase : Phase → Bool
  | .finished | .execDoneP | .released | .done => true
  | _ => false

/-- phases of a deduplicated-task waiter -/
def waiterPhase13 : Phase → Bool
  | .wWaiting | .wReleased | .wWoken => true
  | _ => false

/-- the result of an activation whose precondition fails (and that is not a waiter for
another execution, whose outcome it would inherit) is an error as soon as it is decided -/
structure FailInv (x : Act) : Prop where
  waiter : waiterPhase13 x.phase = true → x.waitsFor ≠ none
  fails : x.def_.precondOk = false → earlyBlocked x.def_ = false → x.waitsFor = none →
    (postPhase x.phase = true ∨ x.phase = .early) → x.res.isOk = false

theorem failInv_fresh (P : Program) (F : Flags) (c : Config) (kind : Kind) (t : Nat) :
    FailInv (freshAct P F c kind t) := by
  obtain ⟨hph, _, _, _, _, _, _, _, _, _, _, _, hd, _⟩ := freshAct_fields P F c kind t
  constructor
  · intro h; rcases hph with e | e <;> rw [e] at h <;> cases h
  · intro hpre hearly _ hp
    rw [hd] at hpre hearly
    cases hP : P[t]? with
    | none => rw [hP] at hpre; simp at hpre
    | some d =>
      rw [hP] at hpre hearly
      simp only [Option.getD_some] at hpre hearly
      simp only [earlyBlocked, Bool.or_eq_false_iff, Bool.not_eq_false'] at hearly
      unfold freshAct earlyResult at hp ⊢
      rw [hP] at hp ⊢
      simp only [hearly.1.1, hearly.1.2, hearly.2, Bool.not_true, Bool.false_eq_true, if_false] at hp ⊢
      by_cases hlim : c.callCount t + 1 ≥ F.maxCalls
      · simp [hlim, Res.isOk]
      · simp [hlim, postPhase] at hp

set_option maxHeartbeats 1000000 in
theorem stepLocal_failInv (F : Flags) (o : Obs) (x : Act) (ev : Ev) (y : Act) (eff : Eff)
    (hpre : x.def_.precondOk = false) (hc : cmdFree x.phase = true)
    (hw : waiterPhase13 x.phase = true → x.waitsFor ≠ none)
    (hf : x.waitsFor = none → (postPhase x.phase = true ∨ x.phase = .early) → x.res.isOk = false)
    (h : stepLocal F o x ev = some (y, eff)) :
    (waiterPhase13 y.phase = true → y.waitsFor ≠ none) ∧
    (y.waitsFor = none → (postPhase y.phase = true ∨ y.phase = .early) → y.res.isOk = false) := by
  steplocal_cases h
  all_goals (try (simp_all [cmdFree, postPhase, waiterPhase13, Act.stop, Res.isOk]; done))
  all_goals (try (simp_all [cmdFree, postPhase, waiterPhase13, Act.stopDeps, depErr_isOk]; done))
  all_goals (simp_all [cmdFree, postPhase, waiterPhase13, Act.stop, Act.stopDeps, Res.isOk])

theorem waiter_after {p : Phase} (h : afterPhase p) {Q : Prop} : waiterPhase13 p = true → Q := by
  intro hy; rcases h with e | e | e <;> rw [e] at hy <;> cases hy

set_option maxHeartbeats 1000000 in
theorem stepLocal_waiter (F : Flags) (o : Obs) (x : Act) (ev : Ev) (y : Act) (eff : Eff)
    (hw : waiterPhase13 x.phase = true → x.waitsFor ≠ none)
    (h : stepLocal F o x ev = some (y, eff)) : waiterPhase13 y.phase = true → y.waitsFor ≠ none := by
  steplocal_cases h
  all_goals (try (simp_all [waiterPhase13, Act.stop, Act.stopDeps]; done))
  all_goals first
    | exact waiter_after (next_static _ _ _).2.2.2.2.2.2
    | exact waiter_after (afterCmd_static _ _ _).2.2.2.2.2
    | exact waiter_after (.inr (afterDefer_static _).2.2.2.2.2.2)

theorem failInv_local (F : Flags) (o : Obs) (x : Act) (ev : Ev) (y : Act) (eff : Eff)
    (hg : Guarded F x) (hi : FailInv x) (h : stepLocal F o x ev = some (y, eff)) : FailInv y := by
  have hst := stepLocal_static F o x ev y eff h
  refine ⟨stepLocal_waiter F o x ev y eff hi.waiter h, ?_⟩
  intro hpre hearly
  rw [hst.def_] at hpre hearly
  have hlate : lateBlocked F x.def_ = true := by simp [lateBlocked, hpre]
  exact (stepLocal_failInv F o x ev y eff hpre (hg.late hlate) hi.waiter (hi.fails hpre hearly) h).2

/-! ### monitor ↔ model -/

def noCmdR (F : Flags) (s : Option Bool) (x : Act) : Prop := s = some (blockedD F x.def_) ∧ Guarded F x

theorem noCmdR_fresh (P : Program) (F : Flags) (c : Config) (kind : Kind) (t : Nat) :
    ∃ s, (noCmdMon P F).step (noCmdMon P F).init (.enter kind t) = some s ∧ noCmdR F s (freshAct P F c kind t) := by
  have hd : (freshAct P F c kind t).def_ = (P[t]?).getD {} := (freshAct_fields P F c kind t).2.2.2.2.2.2.2.2.2.2.2.2.1
  refine ⟨_, rfl, ?_, guarded_fresh P F c kind t⟩
  rw [hd]
  cases P[t]? with
  | none => simp [blockedD]
  | some d => rfl

theorem noCmdR_local (P : Program) (F : Flags) (o : Obs) (s : Option Bool) (x : Act) (ev : Ev) (y : Act) (eff : Eff)
    (hR : noCmdR F s x) (h : stepLocal F o x ev = some (y, eff)) :
    ∃ s', (noCmdMon P F).step s ev = some s' ∧ noCmdR F s' y := by
  obtain ⟨hs, hg⟩ := hR
  have hst := stepLocal_static F o x ev y eff h
  obtain ⟨hc1, _, hc3⟩ := stepLocal_cmd F o x ev y eff h
  subst hs
  refine ⟨some (blockedD F x.def_), ?_, by rw [hst.def_], guarded_local F o x ev y eff hg h⟩
  have hne : ∀ k t, ev ≠ .enter k t := by
    intro k t e; rw [e] at h; simp [stepLocal] at h
  have hcmd : (blockedD F x.def_ && isCmdEv ev) = false := by
    cases hb : blockedD F x.def_ with
    | false => rfl
    | true =>
      have hf := guarded_cmdFree F x hg hb
      cases ev <;> simp only [isCmdEv, Bool.and_false, Bool.and_true]
      · rcases (hc1 _ _ _ rfl).1 with e | e <;> rw [e] at hf <;> cases hf
      · rcases (hc3 _ _ rfl).1 with e | e <;> rw [e] at hf <;> cases hf
  cases ev with
  | enter k t => exact absurd rfl (hne k t)
  | _ => simp only [noCmdMon, hcmd]; rfl

/-! ### link to the raw monitor `guardedNoCmd` -/

def firstEnter : List Ev → Option (Kind × Nat)
  | [] => none
  | .enter k t :: _ => some (k, t)
  | _ :: r => firstEnter r

theorem enterOf_evs (a : Nat) (tr : List Label) : enterOf a tr = firstEnter (evsOf a tr) := by
  induction tr with
  | nil => rfl
  | cons l ls ih =>
    simp only [enterOf, evsOf]
    split
    · cases hev : l.ev <;> simp [firstEnter, ih]
    · exact ih

theorem noCmdMon_tail (P : Program) (F : Flags) : ∀ (evs : List Ev),
    ((noCmdMon P F).run (some true) evs).isSome = true → evs.all (fun e => !isCmdEv e) = true := by
  intro evs
  induction evs with
  | nil => intro _; rfl
  | cons e es ih =>
    intro h
    simp only [ActMon.run] at h
    cases hs : (noCmdMon P F).step (some true) e with
    | none => rw [hs] at h; cases h
    | some s' =>
      rw [hs] at h
      simp only at h
      have : isCmdEv e = false ∧ s' = some true := by
        cases e <;> simp [noCmdMon, isCmdEv] at hs ⊢ <;> exact hs.symm
      rw [this.2] at h
      simp [List.all_cons, this.1, ih h]

theorem noCmdMon_accept (P : Program) (F : Flags) (evs : List Ev)
    (h : ((noCmdMon P F).run (noCmdMon P F).init evs).isSome = true) :
    match firstEnter evs with
    | none => True
    | some (_, t) => ∀ d, P[t]? = some d → blockedD F d = true → evs.all (fun e => !isCmdEv e) = true := by
  cases evs with
  | nil => trivial
  | cons e es =>
    simp only [ActMon.run] at h
    cases e with
    | enter k t =>
      simp only [firstEnter]
      intro d hd hb
      have hs : (noCmdMon P F).step (noCmdMon P F).init (.enter k t) = some (some true) := by
        simp [noCmdMon, hd, hb]
      rw [hs] at h
      simp only at h
      have ht := noCmdMon_tail P F es h
      rw [List.all_cons, ht]; rfl
    | _ => simp [noCmdMon] at h

end TaskModel.Sched.S7
