import TaskModel.Sched.MonC07
import TaskModel.Sched.MonC13
import TaskModel.Sched.ProgressLemmas
/-!
Sched.LiveLemmas — invariants behind deadlock freedom: the dedup bookkeeping of one
activation (`key`, `waitsFor`), the child table (`kids`) against the activation table, the
registered executions, "dependencies joined ⇒ all of them returned", and the link between
activations and the events of the trace.
-/
namespace TaskModel.Sched.S7

/-! ### dedup bookkeeping of one activation -/

def preStart : Phase → Bool
  | .early | .entered | .acquired => true
  | _ => false

structure KeyInv (x : Act) : Prop where
  pre : preStart x.phase = true → x.key = none ∧ x.waitsFor = none
  excl : x.key ≠ none → x.waitsFor = none
  waiter : waiterPhase13 x.phase = true → x.waitsFor ≠ none

theorem keyInv_fresh (P : Program) (F : Flags) (c : Config) (kind : Kind) (t : Nat) :
    KeyInv (freshAct P F c kind t) := by
  obtain ⟨hph, _, _, _, _, _, _, hk, hw, _⟩ := freshAct_fields P F c kind t
  refine ⟨fun _ => ⟨hk, hw⟩, fun _ => hw, ?_⟩
  intro h; rcases hph with e | e <;> rw [e] at h <;> cases h

theorem keys_same (o : Obs) (x y : Act) (ev : Ev) (eff : Eff) (hk : y.key = x.key) (hw : y.waitsFor = x.waitsFor)
    (hp : afterPhase y.phase) (he : ∀ k, eff ≠ .reg k) :
    (preStart y.phase = true → y.key = none ∧ y.waitsFor = none) ∧
    (∀ k, y.key = some k → x.key = some k ∨ (ev = .register k ∧ x.waitsFor = none)) ∧
    (∀ k, y.waitsFor = some k → x.waitsFor = some k ∨ (ev = .waiter k ∧ o.registered k = true ∧ x.key = none)) ∧
    (∀ k, x.key = some k → y.key = some k) ∧
    (∀ k, x.waitsFor = some k → y.waitsFor = some k) ∧
    (∀ k, eff = .reg k → y.key = some k) := by
  refine ⟨?_, ?_, ?_, ?_, ?_, ?_⟩
  · intro h; rcases hp with e | e | e <;> rw [e] at h <;> cases h
  · intro k h; left; rw [← hk]; exact h
  · intro k h; left; rw [← hw]; exact h
  · intro k h; rw [hk]; exact h
  · intro k h; rw [hw]; exact h
  · intro k h; exact absurd h (he k)

set_option maxHeartbeats 1000000 in
/-- what a step does to `key` / `waitsFor` -/
theorem stepLocal_keys (F : Flags) (o : Obs) (x : Act) (ev : Ev) (y : Act) (eff : Eff)
    (hpre : preStart x.phase = true → x.key = none ∧ x.waitsFor = none)
    (h : stepLocal F o x ev = some (y, eff)) :
    (preStart y.phase = true → y.key = none ∧ y.waitsFor = none) ∧
    (∀ k, y.key = some k → x.key = some k ∨ (ev = .register k ∧ x.waitsFor = none)) ∧
    (∀ k, y.waitsFor = some k → x.waitsFor = some k ∨ (ev = .waiter k ∧ o.registered k = true ∧ x.key = none)) ∧
    (∀ k, x.key = some k → y.key = some k) ∧
    (∀ k, x.waitsFor = some k → y.waitsFor = some k) ∧
    (∀ k, eff = .reg k → y.key = some k) := by
  steplocal_cases h
  all_goals (try (simp_all [preStart, Act.stop, Act.stopDeps]; done))
  all_goals first
    | exact keys_same o x _ _ _ (next_static _ _ _).2.2.1 (next_static _ _ _).2.2.2.1
        (next_static _ _ _).2.2.2.2.2.2 (by intro k e; cases e)
    | exact keys_same o x _ _ _ (afterCmd_static _ _ _).2.2.1 (afterCmd_static _ _ _).2.2.2.1
        (afterCmd_static _ _ _).2.2.2.2.2 (by intro k e; cases e)
    | exact keys_same o x _ _ _ (afterDefer_static _).2.2.1 (afterDefer_static _).2.2.2.1
        (.inr (afterDefer_static _).2.2.2.2.2.2) (by intro k e; cases e)

theorem keyInv_local (F : Flags) (o : Obs) (x : Act) (ev : Ev) (y : Act) (eff : Eff)
    (hk : KeyInv x) (h : stepLocal F o x ev = some (y, eff)) : KeyInv y := by
  obtain ⟨h1, h2, h3, _, _, _⟩ := stepLocal_keys F o x ev y eff hk.pre h
  refine ⟨h1, ?_, stepLocal_waiter F o x ev y eff hk.waiter h⟩
  intro hne
  cases hyk : y.key with
  | none => exact absurd hyk hne
  | some k =>
    cases hyw : y.waitsFor with
    | none => rfl
    | some k' =>
      exfalso
      rcases h2 k hyk with hx | ⟨hev, hxw⟩
      · have hxw : x.waitsFor = none := hk.excl (by rw [hx]; simp)
        rcases h3 k' hyw with e | ⟨_, _, e⟩
        · rw [hxw] at e; cases e
        · rw [hx] at e; cases e
      · rcases h3 k' hyw with e | ⟨e, _, _⟩
        · rw [hxw] at e; cases e
        · rw [hev] at e; cases e

/-! ### an activation inside a `task:` command knows its callee -/

def CallOk (x : Act) : Prop := ∀ i d, x.phase = .inCall i d → ∃ t, x.def_.cmds[i]? = some (.call t d)

theorem afterPhase_ne_inCall {p : Phase} (h : afterPhase p) (i : Nat) (d : Bool) : p ≠ .inCall i d := by
  rcases h with e | e | e <;> rw [e] <;> simp

set_option maxHeartbeats 1000000 in
theorem callOk_local (F : Flags) (o : Obs) (x : Act) (ev : Ev) (y : Act) (eff : Eff)
    (hw : WF x) (_hc : CallOk x) (h : stepLocal F o x ev = some (y, eff)) : CallOk y := by
  unfold CallOk at _hc ⊢
  steplocal_cases h
  all_goals (try (simp_all [Act.stop, Act.stopDeps]; done))
  all_goals (try (first
    | (intro i d hp; exact absurd hp (afterPhase_ne_inCall (next_static _ _ _).2.2.2.2.2.2 i d))
    | (intro i d hp; exact absurd hp (afterPhase_ne_inCall (afterCmd_static _ _ _).2.2.2.2.2 i d))
    | (intro i d hp; exact absurd hp (afterPhase_ne_inCall (.inr (afterDefer_static _).2.2.2.2.2.2) i d))))
  -- callRelease from the body: the head of `rest` is `cmds[idx]`
  · rename_i hp _ tgt _ hr hcond
    simp only [Bool.and_eq_true, decide_eq_true_eq, Bool.not_eq_true'] at hcond
    obtain ⟨rfl, rfl⟩ := hcond
    obtain ⟨hrest, _⟩ := hw.rest (by rw [hp]; rfl)
    rw [hr] at hrest
    have := (drop_cons_get _ _ _ _ hrest.symm).1
    intro i d hpi
    simp only at hpi
    cases hpi
    exact ⟨tgt, this⟩

/-! ### everything local at once -/

structure LocalLive (P : Program) (x : Act) : Prop where
  wf : WF x
  keys : KeyInv x
  holds : HoldsInv x
  call : CallOk x
  static : x.def_ = (P[x.task]?).getD {}
  dedup : x.waitsFor ≠ none → x.def_.run ≠ .always

theorem stepLocal_waiter_run (F : Flags) (o : Obs) (x : Act) (k : Nat) (y : Act) (eff : Eff)
    (h : stepLocal F o x (.waiter k) = some (y, eff)) : x.def_.run ≠ .always := by
  intro hr
  unfold stepLocal at h
  split at h <;> simp_all

theorem localLive_fresh (P : Program) (F : Flags) (c : Config) (kind : Kind) (t : Nat) :
    LocalLive P (freshAct P F c kind t) := by
  obtain ⟨hph, _, _, _, _, _, _, _, hw, _, _, ht, hd, _⟩ := freshAct_fields P F c kind t
  refine ⟨WF_fresh P F c kind t, keyInv_fresh P F c kind t, holdsInv_fresh P F c kind t, ?_, by rw [hd, ht],
    fun h => absurd hw h⟩
  intro i d h; rcases hph with e | e <;> rw [e] at h <;> cases h

theorem localLive_local (P : Program) (F : Flags) (o : Obs) (x : Act) (ev : Ev) (y : Act) (eff : Eff)
    (hl : LocalLive P x) (h : stepLocal F o x ev = some (y, eff)) : LocalLive P y := by
  have hst := stepLocal_static F o x ev y eff h
  refine ⟨WF_local F o x ev y eff hl.wf h, keyInv_local F o x ev y eff hl.keys h,
    (stepLocal_holds F o x ev y eff hl.holds h).1, callOk_local F o x ev y eff hl.wf hl.call h,
    by rw [hst.def_, hst.task]; exact hl.static, ?_⟩
  intro hw
  rw [hst.def_]
  cases hyw : y.waitsFor with
  | none => exact absurd hyw hw
  | some k =>
    rcases (stepLocal_keys F o x ev y eff hl.keys.pre h).2.2.1 k hyw with e | ⟨e, _, _⟩
    · exact hl.dedup (by rw [e]; simp)
    · rw [e] at h; exact stepLocal_waiter_run F o x k y eff h

theorem localLive_kids (P : Program) (x : Act) (k : List (Nat × Nat)) (hl : LocalLive P x) :
    LocalLive P { x with kids := k } :=
  ⟨⟨hl.wf.rest, hl.wf.stack, hl.wf.defers, hl.wf.running⟩, ⟨hl.keys.pre, hl.keys.excl, hl.keys.waiter⟩,
   hl.holds, hl.call, hl.static, hl.dedup⟩

/-! ### stability of what other activations observe -/

/-- `enter` leaves every existing activation as it is, except for the parent's `kids` -/
theorem enter_old (P : Program) (F : Flags) (c c' : Config) (a : Nat) (kind : Kind) (t : Nat)
    (h : enterAct P F c a kind t = some c') (b : Nat) (z : Act) (hz : c.act? b = some z) :
    b ≠ a ∧ ∃ ks, c'.act? b = some { z with kids := ks } ∧
      (ks = z.kids ∨ z.phase = .depsWait ∨ ∃ i d, z.phase = .inCall i d) := by
  obtain ⟨hnone, _, hoth⟩ := enterAct_acts P F c c' a kind t h
  have hba : b ≠ a := by intro e; subst e; rw [hnone] at hz; cases hz
  refine ⟨hba, ?_⟩
  rcases hoth b hba with e | ⟨px, slot, e1, e2, hph⟩
  · exact ⟨z.kids, by rw [e, hz], .inl rfl⟩
  · rw [hz] at e1; cases e1
    exact ⟨_, e2, .inr hph⟩

theorem kidDone_enter (P : Program) (F : Flags) (c c' : Config) (a : Nat) (kind : Kind) (t : Nat)
    (h : enterAct P F c a kind t = some c') (id : Nat) (r : Res) (hk : kidDone c id = some r) :
    kidDone c' id = some r := by
  unfold kidDone at hk ⊢
  cases hz : c.act? id with
  | none => rw [hz] at hk; cases hk
  | some z =>
    rw [hz] at hk
    obtain ⟨_, ks, e, _⟩ := enter_old P F c c' a kind t h id z hz
    rw [e]
    exact hk

theorem kidDone_local (F : Flags) (c : Config) (a : Nat) (x y : Act) (ev : Ev) (eff : Eff)
    (hx : c.act? a = some x) (hl : stepLocal F (obsOf F c a x) x ev = some (y, eff))
    (id : Nat) (r : Res) (hk : kidDone c id = some r) :
    kidDone ((applyEff c a eff).set a y) id = some r := by
  have hne : id ≠ a := by
    intro e; subst e
    unfold kidDone at hk
    rw [hx] at hk
    simp only at hk
    split at hk
    · rename_i hp; exact stepLocal_not_done F _ x ev y eff hl hp
    · cases hk
  unfold kidDone at hk ⊢
  rw [act?_set_other _ _ _ _ hne, act?_applyEff]
  exact hk

theorem depResults_stable (c c' : Config) (x : Act)
    (hst : ∀ id r, kidDone c id = some r → kidDone c' id = some r) :
    ∀ (n j : Nat) (rs : List Res), depResults c x n j = some rs → depResults c' x n j = some rs := by
  intro n
  induction n with
  | zero => intro j rs h; exact h
  | succ n ih =>
    intro j rs h
    simp only [depResults] at h ⊢
    cases hl : x.kids.lookup (slotOfDep j) with
    | none => rw [hl] at h; cases h
    | some id =>
      rw [hl] at h
      simp only at h ⊢
      cases hk : kidDone c id with
      | none => rw [hk] at h; cases h
      | some r =>
        rw [hk] at h
        cases hd : depResults c x n (j + 1) with
        | none => rw [hd] at h; cases h
        | some rs' =>
          rw [hd] at h
          rw [hst id r hk, ih (j + 1) rs' hd]
          exact h

theorem depResults_kids (c : Config) (x y : Act) (hk : y.kids = x.kids) :
    ∀ (n j : Nat), depResults c y n j = depResults c x n j := by
  intro n
  induction n with
  | zero => intro j; rfl
  | succ n ih => intro j; simp only [depResults, hk, ih]

theorem afterPhase_ne_depsJoined {p : Phase} (h : afterPhase p) : p ≠ .depsJoined := by
  rcases h with e | e | e <;> rw [e] <;> simp

set_option maxHeartbeats 1000000 in
theorem stepLocal_depsJoined (F : Flags) (o : Obs) (x : Act) (ev : Ev) (y : Act) (eff : Eff)
    (h : stepLocal F o x ev = some (y, eff)) (hy : y.phase = .depsJoined) :
    x.phase = .depsWait ∧ (o.deps ()).isSome = true := by
  steplocal_cases h
  all_goals (try (simp_all [Act.stop, Act.stopDeps]; done))
  all_goals first
    | exact absurd hy (afterPhase_ne_depsJoined (next_static _ _ _).2.2.2.2.2.2)
    | exact absurd hy (afterPhase_ne_depsJoined (afterCmd_static _ _ _).2.2.2.2.2)
    | exact absurd hy (afterPhase_ne_depsJoined (.inr (afterDefer_static _).2.2.2.2.2.2))

end TaskModel.Sched.S7
