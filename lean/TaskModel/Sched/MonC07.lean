import TaskModel.Sched.CountLemmas
/-!
Sched.MonC07 — definitions and helper lemmas for C07: the slot counter along a step,
the raw monitor `boundOk` as a simulation of it, the slot flag as a function of the
phase, the invariant "slots in use = activations holding one".
-/
namespace TaskModel.Sched.S7

/-- one step keeps the slot counter within the limit: every `acq` is guarded by `capFree` -/
theorem tokens_step (P : Program) (F : Flags) (N : Nat) (hcap : F.cap = some N) (c : Config) (l : Label)
    (c' : Config) (hle : c.tokens ≤ N) (hs : step P F c l = some c') :
    c'.tokens ≤ N ∧
    c'.tokens = (match evEff l.ev with | .acq => c.tokens + 1 | .rel => c.tokens - 1 | _ => c.tokens) ∧
    (evEff l.ev = .acq → c.tokens + 1 ≤ N) := by
  rcases step_cases P F c c' l hs with ⟨k, t, he, hen⟩ | ⟨_, x, y, eff, _, hl, rfl⟩
  · have := (enterAct_frame P F c c' l.act k t hen).1
    rw [he]; simp only [evEff]
    exact ⟨by omega, this, by intro h; cases h⟩
  · have he := stepLocal_eff F _ x l.ev y eff hl
    rw [local_tokens, ← he]
    cases eff with
    | acq =>
      have hc := stepLocal_acq_capFree F _ x l.ev y hl
      simp only [obsOf, capFree, hcap, decide_eq_true_eq] at hc
      exact ⟨by simp only; omega, rfl, fun _ => by omega⟩
    | rel => exact ⟨by simp only; omega, rfl, by intro h; cases h⟩
    | none => exact ⟨hle, rfl, by intro h; cases h⟩
    | reg k => exact ⟨hle, rfl, by intro h; cases h⟩
    | wait k => exact ⟨hle, rfl, by intro h; cases h⟩

/-- the raw monitor's counter is the model's slot counter -/
theorem boundOk_replay (P : Program) (F : Flags) (N : Nat) (hcap : F.cap = some N) (tr : List Label) :
    ∀ (c c' : Config), c.tokens ≤ N → replay P F c tr = some c' → boundOk N tr c.tokens = true := by
  induction tr with
  | nil => intro _ _ _ _; rfl
  | cons l ls ih =>
    intro c c' hle h
    simp only [replay] at h
    split at h
    · rename_i c1 hs
      obtain ⟨h1, h2, h3⟩ := tokens_step P F N hcap c l c1 hle hs
      have := ih c1 c' h1 h
      rw [boundOk_cons]
      cases he : evEff l.ev with
      | acq => rw [he] at h2 h3; simp only at h2 ⊢; rw [h2] at this; simp [this, h3 rfl]
      | rel => rw [he] at h2; simp only at h2 ⊢; rw [h2] at this; exact this
      | none => rw [he] at h2; simp only at h2 ⊢; rw [h2] at this; exact this
      | reg k => rw [he] at h2; simp only at h2 ⊢; rw [h2] at this; exact this
      | wait k => rw [he] at h2; simp only at h2 ⊢; rw [h2] at this; exact this
    · cases h

/-- per-activation invariant: the slot flag is a function of the phase -/
def HoldsInv (x : Act) : Prop := x.holds = holdPhase x.phase

theorem holdsInv_fresh (P : Program) (F : Flags) (c : Config) (kind : Kind) (t : Nat) :
    HoldsInv (freshAct P F c kind t) := by
  obtain ⟨hph, _, _, _, _, _, hh, _⟩ := freshAct_fields P F c kind t
  unfold HoldsInv
  rcases hph with h | h <;> rw [hh, h] <;> rfl

/-- C07 on the raw events of one activation: slots are taken and given back alternately,
and shell commands start and end only while the activation holds one.  State: does the
activation hold a slot? -/
def holdMon : ActMon Bool where
  init := false
  step s ev :=
    match evEff ev with
    | .acq => if s then none else some true
    | .rel => if s then some false else none
    | _ =>
      match ev with
      | .cmdStart _ _ _ | .cmdEnd _ _ => if s then some s else none
      | _ => some s

/-- monitor state ↔ model state -/
def holdR (s : Bool) (x : Act) : Prop := s = x.holds ∧ HoldsInv x

theorem holdR_fresh (P : Program) (F : Flags) (c : Config) (kind : Kind) (t : Nat) :
    ∃ s, holdMon.step holdMon.init (.enter kind t) = some s ∧ holdR s (freshAct P F c kind t) :=
  ⟨false, rfl, (freshAct_fields P F c kind t).2.2.2.2.2.2.1.symm, holdsInv_fresh P F c kind t⟩

theorem holdR_local (F : Flags) (o : Obs) (s : Bool) (x : Act) (ev : Ev) (y : Act) (eff : Eff)
    (hR : holdR s x) (h : stepLocal F o x ev = some (y, eff)) :
    ∃ s', holdMon.step s ev = some s' ∧ holdR s' y := by
  obtain ⟨hs, hx⟩ := hR
  obtain ⟨hy, hd⟩ := stepLocal_holds F o x ev y eff hx h
  have he := stepLocal_eff F o x ev y eff h
  obtain ⟨hc1, hc2, _⟩ := stepLocal_cmd F o x ev y eff h
  subst hs
  cases eff with
  | acq =>
    obtain ⟨h1, h2, _⟩ := hd
    exact ⟨true, by simp only [holdMon, ← he, h1]; rfl, h2.symm, hy⟩
  | rel =>
    obtain ⟨h1, h2⟩ := hd
    exact ⟨false, by simp only [holdMon, ← he, h1]; rfl, h2.symm, hy⟩
  | reg k =>
    have h1 : y.holds = x.holds := hd
    refine ⟨x.holds, ?_, h1.symm, hy⟩
    cases ev <;> simp [evEff] at he
    simp [holdMon, evEff]
  | wait k =>
    have h1 : y.holds = x.holds := hd
    refine ⟨x.holds, ?_, h1.symm, hy⟩
    cases ev <;> simp [evEff] at he
    simp [holdMon, evEff]
  | none =>
    have h1 : y.holds = x.holds := hd
    refine ⟨x.holds, ?_, h1.symm, hy⟩
    have hb : ∀ i s d, ev = .cmdStart i s d → x.holds = true := by
      intro i s d e
      rcases (hc1 i s d e).1 with hp | hp <;> rw [hx, hp] <;> rfl
    have hb2 : ∀ i r, ev = .cmdEnd i r → x.holds = true := by
      intro i r e
      obtain ⟨d, hp⟩ := hc2 i r e
      rw [hx, hp]; rfl
    cases ev <;> simp [evEff] at he <;> simp [holdMon, evEff]
    · exact hb _ _ _ rfl
    · exact hb2 _ _ rfl

/-- number of activations that hold a slot -/
def holders (c : Config) (ids : List Nat) : Nat := cnt (fun x => x.holds) c ids

/-- number of activations inside a shell command -/
def inShellB (x : Act) : Bool := match x.phase with | .inShell _ _ => true | _ => false
def shells (c : Config) (ids : List Nat) : Nat := cnt inShellB c ids

/-- the invariant behind `C07_tokens_are_holders` -/
def TokInv (c : Config) (tr : List Label) : Prop :=
  IdsInv c tr ∧ (∀ a x, c.act? a = some x → HoldsInv x) ∧ c.tokens = holders c (actIds tr)

theorem tokInv_step (P : Program) (F : Flags) (c : Config) (tr : List Label) (l : Label) (c' : Config)
    (hinv : TokInv c tr) (hs : step P F c l = some c') : TokInv c' (tr ++ [l]) := by
  obtain ⟨hids, hh, htok⟩ := hinv
  refine ⟨idsInv_step P F c tr l c' hids hs, ?_, ?_⟩
  · -- the flag invariant
    intro a z hz
    rcases step_cases P F c c' l hs with ⟨k, t, he, hen⟩ | ⟨_, x, y, eff, hx, hl, rfl⟩
    · obtain ⟨_, hnew, hoth⟩ := enterAct_acts P F c c' l.act k t hen
      by_cases ha : a = l.act
      · subst ha; rw [hnew] at hz; cases hz; exact holdsInv_fresh P F c k t
      · rcases hoth a ha with e | ⟨px, slot, e1, e2, _⟩
        · rw [e] at hz; exact hh a z hz
        · rw [e2] at hz; cases hz; exact hh a px e1
    · by_cases ha : a = l.act
      · subst ha; rw [act?_set_self] at hz; cases hz
        exact (stepLocal_holds F _ x l.ev z eff (hh _ x hx) hl).1
      · rw [act?_set_other _ _ _ _ ha, act?_applyEff] at hz; exact hh a z hz
  · -- the count
    rcases step_cases P F c c' l hs with ⟨k, t, he, hen⟩ | ⟨hne, x, y, eff, hx, hl, rfl⟩
    · rw [actIds_snoc_enter tr l k t he]
      unfold holders
      rw [cnt_enter _ (fun _ _ => rfl) P F c c' tr l.act k t hids hen, (enterAct_frame P F c c' l.act k t hen).1]
      have : (freshAct P F c k t).holds = false := (freshAct_fields P F c k t).2.2.2.2.2.2.1
      rw [this]; simpa [holders] using htok
    · rw [actIds_snoc_other tr l hne]
      have hc := cnt_local (fun x => x.holds) c tr l.act x y eff hids hx
      have hd := (stepLocal_holds F _ x l.ev y eff (hh _ x hx) hl).2
      unfold holders at htok ⊢
      rw [local_tokens]
      cases eff with
      | acq => obtain ⟨h1, h2, _⟩ := hd; simp only [h1, h2] at hc; simp only; simp at hc; omega
      | rel => obtain ⟨h1, h2⟩ := hd; simp only [h1, h2] at hc; simp only; simp at hc; omega
      | none => have h1 : y.holds = x.holds := hd; simp only [h1] at hc; simp only; omega
      | reg k => have h1 : y.holds = x.holds := hd; simp only [h1] at hc; simp only; omega
      | wait k => have h1 : y.holds = x.holds := hd; simp only [h1] at hc; simp only; omega

end TaskModel.Sched.S7
