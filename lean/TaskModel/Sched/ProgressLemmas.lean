import TaskModel.Sched.TokenLemmas
/-!
Sched.ProgressLemmas — no phase is a dead end.

`WF`: the bookkeeping of one activation is consistent with its task (the remaining
commands are a suffix of the task's commands starting at `idx` with a non-deferred head,
the stack holds indices of `defer:` entries).  Under `WF` every phase but `done` has an
event that `stepLocal` accepts once the rest of the configuration lets it (`someEv`,
`freeObs`), and the blocking phases wait for exactly one thing (`waitsOn`).
-/
namespace TaskModel.Sched.S7

theorem drop_cons_get {α} : ∀ (l : List α) (i : Nat) (c : α) (cs : List α),
    l.drop i = c :: cs → l[i]? = some c ∧ l.drop (i + 1) = cs := by
  intro l
  induction l with
  | nil => intro i c cs h; simp at h
  | cons a l ih =>
    intro i c cs h
    cases i with
    | zero => simp at h; simp [h.1, h.2]
    | succ i => simpa using ih i c cs (by simpa using h)

/-- `j` is the index of a `defer:` entry -/
def deferredAt (cmds : List Cmd) (j : Nat) : Prop := ∃ c, cmds[j]? = some c ∧ c.deferred = true

theorem advance_wf (cmds : List Cmd) : ∀ (cs : List Cmd) (i : Nat) (regs stack : List Nat),
    cs = cmds.drop i → (∀ j ∈ stack, deferredAt cmds j) →
    (advance cs i regs stack).1 = cmds.drop (advance cs i regs stack).2.1 ∧
    (∀ j ∈ (advance cs i regs stack).2.2.2, deferredAt cmds j) ∧
    ((advance cs i regs stack).1 = [] ∨
      ∃ c cs', (advance cs i regs stack).1 = c :: cs' ∧ c.deferred = false) := by
  intro cs
  induction cs with
  | nil => intro i regs stack h hs; exact ⟨h, hs, .inl rfl⟩
  | cons c cs ih =>
    intro i regs stack h hs
    obtain ⟨hget, hdrop⟩ := drop_cons_get cmds i c cs h.symm
    simp only [advance]
    split
    · rename_i hd
      apply ih (i + 1) (regs ++ [i]) (i :: stack) hdrop.symm
      intro j hj
      rcases List.mem_cons.mp hj with e | e
      · subst e; exact ⟨c, hget, hd⟩
      · exact hs j e
    · rename_i hd
      exact ⟨h, hs, .inr ⟨c, cs, rfl, by simpa using hd⟩⟩

/-- phases inside the command loop (a non-deferred command is next or running) -/
def bodyish : Phase → Bool
  | .body | .inShell _ false | .inCall _ false | .callReturned _ false => true
  | _ => false

/-- the deferred entry an activation is running, if any -/
def deferRunning : Phase → Option Nat
  | .inShell i true | .inCall i true | .callReturned i true => some i
  | _ => none

theorem bodyish_callReturned (i : Nat) (d : Bool) : bodyish (.callReturned i d) = bodyish (.inCall i d) := by
  cases d <;> rfl
theorem deferRunning_callReturned (i : Nat) (d : Bool) :
    deferRunning (.callReturned i d) = deferRunning (.inCall i d) := by
  cases d <;> rfl

structure WF (x : Act) : Prop where
  rest : bodyish x.phase = true →
    x.rest = x.def_.cmds.drop x.idx ∧ ∃ c cs, x.rest = c :: cs ∧ c.deferred = false
  stack : ∀ j ∈ x.stack, deferredAt x.def_.cmds j
  defers : x.phase = .defers → x.stack ≠ []
  running : ∀ i, deferRunning x.phase = some i → ∃ s, x.stack = i :: s

theorem WF_fresh (P : Program) (F : Flags) (c : Config) (kind : Kind) (t : Nat) : WF (freshAct P F c kind t) := by
  obtain ⟨hph, hst, _⟩ := freshAct_fields P F c kind t
  constructor
  · intro h; rcases hph with e | e <;> rw [e] at h <;> cases h
  · intro j hj; rw [hst] at hj; cases hj
  · intro h; rcases hph with e | e <;> rw [e] at h <;> cases h
  · intro i h; rcases hph with e | e <;> rw [e] at h <;> cases h

theorem WF_next (x : Act) (cs : List Cmd) (i : Nat) (hcs : cs = x.def_.cmds.drop i)
    (hst : ∀ j ∈ x.stack, deferredAt x.def_.cmds j) : WF (x.next cs i) := by
  have ha := advance_wf x.def_.cmds cs i x.regs x.stack hcs hst
  unfold Act.next
  generalize advance cs i x.regs x.stack = r at ha ⊢
  obtain ⟨rest, i', regs, stack⟩ := r
  simp only at ha ⊢
  obtain ⟨h1, h2, h3⟩ := ha
  cases rest with
  | nil =>
    simp only
    constructor
    · intro h; simp only at h; split at h <;> cases h
    · exact h2
    · intro h; simp only at h ⊢; split at h
      · cases h
      · rename_i he; simpa using he
    · intro j h; simp only at h; split at h <;> cases h
  | cons c cs' =>
    simp only
    constructor
    · intro _
      refine ⟨h1, ?_⟩
      rcases h3 with e | e
      · cases e
      · exact e
    · exact h2
    · intro h; cases h
    · intro j h; cases h

theorem WF_fail (x : Act) (r : Res) (hst : ∀ j ∈ x.stack, deferredAt x.def_.cmds j) : WF (x.fail r) := by
  unfold Act.fail
  constructor
  · intro h; simp only at h; split at h <;> cases h
  · exact hst
  · intro h; simp only at h ⊢; split at h
    · cases h
    · rename_i he; simpa using he
  · intro j h; simp only at h; split at h <;> cases h

theorem WF_stop (x : Act) (r : Res) (hst : ∀ j ∈ x.stack, deferredAt x.def_.cmds j) : WF (x.stop r) := by
  unfold Act.stop
  exact ⟨fun h => (by cases h), hst, fun h => (by cases h), fun j h => (by cases h)⟩

theorem WF_stopDeps (x : Act) (r : Res) (hst : ∀ j ∈ x.stack, deferredAt x.def_.cmds j) : WF (x.stopDeps r) := by
  unfold Act.stopDeps
  exact ⟨fun h => (by cases h), hst, fun h => (by cases h), fun j h => (by cases h)⟩

theorem WF_afterCmd (x : Act) (c : Cmd) (r : Res) (hw : WF x) (hb : bodyish x.phase = true) :
    WF (x.afterCmd c r) := by
  obtain ⟨hrest, c0, cs0, hcons, _⟩ := hw.rest hb
  have htail : x.rest.tail = x.def_.cmds.drop (x.idx + 1) := by
    rw [hcons] at hrest
    rw [hcons, (drop_cons_get _ _ _ _ hrest.symm).2]; rfl
  unfold Act.afterCmd
  simp only
  split
  · exact WF_next x _ _ htail hw.stack
  · split
    · exact WF_next x _ _ htail hw.stack
    · exact WF_fail _ _ hw.stack
  · exact WF_fail x _ hw.stack

theorem WF_afterDefer (x : Act) (hst : ∀ j ∈ x.stack, deferredAt x.def_.cmds j) : WF x.afterDefer := by
  unfold Act.afterDefer
  split
  · exact ⟨fun h => (by cases h), hst, fun h => (by cases h), fun j h => (by cases h)⟩
  · rename_i i s he
    have hs : ∀ j ∈ s, deferredAt x.def_.cmds j := fun j hj => hst j (by rw [he]; exact List.mem_cons_of_mem _ hj)
    constructor
    · intro h; simp only at h; split at h <;> cases h
    · exact hs
    · intro h; simp only at h ⊢; split at h
      · cases h
      · rename_i he'; simpa using he'
    · intro j h; simp only at h; split at h <;> cases h

/-- steps that leave the command bookkeeping alone -/
theorem WF_same (x y : Act) (h1 : y.rest = x.rest) (h2 : y.idx = x.idx) (h3 : y.def_ = x.def_)
    (h4 : y.stack = x.stack) (hb : bodyish y.phase = true → bodyish x.phase = true)
    (hd : y.phase = .defers → x.phase = .defers)
    (hr : ∀ i, deferRunning y.phase = some i → deferRunning x.phase = some i ∨ ∃ s, x.stack = i :: s)
    (hw : WF x) : WF y := by
  constructor
  · intro h; rw [h1, h2, h3]; exact hw.rest (hb h)
  · rw [h3, h4]; exact hw.stack
  · intro h; rw [h4]; exact hw.defers (hd h)
  · intro i h; rw [h4]
    rcases hr i h with e | e
    · exact hw.running i e
    · exact e

set_option maxHeartbeats 1000000 in
theorem WF_local (F : Flags) (o : Obs) (x : Act) (ev : Ev) (y : Act) (eff : Eff)
    (hw : WF x) (h : stepLocal F o x ev = some (y, eff)) : WF y := by
  steplocal_cases h
  all_goals (try (first
    | (refine WF_same x _ rfl rfl rfl rfl ?_ ?_ ?_ hw <;> simp_all [bodyish, deferRunning]; done)
    | (exact WF_stop _ _ hw.stack)
    | (exact WF_stopDeps _ _ hw.stack)))
  -- guardsPassed
  · exact WF_next x _ 0 (by simp) hw.stack
  -- cmdEnd (body)
  · rename_i hp _ _ _ _ _ _ _
    exact WF_afterCmd x _ _ hw (by rw [hp]; rfl)
  -- callRet
  · rename_i hp hij _ _ _
    have hij' : _ = _ := Decidable.not_not.mp hij
    subst hij'
    refine WF_same x _ rfl rfl rfl rfl ?_ ?_ ?_ hw
    · intro h; rw [hp, ← bodyish_callReturned]; exact h
    · intro h; cases h
    · intro k h; left; rw [hp, ← deferRunning_callReturned]; exact h
  -- callReacq after a deferred call
  · exact WF_afterDefer { x with holds := true } hw.stack
  -- callReacq after a call in the body
  · rename_i hp _ hd _ _ _ _
    have hd' : _ = false := Bool.eq_false_iff.mpr hd
    subst hd'
    exact WF_afterCmd { x with holds := true } _ _ ⟨hw.rest, hw.stack, hw.defers, hw.running⟩ (by show bodyish x.phase = true; rw [hp]; rfl)
  -- cmdEnd of a deferred entry
  · exact WF_afterDefer x hw.stack

/-! ### an enabled event for every phase -/

/-- the observation under which nothing blocks: a slot is free, nothing is cancelled, the
activations waited for have returned successfully, no dedup key is registered -/
def freeObs : Obs :=
  { capFree := true, cancelled := fun _ => false, deps := fun _ => some [], callKid := fun _ => some .ok,
    registered := fun _ => false, cyc := fun _ => false, execResult := fun _ => some {} }

/-- an event the activation can perform next (under `freeObs`) -/
def someEv (F : Flags) (x : Act) : Ev :=
  match x.phase with
  | .early | .released | .done => .exit
  | .entered => .acquire
  | .acquired => if x.def_.run = .always then .depsRelease else .register 0
  | .wWaiting => .wRelease
  | .wReleased => .wWake
  | .wWoken => .wReacq
  | .exec => .depsRelease
  | .depsWait => .depsReacq
  | .depsJoined => .depsDone .ok
  | .guards =>
    if !x.def_.precondOk then .precondFail
    else if x.def_.upToDate && !skipFingerprinting F x then .upToDate
    else if x.def_.prompt && !F.yes then .promptFail
    else .guardsPassed
  | .body =>
    match x.rest with
    | .call _ _ :: _ => .callRelease x.idx false
    | _ => .cmdStart x.idx none false
  | .inShell i _ => .cmdEnd i .generic
  | .inCall i _ => .callRet i
  | .callReturned i _ => .callReacq i
  | .defers =>
    match x.stack with
    | j :: _ =>
      (match x.def_.cmds[j]? with
       | some (.call _ _) => .callRelease j true
       | _ => .cmdStart j (if x.exitCode > 0 then some x.exitCode else none) true)
    | [] => .exit
  | .finished => if x.key.isSome then .execDone else .release
  | .execDoneP => .release

/-- **no phase is a dead end**: a well-formed activation that has not returned has an
event that `stepLocal` accepts as soon as nothing it waits for is outstanding -/
theorem someEv_enabled (F : Flags) (x : Act) (hw : WF x) (hnd : x.phase ≠ .done) :
    (stepLocal F freeObs x (someEv F x)).isSome = true := by
  cases hp : x.phase with
  | done => exact absurd hp hnd
  | early => simp [someEv, stepLocal, hp]
  | released => simp [someEv, stepLocal, hp]
  | entered => simp [someEv, stepLocal, hp, freeObs]
  | acquired =>
    by_cases hr : x.def_.run = .always <;> simp [someEv, stepLocal, hp, freeObs, hr]
  | wWaiting => simp [someEv, stepLocal, hp]
  | wReleased => simp [someEv, stepLocal, hp, freeObs]
  | wWoken => simp [someEv, stepLocal, hp, freeObs]
  | exec => simp [someEv, stepLocal, hp]
  | depsWait => simp [someEv, stepLocal, hp, freeObs]
  | depsJoined => simp [someEv, stepLocal, hp, freeObs, Res.isOk]
  | guards =>
    simp only [someEv, hp]
    cases h1 : x.def_.precondOk <;> cases h2 : x.def_.upToDate <;> cases h3 : skipFingerprinting F x <;>
      cases h4 : x.def_.prompt <;> cases h5 : F.yes <;> simp [stepLocal, hp, freeObs, h1, h2, h3, h4, h5]
  | body =>
    obtain ⟨_, c, cs, hc, hd⟩ := hw.rest (by rw [hp]; rfl)
    cases c with
    | shell k ie d =>
      have : d = false := hd
      subst this
      simp [someEv, stepLocal, hp, hc]
    | call t d =>
      have : d = false := hd
      subst this
      simp [someEv, stepLocal, hp, hc]
  | inShell i d =>
    cases d with
    | false =>
      obtain ⟨_, c, cs, hc, _⟩ := hw.rest (by rw [hp]; rfl)
      simp [someEv, stepLocal, hp, hc]
    | true =>
      obtain ⟨s, hs⟩ := hw.running i (by rw [hp]; rfl)
      obtain ⟨c, hc, _⟩ := hw.stack i (by rw [hs]; exact List.mem_cons_self)
      simp [someEv, stepLocal, hp, hc]
  | inCall i d => simp [someEv, stepLocal, hp, freeObs]
  | callReturned i d =>
    cases d with
    | true => simp [someEv, stepLocal, hp, freeObs]
    | false =>
      obtain ⟨_, c, cs, hc, _⟩ := hw.rest (by rw [hp]; rfl)
      simp [someEv, stepLocal, hp, freeObs, hc]
  | defers =>
    have hne := hw.defers hp
    cases hs : x.stack with
    | nil => exact absurd hs hne
    | cons j s =>
      obtain ⟨c, hc, hd⟩ := hw.stack j (by rw [hs]; exact List.mem_cons_self)
      cases c with
      | shell k ie d =>
        have : d = true := hd
        subst this
        simp [someEv, stepLocal, hp, hs, hc]
      | call t d =>
        have : d = true := hd
        subst this
        simp [someEv, stepLocal, hp, hs, hc]
  | finished =>
    cases hk : x.key <;> simp [someEv, stepLocal, hp, hk]
  | execDoneP => simp [someEv, stepLocal, hp]

/-! ### what the blocking phases wait for -/

/-- what an activation in a blocking phase waits for -/
inductive Wait | slot | execution | depsAndSlot | callee | nothing
deriving DecidableEq, Repr

def waitsOn : Phase → Wait
  | .entered | .wWoken | .callReturned _ _ => .slot
  | .wReleased => .execution
  | .depsWait => .depsAndSlot
  | .inCall _ _ => .callee
  | _ => .nothing

theorem wait_entered (F : Flags) (o : Obs) (x : Act) (hp : x.phase = .entered) :
    (stepLocal F o x .acquire).isSome = o.capFree := by
  simp only [stepLocal, hp]; cases o.capFree <;> rfl

theorem wait_wWoken (F : Flags) (o : Obs) (x : Act) (hp : x.phase = .wWoken) :
    (stepLocal F o x .wReacq).isSome = o.capFree := by
  simp only [stepLocal, hp]; cases o.capFree <;> rfl

theorem wait_wReleased (F : Flags) (o : Obs) (x : Act) (hp : x.phase = .wReleased) :
    (stepLocal F o x .wWake).isSome = (o.execResult ()).isSome := by
  simp only [stepLocal, hp]; cases o.execResult () <;> rfl

theorem wait_depsWait (F : Flags) (o : Obs) (x : Act) (hp : x.phase = .depsWait) :
    (stepLocal F o x .depsReacq).isSome = ((o.deps ()).isSome && o.capFree) := by
  simp only [stepLocal, hp]; cases (o.deps ()).isSome <;> cases o.capFree <;> rfl

theorem wait_inCall (F : Flags) (o : Obs) (x : Act) (i : Nat) (d : Bool) (hp : x.phase = .inCall i d) :
    (stepLocal F o x (.callRet i)).isSome = (o.callKid ()).isSome := by
  simp only [stepLocal, hp]; cases o.callKid () <;> simp

theorem wait_callReturned (F : Flags) (o : Obs) (x : Act) (i : Nat) (d : Bool) (hw : WF x)
    (hp : x.phase = .callReturned i d) : (stepLocal F o x (.callReacq i)).isSome = o.capFree := by
  cases d with
  | true => simp only [stepLocal, hp]; cases o.capFree <;> simp
  | false =>
    obtain ⟨_, c, cs, hc, _⟩ := hw.rest (by rw [hp]; rfl)
    simp only [stepLocal, hp, hc]; cases o.capFree <;> simp

/-- `startExecution`: either `depsRelease` (`run: always`) or, for every key, exactly one of
`register` / `waiter` / `waitCycle` is accepted -/
theorem acquired_enabled (F : Flags) (o : Obs) (x : Act) (k : Nat) (hp : x.phase = .acquired) :
    (stepLocal F o x (if x.def_.run = .always then .depsRelease
      else if o.registered k then (if o.cyc k then .waitCycle k else .waiter k) else .register k)).isSome = true := by
  by_cases hr : x.def_.run = .always
  · simp [stepLocal, hp, hr]
  · cases hk : o.registered k <;> cases hc : o.cyc k <;> simp [stepLocal, hp, hr, hk, hc]

/-- in every other phase but `done` the event `someEv` is accepted whatever the rest of
the configuration looks like (`acquired`: see `acquired_enabled`; `depsJoined`: `depsDone`
reports the results of the dependencies, which have all returned) -/
theorem nonblocking_enabled (F : Flags) (o : Obs) (x : Act) (hw : WF x) (hnd : x.phase ≠ .done)
    (hn : waitsOn x.phase = .nothing) (h1 : x.phase ≠ .acquired) (h2 : x.phase ≠ .depsJoined) :
    (stepLocal F o x (someEv F x)).isSome = true := by
  cases hp : x.phase with
  | done => exact absurd hp hnd
  | acquired => exact absurd hp h1
  | depsJoined => exact absurd hp h2
  | guards =>
    simp only [someEv, hp]
    cases h1 : x.def_.precondOk <;> cases h2 : x.def_.upToDate <;> cases h3 : skipFingerprinting F x <;>
      cases h4 : x.def_.prompt <;> cases h5 : F.yes <;> cases h6 : o.cancelled () <;>
      simp [stepLocal, hp, h1, h2, h3, h4, h5, h6]
  | entered | wWoken | wReleased | depsWait => rw [hp] at hn; cases hn
  | inCall i d => rw [hp] at hn; cases hn
  | callReturned i d => rw [hp] at hn; cases hn
  | early => simp [someEv, stepLocal, hp]
  | released => simp [someEv, stepLocal, hp]
  | wWaiting => simp [someEv, stepLocal, hp]
  | exec => simp [someEv, stepLocal, hp]
  | body =>
    obtain ⟨_, c, cs, hc, hd⟩ := hw.rest (by rw [hp]; rfl)
    cases c with
    | shell k ie d =>
      have : d = false := hd
      subst this
      simp [someEv, stepLocal, hp, hc]
    | call t d =>
      have : d = false := hd
      subst this
      simp [someEv, stepLocal, hp, hc]
  | inShell i d =>
    cases d with
    | false =>
      obtain ⟨_, c, cs, hc, _⟩ := hw.rest (by rw [hp]; rfl)
      simp [someEv, stepLocal, hp, hc]
    | true =>
      obtain ⟨s, hs⟩ := hw.running i (by rw [hp]; rfl)
      obtain ⟨c, hc, _⟩ := hw.stack i (by rw [hs]; exact List.mem_cons_self)
      simp [someEv, stepLocal, hp, hc]
  | defers =>
    have hne := hw.defers hp
    cases hs : x.stack with
    | nil => exact absurd hs hne
    | cons j s =>
      obtain ⟨c, hc, hd⟩ := hw.stack j (by rw [hs]; exact List.mem_cons_self)
      cases c with
      | shell k ie d =>
        have : d = true := hd
        subst this
        simp [someEv, stepLocal, hp, hs, hc]
      | call t d =>
        have : d = true := hd
        subst this
        simp [someEv, stepLocal, hp, hs, hc]
  | finished =>
    cases hk : x.key <;> simp [someEv, stepLocal, hp, hk]
  | execDoneP => simp [someEv, stepLocal, hp]

end TaskModel.Sched.S7
