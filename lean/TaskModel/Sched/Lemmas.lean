import TaskModel.Sched.Model
/-! Generic facts about `step` / `replay`: decomposition of a step, frame lemmas,
lifting of invariants to every reachable configuration. -/
namespace TaskModel.Sched

theorem replay_nil (P : Program) (F : Flags) (c : Config) : replay P F c [] = some c := rfl

theorem replay_cons (P : Program) (F : Flags) (c : Config) (l : Label) (ls : List Label) :
    replay P F c (l :: ls) = (step P F c l).bind (fun c' => replay P F c' ls) := by
  simp only [replay]; cases step P F c l <;> rfl

theorem replay_append (P : Program) (F : Flags) (c : Config) (l1 l2 : List Label) :
    replay P F c (l1 ++ l2) = (replay P F c l1).bind (fun c' => replay P F c' l2) := by
  induction l1 generalizing c with
  | nil => rfl
  | cons l ls ih =>
    simp only [List.cons_append, replay]
    cases step P F c l with
    | none => rfl
    | some c' => exact ih c'

/-- reachable configurations -/
def Reachable (P : Program) (F : Flags) (n : Nat) (c : Config) : Prop :=
  ∃ tr, replay P F (init n) tr = some c

/-- an invariant of `init` preserved by `step` holds after every accepted trace -/
theorem replay_inv (P : Program) (F : Flags) (Inv : Config → Prop)
    (hstep : ∀ c l c', Inv c → step P F c l = some c' → Inv c')
    (c : Config) (tr : List Label) (c' : Config) (h0 : Inv c) (h : replay P F c tr = some c') : Inv c' := by
  induction tr generalizing c with
  | nil => simp [replay] at h; subst h; exact h0
  | cons l ls ih =>
    simp only [replay] at h
    split at h
    · rename_i c1 hs; exact ih c1 (hstep c l c1 h0 hs) h
    · cases h

@[simp] theorem act?_set_self (c : Config) (a : Nat) (x : Act) : (c.set a x).act? a = some x := by
  simp [Config.set, Config.act?]

theorem act?_set_other (c : Config) (a b : Nat) (x : Act) (h : b ≠ a) : (c.set a x).act? b = c.act? b := by
  simp only [Config.set, Config.act?, List.lookup]
  have : (b == a) = false := by simpa using h
  simp [this]

@[simp] theorem act?_applyEff (c : Config) (a : Nat) (e : Eff) (b : Nat) : (applyEff c a e).act? b = c.act? b := by
  cases e <;> rfl

/-- a non-`enter` step changes exactly the activation named in the label, by `stepLocal` -/
theorem step_local (P : Program) (F : Flags) (c c' : Config) (l : Label)
    (hne : ∀ k t, l.ev ≠ .enter k t) (h : step P F c l = some c') :
    ∃ x y eff, c.act? l.act = some x ∧ stepLocal F (obsOf F c l.act x) x l.ev = some (y, eff) ∧
      c' = (applyEff c l.act eff).set l.act y := by
  unfold step at h
  split at h
  · rename_i k t he; exact absurd he (hne k t)
  · split at h
    · cases h
    · rename_i x hx
      split at h
      · cases h
      · rename_i y eff hs
        exact ⟨x, y, eff, hx, hs, (Option.some.inj h).symm⟩

theorem step_enter (P : Program) (F : Flags) (c c' : Config) (l : Label) (k : Kind) (t : Nat)
    (he : l.ev = .enter k t) (h : step P F c l = some c') : enterAct P F c l.act k t = some c' := by
  unfold step at h; rw [he] at h; exact h

theorem step_cases (P : Program) (F : Flags) (c c' : Config) (l : Label) (h : step P F c l = some c') :
    (∃ k t, l.ev = .enter k t ∧ enterAct P F c l.act k t = some c') ∨
    ((∀ k t, l.ev ≠ .enter k t) ∧ ∃ x y eff, c.act? l.act = some x ∧
      stepLocal F (obsOf F c l.act x) x l.ev = some (y, eff) ∧ c' = (applyEff c l.act eff).set l.act y) := by
  by_cases he : ∃ k t, l.ev = .enter k t
  · obtain ⟨k, t, he⟩ := he
    exact .inl ⟨k, t, he, step_enter P F c c' l k t he h⟩
  · have hne : ∀ k t, l.ev ≠ .enter k t := fun k t e => he ⟨k, t, e⟩
    exact .inr ⟨hne, step_local P F c c' l hne h⟩

/-- everything a fresh activation starts with -/
theorem freshAct_fields (P : Program) (F : Flags) (c : Config) (kind : Kind) (t : Nat) :
    let x := freshAct P F c kind t
    (x.phase = .early ∨ x.phase = .entered) ∧ x.stack = [] ∧ x.regs = [] ∧ x.ran = [] ∧ x.started = [] ∧
    x.idx = 0 ∧ x.holds = false ∧ x.key = none ∧ x.waitsFor = none ∧ x.kids = [] ∧ x.kind = kind ∧ x.task = t ∧
    x.def_ = (P[t]?).getD {} ∧ x.exitCode = 0 ∧ x.rest = [] := by
  simp only [freshAct]
  cases earlyResult P[t]? (c.callCount t + 1) F.maxCalls <;> simp

@[simp] theorem act?_bumpCalls (P : Program) (c : Config) (t b : Nat) : (bumpCalls P c t).act? b = c.act? b := by
  unfold bumpCalls; split
  · split <;> rfl
  · rfl

theorem enterCheck_act (F : Flags) (c : Config) (a : Nat) (kind : Kind) (t p : Nat) (px' : Act)
    (h : enterCheck F c a kind t = some (.act p px')) :
    ∃ px slot, c.act? p = some px ∧ px' = { px with kids := (slot, a) :: px.kids } ∧
      (px.phase = .depsWait ∨ ∃ i d, px.phase = .inCall i d) := by
  unfold enterCheck at h
  split at h
  · split at h
    · cases h
    · simp only at h
      have : ∀ (b : Bool) (k : Nat), (if b = true then some (Parent.top k) else none) = some (Parent.act p px') → False := by
        intro b k hb; cases b <;> simp at hb
      exact (this _ _ h).elim
  · rename_i p' j
    split at h
    · cases h
    · rename_i px hpx
      split at h
      · cases h
      · rename_i hph
        split at h
        · cases h
        · split at h
          · cases h
          · cases h
            refine ⟨px, slotOfDep j, hpx, rfl, .inl ?_⟩
            simp only [ne_eq, Bool.or_eq_true, decide_eq_true_eq, not_or, Decidable.not_not] at hph
            exact hph.1
  · rename_i p' i dfr
    split at h
    · cases h
    · rename_i px hpx
      split at h
      · cases h
      · rename_i hph
        split at h
        · split at h
          · cases h
          · cases h
            refine ⟨px, slotOfCall px i, hpx, rfl, .inr ⟨i, dfr, ?_⟩⟩
            simp only [ne_eq, Bool.or_eq_true, decide_eq_true_eq, not_or, Decidable.not_not] at hph
            exact hph.1
        · cases h

/-- what `enter` does to the activation table: a new activation `a`; for `dep`/`call`
kinds the parent gains a kid; every other activation is untouched -/
theorem enterAct_acts (P : Program) (F : Flags) (c c' : Config) (a : Nat) (kind : Kind) (t : Nat)
    (h : enterAct P F c a kind t = some c') :
    c.act? a = none ∧ c'.act? a = some (freshAct P F c kind t) ∧
    ∀ b, b ≠ a → (c'.act? b = c.act? b ∨
      ∃ px slot, c.act? b = some px ∧ c'.act? b = some { px with kids := (slot, a) :: px.kids } ∧
        (px.phase = .depsWait ∨ ∃ i d, px.phase = .inCall i d)) := by
  unfold enterAct at h
  split at h
  · cases h
  · rename_i hnone
    have hn : c.act? a = none := by
      cases hh : c.act? a with
      | none => rfl
      | some _ => simp [hh] at hnone
    refine ⟨hn, ?_⟩
    split at h
    · cases h
    · cases h
      refine ⟨by simp, ?_⟩
      intro b hb
      left
      rw [act?_set_other _ _ _ _ hb]
      show (bumpCalls P c t).act? b = c.act? b
      simp
    · rename_i p px' hc
      cases h
      obtain ⟨px, slot, hpx, rfl, hph⟩ := enterCheck_act F c a kind t p _ hc
      have hpa : p ≠ a := by
        intro e; subst e; rw [hpx] at hn; cases hn
      refine ⟨by simp, ?_⟩
      intro b hb
      rw [act?_set_other _ _ _ _ hb]
      by_cases hbp : b = p
      · subst hbp
        right
        exact ⟨px, slot, hpx, by simp, hph⟩
      · left
        rw [act?_set_other _ _ _ _ hbp]
        simp

end TaskModel.Sched
