import TaskModel.Sched.GlobalLemmas
/-!
Sched.MonC01 — the invariants behind C01 and the soundness of its raw-trace monitors.

* `DepsInv`: an activation that is past its dependency join (or has started a command)
  has all its dependency activations entered, exited and successful;
* `KidInv`: a recorded kid exists and its `kind` names the parent and the slot;
* `WaiterInv`: a waiter that has woken carries the result of the finished registered
  execution of its key.
-/
namespace TaskModel.Sched

/-- phases that are only reachable through a successful dependency join -/
def pastJoin : Phase → Bool
  | .guards | .body | .inShell _ _ | .inCall _ _ | .callReturned _ _ | .defers => true
  | _ => false

/-- the activation has got past its dependency join: it is in its guards / command loop /
deferred entries, or it has started a command earlier -/
def Proceeded (x : Act) : Prop := pastJoin x.phase = true ∨ x.started ≠ []

/-- every dependency activation of `x` has entered, has exited (`done`) and returned `ok` -/
def DepsOk (c : Config) (x : Act) : Prop :=
  ∃ rs, depResults c x x.def_.deps.length 0 = some rs ∧ ∀ r ∈ rs, r = Res.ok

set_option maxHeartbeats 1000000 in
/-- the only way past the join is `depsDone ok`, accepted only if all dependency results are `ok` -/
theorem stepLocal_proceeded (F : Flags) (o : Obs) (x : Act) (ev : Ev) (y : Act) (eff : Eff)
    (h : stepLocal F o x ev = some (y, eff)) (hy : Proceeded y) :
    Proceeded x ∨ ∃ rs, o.deps () = some rs ∧ rs.all Res.isOk = true := by
  unfold Proceeded at hy ⊢
  step_local_cases h
  all_goals (first
    | (left; left; rw [‹x.phase = _›]; rfl)
    | (left; right; simpa [pastJoin, Act.stop] using hy)
    | (right; exact ⟨_, ‹_›, ‹_›⟩))

/-- the start of a non-deferred command (shell command or `task:` call) -/
def isBodyStart : Ev → Bool
  | .cmdStart _ _ false | .callRelease _ false => true
  | _ => false

set_option maxHeartbeats 1000000 in
/-- a non-deferred command start is accepted in `body` only -/
theorem stepLocal_cmdStart (F : Flags) (o : Obs) (x : Act) (y : Act) (eff : Eff) (ev : Ev)
    (h : stepLocal F o x ev = some (y, eff)) (hev : isBodyStart ev = true) : x.phase = .body := by
  step_local_cases h
  all_goals (first
    | assumption
    | (exfalso; simp [isBodyStart] at hev; done)
    | (exfalso; simp_all [isBodyStart]; done))

theorem all_isOk (rs : List Res) (h : rs.all Res.isOk = true) : ∀ r ∈ rs, r = Res.ok := by
  intro r hr
  have := List.all_eq_true.mp h r hr
  cases r <;> simp [Res.isOk] at this ⊢

/-- `DepsOk` survives every step, whoever makes it -/
theorem DepsOk_step (P : Program) (F : Flags) (c c' : Config) (l : Label) (h : step P F c l = some c')
    (x x' : Act) (he : Evolves x x') (hd : DepsOk c x) : DepsOk c' x' := by
  obtain ⟨rs, h1, h2⟩ := hd
  refine ⟨rs, ?_, h2⟩
  rw [he.ident.1]
  exact depResults_mono c c' x x' (step_kidDone P F c c' l h) he.kids _ _ rs h1

def DepsInv (c : Config) : Prop := ∀ a x, c.act? a = some x → Proceeded x → DepsOk c x

theorem freshAct_not_proceeded (P : Program) (F : Flags) (c : Config) (kind : Kind) (t : Nat) :
    ¬ Proceeded (freshAct P F c kind t) := by
  obtain ⟨hph, _, _, _, hst, _⟩ := freshAct_fields P F c kind t
  rintro (h | h)
  · rcases hph with e | e <;> rw [e] at h <;> cases h
  · exact h hst

theorem DepsInv_step (P : Program) (F : Flags) (c c' : Config) (l : Label)
    (hinv : DepsInv c) (h : step P F c l = some c') : DepsInv c' := by
  intro a x' hx' hp
  cases hc : c.act? a with
  | none =>
    obtain ⟨kind, t, _, _, rfl⟩ := step_new P F c c' l h a x' hc hx'
    exact absurd hp (freshAct_not_proceeded P F c kind t)
  | some x =>
    obtain ⟨x'', hx'', hev⟩ := step_evolvesIn P F c c' l h a x hc
    rw [hx'] at hx''; cases hx''
    have hdo : DepsOk c x := by
      cases hev with
      | same e _ => subst e; exact hinv a _ hc hp
      | loc eff _ _ hl =>
        rcases stepLocal_proceeded F _ x l.ev x' eff hl hp with hpx | ⟨rs, h1, h2⟩
        · exact hinv a x hc hpx
        · exact ⟨rs, h1, all_isOk rs h2⟩
      | kid slot kind t _ e _ _ => subst e; exact hinv a x hc hp
    exact DepsOk_step P F c c' l h x x' hev.evolves hdo

theorem DepsInv_init (n : Nat) : DepsInv (init n) := by
  intro a x hx; simp [init, Config.act?] at hx

/-! ### kids exist and know their parent -/

/-- the kid recorded under `slot` of `p` is the activation created for that slot -/
def KidOf (p : Nat) (px : Act) (slot : Nat) (k : Act) : Prop :=
  (∃ j, slot = slotOfDep j ∧ k.kind = .dep p j ∧ px.def_.deps[j]? = some k.task) ∨
  (∃ i d, slot = slotOfCall px i ∧ k.kind = .call p i d ∧ px.def_.cmds[i]? = some (.call k.task d))

def KidInv (c : Config) : Prop :=
  ∀ p px slot id, c.act? p = some px → px.kids.lookup slot = some id → ∃ k, c.act? id = some k ∧ KidOf p px slot k

theorem KidOf_evolves {p : Nat} {px px' : Act} {slot : Nat} {k k' : Act} (hp : Evolves px px') (hk : Evolves k k')
    (h : KidOf p px slot k) : KidOf p px' slot k' := by
  obtain ⟨d1, _, _, _⟩ := hp.ident
  obtain ⟨_, e2, e3, _⟩ := hk.ident
  unfold KidOf slotOfCall at *
  rw [d1, e2, e3]; exact h

theorem KidInv_step (P : Program) (F : Flags) (c c' : Config) (l : Label)
    (hinv : KidInv c) (h : step P F c l = some c') : KidInv c' := by
  intro p px' slot id hpx' hl
  cases hc : c.act? p with
  | none =>
    obtain ⟨kind, t, _, _, rfl⟩ := step_new P F c c' l h p px' hc hpx'
    rw [(freshAct_fields P F c kind t).2.2.2.2.2.2.2.2.2.1] at hl
    cases hl
  | some px =>
    obtain ⟨px'', hpx'', hev⟩ := step_evolvesIn P F c c' l h p px hc
    rw [hpx'] at hpx''; cases hpx''
    -- the old kids
    have old : px.kids.lookup slot = some id → ∃ k, c'.act? id = some k ∧ KidOf p px' slot k := by
      intro hl0
      obtain ⟨k, hk, hko⟩ := hinv p px slot id hc hl0
      obtain ⟨k', hk', hkev⟩ := step_evolves P F c c' l h id k hk
      exact ⟨k', hk', KidOf_evolves hev.evolves hkev hko⟩
    cases hev with
    | same e _ => subst e; exact old hl
    | loc eff _ _ hs => rw [(stepLocal_frame F _ px l.ev px' eff hs).1] at hl; exact old hl
    | kid slot0 kind t hen e hs hg =>
      subst e
      by_cases hss : slot = slot0
      · subst hss
        simp only [lookup_cons_self] at hl
        cases hl
        obtain ⟨_, hnew, _, _⟩ := enterAct_kind P F c c' l.act kind t (step_enter P F c c' l kind t hen h)
        obtain ⟨_, _, _, _, _, _, _, _, _, _, hkind, htask, _⟩ := freshAct_fields P F c kind t
        refine ⟨_, hnew, ?_⟩
        cases hg with
        | dep j h1 h2 _ h4 => exact .inl ⟨j, h2, by rw [hkind, h1], by rw [htask]; exact h4⟩
        | call i d h1 h2 _ h4 => exact .inr ⟨i, d, h2, by rw [hkind, h1], by rw [htask]; exact h4⟩
      · have : List.lookup slot ((slot0, l.act) :: px.kids) = List.lookup slot px.kids := lookup_cons_ne _ _ _ _ hss
        rw [show ({ px with kids := (slot0, l.act) :: px.kids } : Act).kids = (slot0, l.act) :: px.kids from rfl, this] at hl
        exact old hl

theorem KidInv_init (n : Nat) : KidInv (init n) := by
  intro p px slot id hx; simp [init, Config.act?] at hx

end TaskModel.Sched
