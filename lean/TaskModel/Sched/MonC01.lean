import TaskModel.Sched.Dedup
/-!
Sched.MonC01 — the invariants behind C01 and the soundness of its raw-trace monitors.

* `DepsInv`: an activation that is past its dependency join (or has started a command)
  has all its dependency activations entered, exited and successful;
* `KidInv`: a recorded kid exists and its `kind` names the parent and the slot;
* `WaiterInv`: a waiter that has woken carries the result of the finished registered
  execution of its key.
-/
namespace TaskModel.Sched

/-- phases that are only reachable through a successful dependency join -/
def pastJoin : Phase → Bool
  | .guards | .body | .inShell _ _ | .inCall _ _ | .callReturned _ _ | .defers => true
  | _ => false

/-- the activation has got past its dependency join: it is in its guards / command loop /
deferred entries, or it has started a command earlier -/
def Proceeded (x : Act) : Prop := pastJoin x.phase = true ∨ x.started ≠ []

/-- every dependency activation of `x` has entered, has exited (`done`) and returned `ok` -/
def DepsOk (c : Config) (x : Act) : Prop :=
  ∃ rs, depResults c x x.def_.deps.length 0 = some rs ∧ ∀ r ∈ rs, r = Res.ok

set_option maxHeartbeats 1000000 in
/-- the only way past the join is `depsDone ok`, accepted only if all dependency results are `ok` -/
theorem stepLocal_proceeded (F : Flags) (o : Obs) (x : Act) (ev : Ev) (y : Act) (eff : Eff)
    (h : stepLocal F o x ev = some (y, eff)) (hy : Proceeded y) :
    Proceeded x ∨ ∃ rs, o.deps () = some rs ∧ rs.all Res.isOk = true := by
  unfold Proceeded at hy ⊢
  step_local_cases h
  all_goals (first
    | (left; left; rw [‹x.phase = _›]; rfl)
    | (left; right; simpa [pastJoin, Act.stop, Act.stopDeps] using hy)
    | (right; exact ⟨_, ‹_›, ‹_›⟩))

/-- the start of a non-deferred command (shell command or `task:` call) -/
def isBodyStart : Ev → Bool
  | .cmdStart _ _ false | .callRelease _ false => true
  | _ => false

set_option maxHeartbeats 1000000 in
/-- a non-deferred command start is accepted in `body` only -/
theorem stepLocal_cmdStart (F : Flags) (o : Obs) (x : Act) (y : Act) (eff : Eff) (ev : Ev)
    (h : stepLocal F o x ev = some (y, eff)) (hev : isBodyStart ev = true) : x.phase = .body := by
  step_local_cases h
  all_goals (first
    | assumption
    | (exfalso; simp [isBodyStart] at hev; done)
    | (exfalso; simp_all [isBodyStart]; done))

theorem all_isOk (rs : List Res) (h : rs.all Res.isOk = true) : ∀ r ∈ rs, r = Res.ok := by
  intro r hr
  have := List.all_eq_true.mp h r hr
  cases r <;> simp [Res.isOk] at this ⊢

/-- `DepsOk` survives every step, whoever makes it -/
theorem DepsOk_step (P : Program) (F : Flags) (c c' : Config) (l : Label) (h : step P F c l = some c')
    (x x' : Act) (he : Evolves x x') (hd : DepsOk c x) : DepsOk c' x' := by
  obtain ⟨rs, h1, h2⟩ := hd
  refine ⟨rs, ?_, h2⟩
  rw [he.ident.1]
  exact depResults_mono c c' x x' (step_kidDone P F c c' l h) he.kids _ _ rs h1

def DepsInv (c : Config) : Prop := ∀ a x, c.act? a = some x → Proceeded x → DepsOk c x

theorem freshAct_not_proceeded (P : Program) (F : Flags) (c : Config) (kind : Kind) (t : Nat) :
    ¬ Proceeded (freshAct P F c kind t) := by
  obtain ⟨hph, _, _, _, hst, _⟩ := freshAct_fields P F c kind t
  rintro (h | h)
  · rcases hph with e | e <;> rw [e] at h <;> cases h
  · exact h hst

theorem DepsInv_step (P : Program) (F : Flags) (c c' : Config) (l : Label)
    (hinv : DepsInv c) (h : step P F c l = some c') : DepsInv c' := by
  intro a x' hx' hp
  cases hc : c.act? a with
  | none =>
    obtain ⟨kind, t, _, _, rfl⟩ := step_new P F c c' l h a x' hc hx'
    exact absurd hp (freshAct_not_proceeded P F c kind t)
  | some x =>
    obtain ⟨x'', hx'', hev⟩ := step_evolvesIn P F c c' l h a x hc
    rw [hx'] at hx''; cases hx''
    have hdo : DepsOk c x := by
      cases hev with
      | same e _ => subst e; exact hinv a _ hc hp
      | loc eff _ _ hl =>
        rcases stepLocal_proceeded F _ x l.ev x' eff hl hp with hpx | ⟨rs, h1, h2⟩
        · exact hinv a x hc hpx
        · exact ⟨rs, h1, all_isOk rs h2⟩
      | kid slot kind t _ e _ _ => subst e; exact hinv a x hc hp
    exact DepsOk_step P F c c' l h x x' hev.evolves hdo

theorem DepsInv_init (n : Nat) : DepsInv (init n) := by
  intro a x hx; simp [init, Config.act?] at hx

/-! ### kids exist and know their parent -/

/-- the kid recorded under `slot` of `p` is the activation created for that slot -/
def KidOf (p : Nat) (px : Act) (slot : Nat) (k : Act) : Prop :=
  (∃ j, slot = slotOfDep j ∧ k.kind = .dep p j ∧ px.def_.deps[j]? = some k.task) ∨
  (∃ i d, slot = slotOfCall px i ∧ k.kind = .call p i d ∧ px.def_.cmds[i]? = some (.call k.task d))

def KidInv (c : Config) : Prop :=
  ∀ p px slot id, c.act? p = some px → px.kids.lookup slot = some id → ∃ k, c.act? id = some k ∧ KidOf p px slot k

theorem KidOf_evolves {p : Nat} {px px' : Act} {slot : Nat} {k k' : Act} (hp : Evolves px px') (hk : Evolves k k')
    (h : KidOf p px slot k) : KidOf p px' slot k' := by
  obtain ⟨d1, _, _, _⟩ := hp.ident
  obtain ⟨_, e2, e3, _⟩ := hk.ident
  unfold KidOf slotOfCall at *
  rw [d1, e2, e3]; exact h

theorem KidInv_step (P : Program) (F : Flags) (c c' : Config) (l : Label)
    (hinv : KidInv c) (h : step P F c l = some c') : KidInv c' := by
  intro p px' slot id hpx' hl
  cases hc : c.act? p with
  | none =>
    obtain ⟨kind, t, _, _, rfl⟩ := step_new P F c c' l h p px' hc hpx'
    rw [(freshAct_fields P F c kind t).2.2.2.2.2.2.2.2.2.1] at hl
    cases hl
  | some px =>
    obtain ⟨px'', hpx'', hev⟩ := step_evolvesIn P F c c' l h p px hc
    rw [hpx'] at hpx''; cases hpx''
    -- the old kids
    have old : px.kids.lookup slot = some id → ∃ k, c'.act? id = some k ∧ KidOf p px' slot k := by
      intro hl0
      obtain ⟨k, hk, hko⟩ := hinv p px slot id hc hl0
      obtain ⟨k', hk', hkev⟩ := step_evolves P F c c' l h id k hk
      exact ⟨k', hk', KidOf_evolves hev.evolves hkev hko⟩
    cases hev with
    | same e _ => subst e; exact old hl
    | loc eff _ _ hs => rw [(stepLocal_frame F _ px l.ev px' eff hs).1] at hl; exact old hl
    | kid slot0 kind t hen e hs hg =>
      subst e
      by_cases hss : slot = slot0
      · subst hss
        simp only [lookup_cons_self] at hl
        cases hl
        obtain ⟨_, hnew, _, _⟩ := enterAct_kind P F c c' l.act kind t (step_enter P F c c' l kind t hen h)
        obtain ⟨_, _, _, _, _, _, _, _, _, _, hkind, htask, _⟩ := freshAct_fields P F c kind t
        refine ⟨_, hnew, ?_⟩
        cases hg with
        | dep j h1 h2 _ h4 => exact .inl ⟨j, h2, by rw [hkind, h1], by rw [htask]; exact h4⟩
        | call i d h1 h2 _ h4 => exact .inr ⟨i, d, h2, by rw [hkind, h1], by rw [htask]; exact h4⟩
      · have : List.lookup slot ((slot0, l.act) :: px.kids) = List.lookup slot px.kids := lookup_cons_ne _ _ _ _ hss
        rw [show ({ px with kids := (slot0, l.act) :: px.kids } : Act).kids = (slot0, l.act) :: px.kids from rfl, this] at hl
        exact old hl

theorem KidInv_init (n : Nat) : KidInv (init n) := by
  intro p px slot id hx; simp [init, Config.act?] at hx

/-! ## raw-trace monitor `wakeAfterDone` -/

def wadRegs (l : Label) (regs : List (Nat × Nat)) : List (Nat × Nat) :=
  match l.ev with | .register k => (k, l.act) :: regs | _ => regs
def wadDones (l : Label) (dones : List Nat) : List Nat :=
  match l.ev with | .execDone => l.act :: dones | _ => dones
def wadWaits (l : Label) (waits : List (Nat × Nat)) : List (Nat × Nat) :=
  match l.ev with | .waiter k => (l.act, k) :: waits | _ => waits
def wadCheck (l : Label) (regs : List (Nat × Nat)) (dones : List Nat) (waits : List (Nat × Nat)) : Bool :=
  match l.ev with
  | .wWake =>
    (match waits.lookup l.act with
     | some k => (match regs.lookup k with | some e => dones.contains e | none => false)
     | none => false)
  | _ => true

/-- `wakeAfterDone`, one label at a time: a check and three independent state updates -/
theorem wakeAfterDone_cons (l : Label) (ls : List Label) (regs : List (Nat × Nat)) (dones : List Nat)
    (waits : List (Nat × Nat)) :
    wakeAfterDone (l :: ls) regs dones waits =
      (wadCheck l regs dones waits && wakeAfterDone ls (wadRegs l regs) (wadDones l dones) (wadWaits l waits)) := by
  obtain ⟨a, ev⟩ := l
  cases ev <;> first | rfl | simp [wakeAfterDone, wadCheck, wadRegs, wadDones, wadWaits]

theorem wadRegs_other (l : Label) (regs : List (Nat × Nat)) (h : ∀ k, l.ev ≠ .register k) : wadRegs l regs = regs := by
  unfold wadRegs; split
  · rename_i k hk; exact absurd hk (h k)
  · rfl

theorem mem_wadDones (l : Label) (dones : List Nat) (e : Nat) (h : e ∈ dones) : e ∈ wadDones l dones := by
  unfold wadDones; split
  · exact List.mem_cons_of_mem _ h
  · exact h

theorem wadWaits_other (l : Label) (waits : List (Nat × Nat)) (h : ∀ k, l.ev ≠ .waiter k) : wadWaits l waits = waits := by
  unfold wadWaits; split
  · rename_i k hk; exact absurd hk (h k)
  · rfl

theorem wadWaits_lookup_ne (l : Label) (waits : List (Nat × Nat)) (a : Nat) (h : a ≠ l.act) :
    (wadWaits l waits).lookup a = waits.lookup a := by
  unfold wadWaits; split
  · exact lookup_cons_ne _ _ _ _ h
  · rfl

/-- model state ↔ monitor state -/
structure WadRel (c : Config) (regs : List (Nat × Nat)) (dones : List Nat) (waits : List (Nat × Nat)) : Prop where
  regs : regs = c.execs
  dones : ∀ e ex, c.act? e = some ex → ex.key.isSome = true → exFin ex.phase = true → e ∈ dones
  waits : ∀ a, waits.lookup a = (c.act? a).bind (·.waitsFor)

set_option maxHeartbeats 1000000 in
/-- a registered execution gets into a finished phase by `execDone` only -/
theorem stepLocal_execFin (F : Flags) (o : Obs) (x : Act) (ev : Ev) (y : Act) (eff : Eff)
    (hK : KeyInv x) (h : stepLocal F o x ev = some (y, eff))
    (hk : y.key.isSome = true) (hf : exFin y.phase = true) :
    ev = .execDone ∨ (x.key.isSome = true ∧ exFin x.phase = true) := by
  have hpre := hK.pre
  step_local_cases h
  all_goals (first
    | (left; rfl)
    | (exfalso; simp only [exFin_next, exFin_afterCmd, exFin_afterDefer] at hf; cases hf; done)
    | (exfalso; cases hf; done)
    | (right; simp_all [exFin, preReg]; done)
    | (exfalso; simp_all [exFin, preReg]; done))

set_option maxHeartbeats 1000000 in
/-- `wWake` is accepted only once the registered execution has finished -/
theorem stepLocal_wWake (F : Flags) (o : Obs) (x : Act) (ev : Ev) (y : Act) (eff : Eff)
    (h : stepLocal F o x ev = some (y, eff)) (hev : ev = .wWake) : ∃ r, o.execResult () = some r := by
  step_local_cases h
  all_goals (first
    | (cases hev; done)
    | exact ⟨_, ‹_›⟩)

theorem WadRel_step (P : Program) (F : Flags) (c c' : Config) (l : Label) (regs : List (Nat × Nat))
    (dones : List Nat) (waits : List (Nat × Nat))
    (hK : AllKey c) (hr : WadRel c regs dones waits) (h : step P F c l = some c') :
    WadRel c' (wadRegs l regs) (wadDones l dones) (wadWaits l waits) := by
  refine ⟨?_, ?_, ?_⟩
  · rcases step_execs P F c c' l h with ⟨he, hne⟩ | ⟨k, hev, _, he⟩
    · rw [wadRegs_other l regs hne, he]; exact hr.regs
    · rw [he, ← hr.regs]; simp [wadRegs, hev]
  · intro e ex' hex' hkey hfin
    cases hc : c.act? e with
    | none =>
      obtain ⟨kind, t, _, _, rfl⟩ := step_new P F c c' l h e ex' hc hex'
      rw [(freshAct_fields P F c kind t).2.2.2.2.2.2.2.1] at hkey; cases hkey
    | some ex =>
      obtain ⟨x'', hx'', hev⟩ := step_evolvesIn P F c c' l h e ex hc
      rw [hex'] at hx''; cases hx''
      cases hev with
      | same e' _ => subst e'; exact mem_wadDones l dones e (hr.dones e _ hc hkey hfin)
      | kid slot kind t _ e' _ _ => subst e'; exact mem_wadDones l dones e (hr.dones e ex hc hkey hfin)
      | loc eff hb _ hl =>
        rcases stepLocal_execFin F _ ex l.ev ex' eff (hK e ex hc) hl hkey hfin with hd | ⟨h1, h2⟩
        · rw [hb]; simp [wadDones, hd]
        · exact mem_wadDones l dones e (hr.dones e ex hc h1 h2)
  · intro a
    cases hc : c.act? a with
    | none =>
      have h0 := hr.waits a
      rw [hc] at h0
      have hrhs : (c'.act? a).bind (·.waitsFor) = none := by
        cases hc' : c'.act? a with
        | none => rfl
        | some x' =>
          obtain ⟨kind, t, _, _, rfl⟩ := step_new P F c c' l h a x' hc hc'
          exact (freshAct_fields P F c kind t).2.2.2.2.2.2.2.2.1
      rw [hrhs]
      rcases step_cases P F c c' l h with ⟨k, t, hev, _⟩ | ⟨_, x0, _, _, hx0, _, _⟩
      · rw [wadWaits_other l waits (by intro k'; rw [hev]; intro e; cases e)]; exact h0
      · have : a ≠ l.act := by intro e; subst e; rw [hc] at hx0; cases hx0
        rw [wadWaits_lookup_ne l waits a this]; exact h0
    | some x =>
      have h0 := hr.waits a
      rw [hc] at h0
      obtain ⟨x', hx', hev⟩ := step_evolvesIn P F c c' l h a x hc
      rw [hx']
      cases hev with
      | same e hor =>
        subst e
        rcases hor with hne | ⟨k, t, hev⟩
        · rw [wadWaits_lookup_ne l waits a hne]; exact h0
        · rw [wadWaits_other l waits (by intro k'; rw [hev]; intro e; cases e)]; exact h0
      | kid slot kind t hev e _ _ =>
        subst e
        rw [wadWaits_other l waits (by intro k'; rw [hev]; intro e; cases e)]; exact h0
      | loc eff hb _ hl =>
        rcases stepLocal_waitsFor F _ x l.ev x' eff hl with ⟨h1, hne⟩ | ⟨k, hev, hk, _⟩
        · rw [wadWaits_other l waits hne]
          show waits.lookup a = x'.waitsFor
          rw [h1]; exact h0
        · show (wadWaits l waits).lookup a = x'.waitsFor
          rw [hk, hb]; simp [wadWaits, hev]

theorem wadCheck_step (P : Program) (F : Flags) (c c' : Config) (l : Label) (regs : List (Nat × Nat))
    (dones : List Nat) (waits : List (Nat × Nat))
    (hD : DedupInv c) (hr : WadRel c regs dones waits) (h : step P F c l = some c') :
    wadCheck l regs dones waits = true := by
  unfold wadCheck
  split
  · rename_i hev
    rcases step_cases P F c c' l h with ⟨k, t, hen, _⟩ | ⟨_, x, y, eff, hx, hl, _⟩
    · rw [hen] at hev; cases hev
    · obtain ⟨r, hr0⟩ := stepLocal_wWake F _ x l.ev y eff hl hev
      simp only [obsOf] at hr0
      cases hw : x.waitsFor with
      | none => rw [hw] at hr0; simp [execResultOf] at hr0
      | some k =>
        rw [hw] at hr0
        obtain ⟨e, ex, he, hex, hfin, _⟩ := (execResultOf_eq_some c k r).mp hr0
        obtain ⟨ex', hex', hkey⟩ := hD.execs.bound k e he
        rw [hex] at hex'; cases hex'
        have hd : e ∈ dones := hr.dones e ex hex (by rw [hkey]; rfl) hfin
        have hwl : waits.lookup l.act = some k := by rw [hr.waits l.act, hx]; exact hw
        rw [hwl]
        simp only [hr.regs, he]
        simpa using hd
  · rfl

theorem wakeAfterDone_sound_gen (P : Program) (F : Flags) (tr : List Label) :
    ∀ (c c' : Config) (regs : List (Nat × Nat)) (dones : List Nat) (waits : List (Nat × Nat)),
      DedupInv c → WadRel c regs dones waits → replay P F c tr = some c' →
      wakeAfterDone tr regs dones waits = true := by
  induction tr with
  | nil => intros; rfl
  | cons l ls ih =>
    intro c c' regs dones waits hD hr h
    simp only [replay] at h
    split at h
    · rename_i c1 hs
      rw [wakeAfterDone_cons, wadCheck_step P F c c1 l regs dones waits hD hr hs,
        ih c1 c' _ _ _ (DedupInv_step P F c c1 l hD hs) (WadRel_step P F c c1 l regs dones waits hD.key hr hs) h]
      rfl
    · cases h

/-- **every accepted trace passes `wakeAfterDone`**: a waiter wakes only after the
`execDone` of the activation registered for its key -/
theorem wakeAfterDone_sound (P : Program) (F : Flags) (n : Nat) (tr : List Label) (c : Config)
    (h : replay P F (init n) tr = some c) : wakeAfterDone tr [] [] [] = true :=
  wakeAfterDone_sound_gen P F tr (init n) c [] [] [] (DedupInv_init n)
    ⟨rfl, by intro e ex hx; simp [init, Config.act?] at hx, by intro a; simp [init, Config.act?]⟩ h

/-! ## raw-trace monitor `depsExitedBefore` -/

theorem not_mem_keys_of_lookup_none (l : List (Nat × Nat)) (k : Nat) (h : l.lookup k = none) :
    k ∉ l.map (·.1) := by
  induction l with
  | nil => simp
  | cons e l ih =>
    obtain ⟨k', v⟩ := e
    by_cases hk : k = k'
    · subst hk; rw [lookup_cons_self] at h; cases h
    · rw [lookup_cons_ne _ _ _ _ hk] at h
      simp only [List.map_cons, List.mem_cons, not_or]
      exact ⟨hk, ih h⟩

theorem lookup_of_mem_nodup (l : List (Nat × Nat)) (hn : (l.map (·.1)).Nodup) (k v : Nat) (hm : (k, v) ∈ l) :
    l.lookup k = some v := by
  induction l with
  | nil => cases hm
  | cons e l ih =>
    obtain ⟨k', v'⟩ := e
    simp only [List.map_cons, List.nodup_cons] at hn
    rcases List.mem_cons.mp hm with he | hm'
    · cases he; exact lookup_cons_self _ _ _
    · have hk : k ≠ k' := by
        intro e; subst e
        exact hn.1 (List.mem_map.mpr ⟨(k, v), hm', rfl⟩)
      rw [lookup_cons_ne _ _ _ _ hk]; exact ih hn.2 hm'

theorem filter_or_length {α : Type} (p q r : α → Bool) (l : List α) (hp : ∀ x, p x = (q x || r x))
    (hd : ∀ x, q x = true → r x = true → False) :
    (l.filter p).length = (l.filter q).length + (l.filter r).length := by
  induction l with
  | nil => rfl
  | cons e l ih =>
    simp only [List.filter_cons, hp e]
    cases hq : q e <;> cases hr : r e
    · simpa using ih
    · simp only [Bool.false_or, if_true, List.length_cons, Bool.false_eq_true, if_false]; omega
    · simp only [Bool.or_false, if_true, List.length_cons, Bool.false_eq_true, if_false]; omega
    · exact (hd e hq hr).elim

theorem filter_lt_succ_length (l : List (Nat × Nat)) (n : Nat) :
    (l.filter (fun s => decide (s.1 < n + 1))).length =
      (l.filter (fun s => decide (s.1 < n))).length + (l.filter (fun s => decide (s.1 = n))).length := by
  apply filter_or_length
  · intro x
    by_cases h1 : x.1 < n <;> by_cases h2 : x.1 = n <;> simp [h1, h2] <;> omega
  · intro x h1 h2
    simp only [decide_eq_true_eq] at h1 h2
    omega

theorem filter_eq_length_one (l : List (Nat × Nat)) (hn : (l.map (·.1)).Nodup) (n id : Nat)
    (h : l.lookup n = some id) : (l.filter (fun s => decide (s.1 = n))).length = 1 := by
  induction l with
  | nil => cases h
  | cons e l ih =>
    obtain ⟨k, v⟩ := e
    simp only [List.map_cons, List.nodup_cons] at hn
    simp only [List.filter_cons]
    by_cases hk : k = n
    · subst hk
      have : l.filter (fun s => decide (s.1 = k)) = [] := by
        rw [List.filter_eq_nil_iff]
        intro s hs
        simp only [decide_eq_true_eq]
        intro e; exact hn.1 (List.mem_map.mpr ⟨s, hs, e⟩)
      simp [this]
    · have hk' : n ≠ k := fun e => hk e.symm
      rw [lookup_cons_ne _ _ _ _ hk'] at h
      simp only [hk, decide_false]
      exact ih hn.2 h

/-- nodup keys and every slot below `n` filled: exactly `n` entries below `n` -/
theorem filter_lt_length (l : List (Nat × Nat)) (hn : (l.map (·.1)).Nodup) (n : Nat)
    (hall : ∀ j, j < n → ∃ id, l.lookup j = some id) : (l.filter (fun s => decide (s.1 < n))).length = n := by
  induction n with
  | zero => simp
  | succ n ih =>
    obtain ⟨id, hid⟩ := hall n (Nat.lt_succ_self n)
    rw [filter_lt_succ_length, ih (fun j hj => hall j (Nat.lt_succ_of_lt hj)), filter_eq_length_one l hn n id hid]

/-- the dependency activations recorded for `x`, newest first -/
def depKids (x : Act) : List Nat := (x.kids.filter (fun s => decide (s.1 < x.def_.deps.length))).map (·.2)

def depKidsOf (c : Config) (a : Nat) : List Nat :=
  match c.act? a with
  | none => []
  | some x => depKids x

/-- slots are never reused -/
def KidsNodup (x : Act) : Prop := (x.kids.map (·.1)).Nodup
def AllNodup (c : Config) : Prop := ∀ a x, c.act? a = some x → KidsNodup x

theorem KidsNodup_evolves {x x' : Act} (he : Evolves x x') (h : KidsNodup x) : KidsNodup x' := by
  cases he with
  | same e => subst e; exact h
  | loc F o ev eff hl => unfold KidsNodup; rw [(stepLocal_frame F o x ev x' eff hl).1]; exact h
  | kid slot a e hs _ =>
    subst e
    show ((slot, a) :: x.kids |>.map (·.1)).Nodup
    simp only [List.map_cons, List.nodup_cons]
    exact ⟨not_mem_keys_of_lookup_none x.kids slot hs, h⟩

theorem AllNodup_init (n : Nat) : AllNodup (init n) := by
  intro a x hx; simp [init, Config.act?] at hx

theorem AllNodup_step (P : Program) (F : Flags) (c c' : Config) (l : Label)
    (hinv : AllNodup c) (h : step P F c l = some c') : AllNodup c' := by
  intro a x' hx'
  cases hc : c.act? a with
  | none =>
    obtain ⟨kind, t, _, _, rfl⟩ := step_new P F c c' l h a x' hc hx'
    unfold KidsNodup
    rw [(freshAct_fields P F c kind t).2.2.2.2.2.2.2.2.2.1]
    exact List.nodup_nil
  | some x =>
    obtain ⟨x'', hx'', hev⟩ := step_evolves P F c c' l h a x hc
    rw [hx'] at hx''; cases hx''
    exact KidsNodup_evolves hev (hinv a x hc)

def debKids (a : Nat) (l : Label) (kids : List Nat) : List Nat :=
  match l.ev with
  | .enter (.dep p _) _ => if p = a then l.act :: kids else kids
  | _ => kids

def debExited (l : Label) (exited : List Nat) : List Nat :=
  match l.ev with | .exit => l.act :: exited | _ => exited

/-- `depsExitedBefore`, one label at a time -/
theorem depsExitedBefore_cons (a n : Nat) (l : Label) (ls : List Label) (kids exited : List Nat) :
    depsExitedBefore a n (l :: ls) kids exited =
      if isBodyStart l.ev = true ∧ l.act = a then (decide (kids.length = n) && kids.all (exited.contains ·))
      else depsExitedBefore a n ls (debKids a l kids) (debExited l exited) := by
  obtain ⟨b, ev⟩ := l
  cases ev with
  | enter kind t => cases kind <;> simp [depsExitedBefore, isBodyStart, debKids, debExited] <;> (split <;> rfl)
  | cmdStart i s d => cases d <;> simp [depsExitedBefore, isBodyStart, debKids, debExited]
  | callRelease i d => cases d <;> simp [depsExitedBefore, isBodyStart, debKids, debExited]
  | _ => simp [depsExitedBefore, isBodyStart, debKids, debExited]

theorem debKids_other (a : Nat) (l : Label) (kids : List Nat) (h : ∀ k t, l.ev ≠ .enter k t) : debKids a l kids = kids := by
  unfold debKids; split
  · rename_i p j t hev; exact absurd hev (h _ _)
  · rfl

theorem mem_debExited (l : Label) (exited : List Nat) (e : Nat) (h : e ∈ exited) : e ∈ debExited l exited := by
  unfold debExited; split
  · exact List.mem_cons_of_mem _ h
  · exact h

structure DebRel (a : Nat) (c : Config) (kids exited : List Nat) : Prop where
  exited : ∀ id x, c.act? id = some x → x.phase = .done → id ∈ exited
  kids : kids = depKidsOf c a

theorem depKidsOf_congr (c c' : Config) (a : Nat) (h : c'.act? a = c.act? a) : depKidsOf c' a = depKidsOf c a := by
  unfold depKidsOf; rw [h]

theorem depKidsOf_fresh (P : Program) (F : Flags) (c0 c' : Config) (a : Nat) (kind : Kind) (t : Nat)
    (h : c'.act? a = some (freshAct P F c0 kind t)) : depKidsOf c' a = [] := by
  unfold depKidsOf depKids; rw [h]
  simp only
  rw [(freshAct_fields P F c0 kind t).2.2.2.2.2.2.2.2.2.1]; rfl

theorem DebRel_step (P : Program) (F : Flags) (a : Nat) (c c' : Config) (l : Label) (kids exited : List Nat)
    (hr : DebRel a c kids exited) (h : step P F c l = some c') :
    DebRel a c' (debKids a l kids) (debExited l exited) := by
  refine ⟨?_, ?_⟩
  · intro id x' hx' hd
    cases hc : c.act? id with
    | none =>
      obtain ⟨kind, t, _, _, rfl⟩ := step_new P F c c' l h id x' hc hx'
      rcases (freshAct_fields P F c kind t).1 with e | e <;> rw [e] at hd <;> cases hd
    | some x =>
      obtain ⟨x'', hx'', hev⟩ := step_evolvesIn P F c c' l h id x hc
      rw [hx'] at hx''; cases hx''
      cases hev with
      | same e _ => subst e; exact mem_debExited l exited id (hr.exited id _ hc hd)
      | kid slot kind t _ e _ _ => subst e; exact mem_debExited l exited id (hr.exited id x hc hd)
      | loc eff hb _ hl =>
        have := stepLocal_done F _ x l.ev x' eff hl hd
        rw [hb]; simp [debExited, this]
  · have hk := hr.kids
    rcases step_cases P F c c' l h with ⟨k, t, hev, hen⟩ | ⟨hne, x, y, eff, hx, hl, rfl⟩
    · obtain ⟨hnone, hnew, _, hcase⟩ := enterAct_kind P F c c' l.act k t hen
      have hnil : a = l.act → kids = [] := by
        intro e; rw [hk]; unfold depKidsOf; rw [e, hnone]
      -- activations other than the parent
      have other : (∀ b, b ≠ l.act → b ≠ a → True) → debKids a l kids = kids →
          (a ≠ l.act → c'.act? a = c.act? a) → debKids a l kids = depKidsOf c' a := by
        intro _ hdk hoth
        rw [hdk]
        by_cases ha : a = l.act
        · rw [hnil ha, depKidsOf_fresh P F c c' a k t (by rw [ha]; exact hnew)]
        · rw [depKidsOf_congr c c' a (hoth ha)]; exact hk
      rcases hcase with ⟨k0, hk0, hoth⟩ | ⟨p, px, slot, hpa, hpx, _, hg, hp', hoth⟩
      · exact other (fun _ _ _ => trivial) (by simp [debKids, hev, hk0]) (fun ha => hoth a ha)
      · cases hg with
        | dep j hkind hslot _ hdeps =>
          by_cases hp : p = a
          · subst hp
            have hj : j < px.def_.deps.length := by
              rcases Nat.lt_or_ge j px.def_.deps.length with h | h
              · exact h
              · rw [List.getElem?_eq_none h] at hdeps; cases hdeps
            have : debKids p l kids = l.act :: kids := by simp [debKids, hev, hkind]
            rw [this, hk]
            unfold depKidsOf depKids
            rw [hp', hpx]
            simp [hslot, slotOfDep, hj]
          · exact other (fun _ _ _ => trivial) (by simp [debKids, hev, hkind, hp])
              (fun ha => hoth a ha (fun e => hp e.symm))
        | call i d hkind hslot _ _ =>
          by_cases hp : p = a
          · subst hp
            have : debKids p l kids = kids := by simp [debKids, hev, hkind]
            rw [this, hk]
            unfold depKidsOf depKids
            rw [hp', hpx]
            simp [hslot, slotOfCall]
          · exact other (fun _ _ _ => trivial) (by simp [debKids, hev, hkind])
              (fun ha => hoth a ha (fun e => hp e.symm))
    · rw [debKids_other a l kids hne, hk]
      by_cases ha : a = l.act
      · subst ha
        obtain ⟨e1, e2, _⟩ := stepLocal_frame F _ x l.ev y eff hl
        unfold depKidsOf depKids
        rw [hx]; simp [e1, e2]
      · exact (depKidsOf_congr c _ a (by rw [act?_set_other _ _ _ _ ha, act?_applyEff])).symm

/-- the check `depsExitedBefore` makes at the first command start of `a` succeeds -/
theorem debCheck (a ndeps : Nat) (c : Config) (kids exited : List Nat) (x : Act)
    (hD : DepsInv c) (hN : AllNodup c) (hr : DebRel a c kids exited)
    (hx : c.act? a = some x) (hb : x.phase = .body) (hn : x.def_.deps.length = ndeps) :
    (decide (kids.length = ndeps) && kids.all (exited.contains ·)) = true := by
  obtain ⟨rs, hrs, _⟩ := hD a x hx (.inl (by rw [hb]; rfl))
  obtain ⟨_, hspec⟩ := depResults_spec c x _ 0 rs hrs
  have hnd := hN a x hx
  have hkids : kids = depKids x := by rw [hr.kids]; unfold depKidsOf; rw [hx]
  have hlen : kids.length = ndeps := by
    rw [hkids, ← hn]
    unfold depKids
    rw [List.length_map]
    apply filter_lt_length x.kids hnd
    intro j hj
    obtain ⟨id, _, h1, _⟩ := hspec j (Nat.zero_le _) (by omega)
    exact ⟨id, h1⟩
  have hall : ∀ id ∈ kids, id ∈ exited := by
    intro id hid
    rw [hkids] at hid
    unfold depKids at hid
    obtain ⟨⟨s, id'⟩, hm, he⟩ := List.mem_map.mp hid
    simp only at he; subst he
    obtain ⟨hm1, hm2⟩ := List.mem_filter.mp hm
    simp only [decide_eq_true_eq] at hm2
    have hl := lookup_of_mem_nodup x.kids hnd s id' hm1
    obtain ⟨id2, r, h1, h2, _⟩ := hspec s (Nat.zero_le _) (by omega)
    simp only [slotOfDep] at h1
    rw [hl] at h1; cases h1
    obtain ⟨k, hk, hd, _⟩ := (kidDone_eq_some c id' r).mp h2
    exact hr.exited id' k hk hd
  simp only [Bool.and_eq_true, decide_eq_true_eq, List.all_eq_true]
  exact ⟨hlen, fun id hid => by simpa using hall id hid⟩

theorem depsExitedBefore_sound_gen (P : Program) (F : Flags) (a ndeps : Nat) (tr : List Label) :
    ∀ (c c' : Config) (kids exited : List Nat),
      DepsInv c → AllNodup c → DebRel a c kids exited → replay P F c tr = some c' →
      (∀ x, c'.act? a = some x → x.def_.deps.length = ndeps) →
      depsExitedBefore a ndeps tr kids exited = true := by
  induction tr with
  | nil => intros; rfl
  | cons l ls ih =>
    intro c c' kids exited hD hN hr h hfin
    have h' := h
    simp only [replay] at h
    split at h
    · rename_i c1 hs
      rw [depsExitedBefore_cons]
      split
      · rename_i hcond
        obtain ⟨hb, ha⟩ := hcond
        rcases step_cases P F c c1 l hs with ⟨k, t, hen, _⟩ | ⟨_, x, y, eff, hx, hl, _⟩
        · rw [hen] at hb; cases hb
        · rw [ha] at hx
          obtain ⟨x', hx', hdef, _⟩ := replay_ident P F c c' (l :: ls) h' a x hx
          exact debCheck a ndeps c kids exited x hD hN hr hx
            (stepLocal_cmdStart F _ x y eff l.ev (by rw [ha] at hl; exact hl) hb)
            (by rw [← hdef]; exact hfin x' hx')
      · exact ih c1 c' _ _ (DepsInv_step P F c c1 l hD hs) (AllNodup_step P F c c1 l hN hs)
          (DebRel_step P F a c c1 l kids exited hr hs) h hfin
    · cases h

/-- **every accepted trace passes `depsExitedBefore`** for every activation: when it
starts its first command, it has spawned exactly one activation per dependency and every
one of them has exited -/
theorem depsExitedBefore_sound (P : Program) (F : Flags) (n : Nat) (tr : List Label) (c : Config)
    (h : replay P F (init n) tr = some c) (a ndeps : Nat)
    (hn : ∀ x, c.act? a = some x → x.def_.deps.length = ndeps) :
    depsExitedBefore a ndeps tr [] [] = true :=
  depsExitedBefore_sound_gen P F a ndeps tr (init n) c [] [] (DepsInv_init n) (AllNodup_init n)
    ⟨by intro id x hx; simp [init, Config.act?] at hx, by simp [depKidsOf, init, Config.act?]⟩ h hn

end TaskModel.Sched
