import TaskModel.Sched.TermInv
import TaskModel.Sched.CallLemmas
import TaskModel.Sched.MonC13
/-!
Sched.TermAll — termination of the executor model for ALL programs, cyclic or not.

The call counter lets fewer than `maxCalls` activations of each task past `enter`
(`CallInv`); each of them pays, out of a per-task budget, for its own local steps and for
the `enter` (and possible immediate `exit`) of each of its children.  The potential —
calls of `Run` not yet entered, remaining budgets, remaining local steps and free child
slots of the live activations — decreases with every accepted label.
-/
namespace TaskModel.Sched.S7

/-- potential of a free child slot: its `enter` and, if the child is born `early`, its `exit` -/
def C2 : Nat → Nat := fun _ => 2

theorem sum_map_C2 (l : List Nat) : (l.map C2).sum = 2 * l.length := by
  induction l with
  | nil => rfl
  | cons a l ih => simp only [List.map_cons, List.sum_cons, List.length_cons, ih, C2]; omega

/-- what one activation past the counter costs -/
def unitCost (d : TaskDef) : Nat := localCost d + 2 * d.deps.length + 2 * (callTargets d.cmds).length + 1

def actVal (x : Act) : Nat := rem x + (if x.phase = .early ∨ x.phase = .done then 0 else slotPot C2 x)

def potAct2 (c : Config) (a : Nat) : Nat :=
  match c.act? a with
  | some x => actVal x
  | none => 0

def topPot2 (tops : List (Nat × Nat)) (n : Nat) : Nat :=
  ((List.range n).map (fun k => if (tops.lookup k).isSome then 0 else 2)).sum

def budget (P : Program) (F : Flags) (c : Config) (tr : List Label) : Nat :=
  ((List.range P.length).map (fun t => (F.maxCalls - 1 - passed t c tr) * unitCost ((P[t]?).getD {}))).sum

def pot2 (P : Program) (F : Flags) (c : Config) (tr : List Label) (n : Nat) : Nat :=
  topPot2 c.tops n + budget P F c tr + ((actIds tr).map (potAct2 c)).sum

theorem actVal_local (F : Flags) (o : Obs) (x : Act) (ev : Ev) (y : Act) (eff : Eff)
    (h : stepLocal F o x ev = some (y, eff)) : actVal y < actVal x := by
  have hst := stepLocal_static F o x ev y eff h
  have hrem := stepLocal_rem F o x ev y eff h
  have hnd := stepLocal_not_done F o x ev y eff h
  have hsp : slotPot C2 y = slotPot C2 x := by simp [slotPot, hst.def_, hst.kids]
  unfold actVal
  by_cases he : x.phase = .early
  · obtain ⟨_, _, hy⟩ := stepLocal_early F o x ev y eff he h
    have hyp : y.phase = .done := by rw [hy]
    simp [he, hyp, hrem]
  · have hx : ¬ (x.phase = .early ∨ x.phase = .done) := by
      intro e; rcases e with e | e
      · exact he e
      · exact hnd e
    rw [if_neg hx, hsp]
    split <;> omega

theorem actVal_fresh_early (P : Program) (F : Flags) (c : Config) (kind : Kind) (t : Nat)
    (h : (freshAct P F c kind t).phase = .early) : actVal (freshAct P F c kind t) = 1 := by
  simp [actVal, h, rem]

theorem actVal_fresh_entered (P : Program) (F : Flags) (c : Config) (kind : Kind) (t : Nat)
    (h : (freshAct P F c kind t).phase = .entered) :
    actVal (freshAct P F c kind t) + 2 ≤ unitCost ((P[t]?).getD {}) := by
  have h1 := rem_fresh P F c kind t
  have h2 := slotPot_fresh C2 P F c kind t
  unfold actVal unitCost
  rw [if_neg (by rw [h]; simp), h2, sum_map_C2, sum_map_C2]
  omega

structure TermAllInv (P : Program) (F : Flags) (n : Nat) (c : Config) (tr : List Label) : Prop where
  ids : IdsInv c tr
  ncalls : c.ncalls = n
  call : ∀ t, CallInv P F t c tr
  bound : pot2 P F c tr n + tr.length ≤
    2 * n + ((List.range P.length).map (fun t => (F.maxCalls - 1) * unitCost ((P[t]?).getD {}))).sum

theorem passed_init (t n : Nat) : passed t (init n) [] = 0 := by
  simp [passed, cnt, actIds, acquirers]

theorem termAllInv_init (P : Program) (F : Flags) (n : Nat) : TermAllInv P F n (init n) [] := by
  refine ⟨idsInv_init n, rfl, fun t => callInv_init P F t n, ?_⟩
  have h1 : topPot2 (init n).tops n = 2 * n := by
    unfold topPot2
    have : (init n).tops = [] := rfl
    rw [this]
    have := sum_const_range 2 n
    simp only [List.lookup, Option.isSome_none, Bool.false_eq_true, if_false]
    omega
  have h2 : budget P F (init n) [] =
      ((List.range P.length).map (fun t => (F.maxCalls - 1) * unitCost ((P[t]?).getD {}))).sum := by
    unfold budget
    apply sum_congr
    intro t _
    rw [passed_init]; rfl
  simp [pot2, h1, h2, actIds]

theorem bumps_lt (P : Program) (t : Nat) (h : bumps P t = true) : t < P.length := by
  unfold bumps at h
  cases hp : P[t]? with
  | none => rw [hp] at h; cases h
  | some d =>
    cases hlt : decide (t < P.length) with
    | true => simpa using hlt
    | false =>
      have : P.length ≤ t := by simpa using hlt
      rw [List.getElem?_eq_none this] at hp; cases hp

theorem termAllInv_step (P : Program) (F : Flags) (n : Nat) (c : Config) (tr : List Label) (l : Label)
    (c' : Config) (hinv : TermAllInv P F n c tr) (hs : step P F c l = some c') :
    TermAllInv P F n c' (tr ++ [l]) := by
  obtain ⟨hids, hn, hcall, hb⟩ := hinv
  have hids' := idsInv_step P F c tr l c' hids hs
  have hcall' : ∀ t, CallInv P F t c' (tr ++ [l]) := fun t => callInv_step P F t c tr l c' (hcall t) hs
  rcases step_cases P F c c' l hs with ⟨k, t, he, hen⟩ | ⟨hne, x, y, eff, hx, hl, rfl⟩
  · -- enter
    obtain ⟨hnone, hnew, hnc, hcase⟩ := enterAct_cases P F c c' l.act k t hen
    have hnotin : l.act ∉ actIds tr := by
      intro hin; have := (hids.2 l.act).mp hin; rw [hnone] at this; cases this
    have hbound : ∀ b ∈ acquirers tr, (c.act? b).isSome = true := by
      intro b hb'; obtain ⟨z, hz, _⟩ := (hcall 0).2.2.1 b hb'; rw [hz]; rfl
    have hpassed : ∀ t0, passed t0 c' (tr ++ [l]) =
        passed t0 c tr + (if pendingB t0 (freshAct P F c k t) then 1 else 0) :=
      fun t0 => passed_enter P F t0 c c' tr l k t hids hbound he hen
    have hftask : (freshAct P F c k t).task = t := (freshAct_fields P F c k t).2.2.2.2.2.2.2.2.2.2.2.1
    have hnewpot : potAct2 c' l.act = actVal (freshAct P F c k t) := by simp [potAct2, hnew]
    -- budget and the fresh activation together
    have hbud : budget P F c' (tr ++ [l]) + actVal (freshAct P F c k t) + 1 ≤ budget P F c tr + 2 := by
      rcases (freshAct_fields P F c k t).1 with hph | hph
      · -- born early: budgets unchanged
        have : budget P F c' (tr ++ [l]) = budget P F c tr := by
          unfold budget
          apply sum_congr
          intro t0 _
          rw [hpassed t0]
          have : pendingB t0 (freshAct P F c k t) = false := by simp [pendingB, hph]
          rw [this]; simp
        rw [this, actVal_fresh_early P F c k t hph]
        omega
      · -- past the counter: one unit of the budget of `t`
        obtain ⟨hbumps, _⟩ := freshAct_entered P F c k t hph
        have htlt := bumps_lt P t hbumps
        have hval := actVal_fresh_entered P F c k t hph
        have hpt : passed t c' (tr ++ [l]) = passed t c tr + 1 := by
          rw [hpassed t]
          have : pendingB t (freshAct P F c k t) = true := by simp [pendingB, hftask, hph]
          rw [this]; simp
        have hle : passed t c' (tr ++ [l]) ≤ F.maxCalls - 1 := (hcall' t).2.2.2.2.2
        have hsum := sum_update
          (fun t0 => (F.maxCalls - 1 - passed t0 c tr) * unitCost ((P[t0]?).getD {}))
          (fun t0 => (F.maxCalls - 1 - passed t0 c' (tr ++ [l])) * unitCost ((P[t0]?).getD {}))
          t (List.range P.length) List.nodup_range (List.mem_range.mpr htlt)
          (by intro b _ hbt
              rw [hpassed b]
              have : pendingB b (freshAct P F c k t) = false := by
                have hne : ¬ t = b := fun e => hbt e.symm
                simp [pendingB, hftask, hne]
              rw [this]; simp)
        have hmul : (F.maxCalls - 1 - passed t c tr) * unitCost ((P[t]?).getD {}) =
            (F.maxCalls - 1 - passed t c' (tr ++ [l])) * unitCost ((P[t]?).getD {}) +
              unitCost ((P[t]?).getD {}) := by
          have : F.maxCalls - 1 - passed t c tr = (F.maxCalls - 1 - passed t c' (tr ++ [l])) + 1 := by omega
          rw [this, Nat.succ_mul]
        unfold budget
        omega
    refine ⟨hids', by rw [hnc, hn], hcall', ?_⟩
    unfold pot2 at hb ⊢
    rw [actIds_snoc_enter tr l k t he, List.map_append, List.sum_append]
    simp only [List.map_cons, List.map_nil, List.sum_cons, List.sum_nil, Nat.add_zero, List.length_append,
      List.length_cons, List.length_nil, Nat.zero_add]
    rw [hnewpot]
    rcases hcase with ⟨k', hk, hfree, htops, hoth⟩ | ⟨p, px, s, hpx, hfree, hslot, htops, hpa, hp', hoth, hph⟩
    · have hsum : ((actIds tr).map (potAct2 c')).sum = ((actIds tr).map (potAct2 c)).sum := by
        apply sum_congr
        intro b hb'
        have hba : b ≠ l.act := fun e => hnotin (e ▸ hb')
        simp [potAct2, hoth b hba]
      have htop : topPot2 c'.tops n + 2 = topPot2 c.tops n := by
        unfold topPot2
        have := sum_update (fun j => if (c.tops.lookup j).isSome then 0 else 2)
          (fun j => if (c'.tops.lookup j).isSome then 0 else 2) k' (List.range n)
          List.nodup_range (List.mem_range.mpr (by omega))
          (by intro b _ hbk; rw [htops, lookup_cons_ne c.tops k' l.act b hbk])
        simp only [hfree, htops, lookup_cons_self, Option.isSome_some, Option.isSome_none, if_true] at this
        rw [htops]
        simpa using this
      rw [hsum]
      omega
    · have hpin : p ∈ actIds tr := (hids.2 p).mpr (by rw [hpx]; rfl)
      have hsum := sum_update (potAct2 c) (potAct2 c') p (actIds tr) hids.1 hpin
        (by intro b hb' hbp
            have hba : b ≠ l.act := fun e => hnotin (e ▸ hb')
            simp [potAct2, hoth b hba hbp])
      have hpne : ¬ (px.phase = .early ∨ px.phase = .done) := by
        rcases hph with e | ⟨i, d, e⟩ <;> rw [e] <;> simp
      have h1 : potAct2 c p = rem px + slotPot C2 px := by simp [potAct2, hpx, actVal, hpne]
      have h2 : potAct2 c' p = rem px + slotPot C2 { px with kids := (s, l.act) :: px.kids } := by
        simp only [potAct2, hp', actVal]
        rw [if_neg hpne]; rfl
      have h3 := slotPot_enter C2 px s l.act t hslot hfree
      have hc2 : C2 t = 2 := rfl
      rw [h1, h2] at hsum
      rw [htops]
      omega
  · -- local step
    refine ⟨hids', by rw [(local_frame c l.act y eff).2.1]; exact hn, hcall', ?_⟩
    have hbud : budget P F ((applyEff c l.act eff).set l.act y) (tr ++ [l]) = budget P F c tr := by
      unfold budget
      apply sum_congr
      intro t0 _
      rw [passed_local F t0 c tr l x y eff hids hne hx hl]
    unfold pot2 at hb ⊢
    rw [hbud, actIds_snoc_other tr l hne, (local_frame c l.act y eff).2.2]
    have hin : l.act ∈ actIds tr := (hids.2 l.act).mpr (by rw [hx]; rfl)
    have hsum := sum_update (potAct2 c) (potAct2 ((applyEff c l.act eff).set l.act y)) l.act
      (actIds tr) hids.1 hin
      (by intro b _ hbl
          simp [potAct2, act?_set_other _ _ _ _ hbl])
    have hval := actVal_local F _ x l.ev y eff hl
    have h1 : potAct2 c l.act = actVal x := by simp [potAct2, hx]
    have h2 : potAct2 ((applyEff c l.act eff).set l.act y) l.act = actVal y := by simp [potAct2]
    rw [h1, h2] at hsum
    simp only [List.length_append, List.length_cons, List.length_nil]
    omega

/-- **every accepted trace of every program is bounded** -/
theorem trace_bounded_all (P : Program) (F : Flags) (n : Nat) (tr : List Label) (c : Config)
    (h : replay P F (init n) tr = some c) :
    tr.length ≤ 2 * n + ((List.range P.length).map (fun t => (F.maxCalls - 1) * unitCost ((P[t]?).getD {}))).sum := by
  have := (replay_inv_tr P F (TermAllInv P F n) (termAllInv_step P F n) n (termAllInv_init P F n) tr c h).bound
  omega

end TaskModel.Sched.S7
