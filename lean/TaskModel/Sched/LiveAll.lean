import TaskModel.Sched.WaitInv
import TaskModel.Sched.LiveFinal
/-!
Sched.LiveAll — deadlock freedom of the executor model for EVERY program (after the fix of
`C07-once-cycle-deadlocks`): no hypothesis on reference cycles, none on dedup keys.

In a reachable configuration an activation that has not returned can move, or waits for a
slot (then one is free or a holder can move), or waits for an activation that has not
returned either and is strictly smaller in the lexicographic measure
`(rank of the execution it works for, creation order reversed)`:

* a child works for the same execution as its creator and is younger, or it is itself a
  registered execution — then the registration edge `creator's execution → child's` is in
  `Config.waits`, its source has not finished (`par_unfinished`), so the rank drops;
* a dedup waiter that is part of execution `p` and waits for `k` has recorded the edge
  `p → k` (the wait was not refused), `p` has not finished: the rank drops again;
* an activation outside every execution ranks above all executions.

The rank is the one of `WInv.rank`: it exists because a wait that would close a cycle is
refused (`Ev.waitCycle`).
-/
namespace TaskModel.Sched.S7

/-- **an activation that has not returned is part of an execution that has not finished**
(by induction up the chain of creators: each of them is waiting for its child) -/
theorem par_unfinished (P : Program) (F : Flags) (n : Nat) (tr : List Label) (c : Config)
    (h : replay P F (init n) tr = some c) :
    ∀ (m b : Nat) (y : Act) (p : Nat), pos b (actIds tr) < m → c.act? b = some y → y.phase ≠ .done →
      y.par = some p → execFinished c p = false := by
  have hw := wInv_reach P F n tr c h
  have ho := orderInv_reach P F n tr c h
  intro m
  induction m with
  | zero => intro b y p hm; omega
  | succ m ih =>
    intro b y p hm hy hnd hp
    obtain ⟨a, x, s, hx, hlk⟩ := hw.hasParent b y hy (by rw [hp]; simp)
    have hK := S2.KInv_sound P F n tr c h a x hx
    have hpos := (ho a x s b hx hlk).2
    have hkp := hw.kidPar a x s b y hx hlk hy
    rw [hp] at hkp
    -- the creator is waiting for this child
    have hph : exFin x.phase = false ∧ x.phase ≠ .done := by
      rcases hK.fin s b (lookup_mem_pair x.kids s b hlk) with hfin | hrun
      · exfalso
        unfold kidDone at hfin
        rw [hy] at hfin
        simp [hnd] at hfin
      · rcases hrun with e | ⟨i, d, e, _⟩ <;> rw [e] <;> exact ⟨rfl, by simp⟩
    cases hk : x.key with
    | some k =>
      have : k = p := by
        unfold Act.inner at hkp; rw [hk] at hkp; exact (Option.some.inj hkp).symm
      subst this
      exact execFinished_phase c k a x (hw.keyReg a x k hx hk) hx hph.1
    | none =>
      have hxp : x.par = some p := by
        unfold Act.inner at hkp; rw [hk] at hkp; exact hkp.symm
      exact ih a x p (by omega) hx hph.2 hxp

/-! ### the measure -/

def maxRk (rk : Nat → Nat) : List (Nat × Nat) → Nat
  | [] => 0
  | e :: l => max (rk e.1) (maxRk rk l)

theorem rk_le_maxRk (rk : Nat → Nat) : ∀ (l : List (Nat × Nat)) (k : Nat), (l.lookup k).isSome = true →
    rk k ≤ maxRk rk l := by
  intro l
  induction l with
  | nil => intro k h; cases h
  | cons q l ih =>
    intro k h
    obtain ⟨k', v⟩ := q
    simp only [List.lookup] at h
    simp only [maxRk]
    split at h
    · rename_i he; have : k = k' := beq_iff_eq.mp he; subst this; omega
    · have := ih k h; omega

/-- rank of the execution an activation works for; outside every execution: above all of them -/
def rho (rk : Nat → Nat) (c : Config) (x : Act) : Nat :=
  match x.inner with
  | some k => rk k
  | none => maxRk rk c.execs + 1

def meas2 (rk : Nat → Nat) (c : Config) (ids : List Nat) (a : Nat) (x : Act) : Nat :=
  rho rk c x * (ids.length + 1) + (ids.length - pos a ids)

theorem meas2_lt_fst (rk : Nat → Nat) (c : Config) (ids : List Nat) (a b : Nat) (x k : Act)
    (h : rho rk c k < rho rk c x) : meas2 rk c ids b k < meas2 rk c ids a x := by
  unfold meas2
  have h1 : (rho rk c k + 1) * (ids.length + 1) ≤ rho rk c x * (ids.length + 1) := Nat.mul_le_mul_right _ h
  rw [Nat.add_mul] at h1
  omega

theorem meas2_lt_pos (rk : Nat → Nat) (c : Config) (ids : List Nat) (a b : Nat) (x k : Act)
    (h : rho rk c k ≤ rho rk c x) (hp : pos a ids < pos b ids) (hb : pos b ids ≤ ids.length) :
    meas2 rk c ids b k < meas2 rk c ids a x := by
  unfold meas2
  have h1 : rho rk c k * (ids.length + 1) ≤ rho rk c x * (ids.length + 1) := Nat.mul_le_mul_right _ h
  omega

/-- an execution ranks below whatever an activation that recorded an edge to it works for -/
theorem rho_edge (rk : Nat → Nat) (c : Config) (hrk : ∀ s t, WEdge c s t → rk t < rk s)
    (hU : ∀ b y p, c.act? b = some y → y.phase ≠ .done → y.par = some p → execFinished c p = false)
    (b : Nat) (y : Act) (k : Nat) (hy : c.act? b = some y) (hnd : y.phase ≠ .done)
    (hreg : (c.execs.lookup k).isSome = true) (hedge : ∀ p, y.par = some p → (p, k) ∈ c.waits) :
    rk k < (match y.par with | some p => rk p | none => maxRk rk c.execs + 1) := by
  cases hp : y.par with
  | none => have := rk_le_maxRk rk c.execs k hreg; simp only; omega
  | some p => exact hrk p k ⟨hedge p hp, hU b y p hy hnd hp⟩

/-! ### the main argument -/

theorem no_deadlock_all_aux (P : Program) (F : Flags) (c : Config) (tr : List Label) (hl : Live P c)
    (ht : TokInv c tr) (ho : OrderInv c tr) (hw : WInv c)
    (hU : ∀ b y p, c.act? b = some y → y.phase ≠ .done → y.par = some p → execFinished c p = false)
    (rk : Nat → Nat) (hrk : ∀ s t, WEdge c s t → rk t < rk s) (hcap : F.cap ≠ some 0) :
    ∀ (m : Nat) (a : Nat) (x : Act), c.act? a = some x → x.phase ≠ .done → meas2 rk c (actIds tr) a x < m →
      ∃ l, (step P F c l).isSome = true := by
  intro m
  induction m with
  | zero => intro a x _ _ h; omega
  | succ m ih =>
    intro a x hx hnd hm
    have hloc := hl.loc a x hx
    have hslotfree := slot_or_holder P F c tr hl ht hcap
    -- a kid that has not returned is smaller
    have hkid : ∀ s id, x.kids.lookup s = some id → kidDone c id = none → ∃ l, (step P F c l).isSome = true := by
      intro s id hlk hkd
      obtain ⟨k, hkk, _⟩ := hl.kids a x s id hx hlk
      obtain ⟨_, hpos⟩ := ho a x s id hx hlk
      have hknd := kid_not_done c id k hkk hkd
      have hkp := hw.kidPar a x s id k hx hlk hkk
      have hlt : meas2 rk c (actIds tr) id k < meas2 rk c (actIds tr) a x := by
        cases hkey : k.key with
        | none =>
          apply meas2_lt_pos _ _ _ _ _ _ _ _ hpos (pos_le _ _)
          have : k.inner = x.inner := by unfold Act.inner; rw [hkey]; exact hkp
          unfold rho; rw [this]; exact Nat.le_refl _
        | some kb =>
          apply meas2_lt_fst
          have hreg : (c.execs.lookup kb).isSome = true := by rw [hw.keyReg id k kb hkk hkey]; rfl
          have := rho_edge rk c hrk hU id k kb hkk hknd hreg (fun p hp => hw.keyEdge id k kb p hkk hkey hp)
          have hk' : rho rk c k = rk kb := by unfold rho Act.inner; rw [hkey]
          rw [hk']
          unfold rho
          rw [hkp] at this
          exact this
      exact ih id k hkk hknd (by omega)
    cases hp : x.phase with
    | done => exact absurd hp hnd
    | entered =>
      rcases hslotfree with hf | hmv
      · exact ⟨_, step_of_local P F c a x .acquire hx (by rw [wait_entered F _ x hp]; exact hf)⟩
      · exact hmv
    | wWoken =>
      rcases hslotfree with hf | hmv
      · exact ⟨_, step_of_local P F c a x .wReacq hx (by rw [wait_wWoken F _ x hp]; exact hf)⟩
      · exact hmv
    | callReturned i d =>
      rcases hslotfree with hf | hmv
      · exact ⟨_, step_of_local P F c a x (.callReacq i) hx (by rw [wait_callReturned F _ x i d hloc.wf hp]; exact hf)⟩
      · exact hmv
    | depsWait =>
      cases hd : depResults c x x.def_.deps.length 0 with
      | some rs =>
        rcases hslotfree with hf | hmv
        · refine ⟨_, step_of_local P F c a x .depsReacq hx ?_⟩
          rw [wait_depsWait F _ x hp]
          have : ((obsOf F c a x).deps ()) = some rs := hd
          rw [this]; exact hf
        · exact hmv
      | none =>
        obtain ⟨j', _, hj2, hcase⟩ := depResults_none c x _ _ hd
        rcases hcase with hnone | ⟨id, hsome, hkd⟩
        · have hlt : j' < x.def_.deps.length := by omega
          exact dep_enter_enabled P F c a x j' _ hx hp hnone (List.getElem?_eq_getElem hlt)
        · exact hkid _ id hsome hkd
    | inCall i d =>
      cases hlk : x.kids.lookup (slotOfCall x i) with
      | none =>
        obtain ⟨t, hcmd⟩ := hloc.call i d hp
        exact call_enter_enabled P F c a x i d t hx hp hlk hcmd
      | some id =>
        cases hkd : kidDone c id with
        | none => exact hkid _ id hlk hkd
        | some r =>
          refine ⟨_, step_of_local P F c a x (.callRet i) hx ?_⟩
          rw [wait_inCall F _ x i d hp]
          have : (obsOf F c a x).callKid () = some r := by
            simp [obsOf, callKidOf, hp, hlk, hkd]
          rw [this]; rfl
    | wReleased =>
      have hwne := hloc.keys.waiter (by rw [hp]; rfl)
      cases hwf : x.waitsFor with
      | none => exact absurd hwf hwne
      | some k =>
        have hreg := hl.waits a x k hx hwf
        cases he : c.execs.lookup k with
        | none => rw [he] at hreg; cases hreg
        | some e =>
          obtain ⟨ex, hex, hkey⟩ := hl.execs k e he
          by_cases hfin : ex.phase = .execDoneP ∨ ex.phase = .released ∨ ex.phase = .done
          · refine ⟨_, step_of_local P F c a x .wWake hx ?_⟩
            rw [wait_wReleased F _ x hp]
            have : (obsOf F c a x).execResult () = some ex.out := by
              simp only [obsOf, execResultOf, hwf, he, hex]
              rcases hfin with e' | e' | e' <;> simp [e']
            rw [this]; rfl
          · have hexnd : ex.phase ≠ .done := fun e' => hfin (.inr (.inr e'))
            -- the waiter has no key of its own: it works for the execution it is part of
            have hxkey : x.key = none := by
              cases hxk : x.key with
              | none => rfl
              | some k' =>
                have := hloc.keys.excl (by rw [hxk]; simp)
                rw [hwf] at this; cases this
            have hlt : meas2 rk c (actIds tr) e ex < meas2 rk c (actIds tr) a x := by
              apply meas2_lt_fst
              have := rho_edge rk c hrk hU a x k hx hnd hreg (fun p hp' => hw.waitEdge a x k p hx hwf hp')
              have h1 : rho rk c ex = rk k := by unfold rho Act.inner; rw [hkey]
              have h2 : x.inner = x.par := by unfold Act.inner; rw [hxkey]
              rw [h1]; unfold rho; rw [h2]; exact this
            exact ih e ex hex hexnd (by omega)
    | early => exact nonblocking_moves P F c hl a x hx hnd (by rw [hp]; rfl)
    | acquired => exact nonblocking_moves P F c hl a x hx hnd (by rw [hp]; rfl)
    | wWaiting => exact nonblocking_moves P F c hl a x hx hnd (by rw [hp]; rfl)
    | exec => exact nonblocking_moves P F c hl a x hx hnd (by rw [hp]; rfl)
    | depsJoined => exact nonblocking_moves P F c hl a x hx hnd (by rw [hp]; rfl)
    | guards => exact nonblocking_moves P F c hl a x hx hnd (by rw [hp]; rfl)
    | body => exact nonblocking_moves P F c hl a x hx hnd (by rw [hp]; rfl)
    | inShell i d => exact nonblocking_moves P F c hl a x hx hnd (by rw [hp]; rfl)
    | defers => exact nonblocking_moves P F c hl a x hx hnd (by rw [hp]; rfl)
    | finished => exact nonblocking_moves P F c hl a x hx hnd (by rw [hp]; rfl)
    | execDoneP => exact nonblocking_moves P F c hl a x hx hnd (by rw [hp]; rfl)
    | released => exact nonblocking_moves P F c hl a x hx hnd (by rw [hp]; rfl)

/-- **deadlock freedom, every program**: with at least one slot (or no limit), every reachable
configuration in which some activation has not returned accepts a label -/
theorem no_deadlock_all (P : Program) (F : Flags) (n : Nat) (tr : List Label) (c : Config)
    (hcap : F.cap ≠ some 0) (h : replay P F (init n) tr = some c) (a : Nat) (x : Act)
    (hx : c.act? a = some x) (hnd : x.phase ≠ .done) : ∃ l, (step P F c l).isSome = true := by
  obtain ⟨hl, _, ht⟩ := live_trace_reach P F n tr c h
  have hw := wInv_reach P F n tr c h
  obtain ⟨rk, hrk⟩ := hw.rank
  have hU : ∀ b y p, c.act? b = some y → y.phase ≠ .done → y.par = some p → execFinished c p = false :=
    fun b y p hy hnd' hp => par_unfinished P F n tr c h (pos b (actIds tr) + 1) b y p (Nat.lt_succ_self _) hy hnd' hp
  exact no_deadlock_all_aux P F c tr hl ht (orderInv_reach P F n tr c h) hw hU rk hrk hcap
    (meas2 rk c (actIds tr) a x + 1) a x hx hnd (Nat.lt_succ_self _)

/-! ### a configuration that accepts no label is final (every program) -/

theorem quiescent_final_all (P : Program) (F : Flags) (n : Nat)
    (tr : List Label) (c : Config) (hcap : F.cap ≠ some 0)
    (h : replay P F (init n) tr = some c) (hq : ∀ l, step P F c l = none) :
    (∀ a x, c.act? a = some x → x.phase = .done) ∧ c.tokens = 0 ∧
    (∀ k, k < n → (c.tops.lookup k).isSome = true ∨
      (F.parallel = false ∧ ∃ k' id r, k' < k ∧ c.tops.lookup k' = some id ∧ kidDone c id = some r ∧
        r.isOk = false)) := by
  have hstuck : ∀ l, ¬ (step P F c l).isSome = true := by intro l hl; rw [hq l] at hl; cases hl
  have hdone : ∀ a x, c.act? a = some x → x.phase = .done := by
    intro a x hx
    cases hp : decide (x.phase = .done) with
    | true => simpa using hp
    | false =>
      have hnd : x.phase ≠ .done := by simpa using hp
      obtain ⟨l, hl⟩ := no_deadlock_all P F n tr c hcap h a x hx hnd
      exact absurd hl (hstuck l)
  obtain ⟨hlive, _, htok⟩ := live_trace_reach P F n tr c h
  have htops := replay_inv P F (TopsInv n) (fun c l c' hi hs => topsInv_step P F n c l c' hi hs) (init n) tr c
    (topsInv_init n) h
  refine ⟨hdone, ?_, ?_⟩
  · rw [htok.2.2]
    unfold holders cnt
    rw [List.countP_eq_zero]
    intro a _
    unfold actB
    cases hx : c.act? a with
    | none => simp
    | some x =>
      have := (hlive.loc a x hx).holds
      unfold HoldsInv at this
      rw [hdone a x hx] at this
      simp [this, holdPhase]
  · intro k
    induction k using Nat.strongRecOn with
    | _ k ih =>
      intro hkn
      cases hlk : c.tops.lookup k with
      | some _ => left; rfl
      | none =>
        right
        have hkc : k < c.ncalls := by rw [htops.ncalls]; exact hkn
        have hno : ¬ (F.parallel = true ∨ k = 0 ∨
            ∃ pid r, c.tops.lookup (k - 1) = some pid ∧ kidDone c pid = some r ∧ r.isOk = true) := by
          intro hprev
          obtain ⟨l, hl⟩ := top_enter_enabled P F c k 0 hkc hlk hprev
          exact hstuck l hl
        have hpar : F.parallel = false := by
          cases hp : F.parallel with
          | false => rfl
          | true => exact absurd (.inl hp) hno
        have hk0 : k ≠ 0 := fun e => hno (.inr (.inl e))
        refine ⟨hpar, ?_⟩
        cases hprev : c.tops.lookup (k - 1) with
        | none =>
          rcases ih (k - 1) (by omega) (by omega) with hs | ⟨_, k', id, r, h1, h2, h3, h4⟩
          · rw [hprev] at hs; cases hs
          · exact ⟨k', id, r, by omega, h2, h3, h4⟩
        | some pid =>
          have hb := htops.bound (k - 1) pid hprev
          cases hz : c.act? pid with
          | none => rw [hz] at hb; cases hb
          | some z =>
            have hkd : kidDone c pid = some z.res := by simp [kidDone, hz, hdone pid z hz]
            cases hok : z.res.isOk with
            | true => exact absurd (.inr (.inr ⟨pid, z.res, hprev, hkd, hok⟩)) hno
            | false => exact ⟨k - 1, pid, z.res, by omega, hprev, hkd, hok⟩

end TaskModel.Sched.S7
