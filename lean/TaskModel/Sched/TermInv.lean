import TaskModel.Sched.TermLemmas
/-!
Sched.TermInv — the potential of a configuration decreases with every accepted label;
hence every accepted trace of an acyclic program is no longer than `n * topCost`.
-/
namespace TaskModel.Sched.S7

/-- cost of one call of task `u` -/
def taskCost (P : Program) (rank : Nat → Nat) (u : Nat) : Nat := treeCost P (rank u) u

/-- cost of one call given to `Run`, whatever task it names -/
def topCost (P : Program) (rank : Nat → Nat) : Nat :=
  1 + localCost {} + ((List.range P.length).map (taskCost P rank)).sum

theorem taskCost_le_top (P : Program) (rank : Nat → Nat) (t : Nat) : taskCost P rank t ≤ topCost P rank := by
  unfold topCost
  by_cases ht : t < P.length
  · have := mem_le_sum (taskCost P rank) (List.range P.length) t (List.mem_range.mpr ht)
    omega
  · have hnone : P[t]? = none := List.getElem?_eq_none (Nat.le_of_not_lt ht)
    have : taskCost P rank t = 1 + localCost {} := by
      unfold taskCost
      cases rank t <;> simp [treeCost, hnone, callTargets]
    omega

/-- potential of one activation: its remaining local steps and its children yet to enter -/
def potAct (P : Program) (rank : Nat → Nat) (c : Config) (a : Nat) : Nat :=
  match c.act? a with
  | some x => rem x + slotPot (taskCost P rank) x
  | none => 0

/-- potential of the calls of `Run` that have not entered yet -/
def topPot (P : Program) (rank : Nat → Nat) (tops : List (Nat × Nat)) (n : Nat) : Nat :=
  ((List.range n).map (fun k => if (tops.lookup k).isSome then 0 else topCost P rank)).sum

def pot (P : Program) (rank : Nat → Nat) (c : Config) (n : Nat) (ids : List Nat) : Nat :=
  topPot P rank c.tops n + (ids.map (potAct P rank c)).sum

structure TermInv (P : Program) (rank : Nat → Nat) (n : Nat) (c : Config) (tr : List Label) : Prop where
  ids : IdsInv c tr
  ncalls : c.ncalls = n
  bound : pot P rank c n (actIds tr) + tr.length ≤ n * topCost P rank

theorem termInv_init (P : Program) (rank : Nat → Nat) (n : Nat) : TermInv P rank n (init n) [] := by
  refine ⟨idsInv_init n, rfl, ?_⟩
  have : topPot P rank (init n).tops n = n * topCost P rank := by
    unfold topPot
    have : (init n).tops = [] := rfl
    rw [this]
    simpa using sum_const_range (topCost P rank) n
  simp [pot, this, actIds]

theorem potAct_fresh (P : Program) (F : Flags) (rank : Nat → Nat) (hr : RankOk P rank) (c : Config) (kind : Kind)
    (t : Nat) :
    rem (freshAct P F c kind t) + slotPot (taskCost P rank) (freshAct P F c kind t) + 1 ≤ taskCost P rank t := by
  have h1 := rem_fresh P F c kind t
  have h2 := slotPot_fresh (taskCost P rank) P F c kind t
  have h3 := treeCost_covers P rank hr t
  unfold taskCost at h2 ⊢
  rw [h2]
  omega

theorem termInv_step (P : Program) (F : Flags) (rank : Nat → Nat) (hr : RankOk P rank) (n : Nat)
    (c : Config) (tr : List Label) (l : Label) (c' : Config)
    (hinv : TermInv P rank n c tr) (hs : step P F c l = some c') : TermInv P rank n c' (tr ++ [l]) := by
  obtain ⟨hids, hn, hb⟩ := hinv
  have hids' := idsInv_step P F c tr l c' hids hs
  rcases step_cases P F c c' l hs with ⟨k, t, he, hen⟩ | ⟨hne, x, y, eff, hx, hl, rfl⟩
  · -- enter
    obtain ⟨hnone, hnew, hnc, hcase⟩ := enterAct_cases P F c c' l.act k t hen
    have hnotin : l.act ∉ actIds tr := by
      intro hin; have := (hids.2 l.act).mp hin; rw [hnone] at this; cases this
    have hfresh := potAct_fresh P F rank hr c k t
    have hnewpot : potAct P rank c' l.act =
        rem (freshAct P F c k t) + slotPot (taskCost P rank) (freshAct P F c k t) := by
      simp [potAct, hnew]
    refine ⟨hids', by rw [hnc, hn], ?_⟩
    rw [actIds_snoc_enter tr l k t he]
    unfold pot at hb ⊢
    rw [List.map_append, List.sum_append]
    simp only [List.map_cons, List.map_nil, List.sum_cons, List.sum_nil, Nat.add_zero, List.length_append,
      List.length_cons, List.length_nil, Nat.zero_add]
    rw [hnewpot]
    rcases hcase with ⟨k', hk, hfree, htops, hoth⟩ | ⟨p, px, s, hpx, hfree, hslot, htops, hpa, hp', hoth, _⟩
    · -- a call of `Run`
      have hsum : ((actIds tr).map (potAct P rank c')).sum = ((actIds tr).map (potAct P rank c)).sum := by
        apply sum_congr
        intro b hb'
        have hba : b ≠ l.act := fun e => hnotin (e ▸ hb')
        simp [potAct, hoth b hba]
      have htop : topPot P rank c'.tops n + topCost P rank = topPot P rank c.tops n := by
        unfold topPot
        have := sum_update (fun j => if (c.tops.lookup j).isSome then 0 else topCost P rank)
          (fun j => if (c'.tops.lookup j).isSome then 0 else topCost P rank) k' (List.range n)
          List.nodup_range (List.mem_range.mpr (by omega))
          (by intro b _ hbk; rw [htops, lookup_cons_ne c.tops k' l.act b hbk])
        simp only [hfree, htops, lookup_cons_self, Option.isSome_some, Option.isSome_none, if_true] at this
        rw [htops]
        simpa using this
      have := taskCost_le_top P rank t
      rw [hsum]
      omega
    · -- a dependency or a called task
      have hpin : p ∈ actIds tr := (hids.2 p).mpr (by rw [hpx]; rfl)
      have hsum := sum_update (potAct P rank c) (potAct P rank c') p (actIds tr) hids.1 hpin
        (by intro b hb' hbp
            have hba : b ≠ l.act := fun e => hnotin (e ▸ hb')
            simp [potAct, hoth b hba hbp])
      have h1 : potAct P rank c p = rem px + slotPot (taskCost P rank) px := by simp [potAct, hpx]
      have h2 : potAct P rank c' p = rem px + slotPot (taskCost P rank) { px with kids := (s, l.act) :: px.kids } := by
        simp only [potAct, hp']; rfl
      have h3 := slotPot_enter (taskCost P rank) px s l.act t hslot hfree
      rw [h1, h2] at hsum
      rw [htops]
      omega
  · -- local step
    refine ⟨hids', by rw [(local_frame c l.act y eff).2.1]; exact hn, ?_⟩
    rw [actIds_snoc_other tr l hne]
    unfold pot at hb ⊢
    rw [(local_frame c l.act y eff).2.2]
    have hin : l.act ∈ actIds tr := (hids.2 l.act).mpr (by rw [hx]; rfl)
    have hsum := sum_update (potAct P rank c) (potAct P rank ((applyEff c l.act eff).set l.act y)) l.act
      (actIds tr) hids.1 hin
      (by intro b _ hbl
          simp [potAct, act?_set_other _ _ _ _ hbl])
    have hst := stepLocal_static F _ x l.ev y eff hl
    have hrem := stepLocal_rem F _ x l.ev y eff hl
    have h1 : potAct P rank c l.act = rem x + slotPot (taskCost P rank) x := by simp [potAct, hx]
    have h2 : potAct P rank ((applyEff c l.act eff).set l.act y) l.act = rem y + slotPot (taskCost P rank) x := by
      simp [potAct, slotPot, hst.def_, hst.kids]
    rw [h1, h2] at hsum
    simp only [List.length_append, List.length_cons, List.length_nil]
    omega

/-- every accepted trace of a program whose references are ranked is bounded -/
theorem trace_bounded (P : Program) (F : Flags) (rank : Nat → Nat) (hr : RankOk P rank) (n : Nat)
    (tr : List Label) (c : Config) (h : replay P F (init n) tr = some c) : tr.length ≤ n * topCost P rank := by
  have := replay_inv_tr P F (TermInv P rank n) (termInv_step P F rank hr n) n (termInv_init P rank n) tr c h
  have := this.bound
  omega

end TaskModel.Sched.S7
