import TaskModel.Sched.GlobalLemmas
/-!
Sched.Dedup — invariants of the deduplication of `run: once` / `run: when_changed` tasks
(`startExecution`): the table `execs`, the fields `key` / `waitsFor`.

* `KeyInv` (per activation): who carries a key, who waits, and in which phases;
* `ExecsInv` (global): `execs` binds key `k` to activation `e` iff `e.key = some k`
  — so at most one activation per key carries it;
* `WaiterInv` (global): a waiter that has woken carries the result of the finished
  registered execution of its key.
-/
namespace TaskModel.Sched

/-- before `startExecution` has decided -/
def preReg : Phase → Bool
  | .early | .entered | .acquired => true
  | _ => false

/-- the phases a dedup waiter goes through -/
def waiterPhase : Phase → Bool
  | .wWaiting | .wReleased | .wWoken | .finished | .released | .done => true
  | _ => false

/-- the phases of a waiter after it has been woken -/
def wokenPhase : Phase → Bool
  | .wWoken | .finished | .released | .done => true
  | _ => false

/-- phases in which no dependency / command of the activation runs or has run, unless it
went through `exec` / `depsWait` -/
def idlePhase : Phase → Bool
  | .early | .entered | .acquired | .wWaiting | .wReleased | .wWoken | .finished | .released | .done => true
  | _ => false

theorem preReg_of_mid {p : Phase} (h : midPhase p = true) : preReg p = false := by
  cases p <;> simp [midPhase] at h <;> rfl

theorem preReg_next (x : Act) (cs : List Cmd) (i : Nat) : preReg (x.next cs i).phase = false :=
  preReg_of_mid (next_mid rfl)
theorem preReg_afterCmd (x : Act) (c : Cmd) (r : Res) : preReg (x.afterCmd c r).phase = false :=
  preReg_of_mid (afterCmd_mid rfl)
theorem preReg_afterDefer (x : Act) : preReg x.afterDefer.phase = false :=
  preReg_of_mid (afterDefer_mid rfl)

/-- the dedup bookkeeping of one activation -/
structure KeyInv (x : Act) : Prop where
  /-- nothing is decided before `startExecution` -/
  pre : preReg x.phase = true → x.key = none ∧ x.waitsFor = none ∧ x.started = []
  /-- a waiter is a deduplicated task, is not itself registered, only passes through the
  waiter phases and never starts a command -/
  waiter : ∀ k, x.waitsFor = some k → waiterPhase x.phase = true ∧ x.key = none ∧ x.started = [] ∧ x.def_.run ≠ .always
  /-- only a deduplicated task carries a key, and only once it has registered -/
  keyed : ∀ k, x.key = some k → x.def_.run ≠ .always ∧ preReg x.phase = false
  /-- an activation of a deduplicated task that is not the registered execution never gets
  to its dependencies or commands -/
  dedup : x.def_.run ≠ .always → x.key = none → x.started = [] ∧ idlePhase x.phase = true

set_option maxHeartbeats 1000000 in
theorem KeyInv_local (F : Flags) (o : Obs) (x : Act) (ev : Ev) (y : Act) (eff : Eff)
    (hK : KeyInv x) (h : stepLocal F o x ev = some (y, eff)) : KeyInv y := by
  obtain ⟨h1, h2, h3, h4⟩ := hK
  step_local_cases h
  all_goals (constructor <;> (try simp only [preReg_next, preReg_afterCmd, preReg_afterDefer]) <;>
    (try (simp_all [preReg, waiterPhase, idlePhase, Act.stop, Act.stopDeps]; done)))
  all_goals (cases hk : x.key <;> simp_all [preReg, waiterPhase, idlePhase])

theorem KeyInv_fresh (P : Program) (F : Flags) (c : Config) (kind : Kind) (t : Nat) :
    KeyInv (freshAct P F c kind t) := by
  obtain ⟨hph, _, _, _, hst, _, _, hkey, hw, _⟩ := freshAct_fields P F c kind t
  refine ⟨fun _ => ⟨hkey, hw, hst⟩, ?_, ?_, ?_⟩
  · intro k hk; rw [hw] at hk; cases hk
  · intro k hk; rw [hkey] at hk; cases hk
  · intro _ _; refine ⟨hst, ?_⟩
    rcases hph with e | e <;> rw [e] <;> rfl

theorem KeyInv_kids (x : Act) (k : List (Nat × Nat)) (h : KeyInv x) : KeyInv { x with kids := k } :=
  ⟨h.pre, h.waiter, h.keyed, h.dedup⟩

theorem KeyInv_evolves {x x' : Act} (he : Evolves x x') (h : KeyInv x) : KeyInv x' := by
  cases he with
  | same e => subst e; exact h
  | loc F o ev eff hl => exact KeyInv_local F o x ev x' eff h hl
  | kid slot a e _ _ => subst e; exact KeyInv_kids x _ h

/-- a dedup key, once set, is never changed or dropped -/
theorem key_stable {x x' : Act} (he : Evolves x x') (hK : KeyInv x) (k : Nat) (hk : x.key = some k) :
    x'.key = some k := by
  cases he with
  | same e => subst e; exact hk
  | loc F o ev eff hl =>
    rcases stepLocal_key F o x ev x' eff hl with ⟨h1, _⟩ | ⟨k', _, _, _, _, _, hph, _⟩
    · rw [h1]; exact hk
    · have := (hK.keyed k hk).2
      rw [hph] at this; cases this
  | kid slot a e _ _ => subst e; exact hk

def AllKey (c : Config) : Prop := ∀ a x, c.act? a = some x → KeyInv x

theorem AllKey_init (n : Nat) : AllKey (init n) := by
  intro a x hx; simp [init, Config.act?] at hx

theorem AllKey_step (P : Program) (F : Flags) (c c' : Config) (l : Label)
    (hinv : AllKey c) (h : step P F c l = some c') : AllKey c' := by
  intro a x' hx'
  cases hc : c.act? a with
  | none =>
    obtain ⟨kind, t, _, _, rfl⟩ := step_new P F c c' l h a x' hc hx'
    exact KeyInv_fresh P F c kind t
  | some x =>
    obtain ⟨x'', hx'', hev⟩ := step_evolves P F c c' l h a x hc
    rw [hx'] at hx''; cases hx''
    exact KeyInv_evolves hev (hinv a x hc)

/-! ### the table `execs` and the `key` fields agree -/

structure ExecsInv (c : Config) : Prop where
  /-- the activation carrying key `k` is the one `execs` binds `k` to -/
  owner : ∀ a x k, c.act? a = some x → x.key = some k → c.execs.lookup k = some a
  /-- a registered key is carried by the activation it is bound to -/
  bound : ∀ k e, c.execs.lookup k = some e → ∃ ex, c.act? e = some ex ∧ ex.key = some k

theorem ExecsInv_init (n : Nat) : ExecsInv (init n) :=
  ⟨by intro a x k hx; simp [init, Config.act?] at hx, by intro k e h; simp [init] at h⟩

theorem ExecsInv_step (P : Program) (F : Flags) (c c' : Config) (l : Label)
    (hK : AllKey c) (hinv : ExecsInv c) (h : step P F c l = some c') : ExecsInv c' := by
  constructor
  · intro a x' k hx' hk
    cases hc : c.act? a with
    | none =>
      obtain ⟨kind, t, _, _, rfl⟩ := step_new P F c c' l h a x' hc hx'
      rw [(freshAct_fields P F c kind t).2.2.2.2.2.2.2.1] at hk; cases hk
    | some x =>
      obtain ⟨x'', hx'', hev⟩ := step_evolvesIn P F c c' l h a x hc
      rw [hx'] at hx''; cases hx''
      have old : x.key = some k → c'.execs.lookup k = some a :=
        fun hk0 => step_execs_lookup P F c c' l h k a (hinv.owner a x k hc hk0)
      cases hev with
      | same e _ => subst e; exact old hk
      | kid slot kind t _ e _ _ => subst e; exact old hk
      | loc eff ha _ hl =>
        rcases stepLocal_key F _ x l.ev x' eff hl with ⟨h1, _⟩ | ⟨k', hev, _, hk', _⟩
        · rw [h1] at hk; exact old hk
        · rw [hk'] at hk; cases hk
          rcases step_execs P F c c' l h with ⟨_, hne⟩ | ⟨k'', hev', _, he⟩
          · exact absurd hev (hne k)
          · rw [hev] at hev'; cases hev'
            rw [he, ha]; exact lookup_cons_self _ _ _
  · intro k e hl
    have old : c.execs.lookup k = some e → ∃ ex, c'.act? e = some ex ∧ ex.key = some k := by
      intro hl0
      obtain ⟨ex, hex, hk⟩ := hinv.bound k e hl0
      obtain ⟨ex', hex', hev⟩ := step_evolves P F c c' l h e ex hex
      exact ⟨ex', hex', key_stable hev (hK e ex hex) k hk⟩
    rcases step_execs P F c c' l h with ⟨he, _⟩ | ⟨k', hev, _, he⟩
    · rw [he] at hl; exact old hl
    · rw [he] at hl
      by_cases hkk : k = k'
      · subst hkk
        rw [lookup_cons_self] at hl; cases hl
        -- the registering activation now carries `k`
        rcases step_cases P F c c' l h with ⟨kd, t, hen, _⟩ | ⟨_, x, y, eff, hx, hs, rfl⟩
        · rw [hen] at hev; cases hev
        · refine ⟨y, by simp, ?_⟩
          rcases stepLocal_key F _ x l.ev y eff hs with ⟨_, _, hne⟩ | ⟨k'', hev', _, hk', _⟩
          · exact absurd hev (hne k)
          · rw [hev] at hev'; cases hev'; exact hk'
      · rw [lookup_cons_ne _ _ _ _ hkk] at hl; exact old hl

/-! ### a woken waiter carries the outcome of the one real execution -/

def WaiterInv (c : Config) : Prop :=
  ∀ w wx k, c.act? w = some wx → wx.waitsFor = some k → wokenPhase wx.phase = true →
    execResultOf c (some k) = some wx.out

theorem WaiterInv_init (n : Nat) : WaiterInv (init n) := by
  intro a x k hx; simp [init, Config.act?] at hx

set_option maxHeartbeats 1000000 in
/-- a waiter gets into a woken phase only by `wWake`, which copies the outcome of the
finished execution; afterwards that does not change -/
theorem stepLocal_woken (F : Flags) (o : Obs) (x : Act) (ev : Ev) (y : Act) (eff : Eff) (k : Nat)
    (hK : KeyInv x) (h : stepLocal F o x ev = some (y, eff))
    (hw : y.waitsFor = some k) (hp : wokenPhase y.phase = true) :
    x.waitsFor = some k ∧ ((wokenPhase x.phase = true ∧ y.out = x.out) ∨ o.execResult () = some y.out) := by
  have hxw : x.waitsFor = some k := by
    rcases stepLocal_waitsFor F o x ev y eff h with ⟨h1, _⟩ | ⟨k', _, _, _, _, _, hph⟩
    · rw [← h1]; exact hw
    · rw [hph] at hp; cases hp
  refine ⟨hxw, ?_⟩
  obtain ⟨hwp, hkey, _, _⟩ := hK.waiter k hxw
  step_local_cases h
  all_goals (try (rename_i hph; rw [hph] at hwp; cases hwp; done))
  all_goals (first
    | (exfalso; rw [‹x.phase = _›] at hwp; cases hwp; done)
    | (exfalso; cases hp; done)
    | (left; rw [‹x.phase = _›]; exact ⟨rfl, rfl⟩)
    | (right; assumption)
    | (exfalso; simp_all; done))

theorem WaiterInv_step (P : Program) (F : Flags) (c c' : Config) (l : Label)
    (hK : AllKey c) (hinv : WaiterInv c) (h : step P F c l = some c') : WaiterInv c' := by
  intro w wx' k hx' hw hp
  cases hc : c.act? w with
  | none =>
    obtain ⟨kind, t, _, _, rfl⟩ := step_new P F c c' l h w wx' hc hx'
    rw [(freshAct_fields P F c kind t).2.2.2.2.2.2.2.2.1] at hw; cases hw
  | some wx =>
    obtain ⟨x'', hx'', hev⟩ := step_evolvesIn P F c c' l h w wx hc
    rw [hx'] at hx''; cases hx''
    apply step_execResultOf P F c c' l h
    cases hev with
    | same e _ => subst e; exact hinv w _ k hc hw hp
    | kid slot kind t _ e _ _ => subst e; exact hinv w wx k hc hw hp
    | loc eff _ _ hl =>
      obtain ⟨hxw, hor⟩ := stepLocal_woken F _ wx l.ev wx' eff k (hK w wx hc) hl hw hp
      rcases hor with ⟨hp0, hr⟩ | hr
      · rw [hr]; exact hinv w wx k hc hxw hp0
      · simp only [obsOf, hxw] at hr; exact hr

/-! ### all of it, for every reachable configuration -/

structure DedupInv (c : Config) : Prop where
  key : AllKey c
  execs : ExecsInv c
  waiter : WaiterInv c

theorem DedupInv_init (n : Nat) : DedupInv (init n) := ⟨AllKey_init n, ExecsInv_init n, WaiterInv_init n⟩

theorem DedupInv_step (P : Program) (F : Flags) (c c' : Config) (l : Label)
    (hinv : DedupInv c) (h : step P F c l = some c') : DedupInv c' :=
  ⟨AllKey_step P F c c' l hinv.key h, ExecsInv_step P F c c' l hinv.key hinv.execs h,
   WaiterInv_step P F c c' l hinv.key hinv.waiter h⟩

theorem DedupInv_reachable (P : Program) (F : Flags) (n : Nat) (tr : List Label) (c : Config)
    (h : replay P F (init n) tr = some c) : DedupInv c :=
  replay_inv P F DedupInv (fun c l c' hi hs => DedupInv_step P F c c' l hi hs) (init n) tr c (DedupInv_init n) h

end TaskModel.Sched
