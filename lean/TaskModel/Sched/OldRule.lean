import TaskModel.Sched.DeadlockLemmas
import TaskModel.Sched.LStep
/-!
Sched.OldRule — the rule of `startExecution` as it was BEFORE the fix of
`C07-once-cycle-deadlocks`, kept apart from the model: a call that finds its key registered
waits unconditionally (the observation `cyc` is constantly false, so `waiter` is always
accepted and `waitCycle` never).  `stepOld` differs from `step` only for an activation in
phase `acquired` (`stepOld_eq_step`); in particular the executable check `deadlocked` is
sound for it as well (`deadlocked_sound_old`).  Used only for the machine-checked hang of
the old rule (`Props.C07.C07_old_rule_deadlock`).
-/
namespace TaskModel.Sched.S7

/-- what an activation observed before the fix: nobody asks whether the registered execution waits for the caller's -/
def obsOld (F : Flags) (c : Config) (a : Nat) (x : Act) : Obs := { obsOf F c a x with cyc := fun _ => false }

def stepOld (P : Program) (F : Flags) (c : Config) (l : Label) : Option Config :=
  match l.ev with
  | .enter kind t => enterAct P F c l.act kind t
  | ev =>
    match c.act? l.act with
    | none => none
    | some x =>
      match stepLocal F (obsOld F c l.act x) x ev with
      | none => none
      | some (y, eff) => some ((applyEff c l.act eff).set l.act y)

def replayOld (P : Program) (F : Flags) : Config → List Label → Option Config
  | c, [] => some c
  | c, l :: ls =>
    match stepOld P F c l with
    | some c' => replayOld P F c' ls
    | none => none

/-- outside phase `acquired` a local step does not read `cyc` -/
theorem LStep_cyc (F : Flags) (o : Obs) (x : Act) (ev : Ev) (y : Act) (eff : Eff) (f : Nat → Bool)
    (hne : x.phase ≠ .acquired) (h : S2.LStep F o x ev y eff) : S2.LStep F { o with cyc := f } x ev y eff := by
  cases h with
  | exitEarly hp => exact .exitEarly hp
  | acquire hp hc => exact .acquire hp hc
  | register k hp hr hk => exact absurd hp hne
  | waiter k hp hr hk hcyc => exact absurd hp hne
  | waitCycle k hp hr hk hcyc => exact absurd hp hne
  | wRelease hp => exact .wRelease hp
  | wWake r hp he => exact .wWake r hp he
  | wReacq hp hc => exact .wReacq hp hc
  | depsReleaseA hp hr => exact absurd hp hne
  | depsReleaseE hp => exact .depsReleaseE hp
  | depsReacq hp hd hc => exact .depsReacq hp hd hc
  | depsDoneOk r rs hp hd hr ha => exact .depsDoneOk r rs hp hd hr ha
  | depsDoneFail r rs hp hd hr hm => exact .depsDoneFail r rs hp hd hr hm
  | ctxErr hp hc => exact .ctxErr hp hc
  | precondFail hp hc => exact .precondFail hp hc
  | upToDate hp hc => exact .upToDate hp hc
  | promptFail hp hc => exact .promptFail hp hc
  | guardsPassed hp hc => exact .guardsPassed hp hc
  | cmdStartBody k ie tl hp hr => exact .cmdStartBody k ie tl hp hr
  | cmdEndBody i r cmd tl hp hr hc hs => exact .cmdEndBody i r cmd tl hp hr hc hs
  | callReleaseBody t tl hp hr => exact .callReleaseBody t tl hp hr
  | callRet i d r hp hk => exact .callRet i d r hp hk
  | callReacqDefer i hp hc => exact .callReacqDefer i hp hc
  | callReacqBody i cmd tl hp hc hr => exact .callReacqBody i cmd tl hp hc hr
  | cmdStartDefer j tl k ie hp hs hd => exact .cmdStartDefer j tl k ie hp hs hd
  | cmdEndDefer j r cmd hp hd hs => exact .cmdEndDefer j r cmd hp hd hs
  | callReleaseDefer j tl t hp hs hd => exact .callReleaseDefer j tl t hp hs hd
  | execDone hp hk => exact .execDone hp hk
  | releaseF hp hk => exact .releaseF hp hk
  | releaseE hp => exact .releaseE hp
  | exitReleased hp => exact .exitReleased hp

theorem stepLocal_cyc (F : Flags) (o : Obs) (x : Act) (ev : Ev) (f : Nat → Bool) (hne : x.phase ≠ .acquired) :
    stepLocal F { o with cyc := f } x ev = stepLocal F o x ev := by
  cases h1 : stepLocal F o x ev with
  | some p =>
    obtain ⟨y, eff⟩ := p
    exact S2.stepLocal_of_LStep F _ x ev y eff (LStep_cyc F o x ev y eff f hne (S2.LStep_of_stepLocal F o x ev y eff h1))
  | none =>
    cases h2 : stepLocal F { o with cyc := f } x ev with
    | none => rfl
    | some p =>
      obtain ⟨y, eff⟩ := p
      have := LStep_cyc F { o with cyc := f } x ev y eff o.cyc hne (S2.LStep_of_stepLocal F _ x ev y eff h2)
      have h3 := S2.stepLocal_of_LStep F _ x ev y eff this
      rw [h1] at h3; cases h3

/-- the old and the new rule agree on every label of an activation that is not in phase `acquired` -/
theorem stepOld_eq_step (P : Program) (F : Flags) (c : Config) (l : Label)
    (h : ∀ x, c.act? l.act = some x → x.phase ≠ .acquired) : stepOld P F c l = step P F c l := by
  unfold stepOld step
  cases hx : c.act? l.act with
  | none => cases l.ev <;> rfl
  | some x =>
    have : ∀ ev, stepLocal F (obsOld F c l.act x) x ev = stepLocal F (obsOf F c l.act x) x ev :=
      fun ev => stepLocal_cyc F (obsOf F c l.act x) x ev (fun _ => false) (h x hx)
    cases l.ev <;> simp only [this] <;> rfl

/-- a `deadlocked` configuration accepts no label under the old rule either (no activation of it is in `acquired`) -/
theorem deadlocked_sound_old (P : Program) (F : Flags) (c : Config) (h : deadlocked c = true) (l : Label) :
    stepOld P F c l = none := by
  rw [stepOld_eq_step P F c l ?_]
  · exact deadlocked_sound P F c h l
  · intro x hx hp
    have := deadlocked_acts c h l.act x hx
    unfold stuckAct at this
    rw [hp] at this
    cases this

end TaskModel.Sched.S7
