import TaskModel.Sched.Monitors
/-!
Sched.MonC02 — the C02 sequencing property as a per-activation state machine on the raw
events (no model state), so the compiled driver can evaluate it on a trace of the real
executor even when the model rejects that trace.

Within one activation (= one execution of a task):

* a non-deferred command start (`cmdStart i _ false`, `callRelease i false`) is accepted
  only when no entry of the activation is open and `i` is strictly larger than the index
  of every non-deferred command started before (declaration order, none twice);
* a deferred entry (`cmdStart i _ true`, `callRelease i true`) is accepted only when no
  entry is open (entries never overlap; their *order* is C14's `deferOrderMon`);
* an entry is closed by the event of its own kind and index: `cmdEnd i` closes a shell
  entry `i`, `callReacq i` closes a `task:` entry `i`; `callRet i` is accepted only while
  the `task:` entry `i` is open;
* the activation returns (`exit`) only with no entry open.
-/
namespace TaskModel.Sched

structure SeqSt where
  last : Option Nat := none          -- index of the last non-deferred command started
  cur : Option (Nat × Bool) := none  -- the open entry: (index, is a `task:` call)
deriving DecidableEq, Repr, Inhabited

/-- may non-deferred command `i` start after non-deferred command `last`? -/
def ltAfter (last : Option Nat) (i : Nat) : Bool :=
  match last with
  | some j => decide (j < i)
  | none => true

def seqMon : ActMon SeqSt where
  init := {}
  step s ev :=
    match ev with
    | .cmdStart i _ false =>
      if s.cur.isNone && ltAfter s.last i then some { last := some i, cur := some (i, false) } else none
    | .callRelease i false =>
      if s.cur.isNone && ltAfter s.last i then some { last := some i, cur := some (i, true) } else none
    | .cmdStart i _ true => if s.cur.isNone then some { s with cur := some (i, false) } else none
    | .callRelease i true => if s.cur.isNone then some { s with cur := some (i, true) } else none
    | .cmdEnd i _ => if s.cur = some (i, false) then some { s with cur := none } else none
    | .callRet i => if s.cur = some (i, true) then some s else none
    | .callReacq i => if s.cur = some (i, true) then some { s with cur := none } else none
    | .exit => if s.cur.isNone then some s else none
    | _ => some s

/-- the verdict the driver prints for C02: every activation's events are accepted -/
def seqMonAll (tr : List Label) : Bool :=
  (actIds tr).all fun a => (seqMon.run seqMon.init (evsOf a tr)).isSome

-- the monitor is executable on concrete event lists
example : (seqMon.run seqMon.init
    [.enter (.top 0) 0, .acquire, .cmdStart 0 none false, .cmdEnd 0 .ok, .callRelease 2 false, .callRet 2,
     .callReacq 2, .cmdStart 1 none true, .cmdEnd 1 .ok, .release, .exit]).isSome = true := by decide
-- overlap
example : (seqMon.run seqMon.init
    [.cmdStart 0 none false, .cmdStart 1 none false, .cmdEnd 0 .ok]).isSome = false := by decide
-- out of order
example : (seqMon.run seqMon.init
    [.cmdStart 1 none false, .cmdEnd 1 .ok, .cmdStart 0 none false, .cmdEnd 0 .ok]).isSome = false := by decide
-- the same command twice
example : (seqMon.run seqMon.init
    [.cmdStart 1 none false, .cmdEnd 1 .ok, .cmdStart 1 none false]).isSome = false := by decide
-- a `task:` entry closed by the wrong event / continuing before the callee returned
example : (seqMon.run seqMon.init [.callRelease 0 false, .cmdEnd 0 .ok]).isSome = false := by decide
example : (seqMon.run seqMon.init [.callRelease 0 false, .cmdStart 1 none false]).isSome = false := by decide
-- a deferred entry overlapping a deferred entry
example : (seqMon.run seqMon.init [.cmdStart 3 none true, .callRelease 1 true]).isSome = false := by decide

end TaskModel.Sched
