import TaskModel.Sched.LiveTrace
/-!
Sched.LiveOrder — a child activation is created after its parent (position in the list of
`enter` events).  Lets deadlock freedom cover cyclic references through `run: always` tasks.
-/
namespace TaskModel.Sched.S7

/-- position of `a` in `l` (`l.length` if absent) -/
def pos (a : Nat) : List Nat → Nat
  | [] => 0
  | b :: l => if b = a then 0 else pos a l + 1

theorem pos_le (a : Nat) (l : List Nat) : pos a l ≤ l.length := by
  induction l with
  | nil => exact Nat.le_refl _
  | cons b l ih => simp only [pos, List.length_cons]; split <;> omega

theorem pos_lt_of_mem (a : Nat) (l : List Nat) (h : a ∈ l) : pos a l < l.length := by
  induction l with
  | nil => cases h
  | cons b l ih =>
    simp only [pos, List.length_cons]
    split
    · omega
    · rename_i hb
      rcases List.mem_cons.mp h with e | e
      · exact absurd e.symm hb
      · have := ih e; omega

theorem pos_append_mem (a : Nat) (l m : List Nat) (h : a ∈ l) : pos a (l ++ m) = pos a l := by
  induction l with
  | nil => cases h
  | cons b l ih =>
    simp only [List.cons_append, pos]
    split
    · rfl
    · rename_i hb
      rcases List.mem_cons.mp h with e | e
      · exact absurd e.symm hb
      · rw [ih e]

theorem pos_append_not_mem (a : Nat) (l : List Nat) (h : a ∉ l) : pos a (l ++ [a]) = l.length := by
  induction l with
  | nil => simp [pos]
  | cons b l ih =>
    have hb : b ≠ a := fun e => h (by rw [e]; exact List.mem_cons_self)
    have hl : a ∉ l := fun e => h (List.mem_cons_of_mem _ e)
    simp [pos, hb, ih hl]

/-- children are created after their parents -/
def OrderInv (c : Config) (tr : List Label) : Prop :=
  ∀ a x s id, c.act? a = some x → x.kids.lookup s = some id →
    id ∈ actIds tr ∧ pos a (actIds tr) < pos id (actIds tr)

theorem orderInv_init (n : Nat) : OrderInv (init n) [] := by
  intro a x s id h; simp [init, Config.act?] at h

theorem orderInv_step (P : Program) (F : Flags) (c : Config) (tr : List Label) (l : Label) (c' : Config)
    (hids : IdsInv c tr) (hinv : OrderInv c tr) (hs : step P F c l = some c') : OrderInv c' (tr ++ [l]) := by
  intro b y s id hy hlk
  rcases step_cases P F c c' l hs with ⟨k, t, he, hen⟩ | ⟨hne, x, z, eff, hx, hl, rfl⟩
  · rw [actIds_snoc_enter tr l k t he]
    obtain ⟨hnone, hnew, _, hcase⟩ := enterAct_cases P F c c' l.act k t hen
    have hnot : l.act ∉ actIds tr := by
      intro hin; have := (hids.2 l.act).mp hin; rw [hnone] at this; cases this
    have hold : ∀ b0 y0 s0 id0, c.act? b0 = some y0 → y0.kids.lookup s0 = some id0 →
        id0 ∈ actIds tr ++ [l.act] ∧ pos b0 (actIds tr ++ [l.act]) < pos id0 (actIds tr ++ [l.act]) := by
      intro b0 y0 s0 id0 h1 h2
      obtain ⟨hm, hp⟩ := hinv b0 y0 s0 id0 h1 h2
      have hb0 : b0 ∈ actIds tr := (hids.2 b0).mpr (by rw [h1]; rfl)
      exact ⟨List.mem_append_left _ hm, by rw [pos_append_mem _ _ _ hb0, pos_append_mem _ _ _ hm]; exact hp⟩
    by_cases hb : b = l.act
    · subst hb
      rw [hnew] at hy; cases hy
      rw [(freshAct_fields P F c k t).2.2.2.2.2.2.2.2.2.1] at hlk; cases hlk
    · rcases hcase with ⟨_, _, _, _, hoth⟩ | ⟨p, px, s0, hpx, _, _, _, _, hp', hoth, _⟩
      · rw [hoth b hb] at hy
        exact hold b y s id hy hlk
      · by_cases hbp : b = p
        · subst hbp
          rw [hp'] at hy; cases hy
          simp only at hlk
          have hbin : b ∈ actIds tr := (hids.2 b).mpr (by rw [hpx]; rfl)
          by_cases hs0 : s = s0
          · subst hs0
            rw [lookup_cons_self] at hlk; cases hlk
            refine ⟨List.mem_append_right _ (List.mem_singleton.mpr rfl), ?_⟩
            rw [pos_append_mem _ _ _ hbin, pos_append_not_mem _ _ hnot]
            exact pos_lt_of_mem _ _ hbin
          · rw [lookup_cons_ne _ _ _ _ hs0] at hlk
            exact hold b px s id hpx hlk
        · rw [hoth b hb hbp] at hy
          exact hold b y s id hy hlk
  · rw [actIds_snoc_other tr l hne]
    by_cases hb : b = l.act
    · subst hb
      rw [act?_set_self] at hy; cases hy
      rw [(stepLocal_static F _ x l.ev y eff hl).kids] at hlk
      exact hinv l.act x s id hx hlk
    · rw [act?_set_other _ _ _ _ hb, act?_applyEff] at hy
      exact hinv b y s id hy hlk

theorem orderInv_reach (P : Program) (F : Flags) (n : Nat) (tr : List Label) (c : Config)
    (h : replay P F (init n) tr = some c) : OrderInv c tr :=
  (replay_inv_tr P F (fun c tr => IdsInv c tr ∧ OrderInv c tr)
    (fun c tr l c' hinv hs => ⟨idsInv_step P F c tr l c' hinv.1 hs, orderInv_step P F c tr l c' hinv.1 hinv.2 hs⟩)
    n ⟨idsInv_init n, orderInv_init n⟩ tr c h).2

end TaskModel.Sched.S7
