import TaskModel.Sched.LocalFacts
/-!
Sched.EnterLemmas — `enterOf a tr` (what the raw monitors read off the trace) agrees with
the model: on an accepted trace it is the kind and task of activation `a`, and the
activation's task definition is the program's entry for that task.
-/
namespace TaskModel.Sched

/-- the first `enter` among the events of one activation -/
def firstEnter : List Ev → Option (Kind × Nat)
  | [] => none
  | .enter k t :: _ => some (k, t)
  | _ :: r => firstEnter r

theorem enterOf_eq (a : Nat) (tr : List Label) : enterOf a tr = firstEnter (evsOf a tr) := by
  induction tr with
  | nil => rfl
  | cons l ls ih =>
    obtain ⟨b, ev⟩ := l
    simp only [enterOf, evsOf]
    split
    · cases ev <;> simp [firstEnter, ih]
    · exact ih

/-- monitor: the first event of an activation is its `enter`; remembers it -/
def enterMon : ActMon (Option (Kind × Nat)) where
  init := none
  step s ev :=
    match s with
    | none => (match ev with | .enter k t => some (some (k, t)) | _ => none)
    | some p => some (some p)

theorem enterMon_run_some (p : Kind × Nat) (evs : List Ev) : enterMon.run (some p) evs = some (some p) := by
  induction evs with
  | nil => rfl
  | cons e es ih => simp only [ActMon.run, enterMon]; exact ih

theorem enterMon_first (evs : List Ev) (p : Kind × Nat) (h : enterMon.run none evs = some (some p)) :
    firstEnter evs = some p := by
  cases evs with
  | nil => simp [ActMon.run] at h
  | cons e es =>
    cases e
    case enter k t =>
      simp only [ActMon.run, enterMon] at h
      have := enterMon_run_some (k, t) es
      simp only [enterMon] at this
      rw [this] at h
      simp only [firstEnter]
      exact congrArg some (Option.some.inj (Option.some.inj h))
    all_goals simp [ActMon.run, enterMon] at h

/-- **`enterOf` on an accepted trace** names the kind and task of the activation, whose
definition is the program's -/
theorem enterOf_sound (P : Program) (F : Flags) (n : Nat) (tr : List Label) (c : Config)
    (h : replay P F (init n) tr = some c) (a : Nat) :
    match c.act? a with
    | none => enterOf a tr = none
    | some x => enterOf a tr = some (x.kind, x.task) ∧ x.def_ = (P[x.task]?).getD {} := by
  have hm := actMon_sound enterMon (fun s x => s = some (x.kind, x.task) ∧ x.def_ = (P[x.task]?).getD {}) P F
    (fun c kind t => by
      obtain ⟨_, _, _, _, _, _, _, _, _, _, hk, ht, hd, _⟩ := freshAct_fields P F c kind t
      exact ⟨some (kind, t), rfl, by rw [hk, ht], by rw [hd, ht]⟩)
    (fun o s x ev y eff hR hs => by
      obtain ⟨_, e2, e3, e4, _⟩ := stepLocal_frame F o x ev y eff hs
      obtain ⟨h1, h2⟩ := hR
      subst h1
      exact ⟨some (x.kind, x.task), rfl, by rw [e3, e4], by rw [e2, e4]; exact h2⟩)
    (fun s x k hR => hR) n tr c h a
  rw [enterOf_eq]
  cases hc : c.act? a with
  | none =>
    rw [hc] at hm
    simp only at hm ⊢
    rw [hm]; rfl
  | some x =>
    rw [hc] at hm
    simp only at hm ⊢
    obtain ⟨s, hs, hs1, hs2⟩ := hm
    subst hs1
    exact ⟨enterMon_first _ _ hs, hs2⟩

end TaskModel.Sched
