import TaskModel.Sched.TraceLemmas
/-! Deduplicated tasks (`run: once` / `when_changed`): a waiter that has been woken holds the
result of the registered execution, and that execution has finished (model of the repaired
`startExecution`). -/
namespace TaskModel.Sched.S2

theorem execs_bumpCalls (P : Program) (c : Config) (t : Nat) : (bumpCalls P c t).execs = c.execs := by
  unfold bumpCalls; split
  · split <;> rfl
  · rfl

/-- a step leaves the table of registered executions alone or registers a fresh key -/
theorem step_execs (P : Program) (F : Flags) (c c' : Config) (l : Label) (h : step P F c l = some c') :
    c'.execs = c.execs ∨ ∃ k, c.execs.lookup k = none ∧ c'.execs = (k, l.act) :: c.execs := by
  rcases step_cases P F c c' l h with ⟨kd, t, _, hen⟩ | ⟨_, x, y, eff, hx, hl, rfl⟩
  · left
    unfold enterAct at hen
    split at hen
    · cases hen
    · split at hen
      · cases hen
      · cases hen; simp [Config.set, execs_bumpCalls]
      · cases hen; simp [Config.set, execs_bumpCalls]
  · generalize l.ev = ev at hl
    have hL := LStep_of_stepLocal F _ x _ y eff hl
    cases hL with
    | register k hp hr hk =>
      right
      refine ⟨k, ?_, rfl⟩
      simp only [obsOf] at hk
      cases hh : c.execs.lookup k with
      | none => rfl
      | some _ => rw [hh] at hk; cases hk
    | _ => left; rfl

/-- phases of a registered execution after its body and deferred entries -/
def execOver : Phase → Bool
  | .execDoneP | .released | .done => true
  | _ => false

theorem execResultOf_some (c : Config) (k : Nat) (r : Outcome) :
    execResultOf c (some k) = some r ↔
      ∃ e ex, c.execs.lookup k = some e ∧ c.act? e = some ex ∧ execOver ex.phase = true ∧ ex.out = r := by
  unfold execResultOf
  constructor
  · intro h
    simp only at h
    split at h
    · cases h
    · rename_i e he
      split at h
      · cases h
      · rename_i ex hex
        split at h
        · rename_i hp
          refine ⟨e, ex, he, hex, ?_, Option.some.inj h⟩
          revert hp; cases ex.phase <;> simp [execOver]
        · cases h
  · rintro ⟨e, ex, h1, h2, h3, h4⟩
    simp only [h1, h2]
    have : ex.phase = .execDoneP ∨ ex.phase = .released ∨ ex.phase = .done := by
      revert h3; cases ex.phase <;> simp [execOver]
    rcases this with hp | hp | hp <;> simp [hp, h4]

/-- the outcome of a finished shared execution is stable -/
theorem execResultOf_step (P : Program) (F : Flags) (c c' : Config) (l : Label) (h : step P F c l = some c')
    (k : Nat) (r : Outcome) (hk : execResultOf c (some k) = some r) : execResultOf c' (some k) = some r := by
  obtain ⟨e, ex, h1, h2, h3, h4⟩ := (execResultOf_some c k r).mp hk
  rw [execResultOf_some]
  have hlk : c'.execs.lookup k = some e := by
    rcases step_execs P F c c' l h with he | ⟨k', hn, he⟩
    · rw [he]; exact h1
    · rw [he, lookup_cons_ne _ _ _ _ (by intro e'; subst e'; rw [h1] at hn; cases hn)]; exact h1
  rcases step_cases P F c c' l h with ⟨kd, t, _, hen⟩ | ⟨_, x, y, eff, hx, hl, rfl⟩
  · obtain ⟨hnone, _, hoth⟩ := enterAct_acts' P F c c' l.act kd t hen
    have hne : e ≠ l.act := by intro e'; subst e'; rw [h2] at hnone; cases hnone
    rcases hoth e hne with g | ⟨px, slot, g1, g2, _⟩
    · exact ⟨e, ex, hlk, by rw [g]; exact h2, h3, h4⟩
    · rw [h2] at g1; cases g1
      exact ⟨e, _, hlk, g2, h3, h4⟩
  · by_cases he : e = l.act
    · subst he
      rw [h2] at hx; cases hx
      refine ⟨l.act, y, hlk, by simp, ?_, ?_⟩
      · generalize l.ev = ev at hl
        have hL := LStep_of_stepLocal F _ ex _ y eff hl
        cases hL <;> simp_all [execOver]
      · have hlate : lateP ex.phase = true := by revert h3; cases ex.phase <;> simp [execOver, lateP]
        rw [lateP_step_out F _ ex _ y eff hl hlate]; exact h4
    · exact ⟨e, ex, hlk, by rw [act?_set_other _ _ _ _ he, act?_applyEff]; exact h2, h3, h4⟩

/-- the life of a waiter after the `waiter` event -/
def wlife : Phase → Bool
  | .wWaiting | .wReleased | .wWoken | .finished | .execDoneP | .released | .done => true
  | _ => false

def WInv (c : Config) (x : Act) : Prop :=
  ∀ k, x.waitsFor = some k → wlife x.phase = true ∧
    (x.phase ≠ .wWaiting → x.phase ≠ .wReleased → execResultOf c (some k) = some x.out)

theorem waitsFor_step (F : Flags) (o : Obs) (x : Act) (ev : Ev) (y : Act) (eff : Eff)
    (h : stepLocal F o x ev = some (y, eff)) (hne : ∀ k, ev ≠ .waiter k) : y.waitsFor = x.waitsFor := by
  have hL := LStep_of_stepLocal F o x ev y eff h
  cases hL with
  | waiter k _ _ _ => exact absurd rfl (hne k)
  | guardsPassed hp hc => exact (next_more x _ _).2.2.2.2
  | cmdEndBody i r cmd tl hp hr hc hs => exact (afterCmd_waitsFor _ _ _).1
  | callReacqBody i cmd tl hp hc hr => exact (afterCmd_waitsFor _ _ _).1
  | callReacqDefer i hp hc => exact (afterDefer_fields _).2.2.2.2.2.2.2.2
  | cmdEndDefer j r cmd hp hd hs => exact (afterDefer_fields _).2.2.2.2.2.2.2.2
  | _ => rfl

theorem WInv_local (P : Program) (F : Flags) (c c' : Config) (a : Nat) (ev : Ev) (hs : step P F c ⟨a, ev⟩ = some c')
    (x y : Act) (eff : Eff) (hW : WInv c x)
    (h : stepLocal F (obsOf F c a x) x ev = some (y, eff)) : WInv c' y := by
  have hst := execResultOf_step P F c c' _ hs
  have hL := LStep_of_stepLocal F _ x _ y eff h
  intro k hk
  cases hL with
  | waiter k' hp hr hk' => exact ⟨rfl, fun h1 => absurd rfl h1⟩
  | wWake r hp he =>
    refine ⟨rfl, fun _ _ => ?_⟩
    simp only [obsOf] at he
    simp only at hk
    rw [hk] at he
    exact hst k r he
  | wRelease hp => exact ⟨rfl, fun _ h2 => absurd rfl h2⟩
  | wReacq hp hc =>
    obtain ⟨_, g2⟩ := hW k hk
    exact ⟨rfl, fun _ _ => hst k _ (g2 (by rw [hp]; simp) (by rw [hp]; simp))⟩
  | execDone hp hk' =>
    obtain ⟨_, g2⟩ := hW k hk
    exact ⟨rfl, fun _ _ => hst k _ (g2 (by rw [hp]; simp) (by rw [hp]; simp))⟩
  | releaseF hp hk' =>
    obtain ⟨_, g2⟩ := hW k hk
    exact ⟨rfl, fun _ _ => hst k _ (g2 (by rw [hp]; simp) (by rw [hp]; simp))⟩
  | releaseE hp =>
    obtain ⟨_, g2⟩ := hW k hk
    exact ⟨rfl, fun _ _ => hst k _ (g2 (by rw [hp]; simp) (by rw [hp]; simp))⟩
  | exitReleased hp =>
    obtain ⟨_, g2⟩ := hW k hk
    exact ⟨rfl, fun _ _ => hst k _ (g2 (by rw [hp]; simp) (by rw [hp]; simp))⟩
  | exitEarly hp => have := (hW k hk).1; rw [hp] at this; cases this
  | _ =>
    -- every other step starts in a phase a waiter is never in
    have hwf := waitsFor_step F _ x _ _ _ h (by intro _ e; cases e)
    have := (hW k (by rw [← hwf]; exact hk)).1
    simp_all [wlife]

theorem WInv_sound (P : Program) (F : Flags) (n : Nat) (tr : List Label) (c : Config)
    (h : replay P F (init n) tr = some c) (a : Nat) (x : Act) (hx : c.act? a = some x) : WInv c x := by
  have hinv := replay_inv P F (fun c => ∀ a x, c.act? a = some x → WInv c x) ?_ (init n) tr c ?_ h
  · exact hinv a x hx
  · intro c l c' hI hs b z hz
    have hst := execResultOf_step P F c c' _ hs
    have hkeep : ∀ w : Act, WInv c w → ∀ w' : Act, w'.waitsFor = w.waitsFor → w'.phase = w.phase →
        w'.out = w.out → WInv c' w' := by
      intro w hw w' e1 e2 e3 k hk
      obtain ⟨g1, g2⟩ := hw k (by rw [← e1]; exact hk)
      refine ⟨by rw [e2]; exact g1, fun n1 n2 => ?_⟩
      rw [e3]; exact hst k _ (g2 (by rw [← e2]; exact n1) (by rw [← e2]; exact n2))
    rcases step_cases P F c c' l hs with ⟨kd, t, _, hen⟩ | ⟨_, x, y, eff, hx, hl, rfl⟩
    · obtain ⟨hnone, hnew, hoth⟩ := enterAct_acts' P F c c' l.act kd t hen
      by_cases hb : b = l.act
      · subst hb
        rw [hnew] at hz; cases hz
        intro k hk
        rw [(freshAct_fields P F c kd t).2.2.2.2.2.2.2.2.1] at hk; cases hk
      · rcases hoth b hb with h1 | ⟨px, slot, h1, h2, _⟩
        · rw [h1] at hz; exact hkeep z (hI b z hz) z rfl rfl rfl
        · rw [h2] at hz; cases hz
          exact hkeep px (hI b px h1) _ rfl rfl rfl
    · by_cases hb : b = l.act
      · subst hb
        rw [act?_set_self] at hz; cases hz
        exact WInv_local P F c _ l.act l.ev hs x z eff (hI _ x hx) hl
      · rw [act?_set_other _ _ _ _ hb, act?_applyEff] at hz
        exact hkeep z (hI b z hz) z rfl rfl rfl
  · intro a x hx
    simp [init, Config.act?] at hx

end TaskModel.Sched.S2
