import TaskModel.Sched.ActMon
/-! Helper lemmas for C14: the stack of registered `defer:` entries is strictly
decreasing and bounded by the position in the command list. -/
namespace TaskModel.Sched

/-- strictly decreasing list -/
def Desc : List Nat → Prop
  | [] => True
  | a :: l => (∀ k ∈ l, k < a) ∧ Desc l

theorem Desc.tail {a : Nat} {l : List Nat} (h : Desc (a :: l)) : Desc l := h.2
theorem Desc.head_gt {a : Nat} {l : List Nat} (h : Desc (a :: l)) : ∀ k ∈ l, k < a := h.1

theorem desc_cons (i : Nat) (l : List Nat) (hd : Desc l) (hb : ∀ k ∈ l, k < i) : Desc (i :: l) := ⟨hb, hd⟩

/-- `advance` keeps the stack strictly decreasing and below the new position -/
theorem advance_desc (cs : List Cmd) (i : Nat) (regs stack : List Nat)
    (hd : Desc stack) (hb : ∀ k ∈ stack, k < i) :
    Desc (advance cs i regs stack).2.2.2 ∧ (∀ k ∈ (advance cs i regs stack).2.2.2, k < (advance cs i regs stack).2.1) ∧
      i ≤ (advance cs i regs stack).2.1 := by
  induction cs generalizing i regs stack with
  | nil => exact ⟨hd, hb, Nat.le_refl _⟩
  | cons c cs ih =>
    simp only [advance]
    split
    · have := ih (i+1) (regs ++ [i]) (i :: stack) (desc_cons i stack hd hb)
        (by intro k hk; simp only [List.mem_cons] at hk; rcases hk with rfl | hk
            · omega
            · have := hb k hk; omega)
      exact ⟨this.1, this.2.1, by omega⟩
    · exact ⟨hd, hb, Nat.le_refl _⟩

/-- the history `regs` and the stack: registered entries are pushed in order -/
theorem advance_regs (cs : List Cmd) (i : Nat) (regs stack : List Nat)
    (h : stack = regs.reverse) :
    (advance cs i regs stack).2.2.2 = (advance cs i regs stack).2.2.1.reverse := by
  induction cs generalizing i regs stack with
  | nil => exact h
  | cons c cs ih =>
    simp only [advance]
    split
    · apply ih
      simp [List.reverse_append, h]
    · exact h

theorem next_stack (x : Act) (cs : List Cmd) (i : Nat) :
    (x.next cs i).stack = (advance cs i x.regs x.stack).2.2.2 ∧
    (x.next cs i).regs = (advance cs i x.regs x.stack).2.2.1 ∧
    (x.next cs i).idx = (advance cs i x.regs x.stack).2.1 ∧
    (x.next cs i).ran = x.ran ∧ (x.next cs i).res = x.res ∧ (x.next cs i).exitCode = x.exitCode ∧
    (x.next cs i).def_ = x.def_ ∧ (x.next cs i).holds = x.holds := by
  unfold Act.next
  split
  rename_i rest i' regs stack heq
  simp only [heq]
  split <;> simp

theorem next_phase (x : Act) (cs : List Cmd) (i : Nat) :
    (x.next cs i).phase = .body ∨
    ((x.next cs i).phase = .defers ∧ (x.next cs i).stack ≠ []) ∨
    ((x.next cs i).phase = .finished ∧ (x.next cs i).stack = []) := by
  unfold Act.next
  split
  rename_i rest i' regs stack heq
  split
  · cases stack with
    | nil => right; right; simp
    | cons s ss => right; left; simp
  · left; rfl

end TaskModel.Sched
