import TaskModel.Sched.LocalFacts
/-!
Sched.GlobalLemmas — stability facts about the whole configuration (several activations
and the table `execs`), proved once and used by `Props/C01`, `Props/C06`.

* `enterAct_kind`: what `enter` does, by kind (who gains which kid under which slot);
* `Evolves` / `step_evolves`: how one activation can change in one `step` of anybody;
* an activation in phase `done` never changes again (`step_kidDone`); the result of a
  finished registered execution is stable (`step_execResultOf`);
* `execs` only grows, `register k` is accepted only if `k` is unregistered (`step_execs`);
* a kid once recorded under a slot stays there; slots are never reused (`Evolves.kids`).
-/
namespace TaskModel.Sched

theorem lookup_cons_self {β : Type} (k : Nat) (v : β) (l : List (Nat × β)) :
    List.lookup k ((k, v) :: l) = some v := by
  simp [List.lookup]

theorem lookup_cons_ne {β : Type} (k k' : Nat) (v : β) (l : List (Nat × β)) (h : k ≠ k') :
    List.lookup k ((k', v) :: l) = List.lookup k l := by
  have : (k == k') = false := by simpa using h
  simp [List.lookup, this]

/-! ### `enter`, in detail -/

theorem bumpCalls_execs (P : Program) (c : Config) (t : Nat) : (bumpCalls P c t).execs = c.execs := by
  unfold bumpCalls; split
  · split <;> rfl
  · rfl

/-- what `enterCheck` demands of the parent, by kind -/
theorem enterCheck_act' (F : Flags) (c : Config) (a : Nat) (kind : Kind) (t p : Nat) (px' : Act)
    (h : enterCheck F c a kind t = some (.act p px')) :
    ∃ px slot, c.act? p = some px ∧ px' = { px with kids := (slot, a) :: px.kids } ∧
      px.kids.lookup slot = none ∧
      ((∃ j, kind = .dep p j ∧ slot = slotOfDep j ∧ px.phase = .depsWait ∧ px.def_.deps[j]? = some t) ∨
       (∃ i d, kind = .call p i d ∧ slot = slotOfCall px i ∧ px.phase = .inCall i d ∧
          px.def_.cmds[i]? = some (.call t d))) := by
  unfold enterCheck at h
  split at h
  · split at h
    · cases h
    · simp only at h
      have : ∀ (b : Bool) (k : Nat), (if b = true then some (Parent.top k) else none) = some (Parent.act p px') → False := by
        intro b k hb; cases b <;> simp at hb
      exact (this _ _ h).elim
  · rename_i p' j
    split at h
    · cases h
    · rename_i px hpx
      split at h
      · cases h
      · rename_i hph
        split at h
        · cases h
        · rename_i t' hd
          split at h
          · cases h
          · rename_i htt
            cases h
            simp only [ne_eq, Bool.or_eq_true, decide_eq_true_eq, not_or, Decidable.not_not] at hph
            have htt' : t' = t := Decidable.not_not.mp htt
            subst htt'
            refine ⟨px, slotOfDep j, hpx, rfl, ?_, .inl ⟨j, rfl, rfl, hph.1, hd⟩⟩
            cases hl : px.kids.lookup (slotOfDep j) with
            | none => rfl
            | some v => rw [hl] at hph; simp at hph
  · rename_i p' i dfr
    split at h
    · cases h
    · rename_i px hpx
      split at h
      · cases h
      · rename_i hph
        split at h
        · rename_i t' d' hc
          split at h
          · cases h
          · rename_i htt
            cases h
            simp only [ne_eq, Bool.or_eq_true, decide_eq_true_eq, not_or, Decidable.not_not] at hph htt
            obtain ⟨rfl, rfl⟩ := htt
            refine ⟨px, slotOfCall px i, hpx, rfl, ?_, .inr ⟨i, d', rfl, rfl, hph.1, hc⟩⟩
            cases hl : px.kids.lookup (slotOfCall px i) with
            | none => rfl
            | some v => rw [hl] at hph; simp at hph
        · cases h

/-- `enterCheck` answers `top` only for a `top` kind -/
theorem enterCheck_top (F : Flags) (c : Config) (a : Nat) (kind : Kind) (t k : Nat)
    (h : enterCheck F c a kind t = some (.top k)) : kind = .top k := by
  unfold enterCheck at h
  split at h
  · split at h
    · cases h
    · simp only at h
      have : ∀ (b : Bool) (k' : Nat), (if b = true then some (Parent.top k') else none) = some (Parent.top k) → k' = k := by
        intro b k' hb; cases b <;> simp at hb; exact hb
      rw [this _ _ h]
  · repeat' split at h
    all_goals cases h
  · repeat' split at h
    all_goals cases h

/-- the parent-side effect of an accepted `enter` -/
inductive Gains (c : Config) (a : Nat) (kind : Kind) (t : Nat) (p : Nat) (px : Act) (slot : Nat) : Prop
  | dep (j : Nat) : kind = .dep p j → slot = slotOfDep j → px.phase = .depsWait → px.def_.deps[j]? = some t →
      Gains c a kind t p px slot
  | call (i : Nat) (d : Bool) : kind = .call p i d → slot = slotOfCall px i → px.phase = .inCall i d →
      px.def_.cmds[i]? = some (.call t d) → Gains c a kind t p px slot

/-- what an accepted `enter` does: a new activation `a` (fresh), `execs` untouched; for a
`top` kind nothing else changes; for `dep` / `call` kinds exactly the parent named in the
kind gains `a` as kid under a slot that was empty, everything else is untouched -/
theorem enterAct_kind (P : Program) (F : Flags) (c c' : Config) (a : Nat) (kind : Kind) (t : Nat)
    (h : enterAct P F c a kind t = some c') :
    c.act? a = none ∧ c'.act? a = some (freshAct P F c kind t) ∧ c'.execs = c.execs ∧
    ((∃ k, kind = .top k ∧ ∀ b, b ≠ a → c'.act? b = c.act? b) ∨
     (∃ p px slot, p ≠ a ∧ c.act? p = some px ∧ px.kids.lookup slot = none ∧ Gains c a kind t p px slot ∧
        c'.act? p = some { px with kids := (slot, a) :: px.kids } ∧
        ∀ b, b ≠ a → b ≠ p → c'.act? b = c.act? b)) := by
  unfold enterAct at h
  split at h
  · cases h
  · rename_i hnone
    have hn : c.act? a = none := by
      cases hh : c.act? a with
      | none => rfl
      | some _ => simp [hh] at hnone
    refine ⟨hn, ?_⟩
    split at h
    · cases h
    · rename_i k hc
      cases h
      refine ⟨by simp, ?_, .inl ⟨k, enterCheck_top F c a kind t k hc, ?_⟩⟩
      · show (bumpCalls P c t).execs = c.execs
        exact bumpCalls_execs P c t
      · intro b hb
        rw [act?_set_other _ _ _ _ hb]
        show (bumpCalls P c t).act? b = c.act? b
        simp
    · rename_i p px' hc
      cases h
      obtain ⟨px, slot, hpx, rfl, hslot, hk⟩ := enterCheck_act' F c a kind t p _ hc
      have hpa : p ≠ a := by
        intro e; subst e; rw [hpx] at hn; cases hn
      refine ⟨by simp, ?_, .inr ⟨p, px, slot, hpa, hpx, hslot, ?_, ?_, ?_⟩⟩
      · show (bumpCalls P c t).execs = c.execs
        exact bumpCalls_execs P c t
      · rcases hk with ⟨j, h1, h2, h3, h4⟩ | ⟨i, d, h1, h2, h3, h4⟩
        · exact .dep j h1 h2 h3 h4
        · exact .call i d h1 h2 h3 h4
      · rw [act?_set_other _ _ _ _ hpa]; simp
      · intro b hb hbp
        rw [act?_set_other _ _ _ _ hb, act?_set_other _ _ _ _ hbp]
        simp

/-! ### how one activation changes in one step of the system -/

/-- the ways an existing activation can change when the system makes one step -/
inductive Evolves (x x' : Act) : Prop
  | same : x' = x → Evolves x x'
  | loc (F : Flags) (o : Obs) (ev : Ev) (eff : Eff) : stepLocal F o x ev = some (x', eff) → Evolves x x'
  | kid (slot a : Nat) : x' = { x with kids := (slot, a) :: x.kids } → x.kids.lookup slot = none →
      (x.phase = .depsWait ∨ ∃ i d, x.phase = .inCall i d) → Evolves x x'

theorem step_evolves (P : Program) (F : Flags) (c c' : Config) (l : Label) (h : step P F c l = some c')
    (b : Nat) (x : Act) (hx : c.act? b = some x) : ∃ x', c'.act? b = some x' ∧ Evolves x x' := by
  rcases step_cases P F c c' l h with ⟨k, t, _, hen⟩ | ⟨_, x0, y, eff, hx0, hl, rfl⟩
  · obtain ⟨hnone, _, _, hk⟩ := enterAct_kind P F c c' l.act k t hen
    have hba : b ≠ l.act := by intro e; subst e; rw [hx] at hnone; cases hnone
    rcases hk with ⟨_, _, hoth⟩ | ⟨p, px, slot, _, hpx, hslot, hg, hp', hoth⟩
    · exact ⟨x, by rw [hoth b hba, hx], .same rfl⟩
    · by_cases hbp : b = p
      · subst hbp
        rw [hx] at hpx; cases hpx
        refine ⟨_, hp', .kid slot l.act rfl hslot ?_⟩
        cases hg with
        | dep j _ _ h3 _ => exact .inl h3
        | call i d _ _ h3 _ => exact .inr ⟨i, d, h3⟩
      · exact ⟨x, by rw [hoth b hba hbp, hx], .same rfl⟩
  · by_cases hb : b = l.act
    · subst hb
      rw [hx] at hx0; cases hx0
      exact ⟨y, by simp, .loc F _ _ _ hl⟩
    · exact ⟨x, by rw [act?_set_other _ _ _ _ hb, act?_applyEff, hx], .same rfl⟩

/-- the same with the context kept: which label, which observation -/
inductive EvolvesIn (F : Flags) (c : Config) (l : Label) (b : Nat) (x x' : Act) : Prop
  | same : x' = x → (b ≠ l.act ∨ ∃ k t, l.ev = .enter k t) → EvolvesIn F c l b x x'
  | loc (eff : Eff) : b = l.act → (∀ k t, l.ev ≠ .enter k t) →
      stepLocal F (obsOf F c b x) x l.ev = some (x', eff) → EvolvesIn F c l b x x'
  | kid (slot : Nat) (kind : Kind) (t : Nat) : l.ev = .enter kind t → x' = { x with kids := (slot, l.act) :: x.kids } →
      x.kids.lookup slot = none → Gains c l.act kind t b x slot → EvolvesIn F c l b x x'

theorem step_evolvesIn (P : Program) (F : Flags) (c c' : Config) (l : Label) (h : step P F c l = some c')
    (b : Nat) (x : Act) (hx : c.act? b = some x) : ∃ x', c'.act? b = some x' ∧ EvolvesIn F c l b x x' := by
  rcases step_cases P F c c' l h with ⟨k, t, hev, hen⟩ | ⟨hne, x0, y, eff, hx0, hl, rfl⟩
  · obtain ⟨hnone, _, _, hk⟩ := enterAct_kind P F c c' l.act k t hen
    have hba : b ≠ l.act := by intro e; subst e; rw [hx] at hnone; cases hnone
    rcases hk with ⟨_, _, hoth⟩ | ⟨p, px, slot, _, hpx, hslot, hg, hp', hoth⟩
    · exact ⟨x, by rw [hoth b hba, hx], .same rfl (.inl hba)⟩
    · by_cases hbp : b = p
      · subst hbp
        rw [hx] at hpx; cases hpx
        exact ⟨_, hp', .kid slot k t hev rfl hslot hg⟩
      · exact ⟨x, by rw [hoth b hba hbp, hx], .same rfl (.inl hba)⟩
  · by_cases hb : b = l.act
    · subst hb
      rw [hx] at hx0; cases hx0
      exact ⟨y, by simp, .loc eff rfl hne hl⟩
    · exact ⟨x, by rw [act?_set_other _ _ _ _ hb, act?_applyEff, hx], .same rfl (.inl hb)⟩

theorem EvolvesIn.evolves {F : Flags} {c : Config} {l : Label} {b : Nat} {x x' : Act}
    (h : EvolvesIn F c l b x x') : Evolves x x' := by
  cases h with
  | same e _ => exact .same e
  | loc eff _ _ hl => exact .loc F _ _ eff hl
  | kid slot kind t _ e hs hg =>
    refine .kid slot l.act e hs ?_
    cases hg with
    | dep j _ _ h3 _ => exact .inl h3
    | call i d _ _ h3 _ => exact .inr ⟨i, d, h3⟩

/-- an activation that is new after a step is the fresh activation of an `enter` label -/
theorem step_new (P : Program) (F : Flags) (c c' : Config) (l : Label) (h : step P F c l = some c')
    (a : Nat) (x' : Act) (hn : c.act? a = none) (hx' : c'.act? a = some x') :
    ∃ kind t, l.ev = .enter kind t ∧ a = l.act ∧ x' = freshAct P F c kind t := by
  rcases step_cases P F c c' l h with ⟨k, t, hev, hen⟩ | ⟨_, x0, y, eff, hx0, hl, rfl⟩
  · obtain ⟨_, hnew, _, hk⟩ := enterAct_kind P F c c' l.act k t hen
    by_cases ha : a = l.act
    · subst ha; rw [hnew] at hx'; exact ⟨k, t, hev, rfl, (Option.some.inj hx').symm⟩
    · exfalso
      rcases hk with ⟨_, _, hoth⟩ | ⟨p, px, slot, _, hpx, _, _, hp', hoth⟩
      · rw [hoth a ha, hn] at hx'; cases hx'
      · by_cases hap : a = p
        · subst hap; rw [hn] at hpx; cases hpx
        · rw [hoth a ha hap, hn] at hx'; cases hx'
  · exfalso
    by_cases ha : a = l.act
    · subst ha; rw [hn] at hx0; cases hx0
    · rw [act?_set_other _ _ _ _ ha, act?_applyEff, hn] at hx'; cases hx'

theorem Evolves.done {x x' : Act} (h : Evolves x x') (hd : x.phase = .done) : x' = x := by
  cases h with
  | same e => exact e
  | loc F o ev eff hl => exact absurd hd (stepLocal_not_done F o x ev x' eff hl)
  | kid slot a _ _ hp =>
    rcases hp with hp | ⟨i, d, hp⟩ <;> rw [hd] at hp <;> cases hp

theorem Evolves.exFin {x x' : Act} (h : Evolves x x') (hf : exFin x.phase = true) :
    exFin x'.phase = true ∧ x'.res = x.res := by
  cases h with
  | same e => subst e; exact ⟨hf, rfl⟩
  | loc F o ev eff hl => exact stepLocal_exFin F o x ev x' eff hl hf
  | kid slot a e _ _ => subst e; exact ⟨hf, rfl⟩

theorem Evolves.exFin_out {x x' : Act} (h : Evolves x x') (hf : Sched.exFin x.phase = true) : x'.out = x.out := by
  cases h with
  | same e => subst e; rfl
  | loc F o ev eff hl => exact stepLocal_exFin_out F o x ev x' eff hl hf
  | kid slot a e _ _ => subst e; rfl

/-- identity fields never change -/
theorem Evolves.ident {x x' : Act} (h : Evolves x x') :
    x'.def_ = x.def_ ∧ x'.kind = x.kind ∧ x'.task = x.task ∧ x'.indirect = x.indirect := by
  cases h with
  | same e => subst e; exact ⟨rfl, rfl, rfl, rfl⟩
  | loc F o ev eff hl => exact (stepLocal_frame F o x ev x' eff hl).2
  | kid slot a e _ _ => subst e; exact ⟨rfl, rfl, rfl, rfl⟩

/-- a kid recorded under a slot stays recorded under that slot -/
theorem Evolves.kids {x x' : Act} (h : Evolves x x') (s id : Nat) (hk : x.kids.lookup s = some id) :
    x'.kids.lookup s = some id := by
  cases h with
  | same e => subst e; exact hk
  | loc F o ev eff hl => rw [(stepLocal_frame F o x ev x' eff hl).1]; exact hk
  | kid slot a e hs _ =>
    subst e
    have : s ≠ slot := by intro e; subst e; rw [hk] at hs; cases hs
    show List.lookup s ((slot, a) :: x.kids) = some id
    rw [lookup_cons_ne _ _ _ _ this]; exact hk

theorem Evolves.kids_mem {x x' : Act} (h : Evolves x x') (e : Nat × Nat) (hk : e ∈ x.kids) : e ∈ x'.kids := by
  cases h with
  | same e => subst e; exact hk
  | loc F o ev eff hl => rw [(stepLocal_frame F o x ev x' eff hl).1]; exact hk
  | kid slot a e hs _ => subst e; exact List.mem_cons_of_mem _ hk

/-! ### stability of what other activations observe -/

theorem kidDone_eq_some (c : Config) (id : Nat) (r : Res) :
    kidDone c id = some r ↔ ∃ k, c.act? id = some k ∧ k.phase = .done ∧ k.res = r := by
  unfold kidDone
  constructor
  · intro h
    split at h
    · rename_i k hk
      split at h
      · rename_i hp; exact ⟨k, hk, hp, Option.some.inj h⟩
      · cases h
    · cases h
  · rintro ⟨k, hk, hp, hr⟩
    rw [hk]; simp [hp, hr]

/-- **an activation that has exited never changes again** -/
theorem step_done (P : Program) (F : Flags) (c c' : Config) (l : Label) (h : step P F c l = some c')
    (id : Nat) (k : Act) (hk : c.act? id = some k) (hd : k.phase = .done) : c'.act? id = some k := by
  obtain ⟨k', hk', he⟩ := step_evolves P F c c' l h id k hk
  rw [hk', he.done hd]

theorem step_kidDone (P : Program) (F : Flags) (c c' : Config) (l : Label) (h : step P F c l = some c')
    (id : Nat) (r : Res) (hk : kidDone c id = some r) : kidDone c' id = some r := by
  rw [kidDone_eq_some] at hk ⊢
  obtain ⟨k, hk, hd, hr⟩ := hk
  exact ⟨k, step_done P F c c' l h id k hk hd, hd, hr⟩

/-- `execs` only grows, by `register k` of a so far unregistered `k`, binding it to the registering activation -/
theorem step_execs (P : Program) (F : Flags) (c c' : Config) (l : Label) (h : step P F c l = some c') :
    (c'.execs = c.execs ∧ ∀ k, l.ev ≠ .register k) ∨
    (∃ k, l.ev = .register k ∧ c.execs.lookup k = none ∧ c'.execs = (k, l.act) :: c.execs) := by
  rcases step_cases P F c c' l h with ⟨k, t, he, hen⟩ | ⟨_, x, y, eff, hx, hl, rfl⟩
  · left
    exact ⟨(enterAct_kind P F c c' l.act k t hen).2.2.1, by intro k'; rw [he]; intro e; cases e⟩
  · rcases stepLocal_key F _ x l.ev y eff hl with ⟨_, h2, h3⟩ | ⟨k, h1, h2, _, h4, _⟩
    · left
      refine ⟨?_, h3⟩
      cases eff with
      | reg k => exact absurd rfl (h2 k)
      | none => rfl
      | acq => rfl
      | rel => rfl
      | wait k => rfl
    · right
      subst h2
      refine ⟨k, h1, ?_, rfl⟩
      simp only [obsOf] at h4
      cases hl : c.execs.lookup k with
      | none => rfl
      | some v => rw [hl] at h4; cases h4

theorem step_execs_lookup (P : Program) (F : Flags) (c c' : Config) (l : Label) (h : step P F c l = some c')
    (k e : Nat) (hk : c.execs.lookup k = some e) : c'.execs.lookup k = some e := by
  rcases step_execs P F c c' l h with ⟨h1, _⟩ | ⟨k', _, h2, h3⟩
  · rw [h1]; exact hk
  · have : k ≠ k' := by intro e'; subst e'; rw [hk] at h2; cases h2
    rw [h3, lookup_cons_ne _ _ _ _ this]; exact hk

theorem execResultOf_eq_some (c : Config) (k : Nat) (r : Outcome) :
    execResultOf c (some k) = some r ↔
      ∃ e ex, c.execs.lookup k = some e ∧ c.act? e = some ex ∧ exFin ex.phase = true ∧ ex.out = r := by
  unfold execResultOf
  constructor
  · intro h
    simp only at h
    split at h
    · cases h
    · rename_i e he
      split at h
      · cases h
      · rename_i ex hex
        split at h
        · rename_i hp
          refine ⟨e, ex, he, hex, ?_, Option.some.inj h⟩
          simp only [Bool.or_eq_true, decide_eq_true_eq] at hp
          rcases hp with (hp | hp) | hp <;> rw [hp] <;> rfl
        · cases h
  · rintro ⟨e, ex, he, hex, hp, hr⟩
    simp only [he, hex]
    have : ex.phase = .execDoneP ∨ ex.phase = .released ∨ ex.phase = .done := by
      revert hp; cases ex.phase <;> simp [exFin]
    rw [if_pos (by rcases this with h | h | h <;> simp [h])]
    rw [hr]

/-- **the outcome of a finished registered execution is stable** -/
theorem step_execResultOf (P : Program) (F : Flags) (c c' : Config) (l : Label) (h : step P F c l = some c')
    (k : Nat) (r : Outcome) (hk : execResultOf c (some k) = some r) : execResultOf c' (some k) = some r := by
  rw [execResultOf_eq_some] at hk ⊢
  obtain ⟨e, ex, he, hex, hp, hr⟩ := hk
  obtain ⟨ex', hex', hev⟩ := step_evolves P F c c' l h e ex hex
  obtain ⟨hp', _⟩ := hev.exFin hp
  exact ⟨e, ex', step_execs_lookup P F c c' l h k e he, hex', hp', (hev.exFin_out hp).trans hr⟩

/-- `depResults` only depends on the kids table of the parent and on which kids are done:
it survives any change that keeps recorded kids and keeps done kids done -/
theorem depResults_mono (c c' : Config) (x x' : Act)
    (hk : ∀ id r, kidDone c id = some r → kidDone c' id = some r)
    (hx : ∀ s id, x.kids.lookup s = some id → x'.kids.lookup s = some id)
    (n j : Nat) (rs : List Res) (h : depResults c x n j = some rs) : depResults c' x' n j = some rs := by
  induction n generalizing j rs with
  | zero => exact h
  | succ n ih =>
    simp only [depResults] at h ⊢
    split at h
    · cases h
    · rename_i id hid
      rw [hx _ _ hid]
      simp only
      split at h
      · rename_i r rs' hr hrs
        rw [hk _ _ hr, ih _ _ hrs]
        exact h
      · cases h

theorem step_depResults (P : Program) (F : Flags) (c c' : Config) (l : Label) (h : step P F c l = some c')
    (b : Nat) (x : Act) (hx : c.act? b = some x) (n j : Nat) (rs : List Res)
    (hr : depResults c x n j = some rs) :
    ∃ x', c'.act? b = some x' ∧ Evolves x x' ∧ depResults c' x' n j = some rs := by
  obtain ⟨x', hx', he⟩ := step_evolves P F c c' l h b x hx
  exact ⟨x', hx', he, depResults_mono c c' x x' (step_kidDone P F c c' l h) he.kids n j rs hr⟩

/-- what a successful `depResults` says slot by slot -/
theorem depResults_spec (c : Config) (x : Act) (n j0 : Nat) (rs : List Res) (h : depResults c x n j0 = some rs) :
    rs.length = n ∧ ∀ j, j0 ≤ j → j < j0 + n →
      ∃ id r, x.kids.lookup (slotOfDep j) = some id ∧ kidDone c id = some r ∧ r ∈ rs := by
  induction n generalizing j0 rs with
  | zero =>
    simp only [depResults] at h
    cases h
    exact ⟨rfl, by intro j h1 h2; omega⟩
  | succ n ih =>
    simp only [depResults] at h
    split at h
    · cases h
    · rename_i id hid
      split at h
      · rename_i r rs' hr hrs
        cases h
        obtain ⟨hlen, hall⟩ := ih _ _ hrs
        refine ⟨by simp [hlen], ?_⟩
        intro j h1 h2
        by_cases hj : j = j0
        · subst hj; exact ⟨id, r, hid, hr, List.mem_cons_self⟩
        · obtain ⟨id', r', a1, a2, a3⟩ := hall j (by omega) (by omega)
          exact ⟨id', r', a1, a2, List.mem_cons_of_mem _ a3⟩
      · cases h

/-! ### lifting to `replay` -/

theorem replay_stable (P : Program) (F : Flags) (Q : Config → Prop)
    (hstep : ∀ c l c', Q c → step P F c l = some c' → Q c')
    (c : Config) (tr : List Label) (c' : Config) (h0 : Q c) (h : replay P F c tr = some c') : Q c' :=
  replay_inv P F Q hstep c tr c' h0 h

theorem replay_done (P : Program) (F : Flags) (c c' : Config) (tr : List Label) (h : replay P F c tr = some c')
    (id : Nat) (k : Act) (hk : c.act? id = some k) (hd : k.phase = .done) : c'.act? id = some k :=
  replay_inv P F (fun c => c.act? id = some k) (fun c l c' hq hs => step_done P F c c' l hs id k hq hd) c tr c' hk h

theorem replay_execResultOf (P : Program) (F : Flags) (c c' : Config) (tr : List Label)
    (h : replay P F c tr = some c') (k : Nat) (r : Outcome) (hk : execResultOf c (some k) = some r) :
    execResultOf c' (some k) = some r :=
  replay_inv P F (fun c => execResultOf c (some k) = some r)
    (fun c l c' hq hs => step_execResultOf P F c c' l hs k r hq) c tr c' hk h

theorem replay_execs_lookup (P : Program) (F : Flags) (c c' : Config) (tr : List Label)
    (h : replay P F c tr = some c') (k e : Nat) (hk : c.execs.lookup k = some e) : c'.execs.lookup k = some e :=
  replay_inv P F (fun c => c.execs.lookup k = some e)
    (fun c l c' hq hs => step_execs_lookup P F c c' l hs k e hq) c tr c' hk h

/-- the identity of an activation (its task definition, kind, …) is fixed at `enter` -/
theorem replay_ident (P : Program) (F : Flags) (c c' : Config) (tr : List Label) (h : replay P F c tr = some c')
    (a : Nat) (x : Act) (hx : c.act? a = some x) :
    ∃ x', c'.act? a = some x' ∧ x'.def_ = x.def_ ∧ x'.kind = x.kind ∧ x'.task = x.task ∧ x'.indirect = x.indirect := by
  refine replay_inv P F (fun c => ∃ x', c.act? a = some x' ∧ x'.def_ = x.def_ ∧ x'.kind = x.kind ∧
      x'.task = x.task ∧ x'.indirect = x.indirect) ?_ c tr c' ⟨x, hx, rfl, rfl, rfl, rfl⟩ h
  rintro c l c' ⟨x1, h1, e1, e2, e3, e4⟩ hs
  obtain ⟨x2, h2, hev⟩ := step_evolves P F c c' l hs a x1 h1
  obtain ⟨f1, f2, f3, f4⟩ := hev.ident
  exact ⟨x2, h2, f1.trans e1, f2.trans e2, f3.trans e3, f4.trans e4⟩

end TaskModel.Sched
