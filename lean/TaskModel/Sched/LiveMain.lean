import TaskModel.Sched.LiveOrder
/-!
Sched.LiveMain — deadlock freedom of the executor model for acyclic programs.

In a reachable configuration, an activation that has not returned either can move, or
waits for a slot (then a slot is free, or some holder can move), or waits for another
activation that has not returned and is strictly smaller in the lexicographic measure
(`2 * rank task + [is a dedup waiter]`, creation order reversed) — so by induction some
label is accepted.  The rank need only decrease along references from or to deduplicated
tasks (`SemiRankOk`): cycles through `run: always` tasks are covered.
-/
namespace TaskModel.Sched.S7

/-! ### from `stepLocal` to `step`, fresh ids -/

theorem step_of_local (P : Program) (F : Flags) (c : Config) (a : Nat) (x : Act) (ev : Ev)
    (hx : c.act? a = some x) (h : (stepLocal F (obsOf F c a x) x ev).isSome = true) :
    (step P F c ⟨a, ev⟩).isSome = true := by
  have hne : ∀ k t, ev ≠ .enter k t := by
    intro k t e; rw [e] at h; simp [stepLocal] at h
  cases hs : stepLocal F (obsOf F c a x) x ev with
  | none => rw [hs] at h; cases h
  | some p =>
    obtain ⟨y, eff⟩ := p
    unfold step
    split
    · rename_i k t he; exact absurd he (hne k t)
    · simp [hx, hs]

def maxKey : List (Nat × Act) → Nat
  | [] => 0
  | p :: l => max p.1 (maxKey l)

theorem lookup_le_maxKey : ∀ (l : List (Nat × Act)) (a : Nat) (x : Act), l.lookup a = some x → a ≤ maxKey l := by
  intro l
  induction l with
  | nil => intro a x h; cases h
  | cons p l ih =>
    intro a x h
    obtain ⟨k, v⟩ := p
    simp only [List.lookup] at h
    simp only [maxKey]
    split at h
    · rename_i he; have : a = k := beq_iff_eq.mp he; omega
    · have := ih a x h; omega

theorem fresh_id (c : Config) : c.act? (maxKey c.acts + 1) = none := by
  cases h : c.act? (maxKey c.acts + 1) with
  | none => rfl
  | some x => have := lookup_le_maxKey c.acts _ x h; omega

/-- a dependency that has not been started may enter while its parent waits for its dependencies -/
theorem dep_enter_enabled (P : Program) (F : Flags) (c : Config) (p : Nat) (px : Act) (j t : Nat)
    (hp : c.act? p = some px) (hph : px.phase = .depsWait)
    (hslot : px.kids.lookup (slotOfDep j) = none) (hdep : px.def_.deps[j]? = some t) :
    ∃ l, (step P F c l).isSome = true := by
  refine ⟨⟨maxKey c.acts + 1, .enter (.dep p j) t⟩, ?_⟩
  simp [step, enterAct, fresh_id c, enterCheck, hp, hph, hslot, hdep]

/-- the callee of a `task:` command may enter while the caller waits for it -/
theorem call_enter_enabled (P : Program) (F : Flags) (c : Config) (p : Nat) (px : Act) (i : Nat) (d : Bool) (t : Nat)
    (hp : c.act? p = some px) (hph : px.phase = .inCall i d)
    (hslot : px.kids.lookup (slotOfCall px i) = none) (hcmd : px.def_.cmds[i]? = some (.call t d)) :
    ∃ l, (step P F c l).isSome = true := by
  refine ⟨⟨maxKey c.acts + 1, .enter (.call p i d) t⟩, ?_⟩
  simp [step, enterAct, fresh_id c, enterCheck, hp, hph, hslot, hcmd]

/-! ### the non-blocking phases -/

theorem exists_not_ok : ∀ (rs : List Res), rs.all Res.isOk = false → ∃ r ∈ rs, r.isOk = false := by
  intro rs
  induction rs with
  | nil => intro h; cases h
  | cons r rs ih =>
    intro h
    simp only [List.all_cons, Bool.and_eq_false_iff] at h
    rcases h with h | h
    · exact ⟨r, List.mem_cons_self, h⟩
    · obtain ⟨r', hr', hn⟩ := ih h
      exact ⟨r', List.mem_cons_of_mem _ hr', hn⟩

theorem depsJoined_enabled (F : Flags) (o : Obs) (x : Act) (hp : x.phase = .depsJoined) (rs : List Res)
    (ho : o.deps () = some rs) : ∃ r, (stepLocal F o x (.depsDone r)).isSome = true := by
  by_cases hall : rs.all Res.isOk = true
  · exact ⟨.ok, by simp [stepLocal, hp, ho, hall, Res.isOk]⟩
  · have : ∃ r ∈ rs, r.isOk = false := exists_not_ok rs (by simpa using hall)
    obtain ⟨r, hr, hnok⟩ := this
    refine ⟨r, ?_⟩
    have hc : rs.contains r = true := List.contains_iff_mem.mpr hr
    simp only [stepLocal, hp, ho, hnok, hc]
    simp

theorem nonblocking_moves (P : Program) (F : Flags) (c : Config) (hl : Live P c) (a : Nat) (x : Act)
    (hx : c.act? a = some x) (hnd : x.phase ≠ .done) (hn : waitsOn x.phase = .nothing) :
    ∃ l, (step P F c l).isSome = true := by
  have hloc := hl.loc a x hx
  by_cases h1 : x.phase = .acquired
  · exact ⟨_, step_of_local P F c a x _ hx (acquired_enabled F (obsOf F c a x) x 0 h1)⟩
  · by_cases h2 : x.phase = .depsJoined
    · have hj := hl.joined a x hx h2
      cases hd : depResults c x x.def_.deps.length 0 with
      | none => rw [hd] at hj; cases hj
      | some rs =>
        obtain ⟨r, hr⟩ := depsJoined_enabled F (obsOf F c a x) x h2 rs hd
        exact ⟨_, step_of_local P F c a x _ hx hr⟩
    · exact ⟨_, step_of_local P F c a x _ hx (nonblocking_enabled F (obsOf F c a x) x hloc.wf hnd hn h1 h2)⟩

theorem holder_moves (P : Program) (F : Flags) (c : Config) (hl : Live P c) (a : Nat) (x : Act)
    (hx : c.act? a = some x) (hh : x.holds = true) : ∃ l, (step P F c l).isSome = true := by
  have hp : holdPhase x.phase = true := by rw [← (hl.loc a x hx).holds]; exact hh
  apply nonblocking_moves P F c hl a x hx
  · intro e; rw [e] at hp; cases hp
  · revert hp; cases x.phase <;> simp [holdPhase, waitsOn]

/-- if no slot is free, some activation holds one (and can move) -/
theorem slot_or_holder (P : Program) (F : Flags) (c : Config) (tr : List Label) (hl : Live P c)
    (ht : TokInv c tr) (hcap : F.cap ≠ some 0) :
    capFree F c = true ∨ ∃ l, (step P F c l).isSome = true := by
  cases hf : capFree F c with
  | true => exact .inl rfl
  | false =>
    right
    unfold capFree at hf
    cases hc : F.cap with
    | none => rw [hc] at hf; cases hf
    | some N =>
      rw [hc] at hf
      simp only [decide_eq_false_iff_not, Nat.not_lt] at hf
      have hN : N ≠ 0 := by intro e; subst e; exact hcap hc
      have hpos : 0 < holders c (actIds tr) := by rw [← ht.2.2]; omega
      unfold holders cnt at hpos
      obtain ⟨a, _, ha⟩ := List.countP_pos_iff.mp hpos
      unfold actB at ha
      cases hx : c.act? a with
      | none => rw [hx] at ha; cases ha
      | some x =>
        rw [hx] at ha
        exact holder_moves P F c hl a x hx ha

/-! ### what a blocked activation waits for -/

theorem depResults_none (c : Config) (x : Act) : ∀ (n j : Nat), depResults c x n j = none →
    ∃ j', j ≤ j' ∧ j' < j + n ∧ (x.kids.lookup (slotOfDep j') = none ∨
      ∃ id, x.kids.lookup (slotOfDep j') = some id ∧ kidDone c id = none) := by
  intro n
  induction n with
  | zero => intro j h; cases h
  | succ n ih =>
    intro j h
    simp only [depResults] at h
    cases hl : x.kids.lookup (slotOfDep j) with
    | none => exact ⟨j, Nat.le_refl _, by omega, .inl hl⟩
    | some id =>
      rw [hl] at h
      simp only at h
      cases hk : kidDone c id with
      | none => exact ⟨j, Nat.le_refl _, by omega, .inr ⟨id, hl, hk⟩⟩
      | some r =>
        rw [hk] at h
        cases hd : depResults c x n (j + 1) with
        | none =>
          obtain ⟨j', h1, h2, h3⟩ := ih (j + 1) hd
          exact ⟨j', by omega, by omega, h3⟩
        | some rs => rw [hd] at h; cases h

def runOf (P : Program) (t : Nat) : RunMode := ((P[t]?).getD {}).run

/-- a rank that never increases along a reference (`deps:` or `task:`) and decreases along
every reference from or to a deduplicated (`run: once` / `when_changed`) task: no reference
cycle goes through a deduplicated task -/
def SemiRankOk (P : Program) (rank : Nat → Nat) : Prop :=
  ∀ t d, P[t]? = some d → ∀ u, (u ∈ d.deps ∨ ∃ dfr, Cmd.call u dfr ∈ d.cmds) →
    rank u ≤ rank t ∧ ((d.run ≠ .always ∨ runOf P u ≠ .always) → rank u < rank t)

theorem semiRank_of_rank (P : Program) (rank : Nat → Nat) (h : RankOk P rank) : SemiRankOk P rank := by
  intro t d hd u hu
  obtain ⟨h1, h2⟩ := h t d hd
  have : rank u < rank t := by
    rcases hu with hu | ⟨dfr, hu⟩
    · exact h1 u hu
    · exact h2 u dfr hu
  exact ⟨Nat.le_of_lt this, fun _ => this⟩

theorem semiRank_of_always (P : Program) (h : ∀ (t : Nat) (d : TaskDef), P[t]? = some d → d.run = .always) :
    SemiRankOk P (fun _ => 0) := by
  intro t d hd u _
  refine ⟨Nat.le_refl _, ?_⟩
  intro hne
  exfalso
  rcases hne with e | e
  · exact e (h t d hd)
  · apply e
    unfold runOf
    cases hu : P[u]? with
    | none => rfl
    | some du => exact h u du hu

theorem slot_rank (P : Program) (rank : Nat → Nat) (hr : SemiRankOk P rank) (x : Act)
    (hs : x.def_ = (P[x.task]?).getD {}) (s t : Nat) (hslot : slotFor x s t) :
    rank t ≤ rank x.task ∧ ((x.def_.run ≠ .always ∨ runOf P t ≠ .always) → rank t < rank x.task) := by
  cases hp : P[x.task]? with
  | none =>
    rw [hp] at hs
    unfold slotFor at hslot
    rw [hs] at hslot
    rcases hslot with h | ⟨i, d, _, h⟩ <;> simp at h
  | some d =>
    rw [hp] at hs
    simp only [Option.getD_some] at hs
    unfold slotFor at hslot
    rw [hs] at hslot ⊢
    apply hr x.task d hp t
    rcases hslot with h | ⟨i, dd, _, h⟩
    · exact .inl (List.mem_of_getElem? h)
    · exact .inr ⟨dd, List.mem_of_getElem? h⟩

theorem kid_not_done (c : Config) (id : Nat) (k : Act) (hk : c.act? id = some k) (hd : kidDone c id = none) :
    k.phase ≠ .done := by
  intro e
  unfold kidDone at hd
  rw [hk] at hd
  simp [e] at hd

/-- first component of the measure that decreases along "waits for" -/
def mfst (rank : Nat → Nat) (x : Act) : Nat := 2 * rank x.task + (if x.phase = .wReleased then 1 else 0)

/-- the measure: lexicographic in (`mfst`, creation order reversed) -/
def meas (rank : Nat → Nat) (ids : List Nat) (a : Nat) (x : Act) : Nat :=
  mfst rank x * (ids.length + 1) + (ids.length - pos a ids)

theorem meas_lt_fst (rank : Nat → Nat) (ids : List Nat) (a b : Nat) (x k : Act) (h : mfst rank k < mfst rank x) :
    meas rank ids b k < meas rank ids a x := by
  unfold meas
  have h1 : (mfst rank k + 1) * (ids.length + 1) ≤ mfst rank x * (ids.length + 1) := Nat.mul_le_mul_right _ h
  rw [Nat.add_mul] at h1
  omega

theorem meas_lt_pos (rank : Nat → Nat) (ids : List Nat) (a b : Nat) (x k : Act) (h : mfst rank k ≤ mfst rank x)
    (hp : pos a ids < pos b ids) (hb : pos b ids ≤ ids.length) : meas rank ids b k < meas rank ids a x := by
  unfold meas
  have h1 : mfst rank k * (ids.length + 1) ≤ mfst rank x * (ids.length + 1) := Nat.mul_le_mul_right _ h
  omega

/-! ### the main argument -/

theorem no_deadlock_aux (P : Program) (F : Flags) (rank : Nat → Nat) (hr : SemiRankOk P rank)
    (c : Config) (tr : List Label) (hl : Live P c) (htl : TraceLink c tr) (ht : TokInv c tr)
    (ho : OrderInv c tr) (hk : KeysByTask tr) (hcap : F.cap ≠ some 0) :
    ∀ (m : Nat) (a : Nat) (x : Act), c.act? a = some x → x.phase ≠ .done → meas rank (actIds tr) a x < m →
      ∃ l, (step P F c l).isSome = true := by
  intro m
  induction m with
  | zero => intro a x _ _ h; omega
  | succ m ih =>
    intro a x hx hnd hm
    have hloc := hl.loc a x hx
    have hslotfree := slot_or_holder P F c tr hl ht hcap
    -- a kid that has not returned is smaller
    have hkid : ∀ s id, x.kids.lookup s = some id → kidDone c id = none → ∃ l, (step P F c l).isSome = true := by
      intro s id hlk hkd
      obtain ⟨k, hkk, hsl⟩ := hl.kids a x s id hx hlk
      obtain ⟨hidin, hpos⟩ := ho a x s id hx hlk
      obtain ⟨hle, hstrict⟩ := slot_rank P rank hr x hloc.static s k.task hsl
      have hkloc := hl.loc id k hkk
      have hlt : meas rank (actIds tr) id k < meas rank (actIds tr) a x := by
        by_cases hkw : k.phase = .wReleased
        · have hne := hkloc.keys.waiter (by rw [hkw]; rfl)
          have hrun : runOf P k.task ≠ .always := by
            unfold runOf; rw [← hkloc.static]; exact hkloc.dedup hne
          have := hstrict (.inr hrun)
          apply meas_lt_fst
          unfold mfst; rw [if_pos hkw]; split <;> omega
        · apply meas_lt_pos _ _ _ _ _ _ _ hpos (pos_le _ _)
          unfold mfst; rw [if_neg hkw]; split <;> omega
      exact ih id k hkk (kid_not_done c id k hkk hkd) (by omega)
    cases hp : x.phase with
    | done => exact absurd hp hnd
    | entered =>
      rcases hslotfree with hf | hmv
      · exact ⟨_, step_of_local P F c a x .acquire hx (by rw [wait_entered F _ x hp]; exact hf)⟩
      · exact hmv
    | wWoken =>
      rcases hslotfree with hf | hmv
      · exact ⟨_, step_of_local P F c a x .wReacq hx (by rw [wait_wWoken F _ x hp]; exact hf)⟩
      · exact hmv
    | callReturned i d =>
      rcases hslotfree with hf | hmv
      · exact ⟨_, step_of_local P F c a x (.callReacq i) hx (by rw [wait_callReturned F _ x i d hloc.wf hp]; exact hf)⟩
      · exact hmv
    | depsWait =>
      cases hd : depResults c x x.def_.deps.length 0 with
      | some rs =>
        rcases hslotfree with hf | hmv
        · refine ⟨_, step_of_local P F c a x .depsReacq hx ?_⟩
          rw [wait_depsWait F _ x hp]
          have : ((obsOf F c a x).deps ()) = some rs := hd
          rw [this]; exact hf
        · exact hmv
      | none =>
        obtain ⟨j', _, hj2, hcase⟩ := depResults_none c x _ _ hd
        rcases hcase with hnone | ⟨id, hsome, hkd⟩
        · have hlt : j' < x.def_.deps.length := by omega
          exact dep_enter_enabled P F c a x j' _ hx hp hnone (List.getElem?_eq_getElem hlt)
        · exact hkid _ id hsome hkd
    | inCall i d =>
      cases hlk : x.kids.lookup (slotOfCall x i) with
      | none =>
        obtain ⟨t, hcmd⟩ := hloc.call i d hp
        exact call_enter_enabled P F c a x i d t hx hp hlk hcmd
      | some id =>
        cases hkd : kidDone c id with
        | none => exact hkid _ id hlk hkd
        | some r =>
          refine ⟨_, step_of_local P F c a x (.callRet i) hx ?_⟩
          rw [wait_inCall F _ x i d hp]
          have : (obsOf F c a x).callKid () = some r := by
            simp [obsOf, callKidOf, hp, hlk, hkd]
          rw [this]; rfl
    | wReleased =>
      have hwne := hloc.keys.waiter (by rw [hp]; rfl)
      cases hw : x.waitsFor with
      | none => exact absurd hw hwne
      | some k =>
        have hreg := hl.waits a x k hx hw
        cases he : c.execs.lookup k with
        | none => rw [he] at hreg; cases hreg
        | some e =>
          obtain ⟨ex, hex, hkey⟩ := hl.execs k e he
          by_cases hfin : ex.phase = .execDoneP ∨ ex.phase = .released ∨ ex.phase = .done
          · refine ⟨_, step_of_local P F c a x .wWake hx ?_⟩
            rw [wait_wReleased F _ x hp]
            have : (obsOf F c a x).execResult () = some ex.out := by
              simp only [obsOf, execResultOf, hw, he, hex]
              rcases hfin with e' | e' | e' <;> simp [e']
            rw [this]; rfl
          · have hexnd : ex.phase ≠ .done := fun e' => hfin (.inr (.inr e'))
            have htask := keys_same_task c tr hk htl a x k hx hw e ex hex hkey
            have hexw : ex.phase ≠ .wReleased := by
              intro e'
              have h1 := (hl.loc e ex hex).keys.excl (by rw [hkey]; simp)
              exact (hl.loc e ex hex).keys.waiter (by rw [e']; rfl) h1
            have hlt : meas rank (actIds tr) e ex < meas rank (actIds tr) a x := by
              apply meas_lt_fst
              unfold mfst; rw [htask, if_neg hexw, if_pos hp]; omega
            exact ih e ex hex hexnd (by omega)
    | early => exact nonblocking_moves P F c hl a x hx hnd (by rw [hp]; rfl)
    | acquired => exact nonblocking_moves P F c hl a x hx hnd (by rw [hp]; rfl)
    | wWaiting => exact nonblocking_moves P F c hl a x hx hnd (by rw [hp]; rfl)
    | exec => exact nonblocking_moves P F c hl a x hx hnd (by rw [hp]; rfl)
    | depsJoined => exact nonblocking_moves P F c hl a x hx hnd (by rw [hp]; rfl)
    | guards => exact nonblocking_moves P F c hl a x hx hnd (by rw [hp]; rfl)
    | body => exact nonblocking_moves P F c hl a x hx hnd (by rw [hp]; rfl)
    | inShell i d => exact nonblocking_moves P F c hl a x hx hnd (by rw [hp]; rfl)
    | defers => exact nonblocking_moves P F c hl a x hx hnd (by rw [hp]; rfl)
    | finished => exact nonblocking_moves P F c hl a x hx hnd (by rw [hp]; rfl)
    | execDoneP => exact nonblocking_moves P F c hl a x hx hnd (by rw [hp]; rfl)
    | released => exact nonblocking_moves P F c hl a x hx hnd (by rw [hp]; rfl)

/-- **deadlock freedom**: for a program without reference cycle through a deduplicated task,
at least one slot and dedup keys that identify the task, every reachable configuration in
which some activation has not returned accepts a label -/
theorem no_deadlock (P : Program) (F : Flags) (rank : Nat → Nat) (hr : SemiRankOk P rank) (n : Nat)
    (tr : List Label) (c : Config) (hcap : F.cap ≠ some 0) (hk : KeysByTask tr)
    (h : replay P F (init n) tr = some c) (a : Nat) (x : Act) (hx : c.act? a = some x)
    (hnd : x.phase ≠ .done) : ∃ l, (step P F c l).isSome = true := by
  obtain ⟨hl, htl, ht⟩ := live_trace_reach P F n tr c h
  exact no_deadlock_aux P F rank hr c tr hl htl ht (orderInv_reach P F n tr c h) hk hcap
    (meas rank (actIds tr) a x + 1) a x hx hnd (Nat.lt_succ_self _)

end TaskModel.Sched.S7
