import TaskModel.Sched.LiveOrder
/-!
Sched.LiveMain — the building blocks of deadlock freedom (the theorem itself is
`no_deadlock_all` in `LiveAll.lean`): fresh ids, when a dependency / a callee / a call of
`Run` may enter, the phases that never block, "no free slot ⇒ some holder can move", what a
blocked dependency join waits for.
-/
namespace TaskModel.Sched.S7

/-! ### from `stepLocal` to `step`, fresh ids -/

theorem step_of_local (P : Program) (F : Flags) (c : Config) (a : Nat) (x : Act) (ev : Ev)
    (hx : c.act? a = some x) (h : (stepLocal F (obsOf F c a x) x ev).isSome = true) :
    (step P F c ⟨a, ev⟩).isSome = true := by
  have hne : ∀ k t, ev ≠ .enter k t := by
    intro k t e; rw [e] at h; simp [stepLocal] at h
  cases hs : stepLocal F (obsOf F c a x) x ev with
  | none => rw [hs] at h; cases h
  | some p =>
    obtain ⟨y, eff⟩ := p
    unfold step
    split
    · rename_i k t he; exact absurd he (hne k t)
    · simp [hx, hs]

def maxKey : List (Nat × Act) → Nat
  | [] => 0
  | p :: l => max p.1 (maxKey l)

theorem lookup_le_maxKey : ∀ (l : List (Nat × Act)) (a : Nat) (x : Act), l.lookup a = some x → a ≤ maxKey l := by
  intro l
  induction l with
  | nil => intro a x h; cases h
  | cons p l ih =>
    intro a x h
    obtain ⟨k, v⟩ := p
    simp only [List.lookup] at h
    simp only [maxKey]
    split at h
    · rename_i he; have : a = k := beq_iff_eq.mp he; omega
    · have := ih a x h; omega

theorem fresh_id (c : Config) : c.act? (maxKey c.acts + 1) = none := by
  cases h : c.act? (maxKey c.acts + 1) with
  | none => rfl
  | some x => have := lookup_le_maxKey c.acts _ x h; omega

/-- a dependency that has not been started may enter while its parent waits for its dependencies -/
theorem dep_enter_enabled (P : Program) (F : Flags) (c : Config) (p : Nat) (px : Act) (j t : Nat)
    (hp : c.act? p = some px) (hph : px.phase = .depsWait)
    (hslot : px.kids.lookup (slotOfDep j) = none) (hdep : px.def_.deps[j]? = some t) :
    ∃ l, (step P F c l).isSome = true := by
  refine ⟨⟨maxKey c.acts + 1, .enter (.dep p j) t⟩, ?_⟩
  simp [step, enterAct, fresh_id c, enterCheck, hp, hph, hslot, hdep]

/-- the callee of a `task:` command may enter while the caller waits for it -/
theorem call_enter_enabled (P : Program) (F : Flags) (c : Config) (p : Nat) (px : Act) (i : Nat) (d : Bool) (t : Nat)
    (hp : c.act? p = some px) (hph : px.phase = .inCall i d)
    (hslot : px.kids.lookup (slotOfCall px i) = none) (hcmd : px.def_.cmds[i]? = some (.call t d)) :
    ∃ l, (step P F c l).isSome = true := by
  refine ⟨⟨maxKey c.acts + 1, .enter (.call p i d) t⟩, ?_⟩
  simp [step, enterAct, fresh_id c, enterCheck, hp, hph, hslot, hcmd]

/-! ### the non-blocking phases -/

theorem exists_not_ok : ∀ (rs : List Res), rs.all Res.isOk = false → ∃ r ∈ rs, r.isOk = false := by
  intro rs
  induction rs with
  | nil => intro h; cases h
  | cons r rs ih =>
    intro h
    simp only [List.all_cons, Bool.and_eq_false_iff] at h
    rcases h with h | h
    · exact ⟨r, List.mem_cons_self, h⟩
    · obtain ⟨r', hr', hn⟩ := ih h
      exact ⟨r', List.mem_cons_of_mem _ hr', hn⟩

theorem depsJoined_enabled (F : Flags) (o : Obs) (x : Act) (hp : x.phase = .depsJoined) (rs : List Res)
    (ho : o.deps () = some rs) : ∃ r, (stepLocal F o x (.depsDone r)).isSome = true := by
  by_cases hall : rs.all Res.isOk = true
  · exact ⟨.ok, by simp [stepLocal, hp, ho, hall, Res.isOk]⟩
  · have : ∃ r ∈ rs, r.isOk = false := exists_not_ok rs (by simpa using hall)
    obtain ⟨r, hr, hnok⟩ := this
    refine ⟨r, ?_⟩
    have hc : rs.contains r = true := List.contains_iff_mem.mpr hr
    simp only [stepLocal, hp, ho, hnok, hc]
    simp

theorem nonblocking_moves (P : Program) (F : Flags) (c : Config) (hl : Live P c) (a : Nat) (x : Act)
    (hx : c.act? a = some x) (hnd : x.phase ≠ .done) (hn : waitsOn x.phase = .nothing) :
    ∃ l, (step P F c l).isSome = true := by
  have hloc := hl.loc a x hx
  by_cases h1 : x.phase = .acquired
  · exact ⟨_, step_of_local P F c a x _ hx (acquired_enabled F (obsOf F c a x) x 0 h1)⟩
  · by_cases h2 : x.phase = .depsJoined
    · have hj := hl.joined a x hx h2
      cases hd : depResults c x x.def_.deps.length 0 with
      | none => rw [hd] at hj; cases hj
      | some rs =>
        obtain ⟨r, hr⟩ := depsJoined_enabled F (obsOf F c a x) x h2 rs hd
        exact ⟨_, step_of_local P F c a x _ hx hr⟩
    · exact ⟨_, step_of_local P F c a x _ hx (nonblocking_enabled F (obsOf F c a x) x hloc.wf hnd hn h1 h2)⟩

theorem holder_moves (P : Program) (F : Flags) (c : Config) (hl : Live P c) (a : Nat) (x : Act)
    (hx : c.act? a = some x) (hh : x.holds = true) : ∃ l, (step P F c l).isSome = true := by
  have hp : holdPhase x.phase = true := by rw [← (hl.loc a x hx).holds]; exact hh
  apply nonblocking_moves P F c hl a x hx
  · intro e; rw [e] at hp; cases hp
  · revert hp; cases x.phase <;> simp [holdPhase, waitsOn]

/-- if no slot is free, some activation holds one (and can move) -/
theorem slot_or_holder (P : Program) (F : Flags) (c : Config) (tr : List Label) (hl : Live P c)
    (ht : TokInv c tr) (hcap : F.cap ≠ some 0) :
    capFree F c = true ∨ ∃ l, (step P F c l).isSome = true := by
  cases hf : capFree F c with
  | true => exact .inl rfl
  | false =>
    right
    unfold capFree at hf
    cases hc : F.cap with
    | none => rw [hc] at hf; cases hf
    | some N =>
      rw [hc] at hf
      simp only [decide_eq_false_iff_not, Nat.not_lt] at hf
      have hN : N ≠ 0 := by intro e; subst e; exact hcap hc
      have hpos : 0 < holders c (actIds tr) := by rw [← ht.2.2]; omega
      unfold holders cnt at hpos
      obtain ⟨a, _, ha⟩ := List.countP_pos_iff.mp hpos
      unfold actB at ha
      cases hx : c.act? a with
      | none => rw [hx] at ha; cases ha
      | some x =>
        rw [hx] at ha
        exact holder_moves P F c hl a x hx ha

/-! ### what a blocked activation waits for -/

theorem depResults_none (c : Config) (x : Act) : ∀ (n j : Nat), depResults c x n j = none →
    ∃ j', j ≤ j' ∧ j' < j + n ∧ (x.kids.lookup (slotOfDep j') = none ∨
      ∃ id, x.kids.lookup (slotOfDep j') = some id ∧ kidDone c id = none) := by
  intro n
  induction n with
  | zero => intro j h; cases h
  | succ n ih =>
    intro j h
    simp only [depResults] at h
    cases hl : x.kids.lookup (slotOfDep j) with
    | none => exact ⟨j, Nat.le_refl _, by omega, .inl hl⟩
    | some id =>
      rw [hl] at h
      simp only at h
      cases hk : kidDone c id with
      | none => exact ⟨j, Nat.le_refl _, by omega, .inr ⟨id, hl, hk⟩⟩
      | some r =>
        rw [hk] at h
        cases hd : depResults c x n (j + 1) with
        | none =>
          obtain ⟨j', h1, h2, h3⟩ := ih (j + 1) hd
          exact ⟨j', by omega, by omega, h3⟩
        | some rs => rw [hd] at h; cases h

theorem kid_not_done (c : Config) (id : Nat) (k : Act) (hk : c.act? id = some k) (hd : kidDone c id = none) :
    k.phase ≠ .done := by
  intro e
  unfold kidDone at hd
  rw [hk] at hd
  simp [e] at hd

end TaskModel.Sched.S7
