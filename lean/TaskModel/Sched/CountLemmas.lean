import TaskModel.Sched.TokenLemmas
/-!
Sched.CountLemmas — counting activations.

The activation table is an association list with shadowing, so activations are counted
over the list of their ids in order of creation, `actIds tr`: invariants indexed by the
accepted trace (`replay_inv_tr`), the ids are distinct and are exactly the bound ids
(`IdsInv`), and a step changes the count of a per-activation predicate only through the
activation it names (`cnt_local`, `cnt_enter`).
-/
namespace TaskModel.Sched.S7

theorem actIds_append (t1 t2 : List Label) : actIds (t1 ++ t2) = actIds t1 ++ actIds t2 := by
  induction t1 with
  | nil => rfl
  | cons l ls ih => simp only [List.cons_append, actIds]; split <;> simp [ih]

theorem actIds_snoc_enter (tr : List Label) (l : Label) (k : Kind) (t : Nat) (he : l.ev = .enter k t) :
    actIds (tr ++ [l]) = actIds tr ++ [l.act] := by
  rw [actIds_append]; simp [actIds, he]

theorem actIds_snoc_other (tr : List Label) (l : Label) (hne : ∀ k t, l.ev ≠ .enter k t) :
    actIds (tr ++ [l]) = actIds tr := by
  rw [actIds_append]
  have : actIds [l] = [] := by
    cases hev : l.ev with
    | enter k t => exact absurd hev (hne k t)
    | _ => simp [actIds, hev]
  rw [this, List.append_nil]

/-- an invariant relating the configuration to the trace that led to it -/
theorem replay_inv_tr (P : Program) (F : Flags) (Inv : Config → List Label → Prop)
    (hstep : ∀ c tr l c', Inv c tr → step P F c l = some c' → Inv c' (tr ++ [l]))
    (n : Nat) (h0 : Inv (init n) []) (tr : List Label) (c : Config)
    (h : replay P F (init n) tr = some c) : Inv c tr := by
  have key : ∀ (tr2 : List Label) (c0 : Config) (tr0 : List Label), Inv c0 tr0 →
      ∀ c1, replay P F c0 tr2 = some c1 → Inv c1 (tr0 ++ tr2) := by
    intro tr2
    induction tr2 with
    | nil => intro c0 tr0 h0 c1 h1; simp [replay] at h1; subst h1; simpa using h0
    | cons l ls ih =>
      intro c0 tr0 h0 c1 h1
      simp only [replay] at h1
      split at h1
      · rename_i c2 hs
        have := ih c2 (tr0 ++ [l]) (hstep c0 tr0 l c2 h0 hs) c1 h1
        simpa using this
      · cases h1
  simpa using key tr (init n) [] h0 c h

/-! ### what a step does to the other components -/

theorem bumpCalls_frame (P : Program) (c : Config) (t : Nat) :
    (bumpCalls P c t).tokens = c.tokens ∧ (bumpCalls P c t).execs = c.execs ∧
    (bumpCalls P c t).tops = c.tops ∧ (bumpCalls P c t).ncalls = c.ncalls ∧ (bumpCalls P c t).acts = c.acts := by
  unfold bumpCalls; split
  · split <;> exact ⟨rfl, rfl, rfl, rfl, rfl⟩
  · exact ⟨rfl, rfl, rfl, rfl, rfl⟩

theorem enterAct_frame (P : Program) (F : Flags) (c c' : Config) (a : Nat) (kind : Kind) (t : Nat)
    (h : enterAct P F c a kind t = some c') :
    c'.tokens = c.tokens ∧ c'.execs = c.execs ∧ c'.calls = (bumpCalls P c t).calls ∧ c'.ncalls = c.ncalls := by
  have hb := bumpCalls_frame P c t
  unfold enterAct at h
  split at h
  · cases h
  · split at h
    · cases h
    · cases h; exact ⟨hb.1, hb.2.1, rfl, hb.2.2.2.1⟩
    · cases h; exact ⟨hb.1, hb.2.1, rfl, hb.2.2.2.1⟩

theorem local_frame (c : Config) (a : Nat) (y : Act) (eff : Eff) :
    ((applyEff c a eff).set a y).calls = c.calls ∧ ((applyEff c a eff).set a y).ncalls = c.ncalls ∧
    ((applyEff c a eff).set a y).tops = c.tops := by
  cases eff <;> exact ⟨rfl, rfl, rfl⟩

theorem local_tokens (c : Config) (a : Nat) (y : Act) (eff : Eff) :
    ((applyEff c a eff).set a y).tokens =
      (match eff with | .acq => c.tokens + 1 | .rel => c.tokens - 1 | _ => c.tokens) := by
  cases eff <;> rfl

/-! ### the ids of the activations -/

/-- the ids of `enter` events are distinct and are exactly the bound activations -/
def IdsInv (c : Config) (tr : List Label) : Prop :=
  (actIds tr).Nodup ∧ ∀ a, a ∈ actIds tr ↔ (c.act? a).isSome = true

theorem idsInv_step (P : Program) (F : Flags) (c : Config) (tr : List Label) (l : Label) (c' : Config)
    (hinv : IdsInv c tr) (hs : step P F c l = some c') : IdsInv c' (tr ++ [l]) := by
  obtain ⟨hnd, hmem⟩ := hinv
  rcases step_cases P F c c' l hs with ⟨k, t, he, hen⟩ | ⟨hne, x, y, eff, hx, _, rfl⟩
  · obtain ⟨hnone, hnew, hoth⟩ := enterAct_acts P F c c' l.act k t hen
    unfold IdsInv
    rw [actIds_snoc_enter tr l k t he]
    have hnot : l.act ∉ actIds tr := by
      intro hin; have := (hmem l.act).mp hin; rw [hnone] at this; cases this
    refine ⟨?_, ?_⟩
    · rw [List.nodup_append]
      refine ⟨hnd, by simp, ?_⟩
      intro a ha b hb
      simp only [List.mem_singleton] at hb
      subst hb; intro e; subst e; exact hnot ha
    · intro a
      simp only [List.mem_append, List.mem_singleton]
      by_cases ha : a = l.act
      · subst ha; rw [hnew]; simp
      · rcases hoth a ha with h1 | ⟨px, slot, h1, h2, _⟩
        · rw [h1, ← hmem a]; simp [ha]
        · rw [h2]
          have : a ∈ actIds tr := (hmem a).mpr (by rw [h1]; rfl)
          simp [this]
  · unfold IdsInv
    rw [actIds_snoc_other tr l hne]
    refine ⟨hnd, ?_⟩
    intro a
    by_cases ha : a = l.act
    · subst ha
      rw [act?_set_self]
      have : l.act ∈ actIds tr := (hmem l.act).mpr (by rw [hx]; rfl)
      simp [this]
    · rw [act?_set_other _ _ _ _ ha, act?_applyEff]; exact hmem a

theorem idsInv_init (n : Nat) : IdsInv (init n) [] := by
  refine ⟨List.nodup_nil, ?_⟩
  intro a; simp [actIds, init, Config.act?]

theorem idsInv_reach (P : Program) (F : Flags) (n : Nat) (tr : List Label) (c : Config)
    (h : replay P F (init n) tr = some c) : IdsInv c tr :=
  replay_inv_tr P F IdsInv (idsInv_step P F) n (idsInv_init n) tr c h

/-! ### counting activations with a property -/

/-- the value of a per-activation test at id `a` (false if `a` is not bound) -/
def actB (f : Act → Bool) (c : Config) (a : Nat) : Bool :=
  match c.act? a with
  | some x => f x
  | none => false

/-- number of activations among `ids` that satisfy `f` -/
def cnt (f : Act → Bool) (c : Config) (ids : List Nat) : Nat := ids.countP (actB f c)

theorem countP_update (p q : Nat → Bool) (a : Nat) : ∀ (l : List Nat), l.Nodup → a ∈ l →
    (∀ b ∈ l, b ≠ a → q b = p b) →
    l.countP q + (if p a then 1 else 0) = l.countP p + (if q a then 1 else 0) := by
  intro l
  induction l with
  | nil => intro _ h; cases h
  | cons b l ih =>
    intro hnd hin hsame
    rw [List.nodup_cons] at hnd
    simp only [List.countP_cons]
    by_cases hb : b = a
    · subst hb
      have : l.countP q = l.countP p := by
        apply List.countP_congr
        intro z hz
        have hzb : z ≠ b := by intro e; subst e; exact hnd.1 hz
        rw [hsame z (List.mem_cons_of_mem _ hz) hzb]
      omega
    · have hin' : a ∈ l := by
        rcases List.mem_cons.mp hin with e | e
        · exact absurd e.symm hb
        · exact e
      have := ih hnd.2 hin' (fun z hz hza => hsame z (List.mem_cons_of_mem _ hz) hza)
      rw [hsame b List.mem_cons_self hb]
      omega

theorem actB_local (f : Act → Bool) (c : Config) (a : Nat) (y : Act) (eff : Eff) (b : Nat) :
    actB f ((applyEff c a eff).set a y) b = if b = a then f y else actB f c b := by
  unfold actB
  by_cases hb : b = a
  · subst hb; simp
  · rw [act?_set_other _ _ _ _ hb, act?_applyEff]; simp [hb]

/-- a local step changes the count only through the activation it names -/
theorem cnt_local (f : Act → Bool) (c : Config) (tr : List Label) (a : Nat) (x y : Act) (eff : Eff)
    (hinv : IdsInv c tr) (hx : c.act? a = some x) :
    cnt f ((applyEff c a eff).set a y) (actIds tr) + (if f x then 1 else 0) =
      cnt f c (actIds tr) + (if f y then 1 else 0) := by
  have hin : a ∈ actIds tr := (hinv.2 a).mpr (by rw [hx]; rfl)
  have := countP_update (actB f c) (actB f ((applyEff c a eff).set a y)) a (actIds tr) hinv.1 hin
    (by intro b _ hb; rw [actB_local]; simp [hb])
  have e1 : actB f c a = f x := by simp [actB, hx]
  have e2 : actB f ((applyEff c a eff).set a y) a = f y := by rw [actB_local]; simp
  rw [e1, e2] at this
  exact this

/-- `enter` adds the fresh activation to the count and leaves the others alone, for any
test that does not look at `kids` -/
theorem cnt_enter (f : Act → Bool) (hk : ∀ x k, f { x with kids := k } = f x)
    (P : Program) (F : Flags) (c c' : Config) (tr : List Label) (a : Nat) (kind : Kind) (t : Nat)
    (hinv : IdsInv c tr) (h : enterAct P F c a kind t = some c') :
    cnt f c' (actIds tr ++ [a]) = cnt f c (actIds tr) + (if f (freshAct P F c kind t) then 1 else 0) := by
  obtain ⟨hnone, hnew, hoth⟩ := enterAct_acts P F c c' a kind t h
  unfold cnt
  rw [List.countP_append]
  have h1 : (actIds tr).countP (actB f c') = (actIds tr).countP (actB f c) := by
    apply List.countP_congr
    intro b hb
    have hba : b ≠ a := by
      intro e; subst e
      have := (hinv.2 b).mp hb; rw [hnone] at this; cases this
    rcases hoth b hba with e | ⟨px, slot, e1, e2, _⟩
    · simp [actB, e]
    · simp [actB, e1, e2, hk]
  rw [h1]
  simp [List.countP_cons, actB, hnew]

end TaskModel.Sched.S7
