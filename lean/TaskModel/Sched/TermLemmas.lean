import TaskModel.Sched.CountLemmas
/-!
Sched.TermLemmas — termination of the executor model for acyclic programs.

`rem x`: a bound on the number of local steps activation `x` can still take; every local
step decreases it.  `treeCost`: a bound on the number of labels of the whole activation
tree below one call of a task (by recursion on a rank of the acyclic reference graph).
The potential of a configuration — calls of `Run` not yet entered, activations, and their
dependency / call slots not yet entered — decreases with every accepted label.
-/
namespace TaskModel.Sched.S7

/-! ### local measure -/

def loopW (x : Act) : Nat := 3 * x.rest.length + 3 * x.stack.length
def preW (x : Act) : Nat := 3 * x.def_.cmds.length + 3 * x.stack.length

/-- number of local steps the activation can still take (upper bound) -/
def rem (x : Act) : Nat :=
  match x.phase with
  | .done => 0
  | .released => 1
  | .execDoneP => 2
  | .finished => 3
  | .early => 1
  | .wWoken => 4
  | .wReleased => 5
  | .wWaiting => 6
  | .defers => 3 * x.stack.length + 6
  | .inShell _ true => 3 * x.stack.length + 5
  | .inCall _ true => 3 * x.stack.length + 5
  | .callReturned _ true => 3 * x.stack.length + 4
  | .body => loopW x + 6
  | .inShell _ false => loopW x + 5
  | .inCall _ false => loopW x + 5
  | .callReturned _ false => loopW x + 4
  | .guards => preW x + 7
  | .depsJoined => preW x + 8
  | .depsWait => preW x + 9
  | .exec => preW x + 10
  | .acquired => preW x + 11
  | .entered => preW x + 12

theorem advance_length (cs : List Cmd) (i : Nat) (regs stack : List Nat) :
    (advance cs i regs stack).1.length + (advance cs i regs stack).2.2.2.length = cs.length + stack.length := by
  induction cs generalizing i regs stack with
  | nil => rfl
  | cons c cs ih =>
    simp only [advance]
    split
    · rw [ih]; simp; omega
    · rfl

theorem rem_next (x : Act) (cs : List Cmd) (i : Nat) :
    rem (x.next cs i) ≤ 3 * cs.length + 3 * x.stack.length + 6 := by
  have ha := advance_length cs i x.regs x.stack
  unfold Act.next
  generalize advance cs i x.regs x.stack = r at ha ⊢
  obtain ⟨rest, i', regs, stack⟩ := r
  simp only at ha ⊢
  cases rest with
  | nil =>
    simp only [List.length_nil, Nat.zero_add] at ha
    by_cases hs : stack.isEmpty <;> simp [rem, hs] <;> omega
  | cons c cs' =>
    simp only [List.length_cons] at ha
    simp [rem, loopW]; omega

theorem rem_fail (x : Act) (r : Res) : rem (x.fail r) ≤ 3 * x.stack.length + 6 := by
  unfold Act.fail
  by_cases hs : x.stack.isEmpty <;> simp [rem, hs]

theorem rem_afterDefer (x : Act) : rem x.afterDefer ≤ 3 * x.stack.length + 3 := by
  unfold Act.afterDefer
  split
  · simp [rem]
  · rename_i i s he
    rw [he]
    by_cases hs : s.isEmpty <;> simp [rem, hs] <;> omega

theorem rem_afterCmd (x : Act) (c : Cmd) (r : Res) (hne : x.rest ≠ []) :
    rem (x.afterCmd c r) ≤ loopW x + 3 := by
  have hlen : x.rest.tail.length + 1 = x.rest.length := by
    cases hr : x.rest with
    | nil => exact absurd hr hne
    | cons _ _ => simp
  have hn := rem_next x x.rest.tail (x.idx + 1)
  unfold Act.afterCmd loopW
  simp only
  split
  · omega
  · split
    · omega
    · rename_i n _ _
      have := rem_fail { x with exitCode := n % 256 } (.exit n)
      simp only at this
      refine Nat.le_trans this ?_
      omega
  · have := rem_fail x
    refine Nat.le_trans (this _) ?_
    omega

set_option maxHeartbeats 1000000 in
/-- every local step decreases the local measure -/
theorem stepLocal_rem (F : Flags) (o : Obs) (x : Act) (ev : Ev) (y : Act) (eff : Eff)
    (h : stepLocal F o x ev = some (y, eff)) : rem y < rem x := by
  steplocal_cases h
  all_goals (try (simp_all [rem, preW, loopW, Act.stop, Act.stopDeps]; done))
  all_goals (try (simp_all [rem, preW, loopW]; omega))
  -- guardsPassed
  · rename_i hp _
    have := rem_next x x.def_.cmds 0
    have hx : rem x = preW x + 7 := by simp [rem, hp]
    rw [hx]; unfold preW; omega
  -- cmdEnd (body)
  · rename_i hp _ _ _ _ hr _ _
    have hne : x.rest ≠ [] := by rw [hr]; simp
    have hx : rem x = loopW x + 5 := by simp [rem, hp]
    rw [hx]; exact Nat.lt_of_le_of_lt (rem_afterCmd x _ _ hne) (by omega)
  -- callRet
  · rename_i d hp hij _ _ _
    have hij' : _ = _ := Decidable.not_not.mp hij
    subst hij'
    cases d <;> simp [rem, hp, loopW]
  -- callReacq after a deferred call
  · rename_i hp _ hd
    subst hd
    have := rem_afterDefer { x with holds := true }
    have hx : rem x = 3 * x.stack.length + 4 := by simp [rem, hp]
    rw [hx]; simp only at this; omega
  -- callReacq after a call in the body
  · rename_i hp _ hd _ _ _ hr
    have hd' : _ = false := Bool.eq_false_iff.mpr hd
    subst hd'
    have hne : ({ x with holds := true } : Act).rest ≠ [] := by show x.rest ≠ []; rw [hr]; simp
    have hx : rem x = loopW x + 4 := by simp [rem, hp]
    rw [hx]
    exact Nat.lt_of_le_of_lt (rem_afterCmd { x with holds := true } _ x.callRes hne)
      (by show loopW x + 3 < loopW x + 4; omega)
  -- cmdEnd of a deferred entry
  · rename_i hp _ _ _ _ _
    have := rem_afterDefer x
    have hx : rem x = 3 * x.stack.length + 5 := by simp [rem, hp]
    rw [hx]; omega

theorem rem_kids (x : Act) (k : List (Nat × Nat)) : rem { x with kids := k } = rem x := rfl

/-! ### what `enter` does, precisely -/

theorem ite_some_parent {b : Bool} {x y : Parent} (h : (if b = true then some x else none) = some y) : y = x := by
  cases b <;> simp at h; exact h.symm

theorem enterCheck_top (F : Flags) (c : Config) (a k t : Nat) (par : Parent)
    (h : enterCheck F c a (.top k) t = some par) :
    par = .top k ∧ k < c.ncalls ∧ c.tops.lookup k = none := by
  simp only [enterCheck] at h
  split at h
  · cases h
  · rename_i hc
    simp only [Bool.or_eq_true, decide_eq_true_eq, not_or, Nat.not_le] at hc
    refine ⟨ite_some_parent h, hc.1, ?_⟩
    cases hl : c.tops.lookup k with
    | none => rfl
    | some _ => rw [hl] at hc; simp at hc

theorem enterCheck_dep (F : Flags) (c : Config) (a p j t : Nat) (par : Parent)
    (h : enterCheck F c a (.dep p j) t = some par) :
    ∃ px, c.act? p = some px ∧ par = .act p { px with kids := (slotOfDep j, a) :: px.kids } ∧
      px.kids.lookup (slotOfDep j) = none ∧ px.def_.deps[j]? = some t ∧ px.phase = .depsWait := by
  simp only [enterCheck] at h
  split at h
  · cases h
  · rename_i px hpx
    split at h
    · cases h
    · rename_i hc
      simp only [ne_eq, Bool.or_eq_true, decide_eq_true_eq, not_or, Decidable.not_not] at hc
      split at h
      · cases h
      · rename_i t' ht'
        split at h
        · cases h
        · rename_i hne
          cases h
          refine ⟨px, hpx, rfl, ?_, by rw [ht']; simpa using hne, hc.1⟩
          cases hl : px.kids.lookup (slotOfDep j) with
          | none => rfl
          | some _ => rw [hl] at hc; simp at hc

theorem enterCheck_call (F : Flags) (c : Config) (a p i : Nat) (dfr : Bool) (t : Nat) (par : Parent)
    (h : enterCheck F c a (.call p i dfr) t = some par) :
    ∃ px, c.act? p = some px ∧ par = .act p { px with kids := (slotOfCall px i, a) :: px.kids } ∧
      px.kids.lookup (slotOfCall px i) = none ∧ px.def_.cmds[i]? = some (.call t dfr) ∧
      px.phase = .inCall i dfr := by
  simp only [enterCheck] at h
  split at h
  · cases h
  · rename_i px hpx
    split at h
    · cases h
    · rename_i hc
      simp only [ne_eq, Bool.or_eq_true, decide_eq_true_eq, not_or, Decidable.not_not] at hc
      split at h
      · rename_i t' d' hcmd
        split at h
        · cases h
        · rename_i hne
          cases h
          simp at hne
          refine ⟨px, hpx, rfl, ?_, by rw [hcmd, hne.1, hne.2], hc.1⟩
          cases hl : px.kids.lookup (slotOfCall px i) with
          | none => rfl
          | some _ => rw [hl] at hc; simp at hc
      · cases h

/-- the slot a new child activation occupies in its parent, and the task it must run -/
def slotFor (px : Act) (s t : Nat) : Prop :=
  px.def_.deps[s]? = some t ∨
  ∃ i d, s = px.def_.deps.length + i ∧ px.def_.cmds[i]? = some (.call t d)

theorem enter_parent_frame (P : Program) (F : Flags) (c : Config) (a : Nat) (kind : Kind) (t p : Nat) (px : Act)
    (s : Nat) (hn : c.act? a = none) (hpx : c.act? p = some px) :
    (((bumpCalls P c t).set p { px with kids := (s, a) :: px.kids }).set a (freshAct P F c kind t)).tops = c.tops ∧
    p ≠ a ∧
    (((bumpCalls P c t).set p { px with kids := (s, a) :: px.kids }).set a (freshAct P F c kind t)).act? p =
      some { px with kids := (s, a) :: px.kids } ∧
    ∀ b, b ≠ a → b ≠ p →
      (((bumpCalls P c t).set p { px with kids := (s, a) :: px.kids }).set a (freshAct P F c kind t)).act? b =
        c.act? b := by
  have hpa : p ≠ a := by intro e; subst e; rw [hpx] at hn; cases hn
  refine ⟨(bumpCalls_frame P c t).2.2.1, hpa, ?_, ?_⟩
  · rw [act?_set_other _ _ _ _ hpa, act?_set_self]
  · intro b hba hbp
    rw [act?_set_other _ _ _ _ hba, act?_set_other _ _ _ _ hbp]; simp

theorem enterAct_cases (P : Program) (F : Flags) (c c' : Config) (a : Nat) (kind : Kind) (t : Nat)
    (h : enterAct P F c a kind t = some c') :
    c.act? a = none ∧ c'.act? a = some (freshAct P F c kind t) ∧ c'.ncalls = c.ncalls ∧
    ((∃ k, k < c.ncalls ∧ c.tops.lookup k = none ∧ c'.tops = (k, a) :: c.tops ∧
        ∀ b, b ≠ a → c'.act? b = c.act? b) ∨
     (∃ p px s, c.act? p = some px ∧ px.kids.lookup s = none ∧ slotFor px s t ∧ c'.tops = c.tops ∧ p ≠ a ∧
        c'.act? p = some { px with kids := (s, a) :: px.kids } ∧
        (∀ b, b ≠ a → b ≠ p → c'.act? b = c.act? b) ∧
        (px.phase = .depsWait ∨ ∃ i d, px.phase = .inCall i d))) := by
  have hb := bumpCalls_frame P c t
  unfold enterAct at h
  split at h
  · cases h
  · rename_i hnone
    have hn : c.act? a = none := by
      cases hh : c.act? a with
      | none => rfl
      | some _ => simp [hh] at hnone
    refine ⟨hn, ?_⟩
    split at h
    · cases h
    · rename_i k hc
      cases h
      refine ⟨by simp, hb.2.2.2.1, .inl ?_⟩
      cases kind with
      | top k' =>
        obtain ⟨e, h1, h2⟩ := enterCheck_top F c a k' t _ hc
        cases e
        refine ⟨k, h1, h2, rfl, ?_⟩
        intro b hba
        rw [act?_set_other _ _ _ _ hba]
        show (bumpCalls P c t).act? b = c.act? b
        simp
      | dep p j => obtain ⟨_, _, e, _⟩ := enterCheck_dep F c a p j t _ hc; cases e
      | call p i d => obtain ⟨_, _, e, _⟩ := enterCheck_call F c a p i d t _ hc; cases e
    · rename_i p px' hc
      cases h
      refine ⟨by simp, hb.2.2.2.1, .inr ?_⟩
      cases kind with
      | top k' => obtain ⟨e, _, _⟩ := enterCheck_top F c a k' t _ hc; cases e
      | dep p' j =>
        obtain ⟨px, hpx, e, hfree, hdep, hph⟩ := enterCheck_dep F c a p' j t _ hc
        injection e with e1 e2
        subst e1 e2
        obtain ⟨f1, f2, f3, f4⟩ := enter_parent_frame P F c a (.dep p j) t p px (slotOfDep j) hn hpx
        exact ⟨p, px, slotOfDep j, hpx, hfree, .inl hdep, f1, f2, f3, f4, .inl hph⟩
      | call p' i d =>
        obtain ⟨px, hpx, e, hfree, hcmd, hph⟩ := enterCheck_call F c a p' i d t _ hc
        injection e with e1 e2
        subst e1 e2
        obtain ⟨f1, f2, f3, f4⟩ := enter_parent_frame P F c a (.call p i d) t p px (slotOfCall px i) hn hpx
        exact ⟨p, px, slotOfCall px i, hpx, hfree, .inr ⟨i, d, rfl, hcmd⟩, f1, f2, f3, f4, .inr ⟨i, d, hph⟩⟩

/-! ### sums -/

theorem sum_map_le (g h : Nat → Nat) : ∀ (l : List Nat), (∀ u ∈ l, g u ≤ h u) → (l.map g).sum ≤ (l.map h).sum := by
  intro l
  induction l with
  | nil => intro _; simp
  | cons a l ih =>
    intro hl
    simp only [List.map_cons, List.sum_cons]
    have h1 := hl a List.mem_cons_self
    have h2 := ih (fun u hu => hl u (List.mem_cons_of_mem _ hu))
    omega

theorem mem_le_sum (f : Nat → Nat) : ∀ (l : List Nat) (a : Nat), a ∈ l → f a ≤ (l.map f).sum := by
  intro l
  induction l with
  | nil => intro a h; cases h
  | cons b l ih =>
    intro a h
    simp only [List.map_cons, List.sum_cons]
    rcases List.mem_cons.mp h with e | e
    · subst e; omega
    · have := ih a e; omega

theorem sum_update (f g : Nat → Nat) (a : Nat) : ∀ (l : List Nat), l.Nodup → a ∈ l →
    (∀ b ∈ l, b ≠ a → g b = f b) → (l.map g).sum + f a = (l.map f).sum + g a := by
  intro l
  induction l with
  | nil => intro _ h; cases h
  | cons b l ih =>
    intro hnd hin hsame
    rw [List.nodup_cons] at hnd
    simp only [List.map_cons, List.sum_cons]
    by_cases hb : b = a
    · subst hb
      have : (l.map g).sum = (l.map f).sum := by
        congr 1
        apply List.map_congr_left
        intro z hz
        have hzb : z ≠ b := by intro e; subst e; exact hnd.1 hz
        exact hsame z (List.mem_cons_of_mem _ hz) hzb
      omega
    · have hin' : a ∈ l := by
        rcases List.mem_cons.mp hin with e | e
        · exact absurd e.symm hb
        · exact e
      have := ih hnd.2 hin' (fun z hz hza => hsame z (List.mem_cons_of_mem _ hz) hza)
      rw [hsame b List.mem_cons_self hb]
      omega

theorem sum_congr (f g : Nat → Nat) (l : List Nat) (h : ∀ b ∈ l, g b = f b) : (l.map g).sum = (l.map f).sum := by
  congr 1; exact List.map_congr_left h

theorem sum_const_range (T : Nat) (n : Nat) : ((List.range n).map (fun _ => T)).sum = n * T := by
  induction n with
  | zero => simp
  | succ n ih => rw [List.range_succ, List.map_append, List.sum_append, ih]; simp [Nat.succ_mul]

/-! ### the cost of an activation tree -/

def localCost (d : TaskDef) : Nat := 3 * d.cmds.length + 13

def callTargets : List Cmd → List Nat
  | [] => []
  | .call u _ :: cs => u :: callTargets cs
  | _ :: cs => callTargets cs

theorem callTargets_mem (cs : List Cmd) (u : Nat) (h : u ∈ callTargets cs) : ∃ d, Cmd.call u d ∈ cs := by
  induction cs with
  | nil => cases h
  | cons c cs ih =>
    cases c with
    | shell k ie d =>
      obtain ⟨d', hd⟩ := ih h
      exact ⟨d', List.mem_cons_of_mem _ hd⟩
    | call v d =>
      simp only [callTargets, List.mem_cons] at h
      rcases h with e | e
      · subst e; exact ⟨d, List.mem_cons_self⟩
      · obtain ⟨d', hd⟩ := ih e
        exact ⟨d', List.mem_cons_of_mem _ hd⟩

/-- bound on the number of labels of one call of task `t` and everything below it, for
reference graphs of depth at most `fuel` -/
def treeCost (P : Program) : Nat → Nat → Nat
  | 0, t => 1 + localCost ((P[t]?).getD {})
  | f + 1, t =>
    1 + localCost ((P[t]?).getD {}) + (((P[t]?).getD {}).deps.map (fun u => treeCost P f u)).sum +
      ((callTargets ((P[t]?).getD {}).cmds).map (fun u => treeCost P f u)).sum

theorem treeCost_succ_le (P : Program) (f t : Nat) : treeCost P f t ≤ treeCost P (f + 1) t := by
  induction f generalizing t with
  | zero => simp only [treeCost]; omega
  | succ f ih =>
    rw [treeCost, treeCost]
    have h1 := sum_map_le (fun u => treeCost P f u) (fun u => treeCost P (f + 1) u) ((P[t]?).getD {}).deps
      (fun u _ => ih u)
    have h2 := sum_map_le (fun u => treeCost P f u) (fun u => treeCost P (f + 1) u)
      (callTargets ((P[t]?).getD {}).cmds) (fun u _ => ih u)
    omega

theorem treeCost_mono (P : Program) (f g t : Nat) (h : f ≤ g) : treeCost P f t ≤ treeCost P g t := by
  induction g with
  | zero => have : f = 0 := by omega
            subst this; exact Nat.le_refl _
  | succ g ih =>
    by_cases hfg : f = g + 1
    · subst hfg; exact Nat.le_refl _
    · exact Nat.le_trans (ih (by omega)) (treeCost_succ_le P g t)

/-- the reference graph is acyclic: a rank decreases along `deps:` and `task:` references -/
def RankOk (P : Program) (rank : Nat → Nat) : Prop :=
  ∀ t d, P[t]? = some d →
    (∀ u ∈ d.deps, rank u < rank t) ∧ (∀ u dfr, Cmd.call u dfr ∈ d.cmds → rank u < rank t)

/-- the cost of a call of `t` covers the call itself, its local steps and its children -/
theorem treeCost_covers (P : Program) (rank : Nat → Nat) (hr : RankOk P rank) (t : Nat) :
    1 + localCost ((P[t]?).getD {}) + (((P[t]?).getD {}).deps.map (fun u => treeCost P (rank u) u)).sum +
      ((callTargets ((P[t]?).getD {}).cmds).map (fun u => treeCost P (rank u) u)).sum ≤ treeCost P (rank t) t := by
  have hlt : (∀ u ∈ ((P[t]?).getD {}).deps, rank u < rank t) ∧
      (∀ u ∈ callTargets ((P[t]?).getD {}).cmds, rank u < rank t) := by
    cases hp : P[t]? with
    | none => exact ⟨by intro u hu; simp at hu, by intro u hu; simp [callTargets] at hu⟩
    | some d =>
      obtain ⟨h1, h2⟩ := hr t d hp
      refine ⟨h1, ?_⟩
      intro u hu
      obtain ⟨dfr, hd⟩ := callTargets_mem _ u hu
      exact h2 u dfr hd
  cases hk : rank t with
  | zero =>
    rw [hk] at hlt
    have e1 : ((P[t]?).getD {}).deps = [] := by
      cases hd : ((P[t]?).getD {}).deps with
      | nil => rfl
      | cons u us => have := hlt.1 u (by rw [hd]; exact List.mem_cons_self); omega
    have e2 : callTargets ((P[t]?).getD {}).cmds = [] := by
      cases hd : callTargets ((P[t]?).getD {}).cmds with
      | nil => rfl
      | cons u us => have := hlt.2 u (by rw [hd]; exact List.mem_cons_self); omega
    rw [e1, e2]; simp [treeCost]
  | succ f =>
    rw [hk] at hlt
    rw [treeCost]
    have h1 := sum_map_le (fun u => treeCost P (rank u) u) (fun u => treeCost P f u) ((P[t]?).getD {}).deps
      (fun u hu => treeCost_mono P (rank u) f u (by have := hlt.1 u hu; omega))
    have h2 := sum_map_le (fun u => treeCost P (rank u) u) (fun u => treeCost P f u)
      (callTargets ((P[t]?).getD {}).cmds)
      (fun u hu => treeCost_mono P (rank u) f u (by have := hlt.2 u hu; omega))
    omega

/-! ### the potential of the child slots of an activation -/

/-- cost of the dependencies that have not entered yet (`j`: slot of the head of the list) -/
def depPot (C : Nat → Nat) (kids : List (Nat × Nat)) : List Nat → Nat → Nat
  | [], _ => 0
  | u :: us, j => (if (kids.lookup j).isSome then 0 else C u) + depPot C kids us (j + 1)

/-- cost of the `task:` commands whose callee has not entered yet -/
def callPot (C : Nat → Nat) (kids : List (Nat × Nat)) : List Cmd → Nat → Nat
  | [], _ => 0
  | .call u _ :: cs, s => (if (kids.lookup s).isSome then 0 else C u) + callPot C kids cs (s + 1)
  | .shell _ _ _ :: cs, s => callPot C kids cs (s + 1)

def slotPot (C : Nat → Nat) (x : Act) : Nat :=
  depPot C x.kids x.def_.deps 0 + callPot C x.kids x.def_.cmds x.def_.deps.length

theorem lookup_cons_ne (kids : List (Nat × Nat)) (s a j : Nat) (h : j ≠ s) :
    List.lookup j ((s, a) :: kids) = List.lookup j kids := by
  have : (j == s) = false := by simpa using h
  simp [List.lookup_cons, this]

theorem lookup_cons_self (kids : List (Nat × Nat)) (s a : Nat) : List.lookup s ((s, a) :: kids) = some a := by
  simp

theorem depPot_nil (C : Nat → Nat) (us : List Nat) (j : Nat) : depPot C [] us j = (us.map C).sum := by
  induction us generalizing j with
  | nil => rfl
  | cons u us ih => simp [depPot, ih]

theorem callPot_nil (C : Nat → Nat) (cs : List Cmd) (s : Nat) : callPot C [] cs s = ((callTargets cs).map C).sum := by
  induction cs generalizing s with
  | nil => rfl
  | cons c cs ih => cases c <;> simp [callPot, callTargets, ih]

theorem depPot_out (C : Nat → Nat) (kids : List (Nat × Nat)) (s a : Nat) (us : List Nat) (j : Nat)
    (h : s < j ∨ j + us.length ≤ s) : depPot C ((s, a) :: kids) us j = depPot C kids us j := by
  induction us generalizing j with
  | nil => rfl
  | cons u us ih =>
    simp only [List.length_cons] at h
    have hj : j ≠ s := by omega
    simp only [depPot, lookup_cons_ne kids s a j hj]
    rw [ih (j + 1) (by omega)]

theorem depPot_in (C : Nat → Nat) (kids : List (Nat × Nat)) (s a u : Nat) (us : List Nat) (j : Nat)
    (hjs : j ≤ s) (hu : us[s - j]? = some u) (hfree : kids.lookup s = none) :
    depPot C ((s, a) :: kids) us j + C u = depPot C kids us j := by
  induction us generalizing j with
  | nil => simp at hu
  | cons u0 us ih =>
    by_cases hj : j = s
    · subst hj
      simp only [Nat.sub_self, List.getElem?_cons_zero, Option.some.injEq] at hu
      subst hu
      simp only [depPot, lookup_cons_self, hfree, Option.isSome_some, Option.isSome_none, if_true]
      rw [depPot_out C kids j a us (j + 1) (by omega)]
      simp; omega
    · have hj' : j ≠ s := hj
      have hlt : j + 1 ≤ s := by omega
      have hu' : us[s - (j + 1)]? = some u := by
        have : s - j = (s - (j + 1)) + 1 := by omega
        rw [this, List.getElem?_cons_succ] at hu
        exact hu
      simp only [depPot, lookup_cons_ne kids s a j hj']
      have := ih (j + 1) hlt hu'
      omega

theorem callPot_out (C : Nat → Nat) (kids : List (Nat × Nat)) (s a : Nat) (cs : List Cmd) (st : Nat)
    (h : s < st ∨ st + cs.length ≤ s) : callPot C ((s, a) :: kids) cs st = callPot C kids cs st := by
  induction cs generalizing st with
  | nil => rfl
  | cons c cs ih =>
    simp only [List.length_cons] at h
    have hj : st ≠ s := by omega
    cases c with
    | shell k ie d => simp only [callPot]; exact ih (st + 1) (by omega)
    | call u d =>
      simp only [callPot, lookup_cons_ne kids s a st hj]
      rw [ih (st + 1) (by omega)]

theorem callPot_in (C : Nat → Nat) (kids : List (Nat × Nat)) (s a u : Nat) (d : Bool) (cs : List Cmd) (st : Nat)
    (hjs : st ≤ s) (hu : cs[s - st]? = some (.call u d)) (hfree : kids.lookup s = none) :
    callPot C ((s, a) :: kids) cs st + C u = callPot C kids cs st := by
  induction cs generalizing st with
  | nil => simp at hu
  | cons c0 cs ih =>
    by_cases hj : st = s
    · subst hj
      simp only [Nat.sub_self, List.getElem?_cons_zero, Option.some.injEq] at hu
      subst hu
      simp only [callPot, lookup_cons_self, hfree, Option.isSome_some, Option.isSome_none, if_true]
      rw [callPot_out C kids st a cs (st + 1) (by omega)]
      simp; omega
    · have hj' : st ≠ s := hj
      have hlt : st + 1 ≤ s := by omega
      have hu' : cs[s - (st + 1)]? = some (.call u d) := by
        have : s - st = (s - (st + 1)) + 1 := by omega
        rw [this, List.getElem?_cons_succ] at hu
        exact hu
      have := ih (st + 1) hlt hu'
      cases c0 with
      | shell k ie d0 => simp only [callPot]; exact this
      | call u0 d0 =>
        simp only [callPot, lookup_cons_ne kids s a st hj']
        omega

/-- a child entering takes its cost out of its parent's slot potential -/
theorem slotPot_enter (C : Nat → Nat) (px : Act) (s a t : Nat) (hslot : slotFor px s t)
    (hfree : px.kids.lookup s = none) :
    slotPot C { px with kids := (s, a) :: px.kids } + C t = slotPot C px := by
  unfold slotPot
  simp only
  rcases hslot with hd | ⟨i, d, hs, hc⟩
  · have hlt : s < px.def_.deps.length := by
      cases hlt : decide (s < px.def_.deps.length) with
      | true => simpa using hlt
      | false =>
        have : px.def_.deps.length ≤ s := by simpa using hlt
        rw [List.getElem?_eq_none this] at hd; cases hd
    have h1 := depPot_in C px.kids s a t px.def_.deps 0 (Nat.zero_le _) (by simpa using hd) hfree
    rw [callPot_out C px.kids s a px.def_.cmds px.def_.deps.length (.inl hlt)]
    omega
  · have h1 := callPot_in C px.kids s a t d px.def_.cmds px.def_.deps.length (by omega)
      (by rw [hs]; simpa using hc) hfree
    rw [depPot_out C px.kids s a px.def_.deps 0 (.inr (by omega))]
    omega

theorem slotPot_fresh (C : Nat → Nat) (P : Program) (F : Flags) (c : Config) (kind : Kind) (t : Nat) :
    slotPot C (freshAct P F c kind t) =
      (((P[t]?).getD {}).deps.map C).sum + ((callTargets ((P[t]?).getD {}).cmds).map C).sum := by
  obtain ⟨_, _, _, _, _, _, _, _, _, hk, _, _, hd, _⟩ := freshAct_fields P F c kind t
  unfold slotPot
  rw [hk, hd, depPot_nil, callPot_nil]

theorem rem_fresh (P : Program) (F : Flags) (c : Config) (kind : Kind) (t : Nat) :
    rem (freshAct P F c kind t) + 1 ≤ localCost ((P[t]?).getD {}) := by
  obtain ⟨hph, hst, _, _, _, _, _, _, _, _, _, _, hd, _⟩ := freshAct_fields P F c kind t
  unfold localCost
  rcases hph with e | e
  · simp [rem, e]
  · simp [rem, e, preW, hst, hd]

end TaskModel.Sched.S7
