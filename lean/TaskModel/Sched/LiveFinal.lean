import TaskModel.Sched.LiveMain
/-!
Sched.LiveFinal — the calls given to `Run`: every recorded one is an activation (`TopsInv`),
a call whose turn has come may enter (`top_enter_enabled`).  Used by `quiescent_final_all`
(`LiveAll.lean`): a configuration in which no label is accepted is final.
-/
namespace TaskModel.Sched.S7

structure TopsInv (n : Nat) (c : Config) : Prop where
  ncalls : c.ncalls = n
  bound : ∀ k id, c.tops.lookup k = some id → (c.act? id).isSome = true

theorem topsInv_init (n : Nat) : TopsInv n (init n) := ⟨rfl, by intro k id h; simp [init] at h⟩

theorem topsInv_step (P : Program) (F : Flags) (n : Nat) (c : Config) (l : Label) (c' : Config)
    (hinv : TopsInv n c) (hs : step P F c l = some c') : TopsInv n c' := by
  obtain ⟨hn, hb⟩ := hinv
  rcases step_cases P F c c' l hs with ⟨k, t, _, hen⟩ | ⟨_, x, y, eff, hx, _, rfl⟩
  · obtain ⟨_, hnew, hnc, hcase⟩ := enterAct_cases P F c c' l.act k t hen
    have hold : ∀ id, (c.act? id).isSome = true → (c'.act? id).isSome = true := by
      intro id hid
      cases hz : c.act? id with
      | none => rw [hz] at hid; cases hid
      | some z =>
        obtain ⟨_, ks, e, _⟩ := enter_old P F c c' l.act k t hen id z hz
        rw [e]; rfl
    refine ⟨by rw [hnc, hn], ?_⟩
    intro k' id hlk
    rcases hcase with ⟨k0, _, _, htops, _⟩ | ⟨_, _, _, _, _, _, htops, _, _⟩
    · rw [htops] at hlk
      by_cases hk : k' = k0
      · subst hk
        rw [lookup_cons_self] at hlk; cases hlk
        rw [hnew]; rfl
      · rw [lookup_cons_ne _ _ _ _ hk] at hlk
        exact hold id (hb k' id hlk)
    · rw [htops] at hlk
      exact hold id (hb k' id hlk)
  · refine ⟨by rw [(local_frame c l.act y eff).2.1]; exact hn, ?_⟩
    intro k id hlk
    rw [(local_frame c l.act y eff).2.2] at hlk
    have := hb k id hlk
    by_cases hid : id = l.act
    · subst hid; simp
    · rw [act?_set_other _ _ _ _ hid, act?_applyEff]; exact this

/-- a call of `Run` whose turn has come may enter -/
theorem top_enter_enabled (P : Program) (F : Flags) (c : Config) (k t : Nat) (hk : k < c.ncalls)
    (hfree : c.tops.lookup k = none)
    (hprev : F.parallel = true ∨ k = 0 ∨
      ∃ pid r, c.tops.lookup (k - 1) = some pid ∧ kidDone c pid = some r ∧ r.isOk = true) :
    ∃ l, (step P F c l).isSome = true := by
  refine ⟨⟨maxKey c.acts + 1, .enter (.top k) t⟩, ?_⟩
  have hge : ¬ k ≥ c.ncalls := by omega
  rcases hprev with h | h | ⟨pid, r, h1, h2, h3⟩
  · simp [step, enterAct, fresh_id c, enterCheck, hge, hfree, h]
  · subst h
    simp [step, enterAct, fresh_id c, enterCheck, hge, hfree]
  · simp [step, enterAct, fresh_id c, enterCheck, hge, hfree, h1, h2, h3]

end TaskModel.Sched.S7
