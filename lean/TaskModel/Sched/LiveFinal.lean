import TaskModel.Sched.LiveMain
/-!
Sched.LiveFinal — what a configuration in which no label is accepted looks like (acyclic
program): every activation has returned, every slot is free, and every call given to `Run`
has entered unless (sequential `Run`) an earlier call failed.
-/
namespace TaskModel.Sched.S7

structure TopsInv (n : Nat) (c : Config) : Prop where
  ncalls : c.ncalls = n
  bound : ∀ k id, c.tops.lookup k = some id → (c.act? id).isSome = true

theorem topsInv_init (n : Nat) : TopsInv n (init n) := ⟨rfl, by intro k id h; simp [init] at h⟩

theorem topsInv_step (P : Program) (F : Flags) (n : Nat) (c : Config) (l : Label) (c' : Config)
    (hinv : TopsInv n c) (hs : step P F c l = some c') : TopsInv n c' := by
  obtain ⟨hn, hb⟩ := hinv
  rcases step_cases P F c c' l hs with ⟨k, t, _, hen⟩ | ⟨_, x, y, eff, hx, _, rfl⟩
  · obtain ⟨_, hnew, hnc, hcase⟩ := enterAct_cases P F c c' l.act k t hen
    have hold : ∀ id, (c.act? id).isSome = true → (c'.act? id).isSome = true := by
      intro id hid
      cases hz : c.act? id with
      | none => rw [hz] at hid; cases hid
      | some z =>
        obtain ⟨_, ks, e, _⟩ := enter_old P F c c' l.act k t hen id z hz
        rw [e]; rfl
    refine ⟨by rw [hnc, hn], ?_⟩
    intro k' id hlk
    rcases hcase with ⟨k0, _, _, htops, _⟩ | ⟨_, _, _, _, _, _, htops, _, _⟩
    · rw [htops] at hlk
      by_cases hk : k' = k0
      · subst hk
        rw [lookup_cons_self] at hlk; cases hlk
        rw [hnew]; rfl
      · rw [lookup_cons_ne _ _ _ _ hk] at hlk
        exact hold id (hb k' id hlk)
    · rw [htops] at hlk
      exact hold id (hb k' id hlk)
  · refine ⟨by rw [(local_frame c l.act y eff).2.1]; exact hn, ?_⟩
    intro k id hlk
    rw [(local_frame c l.act y eff).2.2] at hlk
    have := hb k id hlk
    by_cases hid : id = l.act
    · subst hid; simp
    · rw [act?_set_other _ _ _ _ hid, act?_applyEff]; exact this

/-- a call of `Run` whose turn has come may enter -/
theorem top_enter_enabled (P : Program) (F : Flags) (c : Config) (k t : Nat) (hk : k < c.ncalls)
    (hfree : c.tops.lookup k = none)
    (hprev : F.parallel = true ∨ k = 0 ∨
      ∃ pid r, c.tops.lookup (k - 1) = some pid ∧ kidDone c pid = some r ∧ r.isOk = true) :
    ∃ l, (step P F c l).isSome = true := by
  refine ⟨⟨maxKey c.acts + 1, .enter (.top k) t⟩, ?_⟩
  have hge : ¬ k ≥ c.ncalls := by omega
  rcases hprev with h | h | ⟨pid, r, h1, h2, h3⟩
  · simp [step, enterAct, fresh_id c, enterCheck, hge, hfree, h]
  · subst h
    simp [step, enterAct, fresh_id c, enterCheck, hge, hfree]
  · simp [step, enterAct, fresh_id c, enterCheck, hge, hfree, h1, h2, h3]

/-- **a configuration that accepts no label is final** -/
theorem quiescent_final (P : Program) (F : Flags) (rank : Nat → Nat) (hr : SemiRankOk P rank) (n : Nat)
    (tr : List Label) (c : Config) (hcap : F.cap ≠ some 0) (hk : KeysByTask tr)
    (h : replay P F (init n) tr = some c) (hq : ∀ l, step P F c l = none) :
    (∀ a x, c.act? a = some x → x.phase = .done) ∧ c.tokens = 0 ∧
    (∀ k, k < n → (c.tops.lookup k).isSome = true ∨
      (F.parallel = false ∧ ∃ k' id r, k' < k ∧ c.tops.lookup k' = some id ∧ kidDone c id = some r ∧
        r.isOk = false)) := by
  have hstuck : ∀ l, ¬ (step P F c l).isSome = true := by intro l hl; rw [hq l] at hl; cases hl
  have hdone : ∀ a x, c.act? a = some x → x.phase = .done := by
    intro a x hx
    cases hp : decide (x.phase = .done) with
    | true => simpa using hp
    | false =>
      have hnd : x.phase ≠ .done := by simpa using hp
      obtain ⟨l, hl⟩ := no_deadlock P F rank hr n tr c hcap hk h a x hx hnd
      exact absurd hl (hstuck l)
  obtain ⟨hlive, _, htok⟩ := live_trace_reach P F n tr c h
  have htops := replay_inv P F (TopsInv n) (fun c l c' hi hs => topsInv_step P F n c l c' hi hs) (init n) tr c
    (topsInv_init n) h
  refine ⟨hdone, ?_, ?_⟩
  · rw [htok.2.2]
    unfold holders cnt
    rw [List.countP_eq_zero]
    intro a _
    unfold actB
    cases hx : c.act? a with
    | none => simp
    | some x =>
      have := (hlive.loc a x hx).holds
      unfold HoldsInv at this
      rw [hdone a x hx] at this
      simp [this, holdPhase]
  · intro k
    induction k using Nat.strongRecOn with
    | _ k ih =>
      intro hkn
      cases hlk : c.tops.lookup k with
      | some _ => left; rfl
      | none =>
        right
        have hkc : k < c.ncalls := by rw [htops.ncalls]; exact hkn
        have hno : ¬ (F.parallel = true ∨ k = 0 ∨
            ∃ pid r, c.tops.lookup (k - 1) = some pid ∧ kidDone c pid = some r ∧ r.isOk = true) := by
          intro hprev
          obtain ⟨l, hl⟩ := top_enter_enabled P F c k 0 hkc hlk hprev
          exact hstuck l hl
        have hpar : F.parallel = false := by
          cases hp : F.parallel with
          | false => rfl
          | true => exact absurd (.inl hp) hno
        have hk0 : k ≠ 0 := fun e => hno (.inr (.inl e))
        refine ⟨hpar, ?_⟩
        cases hprev : c.tops.lookup (k - 1) with
        | none =>
          rcases ih (k - 1) (by omega) (by omega) with hs | ⟨_, k', id, r, h1, h2, h3, h4⟩
          · rw [hprev] at hs; cases hs
          · exact ⟨k', id, r, by omega, h2, h3, h4⟩
        | some pid =>
          have hb := htops.bound (k - 1) pid hprev
          cases hz : c.act? pid with
          | none => rw [hz] at hb; cases hb
          | some z =>
            have hkd : kidDone c pid = some z.res := by simp [kidDone, hz, hdone pid z hz]
            cases hok : z.res.isOk with
            | true => exact absurd (.inr (.inr ⟨pid, z.res, hprev, hkd, hok⟩)) hno
            | false => exact ⟨k - 1, pid, z.res, by omega, hprev, hkd, hok⟩

end TaskModel.Sched.S7
