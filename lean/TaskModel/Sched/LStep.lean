import TaskModel.Sched.Model
/-! `LStep`: the local transition function `stepLocal` as an inductive relation, one
constructor per accepted (event, phase) combination, with the side conditions as clean
hypotheses.  `stepLocal_iff` proves the two coincide, so case analyses on local steps can
be done with `cases` instead of unfolding the function each time. -/
namespace TaskModel.Sched.S2

inductive LStep (F : Flags) (o : Obs) (x : Act) : Ev → Act → Eff → Prop
  | exitEarly (hp : x.phase = .early) : LStep F o x .exit { x with phase := .done } .none
  | acquire (hp : x.phase = .entered) (hc : o.capFree = true) :
      LStep F o x .acquire { x with phase := .acquired, holds := true } .acq
  | register (k : Nat) (hp : x.phase = .acquired) (hr : x.def_.run ≠ .always) (hk : o.registered k = false) :
      LStep F o x (.register k) { x with phase := .exec, key := some k } (.reg k)
  | waiter (k : Nat) (hp : x.phase = .acquired) (hr : x.def_.run ≠ .always) (hk : o.registered k = true)
      (hcyc : o.cyc k = false) :
      LStep F o x (.waiter k) { x with phase := .wWaiting, waitsFor := some k } (.wait k)
  | waitCycle (k : Nat) (hp : x.phase = .acquired) (hr : x.def_.run ≠ .always) (hk : o.registered k = true)
      (hcyc : o.cyc k = true) :
      LStep F o x (.waitCycle k) (x.stop (.typed 204)) .none
  | wRelease (hp : x.phase = .wWaiting) : LStep F o x .wRelease { x with phase := .wReleased, holds := false } .rel
  | wWake (r : Outcome) (hp : x.phase = .wReleased) (he : o.execResult () = some r) :
      LStep F o x .wWake { x with phase := .wWoken, res := wrapFor x.indirect r, out := r } .none
  | wReacq (hp : x.phase = .wWoken) (hc : o.capFree = true) :
      LStep F o x .wReacq { x with phase := .finished, holds := true } .acq
  | depsReleaseA (hp : x.phase = .acquired) (hr : x.def_.run = .always) :
      LStep F o x .depsRelease { x with phase := .depsWait, holds := false } .rel
  | depsReleaseE (hp : x.phase = .exec) :
      LStep F o x .depsRelease { x with phase := .depsWait, holds := false } .rel
  | depsReacq (hp : x.phase = .depsWait) (hd : (o.deps ()).isSome = true) (hc : o.capFree = true) :
      LStep F o x .depsReacq { x with phase := .depsJoined, holds := true } .acq
  | depsDoneOk (r : Res) (rs : List Res) (hp : x.phase = .depsJoined) (hd : o.deps () = some rs)
      (hr : r.isOk = true) (ha : rs.all Res.isOk = true) :
      LStep F o x (.depsDone r) { x with phase := .guards } .none
  | depsDoneFail (r : Res) (rs : List Res) (hp : x.phase = .depsJoined) (hd : o.deps () = some rs)
      (hr : r.isOk = false) (hm : rs.contains r = true) :
      LStep F o x (.depsDone r) (x.stopDeps r) .none
  | ctxErr (hp : x.phase = .guards) (hc : o.cancelled () = true) : LStep F o x .ctxErr (x.stop .ctx) .none
  | precondFail (hp : x.phase = .guards) (hc : (!x.def_.precondOk || o.cancelled ()) = true) :
      LStep F o x .precondFail (x.stop .generic) .none
  | upToDate (hp : x.phase = .guards)
      (hc : (x.def_.precondOk && x.def_.upToDate && !skipFingerprinting F x) = true) :
      LStep F o x .upToDate (x.stop .ok) .none
  | promptFail (hp : x.phase = .guards)
      (hc : (x.def_.precondOk && x.def_.prompt && !F.yes &&
        (skipFingerprinting F x || !x.def_.upToDate || o.cancelled ())) = true) :
      LStep F o x .promptFail (x.stop (promptRes F)) .none
  | guardsPassed (hp : x.phase = .guards)
      (hc : (x.def_.precondOk && (!x.def_.prompt || F.yes) &&
        (skipFingerprinting F x || !x.def_.upToDate || o.cancelled ())) = true) :
      LStep F o x .guardsPassed (x.next x.def_.cmds 0) .none
  | cmdStartBody (k : Nat) (ie : Bool) (tl : List Cmd) (hp : x.phase = .body)
      (hr : x.rest = .shell k ie false :: tl) :
      LStep F o x (.cmdStart x.idx none false)
        { x with phase := .inShell x.idx false, started := x.started ++ [x.idx] } .none
  | cmdEndBody (i : Nat) (r : Res) (cmd : Cmd) (tl : List Cmd) (hp : x.phase = .inShell i false)
      (hr : x.rest = cmd :: tl) (hc : r = .ctx → o.cancelled () = true)
      (hs : r = .ctx ∨ r = .generic ∨ r = shellRes cmd ∨ r = altRes cmd) :
      LStep F o x (.cmdEnd i r) (x.afterCmd cmd r) .none
  | callReleaseBody (t : Nat) (tl : List Cmd) (hp : x.phase = .body) (hr : x.rest = .call t false :: tl) :
      LStep F o x (.callRelease x.idx false)
        { x with phase := .inCall x.idx false, holds := false, started := x.started ++ [x.idx] } .rel
  | callRet (i : Nat) (d : Bool) (r : Res) (hp : x.phase = .inCall i d) (hk : o.callKid () = some r) :
      LStep F o x (.callRet i) { x with phase := .callReturned i d, callRes := r } .none
  | callReacqDefer (i : Nat) (hp : x.phase = .callReturned i true) (hc : o.capFree = true) :
      LStep F o x (.callReacq i) ({ x with holds := true }).afterDefer .acq
  | callReacqBody (i : Nat) (cmd : Cmd) (tl : List Cmd) (hp : x.phase = .callReturned i false)
      (hc : o.capFree = true) (hr : x.rest = cmd :: tl) :
      LStep F o x (.callReacq i) (({ x with holds := true }).afterCmd cmd x.callRes) .acq
  | cmdStartDefer (j : Nat) (tl : List Nat) (k : Nat) (ie : Bool) (hp : x.phase = .defers)
      (hs : x.stack = j :: tl) (hd : x.def_.cmds[j]? = some (.shell k ie true)) :
      LStep F o x (.cmdStart j (if x.exitCode > 0 then some x.exitCode else none) true)
        { x with phase := .inShell j true } .none
  | cmdEndDefer (j : Nat) (r : Res) (cmd : Cmd) (hp : x.phase = .inShell j true)
      (hd : x.def_.cmds[j]? = some cmd) (hs : r = .generic ∨ r = shellRes cmd ∨ r = altRes cmd) :
      LStep F o x (.cmdEnd j r) x.afterDefer .none
  | callReleaseDefer (j : Nat) (tl : List Nat) (t : Nat) (hp : x.phase = .defers)
      (hs : x.stack = j :: tl) (hd : x.def_.cmds[j]? = some (.call t true)) :
      LStep F o x (.callRelease j true) { x with phase := .inCall j true, holds := false } .rel
  | execDone (hp : x.phase = .finished) (hk : x.key.isSome = true) :
      LStep F o x .execDone { x with phase := .execDoneP } .none
  | releaseF (hp : x.phase = .finished) (hk : x.key.isNone = true) :
      LStep F o x .release { x with phase := .released, holds := false } .rel
  | releaseE (hp : x.phase = .execDoneP) :
      LStep F o x .release { x with phase := .released, holds := false } .rel
  | exitReleased (hp : x.phase = .released) : LStep F o x .exit { x with phase := .done } .none

set_option maxHeartbeats 1000000 in
theorem LStep_of_stepLocal (F : Flags) (o : Obs) (x : Act) (ev : Ev) (y : Act) (eff : Eff)
    (h : stepLocal F o x ev = some (y, eff)) : LStep F o x ev y eff := by
  unfold stepLocal at h
  split at h
  all_goals (try (rename_i hph))
  all_goals (try (repeat' split at h))
  all_goals (try cases h)
  all_goals (try (first
    | (apply LStep.exitEarly <;> simp_all <;> done)
    | (apply LStep.acquire <;> simp_all <;> done)
    | (apply LStep.register <;> simp_all <;> done)
    | (apply LStep.waiter <;> simp_all <;> done)
    | (apply LStep.waitCycle <;> simp_all <;> done)
    | (apply LStep.wRelease <;> simp_all <;> done)
    | (apply LStep.wWake <;> simp_all <;> done)
    | (apply LStep.wReacq <;> simp_all <;> done)
    | (apply LStep.depsReleaseA <;> simp_all <;> done)
    | (apply LStep.depsReleaseE <;> simp_all <;> done)
    | (apply LStep.depsReacq <;> simp_all <;> done)
    | (apply LStep.depsDoneOk <;> simp_all <;> done)
    | (apply LStep.depsDoneFail <;> simp_all <;> done)
    | (apply LStep.ctxErr <;> simp_all <;> done)
    | (apply LStep.precondFail <;> simp_all <;> done)
    | (apply LStep.upToDate <;> simp_all <;> done)
    | (apply LStep.promptFail <;> simp_all <;> done)
    | (apply LStep.guardsPassed <;> simp_all <;> done)
    | (apply LStep.execDone <;> simp_all <;> done)
    | (apply LStep.releaseF <;> simp_all <;> done)
    | (apply LStep.releaseE <;> simp_all <;> done)
    | (apply LStep.exitReleased <;> simp_all <;> done)
    | (apply LStep.callRet <;> simp_all <;> done)))
  -- depsDone ok
  · rename_i hd hr ha
    exact LStep.depsDoneOk _ _ hph hd hr ha
  -- depsDone: a dependency failed
  · rename_i hd hr hm
    exact LStep.depsDoneFail _ _ hph hd (by simpa using hr) hm
  -- cmdStart (body)
  · rename_i seen d _ _ _ _ hr hc
    simp only [Bool.and_eq_true, decide_eq_true_eq, Bool.not_eq_true', Option.isNone_iff_eq_none] at hc
    obtain ⟨⟨rfl, rfl⟩, rfl⟩ := hc
    exact LStep.cmdStartBody _ _ _ hph hr
  -- cmdEnd (body)
  · rename_i r _ hij _ cmd _ hr hc hs
    have hij' : _ = _ := Decidable.not_not.mp hij
    subst hij'
    refine LStep.cmdEndBody _ _ _ _ hph hr ?_ ?_
    · intro e; subst e; simpa using hc
    · simp only [Bool.and_eq_true, decide_eq_true_eq, ne_eq, not_and, Decidable.not_not] at hs
      by_cases h1 : r = Res.ctx
      · exact .inl h1
      · by_cases h2 : r = Res.generic
        · exact .inr (.inl h2)
        · by_cases h3 : r = shellRes cmd
          · exact .inr (.inr (.inl h3))
          · exact .inr (.inr (.inr (hs ⟨⟨h1, h2⟩, h3⟩)))
  -- callRelease (body)
  · rename_i hr hc
    simp only [Bool.and_eq_true, decide_eq_true_eq, Bool.not_eq_true'] at hc
    obtain ⟨rfl, rfl⟩ := hc
    exact LStep.callReleaseBody _ _ hph hr
  -- callReacq (deferred call)
  · rename_i hc hd
    simp only [Bool.or_eq_true, decide_eq_true_eq, not_or, Decidable.not_not, Bool.not_eq_true', Bool.not_eq_false] at hc
    obtain ⟨rfl, hcap⟩ := hc
    subst hd
    exact LStep.callReacqDefer _ hph hcap
  -- callReacq (call in the body)
  · rename_i hc hd _ _ _ hr
    simp only [Bool.or_eq_true, decide_eq_true_eq, not_or, Decidable.not_not, Bool.not_eq_true', Bool.not_eq_false] at hc
    obtain ⟨rfl, hcap⟩ := hc
    have hd' : _ = false := Bool.eq_false_iff.mpr hd
    subst hd'
    exact LStep.callReacqBody _ _ _ hph hcap hr
  -- cmdStart of a deferred entry
  · rename_i hs _ _ _ hd hx
    simp only at h
    split at h
    · rename_i hc
      cases h
      simp only [Bool.and_eq_true, decide_eq_true_eq] at hc
      obtain ⟨⟨rfl, rfl⟩, rfl⟩ := hc
      have := LStep.cmdStartDefer (F := F) (o := o) (x := x) _ _ _ _ hph hs hd
      simpa [hx] using this
    · cases h
  · rename_i hs _ _ _ hd hx
    simp only at h
    split at h
    · rename_i hc
      cases h
      simp only [Bool.and_eq_true, decide_eq_true_eq] at hc
      obtain ⟨⟨rfl, rfl⟩, rfl⟩ := hc
      have := LStep.cmdStartDefer (F := F) (o := o) (x := x) _ _ _ _ hph hs hd
      simpa [hx] using this
    · cases h
  -- cmdEnd of a deferred entry
  · rename_i r _ hij _ cmd hd hs
    have hij' : _ = _ := Decidable.not_not.mp hij
    subst hij'
    refine LStep.cmdEndDefer _ _ _ hph hd ?_
    simp only [Bool.and_eq_true, decide_eq_true_eq, ne_eq, not_and, Decidable.not_not] at hs
    by_cases h2 : r = Res.generic
    · exact .inl h2
    · by_cases h3 : r = shellRes cmd
      · exact .inr (.inl h3)
      · exact .inr (.inr (hs ⟨h2, h3⟩))
  -- callRelease of a deferred call
  · rename_i hs _ _ hd hc
    simp only [Bool.and_eq_true, decide_eq_true_eq] at hc
    obtain ⟨rfl, rfl⟩ := hc
    exact LStep.callReleaseDefer _ _ _ hph hs hd

set_option maxHeartbeats 1000000 in
theorem stepLocal_of_LStep (F : Flags) (o : Obs) (x : Act) (ev : Ev) (y : Act) (eff : Eff)
    (h : LStep F o x ev y eff) : stepLocal F o x ev = some (y, eff) := by
  cases h with
  | wWake r hp he => unfold stepLocal; rw [hp]; simp only [he]
  | _ => ?_
  all_goals simp_all [stepLocal]
  · rename_i hs
    intro h1 h2 h3
    rcases hs with h | h | h | h
    · exact absurd h h1
    · exact absurd h h2
    · exact absurd h h3
    · exact h
  · rename_i hs
    intro h2 h3
    rcases hs with h | h | h
    · exact absurd h h2
    · exact absurd h h3
    · exact h

/-- `LStep` is exactly the graph of `stepLocal` -/
theorem stepLocal_iff (F : Flags) (o : Obs) (x : Act) (ev : Ev) (y : Act) (eff : Eff) :
    stepLocal F o x ev = some (y, eff) ↔ LStep F o x ev y eff :=
  ⟨LStep_of_stepLocal F o x ev y eff, stepLocal_of_LStep F o x ev y eff⟩

end TaskModel.Sched.S2
