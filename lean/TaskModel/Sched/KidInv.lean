import TaskModel.Sched.TreeLemmas
/-! The tree invariant `KInv`: slots are used once; kids may be running only while the
parent waits for them (`depsWait`, `inCall`); the result a `task:` command continues
with is the callee's result; an activation gets past its dependency join only if every
dependency activation has finished successfully. -/
namespace TaskModel.Sched.S2

/-- may the kid in `slot` of an activation in this state still be running? -/
def mayRun (x : Act) (slot : Nat) : Prop :=
  x.phase = .depsWait ∨ ∃ i d, x.phase = .inCall i d ∧ slot = slotOfCall x i

/-- phases before the dependencies are started -/
def preDeps : Phase → Bool
  | .early | .entered | .acquired | .wWaiting | .wReleased | .wWoken | .exec => true
  | _ => false

/-- guards and the non-deferred part of the command loop -/
def bodyPhase : Phase → Bool
  | .guards | .body | .inShell _ false | .inCall _ false | .callReturned _ false => true
  | _ => false

/-- deferred part and after -/
def lateP : Phase → Bool
  | .defers | .finished | .execDoneP | .released | .done
  | .inShell _ true | .inCall _ true | .callReturned _ true => true
  | _ => false

/-- evidence that the activation got past its dependency join successfully: it is in (or
has visibly been in) the guards / command loop, or it has finished successfully after
having started dependencies -/
def depsPassed (x : Act) : Prop :=
  bodyPhase x.phase = true ∨ x.started ≠ [] ∨ x.regs ≠ [] ∨
  (x.res.isOk = true ∧ lateP x.phase = true ∧ ∃ s id, (s, id) ∈ x.kids ∧ s < x.def_.deps.length)

/-- every dependency activation has finished with a successful result -/
def depsAllOk (f : Nat → Option Res) (x : Act) : Prop :=
  ∀ j, j < x.def_.deps.length → ∃ id r, x.kids.lookup (slotOfDep j) = some id ∧ f id = some r ∧ r.isOk = true

structure KInv (f : Nat → Option Res) (x : Act) : Prop where
  uniq : ∀ s id, (s, id) ∈ x.kids → x.kids.lookup s = some id
  fin : ∀ s id, (s, id) ∈ x.kids → (f id).isSome = true ∨ mayRun x s
  depSlots : x.phase = .depsWait → ∀ s id, (s, id) ∈ x.kids → s < x.def_.deps.length
  noKids : preDeps x.phase = true → x.kids = []
  callRes : ∀ i d, x.phase = .callReturned i d →
    ∃ id, x.kids.lookup (slotOfCall x i) = some id ∧ f id = some x.callRes
  depsOk : depsPassed x → depsAllOk f x

theorem KInv_mono (f g : Nat → Option Res) (x : Act) (h : ∀ id r, f id = some r → g id = some r)
    (hK : KInv f x) : KInv g x := by
  refine ⟨hK.uniq, ?_, hK.depSlots, hK.noKids, ?_, ?_⟩
  · intro s id hm
    rcases hK.fin s id hm with h1 | h1
    · left
      cases hf : f id with
      | none => rw [hf] at h1; cases h1
      | some r => rw [h id r hf]; rfl
    · exact .inr h1
  · intro i d hp
    obtain ⟨id, h1, h2⟩ := hK.callRes i d hp
    exact ⟨id, h1, h id _ h2⟩
  · intro hp j hj
    obtain ⟨id, r, h1, h2, h3⟩ := hK.depsOk hp j hj
    exact ⟨id, r, h1, h id r h2, h3⟩

theorem KInv_fresh (P : Program) (F : Flags) (f : Nat → Option Res) (c : Config) (kind : Kind) (t : Nat) :
    KInv f (freshAct P F c kind t) := by
  obtain ⟨hph, _, hrg, _, hst, _, _, _, _, hk, _⟩ := freshAct_fields P F c kind t
  refine ⟨?_, ?_, ?_, fun _ => hk, ?_, ?_⟩
  · intro s id hm; rw [hk] at hm; cases hm
  · intro s id hm; rw [hk] at hm; cases hm
  · intro _ s id hm; rw [hk] at hm; cases hm
  · intro i d hp; rcases hph with h | h <;> rw [h] at hp <;> cases hp
  · intro hp
    rcases hp with h | h | h | ⟨_, _, s, id, hm, _⟩
    · rcases hph with h' | h' <;> rw [h'] at h <;> cases h
    · exact absurd hst h
    · exact absurd hrg h
    · rw [hk] at hm; cases hm

theorem lookup_cons_ne {α} (k s : Nat) (v : α) (l : List (Nat × α)) (h : s ≠ k) :
    List.lookup s ((k, v) :: l) = List.lookup s l := by
  have : (s == k) = false := by simpa using h
  simp [List.lookup, this]

theorem lookup_cons_self {α} (k : Nat) (v : α) (l : List (Nat × α)) :
    List.lookup k ((k, v) :: l) = some v := by
  simp [List.lookup]

theorem KInv_kid (f : Nat → Option Res) (px : Act) (b a : Nat) (kind : Kind) (t slot : Nat)
    (hK : KInv f px) (hg : GainsKid px b kind t slot) :
    KInv f { px with kids := (slot, a) :: px.kids } := by
  obtain ⟨hfree, hph⟩ := hg
  have hne : ∀ s id, (s, id) ∈ px.kids → s ≠ slot := by
    intro s id hm e; subst e
    rw [hK.uniq s id hm] at hfree; cases hfree
  have hlk : ∀ s, (∃ id, px.kids.lookup s = some id) →
      List.lookup s ((slot, a) :: px.kids) = px.kids.lookup s := by
    intro s ⟨id, hs⟩
    apply lookup_cons_ne
    intro e; subst e; rw [hs] at hfree; cases hfree
  refine ⟨?_, ?_, ?_, ?_, ?_, ?_⟩
  · intro s id hm
    simp only [List.mem_cons, Prod.mk.injEq] at hm
    rcases hm with ⟨rfl, rfl⟩ | hm
    · exact lookup_cons_self _ _ _
    · show List.lookup s ((slot, a) :: px.kids) = some id
      rw [lookup_cons_ne _ _ _ _ (hne s id hm)]
      exact hK.uniq s id hm
  · intro s id hm
    simp only [List.mem_cons, Prod.mk.injEq] at hm
    rcases hm with ⟨rfl, rfl⟩ | hm
    · right
      rcases hph with ⟨h, _⟩ | ⟨i, d, h, hs, _⟩
      · exact .inl h
      · exact .inr ⟨i, d, h, hs⟩
    · exact hK.fin s id hm
  · intro hp s id hm
    simp only [List.mem_cons, Prod.mk.injEq] at hm
    rcases hm with ⟨rfl, rfl⟩ | hm
    · rcases hph with ⟨_, h, _⟩ | ⟨i, d, h, _⟩
      · exact h
      · simp only at hp; rw [h] at hp; cases hp
    · exact hK.depSlots hp s id hm
  · intro hp
    simp only at hp
    rcases hph with ⟨h, _⟩ | ⟨i, d, h, _⟩ <;> rw [h] at hp <;> cases hp
  · intro i d hp
    simp only at hp
    rcases hph with ⟨h, _⟩ | ⟨i, d, h, _⟩ <;> rw [h] at hp <;> cases hp
  · intro hp j hj
    have hp' : depsPassed px := by
      rcases hp with h | h | h | ⟨h1, h2, s, id, hm, hs⟩
      · exact .inl h
      · exact .inr (.inl h)
      · exact .inr (.inr (.inl h))
      · refine .inr (.inr (.inr ⟨h1, h2, s, id, ?_, hs⟩))
        simp only [List.mem_cons, Prod.mk.injEq] at hm
        rcases hm with ⟨rfl, rfl⟩ | hm
        · rcases hph with ⟨h, _⟩ | ⟨i, d, h, hsl, _⟩
          · simp only at h2; rw [h] at h2; cases h2
          · simp only [slotOfCall] at hsl hs; omega
        · exact hm
    obtain ⟨id, r, h1, h2, h3⟩ := hK.depsOk hp' j hj
    refine ⟨id, r, ?_, h2, h3⟩
    show List.lookup (slotOfDep j) ((slot, a) :: px.kids) = some id
    rw [hlk _ ⟨id, h1⟩]; exact h1

/-- `depResults` succeeds only if every dependency slot holds a finished activation -/
theorem depResults_spec (c : Config) (x : Act) : ∀ (n j : Nat) (rs : List Res), depResults c x n j = some rs →
    ∀ k, k < n → ∃ id r, x.kids.lookup (slotOfDep (j + k)) = some id ∧ kidDone c id = some r ∧ r ∈ rs := by
  intro n
  induction n with
  | zero => intro j rs _ k hk; cases hk
  | succ n ih =>
    intro j rs h k hk
    simp only [depResults] at h
    split at h
    · cases h
    · rename_i id hid
      split at h
      · rename_i r rs' hr hrs
        cases h
        cases k with
        | zero => exact ⟨id, r, by simpa using hid, hr, List.mem_cons_self⟩
        | succ k =>
          obtain ⟨id', r', h1, h2, h3⟩ := ih (j+1) rs' hrs k (Nat.lt_of_succ_lt_succ hk)
          refine ⟨id', r', ?_, h2, List.mem_cons_of_mem _ h3⟩
          have : j + (k + 1) = j + 1 + k := by omega
          rw [this]; exact h1
      · cases h

theorem callKidOf_spec (c : Config) (x : Act) (i : Nat) (d : Bool) (r : Res)
    (hp : x.phase = .inCall i d) (h : callKidOf c x = some r) :
    ∃ id, x.kids.lookup (slotOfCall x i) = some id ∧ kidDone c id = some r := by
  unfold callKidOf at h
  rw [hp] at h
  simp only at h
  split at h
  · rename_i id hid; exact ⟨id, hid, h⟩
  · cases h

/-- steps that neither join kids nor pass the dependency join -/
theorem KInv_same (f : Nat → Option Res) (x y : Act) (hf : Frame x y)
    (hmr : ∀ s, mayRun x s → mayRun y s)
    (hdw : y.phase = .depsWait → preDeps x.phase = true)
    (hpd : preDeps y.phase = true → preDeps x.phase = true)
    (hcr : ∀ i d, y.phase ≠ .callReturned i d)
    (hdp : depsPassed y → depsPassed x)
    (hK : KInv f x) : KInv f y := by
  obtain ⟨hk, hd, _, _, _⟩ := hf
  refine ⟨by rw [hk]; exact hK.uniq, ?_, ?_, ?_, ?_, ?_⟩
  · intro s id hm
    rw [hk] at hm
    rcases hK.fin s id hm with h | h
    · exact .inl h
    · exact .inr (hmr s h)
  · intro hp s id hm
    rw [hk] at hm
    rw [hK.noKids (hdw hp)] at hm; cases hm
  · intro hp; rw [hk]; exact hK.noKids (hpd hp)
  · intro i d hp; exact absurd hp (hcr i d)
  · intro hp j hj
    rw [hd] at hj
    obtain ⟨id, r, h1, h2, h3⟩ := hK.depsOk (hdp hp) j hj
    exact ⟨id, r, by rw [hk]; exact h1, h2, h3⟩

theorem KInv_local (F : Flags) (c : Config) (a : Nat) (x : Act) (ev : Ev) (y : Act) (eff : Eff)
    (hK : KInv (kidDone c) x) (h : stepLocal F (obsOf F c a x) x ev = some (y, eff)) :
    KInv (kidDone c) y := by
  have hf := (stepLocal_frame F _ x ev y eff h).1
  have hL := LStep_of_stepLocal F _ x ev y eff h
  have hnk := hK.noKids
  cases hL with
  | depsReacq hp hd hc =>
    -- all dependency activations have returned
    obtain ⟨rs, hrs⟩ := Option.isSome_iff_exists.mp hd
    have hspec := depResults_spec c x _ 0 rs hrs
    refine ⟨hK.uniq, ?_, ?_, ?_, ?_, ?_⟩
    · intro s id hm
      left
      obtain ⟨id', r, h1, h2, _⟩ := hspec s (hK.depSlots hp s id hm)
      simp only [slotOfDep, Nat.zero_add] at h1
      have := hK.uniq s id hm
      rw [h1] at this; cases this
      rw [h2]; rfl
    · intro hh; cases hh
    · intro hh; cases hh
    · intro i d hh; cases hh
    · intro hh
      refine hK.depsOk ?_
      rcases hh with h1 | h1 | h1 | ⟨_, h1, _⟩
      · cases h1
      · exact .inr (.inl h1)
      · exact .inr (.inr (.inl h1))
      · cases h1
  | callRet i d r hp hk =>
    obtain ⟨kid, hk1, hk2⟩ := callKidOf_spec c x i d r hp hk
    refine ⟨hK.uniq, ?_, ?_, ?_, ?_, ?_⟩
    · intro s id hm
      left
      rcases hK.fin s id hm with h1 | h1 | ⟨i', d', h1, h2⟩
      · exact h1
      · rw [hp] at h1; cases h1
      · rw [hp] at h1; cases h1
        have := hK.uniq s id hm
        rw [h2, hk1] at this; cases this
        rw [hk2]; rfl
    · intro hh; cases hh
    · intro hh; cases hh
    · intro i' d' hh
      cases hh
      exact ⟨kid, hk1, hk2⟩
    · intro hh
      refine hK.depsOk ?_
      rcases hh with h1 | h1 | h1 | ⟨h1, h2, h3⟩
      · left; rw [hp]; cases d <;> first | exact h1 | rfl
      · exact .inr (.inl h1)
      · exact .inr (.inr (.inl h1))
      · refine .inr (.inr (.inr ⟨h1, ?_, h3⟩))
        rw [hp]; cases d <;> first | exact h2 | rfl
  | depsDoneOk r rs hp hd hr ha =>
    have hspec := depResults_spec c x _ 0 rs hd
    refine ⟨hK.uniq, ?_, ?_, ?_, ?_, ?_⟩
    · intro s id hm
      rcases hK.fin s id hm with h1 | h1 | ⟨i', d', h1, _⟩
      · exact .inl h1
      · rw [hp] at h1; cases h1
      · rw [hp] at h1; cases h1
    · intro hh; cases hh
    · intro hh; cases hh
    · intro i d hh; cases hh
    · intro _ j hj
      obtain ⟨id, r', h1, h2, h3⟩ := hspec j hj
      simp only [Nat.zero_add] at h1
      exact ⟨id, r', h1, h2, List.all_eq_true.mp ha r' h3⟩
  | guardsPassed hp hc =>
    have hph := next_phase x x.def_.cmds 0
    refine KInv_same _ x _ hf ?_ ?_ ?_ ?_ ?_ hK
    · intro s hm; simp_all [mayRun]
    · intro hh; rcases hph with h1 | ⟨h1, _⟩ | ⟨h1, _⟩ <;> rw [h1] at hh <;> cases hh
    · intro hh; rcases hph with h1 | ⟨h1, _⟩ | ⟨h1, _⟩ <;> rw [h1] at hh <;> cases hh
    · intro i d hh; rcases hph with h1 | ⟨h1, _⟩ | ⟨h1, _⟩ <;> rw [h1] at hh <;> cases hh
    · intro _; left; rw [hp]; rfl
  | cmdEndBody i r cmd tl hp hr hc hs =>
    have hph := afterCmd_phase x cmd r
    refine KInv_same _ x _ hf ?_ ?_ ?_ ?_ ?_ hK
    · intro s hm; simp_all [mayRun]
    · intro hh; rcases hph with h1 | h1 | h1 <;> rw [h1] at hh <;> cases hh
    · intro hh; rcases hph with h1 | h1 | h1 <;> rw [h1] at hh <;> cases hh
    · intro i d hh; rcases hph with h1 | h1 | h1 <;> rw [h1] at hh <;> cases hh
    · intro _; left; rw [hp]; rfl
  | callReacqBody i cmd tl hp hc hr =>
    have hph := afterCmd_phase { x with holds := true } cmd x.callRes
    refine KInv_same _ x _ hf ?_ ?_ ?_ ?_ ?_ hK
    · intro s hm; simp_all [mayRun]
    · intro hh; rcases hph with h1 | h1 | h1 <;> rw [h1] at hh <;> cases hh
    · intro hh; rcases hph with h1 | h1 | h1 <;> rw [h1] at hh <;> cases hh
    · intro i d hh; rcases hph with h1 | h1 | h1 <;> rw [h1] at hh <;> cases hh
    · intro _; left; rw [hp]; rfl
  | callReacqDefer i hp hc =>
    have hph := afterDefer_phase { x with holds := true }
    obtain ⟨e1, e2, e3, _⟩ := afterDefer_fields { x with holds := true }
    refine KInv_same _ x _ hf ?_ ?_ ?_ ?_ ?_ hK
    · intro s hm; simp_all [mayRun]
    · intro hh; rcases hph with h1 | h1 <;> rw [h1] at hh <;> cases hh
    · intro hh; rcases hph with h1 | h1 <;> rw [h1] at hh <;> cases hh
    · intro i d hh; rcases hph with h1 | h1 <;> rw [h1] at hh <;> cases hh
    · intro hh
      rcases hh with h1 | h1 | h1 | ⟨h1, _, h3⟩
      · rcases hph with h2 | h2 <;> rw [h2] at h1 <;> cases h1
      · rw [e2] at h1; exact .inr (.inl h1)
      · rw [e1] at h1; exact .inr (.inr (.inl h1))
      · rw [e3] at h1; rw [hf.1] at h3; rw [hf.2.1] at h3
        exact .inr (.inr (.inr ⟨h1, by rw [hp]; rfl, h3⟩))
  | cmdEndDefer j r cmd hp hd hs =>
    have hph := afterDefer_phase x
    obtain ⟨e1, e2, e3, _⟩ := afterDefer_fields x
    refine KInv_same _ x _ hf ?_ ?_ ?_ ?_ ?_ hK
    · intro s hm; simp_all [mayRun]
    · intro hh; rcases hph with h1 | h1 <;> rw [h1] at hh <;> cases hh
    · intro hh; rcases hph with h1 | h1 <;> rw [h1] at hh <;> cases hh
    · intro i d hh; rcases hph with h1 | h1 <;> rw [h1] at hh <;> cases hh
    · intro hh
      rcases hh with h1 | h1 | h1 | ⟨h1, _, h3⟩
      · rcases hph with h2 | h2 <;> rw [h2] at h1 <;> cases h1
      · rw [e2] at h1; exact .inr (.inl h1)
      · rw [e1] at h1; exact .inr (.inr (.inl h1))
      · rw [e3] at h1; rw [hf.1] at h3; rw [hf.2.1] at h3
        exact .inr (.inr (.inr ⟨h1, by rw [hp]; rfl, h3⟩))
  | depsDoneFail r rs hp hd hr hm =>
    refine KInv_same _ x _ hf ?_ ?_ ?_ ?_ ?_ hK
    · intro s hm; simp_all [mayRun]
    · intro hh; cases hh
    · intro hh; cases hh
    · intro i d hh; cases hh
    · intro hh
      rcases hh with h1 | h1 | h1 | ⟨h1, _, _⟩
      · cases h1
      · exact .inr (.inl h1)
      · exact .inr (.inr (.inl h1))
      · simp only [Act.stopDeps, depErr_isOk] at h1; rw [hr] at h1; cases h1
  | _ =>
    refine KInv_same _ x _ hf ?_ ?_ ?_ ?_ ?_ hK
    · intro s hm; simp_all [mayRun]
    · intro hp; simp_all [preDeps, Act.stop]
    · intro hp; simp_all [preDeps, Act.stop]
    · intro i d hp; simp_all [Act.stop]
    · intro hp; simp_all [depsPassed, bodyPhase, lateP, preDeps, Act.stop]

/-- **The tree invariant holds of every activation of every reachable configuration.** -/
theorem KInv_sound (P : Program) (F : Flags) (n : Nat) (tr : List Label) (c : Config)
    (h : replay P F (init n) tr = some c) (a : Nat) (x : Act) (hx : c.act? a = some x) :
    KInv (kidDone c) x :=
  kidInv_sound P F KInv KInv_mono (fun f c kind t => KInv_fresh P F f c kind t)
    (fun f px b a kind t slot hK hg _ => KInv_kid f px b a kind t slot hK hg)
    (fun c a x ev y eff _ hK hs => KInv_local F c a x ev y eff hK hs) n tr c h a x hx

end TaskModel.Sched.S2
