import TaskModel.Sched.CountLemmas
/-!
Sched.CallLemmas — the per-task call counter (`taskCallCount`, `MaximumTaskCall`).

`callCount t` is exactly the number of `enter` events of task `t` (if the guards that
precede the counter pass); an activation leaves `enter` in phase `entered` only if the
counter is still below the limit, and `entered` is left only by `acquire`; hence fewer
than `maxCalls` activations of one task ever take a slot.
-/
namespace TaskModel.Sched.S7

/-- do the checks that precede the call counter pass for task `t`? -/
def bumps (P : Program) (t : Nat) : Bool :=
  match P[t]? with
  | some d => d.platformOk && d.requiresOk && d.compileOk && d.enumOk
  | none => false

def isEnterOf (t : Nat) (l : Label) : Bool :=
  match l.ev with
  | .enter _ t' => t' == t
  | _ => false

/-- number of `enter` events of task `t` -/
def enters (t : Nat) (tr : List Label) : Nat := tr.countP (isEnterOf t)

/-- the activations that took a slot for the first time (`acquire`), in order -/
def acquirers : List Label → List Nat
  | [] => []
  | l :: ls => if l.ev = .acquire then l.act :: acquirers ls else acquirers ls

theorem acquirers_append (t1 t2 : List Label) : acquirers (t1 ++ t2) = acquirers t1 ++ acquirers t2 := by
  induction t1 with
  | nil => rfl
  | cons l ls ih => simp only [List.cons_append, acquirers]; split <;> simp [ih]

def isTask (t : Nat) (x : Act) : Bool := x.task == t
/-- an activation of `t` that passed the counter and has not yet taken its slot -/
def pendingB (t : Nat) (x : Act) : Bool := x.task == t && decide (x.phase = .entered)

theorem callCount_bump (P : Program) (c : Config) (t' t : Nat) :
    (bumpCalls P c t').callCount t = if t = t' ∧ bumps P t' = true then c.callCount t + 1 else c.callCount t := by
  unfold bumpCalls bumps
  cases P[t']? with
  | none => simp
  | some d =>
    simp only
    by_cases hg : (d.platformOk && d.requiresOk && d.compileOk && d.enumOk) = true
    · rw [if_pos hg]
      by_cases ht : t = t'
      · subst ht; simp [Config.callCount, List.lookup, hg]
      · have : (t == t') = false := by simpa using ht
        simp [Config.callCount, List.lookup, this, ht]
    · rw [if_neg hg]; simp [hg]

/-- a fresh activation is in phase `entered` only if the checks before the counter pass
and the counter stays below the limit -/
theorem freshAct_entered (P : Program) (F : Flags) (c : Config) (kind : Kind) (t : Nat)
    (h : (freshAct P F c kind t).phase = .entered) : bumps P t = true ∧ c.callCount t + 1 < F.maxCalls := by
  unfold freshAct at h
  simp only at h
  split at h
  · cases h
  · rename_i he
    unfold earlyResult at he
    unfold bumps
    split at he
    · cases he
    · rename_i d hd
      rw [hd]
      simp only
      repeat' split at he
      all_goals (try cases he)
      simp_all <;> omega

/-- … and otherwise its result is already decided (phase `early`) -/
theorem freshAct_early (P : Program) (F : Flags) (c : Config) (kind : Kind) (t : Nat)
    (h : (freshAct P F c kind t).phase ≠ .entered) :
    (freshAct P F c kind t).phase = .early ∧
    earlyResult P[t]? (c.callCount t + 1) F.maxCalls = some (freshAct P F c kind t).res := by
  unfold freshAct at h ⊢
  simp only at h ⊢
  split
  · rename_i r he; exact ⟨rfl, he⟩
  · rename_i he; rw [he] at h; simp at h

/-- the activation that reaches the limit returns "called too many times" -/
theorem freshAct_limit (P : Program) (F : Flags) (c : Config) (kind : Kind) (t : Nat)
    (hb : bumps P t = true) (hl : c.callCount t + 1 ≥ F.maxCalls) :
    (freshAct P F c kind t).phase = .early ∧ (freshAct P F c kind t).res = .typed 204 := by
  unfold bumps at hb
  unfold freshAct earlyResult
  cases hd : P[t]? with
  | none => rw [hd] at hb; cases hb
  | some d =>
    rw [hd] at hb
    simp only [Bool.and_eq_true] at hb
    simp [hb.1.1.1, hb.1.1.2, hb.1.2, hb.2, hl]

/-! ### the counting invariant -/

theorem cnt_local_same (f : Act → Bool) (c : Config) (a : Nat) (x y : Act) (eff : Eff) (L : List Nat)
    (hx : c.act? a = some x) (hf : f y = f x) : cnt f ((applyEff c a eff).set a y) L = cnt f c L := by
  unfold cnt
  apply List.countP_congr
  intro b _
  rw [actB_local]
  by_cases hb : b = a
  · subst hb; simp [actB, hx, hf]
  · simp [hb]

theorem cnt_enter_old (f : Act → Bool) (hk : ∀ x k, f { x with kids := k } = f x)
    (P : Program) (F : Flags) (c c' : Config) (a : Nat) (kind : Kind) (t : Nat) (L : List Nat)
    (hL : ∀ b ∈ L, (c.act? b).isSome = true) (h : enterAct P F c a kind t = some c') :
    cnt f c' L = cnt f c L := by
  obtain ⟨hnone, _, hoth⟩ := enterAct_acts P F c c' a kind t h
  unfold cnt
  apply List.countP_congr
  intro b hb
  have hba : b ≠ a := by
    intro e; subst e
    have := hL b hb; rw [hnone] at this; cases this
  rcases hoth b hba with e | ⟨px, slot, e1, e2, _⟩
  · simp [actB, e]
  · simp [actB, e1, e2, hk]

/-- the invariant behind `C07_cycle_error` -/
def CallInv (P : Program) (F : Flags) (t : Nat) (c : Config) (tr : List Label) : Prop :=
  IdsInv c tr ∧
  (acquirers tr).Nodup ∧
  (∀ b ∈ acquirers tr, ∃ x, c.act? b = some x ∧ x.phase ≠ .entered) ∧
  c.callCount t = (if bumps P t then enters t tr else 0) ∧
  cnt (pendingB t) c (actIds tr) + cnt (isTask t) c (acquirers tr) ≤ c.callCount t ∧
  cnt (pendingB t) c (actIds tr) + cnt (isTask t) c (acquirers tr) ≤ F.maxCalls - 1

theorem callInv_init (P : Program) (F : Flags) (t n : Nat) : CallInv P F t (init n) [] := by
  refine ⟨idsInv_init n, List.nodup_nil, (by intro b hb; cases hb), ?_, ?_, ?_⟩
  · simp [init, Config.callCount, enters]
  · simp [cnt, actIds, acquirers]
  · simp [cnt, actIds, acquirers]

theorem callInv_step (P : Program) (F : Flags) (t : Nat) (c : Config) (tr : List Label) (l : Label)
    (c' : Config) (hinv : CallInv P F t c tr) (hs : step P F c l = some c') : CallInv P F t c' (tr ++ [l]) := by
  obtain ⟨hids, hnd, hacq, hcc, hle1, hle2⟩ := hinv
  have hids' := idsInv_step P F c tr l c' hids hs
  rcases step_cases P F c c' l hs with ⟨k, t', he, hen⟩ | ⟨hne, x, y, eff, hx, hl, rfl⟩
  · -- enter
    obtain ⟨hnone, hnew, hoth⟩ := enterAct_acts P F c c' l.act k t' hen
    have hA : acquirers (tr ++ [l]) = acquirers tr := by
      rw [acquirers_append]; simp [acquirers, he]
    have hE : enters t (tr ++ [l]) = enters t tr + (if t' = t then 1 else 0) := by
      unfold enters; rw [List.countP_append]; simp [List.countP_cons, isEnterOf, he]
    have hbound : ∀ b ∈ acquirers tr, (c.act? b).isSome = true := by
      intro b hb; obtain ⟨z, hz, _⟩ := hacq b hb; rw [hz]; rfl
    have hP := cnt_enter (pendingB t) (fun _ _ => rfl) P F c c' tr l.act k t' hids hen
    have hT := cnt_enter_old (isTask t) (fun _ _ => rfl) P F c c' l.act k t' (acquirers tr) hbound hen
    have hC : c'.callCount t = (bumpCalls P c t').callCount t := by
      unfold Config.callCount; rw [(enterAct_frame P F c c' l.act k t' hen).2.2.1]
    rw [callCount_bump] at hC
    have htask : (freshAct P F c k t').task = t' := (freshAct_fields P F c k t').2.2.2.2.2.2.2.2.2.2.2.1
    unfold CallInv
    rw [hA, actIds_snoc_enter tr l k t' he, hP, hT, hE]
    refine ⟨hids', hnd, ?_, ?_, ?_⟩
    · intro b hb
      obtain ⟨z, hz, hzp⟩ := hacq b hb
      have hba : b ≠ l.act := by intro e; subst e; rw [hnone] at hz; cases hz
      rcases hoth b hba with e | ⟨px, slot, e1, e2, _⟩
      · exact ⟨z, by rw [e]; exact hz, hzp⟩
      · rw [hz] at e1; cases e1; exact ⟨_, e2, hzp⟩
    · rw [hC, hcc]
      by_cases ht : t' = t
      · subst ht
        by_cases hb : bumps P t' = true <;> simp [hb]
      · have : ¬ t = t' := fun e => ht e.symm
        simp [this, ht]
    · -- the two bounds
      by_cases hp : pendingB t (freshAct P F c k t') = true
      · unfold pendingB at hp
        simp only [Bool.and_eq_true, beq_iff_eq, decide_eq_true_eq] at hp
        obtain ⟨ht, hph⟩ := hp
        rw [htask] at ht; subst ht
        obtain ⟨hb, hlim⟩ := freshAct_entered P F c k t' hph
        have hp' : pendingB t' (freshAct P F c k t') = true := by
          unfold pendingB; simp [htask, hph]
        rw [hp', hC]
        simp only [hb, and_self, if_true]
        omega
      · have hp' : pendingB t (freshAct P F c k t') = false := by simpa using hp
        rw [hp', hC]
        simp only [Bool.false_eq_true, if_false, Nat.add_zero]
        refine ⟨?_, hle2⟩
        split <;> omega
  · -- local step
    have hst := stepLocal_static F _ x l.ev y eff hl
    obtain ⟨hent, hyne, _, hacqd⟩ := stepLocal_entered F _ x l.ev y eff hl
    have hT : ∀ L, cnt (isTask t) ((applyEff c l.act eff).set l.act y) L = cnt (isTask t) c L :=
      fun L => cnt_local_same (isTask t) c l.act x y eff L hx (by simp [isTask, hst.task])
    have hP := cnt_local (pendingB t) c tr l.act x y eff hids hx
    have hC : ((applyEff c l.act eff).set l.act y).callCount t = c.callCount t := by
      unfold Config.callCount; rw [(local_frame c l.act y eff).1]
    have hE : enters t (tr ++ [l]) = enters t tr := by
      unfold enters; rw [List.countP_append]
      have : isEnterOf t l = false := by
        unfold isEnterOf; split
        · rename_i k t' he; exact absurd he (hne k t')
        · rfl
      simp [this]
    have hpy : pendingB t y = false := by simp [pendingB, hyne]
    rw [hpy] at hP
    unfold CallInv
    rw [actIds_snoc_other tr l hne, hC, hE]
    refine ⟨hids', ?_, ?_, hcc, ?_⟩
    · -- acquirers stay distinct
      rw [acquirers_append, List.nodup_append]
      refine ⟨hnd, by simp only [acquirers]; split <;> simp, ?_⟩
      intro a ha b hb
      simp only [acquirers] at hb
      split at hb
      · rename_i hev
        simp only [List.mem_singleton] at hb
        subst hb
        intro e; subst e
        obtain ⟨z, hz, hzp⟩ := hacq _ ha
        rw [hx] at hz; cases hz
        exact hzp (hent.mpr hev)
      · cases hb
    · intro b hb
      rw [acquirers_append, List.mem_append] at hb
      by_cases hbl : b = l.act
      · subst hbl; exact ⟨y, by simp, hyne⟩
      · rw [act?_set_other _ _ _ _ hbl, act?_applyEff]
        rcases hb with hb | hb
        · exact hacq b hb
        · simp only [acquirers] at hb
          split at hb
          · simp only [List.mem_singleton] at hb; exact absurd hb hbl
          · cases hb
    · -- the sum is unchanged
      rw [acquirers_append]
      have hsum : cnt (pendingB t) ((applyEff c l.act eff).set l.act y) (actIds tr) +
          cnt (isTask t) ((applyEff c l.act eff).set l.act y) (acquirers tr ++ acquirers [l]) =
          cnt (pendingB t) c (actIds tr) + cnt (isTask t) c (acquirers tr) := by
        by_cases hev : l.ev = .acquire
        · have hxp : pendingB t x = isTask t x := by simp [pendingB, isTask, hent.mpr hev]
          have : acquirers [l] = [l.act] := by simp [acquirers, hev]
          rw [this]
          unfold cnt at hP ⊢
          rw [List.countP_append]
          have h2 := hT (acquirers tr)
          unfold cnt at h2
          rw [h2]
          have h3 : actB (isTask t) ((applyEff c l.act eff).set l.act y) l.act = isTask t x := by
            rw [actB_local]; simp [isTask, hst.task]
          simp only [List.countP_cons, List.countP_nil, h3, Nat.zero_add]
          rw [hxp] at hP
          simp only [Bool.false_eq_true, if_false, Nat.add_zero] at hP
          omega
        · have hxp : pendingB t x = false := by
            have : x.phase ≠ .entered := fun e => hev (hent.mp e)
            simp [pendingB, this]
          have : acquirers [l] = [] := by simp [acquirers, hev]
          rw [this, List.append_nil, hT]
          rw [hxp] at hP
          simp only [Bool.false_eq_true, if_false, Nat.add_zero] at hP
          omega
      rw [hsum]
      exact ⟨hle1, hle2⟩

/-- number of activations of `t` that passed the call counter so far -/
def passed (t : Nat) (c : Config) (tr : List Label) : Nat :=
  cnt (pendingB t) c (actIds tr) + cnt (isTask t) c (acquirers tr)

/-- a local step leaves `passed` alone -/
theorem passed_local (F : Flags) (t : Nat) (c : Config) (tr : List Label) (l : Label) (x y : Act) (eff : Eff)
    (hids : IdsInv c tr) (hne : ∀ k t, l.ev ≠ .enter k t) (hx : c.act? l.act = some x)
    (hl : stepLocal F (obsOf F c l.act x) x l.ev = some (y, eff)) :
    passed t ((applyEff c l.act eff).set l.act y) (tr ++ [l]) = passed t c tr := by
  have hst := stepLocal_static F _ x l.ev y eff hl
  obtain ⟨hent, hyne, _, _⟩ := stepLocal_entered F _ x l.ev y eff hl
  have hT : ∀ L, cnt (isTask t) ((applyEff c l.act eff).set l.act y) L = cnt (isTask t) c L :=
    fun L => cnt_local_same (isTask t) c l.act x y eff L hx (by simp [isTask, hst.task])
  have hP := cnt_local (pendingB t) c tr l.act x y eff hids hx
  have hpy : pendingB t y = false := by simp [pendingB, hyne]
  rw [hpy] at hP
  unfold passed
  rw [actIds_snoc_other tr l hne, acquirers_append]
  by_cases hev : l.ev = .acquire
  · have hxp : pendingB t x = isTask t x := by simp [pendingB, isTask, hent.mpr hev]
    have : acquirers [l] = [l.act] := by simp [acquirers, hev]
    rw [this]
    unfold cnt at hP ⊢
    rw [List.countP_append]
    have h2 := hT (acquirers tr)
    unfold cnt at h2
    rw [h2]
    have h3 : actB (isTask t) ((applyEff c l.act eff).set l.act y) l.act = isTask t x := by
      rw [actB_local]; simp [isTask, hst.task]
    simp only [List.countP_cons, List.countP_nil, h3, Nat.zero_add]
    rw [hxp] at hP
    simp only [Bool.false_eq_true, if_false, Nat.add_zero] at hP
    omega
  · have hxp : pendingB t x = false := by
      have : x.phase ≠ .entered := fun e => hev (hent.mp e)
      simp [pendingB, this]
    have : acquirers [l] = [] := by simp [acquirers, hev]
    rw [this, List.append_nil, hT]
    rw [hxp] at hP
    simp only [Bool.false_eq_true, if_false, Nat.add_zero] at hP
    omega

/-- `enter` adds the fresh activation to `passed` iff it got past the counter -/
theorem passed_enter (P : Program) (F : Flags) (t : Nat) (c c' : Config) (tr : List Label) (l : Label)
    (k : Kind) (t' : Nat) (hids : IdsInv c tr) (hbound : ∀ b ∈ acquirers tr, (c.act? b).isSome = true)
    (he : l.ev = .enter k t') (hen : enterAct P F c l.act k t' = some c') :
    passed t c' (tr ++ [l]) = passed t c tr + (if pendingB t (freshAct P F c k t') then 1 else 0) := by
  have hA : acquirers (tr ++ [l]) = acquirers tr := by
    rw [acquirers_append]; simp [acquirers, he]
  have hP := cnt_enter (pendingB t) (fun _ _ => rfl) P F c c' tr l.act k t' hids hen
  have hT := cnt_enter_old (isTask t) (fun _ _ => rfl) P F c c' l.act k t' (acquirers tr) hbound hen
  unfold passed
  rw [hA, actIds_snoc_enter tr l k t' he, hP, hT]
  omega

theorem callInv_reach (P : Program) (F : Flags) (t n : Nat) (tr : List Label) (c : Config)
    (h : replay P F (init n) tr = some c) : CallInv P F t c tr :=
  replay_inv_tr P F (CallInv P F t) (callInv_step P F t) n (callInv_init P F t n) tr c h

end TaskModel.Sched.S7
