import TaskModel.Sched.StepLemmas
import TaskModel.Sched.ActMon
/-! The activation tree: who is whose kid, when kids may still be running, and what a
parent knows about its finished kids.  `kidInv_sound` lifts a per-activation invariant
that may mention the (stable) results of finished activations to every reachable
configuration. -/
namespace TaskModel.Sched.S2

/-- exactly how a parent gains a kid -/
theorem enterCheck_act' (F : Flags) (c : Config) (a : Nat) (kind : Kind) (t p : Nat) (px' : Act)
    (h : enterCheck F c a kind t = some (.act p px')) :
    ∃ px slot, c.act? p = some px ∧ px' = { px with kids := (slot, a) :: px.kids } ∧
      px.kids.lookup slot = none ∧
      ((px.phase = .depsWait ∧ slot < px.def_.deps.length ∧ kind = .dep p slot ∧ px.def_.deps[slot]? = some t) ∨
       (∃ i d, px.phase = .inCall i d ∧ slot = slotOfCall px i ∧ kind = .call p i d ∧
          px.def_.cmds[i]? = some (.call t d))) := by
  unfold enterCheck at h
  split at h
  · split at h
    · cases h
    · simp only at h
      have : ∀ (b : Bool) (k : Nat), (if b = true then some (Parent.top k) else none) = some (Parent.act p px') → False := by
        intro b k hb; cases b <;> simp at hb
      exact (this _ _ h).elim
  · rename_i p' j
    split at h
    · cases h
    · rename_i px hpx
      split at h
      · cases h
      · rename_i hph
        split at h
        · cases h
        · rename_i t' hd
          split at h
          · cases h
          · rename_i htt
            cases h
            simp only [ne_eq, Bool.or_eq_true, decide_eq_true_eq, not_or, Decidable.not_not, Bool.not_eq_true,
              Option.isSome_eq_false_iff, Option.isNone_iff_eq_none] at hph
            have htt' : t' = t := Decidable.not_not.mp htt
            subst htt'
            refine ⟨px, slotOfDep j, hpx, rfl, hph.2, .inl ⟨hph.1, ?_, rfl, hd⟩⟩
            have := List.getElem?_eq_some_iff.mp hd
            exact this.1
  · rename_i p' i dfr
    split at h
    · cases h
    · rename_i px hpx
      split at h
      · cases h
      · rename_i hph
        split at h
        · rename_i t' d' hcmd
          split at h
          · cases h
          · rename_i hc
            cases h
            simp only [ne_eq, Bool.or_eq_true, decide_eq_true_eq, not_or, Decidable.not_not, Bool.not_eq_true,
              Option.isSome_eq_false_iff, Option.isNone_iff_eq_none] at hph hc
            obtain ⟨rfl, rfl⟩ := hc
            exact ⟨px, slotOfCall px i, hpx, rfl, hph.2, .inr ⟨i, d', hph.1, rfl, rfl, hcmd⟩⟩
        · cases h

/-- the condition under which parent `px` (activation `b`) gains the new activation `a` as kid in `slot` -/
def GainsKid (px : Act) (b : Nat) (kind : Kind) (t : Nat) (slot : Nat) : Prop :=
  px.kids.lookup slot = none ∧
  ((px.phase = .depsWait ∧ slot < px.def_.deps.length ∧ kind = .dep b slot ∧ px.def_.deps[slot]? = some t) ∨
   (∃ i d, px.phase = .inCall i d ∧ slot = slotOfCall px i ∧ kind = .call b i d ∧
      px.def_.cmds[i]? = some (.call t d)))

/-- what `enter` does to the activation table (refines `enterAct_acts`) -/
theorem enterAct_acts' (P : Program) (F : Flags) (c c' : Config) (a : Nat) (kind : Kind) (t : Nat)
    (h : enterAct P F c a kind t = some c') :
    c.act? a = none ∧ c'.act? a = some (freshAct P F c kind t) ∧
    ∀ b, b ≠ a → (c'.act? b = c.act? b ∨
      ∃ px slot, c.act? b = some px ∧ c'.act? b = some { px with kids := (slot, a) :: px.kids } ∧
        GainsKid px b kind t slot) := by
  unfold enterAct at h
  split at h
  · cases h
  · rename_i hnone
    have hn : c.act? a = none := by
      cases hh : c.act? a with
      | none => rfl
      | some _ => simp [hh] at hnone
    refine ⟨hn, ?_⟩
    split at h
    · cases h
    · cases h
      refine ⟨by simp, ?_⟩
      intro b hb
      left
      rw [act?_set_other _ _ _ _ hb]
      show (bumpCalls P c t).act? b = c.act? b
      simp
    · rename_i p px' hc
      cases h
      obtain ⟨px, slot, hpx, rfl, hfree, hph⟩ := enterCheck_act' F c a kind t p _ hc
      have hpa : p ≠ a := by
        intro e; subst e; rw [hpx] at hn; cases hn
      refine ⟨by simp, ?_⟩
      intro b hb
      rw [act?_set_other _ _ _ _ hb]
      by_cases hbp : b = p
      · subst hbp
        right
        exact ⟨px, slot, hpx, by simp, hfree, hph⟩
      · left
        rw [act?_set_other _ _ _ _ hbp]
        simp

theorem kidDone_some (c : Config) (id : Nat) (r : Res) :
    kidDone c id = some r ↔ ∃ k, c.act? id = some k ∧ k.phase = .done ∧ k.res = r := by
  unfold kidDone
  constructor
  · intro hk
    split at hk
    · rename_i k hk'
      split at hk
      · rename_i hd; exact ⟨k, hk', hd, Option.some.inj hk⟩
      · cases hk
    · cases hk
  · rintro ⟨k, h1, h2, h3⟩
    rw [h1]; simp [h2, h3]

/-- the result of a finished activation never changes -/
theorem kidDone_step (P : Program) (F : Flags) (c c' : Config) (l : Label) (h : step P F c l = some c')
    (id : Nat) (r : Res) (hk : kidDone c id = some r) : kidDone c' id = some r := by
  obtain ⟨k, hk1, hk2, hk3⟩ := (kidDone_some c id r).mp hk
  rcases step_cases P F c c' l h with ⟨kd, t, _, hen⟩ | ⟨_, x, y, eff, hx, hl, rfl⟩
  · obtain ⟨hnone, _, hoth⟩ := enterAct_acts' P F c c' l.act kd t hen
    have hne : id ≠ l.act := by intro e; subst e; rw [hk1] at hnone; cases hnone
    rcases hoth id hne with h1 | ⟨px, slot, h1, h2, _⟩
    · unfold kidDone; rw [h1, hk1]; simp [hk2, hk3]
    · rw [hk1] at h1; cases h1
      unfold kidDone; rw [h2]; simp [hk2, hk3]
  · have hne : id ≠ l.act := by
      intro e; subst e
      rw [hk1] at hx; cases hx
      exact (stepLocal_frame F _ _ _ _ _ hl).2 hk2
    unfold kidDone
    rw [act?_set_other _ _ _ _ hne, act?_applyEff, hk1]; simp [hk2, hk3]

/-- **Lifting of tree invariants.**  `Φ f x` is a property of one activation `x` that may
mention the results `f` of finished activations (positively).  If it holds of fresh
activations, is preserved when the activation gains a kid, and is preserved by every
local step, it holds of every activation of every reachable configuration. -/
theorem kidInv_sound (P : Program) (F : Flags) (Φ : (Nat → Option Res) → Act → Prop)
    (hmono : ∀ f g x, (∀ id r, f id = some r → g id = some r) → Φ f x → Φ g x)
    (hfresh : ∀ f c kind t, Φ f (freshAct P F c kind t))
    (hkid : ∀ f px b a kind t slot, Φ f px → GainsKid px b kind t slot → f a = none →
      Φ f { px with kids := (slot, a) :: px.kids })
    (hlocal : ∀ c a x ev y eff, c.act? a = some x → Φ (kidDone c) x →
      stepLocal F (obsOf F c a x) x ev = some (y, eff) → Φ (kidDone c) y)
    (n : Nat) (tr : List Label) (c : Config) (h : replay P F (init n) tr = some c)
    (a : Nat) (x : Act) (hx : c.act? a = some x) : Φ (kidDone c) x := by
  have hinv := replay_inv P F (fun c => ∀ a x, c.act? a = some x → Φ (kidDone c) x) ?_ (init n) tr c ?_ h
  · exact hinv a x hx
  · intro c l c' hI hs b z hz
    have hst := kidDone_step P F c c' l hs
    rcases step_cases P F c c' l hs with ⟨kd, t, _, hen⟩ | ⟨_, x, y, eff, hx, hl, rfl⟩
    · obtain ⟨hnone, hnew, hoth⟩ := enterAct_acts' P F c c' l.act kd t hen
      by_cases hb : b = l.act
      · subst hb
        rw [hnew] at hz; cases hz
        exact hfresh _ c kd t
      · rcases hoth b hb with h1 | ⟨px, slot, h1, h2, hg⟩
        · rw [h1] at hz
          exact hmono _ _ _ hst (hI b z hz)
        · rw [h2] at hz; cases hz
          have hk : kidDone c l.act = none := by unfold kidDone; rw [hnone]
          exact hmono _ _ _ hst (hkid _ px b l.act kd t slot (hI b px h1) hg hk)
    · by_cases hb : b = l.act
      · subst hb
        rw [act?_set_self] at hz; cases hz
        exact hmono _ _ _ hst (hlocal c l.act x l.ev z eff hx (hI _ x hx) hl)
      · rw [act?_set_other _ _ _ _ hb, act?_applyEff] at hz
        exact hmono _ _ _ hst (hI b z hz)
  · intro a x hx
    simp [init, Config.act?] at hx

end TaskModel.Sched.S2
