import TaskModel.Sched.FailLemmas
import TaskModel.Sched.SeqLemmas
/-!
Sched.ProgInv — what an activation has registered and started, read off the PROGRAM.

The acceptor keeps the histories `regs` (deferred entries registered), `started` (non-deferred
entries started) and the position `idx`.  The invariant below ties them to the task's command
list, for every activation of every reachable configuration:

* `regs` is exactly the list of deferred entries below `idx`, in order;
* `started` is exactly the list of non-deferred entries below `idx` — or below `idx + 1` while
  the entry at `idx` is open, and after it failed: no entry is skipped, none starts twice;
* once `guardsPassed` has been accepted (monitor state `true`), an activation that is past its
  command loop without a failure (`out` untouched) has `idx = cmds.length`: the loop ran to the end.

These are statements about what the accepted log MEANS for the program, not read-backs of a
guard of `stepLocal`.
-/
namespace TaskModel.Sched

/-- is entry `i` of the command list a `defer:` entry? -/
def isDefAt (cmds : List Cmd) (i : Nat) : Bool :=
  match cmds[i]? with
  | some c => c.deferred
  | none => false

/-- the deferred entries below position `n`, in order -/
def defersBelow (cmds : List Cmd) (n : Nat) : List Nat := (List.range n).filter (isDefAt cmds)
/-- the non-deferred entries below position `n`, in order -/
def plainBelow (cmds : List Cmd) (n : Nat) : List Nat := (List.range n).filter (fun i => !isDefAt cmds i)

theorem defersBelow_succ (cmds : List Cmd) (n : Nat) :
    defersBelow cmds (n + 1) = defersBelow cmds n ++ (if isDefAt cmds n then [n] else []) := by
  unfold defersBelow
  rw [List.range_succ, List.filter_append]
  cases h : isDefAt cmds n <;> simp [h]

theorem plainBelow_succ (cmds : List Cmd) (n : Nat) :
    plainBelow cmds (n + 1) = plainBelow cmds n ++ (if isDefAt cmds n then [] else [n]) := by
  unfold plainBelow
  rw [List.range_succ, List.filter_append]
  cases h : isDefAt cmds n <;> simp [h]

theorem isDefAt_of_drop (cmds : List Cmd) (i : Nat) (c : Cmd) (tl : List Cmd) (h : cmds.drop i = c :: tl) :
    isDefAt cmds i = c.deferred ∧ i < cmds.length := by
  have hg : cmds[i]? = some c := S2.getElem?_of_drop_eq_cons cmds i c tl h
  refine ⟨by simp [isDefAt, hg], ?_⟩
  have := List.getElem?_eq_some_iff.mp hg
  exact this.1

/-- `advance` registers exactly the deferred entries it passes, and passes deferred entries only -/
theorem advance_prog (all : List Cmd) : ∀ (cs : List Cmd) (i : Nat) (regs stack : List Nat),
    cs = all.drop i → regs = defersBelow all i → i ≤ all.length →
    (advance cs i regs stack).2.2.1 = defersBelow all (advance cs i regs stack).2.1 ∧
    plainBelow all (advance cs i regs stack).2.1 = plainBelow all i ∧
    (advance cs i regs stack).2.1 ≤ all.length ∧
    ((advance cs i regs stack).1 = [] → (advance cs i regs stack).2.1 = all.length) := by
  intro cs
  induction cs with
  | nil =>
    intro i regs stack h hr hle
    refine ⟨by simpa [advance] using hr, by simp [advance], by simpa [advance] using hle, ?_⟩
    intro _
    simp only [advance]
    have : (all.drop i).length = 0 := by rw [← h]; rfl
    rw [List.length_drop] at this
    omega
  | cons c cs ih =>
    intro i regs stack h hr hle
    obtain ⟨hdef, hlt⟩ := isDefAt_of_drop all i c cs h.symm
    have htl : cs = all.drop (i + 1) := by
      have := congrArg List.tail h
      simpa [List.tail_drop] using this
    simp only [advance]
    split
    · rename_i hc
      have hd : isDefAt all i = true := by rw [hdef]; exact hc
      have := ih (i + 1) (regs ++ [i]) (i :: stack) htl (by rw [defersBelow_succ, hr, hd]; rfl) (by omega)
      refine ⟨this.1, ?_, this.2.2.1, this.2.2.2⟩
      rw [this.2.1, plainBelow_succ, hd]; simp
    · exact ⟨hr, rfl, hle, by intro hh; cases hh⟩

namespace S2

/-- after the loop (or in a deferred entry) -/
def postLoop : Phase → Bool
  | .defers | .finished | .execDoneP | .released | .done
  | .inShell _ true | .inCall _ true | .callReturned _ true => true
  | _ => false

theorem postLoop_excl {p : Phase} (h : postLoop p = true) :
    preBodyP p = false ∧ p ≠ .body ∧ openND p = none := by
  cases p <;> first
    | (cases h; done)
    | exact ⟨rfl, (by intro e; cases e), rfl⟩
    | (rename_i i d; cases d <;> first | (cases h; done) | exact ⟨rfl, (by intro e; cases e), rfl⟩)

theorem preBody_excl {p : Phase} (h : preBodyP p = true) : p ≠ .body ∧ openND p = none := by
  cases p <;> first
    | (cases h; done)
    | exact ⟨(by intro e; cases e), rfl⟩

structure ProgInv (x : Act) : Prop where
  regs : x.regs = defersBelow x.def_.cmds x.idx
  le : x.idx ≤ x.def_.cmds.length
  pre : preBodyP x.phase = true → x.idx = 0 ∧ x.started = []
  body : x.phase = .body → x.started = plainBelow x.def_.cmds x.idx
  open_ : ∀ i, openND x.phase = some i →
    x.started = plainBelow x.def_.cmds (x.idx + 1) ∧ isDefAt x.def_.cmds x.idx = false ∧ x.idx < x.def_.cmds.length
  any : x.started = plainBelow x.def_.cmds x.idx ∨
    (x.started = plainBelow x.def_.cmds (x.idx + 1) ∧ isDefAt x.def_.cmds x.idx = false ∧ x.idx < x.def_.cmds.length)
  /-- past the loop with an untouched outcome: either the loop was never entered (stopped at a guard with success:
  up to date) or it ran to the end — `Loop` below says which -/
  phases : preBodyP x.phase = true ∨ x.phase = .body ∨ (openND x.phase).isSome = true ∨ postLoop x.phase = true

theorem next_regs_idx (x : Act) (cs : List Cmd) (i : Nat) :
    (x.next cs i).regs = (advance cs i x.regs x.stack).2.2.1 ∧ (x.next cs i).idx = (advance cs i x.regs x.stack).2.1 :=
  ⟨(next_stack x cs i).2.1, (next_stack x cs i).2.2.1⟩

theorem next_phase_post (x : Act) (cs : List Cmd) (i : Nat) :
    (x.next cs i).phase = .body ∨ (x.next cs i).phase = .defers ∨ (x.next cs i).phase = .finished := by
  rcases next_phase x cs i with h | ⟨h, _⟩ | ⟨h, _⟩
  · exact .inl h
  · exact .inr (.inl h)
  · exact .inr (.inr h)

/-- is the loop over?  (`next` found no further command) -/
theorem next_rest_nil (x : Act) (cs : List Cmd) (i : Nat) :
    ((x.next cs i).phase = .defers ∨ (x.next cs i).phase = .finished) → (advance cs i x.regs x.stack).1 = [] := by
  unfold Act.next
  split
  rename_i rest i' regs stack heq
  simp only [heq]
  split
  · intro _; rfl
  · intro h; rcases h with h | h <;> cases h

theorem ProgInv_next (x : Act) (cs : List Cmd) (i : Nat) (hcs : cs = x.def_.cmds.drop i)
    (hregs : x.regs = defersBelow x.def_.cmds i) (hst : x.started = plainBelow x.def_.cmds i)
    (hle : i ≤ x.def_.cmds.length) :
    ProgInv (x.next cs i) ∧
    (((x.next cs i).phase = .defers ∨ (x.next cs i).phase = .finished) → (x.next cs i).idx = x.def_.cmds.length) := by
  obtain ⟨h1, h2, h3, h4⟩ := advance_prog x.def_.cmds cs i x.regs x.stack hcs hregs hle
  obtain ⟨hr, hi⟩ := next_regs_idx x cs i
  have hdef : (x.next cs i).def_ = x.def_ := (next_frame x cs i).2.1
  have hst' : (x.next cs i).started = plainBelow (x.next cs i).def_.cmds (x.next cs i).idx := by
    rw [(next_more x cs i).1, hdef, hi, h2]; exact hst
  constructor
  · refine ⟨by rw [hr, hi, hdef]; exact h1, by rw [hi, hdef]; exact h3, ?_, fun _ => hst', ?_, .inl hst', ?_⟩
    · intro hp; rcases next_phase_post x cs i with h | h | h <;> rw [h] at hp <;> cases hp
    · intro k hp; rcases next_phase_post x cs i with h | h | h <;> rw [h] at hp <;> cases hp
    · rcases next_phase_post x cs i with h | h | h
      · exact .inr (.inl h)
      · right; right; right; rw [h]; rfl
      · right; right; right; rw [h]; rfl
  · intro hp
    rw [hi]
    exact h4 (next_rest_nil x cs i hp)

theorem ProgInv_frame (x y : Act) (hd : y.def_ = x.def_) (hr : y.regs = x.regs) (hi : y.idx = x.idx)
    (hs : y.started = x.started) (hpost : postLoop y.phase = true)
    (hx : ProgInv x) : ProgInv y := by
  have hany : y.started = plainBelow y.def_.cmds y.idx ∨
      (y.started = plainBelow y.def_.cmds (y.idx + 1) ∧ isDefAt y.def_.cmds y.idx = false ∧ y.idx < y.def_.cmds.length) := by
    rw [hs, hd, hi]; exact hx.any
  obtain ⟨e1, e2, e3⟩ := postLoop_excl hpost
  refine ⟨by rw [hr, hd, hi]; exact hx.regs, by rw [hd, hi]; exact hx.le, ?_, ?_, ?_, hany, .inr (.inr (.inr hpost))⟩
  · intro hp; rw [e1] at hp; cases hp
  · intro hp; exact absurd hp e2
  · intro k hp; rw [e3] at hp; cases hp

theorem fail_fields (x : Act) (r : Res) :
    (x.fail r).def_ = x.def_ ∧ (x.fail r).regs = x.regs ∧ (x.fail r).idx = x.idx ∧ (x.fail r).started = x.started ∧
    postLoop (x.fail r).phase = true := by
  refine ⟨rfl, rfl, rfl, rfl, ?_⟩
  rcases fail_phase x r with h | h <;> rw [h] <;> rfl

theorem afterDefer_prog (x : Act) :
    x.afterDefer.def_ = x.def_ ∧ x.afterDefer.regs = x.regs ∧ x.afterDefer.idx = x.idx ∧ x.afterDefer.started = x.started ∧
    postLoop x.afterDefer.phase = true := by
  obtain ⟨h1, h2, _, _, h5, _⟩ := afterDefer_fields x
  refine ⟨(afterDefer_frame x).2.1, h1, h5, h2, ?_⟩
  rcases afterDefer_phase x with h | h <;> rw [h] <;> rfl

/-- after an open non-deferred entry: go on behind it, or stop at it -/
theorem ProgInv_afterCmd (x : Act) (c : Cmd) (r : Res) (hx : ProgInv x) (i : Nat) (ho : openND x.phase = some i)
    (hrest : x.rest = x.def_.cmds.drop x.idx) : ProgInv (x.afterCmd c r) := by
  obtain ⟨hst, hnd, hlt⟩ := hx.open_ i ho
  have ht : x.rest.tail = x.def_.cmds.drop (x.idx + 1) := by rw [hrest, List.tail_drop]
  have hregs : x.regs = defersBelow x.def_.cmds (x.idx + 1) := by
    rw [defersBelow_succ, hnd]; simpa using hx.regs
  have hany : ProgInv x → ∀ y : Act, y.def_ = x.def_ → y.regs = x.regs → y.idx = x.idx → y.started = x.started →
      postLoop y.phase = true → ProgInv y := by
    intro _ y hd hr hi hs hp
    have hany' : y.started = plainBelow y.def_.cmds y.idx ∨
        (y.started = plainBelow y.def_.cmds (y.idx + 1) ∧ isDefAt y.def_.cmds y.idx = false ∧ y.idx < y.def_.cmds.length) := by
      right; rw [hs, hd, hi]; exact ⟨hst, hnd, hlt⟩
    obtain ⟨e1, e2, e3⟩ := postLoop_excl hp
    refine ⟨by rw [hr, hd, hi]; exact hx.regs, by rw [hd, hi]; exact hx.le, ?_, ?_, ?_, hany', .inr (.inr (.inr hp))⟩
    · intro hp'; rw [e1] at hp'; cases hp'
    · intro hp'; exact absurd hp' e2
    · intro k hp'; rw [e3] at hp'; cases hp'
  unfold Act.afterCmd
  simp only
  split
  · exact (ProgInv_next x _ _ ht hregs hst (by omega)).1
  · split
    · exact (ProgInv_next x _ _ ht hregs hst (by omega)).1
    · obtain ⟨a, b, c', d, e⟩ := fail_fields ({ x with exitCode := _ }) (.exit _)
      exact hany hx _ a b c' d e
  · obtain ⟨a, b, c', d, e⟩ := fail_fields x _
    exact hany hx _ a b c' d e

theorem ProgInv_fresh (P : Program) (F : Flags) (c : Config) (kind : Kind) (t : Nat) :
    ProgInv (freshAct P F c kind t) := by
  obtain ⟨hph, _, hrg, _, hst, hidx, _⟩ := freshAct_fields P F c kind t
  have hpre : preBodyP (freshAct P F c kind t).phase = true := by rcases hph with h | h <;> rw [h] <;> rfl
  refine ⟨by rw [hrg, hidx]; rfl, by rw [hidx]; omega, fun _ => ⟨hidx, hst⟩, ?_, ?_, .inl (by rw [hst, hidx]; rfl), .inl hpre⟩
  · intro hp; rcases hph with h | h <;> rw [h] at hp <;> cases hp
  · intro k hp; rcases hph with h | h <;> rw [h] at hp <;> cases hp

theorem ProgInv_kids (x : Act) (k : List (Nat × Nat)) (h : ProgInv x) : ProgInv { x with kids := k } :=
  ⟨h.regs, h.le, h.pre, h.body, h.open_, h.any, h.phases⟩

/-- steps before the loop: nothing registered, nothing started, position 0 -/
theorem ProgInv_pre (x y : Act) (hd : y.def_ = x.def_) (hr : y.regs = x.regs) (hi : y.idx = x.idx)
    (hs : y.started = x.started) (hxp : preBodyP x.phase = true)
    (hyp : preBodyP y.phase = true ∨ postLoop y.phase = true) (hx : ProgInv x) : ProgInv y := by
  obtain ⟨h0, hs0⟩ := hx.pre hxp
  have hst : y.started = plainBelow y.def_.cmds y.idx := by rw [hs, hi, h0, hs0]; rfl
  refine ⟨by rw [hr, hd, hi]; exact hx.regs, by rw [hd, hi]; exact hx.le, fun _ => ⟨by rw [hi]; exact h0, by rw [hs]; exact hs0⟩,
    fun _ => hst, ?_, .inl hst, ?_⟩
  · intro k hp
    rcases hyp with h | h
    · rw [(preBody_excl h).2] at hp; cases hp
    · rw [(postLoop_excl h).2.2] at hp; cases hp
  · rcases hyp with h | h
    · exact .inl h
    · exact .inr (.inr (.inr h))

/-- an entry is opened from `body`: it is the next non-deferred one -/
theorem ProgInv_open (x y : Act) (hd : y.def_ = x.def_) (hr : y.regs = x.regs) (hi : y.idx = x.idx)
    (hs : y.started = x.started ++ [x.idx]) (hph : openND y.phase = some x.idx)
    (hb : x.phase = .body) (hnd : isDefAt x.def_.cmds x.idx = false) (hlt : x.idx < x.def_.cmds.length)
    (hx : ProgInv x) : ProgInv y := by
  have hst : y.started = plainBelow y.def_.cmds (y.idx + 1) := by
    rw [hs, hd, hi, plainBelow_succ, hnd, hx.body hb]; rfl
  have hop : (openND y.phase).isSome = true := by rw [hph]; rfl
  have hnp : preBodyP y.phase = false ∧ y.phase ≠ .body := by
    cases hp : y.phase <;> rw [hp] at hph <;> first | (cases hph; done) | exact ⟨rfl, by intro e; cases e⟩
  refine ⟨by rw [hr, hd, hi]; exact hx.regs, by rw [hd, hi]; exact hx.le, ?_, ?_, ?_, ?_, .inr (.inr (.inl hop))⟩
  · intro hp; rw [hnp.1] at hp; cases hp
  · intro hp; exact absurd hp hnp.2
  · intro k _; exact ⟨hst, by rw [hd, hi]; exact hnd, by rw [hd, hi]; exact hlt⟩
  · exact .inr ⟨hst, by rw [hd, hi]; exact hnd, by rw [hd, hi]; exact hlt⟩

/-- a step that changes the phase only, within the same class -/
theorem ProgInv_same (x y : Act) (hd : y.def_ = x.def_) (hr : y.regs = x.regs) (hi : y.idx = x.idx)
    (hs : y.started = x.started) (ho : openND y.phase = openND x.phase) (hop : (openND x.phase).isSome = true)
    (hx : ProgInv x) : ProgInv y := by
  have hnp : preBodyP y.phase = false ∧ y.phase ≠ .body := by
    rw [← ho] at hop
    cases hp : y.phase <;> rw [hp] at hop <;> first | (cases hop; done) | exact ⟨rfl, by intro e; cases e⟩
  refine ⟨by rw [hr, hd, hi]; exact hx.regs, by rw [hd, hi]; exact hx.le, ?_, ?_, ?_, ?_, .inr (.inr (.inl (by rw [ho]; exact hop)))⟩
  · intro hp; rw [hnp.1] at hp; cases hp
  · intro hp; exact absurd hp hnp.2
  · intro k hk; rw [ho] at hk; rw [hs, hd, hi]; exact hx.open_ k hk
  · rw [hs, hd, hi]; exact hx.any

set_option maxHeartbeats 1000000 in
/-- **`RestInv ∧ ProgInv` is preserved by every local step** -/
theorem ProgInv_local (F : Flags) (o : Obs) (x : Act) (ev : Ev) (y : Act) (eff : Eff)
    (hR : RestInv x) (hP : ProgInv x) (h : stepLocal F o x ev = some (y, eff)) : ProgInv y := by
  have hL := LStep_of_stepLocal F o x ev y eff h
  cases hL with
  | guardsPassed hp hc =>
    obtain ⟨h0, hs0⟩ := hP.pre (by rw [hp]; rfl)
    exact (ProgInv_next x _ 0 (by simp) (by rw [← h0]; exact hP.regs) (by rw [hs0]; rfl) (by omega)).1
  | cmdStartBody k ie tl hp hr =>
    have hdrop := hR.1 (by rw [hp]; rfl) (by rw [hp]; simp)
    obtain ⟨hdef, hlt⟩ := isDefAt_of_drop x.def_.cmds x.idx _ tl (by rw [← hdrop, hr])
    exact ProgInv_open x _ rfl rfl rfl rfl rfl hp hdef hlt hP
  | callReleaseBody t tl hp hr =>
    have hdrop := hR.1 (by rw [hp]; rfl) (by rw [hp]; simp)
    obtain ⟨hdef, hlt⟩ := isDefAt_of_drop x.def_.cmds x.idx _ tl (by rw [← hdrop, hr])
    exact ProgInv_open x _ rfl rfl rfl rfl rfl hp hdef hlt hP
  | cmdEndBody i r cmd tl hp hr hc hs =>
    exact ProgInv_afterCmd x cmd r hP i (by rw [hp]; rfl) (hR.1 (by rw [hp]; rfl) (by rw [hp]; simp))
  | callReacqBody i cmd tl hp hc hr =>
    have hR' : ({ x with holds := true } : Act).rest = ({ x with holds := true } : Act).def_.cmds.drop ({ x with holds := true } : Act).idx :=
      hR.1 (by rw [hp]; rfl) (by rw [hp]; simp)
    have hP' : ProgInv ({ x with holds := true } : Act) := ⟨hP.regs, hP.le, hP.pre, hP.body, hP.open_, hP.any, hP.phases⟩
    exact ProgInv_afterCmd { x with holds := true } cmd x.callRes hP' i (by show openND x.phase = some i; rw [hp]; rfl) hR'
  | callRet i d r hp hk =>
    cases d with
    | false => exact ProgInv_same x _ rfl rfl rfl rfl (by rw [hp]; rfl) (by rw [hp]; rfl) hP
    | true => exact ProgInv_frame x _ rfl rfl rfl rfl rfl hP
  | callReacqDefer i hp hc =>
    obtain ⟨a, b, c', d, e⟩ := afterDefer_prog ({ x with holds := true } : Act)
    exact ProgInv_frame x _ a b c' d e hP
  | cmdEndDefer j r cmd hp hd hs =>
    obtain ⟨a, b, c', d, e⟩ := afterDefer_prog x
    exact ProgInv_frame x _ a b c' d e hP
  | cmdStartDefer j tl k ie hp hs hd => exact ProgInv_frame x _ rfl rfl rfl rfl rfl hP
  | callReleaseDefer j tl t hp hs hd => exact ProgInv_frame x _ rfl rfl rfl rfl rfl hP
  | execDone hp hk => exact ProgInv_frame x _ rfl rfl rfl rfl rfl hP
  | releaseF hp hk => exact ProgInv_frame x _ rfl rfl rfl rfl rfl hP
  | releaseE hp => exact ProgInv_frame x _ rfl rfl rfl rfl rfl hP
  | exitReleased hp => exact ProgInv_frame x _ rfl rfl rfl rfl rfl hP
  | exitEarly hp => exact ProgInv_pre x _ rfl rfl rfl rfl (by rw [hp]; rfl) (.inr rfl) hP
  | acquire hp hc => exact ProgInv_pre x _ rfl rfl rfl rfl (by rw [hp]; rfl) (.inl rfl) hP
  | register k hp hr hk => exact ProgInv_pre x _ rfl rfl rfl rfl (by rw [hp]; rfl) (.inl rfl) hP
  | waiter k hp hr hk hcyc => exact ProgInv_pre x _ rfl rfl rfl rfl (by rw [hp]; rfl) (.inl rfl) hP
  | waitCycle k hp hr hk hcyc => exact ProgInv_pre x _ rfl rfl rfl rfl (by rw [hp]; rfl) (.inr rfl) hP
  | wRelease hp => exact ProgInv_pre x _ rfl rfl rfl rfl (by rw [hp]; rfl) (.inl rfl) hP
  | wWake r hp he => exact ProgInv_pre x _ rfl rfl rfl rfl (by rw [hp]; rfl) (.inl rfl) hP
  | wReacq hp hc => exact ProgInv_pre x _ rfl rfl rfl rfl (by rw [hp]; rfl) (.inr rfl) hP
  | depsReleaseA hp hr => exact ProgInv_pre x _ rfl rfl rfl rfl (by rw [hp]; rfl) (.inl rfl) hP
  | depsReleaseE hp => exact ProgInv_pre x _ rfl rfl rfl rfl (by rw [hp]; rfl) (.inl rfl) hP
  | depsReacq hp hd hc => exact ProgInv_pre x _ rfl rfl rfl rfl (by rw [hp]; rfl) (.inl rfl) hP
  | depsDoneOk r rs hp hd hr ha => exact ProgInv_pre x _ rfl rfl rfl rfl (by rw [hp]; rfl) (.inl rfl) hP
  | depsDoneFail r rs hp hd hr hm => exact ProgInv_pre x _ rfl rfl rfl rfl (by rw [hp]; rfl) (.inr rfl) hP
  | ctxErr hp hc => exact ProgInv_pre x _ rfl rfl rfl rfl (by rw [hp]; rfl) (.inr rfl) hP
  | precondFail hp hc => exact ProgInv_pre x _ rfl rfl rfl rfl (by rw [hp]; rfl) (.inr rfl) hP
  | upToDate hp hc => exact ProgInv_pre x _ rfl rfl rfl rfl (by rw [hp]; rfl) (.inr rfl) hP
  | promptFail hp hc => exact ProgInv_pre x _ rfl rfl rfl rfl (by rw [hp]; rfl) (.inr rfl) hP

/-- `RestInv ∧ ProgInv` holds of every activation of every reachable configuration -/
theorem ProgInv_sound (P : Program) (F : Flags) (n : Nat) (tr : List Label) (c : Config)
    (h : replay P F (init n) tr = some c) (a : Nat) (x : Act) (hx : c.act? a = some x) : ProgInv x :=
  (localInv_sound (fun x => RestInv x ∧ ProgInv x) P F
    (fun c kind t => ⟨RestInv_fresh P F c kind t, ProgInv_fresh P F c kind t⟩)
    (fun o x ev y eff hg hs => ⟨RestInv_local F o x ev y eff hg.1 hs, ProgInv_local F o x ev y eff hg.1 hg.2 hs⟩)
    (fun x k hg => ⟨RestInv_kids x k hg.1, ProgInv_kids x k hg.2⟩) n tr c h a x hx).2

/-! ### the loop runs to the end -/

/-- has the activation passed its guards? -/
def loopMon : ActMon Bool where
  init := false
  step s ev := match ev with | .guardsPassed => some true | _ => some s

theorem loopMon_step (s : Bool) (ev : Ev) : loopMon.step s ev = some (s || decide (ev = .guardsPassed)) := by
  cases ev <;> simp [loopMon]

/-- `guardsPassed` is among the events -/
def hasGP : List Ev → Bool
  | [] => false
  | e :: es => decide (e = .guardsPassed) || hasGP es

theorem hasGP_iff (evs : List Ev) : hasGP evs = true ↔ Ev.guardsPassed ∈ evs := by
  induction evs with
  | nil => simp [hasGP]
  | cons e es ih =>
    simp only [hasGP, Bool.or_eq_true, decide_eq_true_eq, ih, List.mem_cons]
    constructor
    · rintro (h | h)
      · exact .inl h.symm
      · exact .inr h
    · rintro (h | h)
      · exact .inl h.symm
      · exact .inr h

theorem loopMon_run (evs : List Ev) : ∀ s, loopMon.run s evs = some (s || hasGP evs) := by
  induction evs with
  | nil => intro s; simp [ActMon.run, hasGP]
  | cons e es ih =>
    intro s
    simp only [ActMon.run, loopMon_step, ih, hasGP, Bool.or_assoc]

/-- once the guards are passed the activation is in or past its command loop, and when it is past the loop
with an untouched outcome the loop ran to the end of the command list -/
structure LoopR (s : Bool) (x : Act) : Prop where
  rest : RestInv x
  prog : ProgInv x
  notPre : s = true → preBodyP x.phase = false
  done : s = true → postLoop x.phase = true → x.out = {} → x.idx = x.def_.cmds.length

theorem fail_out_ne (x : Act) (r : Res) : (x.fail r).out ≠ {} := by
  intro h
  have : (x.fail r).out.wrappable = true := rfl
  rw [h] at this; cases this

/-- after an open entry: past the loop with an untouched outcome only if the loop ran to the end -/
theorem afterCmd_done (x : Act) (c : Cmd) (r : Res) (hx : ProgInv x) (i : Nat) (ho : openND x.phase = some i)
    (hrest : x.rest = x.def_.cmds.drop x.idx) :
    postLoop (x.afterCmd c r).phase = true → (x.afterCmd c r).out = {} → (x.afterCmd c r).idx = (x.afterCmd c r).def_.cmds.length := by
  obtain ⟨hst, hnd, hlt⟩ := hx.open_ i ho
  have ht : x.rest.tail = x.def_.cmds.drop (x.idx + 1) := by rw [hrest, List.tail_drop]
  have hregs : x.regs = defersBelow x.def_.cmds (x.idx + 1) := by
    rw [defersBelow_succ, hnd]; simpa using hx.regs
  have key : ∀ cs, cs = x.def_.cmds.drop (x.idx + 1) → postLoop (x.next cs (x.idx + 1)).phase = true →
      (x.next cs (x.idx + 1)).idx = (x.next cs (x.idx + 1)).def_.cmds.length := by
    intro cs hcs hp
    rw [(next_frame x cs (x.idx + 1)).2.1]
    apply (ProgInv_next x cs _ hcs hregs hst (by omega)).2
    rcases next_phase_post x cs (x.idx + 1) with h | h | h
    · rw [h] at hp; cases hp
    · exact .inl h
    · exact .inr h
  unfold Act.afterCmd
  simp only
  split
  · intro hp _; exact key _ ht hp
  · split
    · intro hp _; exact key _ ht hp
    · intro _ ho; exact absurd ho (fail_out_ne _ _)
  · intro _ ho; exact absurd ho (fail_out_ne _ _)

theorem LoopR_keep (x y : Act) (hR : RestInv y) (hP : ProgInv y) (hd : y.def_ = x.def_) (hi : y.idx = x.idx)
    (hout : y.out = x.out) (hnp : preBodyP y.phase = false) (hpp : postLoop y.phase = true → postLoop x.phase = true)
    (hx : LoopR true x) : LoopR true y :=
  ⟨hR, hP, fun _ => hnp, fun _ hp ho => by rw [hi, hd]; exact hx.done rfl (hpp hp) (by rw [← hout]; exact ho)⟩

set_option maxHeartbeats 1000000 in
theorem LoopR_local (F : Flags) (o : Obs) (s : Bool) (x : Act) (ev : Ev) (y : Act) (eff : Eff)
    (hx : LoopR s x) (h : stepLocal F o x ev = some (y, eff)) :
    ∃ s', loopMon.step s ev = some s' ∧ LoopR s' y := by
  have hRy := RestInv_local F o x ev y eff hx.rest h
  have hPy := ProgInv_local F o x ev y eff hx.rest hx.prog h
  refine ⟨_, loopMon_step s ev, ?_⟩
  have hL := LStep_of_stepLocal F o x ev y eff h
  by_cases hgp : ev = .guardsPassed
  · -- the guards are passed now
    subst hgp
    simp only [decide_true, Bool.or_true]
    cases hL with
    | guardsPassed hp hc =>
      obtain ⟨h0, hs0⟩ := hx.prog.pre (by rw [hp]; rfl)
      have hn := ProgInv_next x x.def_.cmds 0 (by simp) (by rw [← h0]; exact hx.prog.regs) (by rw [hs0]; rfl) (by omega)
      refine ⟨hRy, hPy, fun _ => ?_, fun _ hpost _ => ?_⟩
      · rcases next_phase_post x x.def_.cmds 0 with e | e | e <;> rw [e] <;> rfl
      · rw [(next_frame x x.def_.cmds 0).2.1]
        apply hn.2
        rcases next_phase_post x x.def_.cmds 0 with e | e | e
        · rw [e] at hpost; cases hpost
        · exact .inl e
        · exact .inr e
  · have hs' : (s || decide (ev = .guardsPassed)) = s := by simp [hgp]
    rw [hs']
    cases s with
    | false => exact ⟨hRy, hPy, fun e => (by cases e), fun e => (by cases e)⟩
    | true =>
      have hnpx := hx.notPre rfl
      cases hL with
      | guardsPassed hp hc => exact absurd rfl hgp
      | cmdStartBody k ie tl hp hr => exact LoopR_keep x _ hRy hPy rfl rfl rfl rfl (by intro e; cases e) hx
      | callReleaseBody t tl hp hr => exact LoopR_keep x _ hRy hPy rfl rfl rfl rfl (by intro e; cases e) hx
      | cmdEndBody i r cmd tl hp hr hc hs =>
        refine ⟨hRy, hPy, fun _ => ?_, fun _ hpost ho => ?_⟩
        · rcases afterCmd_phase x cmd r with e | e | e <;> rw [e] <;> rfl
        · exact afterCmd_done x cmd r hx.prog i (by rw [hp]; rfl) (hx.rest.1 (by rw [hp]; rfl) (by rw [hp]; simp)) hpost ho
      | callReacqBody i cmd tl hp hc hr =>
        have hP' : ProgInv ({ x with holds := true } : Act) :=
          ⟨hx.prog.regs, hx.prog.le, hx.prog.pre, hx.prog.body, hx.prog.open_, hx.prog.any, hx.prog.phases⟩
        refine ⟨hRy, hPy, fun _ => ?_, fun _ hpost ho => ?_⟩
        · rcases afterCmd_phase ({ x with holds := true } : Act) cmd x.callRes with e | e | e <;> rw [e] <;> rfl
        · exact afterCmd_done ({ x with holds := true } : Act) cmd x.callRes hP' i (by show openND x.phase = some i; rw [hp]; rfl)
            (hx.rest.1 (by rw [hp]; rfl) (by rw [hp]; simp)) hpost ho
      | callRet i d r hp hk =>
        cases d with
        | false => exact LoopR_keep x _ hRy hPy rfl rfl rfl rfl (by intro e; cases e) hx
        | true => exact LoopR_keep x _ hRy hPy rfl rfl rfl rfl (by intro _; rw [hp]; rfl) hx
      | callReacqDefer i hp hc =>
        obtain ⟨a, _, c', _, e⟩ := afterDefer_prog ({ x with holds := true } : Act)
        exact LoopR_keep x _ hRy hPy a c' (afterDefer_out _) (postLoop_excl e).1 (by intro _; rw [hp]; rfl) hx
      | cmdEndDefer j r cmd hp hd hs =>
        obtain ⟨a, _, c', _, e⟩ := afterDefer_prog x
        exact LoopR_keep x _ hRy hPy a c' (afterDefer_out _) (postLoop_excl e).1 (by intro _; rw [hp]; rfl) hx
      | cmdStartDefer j tl k ie hp hs hd => exact LoopR_keep x _ hRy hPy rfl rfl rfl rfl (by intro _; rw [hp]; rfl) hx
      | callReleaseDefer j tl t hp hs hd => exact LoopR_keep x _ hRy hPy rfl rfl rfl rfl (by intro _; rw [hp]; rfl) hx
      | execDone hp hk => exact LoopR_keep x _ hRy hPy rfl rfl rfl rfl (by intro _; rw [hp]; rfl) hx
      | releaseF hp hk => exact LoopR_keep x _ hRy hPy rfl rfl rfl rfl (by intro _; rw [hp]; rfl) hx
      | releaseE hp => exact LoopR_keep x _ hRy hPy rfl rfl rfl rfl (by intro _; rw [hp]; rfl) hx
      | exitReleased hp => exact LoopR_keep x _ hRy hPy rfl rfl rfl rfl (by intro _; rw [hp]; rfl) hx
      | exitEarly hp => rw [hp] at hnpx; cases hnpx
      | acquire hp hc => rw [hp] at hnpx; cases hnpx
      | register k hp hr hk => rw [hp] at hnpx; cases hnpx
      | waiter k hp hr hk hcyc => rw [hp] at hnpx; cases hnpx
      | waitCycle k hp hr hk hcyc => rw [hp] at hnpx; cases hnpx
      | wRelease hp => rw [hp] at hnpx; cases hnpx
      | wWake r hp he => rw [hp] at hnpx; cases hnpx
      | wReacq hp hc => rw [hp] at hnpx; cases hnpx
      | depsReleaseA hp hr => rw [hp] at hnpx; cases hnpx
      | depsReleaseE hp => rw [hp] at hnpx; cases hnpx
      | depsReacq hp hd hc => rw [hp] at hnpx; cases hnpx
      | depsDoneOk r rs hp hd hr ha => rw [hp] at hnpx; cases hnpx
      | depsDoneFail r rs hp hd hr hm => rw [hp] at hnpx; cases hnpx
      | ctxErr hp hc => rw [hp] at hnpx; cases hnpx
      | precondFail hp hc => rw [hp] at hnpx; cases hnpx
      | upToDate hp hc => rw [hp] at hnpx; cases hnpx
      | promptFail hp hc => rw [hp] at hnpx; cases hnpx

/-- **the loop runs to the end** (every reachable configuration): an activation that has passed its guards
(`guardsPassed` is among its events), is past its command loop and whose outcome is untouched — no entry failed —
has gone through the WHOLE command list: every non-deferred entry was started, every deferred entry registered -/
theorem loop_complete (P : Program) (F : Flags) (n : Nat) (tr : List Label) (c : Config)
    (h : replay P F (init n) tr = some c) (a : Nat) (x : Act) (hx : c.act? a = some x)
    (hg : Ev.guardsPassed ∈ evsOf a tr) (hp : postLoop x.phase = true) (ho : x.out = {}) :
    x.idx = x.def_.cmds.length ∧ x.started = plainBelow x.def_.cmds x.def_.cmds.length ∧
    x.regs = defersBelow x.def_.cmds x.def_.cmds.length := by
  have hm := actMon_sound loopMon LoopR P F
    (fun c kind t => ⟨false, rfl, RestInv_fresh P F c kind t, ProgInv_fresh P F c kind t, fun e => (by cases e), fun e => (by cases e)⟩)
    (fun o s x ev y eff hr hs => LoopR_local F o s x ev y eff hr hs)
    (fun s x k hr => ⟨RestInv_kids x k hr.rest, ProgInv_kids x k hr.prog, hr.notPre, hr.done⟩) n tr c h a
  rw [hx] at hm
  obtain ⟨s, hs, hr⟩ := hm
  rw [loopMon_run] at hs
  have hs' : s = true := by
    have := Option.some.inj hs
    rw [← this, (hasGP_iff _).mpr hg]; rfl
  have hidx := hr.done hs' hp ho
  refine ⟨hidx, ?_, by rw [← hidx]; exact hr.prog.regs⟩
  rcases hr.prog.any with h1 | ⟨_, _, hlt⟩
  · rw [← hidx]; exact h1
  · omega

end S2
end TaskModel.Sched
