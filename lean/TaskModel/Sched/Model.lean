/-
Sched.Model — the executor (`Run`, `RunTask`, `runDeps`, `runCommand`, `runDeferred`,
`startExecution`, the concurrency semaphore; task.go, concurrency.go) as a labelled
transition system.

A *label* is one synchronisation-relevant action of one activation of `RunTask`
(entering, taking / giving back a concurrency slot, registering or joining a
deduplicated execution, starting / finishing a command, joining dependencies, …) together
with the choices the environment makes at that point (the exit status of a shell
command, whether a cancelled context was observed).  `step` is deterministic given the
label; nondeterminism — the Go scheduler, the shell — is the choice of the next label.
`replay` folds `step` over a list of labels.  Theorems quantify over *all* label lists
(`Props/C01 … C14`); the correspondence check feeds `replay` the event log the real
executor writes through the `verif` hooks and must find it accepted.

Everything that is deterministic in the code between two labels (guard evaluation from
the task's data, `ignore_error` handling, registering `defer:` entries, wrapping errors
in `TaskRunError`) is computed by the model, not read from the log.

Results: an execution (own or shared through `startExecution`) ends with an `Outcome` — the
bare error plus the `taskFailure` marker; every activation that takes it (the executor and
each dedup waiter) derives its own result with `wrapFor` from its own `indirect` flag
(`Act.out` ↦ `Act.res`; invariant `res = wrapFor indirect out`, `S2.OutInv`).

Waiting for a deduplicated task (fix of `C07-once-cycle-deadlocks`): every activation knows
the innermost registered execution it is part of (`Act.par`, the context value
`executionKey{}`; inherited at `enter`, also by deferred calls); `Config.waits` records, per
execution, the executions it cannot finish before — those registered from within it and
those one of its calls waits for (`Eff.reg`, `Eff.wait`; never removed, an edge whose source
has finished is ignored).  A call that finds its key registered waits (`Ev.waiter`) unless
the registered execution reaches the caller's own along `waits` (`reaches`,
`Config.execWaitsFor` = `other.waitsFor(parent)`); then the wait is refused (`Ev.waitCycle`)
and the call returns 204.  `S7.WInv`: the relation is acyclic on unfinished executions.
-/
namespace TaskModel.Sched

/-- error classes as `main` and the callers distinguish them -/
inductive Res
  | ok
  | exit (n : Nat)          -- a shell command's exit status (`interp.IsExitStatus`)
  | ctx                     -- context cancelled
  | typed (c : Nat)         -- a `TaskError` with its exit code (200, 202–207)
  | run (inner : Res)       -- `*errors.TaskRunError` (201) wrapping `inner`
  | generic                 -- anything else (failed precondition, …)
deriving DecidableEq, Repr, Inhabited

def Res.isOk : Res → Bool
  | .ok => true
  | _ => false

/-- What the one real execution of a task — the closure `RunTask` hands to `startExecution` —
ends with, and what every caller sharing that execution (`other.err`) receives: the *bare*
error, and whether it came inside the private marker `*taskFailure` (a failing command, or a
dependency that failed with an exit status).  Anything else (context errors, failed
preconditions, a declined prompt, other dependency errors) is never wrapped. -/
structure Outcome where
  err : Res := .ok
  wrappable : Bool := false
deriving DecidableEq, Repr, Inhabited

/-- `RunTask` after `startExecution` returned: each caller — the one that executed the task
and every waiter — unwraps the marker and wraps the failure according to its OWN call:
`call.Indirect` → the bare error, a direct call → `&errors.TaskRunError{TaskName, Err}`. -/
def wrapFor (indirect : Bool) (o : Outcome) : Res :=
  if o.wrappable then (if indirect then o.err else .run o.err) else o.err

inductive Cmd
  | shell (code : Nat) (ignoreErr deferred : Bool)   -- `exit code`
  | call (target : Nat) (deferred : Bool)
deriving DecidableEq, Repr, Inhabited

def Cmd.deferred : Cmd → Bool
  | .shell _ _ d => d
  | .call _ d => d

inductive RunMode | always | once | whenChanged
deriving DecidableEq, Repr, Inhabited

structure TaskDef where
  deps : List Nat := []
  cmds : List Cmd := []
  ignoreError : Bool := false
  run : RunMode := .always
  internal : Bool := false
  -- guard outcomes are data, so theorems quantify over all of them
  platformOk : Bool := true
  requiresOk : Bool := true
  compileOk : Bool := true       -- `CompiledTask` succeeds (false: a template error in a task-level field)
  enumOk : Bool := true
  precondOk : Bool := true
  upToDate : Bool := false
  prompt : Bool := false
deriving Repr, Inhabited

abbrev Program := List TaskDef

structure Flags where
  cap : Option Nat := none       -- `--concurrency N` (none = unlimited)
  parallel : Bool := false
  force : Bool := false
  forceAll : Bool := false
  yes : Bool := false            -- prompts pass: `--yes`, or a terminal whose answer is "y"
  maxCalls : Nat := 1000         -- `MaximumTaskCall` (from Gen.Codes)
  promptErr : Bool := false      -- a prompt that does not pass ends with a READ ERROR (EOF on the
                                 -- terminal), reported as a plain error, not with the 205 class
deriving Repr, Inhabited

inductive Kind
  | top (k : Nat)                -- k-th call given to `Run`
  | dep (parent slot : Nat)      -- `runDeps`: own goroutine, group context
  | call (parent idx : Nat) (deferred : Bool)   -- `task:` command: caller's goroutine
deriving DecidableEq, Repr, Inhabited

inductive Phase
  | early                        -- result decided before a slot was taken; next: `exit`
  | entered                      -- next: `acquire`
  | acquired                     -- holds a slot; next: `register` / `waiter` / `depsRelease`
  | wWaiting | wReleased | wWoken   -- deduplicated-task waiter
  | exec                         -- next: `depsRelease`
  | depsWait                     -- slot given back; dependency activations may enter
  | depsJoined                   -- all dependencies returned, slot retaken
  | guards                       -- ctx check, preconditions, up-to-date, prompt
  | body                         -- next command is `cmds[idx]` (non-deferred)
  | inShell (i : Nat) (d : Bool)
  | inCall (i : Nat) (d : Bool)
  | callReturned (i : Nat) (d : Bool)
  | defers                       -- next deferred entry is the top of `stack`
  | finished                     -- next: `execDone` (registered execution) or `release`
  | execDoneP                    -- next: `release`
  | released                     -- next: `exit`
  | done
deriving DecidableEq, Repr, Inhabited

structure Act where
  kind : Kind
  task : Nat
  indirect : Bool
  phase : Phase
  def_ : TaskDef
  idx : Nat := 0                 -- index of the next entry of `cmds`
  rest : List Cmd := []          -- `cmds.drop idx`
  holds : Bool := false          -- holds a concurrency slot
  key : Option Nat := none       -- dedup key under which this activation is the registered execution
  waitsFor : Option Nat := none  -- dedup key this activation waits on
  par : Option Nat := none       -- the innermost registered execution (its dedup key) this activation is part
                                 -- of: `ctx.Value(executionKey{})`; fixed when the activation is created
  kids : List (Nat × Nat) := []  -- slot ↦ child activation id (deps: slot = j; call of cmd i: slot = ndeps + i)
  regs : List Nat := []          -- history: deferred entries registered, in order
  stack : List Nat := []         -- deferred entries still to run (top first)
  ran : List Nat := []           -- history: deferred entries run, in order
  started : List Nat := []       -- history: non-deferred commands started, in order
  exitCode : Nat := 0            -- `deferredExitCode`
  res : Res := .ok               -- result of the activation once decided (what `RunTask` returns)
  out : Outcome := {}            -- what `startExecution` returned to it (own execution or shared), before wrapping
  callRes : Res := .ok           -- result of the `task:` command just returned
deriving Repr, Inhabited

structure Config where
  acts : List (Nat × Act) := []      -- newest binding first; `lookup` = current state
  tokens : Nat := 0                  -- slots in use
  execs : List (Nat × Nat) := []     -- dedup key ↦ registered activation
  waits : List (Nat × Nat) := []     -- `execution.waits`: (p, k) = execution p cannot finish before execution k
                                     -- (k was registered from within p, or a call inside p waits for k); never removed
  calls : List (Nat × Nat) := []     -- task ↦ call count (newest first)
  tops : List (Nat × Nat) := []      -- k ↦ top activation id
  ncalls : Nat := 0
deriving Repr, Inhabited

def Config.act? (c : Config) (a : Nat) : Option Act := c.acts.lookup a
def Config.set (c : Config) (a : Nat) (x : Act) : Config := { c with acts := (a, x) :: c.acts }
def Config.callCount (c : Config) (t : Nat) : Nat := (c.calls.lookup t).getD 0

inductive Ev
  | enter (kind : Kind) (task : Nat)
  | acquire
  | register (key : Nat)
  | waiter (key : Nat)
  | waitCycle (key : Nat)         -- the wait is refused: the registered execution waits for the caller's own
  | wRelease | wWake | wReacq
  | depsRelease | depsReacq
  | depsDone (r : Res)            -- the error `g.Wait()` returned (`ok` if none)
  | ctxErr | precondFail | upToDate | promptFail | guardsPassed
  | cmdStart (i : Nat) (exitSeen : Option Nat) (d : Bool)   -- d: logged from inside `runDeferred`
  | cmdEnd (i : Nat) (r : Res)
  | callRelease (i : Nat) (d : Bool)
  | callRet (i : Nat)
  | callReacq (i : Nat)
  | execDone
  | release
  | exit
deriving DecidableEq, Repr, Inhabited

structure Label where
  act : Nat
  ev : Ev
deriving DecidableEq, Repr, Inhabited

/-! ### deterministic helpers -/

/-- what `RunTask` decides before it takes a slot, in the order it asks: unknown task (200),
platform skip (success — whatever the later guards would say), missing required variable (206),
the task does not compile (a template error: a plain error), value outside enum (207), called too
many times (204) -/
def earlyResult (d? : Option TaskDef) (count maxCalls : Nat) : Option Res :=
  match d? with
  | none => some (.typed 200)
  | some d =>
    if !d.platformOk then some .ok
    else if !d.requiresOk then some (.typed 206)
    else if !d.compileOk then some .generic
    else if !d.enumOk then some (.typed 207)
    else if count ≥ maxCalls then some (.typed 204)
    else none

/-- skip over `defer:` entries (registering them) up to the next command to run -/
def advance : List Cmd → Nat → List Nat → List Nat → (List Cmd × Nat × List Nat × List Nat)
  | [], i, regs, stack => ([], i, regs, stack)
  | c :: cs, i, regs, stack =>
    if c.deferred then advance cs (i+1) (regs ++ [i]) (i :: stack)
    else (c :: cs, i, regs, stack)

/-- position the activation at its next command, or at its deferred entries if none is left -/
def Act.next (x : Act) (cmds : List Cmd) (i : Nat) : Act :=
  let (rest, i', regs, stack) := advance cmds i x.regs x.stack
  match rest with
  | [] => { x with rest := [], idx := i', regs := regs, stack := stack,
                   phase := if stack.isEmpty then .finished else .defers }
  | _ :: _ => { x with rest := rest, idx := i', regs := regs, stack := stack, phase := .body }

/-- the activation's body stops with error `r` (already past `ignore_error` handling): the
execution ends with `taskFailure{r}`; its own caller gets `wrapFor x.indirect ⟨r, true⟩` -/
def Act.fail (x : Act) (r : Res) : Act :=
  { x with res := if x.indirect then r else .run r, out := ⟨r, true⟩,
           phase := if x.stack.isEmpty then .finished else .defers }

/-- the activation stops before its command loop (guards, dependency failure) with the
unmarked error `r`: no defers registered -/
def Act.stop (x : Act) (r : Res) : Act := { x with res := r, out := ⟨r, false⟩, phase := .finished }

/-- what the execution ends with when its dependency group reports `r`: an exit status goes
into the marker, anything else is returned as it is -/
def depOut : Res → Outcome
  | .exit n => ⟨.exit n, true⟩
  | r => ⟨r, false⟩

/-- the error a failing dependency group gives the task (`= wrapFor indirect (depOut r)`): an
exit status is wrapped for a direct call -/
def depErr (indirect : Bool) (r : Res) : Res :=
  match r with
  | .exit n => if indirect then Res.exit n else Res.run (.exit n)
  | r => r

theorem depErr_isOk (b : Bool) (r : Res) : (depErr b r).isOk = r.isOk := by
  cases r <;> cases b <;> rfl

theorem depErr_not_exit (b : Bool) (r : Res) (h : ∀ n, r ≠ .exit n) : depErr b r = r := by
  cases r <;> first | rfl | exact absurd rfl (h _)

/-- the activation stops because its dependency group reported the failure `r` -/
def Act.stopDeps (x : Act) (r : Res) : Act :=
  { x with res := depErr x.indirect r, out := depOut r, phase := .finished }

/-- outcome of non-deferred command `i` with raw result `r` -/
def Act.afterCmd (x : Act) (c : Cmd) (r : Res) : Act :=
  let r' := match c, r with
    | .shell _ true _, .exit _ => Res.ok          -- command-level ignore_error: exit statuses only
    | _, r => r
  match r' with
  | .ok => x.next x.rest.tail (x.idx + 1)
  | .exit n =>
    if x.def_.ignoreError then x.next x.rest.tail (x.idx + 1)
    else ({ x with exitCode := n % 256 }).fail (.exit n)
  | e => x.fail e

/-- after a deferred entry: pop it, go on with the next one -/
def Act.afterDefer (x : Act) : Act :=
  match x.stack with
  | [] => { x with phase := .finished }
  | i :: s => { x with stack := s, ran := x.ran ++ [i], phase := if s.isEmpty then .finished else .defers }

def slotOfDep (j : Nat) : Nat := j
def slotOfCall (x : Act) (i : Nat) : Nat := x.def_.deps.length + i

def kidDone (c : Config) (id : Nat) : Option Res :=
  match c.act? id with
  | some k => if k.phase = .done then some k.res else none
  | none => none

/-- results of the dependency activations of `x`, if every one of them has entered and exited -/
def depResults (c : Config) (x : Act) : Nat → Nat → Option (List Res)
  | 0, _ => some []
  | n+1, j =>
    match x.kids.lookup (slotOfDep j) with
    | none => none
    | some id =>
      match kidDone c id, depResults c x n (j+1) with
      | some r, some rs => some (r :: rs)
      | _, _ => none

/-- some dependency of `x` has already returned an error (the errgroup cancels its context) -/
def depFailed (c : Config) (x : Act) : Nat → Nat → Bool
  | 0, _ => false
  | n+1, j =>
    (match x.kids.lookup (slotOfDep j) with
     | some id => (match kidDone c id with | some r => !r.isOk | none => false)
     | none => false) || depFailed c x n (j+1)

def topFailed (c : Config) : List (Nat × Nat) → Bool
  | [] => false
  | (_, id) :: r => (match kidDone c id with | some res => !res.isOk | none => false) || topFailed c r

/-- may the context handed to activation `a` already be cancelled?  (walks the parents) -/
def ctxCancelled (F : Flags) (c : Config) : Nat → Nat → Bool
  | 0, _ => false
  | fuel+1, a =>
    match c.act? a with
    | none => false
    | some x =>
      match x.kind with
      | .top _ => F.parallel && topFailed c c.tops
      | .dep p _ =>
        (match c.act? p with
         | some px => depFailed c px px.def_.deps.length 0
         | none => false) || ctxCancelled F c fuel p
      | .call p _ d => if d then false else ctxCancelled F c fuel p

def Config.cancelled (F : Flags) (c : Config) (a : Nat) : Bool := ctxCancelled F c (c.acts.length + 1) a

def skipFingerprinting (F : Flags) (x : Act) : Bool := F.forceAll || (!x.indirect && F.force)

def capFree (F : Flags) (c : Config) : Bool :=
  match F.cap with
  | none => true
  | some n => c.tokens < n

/-- first error among results (errgroup keeps the first; log order may differ from real
order, so any failing member's error is accepted — see `joinOk`) -/
def firstErr : List Res → Option Res
  | [] => none
  | r :: rs => if r.isOk then firstErr rs else some r

/-- what the shell answers for `exit code` when it is not cancelled -/
def shellRes : Cmd → Res
  | .shell 0 _ _ => .ok
  | .shell n _ _ => if n % 1000 = 0 then .ok else .exit (n % 1000)
  | .call _ _ => .ok

/-- A shell command whose code is `1000 + n` or `2000 + n` is *flaky*: the harness renders it
so that, within one invocation, its first execution exits `n` and every later one `0`
(`2000 + n`: the other way round).  Which of the two an activation gets depends on the
interleaving, so the acceptor allows both; an ordinary command has one possible result. -/
def altRes : Cmd → Res
  | .shell n ie d => if n ≥ 1000 then .ok else shellRes (.shell n ie d)
  | .call _ _ => .ok

/-- what a prompt that does not pass ends the task with: the user's refusal or the missing
terminal are the "cancelled" class 205; a read error on the terminal is a plain error -/
def promptRes (F : Flags) : Res := if F.promptErr then .generic else .typed 205

/-! ### the transition function -/

/-- the execution the children of `x` are part of: its own, if `x` is the registered execution of a
deduplicated task (`execute(context.WithValue(ctx, executionKey{}, this))`), else the one it is part
of itself.  (`runDeferred` keeps the values of the task's context, so deferred calls are covered.) -/
def Act.inner (x : Act) : Option Nat :=
  match x.key with
  | some k => some k
  | none => x.par

/-- `ctx.Value(executionKey{})` of a new activation: the `inner` execution of its creator; a call
given to `Run` is part of none -/
def parentExec (c : Config) : Kind → Option Nat
  | .top _ => none
  | .dep p _ => (match c.act? p with | some px => px.inner | none => none)
  | .call p _ _ => (match c.act? p with | some px => px.inner | none => none)

/-- the activation a freshly entered label creates -/
def freshAct (P : Program) (F : Flags) (c : Config) (kind : Kind) (t : Nat) : Act :=
  let x0 : Act := { kind, task := t, indirect := (match kind with | .top _ => false | _ => true),
                    phase := .entered, def_ := (P[t]?).getD {}, par := parentExec c kind }
  match earlyResult P[t]? (c.callCount t + 1) F.maxCalls with
  | some r => { x0 with phase := .early, res := r, out := ⟨r, false⟩ }
  | none => x0

/-- `atomic.AddInt32(e.taskCallCount[t], 1)`: reached only when platform / requires / compilation / enum passed -/
def bumpCalls (P : Program) (c : Config) (t : Nat) : Config :=
  match P[t]? with
  | some d => if d.platformOk && d.requiresOk && d.compileOk && d.enumOk then { c with calls := (t, c.callCount t + 1) :: c.calls } else c
  | none => c

/-- who may create activation `a` now: `Run` (k-th call) or a parent activation, which gains a kid -/
inductive Parent
  | top (k : Nat)
  | act (p : Nat) (px' : Act)

def enterCheck (F : Flags) (c : Config) (a : Nat) (kind : Kind) (t : Nat) : Option Parent :=
  match kind with
  | .top k =>
    if k ≥ c.ncalls || (c.tops.lookup k).isSome then none
    else
      -- sequential `Run`: the previous call must have returned successfully
      let prevOk := F.parallel || k = 0 ||
        (match c.tops.lookup (k-1) with
         | some pid => (match kidDone c pid with | some r => r.isOk | none => false)
         | none => false)
      if prevOk then some (.top k) else none
  | .dep p j =>
    match c.act? p with
    | none => none
    | some px =>
      if px.phase ≠ .depsWait || (px.kids.lookup (slotOfDep j)).isSome then none else
      match px.def_.deps[j]? with
      | none => none
      | some t' => if t' ≠ t then none else some (.act p { px with kids := (slotOfDep j, a) :: px.kids })
  | .call p i dfr =>
    match c.act? p with
    | none => none
    | some px =>
      if px.phase ≠ .inCall i dfr || (px.kids.lookup (slotOfCall px i)).isSome then none else
      match px.def_.cmds[i]? with
      | some (.call t' d') =>
        if t' ≠ t || d' ≠ dfr then none else some (.act p { px with kids := (slotOfCall px i, a) :: px.kids })
      | _ => none

def enterAct (P : Program) (F : Flags) (c : Config) (a : Nat) (kind : Kind) (t : Nat) : Option Config :=
  if (c.act? a).isSome then none else
  match enterCheck F c a kind t with
  | none => none
  | some (.top k) => some (({ bumpCalls P c t with tops := (k, a) :: c.tops }).set a (freshAct P F c kind t))
  | some (.act p px') => some (((bumpCalls P c t).set p px').set a (freshAct P F c kind t))

/-- what one activation can observe of the rest of the configuration at a step -/
structure Obs where
  -- (fields are functions so that the expensive ones are evaluated only by the steps that read them)
  capFree : Bool                  -- a concurrency slot is free
  cancelled : Unit → Bool         -- the activation's context may be cancelled
  deps : Unit → Option (List Res) -- results of all dependency activations, once all have exited
  callKid : Unit → Option Res     -- result of the activation called by the current `task:` command, once exited
  registered : Nat → Bool         -- is a dedup key registered?
  cyc : Nat → Bool                -- `parent != nil && other.waitsFor(parent)`: does the execution registered under
                                  -- the key wait (directly or through others) for the execution the activation is part of?
  execResult : Unit → Option Outcome  -- what the execution this waiter waits for ended with, once it has finished

inductive Eff | none | acq | rel | reg (k : Nat) | wait (k : Nat)
deriving DecidableEq, Repr

/-- one step of one activation (everything except `enter`) -/
def stepLocal (F : Flags) (o : Obs) (x : Act) (ev : Ev) : Option (Act × Eff) :=
  match ev, x.phase with
  | .exit, .early => some ({ x with phase := .done }, .none)
  | .acquire, .entered =>
    if o.capFree then some ({ x with phase := .acquired, holds := true }, .acq) else none
  -- `startExecution`
  | .register k, .acquired =>
    if x.def_.run = .always || o.registered k then none
    else some ({ x with phase := .exec, key := some k }, .reg k)
  | .waiter k, .acquired =>
    if x.def_.run = .always || !o.registered k || o.cyc k then none
    else some ({ x with phase := .wWaiting, waitsFor := some k }, .wait k)
  | .waitCycle k, .acquired =>
    -- the registered execution waits for the one this call is part of: waiting would never end;
    -- `startExecution` returns `TaskCalledTooManyTimesError` (204), unmarked
    if x.def_.run = .always || !o.registered k || !o.cyc k then none
    else some (x.stop (.typed 204), .none)
  | .wRelease, .wWaiting => some ({ x with phase := .wReleased, holds := false }, .rel)
  | .wWake, .wReleased =>
    -- the waiter returns only once the registered execution has really finished, with its outcome
    -- (`other.err`), which it then wraps according to its own call like any other caller
    match o.execResult () with
    | some r => some ({ x with phase := .wWoken, res := wrapFor x.indirect r, out := r }, .none)
    | none => none
  | .wReacq, .wWoken =>
    if o.capFree then some ({ x with phase := .finished, holds := true }, .acq) else none
  -- `runDeps`
  | .depsRelease, .acquired =>
    if x.def_.run = .always then some ({ x with phase := .depsWait, holds := false }, .rel) else none
  | .depsRelease, .exec => some ({ x with phase := .depsWait, holds := false }, .rel)
  | .depsReacq, .depsWait =>
    if (o.deps ()).isSome && o.capFree then some ({ x with phase := .depsJoined, holds := true }, .acq) else none
  | .depsDone r, .depsJoined =>
    match o.deps () with
    | none => none
    | some rs =>
      if r.isOk then
        (if rs.all Res.isOk then some ({ x with phase := .guards }, .none) else none)
      else if rs.contains r then
        -- the errgroup keeps the first error in real time: any failing member's error is possible.
        -- A failing dependency fails the task; an exit status is marked (`depOut`), so that every
        -- caller sharing the execution wraps it if it was called directly (`depErr` for this one).
        some (x.stopDeps r, .none)
      else none
  -- guards (task.go: ctx check, preconditions, fingerprint, prompt)
  | .ctxErr, .guards => if o.cancelled () then some (x.stop .ctx, .none) else none
  | .precondFail, .guards =>
    if !x.def_.precondOk || o.cancelled () then some (x.stop .generic, .none) else none
  | .upToDate, .guards =>
    if x.def_.precondOk && x.def_.upToDate && !skipFingerprinting F x then some (x.stop .ok, .none) else none
  | .promptFail, .guards =>
    if x.def_.precondOk && x.def_.prompt && !F.yes && (skipFingerprinting F x || !x.def_.upToDate || o.cancelled ())
    then some (x.stop (promptRes F), .none) else none
  | .guardsPassed, .guards =>
    if x.def_.precondOk && (!x.def_.prompt || F.yes) &&
       (skipFingerprinting F x || !x.def_.upToDate || o.cancelled ())
    then some (x.next x.def_.cmds 0, .none) else none
  -- commands
  | .cmdStart i seen d, .body =>
    match x.rest with
    | .shell _ _ false :: _ =>
      if i = x.idx && seen.isNone && !d then some ({ x with phase := .inShell i false, started := x.started ++ [i] }, .none)
      else none
    | _ => none
  | .cmdEnd i r, .inShell j false =>
    if i ≠ j then none else
    match x.rest with
    | cmd :: _ =>
      if r = .ctx && !o.cancelled () then none else
      if r ≠ .ctx && r ≠ .generic && r ≠ shellRes cmd && r ≠ altRes cmd then none else
      some (x.afterCmd cmd r, .none)
    | [] => none
  | .callRelease i d, .body =>
    match x.rest with
    | .call _ false :: _ =>
      if i = x.idx && !d then some ({ x with phase := .inCall i false, holds := false, started := x.started ++ [i] }, .rel)
      else none
    | _ => none
  | .callRet i, .inCall j d =>
    if i ≠ j then none else
    match o.callKid () with
    | none => none
    | some r => some ({ x with phase := .callReturned i d, callRes := r }, .none)
  | .callReacq i, .callReturned j d =>
    if i ≠ j || !o.capFree then none else
    let x' := { x with holds := true }
    if d then some (x'.afterDefer, .acq)
    else
      match x.rest with
      | cmd :: _ => some (x'.afterCmd cmd x.callRes, .acq)
      | [] => none
  -- deferred entries (`runDeferred`): fresh context, result discarded
  | .cmdStart i seen d, .defers =>
    match x.stack with
    | j :: _ =>
      match x.def_.cmds[j]? with
      | some (.shell _ _ true) =>
        let expect := if x.exitCode > 0 then some x.exitCode else none
        if i = j && seen = expect && d then some ({ x with phase := .inShell i true }, .none) else none
      | _ => none
    | [] => none
  | .cmdEnd i r, .inShell j true =>
    if i ≠ j then none else
    match x.def_.cmds[j]? with
    | some cmd => if r ≠ .generic && r ≠ shellRes cmd && r ≠ altRes cmd then none else some (x.afterDefer, .none)
    | none => none
  | .callRelease i d, .defers =>
    match x.stack with
    | j :: _ =>
      match x.def_.cmds[j]? with
      | some (.call _ true) =>
        if i = j && d then some ({ x with phase := .inCall i true, holds := false }, .rel) else none
      | _ => none
    | [] => none
  -- leaving
  | .execDone, .finished => if x.key.isSome then some ({ x with phase := .execDoneP }, .none) else none
  | .release, .finished => if x.key.isNone then some ({ x with phase := .released, holds := false }, .rel) else none
  | .release, .execDoneP => some ({ x with phase := .released, holds := false }, .rel)
  | .exit, .released => some ({ x with phase := .done }, .none)
  | _, _ => none

/-- has the registered execution of key `k` finished, and what did it end with?  (The bare
outcome, not the executing activation's own — wrapped — result.) -/
def execResultOf (c : Config) (k? : Option Nat) : Option Outcome :=
  match k? with
  | none => none
  | some k =>
    match c.execs.lookup k with
    | none => none
    | some e =>
      match c.act? e with
      | none => none
      | some ex =>
        if ex.phase = .execDoneP || ex.phase = .released || ex.phase = .done then some ex.out else none

/-- `<-x.done` would not block: the execution registered under `k` has finished -/
def execFinished (c : Config) (k : Nat) : Bool := (execResultOf c (some k)).isSome

/-- `other.waitsFor(target)` (task.go): is `p` reachable from `k` along `waits`, not going on from an
execution that has finished?  `k = p` counts.  Fuel: a simple path visits each registered execution
at most once (`Config.execWaitsFor`). -/
def reaches (c : Config) : Nat → Nat → Nat → Bool
  | 0, k, p => k == p
  | fuel+1, k, p => k == p || (!(execFinished c k) && c.waits.any (fun e => e.1 == k && reaches c fuel e.2 p))

def Config.execWaitsFor (c : Config) (k p : Nat) : Bool := reaches c c.execs.length k p

def callKidOf (c : Config) (x : Act) : Option Res :=
  match x.phase with
  | .inCall i _ =>
    match x.kids.lookup (slotOfCall x i) with
    | some id => kidDone c id
    | none => none
  | _ => none

def obsOf (F : Flags) (c : Config) (a : Nat) (x : Act) : Obs :=
  { capFree := capFree F c
    cancelled := fun _ => c.cancelled F a
    deps := fun _ => depResults c x x.def_.deps.length 0
    callKid := fun _ => callKidOf c x
    registered := fun k => (c.execs.lookup k).isSome
    cyc := fun k => (match x.par with | some p => c.execWaitsFor k p | none => false)
    execResult := fun _ => execResultOf c x.waitsFor }

/-- `parent.waits = append(parent.waits, …)`: activation `a`, part of execution `p`, registers or starts
to wait for execution `k`; an activation that is part of no execution adds nothing -/
def addWait (c : Config) (a k : Nat) : List (Nat × Nat) :=
  match c.act? a with
  | some x => (match x.par with | some p => (p, k) :: c.waits | none => c.waits)
  | none => c.waits

def applyEff (c : Config) (a : Nat) : Eff → Config
  | .none => c
  | .acq => { c with tokens := c.tokens + 1 }
  | .rel => { c with tokens := c.tokens - 1 }
  | .reg k => { c with execs := (k, a) :: c.execs, waits := addWait c a k }
  | .wait k => { c with waits := addWait c a k }

def step (P : Program) (F : Flags) (c : Config) (l : Label) : Option Config :=
  match l.ev with
  | .enter kind t => enterAct P F c l.act kind t
  | ev =>
    match c.act? l.act with
    | none => none
    | some x =>
      match stepLocal F (obsOf F c l.act x) x ev with
      | none => none
      | some (y, eff) => some ((applyEff c l.act eff).set l.act y)

def replay (P : Program) (F : Flags) : Config → List Label → Option Config
  | c, [] => some c
  | c, l :: ls =>
    match step P F c l with
    | some c' => replay P F c' ls
    | none => none

def init (ncalls : Nat) : Config := { ncalls := ncalls }

end TaskModel.Sched
