import TaskModel.Sched.ActMon
/-!
Sched.TokenLemmas — facts about `stepLocal` used by C07 / C13: frame lemmas for the
helpers (`next`, `fail`, `stop`, `afterCmd`, `afterDefer`), the effect of a step as a
function of its event, the phases in which an activation holds a slot.
-/
namespace TaskModel.Sched.S7

/-! ### frame lemmas: fields the helpers leave alone -/

/-- the static part of an activation and its slot flag -/
structure Act.SameStatic (y x : Act) : Prop where
  def_ : y.def_ = x.def_
  task : y.task = x.task
  kind : y.kind = x.kind
  indirect : y.indirect = x.indirect
  kids : y.kids = x.kids

theorem Act.SameStatic.rfl' (x : Act) : Act.SameStatic x x := ⟨rfl, rfl, rfl, rfl, rfl⟩

theorem Act.SameStatic.trans {z y x : Act} (h1 : Act.SameStatic z y) (h2 : Act.SameStatic y x) : Act.SameStatic z x :=
  ⟨h1.def_.trans h2.def_, h1.task.trans h2.task, h1.kind.trans h2.kind, h1.indirect.trans h2.indirect,
   h1.kids.trans h2.kids⟩

theorem next_static (x : Act) (cs : List Cmd) (i : Nat) :
    Act.SameStatic (x.next cs i) x ∧ (x.next cs i).holds = x.holds ∧ (x.next cs i).key = x.key ∧
    (x.next cs i).waitsFor = x.waitsFor ∧ (x.next cs i).started = x.started ∧ (x.next cs i).res = x.res ∧
    ((x.next cs i).phase = .body ∨ (x.next cs i).phase = .defers ∨ (x.next cs i).phase = .finished) := by
  unfold Act.next
  split
  rename_i rest i' regs stack heq
  split
  · refine ⟨⟨rfl, rfl, rfl, rfl, rfl⟩, rfl, rfl, rfl, rfl, rfl, ?_⟩
    simp only; split <;> simp
  · exact ⟨⟨rfl, rfl, rfl, rfl, rfl⟩, rfl, rfl, rfl, rfl, rfl, .inl rfl⟩

theorem fail_static (x : Act) (r : Res) :
    Act.SameStatic (x.fail r) x ∧ (x.fail r).holds = x.holds ∧ (x.fail r).key = x.key ∧
    (x.fail r).waitsFor = x.waitsFor ∧ (x.fail r).started = x.started ∧
    (x.fail r).res = (if x.indirect then r else .run r) ∧
    ((x.fail r).phase = .defers ∨ (x.fail r).phase = .finished) := by
  unfold Act.fail
  refine ⟨⟨rfl, rfl, rfl, rfl, rfl⟩, rfl, rfl, rfl, rfl, rfl, ?_⟩
  simp only; split <;> simp

theorem stop_static (x : Act) (r : Res) :
    Act.SameStatic (x.stop r) x ∧ (x.stop r).holds = x.holds ∧ (x.stop r).key = x.key ∧
    (x.stop r).waitsFor = x.waitsFor ∧ (x.stop r).started = x.started ∧ (x.stop r).res = r ∧
    (x.stop r).phase = .finished :=
  ⟨⟨rfl, rfl, rfl, rfl, rfl⟩, rfl, rfl, rfl, rfl, rfl, rfl⟩

theorem stopDeps_static (x : Act) (r : Res) :
    Act.SameStatic (x.stopDeps r) x ∧ (x.stopDeps r).holds = x.holds ∧ (x.stopDeps r).key = x.key ∧
    (x.stopDeps r).waitsFor = x.waitsFor ∧ (x.stopDeps r).started = x.started ∧
    (x.stopDeps r).res = depErr x.indirect r ∧ (x.stopDeps r).phase = .finished :=
  ⟨⟨rfl, rfl, rfl, rfl, rfl⟩, rfl, rfl, rfl, rfl, rfl, rfl⟩

theorem afterCmd_static (x : Act) (c : Cmd) (r : Res) :
    Act.SameStatic (x.afterCmd c r) x ∧ (x.afterCmd c r).holds = x.holds ∧ (x.afterCmd c r).key = x.key ∧
    (x.afterCmd c r).waitsFor = x.waitsFor ∧ (x.afterCmd c r).started = x.started ∧
    ((x.afterCmd c r).phase = .body ∨ (x.afterCmd c r).phase = .defers ∨ (x.afterCmd c r).phase = .finished) := by
  have hn := next_static x x.rest.tail (x.idx + 1)
  unfold Act.afterCmd
  simp only
  split
  · exact ⟨hn.1, hn.2.1, hn.2.2.1, hn.2.2.2.1, hn.2.2.2.2.1, hn.2.2.2.2.2.2⟩
  · split
    · exact ⟨hn.1, hn.2.1, hn.2.2.1, hn.2.2.2.1, hn.2.2.2.2.1, hn.2.2.2.2.2.2⟩
    · rename_i n _ _
      have hf := fail_static { x with exitCode := n % 256 } (.exit n)
      exact ⟨hf.1.trans ⟨rfl, rfl, rfl, rfl, rfl⟩, hf.2.1, hf.2.2.1, hf.2.2.2.1, hf.2.2.2.2.1, .inr hf.2.2.2.2.2.2⟩
  · have hf := fail_static x
    exact ⟨(hf _).1, (hf _).2.1, (hf _).2.2.1, (hf _).2.2.2.1, (hf _).2.2.2.2.1, .inr (hf _).2.2.2.2.2.2⟩

theorem afterDefer_static (x : Act) :
    Act.SameStatic x.afterDefer x ∧ x.afterDefer.holds = x.holds ∧ x.afterDefer.key = x.key ∧
    x.afterDefer.waitsFor = x.waitsFor ∧ x.afterDefer.started = x.started ∧ x.afterDefer.res = x.res ∧
    (x.afterDefer.phase = .defers ∨ x.afterDefer.phase = .finished) := by
  unfold Act.afterDefer
  split
  · exact ⟨⟨rfl, rfl, rfl, rfl, rfl⟩, rfl, rfl, rfl, rfl, rfl, .inr rfl⟩
  · refine ⟨⟨rfl, rfl, rfl, rfl, rfl⟩, rfl, rfl, rfl, rfl, rfl, ?_⟩
    simp only; split <;> simp

/-! ### the effect of a step is a function of its event -/

/-- the change to the slot counter an event stands for -/
def evEff : Ev → Eff
  | .acquire | .wReacq | .depsReacq | .callReacq _ => .acq
  | .release | .wRelease | .depsRelease | .callRelease _ _ => .rel
  | .register k => .reg k
  | .waiter k => .wait k
  | _ => .none

/-- decompose `h : stepLocal F o x ev = some (y, eff)` into one goal per accepting branch -/
macro "steplocal_cases " h:ident : tactic => `(tactic| (
  unfold stepLocal at $h:ident
  split at $h:ident
  all_goals (try (repeat' split at $h:ident))
  all_goals (try (simp only at $h:ident; repeat' split at $h:ident))
  all_goals (try cases $h:ident)))

set_option maxHeartbeats 1000000 in
theorem stepLocal_eff (F : Flags) (o : Obs) (x : Act) (ev : Ev) (y : Act) (eff : Eff)
    (h : stepLocal F o x ev = some (y, eff)) : eff = evEff ev := by
  steplocal_cases h
  all_goals (try rfl)

set_option maxHeartbeats 1000000 in
theorem stepLocal_static (F : Flags) (o : Obs) (x : Act) (ev : Ev) (y : Act) (eff : Eff)
    (h : stepLocal F o x ev = some (y, eff)) : Act.SameStatic y x := by
  steplocal_cases h
  all_goals (try exact ⟨rfl, rfl, rfl, rfl, rfl⟩)
  all_goals (try exact (stop_static _ _).1)
  all_goals (try exact (stopDeps_static _ _).1)
  all_goals (try exact (next_static _ _ _).1)
  all_goals (try exact (afterCmd_static _ _ _).1)
  all_goals (try exact (afterDefer_static _).1)
  all_goals (try exact ((afterCmd_static _ _ _).1.trans ⟨rfl, rfl, rfl, rfl, rfl⟩))
  all_goals (try exact ((afterDefer_static _).1.trans ⟨rfl, rfl, rfl, rfl, rfl⟩))

set_option maxHeartbeats 1000000 in
/-- every step that takes a slot is guarded by `capFree` -/
theorem stepLocal_acq_capFree (F : Flags) (o : Obs) (x : Act) (ev : Ev) (y : Act)
    (h : stepLocal F o x ev = some (y, .acq)) : o.capFree = true := by
  generalize he : Eff.acq = eff at h
  steplocal_cases h
  all_goals (try (cases he; done))
  all_goals (simp_all)

theorem boundOk_cons (cap : Nat) (l : Label) (ls : List Label) (n : Nat) :
    boundOk cap (l :: ls) n =
      (match evEff l.ev with
       | .acq => decide (n + 1 ≤ cap) && boundOk cap ls (n + 1)
       | .rel => boundOk cap ls (n - 1)
       | _ => boundOk cap ls n) := by
  cases l with
  | mk a ev => cases ev <;> rfl

/-! ### the phases in which an activation holds a concurrency slot -/

/-- does an activation in this phase hold a slot? -/
def holdPhase : Phase → Bool
  | .acquired | .wWaiting | .exec | .depsJoined | .guards | .body | .inShell _ _ | .defers | .finished
  | .execDoneP => true
  | _ => false

theorem holdPhase_after {p : Phase} (h : p = .body ∨ p = .defers ∨ p = .finished) : holdPhase p = true := by
  rcases h with h | h | h <;> rw [h] <;> rfl

/-- what a step does to the slot flag, by effect -/
def holdsDelta (o : Obs) (x y : Act) : Eff → Prop
  | .acq => x.holds = false ∧ y.holds = true ∧ o.capFree = true
  | .rel => x.holds = true ∧ y.holds = false
  | _ => y.holds = x.holds

theorem holds_keep (o : Obs) (x y : Act) (hy : y.holds = x.holds) (hp : holdPhase y.phase = true)
    (hx : x.holds = true) : y.holds = holdPhase y.phase ∧ holdsDelta o x y .none :=
  ⟨by rw [hy, hx, hp], hy⟩

theorem holds_reacq (o : Obs) (x y : Act) (hy : y.holds = true) (hp : holdPhase y.phase = true)
    (hx : x.holds = false) (hc : o.capFree = true) : y.holds = holdPhase y.phase ∧ holdsDelta o x y .acq :=
  ⟨by rw [hy, hp], hx, hy, hc⟩

set_option maxHeartbeats 1000000 in
theorem stepLocal_holds (F : Flags) (o : Obs) (x : Act) (ev : Ev) (y : Act) (eff : Eff)
    (hx : x.holds = holdPhase x.phase) (h : stepLocal F o x ev = some (y, eff)) :
    y.holds = holdPhase y.phase ∧ holdsDelta o x y eff := by
  steplocal_cases h
  all_goals (try (simp_all [holdPhase, holdsDelta]; done))
  all_goals (try (
    have hx' : x.holds = true := by simp_all [holdPhase]
    first
    | exact holds_keep o x _ (stop_static _ _).2.1 rfl hx'
    | exact holds_keep o x _ (stopDeps_static _ _).2.1 rfl hx'
    | exact holds_keep o x _ (next_static _ _ _).2.1 (holdPhase_after (next_static _ _ _).2.2.2.2.2.2) hx'
    | exact holds_keep o x _ (afterCmd_static _ _ _).2.1 (holdPhase_after (afterCmd_static _ _ _).2.2.2.2.2) hx'
    | exact holds_keep o x _ (afterDefer_static _).2.1 (holdPhase_after (.inr (afterDefer_static _).2.2.2.2.2.2)) hx'))
  all_goals (
    have hx' : x.holds = false := by simp_all [holdPhase]
    have hc : o.capFree = true := by simp_all
    first
    | exact holds_reacq o x _ (afterCmd_static _ _ _).2.1 (holdPhase_after (afterCmd_static _ _ _).2.2.2.2.2) hx' hc
    | exact holds_reacq o x _ (afterDefer_static _).2.1 (holdPhase_after (.inr (afterDefer_static _).2.2.2.2.2.2)) hx' hc)

/-! ### the first two phases: `early` (only `exit`) and `entered` (only `acquire`) -/

/-- phases a helper (`next`, `fail`, `stop`, `afterCmd`, `afterDefer`) can leave an activation in -/
def afterPhase (p : Phase) : Prop := p = .body ∨ p = .defers ∨ p = .finished

theorem afterPhase_ne {p : Phase} (h : afterPhase p) : p ≠ .entered ∧ p ≠ .early := by
  rcases h with h | h | h <;> rw [h] <;> exact ⟨by simp, by simp⟩

set_option maxHeartbeats 1000000 in
theorem stepLocal_entered (F : Flags) (o : Obs) (x : Act) (ev : Ev) (y : Act) (eff : Eff)
    (h : stepLocal F o x ev = some (y, eff)) :
    (x.phase = .entered ↔ ev = .acquire) ∧ y.phase ≠ .entered ∧ y.phase ≠ .early ∧
    (ev = .acquire → y.phase = .acquired) := by
  steplocal_cases h
  all_goals (try (simp_all; done))
  all_goals (
    refine ⟨by simp_all, ?_, ?_, by simp⟩
    all_goals first
    | exact (afterPhase_ne (.inr (.inr (stop_static _ _).2.2.2.2.2.2))).1
    | exact (afterPhase_ne (.inr (.inr (stop_static _ _).2.2.2.2.2.2))).2
    | exact (afterPhase_ne (.inr (.inr (stopDeps_static _ _).2.2.2.2.2.2))).1
    | exact (afterPhase_ne (.inr (.inr (stopDeps_static _ _).2.2.2.2.2.2))).2
    | exact (afterPhase_ne (next_static _ _ _).2.2.2.2.2.2).1
    | exact (afterPhase_ne (next_static _ _ _).2.2.2.2.2.2).2
    | exact (afterPhase_ne (afterCmd_static _ _ _).2.2.2.2.2).1
    | exact (afterPhase_ne (afterCmd_static _ _ _).2.2.2.2.2).2
    | exact (afterPhase_ne (.inr (afterDefer_static _).2.2.2.2.2.2)).1
    | exact (afterPhase_ne (.inr (afterDefer_static _).2.2.2.2.2.2)).2)

set_option maxHeartbeats 1000000 in
/-- an activation whose result was decided at `enter` can only return it -/
theorem stepLocal_early (F : Flags) (o : Obs) (x : Act) (ev : Ev) (y : Act) (eff : Eff)
    (hx : x.phase = .early) (h : stepLocal F o x ev = some (y, eff)) :
    ev = .exit ∧ eff = .none ∧ y = { x with phase := .done } := by
  steplocal_cases h
  all_goals (try (simp_all; done))
  all_goals (simp_all)

/-! ### commands start only from `body` / `defers` -/

set_option maxHeartbeats 1000000 in
theorem stepLocal_cmd (F : Flags) (o : Obs) (x : Act) (ev : Ev) (y : Act) (eff : Eff)
    (h : stepLocal F o x ev = some (y, eff)) :
    (∀ i s d, ev = .cmdStart i s d → (x.phase = .body ∨ x.phase = .defers) ∧ y.phase = .inShell i d) ∧
    (∀ i r, ev = .cmdEnd i r → ∃ d, x.phase = .inShell i d) ∧
    (∀ i d, ev = .callRelease i d → (x.phase = .body ∨ x.phase = .defers) ∧ y.phase = .inCall i d) := by
  steplocal_cases h
  all_goals (try (simp_all; done))
  all_goals (refine ⟨by simp, ?_, by simp⟩; intro i r he; cases he; simp_all)

end TaskModel.Sched.S7
