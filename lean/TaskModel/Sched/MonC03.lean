import TaskModel.Sched.Monitors
/-!
Sched.MonC03 — the C03 fail-stop property as state machines on the raw events (no model
state), executable by the compiled driver on traces of the real executor.

* `failStopMon d` (one activation of a task with definition `d`): after a non-deferred
  command ended with a failure that is not suppressed by `ignore_error`, the activation
  starts no further non-deferred command.
* `propMon P` (whole trace): additionally a task fails — and therefore starts no further
  command — when its dependency group failed (`depsDone r`, `r ≠ ok`), when a guard failed,
  and when a task it called through a non-deferred `task:` entry failed (unless the caller
  is `ignore_error: true`, which may suppress an exit status coming from the callee).
-/
namespace TaskModel.Sched

/-- is the failure `r` of entry `i` of a task with definition `d` suppressed by `ignore_error`?
Only exit statuses are; command-level `ignore_error` exists for shell commands only. -/
def ignoredBy (d : TaskDef) (i : Nat) (r : Res) : Bool :=
  match r with
  | .exit _ => d.ignoreError || (match d.cmds[i]? with | some (.shell _ true _) => true | _ => false)
  | _ => false

def isDeferredAt (d : TaskDef) (i : Nat) : Bool :=
  match d.cmds[i]? with
  | some c => c.deferred
  | none => false

/-- does the end of entry `i` with result `r` stop the command loop of the task? -/
def stopsBody (d : TaskDef) (i : Nat) (r : Res) : Bool :=
  !isDeferredAt d i && !r.isOk && !ignoredBy d i r

/-- state: has a non-ignored failure been seen? -/
def failStopMon (d : TaskDef) : ActMon Bool where
  init := false
  step failed ev :=
    match ev with
    | .cmdEnd i r => some (failed || stopsBody d i r)
    | .cmdStart _ _ false | .callRelease _ false => if failed then none else some false
    | _ => some failed

/-- the same for an activation of any task of program `P`: the task definition is taken from
the activation's own `enter` event (state: definition, failure seen) -/
def failStopMonP (P : Program) : ActMon (TaskDef × Bool) where
  init := ({}, false)
  step s ev :=
    match ev with
    | .enter _ t => some ((P[t]?).getD {}, false)
    | ev => ((failStopMon s.1).step s.2 ev).map (fun b => (s.1, b))

/-- the verdict the driver prints for C03 (fail-stop inside each task) -/
def failStopMonAll (P : Program) (tr : List Label) : Bool :=
  (actIds tr).all fun a => ((failStopMonP P).run (failStopMonP P).init (evsOf a tr)).isSome

/-! ### the status rule on the raw trace (verdict `C03s`) -/

/-- what `Run` returned must not be a bare exit status (`main` would exit 1 instead of 201 /
the command's status) nor a doubly wrapped `TaskRunError` (201 even with `--exit-code`) -/
def statusResOk : Res → Bool
  | .exit _ => false
  | .run (.run _) => false
  | _ => true

/-- a dependency is never called directly: the error its group reports is never a `TaskRunError` -/
def depsDoneBare : Ev → Bool
  | .depsDone (.run _) => false
  | _ => true

/-- the verdict the driver prints as `C03s`: evaluated on the logged events and the error the
real `Run` returned, independently of `replay` (soundness: `Props.C03.C03_statusMon_sound`) -/
def statusMon (tr : List Label) (result : Res) : Bool :=
  statusResOk result && tr.all (fun l => depsDoneBare l.ev)

example : statusMon [] (.run (.exit 7)) = true := by decide
example : statusMon [] (.exit 7) = false := by decide
example : statusMon [] (.run (.run (.exit 7))) = false := by decide
example : statusMon [⟨1, .depsDone (.run (.exit 7))⟩] (.run (.exit 7)) = false := by decide
example : statusMon [⟨1, .depsDone (.exit 7)⟩, ⟨2, .depsDone .ok⟩] (.typed 205) = true := by decide

-- executable on concrete event lists
example : ((failStopMon { cmds := [.shell 1 false false, .shell 0 false false] }).run false
    [.cmdStart 0 none false, .cmdEnd 0 (.exit 1), .cmdStart 1 none false]).isSome = false := by decide
-- command-level ignore_error
example : ((failStopMon { cmds := [.shell 1 true false, .shell 0 false false] }).run false
    [.cmdStart 0 none false, .cmdEnd 0 (.exit 1), .cmdStart 1 none false, .cmdEnd 1 .ok]).isSome = true := by decide
-- … does not cover errors that are not exit statuses
example : ((failStopMon { cmds := [.shell 1 true false, .shell 0 false false] }).run false
    [.cmdStart 0 none false, .cmdEnd 0 .ctx, .cmdStart 1 none false]).isSome = false := by decide
-- task-level ignore_error
example : ((failStopMon { ignoreError := true, cmds := [.shell 1 false false, .shell 0 false false] }).run false
    [.cmdStart 0 none false, .cmdEnd 0 (.exit 1), .cmdStart 1 none false, .cmdEnd 1 .ok]).isSome = true := by decide
-- deferred entries still run after the failure, and their own failures stop nothing
example : ((failStopMon { cmds := [.shell 2 false true, .shell 1 false false] }).run false
    [.cmdStart 1 none false, .cmdEnd 1 (.exit 1), .cmdStart 0 (some 1) true, .cmdEnd 0 (.exit 2)]).isSome = true := by decide

example : ((failStopMonP [{ cmds := [.shell 1 false false, .shell 0 false false] }]).run ({}, false)
    [.enter (.top 0) 0, .cmdStart 0 none false, .cmdEnd 0 (.exit 1), .cmdStart 1 none false]).isSome = false := by decide
example : ((failStopMonP [{ cmds := [.shell 1 true false, .shell 0 false false] }]).run ({}, false)
    [.enter (.top 0) 0, .cmdStart 0 none false, .cmdEnd 0 (.exit 1), .cmdStart 1 none false]).isSome = true := by decide

end TaskModel.Sched
