import TaskModel.Vars.CompileLemmas
/-!
# The environment of a task's commands — the real pipeline (`compiledTask` + `env.GetFromVars`)

A global `env:` entry goes through the template engine TWICE:

1. as a variable layer (`Compiler.TaskfileEnv`, the first loop of `getVariables`): rendered
   over the process environment, the special variables and the global env entries BEFORE it;
   this is what `{{.E}}` gives in every template;
2. in `compiledTask`: `templater.ReplaceVars(e.Taskfile.Env, cache)` renders the entry's RAW
   text once more, over the FINAL variables of the task (all layers); this is what a
   command finds in `$E`.

Task dotenv entries and task `env:` entries only take the second pass.  The three maps are
merged (`Vars.Merge`: later wins, position kept); `sh:` entries are then run in order in
the task's directory with the environment of that moment (process environment + the
entries that are static by then), going through the dynamic-variable cache; the command
gets `os.Environ()` plus the entries the process environment does not already set (all of
them under the env-precedence experiment).
-/
namespace TaskModel.Vars

/-- `templater.ReplaceVar` over the final variables: literal text and `sh:` text are rendered, a `ref:` is looked up -/
def tplOver (final : Env) : VarDef → VarDef
  | .lit ps => .lit [.text (render final ps)]
  | .sh ps ov => .sh [.text (render final ps)] ov
  | .refv n => .lit [.text (get final n)]

def replaceVarsOver (final : Env) (defs : Defs) : Defs := defs.map (fun p => (p.1, tplOver final p.2))

/-- `new.Env` after the three merges, before the `sh:` entries are run -/
def mergedEnvDefs (final : Env) (genv dotenv tenv : Defs) : Defs :=
  mergeDefs (mergeDefs (mergeDefs [] (replaceVarsOver final genv)) (replaceVarsOver final dotenv)) (replaceVarsOver final tenv)

/-- the entries that have a static value at this moment -/
def staticOf (defs : Defs) : Env :=
  defs.filterMap (fun p => match p.2 with | .lit ps => some (p.1, render [] ps) | _ => none)

/-- run the `sh:` entries in order (`for k, v := range new.Env.All()`) -/
def runEnvSh (w : World) (dir : Str) : List Name → Defs → Cache → Defs × Cache
  | [], cur, c => (cur, c)
  | k :: ks, cur, c =>
    match cur.lookup k with
    | some (.sh ps ov) =>
      let r := dynamic w.shell c (render [] ps) (ov.getD dir) (commandEnv w.osEnv (staticOf cur) w.prec)
      runEnvSh w dir ks (setDef cur k (.lit [.text r.1])) r.2
    | _ => runEnvSh w dir ks cur c

/-- the compiled task's `Env` (every entry static) and the cache afterwards -/
def compiledEnv (w : World) (final : Env) (genv dotenv tenv : Defs) (dir : Str) (c : Cache) : Env × Cache :=
  let m := mergedEnvDefs final genv dotenv tenv
  let r := runEnvSh w dir (names m) m c
  (staticOf r.1, r.2)

/-- what a command finds under `k` (`os.Environ() ++ appended`, last wins) -/
def commandSees (w : World) (tenv : Env) (k : Name) : Option Str := (commandEnv w.osEnv tenv w.prec).lookup k

/-! ### lemmas for blocks without `sh:` entries -/

def isStatic : VarDef → Bool
  | .sh _ _ => false
  | _ => true

def isLit : VarDef → Bool
  | .lit _ => true
  | _ => false

def allLit (l : Defs) : Bool := l.all (fun p => isLit p.2)

/-- the value `tplOver` gives a static definition -/
def valOver (final : Env) : VarDef → Str
  | .lit ps => render final ps
  | .refv n => get final n
  | .sh _ _ => []

theorem render_nil_text (v : Str) : render [] [.text v] = v := by simp [render]

theorem allLit_setDef (l : Defs) (n : Name) (d : VarDef) (hl : allLit l = true) (hd : isLit d = true) :
    allLit (setDef l n d) = true := by
  induction l with
  | nil => simp [setDef, allLit, hd]
  | cons p r ih =>
    obtain ⟨m, e⟩ := p
    simp only [allLit, List.all_cons, Bool.and_eq_true] at hl
    simp only [setDef]
    split
    · simp only [allLit, List.all_cons, Bool.and_eq_true]; exact ⟨hd, hl.2⟩
    · simp only [allLit, List.all_cons, Bool.and_eq_true]; exact ⟨hl.1, ih hl.2⟩

theorem allLit_mergeDefs (b : Defs) : ∀ (a : Defs), allLit a = true → allLit b = true → allLit (mergeDefs a b) = true := by
  induction b with
  | nil => intro a ha _; exact ha
  | cons p b ih =>
    intro a ha hb
    simp only [allLit, List.all_cons, Bool.and_eq_true] at hb
    exact ih _ (allLit_setDef a p.1 p.2 ha hb.1) hb.2

theorem allLit_replaceVarsOver (final : Env) (d : Defs) (h : d.all (fun p => isStatic p.2) = true) :
    allLit (replaceVarsOver final d) = true := by
  induction d with
  | nil => rfl
  | cons p r ih =>
    simp only [List.all_cons, Bool.and_eq_true] at h
    simp only [replaceVarsOver, List.map_cons, allLit, List.all_cons, Bool.and_eq_true]
    refine ⟨?_, ih h.2⟩
    obtain ⟨k, d⟩ := p
    cases d <;> simp_all [tplOver, isLit, isStatic]

theorem lookup_replaceVarsOver (final : Env) (d : Defs) (k : Name) :
    (replaceVarsOver final d).lookup k = (d.lookup k).map (tplOver final) := by
  induction d with
  | nil => rfl
  | cons p r ih =>
    obtain ⟨m, e⟩ := p
    simp only [replaceVarsOver, List.map_cons, List.lookup]
    split
    · rfl
    · exact ih

theorem names_replaceVarsOver (final : Env) (d : Defs) : names (replaceVarsOver final d) = names d :=
  names_map_same d _ (fun _ => rfl)

theorem lookup_allLit (l : Defs) (hl : allLit l = true) (k : Name) (d : VarDef) (h : l.lookup k = some d) : isLit d = true := by
  induction l with
  | nil => simp at h
  | cons p r ih =>
    obtain ⟨m, e⟩ := p
    simp only [allLit, List.all_cons, Bool.and_eq_true] at hl
    simp only [List.lookup] at h
    split at h
    · cases h; exact hl.1
    · exact ih hl.2 h

/-- without `sh:` entries the second loop of `compiledTask` changes nothing -/
theorem runEnvSh_allLit (w : World) (dir : Str) (ks : List Name) (cur : Defs) (c : Cache) (h : allLit cur = true) :
    runEnvSh w dir ks cur c = (cur, c) := by
  induction ks with
  | nil => rfl
  | cons k ks ih =>
    simp only [runEnvSh]
    split
    · rename_i ps ov hk
      have := lookup_allLit cur h k _ hk
      simp [isLit] at this
    · exact ih

/-- the static value of an entry -/
def litVal : VarDef → Str
  | .lit ps => render [] ps
  | _ => []

theorem lookup_staticOf (l : Defs) (hl : allLit l = true) (k : Name) :
    (staticOf l).lookup k = (l.lookup k).map litVal := by
  induction l with
  | nil => rfl
  | cons p r ih =>
    obtain ⟨m, e⟩ := p
    simp only [allLit, List.all_cons, Bool.and_eq_true] at hl
    cases e with
    | lit ps =>
      simp only [staticOf, List.filterMap_cons, List.lookup]
      split
      · rfl
      · exact ih hl.2
    | sh ps ov => simp [isLit] at hl
    | refv n => simp [isLit] at hl

end TaskModel.Vars
