import TaskModel.Vars.Model
import TaskModel.Load.SortLemmas
/-!
Vars.Dotenv — the entries of a global dotenv file.

`godotenv.Read` returns a Go map, so the entries `es` reach `taskfile.Dotenv` in ANY order.
`Dotenv` adds them to the (ordered) environment in key order (since 6952eb7: `slices.Sorted(maps.Keys(envs))`),
`Compiler.getVariables` then templates the values one after the other, each seeing the process environment,
the special variables (`base`) and the entries BEFORE it (`B={{.A}}x`); a reference to a later entry, or to
itself, renders as the empty string (`dotenvChain`: what `{{.B}}` gives in a command).  The ENVIRONMENT of a
command holds the raw value templated once more over those variables (`dotenvEnv`).  Names are ranks in the byte-wise order of the real names.

`dotenvChainAsRead` is the rule before the repair: the entries are templated in the order the map handed them
out — two enumerations of one file give different values (`Props.C09`).
-/
namespace TaskModel.Vars
open TaskModel.Load (sortBy sortBy_eq_of_perm)

abbrev DEntry := Name × List Part

def leName (a b : DEntry) : Bool := decide (a.1 ≤ b.1)

/-- the order in which `Dotenv` adds the entries: by key -/
def dotenvOrder (es : List DEntry) : List DEntry := sortBy leName es

def noShell : World := ⟨fun _ _ _ => [], [], false⟩

/-- templating a list of entries in the order given -/
def dotenvEval (base : Env) (es : List DEntry) : Env :=
  (evalBlock noShell (fun _ => []) (es.map (fun e => (e.1, VarDef.lit e.2))) base []).1

/-- the values of the entries of one dotenv file handed out in the order `es` -/
def dotenvChain (base : Env) (es : List DEntry) : Env := dotenvEval base (dotenvOrder es)

/-- what a COMMAND finds in its environment for each entry: `compiledTask` templates the raw value of every
global env entry once more, over the variables `getVariables` ended with (`dotenvChain`) — so here a reference
to a later entry, or to the entry itself, does resolve (to the value of the first pass) -/
def dotenvEnv (base : Env) (es : List DEntry) : List (Name × Str) :=
  (dotenvOrder es).map (fun e => (e.1, render (dotenvChain base es) e.2))

/-- the rule before 6952eb7: no sorting -/
def dotenvChainAsRead (base : Env) (es : List DEntry) : Env := dotenvEval base es

theorem leName_total (a b : DEntry) : leName a b = true ∨ leName b a = true := by
  simp only [leName, decide_eq_true_eq]; exact Nat.le_total a.1 b.1

theorem leName_trans (a b c : DEntry) : leName a b = true → leName b c = true → leName a c = true := by
  simp only [leName, decide_eq_true_eq]; exact Nat.le_trans

/-- in a list whose keys are pairwise distinct, two members with the same key are equal -/
theorem eq_of_key_eq {l : List DEntry} (hn : (l.map (·.1)).Nodup) {a b : DEntry}
    (ha : a ∈ l) (hb : b ∈ l) (hk : a.1 = b.1) : a = b := by
  induction l with
  | nil => cases ha
  | cons x r ih =>
    simp only [List.map_cons, List.nodup_cons, List.mem_map, not_exists, not_and] at hn
    simp only [List.mem_cons] at ha hb
    rcases ha with rfl | ha <;> rcases hb with rfl | hb
    · rfl
    · exact absurd hk.symm (hn.1 b hb)
    · exact absurd hk (hn.1 a ha)
    · exact ih hn.2 ha hb

/-- **The order in which the map hands out the entries does not matter** (keys of one file are distinct). -/
theorem dotenvOrder_perm {es es' : List DEntry} (hp : es.Perm es') (hn : (es.map (·.1)).Nodup) :
    dotenvOrder es = dotenvOrder es' := by
  apply sortBy_eq_of_perm leName leName_total leName_trans hp
  intro a b ha hb h1 h2
  simp only [leName, decide_eq_true_eq] at h1 h2
  exact eq_of_key_eq hn ha hb (Nat.le_antisymm h1 h2)

theorem dotenvChain_perm (base : Env) {es es' : List DEntry} (hp : es.Perm es') (hn : (es.map (·.1)).Nodup) :
    dotenvChain base es = dotenvChain base es' := by
  unfold dotenvChain; rw [dotenvOrder_perm hp hn]

theorem dotenvEnv_perm (base : Env) {es es' : List DEntry} (hp : es.Perm es') (hn : (es.map (·.1)).Nodup) :
    dotenvEnv base es = dotenvEnv base es' := by
  unfold dotenvEnv; rw [dotenvOrder_perm hp hn, dotenvChain_perm base hp hn]

end TaskModel.Vars
