import TaskModel.Vars.Cli
/-!
# Compiling one call — from the files as WRITTEN to the variables a command sees

`Vars.Model` has the six loops of `Compiler.getVariables`.  Here: what goes INTO them.

* `special : TaskCtx → Env` — the special variables (`getSpecialVars`): `TASK`, `TASK_DIR`
  (the task's RAW `dir:` joined to the root — never templated), `ROOT_DIR`, `ROOT_TASKFILE`,
  `TASKFILE`, `TASKFILE_DIR`, `USER_WORKING_DIR`, `ALIAS`, `TASK_EXE`, `TASK_VERSION`.  They are
  the lowest layer together with the process environment (specials win over it); every
  definition site can override them.
* the global layer of a run: the root file's `vars:` with the `vars:` of every included file
  merged INTO them in canonical merge order (`Taskfile.Merge`: later wins, an overridden
  name keeps its position, `sh:` entries that arrive through a long-form include carry that
  include's directory), then the command-line layer (`Vars.Cli`) — a "seventh site": a ROOT
  task sees an included file's value of a same-named global.
* the include-statement layer: the `vars:` of every include statement on the path, inner
  first, templated ONCE AT READ TIME over the process environment and the including file's
  own raw variables (`Reader.include`), and once more by `getVariables`.
* the included-Taskfile layer: the (merged) variables of the outermost included file on the
  path, also for tasks of files nested below it.
* the call layer: the call's variables, plus `MATCH` for a wildcard call.
* the POST layer: `compiledTask` sets `CHECKSUM` / `TIMESTAMP` after all layers for a task with
  sources — over whatever any site defined.
-/
namespace TaskModel.Vars

def nTASK_EXE : Name := 100
def nROOT_TASKFILE : Name := 101
def nROOT_DIR : Name := 102
def nUSER_WORKING_DIR : Name := 103
def nTASK_VERSION : Name := 104
def nTASK : Name := 105
def nTASK_DIR : Name := 106
def nTASKFILE : Name := 107
def nTASKFILE_DIR : Name := 108
def nALIAS : Name := 109
def nMATCH : Name := 110
def nCHECKSUM : Name := 111
def nTIMESTAMP : Name := 112

/-- what the special variables of one call are computed from -/
structure TaskCtx where
  rootDir : Str                 -- `Compiler.Dir` (absolute)
  entrypoint : Str              -- `Compiler.Entrypoint`
  userWorkingDir : Str
  taskName : Str                -- `t.Task` (with namespace)
  rawDir : Str                  -- `t.Dir` as merged (an included task: the include's dir), NOT templated
  dirTpl : List Part            -- the same text as a template
  taskfile : Str                -- `t.Location.Taskfile`
  alias : Str                   -- `call.Task`: the name the task was asked for
  exe : Str := []
  version : Str := []

/-- `filepath.Dir` of a clean path -/
def dirName (p : Str) : Str :=
  let r := (p.reverse.dropWhile (· ≠ 47))
  match r with
  | [] => [46]
  | [_] => [47]
  | _ :: rest => rest.reverse

/-- **The special variables** (`getSpecialVars`) -/
def special (tc : TaskCtx) : Env :=
  [(nTASK_EXE, tc.exe), (nROOT_TASKFILE, joinDir tc.rootDir tc.entrypoint), (nROOT_DIR, tc.rootDir),
   (nUSER_WORKING_DIR, tc.userWorkingDir), (nTASK_VERSION, tc.version), (nTASK, tc.taskName),
   (nTASK_DIR, joinDir tc.rootDir tc.rawDir), (nTASKFILE, tc.taskfile), (nTASKFILE_DIR, dirName tc.taskfile),
   (nALIAS, tc.alias)]

/-- the lowest layer: process environment, overridden by the special variables -/
def baseEnv (w : World) (tc : TaskCtx) : Env := special tc ++ w.osEnv

/-! ### the files -/

structure FileDesc where
  incDir : Str            -- resolved `dir:` of the include statement that brings the file in (root: unused)
  incVars : Defs          -- `vars:` of that include statement, as written
  vars : Defs             -- the file's own `vars:`
deriving Repr

/-- `Vars.Merge(other, include)` for a long-form include: every entry gets `Dir = include.Dir` -/
def withDir (d : Str) (defs : Defs) : Defs :=
  defs.map (fun p => (p.1, match p.2 with | .sh ps _ => .sh ps (some d) | x => x))

/-- the variables of the first file after everything below it was merged into it (one include
chain: `f₀` includes `f₁` includes `f₂` …; the graph is merged leaves first) -/
def mergedUp : List FileDesc → Defs
  | [] => []
  | [f] => f.vars
  | f :: g :: rest => mergeDefs f.vars (withDir g.incDir (mergedUp (g :: rest)))

/-- what `{{.n}}` gives when an include statement's `vars:` are templated at READ time: the
including file's own RAW variable text (a literal's template, unevaluated; `sh:` / `ref:`
entries have no static value), else the process environment -/
def readTimeParts (os : Env) (parent : Defs) (n : Name) : List Part :=
  match parent.lookup n with
  | some (.lit ps) => ps
  | some _ => []
  | none => match os.lookup n with
    | some v => [.text v]
    | none => []

def readTimeSubst (os : Env) (parent : Defs) : List Part → List Part
  | [] => []
  | .text s :: r => .text s :: readTimeSubst os parent r
  | .ref n :: r => readTimeParts os parent n ++ readTimeSubst os parent r

/-- `templater.ReplaceVars(include.Vars, cache)` in `Reader.include` -/
def readTime (os : Env) (parent : Defs) (d : Defs) : Defs :=
  d.map (fun p => (p.1, match p.2 with
    | .lit ps => .lit (readTimeSubst os parent ps)
    | .sh ps ov => .sh (readTimeSubst os parent ps) ov
    | .refv n => .lit (readTimeParts os parent n)))

/-- the include statements' variables along the chain, outermost first, as they are after reading -/
def incVarsChain (os : Env) : List FileDesc → List Defs
  | [] => []
  | [_] => []
  | f :: g :: rest => readTime os f.vars g.incVars :: incVarsChain os (g :: rest)

/-- `task.IncludeVars` of a task defined `level` files below the root: inner statement first,
the outer ones merged over it -/
def includeVarsFor (os : Env) (files : List FileDesc) (level : Nat) : Defs :=
  ((incVarsChain os files).take level).reverse.foldl mergeDefs []

/-- `task.IncludedTaskfileVars`: the merged variables of the outermost included file -/
def includedVarsFor (files : List FileDesc) (level : Nat) : Defs :=
  if level = 0 then [] else mergedUp (files.drop 1)

/-- the global-variable layer: root file, every other file merged in, then the command line -/
def globalLayer (files : List FileDesc) (cli : Defs) : Defs := taskfileVars (mergedUp files) cli

def showList : List Str → Str
  | [] => []
  | [a] => a
  | a :: r => a ++ 32 :: showList r

/-- the call layer: `GetTask` binds `MATCH` to the list of wildcard matches (printed by the template engine
as `[a b]`; `[]` for a task found under its own name) — `none`: the task was found through an alias, no `MATCH` -/
def callLayer (callVars : Defs) (wildcards : Option (List Str)) : Defs :=
  match wildcards with
  | none => callVars
  | some ws => setDef callVars nMATCH (.lit [.text (91 :: showList ws ++ [93])])

/-- everything one call is compiled from -/
structure CallDesc where
  tc : TaskCtx
  genv : Defs                      -- root `env:`
  files : List FileDesc            -- root first, then the include chain
  cli : Defs := []                 -- command-line layer (`cliLayer`), empty for a call made through the API
  level : Nat                      -- how many files below the root the task is defined
  callVars : Defs
  wildcards : Option (List Str) := none
  taskVars : Defs
  fp : Option (Name × Str) := none  -- POST layer: `CHECKSUM` / `TIMESTAMP` and its value, for a task with sources

def siteDefs (os : Env) (cd : CallDesc) : Site → Defs
  | .taskfileEnv => cd.genv
  | .taskfileVars => globalLayer cd.files cd.cli
  | .includeVars => includeVarsFor os cd.files cd.level
  | .includedTaskfileVars => includedVarsFor cd.files cd.level
  | .callVars => callLayer cd.callVars cd.wildcards
  | .taskVars => cd.taskVars

def ctxOf (tc : TaskCtx) (home : Str) : Ctx := ⟨tc.rootDir, tc.dirTpl, home⟩

/-- `compiledTask`: after all layers -/
def postLayer (fp : Option (Name × Str)) (e : Env) : Env :=
  match fp with
  | some (n, v) => set e n v
  | none => e

structure Compiled where
  vars : Env
  dir : Str               -- the compiled task's `Dir`: where its commands run
  cache : Cache

/-- **`Executor.CompiledTask`** (variables and directory) -/
def compile (w : World) (home : Str) (cd : CallDesc) (c : Cache) : Compiled :=
  let st := getVariables w (ctxOf cd.tc home) (baseEnv w cd.tc) (layersOf (siteDefs w.osEnv cd)) c
  { vars := postLayer cd.fp st.env
    dir := taskDirOver (ctxOf cd.tc home) st.env
    cache := st.cache }

end TaskModel.Vars
