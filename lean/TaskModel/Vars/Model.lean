/-
Vars.Model — variable resolution (`Compiler.getVariables`, compiler.go), the dynamic
variable cache (`HandleDynamicVar`), environment assembly (`compiledTask` +
`env.GetFromVars`) and loop expansion (`itemsFromFor`, `product`; variables.go).

Strings are abstract (`List Nat`).  A value is a template made of literal text and
references `{{.NAME}}` to variables resolved earlier; `sh:` values run a command through
an oracle `shell cmd dir env` (the shell is an input of the model, so theorems hold for
every shell).  A missing variable renders as the empty string (`<no value>` is removed).
`getVariables` processes *layers* in the order the code does (lowest priority first);
every definition is evaluated over what has been resolved so far and overwrites an
earlier value of the same name.
-/
namespace TaskModel.Vars

abbrev Name := Nat
abbrev Str := List Nat

inductive Part
  | text (s : Str)
  | ref (n : Name)
deriving DecidableEq, Repr

inductive VarDef
  | lit (parts : List Part)          -- scalar, templated
  | sh (parts : List Part) (dirOverride : Option Str)   -- `sh:` command, templated, then run (in `Var.Dir` if set)
  | refv (n : Name)                  -- `ref: .NAME`
deriving DecidableEq, Repr

/-- resolved variables: newest binding first; `lookup` finds the current value -/
abbrev Env := List (Name × Str)

def get (e : Env) (n : Name) : Str := (e.lookup n).getD []
def set (e : Env) (n : Name) (v : Str) : Env := (n, v) :: e

def render (e : Env) : List Part → Str
  | [] => []
  | .text s :: ps => s ++ render e ps
  | .ref n :: ps => get e n ++ render e ps

/-! ### environment of commands -/

/-- `new.Env`: global env, then task dotenv, then task env (later overrides earlier);
`GetFromVars`: entries already set in the process environment are skipped unless the
env-precedence experiment is on; the command sees `os.Environ() ++ appended`, last wins. -/
def taskEnv (globalEnv dotenv taskEnvVars : Env) : Env := taskEnvVars ++ dotenv ++ globalEnv

def dedupKeys : Env → List Name → Env
  | [], _ => []
  | (k, v) :: r, seen => if seen.contains k then dedupKeys r seen else (k, v) :: dedupKeys r (k :: seen)

def commandEnv (osEnv : Env) (merged : Env) (precedence : Bool) : Env :=
  let appended := (dedupKeys merged []).filter (fun kv => precedence || (osEnv.lookup kv.1).isNone)
  appended ++ osEnv          -- newest-first: appended entries win over the process environment

/-- the dynamic-variable cache, keyed by directory and command text -/
abbrev Cache := List ((Str × Str) × Str)

/-- `shell cmd dir env`: what the command prints -/
abbrev Shell := Str → Str → Env → Str

/-- what surrounds the resolution: the shell, the process environment and whether the
env-precedence experiment (`TASK_X_ENV_PRECEDENCE=1`) is on -/
structure World where
  shell : Shell
  osEnv : Env := []
  prec : Bool := false

/-- the environment handed to an `sh:` command (`env.GetFromVars(result)`): the process
environment plus the resolved variables it does not already set — or, under the
env-precedence experiment, plus ALL resolved variables, which then win -/
def shEnv (w : World) (e : Env) : Env := commandEnv w.osEnv e w.prec

/-- `HandleDynamicVar`: empty command ⇒ empty; cached ⇒ cached value; else run and cache -/
def dynamic (shell : Shell) (c : Cache) (cmd dir : Str) (e : Env) : Str × Cache :=
  if cmd = [] then ([], c) else
  match c.lookup (dir, cmd) with
  | some v => (v, c)
  | none => let v := shell cmd dir e; (v, ((dir, cmd), v) :: c)

/-- evaluate one definition over the variables resolved so far (the closure `getRangeFunc`) -/
def evalDef (w : World) (dir : Str) (e : Env) (c : Cache) : VarDef → Str × Cache
  | .lit ps => (render e ps, c)
  | .refv n => (get e n, c)
  | .sh ps ov => dynamic w.shell c (render e ps) (ov.getD dir) (shEnv w e)

/-- a block of definitions evaluated in order; the directory an `sh:` definition runs in may depend on
what has been resolved when it is reached (`dirf`) -/
def evalBlock (w : World) (dirf : Env → Str) : List (Name × VarDef) → Env → Cache → Env × Cache
  | [], e, c => (e, c)
  | (n, d) :: rest, e, c =>
    let (v, c') := evalDef w (dirf e) e c d
    evalBlock w dirf rest (set e n v) c'

/-- the sites at which a variable can be defined, in the order `getVariables` processes them -/
inductive Site
  | taskfileEnv | taskfileVars | includeVars | includedTaskfileVars | callVars | taskVars
deriving DecidableEq, Repr

/-- does the site evaluate `sh:` variables in the task's directory (else: the root directory)? -/
def Site.inTaskDir : Site → Bool
  | .includedTaskfileVars | .taskVars => true
  | _ => false

structure Layer where
  site : Site
  defs : List (Name × VarDef)
deriving Repr

structure Ctx where
  rootDir : Str
  taskDirTpl : List Part          -- the task's `dir:` (a template), joined to the root
  home : Str := []                -- `$HOME`, for a `dir:` that starts with `~`

/-- `filepathext.SmartJoin`: an absolute second path wins -/
def joinDir (root rel : Str) : Str :=
  if rel = [] then root else if rel.head? = some 47 then rel else root ++ [47] ++ rel

/-- `execext.ExpandLiteral` on the forms that occur: `~` and `~/…` -/
def expandTilde (home s : Str) : Str :=
  match s with
  | [126] => home
  | 126 :: 47 :: r => home ++ 47 :: r
  | _ => s

/-- **the task's directory over the variables `e`**: the `dir:` template rendered, `~` expanded, joined to the
root — what `compiledTask` computes over the FINAL variables for the task's commands, and what
`getVariables` computes for an `sh:` variable of the task over the variables resolved WHEN IT IS REACHED
(fix cd73a37; before, the directory was resolved once, after the include-statement layer,
and never expanded: `Props.C11`, `C11_dir_old_rule_counterexample`) -/
def taskDirOver (cx : Ctx) (e : Env) : Str := joinDir cx.rootDir (expandTilde cx.home (render e cx.taskDirTpl))

/-- the directory in which an `sh:` definition of site `s` runs, given what is resolved so far -/
def siteDirf (cx : Ctx) (s : Site) (e : Env) : Str := if s.inTaskDir then taskDirOver cx e else cx.rootDir

/-- resolution state: the variables, the dynamic cache -/
structure St where
  env : Env
  cache : Cache

def stepLayer (w : World) (cx : Ctx) (s : St) (l : Layer) : St :=
  let r := evalBlock w (siteDirf cx l.site) l.defs s.env s.cache
  { env := r.1, cache := r.2 }

def runLayers (w : World) (cx : Ctx) : List Layer → St → St
  | [], s => s
  | l :: ls, s => runLayers w cx ls (stepLayer w cx s l)

/-- `getVariables`: start from the process environment and the special variables -/
def getVariables (w : World) (cx : Ctx) (base : Env) (layers : List Layer) (c : Cache) : St :=
  runLayers w cx layers { env := base, cache := c }

/-- the order in which the documentation says the sites are consulted, lowest priority
first (`Props.C10` proves the generated order of the loops in `getVariables` equals it) -/
def docOrder : List Site :=
  [.taskfileEnv, .taskfileVars, .includeVars, .includedTaskfileVars, .callVars, .taskVars]

/-- definitions per site → layers in documented order -/
def layersOf (defs : Site → List (Name × VarDef)) : List Layer := docOrder.map (fun s => ⟨s, defs s⟩)

/-! ### loops -/

/-- `product`: cartesian product of the matrix rows, first key slowest; a combination is the
association list key ↦ item in row order -/
def productFold : List (Name × List Str) → List (List (Name × Str)) → List (List (Name × Str))
  | [], acc => acc
  | (k, items) :: rows, acc => productFold rows (acc.flatMap (fun comb => items.map (fun it => comb ++ [(k, it)])))

def product (rows : List (Name × List Str)) : List (List (Name × Str)) :=
  if rows = [] then [] else productFold rows [[]]

/-- specification of the row-major product -/
def productSpec : List (Name × List Str) → List (List (Name × Str))
  | [] => [[]]
  | (k, items) :: rows => items.flatMap (fun it => (productSpec rows).map (fun comb => (k, it) :: comb))

/-! ### loop entries (`templater.ReplaceWithExtra`)

A `for:` entry is rendered with the variables of the task plus the loop's own bindings
(`ITEM` or the `as:` name, `KEY` for maps); the loop's bindings come FIRST: a variable of the
same name that is visible in the task (task / global / call variable, environment) does not
hide the element. -/

/-- value of `x` while rendering a loop entry -/
def lookupExtra (extra vars : List (Name × Str)) (x : Name) : Option Str :=
  match extra.lookup x with
  | some v => some v
  | none => vars.lookup x

/-- what each iteration of `for: items` (loop variable `lv`) sees for the names `refs` -/
def loopRender (lv : Name) (vars : List (Name × Str)) (items : List Str) (refs : List Name) : List (List (Option Str)) :=
  items.map (fun it => refs.map (lookupExtra [(lv, it)] vars))

/-- `for: {var: M}` over a MAP variable: Go hands the entries out in an arbitrary order `es` (a permutation of the
map); every iteration binds `KEY` and `ITEM` to the two halves of ONE entry.  The documented variation is the order
only: the iterations are the entries `es`, pair by pair. -/
def mapLoop (es : List (Str × Str)) : List (Str × Str) := es

/-! ### `env:` entries given by `sh:`

Global (`Taskfile.env`) entries are first evaluated by `Compiler.getVariables`, in order, each
`sh:` entry seeing the process environment and the global entries BEFORE it; the result is
cached by command text.  `compiledTask` then walks the merged env (global entries, then the
task's) in order: a global `sh:` entry gets its cached value; a task-level `sh:` entry sees the
process environment plus every entry that is static AT THAT MOMENT — all global entries,
task literals wherever they stand, task `sh:` entries already evaluated.  The process
environment wins for names it has (precedence experiment off). -/

inductive EDef
  | lit (v : Str)          -- `NAME: text`
  | read (x : Name)        -- `NAME: {sh: "printf '%s' \"$x\" # NAME"}`: what `$x` holds (the comment keeps the command text unique)
deriving Repr, DecidableEq

/-- what `$x` holds for an `sh:` env entry -/
def readEnv (os static : List (Name × Str)) (x : Name) : Str :=
  match os.lookup x with
  | some v => v
  | none => (static.lookup x).getD []

/-- sequential pass: every entry (literal or read) becomes visible only after it was walked -/
def envSeq (os : List (Name × Str)) : List (Name × EDef) → List (Name × Str) → List (Name × Str)
  | [], st => st
  | (k, .lit v) :: r, st => envSeq os r (st ++ [(k, v)])
  | (k, .read x) :: r, st => envSeq os r (st ++ [(k, readEnv os st x)])

/-- task-level pass: literals are visible from the start, reads as they are evaluated -/
def envChainGo (os : List (Name × Str)) : List (Name × EDef) → List (Name × Str) → List (Name × Str)
  | [], st => st
  | (_, .lit _) :: r, st => envChainGo os r st
  | (k, .read x) :: r, st => envChainGo os r (st ++ [(k, readEnv os st x)])

def litsOf (es : List (Name × EDef)) : List (Name × Str) :=
  es.filterMap (fun e => match e.2 with | .lit v => some (e.1, v) | .read _ => none)

/-- the values of all entries (names are distinct): `g` global entries, `t` the task's -/
def envChain (os : List (Name × Str)) (g t : List (Name × EDef)) : List (Name × Str) :=
  envChainGo os t (envSeq os g [] ++ litsOf t)

end TaskModel.Vars
