import TaskModel.Vars.Model
/-! Frame and composition lemmas for variable resolution. -/
namespace TaskModel.Vars

def names (defs : List (Name × VarDef)) : List Name := defs.map Prod.fst

@[simp] theorem get_set_self (e : Env) (n : Name) (v : Str) : get (set e n v) n = v := by
  simp [get, set]

theorem get_set_other (e : Env) (n m : Name) (v : Str) (h : m ≠ n) : get (set e n v) m = get e m := by
  simp only [get, set, List.lookup]
  have : (m == n) = false := by simpa using h
  simp [this]

/-- a block does not touch variables it does not define -/
theorem evalBlock_frame (w : World) (dirf : Env → Str) (defs : List (Name × VarDef)) (e : Env) (c : Cache)
    (m : Name) (h : m ∉ names defs) : get (evalBlock w dirf defs e c).1 m = get e m := by
  induction defs generalizing e c with
  | nil => rfl
  | cons d ds ih =>
    obtain ⟨n, d⟩ := d
    simp only [names, List.map_cons, List.mem_cons, not_or] at h
    simp only [evalBlock]
    rw [ih _ _ (by simpa [names] using h.2)]
    exact get_set_other e n m _ h.1

theorem evalBlock_append (w : World) (dirf : Env → Str) (a b : List (Name × VarDef)) (e : Env) (c : Cache) :
    evalBlock w dirf (a ++ b) e c =
      evalBlock w dirf b (evalBlock w dirf a e c).1 (evalBlock w dirf a e c).2 := by
  induction a generalizing e c with
  | nil => rfl
  | cons d ds ih => obtain ⟨n, d⟩ := d; simp only [List.cons_append, evalBlock]; exact ih _ _

/-- the value a block leaves for its last definition of `m`: that definition evaluated over what the
definitions before it resolved, in the directory that holds at that moment -/
theorem evalBlock_last (w : World) (dirf : Env → Str) (pre post : List (Name × VarDef)) (m : Name) (d : VarDef)
    (e : Env) (c : Cache) (h : m ∉ names post) :
    get (evalBlock w dirf (pre ++ (m, d) :: post) e c).1 m =
      (evalDef w (dirf (evalBlock w dirf pre e c).1) (evalBlock w dirf pre e c).1 (evalBlock w dirf pre e c).2 d).1 := by
  rw [evalBlock_append]
  simp only [evalBlock]
  rw [evalBlock_frame _ _ _ _ _ _ h]
  simp

theorem stepLayer_frame (w : World) (cx : Ctx) (s : St) (l : Layer) (m : Name)
    (h : m ∉ names l.defs) : get (stepLayer w cx s l).env m = get s.env m := by
  simp only [stepLayer]
  exact evalBlock_frame _ _ _ _ _ _ h

theorem runLayers_frame (w : World) (cx : Ctx) (ls : List Layer) (s : St) (m : Name)
    (h : ∀ l ∈ ls, m ∉ names l.defs) : get (runLayers w cx ls s).env m = get s.env m := by
  induction ls generalizing s with
  | nil => rfl
  | cons l ls ih =>
    simp only [runLayers]
    rw [ih _ (fun l' hl' => h l' (List.mem_cons_of_mem _ hl'))]
    exact stepLayer_frame _ _ _ _ _ (h l List.mem_cons_self)

theorem runLayers_append (w : World) (cx : Ctx) (a b : List Layer) (s : St) :
    runLayers w cx (a ++ b) s = runLayers w cx b (runLayers w cx a s) := by
  induction a generalizing s with
  | nil => simp [runLayers]
  | cons l ls ih =>
    simp only [List.cons_append, runLayers]
    rw [ih]

theorem siteDirf_root (cx : Ctx) (s : Site) (h : s.inTaskDir = false) : siteDirf cx s = fun _ => cx.rootDir := by
  funext e; simp [siteDirf, h]

end TaskModel.Vars
