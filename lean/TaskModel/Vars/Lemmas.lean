import TaskModel.Vars.Model
/-! Frame and composition lemmas for variable resolution. -/
namespace TaskModel.Vars

def names (defs : List (Name × VarDef)) : List Name := defs.map Prod.fst

@[simp] theorem get_set_self (e : Env) (n : Name) (v : Str) : get (set e n v) n = v := by
  simp [get, set, List.lookup]

theorem get_set_other (e : Env) (n m : Name) (v : Str) (h : m ≠ n) : get (set e n v) m = get e m := by
  simp only [get, set, List.lookup]
  have : (m == n) = false := by simpa using h
  simp [this]

/-- a block does not touch variables it does not define -/
theorem evalBlock_frame (w : World) (dir : Str) (defs : List (Name × VarDef)) (e : Env) (c : Cache)
    (m : Name) (h : m ∉ names defs) : get (evalBlock w dir defs e c).1 m = get e m := by
  induction defs generalizing e c with
  | nil => rfl
  | cons d ds ih =>
    obtain ⟨n, d⟩ := d
    simp only [names, List.map_cons, List.mem_cons, not_or] at h
    simp only [evalBlock]
    rw [ih _ _ (by simpa [names] using h.2)]
    exact get_set_other e n m _ h.1

theorem evalBlock_append (w : World) (dir : Str) (a b : List (Name × VarDef)) (e : Env) (c : Cache) :
    evalBlock w dir (a ++ b) e c =
      evalBlock w dir b (evalBlock w dir a e c).1 (evalBlock w dir a e c).2 := by
  induction a generalizing e c with
  | nil => rfl
  | cons d ds ih => obtain ⟨n, d⟩ := d; simp only [List.cons_append, evalBlock]; exact ih _ _

/-- the value a block leaves for its last definition of `m` -/
theorem evalBlock_last (w : World) (dir : Str) (pre post : List (Name × VarDef)) (m : Name) (d : VarDef)
    (e : Env) (c : Cache) (h : m ∉ names post) :
    get (evalBlock w dir (pre ++ (m, d) :: post) e c).1 m =
      (evalDef w dir (evalBlock w dir pre e c).1 (evalBlock w dir pre e c).2 d).1 := by
  rw [evalBlock_append]
  simp only [evalBlock]
  rw [evalBlock_frame _ _ _ _ _ _ h]
  simp

theorem stepLayer_frame (w : World) (cx : Ctx) (i : Nat) (s : St) (l : Layer) (m : Name)
    (h : m ∉ names l.defs) : get (stepLayer w cx i s l).env m = get s.env m := by
  simp only [stepLayer]
  exact evalBlock_frame _ _ _ _ _ _ h

theorem runLayers_frame (w : World) (cx : Ctx) (ls : List Layer) (i : Nat) (s : St) (m : Name)
    (h : ∀ l ∈ ls, m ∉ names l.defs) : get (runLayers w cx ls i s).env m = get s.env m := by
  induction ls generalizing i s with
  | nil => rfl
  | cons l ls ih =>
    simp only [runLayers]
    rw [ih _ _ (fun l' hl' => h l' (List.mem_cons_of_mem _ hl'))]
    exact stepLayer_frame _ _ _ _ _ _ (h l List.mem_cons_self)

theorem runLayers_append (w : World) (cx : Ctx) (a b : List Layer) (i : Nat) (s : St) :
    runLayers w cx (a ++ b) i s = runLayers w cx b (i + a.length) (runLayers w cx a i s) := by
  induction a generalizing i s with
  | nil => simp [runLayers]
  | cons l ls ih =>
    simp only [List.cons_append, runLayers, List.length_cons]
    rw [ih]
    congr 1
    omega

end TaskModel.Vars
