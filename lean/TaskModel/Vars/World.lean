import TaskModel.Vars.Model
/-!
# A world state under the shell oracle (C11: "… the process environment and the file system")

`Vars.Model` gives the shell oracle the command, the directory and the environment.  A
task's commands also CHANGE the world (they write files), and a later `sh:` variable may
read what they wrote.  Here the oracle gets a world state `σ` (files: path ↦ content), a
command of a task is a function `σ → σ`, and a history interleaves compilations (variable
resolutions, which go through the dynamic-variable cache) with command effects.
-/
namespace TaskModel.Vars

/-- the world the commands act on: files, path ↦ content -/
abbrev Sigma := List (Str × Str)

/-- `shell cmd dir env σ`: what the command prints in world `σ` -/
abbrev ShellS := Str → Str → Env → Sigma → Str

structure WorldS where
  shell : ShellS
  osEnv : Env := []
  prec : Bool := false

/-- the shell of `Vars.Model` at one moment -/
def WorldS.at (ws : WorldS) (σ : Sigma) : World := ⟨fun c d e => ws.shell c d e σ, ws.osEnv, ws.prec⟩

/-- what happens in one invocation, in the order it happens -/
inductive Ev
  | compile (cx : Ctx) (base : Env) (layers : List Layer)   -- a task's variables are resolved
  | effect (f : Sigma → Sigma)                               -- a command of some task ran

/-- the world and the dynamic-variable cache after a history -/
def runHist (ws : WorldS) : List Ev → Sigma × Cache → Sigma × Cache
  | [], s => s
  | .compile cx base ls :: r, s => runHist ws r (s.1, (getVariables (ws.at s.1) cx base ls s.2).cache)
  | .effect f :: r, s => runHist ws r (f s.1, s.2)

/-- what every compilation of a history resolved to -/
def histEnvs (ws : WorldS) : List Ev → Sigma × Cache → List Env
  | [], _ => []
  | .compile cx base ls :: r, s =>
    let st := getVariables (ws.at s.1) cx base ls s.2
    st.env :: histEnvs ws r (s.1, st.cache)
  | .effect f :: r, s => histEnvs ws r (f s.1, s.2)

/-- write a file -/
def writeFile (path content : Str) (σ : Sigma) : Sigma := (path, content) :: σ

/-- the `cat` oracle of the protocol: the command text is a file name, read in the directory the command runs in -/
def catShell : ShellS := fun cmd dir _ σ => (σ.lookup (dir ++ 47 :: cmd)).getD []

end TaskModel.Vars
