import TaskModel.Vars.Lemmas
/-!
# The command-line layer of the global variables (`cmd/task`)

`args.Parse` collects the `NAME=value` arguments into an ordered map (`globals.Set` per
argument: a repeated name keeps its first position and takes the last value); `cmd/task`
adds `CLI_ARGS`, `CLI_FORCE`, `CLI_SILENT`, `CLI_VERBOSE`, `CLI_OFFLINE` to it and merges
the map into the Taskfile's global variables AFTER the declared ones
(`e.Taskfile.Vars.Merge(globals, nil)`): a name that is also declared keeps the position
of its declaration and takes the command-line value, a new name is appended.  The merged
list is the `taskfileVars` layer `getVariables` walks, in order — so a declared global that
refers to an assigned name sees the command-line value only when that name's position in
the merged layer is before it.
-/
namespace TaskModel.Vars

abbrev Defs := List (Name × VarDef)

/-- `orderedmap.Set`: an existing key keeps its position, a new key is appended -/
def setDef : Defs → Name → VarDef → Defs
  | [], n, d => [(n, d)]
  | (m, e) :: r, n, d => if m = n then (n, d) :: r else (m, e) :: setDef r n d

/-- `Vars.Merge`: every entry of `b`, in order, is `Set` into `a` -/
def mergeDefs (a b : Defs) : Defs := b.foldl (fun acc p => setDef acc p.1 p.2) a

/-- the names `cmd/task` adds itself (ids reserved by the protocol) -/
def nCLI_ARGS : Name := 200
def nCLI_FORCE : Name := 201
def nCLI_SILENT : Name := 202
def nCLI_VERBOSE : Name := 203
def nCLI_OFFLINE : Name := 204

structure CliFlags where
  force : Bool := false
  silent : Bool := false
  verbose : Bool := false
  offline : Bool := false
deriving Repr, DecidableEq

def boolStr (b : Bool) : Str := if b then [116, 114, 117, 101] else [102, 97, 108, 115, 101]

/-- what `cmd/task` merges into the Taskfile's globals: the assignments in argument order,
then the `CLI_*` names (values are templates like every global: `assigns` carries parts) -/
def cliLayer (assigns : List (Name × List Part)) (cliArgs : Str) (f : CliFlags) : Defs :=
  mergeDefs [] ((assigns.map (fun a => (a.1, VarDef.lit a.2))) ++
    [(nCLI_ARGS, .lit [.text cliArgs]), (nCLI_FORCE, .lit [.text (boolStr f.force)]),
     (nCLI_SILENT, .lit [.text (boolStr f.silent)]), (nCLI_VERBOSE, .lit [.text (boolStr f.verbose)]),
     (nCLI_OFFLINE, .lit [.text (boolStr f.offline)])])

/-- the global-variable layer of a run started from the command line -/
def taskfileVars (declared cli : Defs) : Defs := mergeDefs declared cli

/-! ### characterisation of `mergeDefs` for maps (distinct names) -/

/-- override the entries of `a` that `b` also defines -/
def overrideBy (b : Defs) (p : Name × VarDef) : Name × VarDef :=
  match b.lookup p.1 with
  | some d => (p.1, d)
  | none => p

theorem names_setDef (l : Defs) (n : Name) (d : VarDef) :
    names (setDef l n d) = if n ∈ names l then names l else names l ++ [n] := by
  induction l with
  | nil => simp [setDef, names]
  | cons p r ih =>
    obtain ⟨m, e⟩ := p
    simp only [setDef]
    by_cases h : m = n
    · subst h; simp [names]
    · simp only [h, if_false]
      have ih' : List.map Prod.fst (setDef r n d) =
          if n ∈ List.map Prod.fst r then List.map Prod.fst r else List.map Prod.fst r ++ [n] := ih
      have hne : ¬ n = m := fun h' => h h'.symm
      simp only [names, List.map_cons, List.mem_cons, hne, false_or, ih']
      split <;> simp

theorem setDef_mem (l : Defs) (n : Name) (d : VarDef) (h : n ∈ names l) (hnd : (names l).Nodup) :
    setDef l n d = l.map (fun p => if p.1 = n then (n, d) else p) := by
  induction l with
  | nil => simp [names] at h
  | cons p r ih =>
    obtain ⟨m, e⟩ := p
    simp only [names, List.map_cons, List.nodup_cons] at hnd
    simp only [setDef, List.map_cons]
    by_cases hm : m = n
    · subst hm
      simp only [if_true]
      congr 1
      -- the rest does not mention m
      have : ∀ q ∈ r, q.1 ≠ m := fun q hq heq => hnd.1 (by rw [← heq]; exact List.mem_map_of_mem hq)
      clear ih h
      induction r with
      | nil => rfl
      | cons q r ih2 =>
        simp only [List.map_cons]
        rw [if_neg (this q List.mem_cons_self)]
        congr 1
        apply ih2
        · simp only [List.map_cons, List.mem_cons, not_or] at hnd; exact ⟨hnd.1.2, (List.nodup_cons.mp hnd.2).2⟩
        · intro q' hq'; exact this q' (List.mem_cons_of_mem _ hq')
    · simp only [hm, if_false]
      congr 1
      apply ih
      · simp only [names, List.map_cons, List.mem_cons] at h
        rcases h with h | h
        · exact absurd h.symm hm
        · exact h
      · exact hnd.2

theorem setDef_not_mem (l : Defs) (n : Name) (d : VarDef) (h : n ∉ names l) : setDef l n d = l ++ [(n, d)] := by
  induction l with
  | nil => rfl
  | cons p r ih =>
    obtain ⟨m, e⟩ := p
    simp only [names, List.map_cons, List.mem_cons, not_or] at h
    have hm : ¬ m = n := fun h' => h.1 h'.symm
    simp only [setDef, hm, if_false, List.cons_append]
    congr 1
    exact ih h.2

theorem lookup_none_of_not_mem (b : Defs) (n : Name) (h : n ∉ names b) : b.lookup n = none := by
  induction b with
  | nil => rfl
  | cons p r ih =>
    obtain ⟨m, e⟩ := p
    simp only [names, List.map_cons, List.mem_cons, not_or] at h
    have : (n == m) = false := by simpa using h.1
    simp only [List.lookup, this]
    exact ih h.2

theorem names_map_same (a : Defs) (f : Name × VarDef → Name × VarDef) (hf : ∀ q, (f q).1 = q.1) :
    names (a.map f) = names a := by
  simp only [names, List.map_map]
  apply List.map_congr_left
  intro q _
  exact hf q

theorem overrideBy_fst (b : Defs) (q : Name × VarDef) : (overrideBy b q).1 = q.1 := by
  simp only [overrideBy]; split <;> rfl

/-- **`Vars.Merge` on maps**: the entries of `a` keep their positions (taking `b`'s
definition where `b` has one), the names only `b` has are appended in `b`'s order -/
theorem mergeDefs_char (b : Defs) : ∀ (a : Defs), (names a).Nodup → (names b).Nodup →
    mergeDefs a b = a.map (overrideBy b) ++ b.filter (fun p => p.1 ∉ names a) := by
  induction b with
  | nil =>
    intro a _ _
    simp only [mergeDefs, List.foldl_nil, List.filter_nil, List.append_nil]
    have : ∀ q : Name × VarDef, overrideBy [] q = q := fun q => rfl
    simp [funext this]
  | cons p b ih =>
    intro a ha hb
    obtain ⟨n, d⟩ := p
    simp only [names, List.map_cons, List.nodup_cons] at hb
    have hnb : n ∉ names b := hb.1
    have step : mergeDefs a ((n, d) :: b) = mergeDefs (setDef a n d) b := rfl
    rw [step]
    by_cases hn : n ∈ names a
    · rw [setDef_mem a n d hn ha]
      have hnames : names (a.map (fun p => if p.1 = n then (n, d) else p)) = names a :=
        names_map_same a _ (fun q => by split <;> simp_all)
      rw [ih _ (by rw [hnames]; exact ha) hb.2, hnames]
      congr 1
      · rw [List.map_map]
        apply List.map_congr_left
        intro q _
        simp only [Function.comp]
        by_cases hq : q.1 = n
        · simp only [hq, if_true, overrideBy, lookup_none_of_not_mem b n hnb, List.lookup, beq_self_eq_true]
        · have : (q.1 == n) = false := by simpa using hq
          simp only [hq, if_false, overrideBy, List.lookup, this]
      · simp only [List.filter_cons]
        simp [hn]
    · rw [setDef_not_mem a n d hn]
      have hnd : (names (a ++ [(n, d)])).Nodup := by
        simp only [names, List.map_append, List.map_cons, List.map_nil]
        rw [List.nodup_append]
        refine ⟨ha, by simp, ?_⟩
        intro x hx y hy
        simp only [List.mem_singleton] at hy
        subst hy
        intro hxy; subst hxy; exact hn hx
      rw [ih _ hnd hb.2]
      simp only [List.map_append, List.map_cons, List.map_nil, List.append_assoc, List.cons_append, List.nil_append]
      have e1 : overrideBy b (n, d) = (n, d) := by
        simp only [overrideBy, lookup_none_of_not_mem b n hnb]
      have e2 : List.map (overrideBy b) a = List.map (overrideBy ((n, d) :: b)) a := by
        apply List.map_congr_left
        intro q hq
        have hqn : ¬ q.1 = n := fun h => hn (by rw [← h]; exact List.mem_map_of_mem hq)
        have : (q.1 == n) = false := by simpa using hqn
        simp only [overrideBy, List.lookup, this]
      have e3 : b.filter (fun p => p.1 ∉ names (a ++ [(n, d)])) = b.filter (fun p => p.1 ∉ names a) := by
        apply List.filter_congr
        intro q hq
        have hqn : ¬ q.1 = n := fun h => hnb (by rw [← h]; exact List.mem_map_of_mem hq)
        have : q.1 ∈ List.map Prod.fst (a ++ [(n, d)]) ↔ q.1 ∈ List.map Prod.fst a := by
          simp [List.map_append, hqn]
        exact decide_eq_decide.mpr (not_congr this)
      rw [e1, e2, e3]
      simp only [List.filter_cons]
      simp [hn]

theorem lookup_map_overrideBy (a b : Defs) (x : Name) (d : VarDef) (hx : x ∈ names a) (hb : b.lookup x = some d) :
    (a.map (overrideBy b)).lookup x = some d := by
  induction a with
  | nil => simp [names] at hx
  | cons p r ih =>
    obtain ⟨m, e⟩ := p
    simp only [List.map_cons, List.lookup]
    by_cases hm : x = m
    · subst hm
      simp [overrideBy, hb]
    · have h1 : (x == (overrideBy b (m, e)).1) = false := by rw [overrideBy_fst]; simpa using hm
      have h1' : (x == (overrideBy b (m, e)).fst) = false := h1
      have : overrideBy b (m, e) = ((overrideBy b (m, e)).1, (overrideBy b (m, e)).2) := rfl
      rw [this]
      rw [h1']
      apply ih
      simp only [names, List.map_cons, List.mem_cons] at hx
      rcases hx with hx | hx
      · exact absurd hx hm
      · exact hx

/-- in a block with distinct names, a name defined by a literal ends up with that literal -/
theorem evalBlock_lookup_lit (w : World) (dir : Env → Str) (pre : Defs) (x : Name) (v : Str) :
    ∀ (e : Env) (c : Cache), (names pre).Nodup → pre.lookup x = some (.lit [.text v]) →
      get (evalBlock w dir pre e c).1 x = v := by
  induction pre with
  | nil => intro _ _ _ h; simp at h
  | cons p r ih =>
    intro e c hnd h
    obtain ⟨n, d⟩ := p
    simp only [names, List.map_cons, List.nodup_cons] at hnd
    simp only [List.lookup] at h
    simp only [evalBlock]
    by_cases hn : x = n
    · subst hn
      simp only [beq_self_eq_true] at h
      cases h
      rw [evalBlock_frame _ _ _ _ _ _ hnd.1]
      simp [evalDef, render]
    · have : (x == n) = false := by simpa using hn
      simp only [this] at h
      exact ih _ _ hnd.2 h

end TaskModel.Vars
