import TaskModel.Vars.Compile
/-!
Lemmas about the layered resolution site by site and about the merged global layer.
-/
namespace TaskModel.Vars

def sitesBefore : Site → List Site
  | .taskfileEnv => []
  | .taskfileVars => [.taskfileEnv]
  | .includeVars => [.taskfileEnv, .taskfileVars]
  | .includedTaskfileVars => [.taskfileEnv, .taskfileVars, .includeVars]
  | .callVars => [.taskfileEnv, .taskfileVars, .includeVars, .includedTaskfileVars]
  | .taskVars => [.taskfileEnv, .taskfileVars, .includeVars, .includedTaskfileVars, .callVars]

def sitesAfter : Site → List Site
  | .taskfileEnv => [.taskfileVars, .includeVars, .includedTaskfileVars, .callVars, .taskVars]
  | .taskfileVars => [.includeVars, .includedTaskfileVars, .callVars, .taskVars]
  | .includeVars => [.includedTaskfileVars, .callVars, .taskVars]
  | .includedTaskfileVars => [.callVars, .taskVars]
  | .callVars => [.taskVars]
  | .taskVars => []

theorem docOrder_split (s : Site) : docOrder = sitesBefore s ++ s :: sitesAfter s := by cases s <;> rfl

def lay (defs : Site → Defs) (s : Site) : Layer := ⟨s, defs s⟩

theorem layersOf_split (defs : Site → Defs) (s : Site) :
    layersOf defs = (sitesBefore s).map (lay defs) ++ lay defs s :: (sitesAfter s).map (lay defs) := by
  unfold layersOf
  rw [docOrder_split s]
  simp only [List.map_append, List.map_cons]
  rfl

/-- the state `getVariables` is in when it reaches site `s` (started on an empty cache: the task alone) -/
def stateBefore (w : World) (cx : Ctx) (base : Env) (defs : Site → Defs) (s : Site) : St :=
  runLayers w cx ((sitesBefore s).map (lay defs)) { env := base, cache := [] }

/-! ### lookups in merged maps -/

theorem lookup_eq_none_of_not_mem {β} (l : List (Name × β)) (x : Name) (h : x ∉ l.map Prod.fst) : l.lookup x = none := by
  induction l with
  | nil => rfl
  | cons p r ih =>
    obtain ⟨m, e⟩ := p
    simp only [List.map_cons, List.mem_cons, not_or] at h
    have : (x == m) = false := by simpa using h.1
    simp only [List.lookup, this]
    exact ih h.2

theorem lookup_filter_names {β} (l : List (Name × β)) (p : Name → Bool) (k : Name) :
    (l.filter (fun kv => p kv.1)).lookup k = if p k then l.lookup k else none := by
  induction l with
  | nil => simp
  | cons kv r ih =>
    obtain ⟨k', v⟩ := kv
    simp only [List.filter_cons]
    by_cases hp : p k' = true
    · simp only [hp, if_true, List.lookup]
      by_cases hk : k = k'
      · subst hk; simp [hp]
      · have : (k == k') = false := by simpa using hk
        simp [this, ih]
    · simp only [hp, Bool.false_eq_true, if_false, ih, List.lookup]
      by_cases hk : k = k'
      · subst hk; simp [hp]
      · have : (k == k') = false := by simpa using hk
        simp [this]

theorem lookup_map_overrideBy_none (a b : Defs) (x : Name) (hb : b.lookup x = none) :
    (a.map (overrideBy b)).lookup x = a.lookup x := by
  induction a with
  | nil => rfl
  | cons p r ih =>
    obtain ⟨m, e⟩ := p
    by_cases hm : x = m
    · subst hm
      simp [overrideBy, hb, List.lookup]
    · have h1 : (x == m) = false := by simpa using hm
      have h2 : (x == (overrideBy b (m, e)).fst) = false := by rw [overrideBy_fst]; exact h1
      have : overrideBy b (m, e) = ((overrideBy b (m, e)).1, (overrideBy b (m, e)).2) := rfl
      simp only [List.map_cons]
      rw [this, List.lookup, h2, List.lookup, h1]
      exact ih

/-- **`Vars.Merge` on maps, by name**: the merged-in map wins -/
theorem lookup_mergeDefs (a b : Defs) (ha : (names a).Nodup) (hb : (names b).Nodup) (x : Name) :
    (mergeDefs a b).lookup x = match b.lookup x with
      | some d => some d
      | none => a.lookup x := by
  rw [mergeDefs_char b a ha hb, List.lookup_append]
  by_cases hx : x ∈ names a
  · cases hbx : b.lookup x with
    | some d => simp [lookup_map_overrideBy a b x d hx hbx]
    | none =>
      rw [lookup_map_overrideBy_none a b x hbx]
      have : ∃ d, a.lookup x = some d := by
        clear hbx ha
        induction a with
        | nil => simp [names] at hx
        | cons p r ih =>
          obtain ⟨m, e⟩ := p
          by_cases hm : x = m
          · subst hm; exact ⟨e, by simp [List.lookup]⟩
          · have h1 : (x == m) = false := by simpa using hm
            simp only [names, List.map_cons, List.mem_cons, hm, false_or] at hx
            obtain ⟨d, hd⟩ := ih hx
            exact ⟨d, by simp [List.lookup, h1, hd]⟩
      obtain ⟨d, hd⟩ := this
      simp [hd]
  · have h1 : (a.map (overrideBy b)).lookup x = none :=
      lookup_eq_none_of_not_mem _ x (by
        have := names_map_same a (overrideBy b) (overrideBy_fst b)
        simp only [names] at this
        rw [this]; exact hx)
    have h2 : a.lookup x = none := lookup_eq_none_of_not_mem a x hx
    rw [h1, h2]
    have h3 := lookup_filter_names b (fun n => decide (n ∉ names a)) x
    simp only [hx, not_false_eq_true, decide_true, if_true] at h3
    simp only [Option.none_or]
    rw [h3]
    cases b.lookup x <;> rfl

theorem nodup_names_mergeDefs (a b : Defs) (ha : (names a).Nodup) (hb : (names b).Nodup) :
    (names (mergeDefs a b)).Nodup := by
  rw [mergeDefs_char b a ha hb]
  simp only [names, List.map_append]
  rw [List.nodup_append]
  refine ⟨?_, ?_, ?_⟩
  · have := names_map_same a (overrideBy b) (overrideBy_fst b)
    simp only [names] at this
    rw [this]; exact ha
  · exact List.Nodup.sublist (List.Sublist.map _ List.filter_sublist) hb
  · intro x hx y hy hxy
    subst hxy
    have h1 := names_map_same a (overrideBy b) (overrideBy_fst b)
    simp only [names] at h1
    rw [h1] at hx
    obtain ⟨q, hqm, hqx⟩ := List.mem_map.mp hy
    have hq := of_decide_eq_true (List.mem_filter.mp hqm).2
    exact hq (by rw [hqx]; exact hx)

/-- a map that binds `x` splits at that binding -/
theorem lookup_split (l : Defs) (x : Name) (d : VarDef) (hnd : (names l).Nodup) (h : l.lookup x = some d) :
    ∃ pre post, l = pre ++ (x, d) :: post ∧ x ∉ names post := by
  induction l with
  | nil => simp at h
  | cons p r ih =>
    obtain ⟨m, e⟩ := p
    simp only [names, List.map_cons, List.nodup_cons] at hnd
    by_cases hm : x = m
    · subst hm
      simp only [List.lookup, beq_self_eq_true] at h
      cases h
      exact ⟨[], r, rfl, hnd.1⟩
    · have h1 : (x == m) = false := by simpa using hm
      simp only [List.lookup, h1] at h
      obtain ⟨pre, post, hl, hp⟩ := ih hnd.2 h
      exact ⟨(m, e) :: pre, post, by rw [hl]; rfl, hp⟩

theorem names_withDir (d : Str) (l : Defs) : names (withDir d l) = names l :=
  names_map_same l _ (fun _ => rfl)

theorem lookup_withDir_lit (d : Str) (l : Defs) (x : Name) (ps : List Part) (h : l.lookup x = some (.lit ps)) :
    (withDir d l).lookup x = some (.lit ps) := by
  induction l with
  | nil => simp at h
  | cons p r ih =>
    obtain ⟨m, e⟩ := p
    simp only [withDir, List.map_cons, List.lookup] at h ⊢
    by_cases hm : x = m
    · subst hm
      simp only [beq_self_eq_true] at h ⊢
      cases h; rfl
    · have h1 : (x == m) = false := by simpa using hm
      simp only [h1] at h ⊢
      exact ih h

end TaskModel.Vars
