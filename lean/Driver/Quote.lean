import TaskModel.Quote.Words
import TaskModel.Quote.Init
import TaskModel.Quote.Template
import Driver.Util
namespace Driver.Quote
open TaskModel.Quote Driver

def showWords : Option (List Bytes) → String
  | none => "none"
  | some ws => " ".intercalate ("some" :: ws.map hexBytes)

def dashTok (s : String) : Option (Option Nat) :=
  if s == "-1" then some none else s.toNat?.map some

/-- `quote.quote <s>` → `ok <quoted>` | `nul <offset>` -/
def doQuote : List String → Option String
  | [s] => do
    let s ← unhexBytes s
    match quote s with
    | .ok q => some ("ok " ++ hexBytes q)
    | .error off => some ("nul " ++ toString off)
  | _ => none

/-- `quote.words <line>` → `some <w>*` | `none` -/
def doWords : List String → Option String
  | [s] => do
    let s ← unhexBytes s
    some (showWords (words s))
  | _ => none

/-- `quote.roundtrip <arg>*` → `ok <joined> some <w>*` | `ok <joined> none` | `nul <offset>` -/
def doRoundtrip (args : List String) : Option String := do
  let args ← args.mapM unhexBytes
  match joinQuoted args with
  | .ok j => some ("ok " ++ hexBytes j ++ " " ++ showWords (words j))
  | .error off => some ("nul " ++ toString off)

/-- `quote.splitvar <s>` → `<name> <value>` -/
def doSplitVar : List String → Option String
  | [s] => do
    let s ← unhexBytes s
    let p := splitVar s
    some (hexBytes p.1 ++ " " ++ hexBytes p.2)
  | _ => none

/-- `quote.parse <arg>*` → `calls <n> <name>* globals <name> <value> …` -/
def doParse (args : List String) : Option String := do
  let args ← args.mapM unhexBytes
  let (calls, globals) := parse args
  some (" ".intercalate (["calls", toString calls.length] ++ calls.map hexBytes ++ ["globals"] ++
    globals.flatMap fun kv => [hexBytes kv.1, hexBytes kv.2]))

/-- `quote.get <dash|-1> <arg>*` → `ok <nbefore> <before>* <after>*` | `nul <offset>` -/
def doGet : List String → Option String
  | d :: args => do
    let d ← dashTok d
    let args ← args.mapM unhexBytes
    match argsGet args d with
    | .ok (b, a) => some (" ".intercalate (["ok", toString b.length] ++ b.map hexBytes ++ a.map hexBytes))
    | .error off => some ("nul " ++ toString off)
  | _ => none

/-- `quote.e2e fwd|var <dash|-1> <arg>*`: the argv the command of the called task must
receive.  `fwd`: command `REC {{.CLI_ARGS}}`; `var`: command `REC {{shellQuote .X}} {{q .X}}`
with `X` assigned on the command line.  → `argv <w>*` | `fail` -/
def doE2E : List String → Option String
  | mode :: d :: args => do
    let d ← dashTok d
    let args ← args.mapM unhexBytes
    match argsGet args d with
    | .error _ => some "fail"
    | .ok (before, after) =>
      let (_, globals) := parse before
      if mode == "fwd" then
        match words (joinSp after) with
        | some ws => some (" ".intercalate ("argv" :: ws.map hexBytes))
        | none => some "fail"
      else if mode == "var" then
        match lookupVar [88] globals with
        | none => some "fail"
        | some x =>
          match quote x with
          | .error _ => some "fail"
          | .ok q =>
            match words (q ++ 32 :: q) with
            | some ws => some (" ".intercalate ("argv" :: ws.map hexBytes))
            | none => some "fail"
      else none
  | _ => none

def parseFS : List String → Option FS
  | [] => some []
  | p :: k :: r => do
    let p ← unhexBytes p
    let k ← if k == "f" then some Kind.file else if k == "d" then some Kind.dir else none
    let rest ← parseFS r
    some ((p, k) :: rest)
  | _ => none

/-- `quote.init <want> <wd> <dash|-1> <nargs> <arg>* (<path> f|d)*` → `written <path>` | `exists` | `error`.
`<want>` (`w<hex>` | `x` | `e`) is where the RULE of the property says the file goes, computed by the
generator from the tree it made (harness `initRule`); a model that disagrees with the rule answers
`rule-says … model-says …`, which no implementation prints. -/
def doInit : List String → Option String
  | want :: wd :: d :: n :: r => do
    let wd ← unhexBytes wd
    let d ← dashTok d
    let n ← n.toNat?
    if r.length < n then none else
    let args ← (r.take n).mapM unhexBytes
    let fs ← parseFS (r.drop n)
    let res := match initRun fs wd args d with
      | .written p => "written " ++ hexBytes (clean p)
      | .exists_ _ => "exists"
      | .error => "error"
    let wantS := if want == "x" then "exists" else if want == "e" then "error"
      else if want.startsWith "w" then "written " ++ (want.drop 1).toString else "bad-want"
    if res == wantS then some res else some ("rule-says " ++ wantS ++ " model-says " ++ res)
  | _ => none

/-- `quote.inert <s>` → `inert` | `special` -/
def doInert : List String → Option String
  | [s] => do
    let s ← unhexBytes s
    some (if templateInert s then "inert" else "special")
  | _ => none

def handle (op : String) (args : List String) : Option String :=
  match op with
  | "quote.quote" => doQuote args
  | "quote.words" => doWords args
  | "quote.roundtrip" => doRoundtrip args
  | "quote.splitvar" => doSplitVar args
  | "quote.parse" => doParse args
  | "quote.get" => doGet args
  | "quote.e2e" => doE2E args
  | "quote.init" => doInit args
  | "quote.inert" => doInert args
  | _ => none

end Driver.Quote
