import TaskModel.Remote.Model
import TaskModel.Remote.Chain
import Driver.Util
namespace Driver.Remote
open TaskModel.Remote Driver

/-- one step = 14 tokens:
`dt url https yes download offline insecure expiry patient clear experiment serverKind serverArg answer` -/
def parseStep : List String → Option Step
  | [dt, u, https, yes, dl, off, ins, exp, pat, clr, xp, sk, sa, ans] => do
    let dt ← dt.toNat?; let u ← u.toNat?; let https ← boolTok https
    let yes ← boolTok yes; let dl ← boolTok dl; let off ← boolTok off; let ins ← boolTok ins
    let exp ← exp.toNat?; let pat ← boolTok pat; let clr ← boolTok clr; let xp ← boolTok xp
    let sa ← sa.toNat?
    let server ← match sk with
      | "0" => some (Server.serve sa)
      | "1" => (match sa with
        | 0 => some (Server.fail .refused) | 1 => some (Server.fail .notFound)
        | 2 => some (Server.fail .getError) | _ => none)
      | "2" => some (Server.slow sa)
      | _ => none
    let answer ← match ans with
      | "0" => some Answer.accept | "1" => some Answer.decline | "2" => some Answer.noTerminal
      | _ => none
    some { dt, url := ⟨u, https⟩, server, answer,
           flags := { yes, download := dl, offline := off, insecure := ins, expiry := exp,
                      patient := pat, clearCache := clr, experiment := xp } }
  | _ => none

def parseSteps : Nat → List String → Option (List Step)
  | 0, [] => some []
  | 0, _ => none
  | n+1, r => do
    if r.length < 14 then none else
    let st ← parseStep (r.take 14)
    let rest ← parseSteps n (r.drop 14)
    some (st :: rest)

def showOpt : Option Nat → String
  | some n => toString n
  | none => "-"

def showEntry (e : Entry) : String :=
  showOpt e.content ++ "," ++ showOpt e.sum ++ "," ++ (if e.ts.isSome then "1" else "0")

def showResult : RResult → String
  | .run c => "run:" ++ toString c
  | .cleared => "cleared"
  | .error code => "err:" ++ toString code

/-- `remote.run <nUrls> <nSteps> <step>*` (the repaired rule, `invoke`) and `remote.legacy …` (the
rule as written) → per step `<result> <entry>{nUrls}`, steps separated by ` ; `; the checksum
function is the identity on version numbers -/
def doRun (legacy : Bool) : List String → Option String
  | k :: n :: r => do
    let k ← k.toNat?; let n ← n.toNat?
    let steps ← parseSteps n r
    let obs := observe legacy id k RState.init steps
    some (" ; ".intercalate (obs.map fun (res, es) => " ".intercalate (showResult res :: es.map showEntry)))
  | _ => none

def parseServer (sk : String) (sa : Nat) : Option Server :=
  match sk with
  | "0" => some (Server.serve sa)
  | "1" => (match sa with
    | 0 => some (Server.fail .refused) | 1 => some (Server.fail .notFound)
    | 2 => some (Server.fail .getError) | _ => none)
  | "2" => some (Server.slow sa)
  | _ => none

def parseAnswer : String → Option Answer
  | "0" => some Answer.accept | "1" => some Answer.decline | "2" => some Answer.noTerminal
  | _ => none

/-- one chain step = the 14 tokens of a step (node 1) + `server2Kind server2Arg answer2` (node 2) -/
def parseCSteps : Nat → List String → Option (List CStep)
  | 0, [] => some []
  | 0, _ => none
  | n+1, r => do
    if r.length < 17 then none else
    let base ← parseStep (r.take 14)
    match (r.drop 14).take 3 with
    | [sk, sa, ans] =>
      let sa ← sa.toNat?
      let server ← parseServer sk sa
      let answer ← parseAnswer ans
      let rest ← parseCSteps n (r.drop 17)
      some (⟨base, ⟨server, answer⟩⟩ :: rest)
    | _ => none

/-- the harness's content numbering: `c = v + 10·k`; `k = 0`: includes nothing; `k = 1, 3`: includes
URL 0 (http `/aa`, by a relative / an absolute reference); `k = 2, 4`: includes URL 1 (http `/bb`);
`k = 5, 6`: includes URL 3 (URL 0 with the query `?v=2`) -/
def incOf (c : Content) : Option Url :=
  match c / 10 with
  | 1 => some ⟨0, false⟩ | 3 => some ⟨0, false⟩
  | 2 => some ⟨1, false⟩ | 4 => some ⟨1, false⟩
  | 5 => some ⟨3, false⟩ | 6 => some ⟨3, false⟩
  | _ => none

def showCResult : CResult → String
  | .run c1 none => "run:" ++ toString c1
  | .run c1 (some c2) => "run:" ++ toString c1 ++ "+" ++ toString c2
  | .cleared => "cleared"
  | .error code => "err:" ++ toString code

/-- `remote.chain <nUrls> <nSteps> <cstep>*` → per step `<result> <entry>{nUrls}` (`Chain.invokeChain`,
`sha` = identity, `inc` = `incOf`) -/
def doChain : List String → Option String
  | k :: n :: r => do
    let k ← k.toNat?; let n ← n.toNat?
    let steps ← parseCSteps n r
    let obs := observeChain false id incOf k RState.init steps
    some (" ; ".intercalate (obs.map fun (res, es) => " ".intercalate (showCResult res :: es.map showEntry)))
  | _ => none

def handle (op : String) (args : List String) : Option String :=
  match op with
  | "remote.run" => doRun false args
  | "remote.legacy" => doRun true args
  | "remote.chain" => doChain args
  | _ => none

end Driver.Remote
