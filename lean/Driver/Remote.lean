import TaskModel.Remote.Model
import TaskModel.Remote.Chain
import TaskModel.Remote.Tree
import Driver.Util
namespace Driver.Remote
open TaskModel.Remote Driver

/-- a URL inside a server token: `<id>.<https>` -/
def parseUrlTok (t : String) : Option Url :=
  match t.splitOn "." with
  | [i, h] => do let i ← i.toNat?; let h ← boolTok h; some ⟨i, h⟩
  | _ => none

/-- the innermost server of a server token: `s<c>` serves content `c`, `w<c>` serves it slowly,
`f<k>` fails (0 refused, 1 not found, 2 GET error) -/
def parseBaseServer (t : String) : Option Server :=
  match t.toList with
  | 's' :: r => (String.ofList r).toNat?.map Server.serve
  | 'w' :: r => (String.ofList r).toNat?.map Server.slow
  | 'f' :: r =>
    match (String.ofList r).toNat? with
    | some 0 => some (Server.fail .refused)
    | some 1 => some (Server.fail .notFound)
    | some 2 => some (Server.fail .getError)
    | _ => none
  | _ => none

/-- wrappers in front of it, outermost first: `r<id>.<https>` = redirect to that URL, `d<id>.<https>` =
directory-style URL whose default name is that URL -/
def wrapServer (w : String) (inner : Option Server) : Option Server := do
  let sv ← inner
  match w.toList with
  | 'r' :: r => (parseUrlTok (String.ofList r)).map fun u => Server.redirect u sv
  | 'd' :: r => (parseUrlTok (String.ofList r)).map fun u => Server.dir u sv
  | _ => none

/-- a server token: wrappers and the innermost server, separated by `:` (`r13.0:s5`) -/
def parseServerTok (t : String) : Option Server :=
  match (t.splitOn ":").reverse with
  | [] => none
  | b :: ws => ws.foldl (fun acc w => wrapServer w acc) (parseBaseServer b)

def parseAnswer : String → Option Answer
  | "0" => some Answer.accept | "1" => some Answer.decline | "2" => some Answer.noTerminal
  | _ => none

/-- one step = 13 tokens:
`dt url https yes download offline insecure expiry patient clear experiment server answer` -/
def parseStep : List String → Option Step
  | [dt, u, https, yes, dl, off, ins, exp, pat, clr, xp, sv, ans] => do
    let dt ← dt.toNat?; let u ← u.toNat?; let https ← boolTok https
    let yes ← boolTok yes; let dl ← boolTok dl; let off ← boolTok off; let ins ← boolTok ins
    let exp ← exp.toNat?; let pat ← boolTok pat; let clr ← boolTok clr; let xp ← boolTok xp
    let server ← parseServerTok sv
    let answer ← parseAnswer ans
    some { dt, url := ⟨u, https⟩, server, answer,
           flags := { yes, download := dl, offline := off, insecure := ins, expiry := exp,
                      patient := pat, clearCache := clr, experiment := xp } }
  | _ => none

/-- what happens to the cache before a step, the first 3 of the 4 tokens `kind url arg lim`: `0` nothing; `1` the `.yaml` of the
URL is replaced by content `arg` (`0` = truncated to nothing); `2` it is removed; `3` an invocation
`--yes --download --insecure` that downloads content `arg` of the URL is killed after `WriteChecksum`;
`4` … after `WriteTimestamp`; `5` … after `WriteResolvedLocation`.  `lim` = `1`: the step itself runs under a
file-size limit that lets every cache write through but the last (`LEv.limited`; op `remote.run` only). -/
def parsePre : List String → Option (List Pre)
  | [k, u, a] => do
    let u ← u.toNat?; let a ← a.toNat?
    let fl : RFlags := { yes := true, download := true, offline := false, insecure := true, expiry := 0,
                         patient := true, clearCache := false, experiment := true }
    let crashSt : Step := ⟨0, ⟨u, true⟩, fl, Server.serve a, Answer.noTerminal⟩
    match k with
    | "0" => some []
    | "1" => some [.damage u (some a)]
    | "2" => some [.damage u none]
    | "3" => some [.crash crashSt 1]
    | "4" => some [.crash crashSt 2]
    | "5" => some [.crash crashSt 3]
    | _ => none
  | _ => none

def parseEvs : Nat → List String → Option (List LEv)
  | 0, [] => some []
  | 0, _ => none
  | n+1, r => do
    if r.length < 17 then none else
    let st ← parseStep (r.take 13)
    let pre ← parsePre ((r.drop 13).take 3)
    let lim ← (r.drop 16).head? >>= boolTok
    let rest ← parseEvs n (r.drop 17)
    some (pre.map (fun p => LEv.ev (.pre p)) ++ (if lim then LEv.limited st else LEv.ev (.step st)) :: rest)

def showOpt : Option Nat → String
  | some n => toString n
  | none => "-"

/-- `<content>,<checksum>,<timestamp present>` and, when the copy was found somewhere else than at the
URL itself (a default name under a directory-style URL), `@<id of that URL>` -/
def showEntry (i : Nat) (e : Entry) : String :=
  showOpt e.content ++ "," ++ showOpt e.sum ++ "," ++ (if e.ts.isSome then "1" else "0") ++
    (match e.loc with
     | some r => if r.id = i then "" else "@" ++ toString r.id
     | none => "")

def showEntries (es : List Entry) : List String :=
  (es.zip (List.range es.length)).map fun (e, i) => showEntry i e

/-- the result as the harness reads it off the real binary: from the exit status and the trace file alone -/
def showOutcome (exit : Nat) (trace : List Content) : String :=
  let ran := "+".intercalate (trace.map toString)
  if exit = 0 then (if trace.isEmpty then "cleared" else "run:" ++ ran)
  else if trace.isEmpty then "err:" ++ toString exit
  else "err:" ++ toString exit ++ "+ran:" ++ ran

def showResult (r : RResult) : String := showOutcome r.exit r.trace

/-- `remote.run <nUrls> <nSteps> <step+pre>*` (the repaired rule, `invoke`) and `remote.legacy …` (the
F16 rule as written) → per step `<result> <entry>{nUrls}`, steps separated by ` ; `; the checksum
function is the identity on version numbers -/
def doRun (legacy : Bool) : List String → Option String
  | k :: n :: r => do
    let k ← k.toNat?; let n ← n.toNat?
    let evs ← parseEvs n r
    let obs := observeL legacy id k RState.init evs
    some (" ; ".intercalate (obs.map fun (res, es) => " ".intercalate (showResult res :: showEntries es)))
  | _ => none

/-- one chain step = the 13 tokens of a step (node 1) + `server2 answer2` (node 2) + the 4 tokens of `pre` (`lim` = 0) -/
def parseCEvs : Nat → List String → Option (List CEv)
  | 0, [] => some []
  | 0, _ => none
  | n+1, r => do
    if r.length < 19 then none else
    let base ← parseStep (r.take 13)
    match (r.drop 13).take 2 with
    | [sv, ans] =>
      let server ← parseServerTok sv
      let answer ← parseAnswer ans
      let pre ← parsePre ((r.drop 15).take 3)
      let rest ← parseCEvs n (r.drop 19)
      some (pre.map CEv.pre ++ CEv.step ⟨base, ⟨server, answer⟩⟩ :: rest)
    | _ => none

/-- the harness's content numbering: `c = v + 10·k`; `k = 0`: includes nothing; `k = 1, 3`: includes
URL 0 (http `/aa`, by a relative / an absolute reference); `k = 2, 4`: includes URL 1 (http `/bb`);
`k = 5, 6`: includes URL 3 (URL 0 with the query `?v=2`) — the relative references of these (`../aa/…`)
resolve to the same URL from every place the harness serves them at; `k = 7`: includes `./inc.yml`,
which from a default name under the directory-style URL 7 (`/dd/Taskfile.yml` = URL 10, `/dd/taskfile.yml`
= 11, `/dd/Taskfile.yaml` = 12) is URL 8 (`/dd/inc.yml`), but from URL 7 itself (`/dd`) is URL 9
(`/inc.yml`); `k = 8`: includes URL 8 by an absolute reference -/
def incOf (c : Content) (b : Url) : Option Url :=
  match c / 10 with
  | 1 => some ⟨0, false⟩ | 3 => some ⟨0, false⟩
  | 2 => some ⟨1, false⟩ | 4 => some ⟨1, false⟩
  | 5 => some ⟨3, false⟩ | 6 => some ⟨3, false⟩
  | 7 => if b.id = 10 ∨ b.id = 11 ∨ b.id = 12 then some ⟨8, false⟩
         else if b.id = 7 then some ⟨9, false⟩ else none
  | 8 => some ⟨8, false⟩
  | _ => none

def showCResult (r : CResult) : String := showOutcome r.exit r.trace

/-- `remote.chain <nUrls> <nSteps> <cstep+pre>*` → per step `<result> <entry>{nUrls}` (`Chain.invokeChain`,
`sha` = identity, `inc` = `incOf`) -/
def doChain : List String → Option String
  | k :: n :: r => do
    let k ← k.toNat?; let n ← n.toNat?
    let evs ← parseCEvs n r
    let obs := observeChain false id incOf k RState.init evs
    some (" ; ".intercalate (obs.map fun (res, es) => " ".intercalate (showCResult res :: showEntries es)))
  | _ => none

/-- the tree stream's includes: `k = 9`: URL 1 and URL 3 (siblings); everything else as `incOf` -/
def incTree (c : Content) (b : Url) : List Url :=
  if c / 10 = 9 then [⟨1, false⟩, ⟨3, false⟩] else (incOf c b).toList

/-- one tree step = the 13 tokens of a step (node A, its URL's server and answer) + `serverB answerB serverC answerC`
(URLs 1 and 3) + `pick` (the exit status the binary ended with) + the 4 tokens of `pre` (`lim` = 0) -/
def parseTEvs : Nat → List String → Option (List TEv)
  | 0, [] => some []
  | 0, _ => none
  | n+1, r => do
    if r.length < 22 then none else
    let base ← parseStep (r.take 13)
    match (r.drop 13).take 5 with
    | [svB, ansB, svC, ansC, pick] =>
      let serverB ← parseServerTok svB
      let answerB ← parseAnswer ansB
      let serverC ← parseServerTok svC
      let answerC ← parseAnswer ansC
      let pick ← pick.toNat?
      let pre ← parsePre ((r.drop 18).take 3)
      let rest ← parseTEvs n (r.drop 22)
      let st : TStep := ⟨base.dt, base.url, base.flags,
        [(base.url.id, ⟨base.server, base.answer⟩), (1, ⟨serverB, answerB⟩), (3, ⟨serverC, answerC⟩)], pick⟩
      some (pre.map TEv.pre ++ TEv.step st :: rest)
    | _ => none

def showTResult (r : TResult) : String :=
  let ran := "+".intercalate (r.trace.map fun (u, c) => toString c ++ "u" ++ toString u)
  if r.exit = 0 then (if r.trace.isEmpty then "cleared" else "run:" ++ ran)
  else if r.trace.isEmpty then "err:" ++ toString r.exit
  else "err:" ++ toString r.exit ++ "+ran:" ++ ran

/-- `remote.tree <nUrls> <nSteps> <tstep+pre>*` → per step `<result> <entry>{nUrls}` (`Tree.invokeTree`,
`sha` = identity, `inc` = `incTree`) -/
def doTree : List String → Option String
  | k :: n :: r => do
    let k ← k.toNat?; let n ← n.toNat?
    let evs ← parseTEvs n r
    let obs := observeTree false id incTree k RState.init evs
    some (" ; ".intercalate (obs.map fun (res, es) => " ".intercalate (showTResult res :: showEntries es)))
  | _ => none

def handle (op : String) (args : List String) : Option String :=
  match op with
  | "remote.run" => doRun false args
  | "remote.legacy" => doRun true args
  | "remote.chain" => doChain args
  | "remote.tree" => doTree args
  | _ => none

end Driver.Remote
