import TaskModel.Load.RootRef
import TaskModel.Load.DefaultsLemmas
import TaskModel.Gen.Codes
import Driver.Util
import TaskModel.Resolve.OfLoad
/-!
Driver glue for the `load` domain.

    load.tree <probe stride, 0 = none> <root> <nfiles> file*
      file    := <id> <version> <dotenv 0/1> <silent 0/1> <method> <run> <set mask> <shopt mask> <output>
                 <dir> <vars> <vars(env)> <ninc> include* <ntask> task*
      dir     := <n> <seg>*
      vars    := <n> (<key> <val>)*
      names   := <n> <hexname>*
      include := <hexns> <fileid> <dir> <optional> <internal> <flatten> <advanced> <names(aliases)> <names(excludes)> <vars>
      task    := <hexname> <ncmd> (<hextask|-> <sh>)* <names(deps)> <names(aliases)> <internal> <dir> <nattr> <attr>* <vars>

answers `err <class> <code>` or

    ok <n> taskdump* V <varsdump> E <varsdump>
      taskdump := T <hexname> C <ncmd> (<hextask|-> <sh>)* D <names> A <names> <internal> <dirdump> N <hexns> L <loc>
                  AT <nattr> <attr>* EF <silent> <method> <run> <set> <shopt> TV <varsdump> IV <varsdump> XV <varsdump>
    the whole followed by  FD <silent> <method> <run> <set> <shopt> O <output>  (the root's defaults after setupDefaults)
    followed, when a probe was asked for, by  PR <m> (<idx> <dirdump> <nseen> (<key> <val|->)*)*
      dirdump  := a|r <n> <seg>*
      varsdump := <n> (<key> <val> <dirdump>)*
-/
namespace Driver.Load
open TaskModel.Load Driver

abbrev P := StateT (List String) Option

def tok : P String := fun s => match s with
  | [] => none
  | t :: r => some (t, r)

def nat : P Nat := do let t ← tok; (t.toNat? : Option Nat)
def bool : P Bool := do let t ← tok; (boolTok t : Option Bool)
def name : P Name := do
  let t ← tok
  let bs ← (unhexBytes t : Option (List UInt8))
  pure (bs.map (·.toNat))

def rep (p : P α) : Nat → P (List α)
  | 0 => pure []
  | n + 1 => do let x ← p; let xs ← rep p n; pure (x :: xs)

def many (p : P α) : P (List α) := do let n ← nat; rep p n

def dirSegs : P (List Nat) := many nat
def vars : P Vars := many (do let k ← nat; let v ← nat; pure (k, ({ val := v, dir := Dir.unset } : Var)))
def names : P (List Name) := many name

def includeDecl : P IncludeDecl := do
  let ns ← name; let file ← nat; let dir ← dirSegs
  let optional ← bool; let internal ← bool; let flatten ← bool; let advanced ← bool
  let aliases ← names; let excludes ← names; let vs ← vars
  pure { ns, file, dir, optional, internal, flatten, advanced, aliases, excludes, vars := vs }

def cmd : P Cmd := do let t ← name; let sh ← nat; pure ⟨t, sh⟩

def task (loc : Nat) : P Task := do
  let nm ← name; let cmds ← many cmd; let deps ← names; let aliases ← names
  let internal ← bool; let d ← dirSegs; let attrs ← many nat; let vs ← vars
  pure { name := nm, cmds, deps, aliases, internal, dir := ⟨false, d⟩, attrs, vars := vs,
         ns := [], loc, incVars := [], incTfVars := [] }

def file : P (Nat × Taskfile) := do
  let id ← nat; let version ← nat; let dotenv ← bool
  let silent ← nat; let method ← nat; let run ← nat; let set ← nat; let shopt ← nat; let output ← nat
  let fdir ← dirSegs
  let vs ← vars; let env ← vars; let incs ← many includeDecl; let tasks ← many (task id)
  pure (id, { version, dotenv, fdir, vars := vs, env, tasks, includes := incs,
              defaults := { silent, method, run, set, shopt }, output })

/-! output -/

def hexName (n : Name) : String := hexBytes (n.map UInt8.ofNat)
def showNats (xs : List Nat) : List String := toString xs.length :: xs.map toString
def showNames (xs : List Name) : List String := toString xs.length :: xs.map hexName
def showDir (d : Dir) : List String := (if d.abs then "a" else "r") :: showNats d.segs
def showVars (vs : Vars) : List String :=
  toString vs.length :: vs.flatMap (fun kv => toString kv.1 :: toString kv.2.val :: showDir kv.2.dir)

/-- what a compiled task sees: the last layer defining the name wins
(`getVariables`: Taskfile env, Taskfile vars, include vars, included-Taskfile vars, task vars) -/
def seen (tf : Taskfile) (t : Task) (k : Nat) : Option Nat :=
  let layers := [tf.env, tf.vars, t.incVars, t.incTfVars, t.vars]
  layers.foldl (fun acc l => match Vars.get k l with | some v => some v.val | none => acc) none

def showTask (root : Defaults) (t : Task) : List String :=
  ["T", hexName t.name, "C", toString t.cmds.length] ++ t.cmds.flatMap (fun c => [hexName c.task, toString c.sh])
  ++ ["D"] ++ showNames t.deps ++ ["A"] ++ showNames t.aliases ++ [showBool t.internal] ++ showDir t.dir
  ++ ["N", hexName t.ns, "L", toString t.loc, "AT"] ++ showNats t.attrs
  ++ ["EF"] ++ (effective root t.attrs).map toString
  ++ ["TV"] ++ showVars t.vars ++ ["IV"] ++ showVars t.incVars ++ ["XV"] ++ showVars t.incTfVars

/-- the probe of the `idx`-th merged task: compiled working directory and variables seen -/
def showProbe (tf : Taskfile) (keys : List Nat) (idx : Nat) (t : Task) : List String :=
  [toString idx] ++ showDir ⟨true, if t.dir.abs then t.dir.segs else tf.fdir ++ t.dir.segs⟩ ++ [toString keys.length]
    ++ keys.flatMap (fun k => [toString k, match seen tf t k with | some v => toString v | none => "-"])

def probes (stride : Nat) (tf : Taskfile) (keys : List Nat) : Nat → List Task → List (List String)
  | _, [] => []
  | i, t :: r => (if i % stride = 0 then [showProbe tf keys i t] else []) ++ probes stride tf keys (i + 1) r

def errCode (e : Err) : Nat :=
  let look (n : String) : Nat := ((TaskModel.Gen.Codes.errorCodes.find? (·.1 == n)).map (·.2)).getD 1
  match e with
  | .conflict => look "TaskNameFlattenConflictError"
  | .cycle => look "TaskfileCycleError"
  | .versionCheck => look "TaskfileVersionCheckError"
  | .decode => look "TaskfileDecodeError"
  | .missing | .version | .dotenv => 1
  | .internal => 0

def errName : Err → String
  | .conflict => "conflict" | .cycle => "cycle" | .missing => "missing" | .version => "version"
  | .dotenv => "dotenv" | .versionCheck => "versioncheck" | .decode => "decode" | .internal => "internal"

def allKeys (fm : FileMap) : List Nat :=
  let ks := fm.flatMap (fun f => f.2.vars.keys ++ f.2.env.keys ++ f.2.tasks.flatMap (·.vars.keys)
    ++ f.2.includes.flatMap (·.vars.keys))
  sortNat ks.eraseDups

def doTree (args : List String) : Option String := do
  let ((probe, root, fm), rest) ← (do
    let probe ← nat; let root ← nat; let fm ← many file; pure (probe, root, fm) : P _) args
  if !rest.isEmpty then none
  match load fm root with
  | .error e => some s!"err {errName e} {errCode e}"
  | .ok tf =>
    let keys := allKeys fm
    let ps := if probe = 0 then [] else probes probe tf keys 0 tf.tasks
    let fd := finalDefaults tf.defaults
    some (" ".intercalate (["ok", toString tf.tasks.length] ++ tf.tasks.flatMap (showTask tf.defaults)
      ++ ["V"] ++ showVars tf.vars ++ ["E"] ++ showVars tf.env
      ++ ["FD", toString fd.silent, toString fd.method, toString fd.run, toString fd.set, toString fd.shopt, "O", toString tf.output]
      ++ (if probe = 0 then [] else ["PR", toString ps.length] ++ ps.flatMap id)))

/-- `load.refs <root> <nfiles> file*` → `ok <n> (T <key> L <loc> R <names>)*` : the targets
property C08 demands for every reference of every merged task -/
def doRefs (args : List String) : Option String := do
  let ((root, fm), rest) ← (do let root ← nat; let fm ← many file; pure (root, fm) : P _) args
  if !rest.isEmpty then none
  match specRefs fm root with
  | .error e => some s!"err {errName e} {errCode e}"
  | .ok ts =>
    some (" ".intercalate (["ok", toString ts.length] ++ ts.flatMap (fun t =>
      ["T", hexName t.1, "L", toString t.2.1, "R"] ++ showNames t.2.2)))

def insStr (s : String) : List String → List String
  | [] => [s]
  | x :: xs => if s ≤ x then s :: x :: xs else x :: insStr s xs

def sortStrs (l : List String) : List String := l.foldr insStr []

/-- `load.resolve <root> <nfiles> file* <k> <req>*` → `ok | <answer>{k}` with answer
`found <name> <nw> <w>*` | `conflict <n> <name>*` (sorted) | `notfound`: the model's merged
table (`load`) handed to the resolution model (`Resolve.resolve`) — property C15 over the
tables that includes, namespace aliases and default-task aliases produce. -/
def doResolve (args : List String) : Option String := do
  let ((root, fm, reqs), rest) ← (do
    let root ← nat; let fm ← many file; let reqs ← many name; pure (root, fm, reqs) : P _) args
  if !rest.isEmpty then none
  match load fm root with
  | .error e => some s!"err {errName e} {errCode e}"
  | .ok tf =>
    let toStr := TaskModel.Resolve.toStr
    let tbl : List TaskModel.Resolve.Entry := TaskModel.Resolve.ofLoad tf
    let nameAt (i : Nat) : String := match tf.tasks[i]? with | some t => hexName t.name | none => "?"
    let answer (rq : Name) : String :=
      match TaskModel.Resolve.resolve tbl (toStr rq) with
      | .found i ws =>
        -- what a command `{{range .MATCH}}<{{.}}>{{end}}` (shell command 9000) of that task renders to
        let rendered : String := match tf.tasks[i]? with
          | some t => if t.cmds.any (fun c => c.task.isEmpty && c.sh == 9000) then hexChars (ws.flatMap (fun w => '<' :: w ++ ['>'])) else "-"
          | none => "?"
        " ".intercalate (["found", nameAt i, toString ws.length] ++ ws.map hexChars ++ ["R", rendered])
      | .conflict is => " ".intercalate (["conflict", toString is.length] ++ sortStrs (is.map nameAt))
      | .notFound => "notfound"
    some (" | ".intercalate ("ok" :: reqs.map answer))

def handle (op : String) (args : List String) : Option String :=
  match op with
  | "load.tree" => doTree args
  | "load.refs" => doRefs args
  | "load.resolve" => doResolve args
  | _ => none

end Driver.Load
