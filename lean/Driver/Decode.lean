import TaskModel.Decode.Outcome
/-! `decode.outcome ok | err <code> | panic <hex> | timeout` → `accept` iff the outcome class is one the property allows. -/
namespace Driver.Decode
open TaskModel.Decode

def handle (op : String) (args : List String) : Option String :=
  match op, args with
  | "decode.outcome", ["ok"] => some (if acceptable .ok then "accept" else "reject")
  | "decode.outcome", ["err", c] => (c.toNat?).map (fun n => if acceptable (.error n) then "accept" else "reject")
  | "decode.outcome", "panic" :: _ => some (if acceptable .panic then "accept" else "reject panic")
  | "decode.outcome", ["timeout"] => some (if acceptable .timeout then "accept" else "reject timeout")
  | _, _ => none

end Driver.Decode
