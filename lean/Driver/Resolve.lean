import TaskModel.Resolve.Table
import Driver.Util
namespace Driver.Resolve
open TaskModel.Resolve Driver

/-- `resolve.match <pat> <name>` → `none` | `some <w>*` -/
def doMatch : List String → Option String
  | [p, n] => do
    let p ← unhexChars p; let n ← unhexChars n
    match wildcardMatch p n with
    | none => some "none"
    | some ws => some (" ".intercalate ("some" :: ws.map hexChars))
  | _ => none

/-- parse `<k> (<name> <na> <alias>*){k}` -/
def parseTable : Nat → List String → Option (List Entry × List String)
  | 0, r => some ([], r)
  | k+1, name :: na :: r => do
    let name ← unhexChars name
    let na ← na.toNat?
    if r.length < na then none else
    let al ← (r.take na).mapM unhexChars
    let (es, r') ← parseTable k (r.drop na)
    some ({ name, aliases := al } :: es, r')
  | _, _ => none

/-- `resolve.get <k> <entries…> <req>` → `found <i> <w>*` | `conflict <i>*` | `notfound` -/
def doGet : List String → Option String
  | k :: r => do
    let k ← k.toNat?
    let (tbl, r') ← parseTable k r
    match r' with
    | [req] =>
      let req ← unhexChars req
      match resolve tbl req with
      | .found i ws => some (" ".intercalate ("found" :: toString i :: ws.map hexChars))
      | .conflict is => some (" ".intercalate ("conflict" :: is.map toString))
      | .notFound => some "notfound"
    | _ => none
  | _ => none

/-- `resolve.run <k> <entries…> <n> <req>{n}` → `refused <code> ran -` | `ok ran <i>*`: the
outcome of `Executor.Run` on the requests — which tasks ran, in order, or the error class of
the first request that does not resolve (then nothing ran). -/
def doRun : List String → Option String
  | k :: r => do
    let k ← k.toNat?
    let (tbl, r') ← parseTable k r
    match r' with
    | n :: reqs =>
      let n ← n.toNat?
      if reqs.length ≠ n then none else
      let reqs ← reqs.mapM unhexChars
      match runCheck tbl reqs with
      | .refused c => some s!"refused {c} ran -"
      | .ran is => some (" ".intercalate ("ok" :: "ran" :: is.map toString))
    | _ => none
  | _ => none

def handle (op : String) (args : List String) : Option String :=
  match op with
  | "resolve.match" => doMatch args
  | "resolve.get" => doGet args
  | "resolve.run" => doRun args
  | _ => none

end Driver.Resolve
