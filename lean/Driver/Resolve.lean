import TaskModel.Resolve.Table
import TaskModel.Resolve.Suggest
import Driver.Util
namespace Driver.Resolve
open TaskModel.Resolve Driver

/-- `resolve.match <pat> <name>` → `none` | `some <w>*` -/
def doMatch : List String → Option String
  | [p, n] => do
    let p ← unhexChars p; let n ← unhexChars n
    match wildcardMatch p n with
    | none => some "none"
    | some ws => some (" ".intercalate ("some" :: ws.map hexChars))
  | _ => none

/-- parse `<k> (<name> <na> <alias>*){k}` -/
def parseTable : Nat → List String → Option (List Entry × List String)
  | 0, r => some ([], r)
  | k+1, name :: na :: r => do
    let name ← unhexChars name
    let na ← na.toNat?
    if r.length < na then none else
    let al ← (r.take na).mapM unhexChars
    let (es, r') ← parseTable k (r.drop na)
    some ({ name, aliases := al } :: es, r')
  | _, _ => none

/-- `resolve.get <k> <entries…> <req>` → `found <i> <w>*` | `conflict <i>*` | `notfound` -/
def doGet : List String → Option String
  | k :: r => do
    let k ← k.toNat?
    let (tbl, r') ← parseTable k r
    match r' with
    | [req] =>
      let req ← unhexChars req
      match resolve tbl req with
      | .found i ws => some (" ".intercalate ("found" :: toString i :: ws.map hexChars))
      | .conflict is => some (" ".intercalate ("conflict" :: is.map toString))
      | .notFound => some "notfound"
    | _ => none
  | _ => none

/-- `resolve.run <k> <entries…> <n> <req>{n}` → `refused <code> ran -` | `ok ran <i>*`: the
outcome of `Executor.Run` on the requests — which tasks ran, in order, or the error class of
the first request that does not resolve (then nothing ran). -/
def doRun : List String → Option String
  | k :: r => do
    let k ← k.toNat?
    let (tbl, r') ← parseTable k r
    match r' with
    | n :: reqs =>
      let n ← n.toNat?
      if reqs.length ≠ n then none else
      let reqs ← reqs.mapM unhexChars
      match runCheck tbl reqs with
      | .refused c => some s!"refused {c} ran -"
      | .ran is => some (" ".intercalate ("ok" :: "ran" :: is.map toString))
    | _ => none
  | _ => none

def bytesOf (t : String) : Option (List Nat) := (unhexBytes t).map (·.map (·.toNat))

/-- `resolve.suggest <n> <word>{n} <req> <didYouMean|->` → `<class> ok|BAD`: what the oracle
`Suggest.classify` demands of the suggestion for `req` given the trained words, and whether
the suggestion the implementation gave meets it. -/
def doSuggest : List String → Option String
  | n :: r => do
    let n ← n.toNat?
    if r.length ≠ n + 2 then none else
    let words ← (r.take n).mapM bytesOf
    let req ← bytesOf (r.getD n "")
    let dym ← bytesOf (r.getD (n + 1) "")
    let e := TaskModel.Resolve.Suggest.classify words req
    let cls := match e with
      | .skip => "skip" | .must _ => "must" | .oneOf _ => "oneof" | .none => "none" | .any => "any"
    let ok := TaskModel.Resolve.Suggest.meets e (if dym.isEmpty then Option.none else some dym)
    some (cls ++ (if ok then " ok" else " BAD"))
  | _ => none

def handle (op : String) (args : List String) : Option String :=
  match op with
  | "resolve.match" => doMatch args
  | "resolve.get" => doGet args
  | "resolve.run" => doRun args
  | "resolve.suggest" => doSuggest args
  | _ => none

end Driver.Resolve
