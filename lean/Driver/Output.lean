import TaskModel.Output.Accept
import Driver.Util
/-!
`output.prefixed <prefix> <n> <chunk>*`                        → `<k> <sink write>*`  (one write per line: "[prefix] line")
`output.group <begin> <end> <errorOnly> <failed> <n> <chunk>*` → `<k> <sink write>*`
`output.multi p <prefix> <k> {<n> <chunk>*}^k S <m> <sink write>*`
`output.multi g <begin> <end> <eo> <failed> <k> {<n> <chunk>*}^k S <m> <sink write>*`
   → `accept` | `reject`: ONE writer fed by k producers — the sink writes must be what the writer emits for SOME
   interleaving of the producers' chunk sequences (`acceptsPW`, `acceptsGW`).
writer := `p <prefix> <n> <chunk>*` | `g <begin> <end> <eo> <failed> <n> <chunk>*` | `r <n> <chunk>*`
`output.concurrent <w> writer^w S <m> <sink write>*`           → `accept` | `reject`: interleaving of the writers' writes
`output.exec <t> {t <j> writer^j}^t S <m> <sink write>*`       → `accept` | `reject`: interleaving of the threads' writes
   (a thread = one task activation: its writers are used one after the other)
-/
namespace Driver.Output
open TaskModel.Output Driver

abbrev P := StateT (List String) Option
def tok : P String := do match (← get) with | [] => failure | t :: ts => set ts; pure t
def nat : P Nat := do let t ← tok; match t.toNat? with | some n => pure n | none => failure
def bool : P Bool := do let t ← tok; match boolTok t with | some b => pure b | none => failure
def bytes : P Bytes := do let t ← tok; match unhexBytes t with | some b => pure b | none => failure
def many {α} : Nat → P α → P (List α)
  | 0, _ => pure []
  | n+1, p => do let x ← p; let xs ← many n p; pure (x :: xs)

def showList (bs : List Bytes) : String := " ".intercalate (toString bs.length :: bs.map hexBytes)

def chunks : P (List Bytes) := do let n ← nat; many n bytes

def doPrefixed : P String := do
  let pre ← bytes; let cs ← chunks
  pure (showList (Writer.p pre cs).blocks)

def doGroup : P String := do
  let b ← bytes; let e ← bytes; let eo ← bool; let failed ← bool; let cs ← chunks
  pure (showList (Writer.g b e eo failed cs).blocks)

def writer : P Writer := do
  let k ← tok
  if k == "p" then do
    let pre ← bytes; let cs ← chunks
    pure (.p pre cs)
  else if k == "g" then do
    let b ← bytes; let e ← bytes; let eo ← bool; let failed ← bool; let cs ← chunks
    pure (.g b e eo failed cs)
  else if k == "r" then do
    let cs ← chunks
    pure (.r cs)
  else failure

def sinkWrites : P (List Bytes) := do
  let s ← tok
  if s != "S" then failure
  let m ← nat
  let sink ← many m bytes
  pure (sink.filter (· ≠ []))

def verdict (b : Bool) : String := if b then "accept" else "reject"

def doMulti : P String := do
  let k ← tok
  if k == "p" then do
    let pre ← bytes; let n ← nat; let prods ← many n chunks
    let sink ← sinkWrites
    let prods := prods.map (fun s => s.filter (· ≠ []))
    pure (verdict (acceptsPW pre (chunkCount prods + 1) { prefix_ := pre } prods sink))
  else if k == "g" then do
    let b ← bytes; let e ← bytes; let eo ← bool; let failed ← bool; let n ← nat; let prods ← many n chunks
    let sink ← sinkWrites
    let prods := prods.map (fun s => s.filter (· ≠ []))
    pure (verdict (acceptsGW { begin_ := b, end_ := e, errorOnly := eo } prods failed sink))
  else failure

def doConcurrent : P String := do
  let w ← nat
  let ws ← many w writer
  let sink ← sinkWrites
  pure (verdict (accepts ws sink))

def thread : P (List Writer) := do
  let t ← tok
  if t != "t" then failure
  let j ← nat
  many j writer

def doExec : P String := do
  let n ← nat
  let ts ← many n thread
  let sink ← sinkWrites
  pure (verdict (acceptsThreads ts sink))

def handle (op : String) (args : List String) : Option String :=
  let run (p : P String) := match p.run args with | some (r, []) => some r | _ => none
  match op with
  | "output.prefixed" => run doPrefixed
  | "output.group" => run doGroup
  | "output.multi" => run doMulti
  | "output.concurrent" => run doConcurrent
  | "output.exec" => run doExec
  | _ => none

end Driver.Output
