import TaskModel.Output.Model
import Driver.Util
/-!
`output.prefixed <prefix> <n> <chunk>*`                      → `<k> <sink block>*`  (block = "[prefix] line")
`output.group <begin> <end> <errorOnly> <failed> <n> <chunk>*` → `<k> <sink write>*`
`output.concurrent <w> { p <prefix> <n> <chunk>* | g <begin> <end> <eo> <failed> <n> <chunk>* }* S <m> <sink write>*`
   → `accept` | `reject <position>`: the sink writes must be an interleaving of the writers' atomic
   blocks (a prefixed line = the four writes "[", prefix, "] ", line; a group block = one write).
-/
namespace Driver.Output
open TaskModel.Output Driver

abbrev P := StateT (List String) Option
def tok : P String := do match (← get) with | [] => failure | t :: ts => set ts; pure t
def nat : P Nat := do let t ← tok; match t.toNat? with | some n => pure n | none => failure
def bool : P Bool := do let t ← tok; match boolTok t with | some b => pure b | none => failure
def bytes : P Bytes := do let t ← tok; match unhexBytes t with | some b => pure b | none => failure
def many {α} : Nat → P α → P (List α)
  | 0, _ => pure []
  | n+1, p => do let x ← p; let xs ← many n p; pure (x :: xs)

def showList (bs : List Bytes) : String := " ".intercalate (toString bs.length :: bs.map hexBytes)

def doPrefixed : P String := do
  let pre ← bytes; let n ← nat; let chunks ← many n bytes
  let lines := ({ prefix_ := pre } : PW).run chunks
  pure (showList (lines.map (lineBlock pre)))

def doGroup : P String := do
  let b ← bytes; let e ← bytes; let eo ← bool; let failed ← bool; let n ← nat; let chunks ← many n bytes
  pure (showList (({ begin_ := b, end_ := e, errorOnly := eo } : GW).run chunks failed))

/-- the atomic blocks (each a list of sink writes) one writer emits -/
def writerBlocks : P (List (List Bytes)) := do
  let k ← tok
  if k == "p" then do
    let pre ← bytes; let n ← nat; let chunks ← many n bytes
    pure ((({ prefix_ := pre } : PW).run chunks).map (fun l => ([[91], pre, [93, 32], l] : List Bytes).filter (· ≠ [])))
  else if k == "g" then do
    let b ← bytes; let e ← bytes; let eo ← bool; let failed ← bool; let n ← nat; let chunks ← many n bytes
    pure ((({ begin_ := b, end_ := e, errorOnly := eo } : GW).run chunks failed).map (fun w => [w]))
  else failure

def isPrefixOf (a b : List Bytes) : Bool :=
  match a, b with
  | [], _ => true
  | _ :: _, [] => false
  | x :: xs, y :: ys => x == y && isPrefixOf xs ys

/-- pick the first writer whose next block is a prefix of the remaining sink writes -/
def pick : List (List (List Bytes)) → List Bytes → Option (List (List (List Bytes)) × Nat)
  | [], _ => none
  | [] :: rest, sink => (pick rest sink).map (fun (ws, k) => ([] :: ws, k))
  | (b :: bs) :: rest, sink =>
    if isPrefixOf b sink then some (bs :: rest, b.length)
    else (pick rest sink).map (fun (ws, k) => ((b :: bs) :: ws, k))

def accepts : Nat → List (List (List Bytes)) → List Bytes → Nat → Option Nat
  | 0, _, _, pos => some pos
  | fuel+1, ws, sink, pos =>
    if sink.isEmpty then (if ws.all List.isEmpty then none else some pos)
    else match pick ws sink with
      | none => some pos
      | some (ws', k) => accepts fuel ws' (sink.drop k) (pos + k)

def doConcurrent : P String := do
  let w ← nat
  let ws ← many w writerBlocks
  let s ← tok
  if s != "S" then failure
  let m ← nat
  let sink ← many m bytes
  match accepts (m + 1) ws (sink.filter (· ≠ [])) 0 with
  | none => pure "accept"
  | some pos => pure s!"reject {pos}"

def handle (op : String) (args : List String) : Option String :=
  let run (p : P String) := match p.run args with | some (r, []) => some r | _ => none
  match op with
  | "output.prefixed" => run doPrefixed
  | "output.group" => run doGroup
  | "output.concurrent" => run doConcurrent
  | _ => none

end Driver.Output
