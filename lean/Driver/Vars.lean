import TaskModel.Vars.Model
import TaskModel.Vars.Dotenv
import TaskModel.Vars.Cli
import TaskModel.Vars.Compile
import TaskModel.Vars.EnvPipe
import TaskModel.Vars.World
import Driver.Util
/-!
Line protocol of the `vars` / `varscli` domains (see each `do…` for the exact token layout):
`vars.compile`  one call compiled from the files AS WRITTEN (`Vars.compile`: special variables, merged globals, include-statement vars, MATCH, POST layer)
`vars.cli`      a run started from the command line: `taskfileVars declared (cliLayer …)`
`vars.envpipe`  the environment pipeline (`Vars.EnvPipe`): `{{.N}}` / `$N` per name
`vars.fshist`   a sequence of calls whose commands rewrite files later `sh:` variables read (`Vars.World`)
`vars.env`, `vars.envchain`, `vars.dotenvchain`, `vars.loop`, `vars.product`   (older ops)
`vars.run`, `vars.climon`, `vars.postmon`, `vars.fsmon`, `vars.callmon`   echo lines: the expectation is part of the case (run-phase consistency; monitors of open findings)
   definition block = `<n> (name kind <nparts> part*)*`; kind = `l` (literal template) | `s` (sh) | `S` (sh + directory override) | `r` (ref, one part `r<name>`);
   part = `t<hex>` | `r<name>`.
   Shell oracle: a command starting with `$` prints the variable whose decimal id follows
   (read from the environment handed to it); any other command prints `<cmd>@<last component of dir>`.
-/
namespace Driver.Vars
open TaskModel.Vars Driver

abbrev P := StateT (List String) Option
def tok : P String := do match (← get) with | [] => failure | t :: ts => set ts; pure t
def nat : P Nat := do let t ← tok; match t.toNat? with | some n => pure n | none => failure
def bool : P Bool := do let t ← tok; match boolTok t with | some b => pure b | none => failure
def str : P Str := do let t ← tok; match unhexBytes t with | some b => pure (b.map UInt8.toNat) | none => failure
def many {α} : Nat → P α → P (List α)
  | 0, _ => pure []
  | n+1, p => do let x ← p; let xs ← many n p; pure (x :: xs)

def showStr (s : Str) : String := hexBytes (s.map UInt8.ofNat)

def part : P Part := do
  let t ← tok
  if t.startsWith "t" then
    match unhexBytes (t.drop 1).toString with
    | some b => pure (.text (b.map UInt8.toNat))
    | none => failure
  else if t.startsWith "r" then
    match (t.drop 1).toString.toNat? with
    | some n => pure (.ref n)
    | none => failure
  else failure

def parts : P (List Part) := do let n ← nat; many n part

def vdef : P (Name × VarDef) := do
  let n ← nat
  let k ← tok
  let ps ← parts
  if k == "l" then pure (n, .lit ps)
  else if k == "s" then pure (n, .sh ps none)
  else if k == "S" then do let d ← str; pure (n, .sh ps (some d))
  else if k == "r" then
    match ps with
    | [.ref m] => pure (n, .refv m)
    | _ => failure
  else failure

def binding : P (Name × Str) := do let n ← nat; let v ← str; pure (n, v)

def natOfDigits (ds : List Nat) : Nat := ds.foldl (fun acc d => acc * 10 + (d - 48)) 0

/-- last path component -/
def baseName : Str → Str → Str
  | [], acc => acc.reverse
  | 47 :: rest, _ => baseName rest []
  | c :: rest, acc => baseName rest (c :: acc)

/-- the shell oracle of the protocol (`${PWD##*/}`: the shell's working directory has no trailing slash) -/
def oracle : Shell := fun cmd dir e =>
  match cmd with
  | 36 :: rest => get e (natOfDigits rest)
  | _ => cmd ++ [64] ++ baseName (dir.reverse.dropWhile (· = 47)).reverse []

def siteOfIdx : Nat → Site
  | 0 => .taskfileEnv | 1 => .taskfileVars | 2 => .includeVars | 3 => .includedTaskfileVars | 4 => .callVars | _ => .taskVars

def doEnv : P String := do
  let no ← nat; let os ← many no binding
  let ng ← nat; let g ← many ng binding
  let nd ← nat; let d ← many nd binding
  let nt ← nat; let t ← many nt binding
  let prec ← bool
  let nq ← nat; let qs ← many nq nat
  -- lists arrive oldest-first; the model's Env is newest-first
  let ce := commandEnv os.reverse (taskEnv g.reverse d.reverse t.reverse) prec
  pure (" ".intercalate (qs.map (fun q => match ce.lookup q with | some v => showStr v | none => "none")))

def doProduct : P String := do
  let n ← nat
  let rows ← many n (do let k ← nat; let m ← nat; let items ← many m str; pure (k, items))
  let combos := product rows
  pure (" ".intercalate (toString combos.length ::
    combos.map (fun c => ",".intercalate (c.map (fun kv => s!"{kv.1}={showStr kv.2}")))))

/-- `vars.loop <lv> <nvars> {name val}* <nitems> item* <nrefs> ref*` → per item the values
the iteration sees for the referenced names (`none` = undefined) -/
def doLoop : P String := do
  let lv ← nat
  let nv ← nat; let vs ← many nv (do let k ← nat; let v ← str; pure (k, v))
  let ni ← nat; let items ← many ni str
  let nr ← nat; let refs ← many nr nat
  let rows := loopRender lv vs items refs
  pure (" ".intercalate (toString rows.length ::
    rows.map (fun r => ",".intercalate (r.map (fun o => match o with | some v => showStr v | none => "none")))))

/-- `vars.envchain <nos> {name val}* <ng> {entry}* <nt> {entry}*`, entry = `name (l val | r name)`
→ `name=val` for every env entry, global entries first -/
def doEnvChain : P String := do
  let ent : P (Name × EDef) := do
    let k ← nat; let kind ← tok
    if kind == "l" then do let v ← str; pure (k, EDef.lit v)
    else if kind == "r" then do let x ← nat; pure (k, EDef.read x)
    else failure
  let no ← nat; let os ← many no (do let k ← nat; let v ← str; pure (k, v))
  let ng ← nat; let g ← many ng ent
  let nt ← nat; let t ← many nt ent
  let st := envChain os g t
  pure (" ".intercalate ((g ++ t).map (fun e => s!"{e.1}={showStr ((st.lookup e.1).getD [])}")))

/-- `vars.dotenvchain <n> {name <nparts> part*}*` (entries in the order of the FILE; names = ranks of the real
names in byte order) → `name=<variable value>/<environment value>` for every entry, in key order -/
def doDotenvChain : P String := do
  let n ← nat
  let es ← many n (do let k ← nat; let ps ← parts; pure ((k, ps) : DEntry))
  let st := dotenvChain [] es
  pure (" ".intercalate ((dotenvEnv [] es).map (fun e => s!"{e.1}={showStr (get st e.1)}/{showStr e.2}")))

/-- `vars.cli <nbase> (name val)* <genv block> <declared block> <nassign> (name <nparts> part*)* <cliargs> <force> <silent> <verbose> <offline>
<taskvars block> <nq> name*` — a run started from the command line: the global layer is `taskfileVars declared (cliLayer …)` -/
def doCli : P String := do
  let nb ← nat; let base ← many nb binding
  let block : P (List (Name × VarDef)) := do let n ← nat; many n vdef
  let genv ← block
  let declared ← block
  let na ← nat; let assigns ← many na (do let k ← nat; let ps ← parts; pure (k, ps))
  let cliArgs ← str
  let force ← bool; let silent ← bool; let verbose ← bool; let offline ← bool
  let tv ← block
  let nq ← nat; let qs ← many nq nat
  let gl := taskfileVars declared (cliLayer assigns cliArgs { force := force, silent := silent, verbose := verbose, offline := offline })
  let defs : Site → List (Name × VarDef) := fun s =>
    match s with
    | .taskfileEnv => genv | .taskfileVars => gl | .taskVars => tv | _ => []
  let st := getVariables ⟨oracle, base.reverse, false⟩ ⟨[], [], []⟩ base.reverse (layersOf defs) []
  pure (" ".intercalate (qs.map (fun q => showStr (get st.env q))))

/-- `vars.compile <home> <rootDir> <entrypoint> <uwd> <taskName> <rawDir> <dirTpl: nparts part*> <taskfile> <alias>
  <nos> (name val)* <genv block> <nfiles> { <incDir> <incvars block> <vars block> }* <level>
  <callvars block> <nwild|-1> w* <taskvars block> <fp: 0 | 1 name token> <nq> name*`
— one call compiled from the files AS WRITTEN (`Vars.compile`, empty cache).
Answer: the queried values, then `dir=<compiled Dir>`. -/
def doCompile : P String := do
  let home ← str; let root ← str; let entry ← str; let uwd ← str
  let tname ← str; let rawDir ← str; let tpl ← parts; let tfile ← str; let alias ← str
  let nb ← nat; let os ← many nb binding
  let block : P (List (Name × VarDef)) := do let n ← nat; many n vdef
  let genv ← block
  let nf ← nat
  let files ← many nf (do let d ← str; let iv ← block; let v ← block; pure ({ incDir := d, incVars := iv, vars := v } : FileDesc))
  let level ← nat
  let cv ← block
  let wt ← tok
  let wild ← (if wt == "-1" then pure none else match wt.toNat? with
    | some n => do let ws ← many n str; pure (some ws)
    | none => failure : P (Option (List Str)))
  let tv ← block
  let fpn ← nat
  let fp ← (if fpn == 0 then pure none else do let n ← nat; let v ← str; pure (some (n, v)) : P (Option (Name × Str)))
  let nq ← nat; let qs ← many nq nat
  let tc : TaskCtx := { rootDir := root, entrypoint := entry, userWorkingDir := uwd, taskName := tname, rawDir := rawDir,
                        dirTpl := tpl, taskfile := tfile, alias := alias }
  let cd : CallDesc := { tc := tc, genv := genv, files := files, level := level, callVars := cv, wildcards := wild, taskVars := tv, fp := fp }
  let w : World := ⟨oracle, os.reverse, false⟩
  let r := compile w home cd []
  pure (" ".intercalate (qs.map (fun q => showStr (get r.vars q)) ++ ["dir=" ++ showStr r.dir]))

/-- `vars.envpipe <prec> <home> <rootDir> <dirTpl: nparts part*> <nos> (name val)* <genv block> <gvars block> <dotenv block> <tenv block> <tvars block> <nq> name*`
→ per name `<{{.N}}>/<$N | none>`, then `dir=<compiled Dir>`: the environment clause over the real pipeline (`Vars.EnvPipe`) -/
def doEnvPipe : P String := do
  let prec ← bool
  let home ← str; let root ← str; let tpl ← parts
  let nb ← nat; let os ← many nb binding
  let block : P (List (Name × VarDef)) := do let n ← nat; many n vdef
  let genv ← block; let gvars ← block; let dotenv ← block; let tenv ← block; let tvars ← block
  let nq ← nat; let qs ← many nq nat
  let w : World := ⟨oracle, os.reverse, prec⟩
  let defs : Site → List (Name × VarDef) := fun s =>
    match s with
    | .taskfileEnv => genv | .taskfileVars => gvars | .taskVars => tvars | _ => []
  let st := getVariables w ⟨root, tpl, home⟩ os.reverse (layersOf defs) []
  let dir := taskDirOver ⟨root, tpl, home⟩ st.env
  let ce := compiledEnv w st.env genv dotenv tenv dir st.cache
  pure (" ".intercalate (qs.map (fun q => showStr (get st.env q) ++ "/" ++
      (match commandSees w ce.1 q with | some v => showStr v | none => "none")) ++ ["dir=" ++ showStr dir]))

/-- `vars.fshist <rootDir> <global 0|1> <nfiles> (path content)* <ncalls> { <dirRel> <fileName> <nwrites> (path content)* }*`
— a sequence of calls in one invocation: every call compiles its task (`V: {sh: cat <file>}` in the task's directory; with
`global`, the root's `G: {sh: cat g.txt}`), then its commands rewrite files.  Answer: per call `<V>/<G>` as the history of
`Vars.World` gives them (the dynamic-variable cache carries over, the world changes). -/
def doFsHist : P String := do
  let root ← str; let glob ← bool
  let nf ← nat; let files ← many nf (do let p ← str; let c ← str; pure (p, c))
  let nc ← nat
  let calls ← many nc (do
    let d ← str; let f ← str; let nw ← nat
    let ws ← many nw (do let p ← str; let c ← str; pure (p, c))
    pure (d, f, ws))
  let gname : Str := [103, 46, 116, 120, 116]
  let evs : List Ev := calls.flatMap (fun (c : Str × Str × List (Str × Str)) =>
    let defs : Site → List (Name × VarDef) := fun s =>
      match s with
      | .taskfileVars => if glob then [(1, .sh [.text gname] none)] else []
      | .taskVars => [(0, .sh [.text c.2.1] none)]
      | _ => []
    Ev.compile ⟨root, (if c.1 = [] then [] else [.text c.1]), []⟩ [] (layersOf defs) :: c.2.2.map (fun w => Ev.effect (writeFile w.1 w.2)))
  let envs := histEnvs ⟨catShell, [], false⟩ evs (files.reverse, [])
  pure (" ".intercalate (envs.map (fun e => showStr (get e 0) ++ "/" ++ showStr (get e 1))))

/-- insertion sort of strings (canonical order of an answer whose order is unspecified) -/
def insStr (x : String) : List String → List String
  | [] => [x]
  | y :: r => if x ≤ y then x :: y :: r else y :: insStr x r
def sortStrs : List String → List String
  | [] => []
  | x :: r => insStr x (sortStrs r)

/-- `vars.loopmap <n> {key val}*` (the entries of the map, in the order of the FILE) → `<n> {key,val}*` with the
iterations sorted by their text: the order of a map loop is unspecified, the pairing is not -/
def doLoopMap : P String := do
  let n ← nat
  let es ← many n (do let k ← str; let v ← str; pure (k, v))
  let its := mapLoop es
  pure (" ".intercalate (toString its.length :: sortStrs (its.map (fun kv => s!"{showStr kv.1},{showStr kv.2}"))))

def handle (op : String) (args : List String) : Option String :=
  let run (p : P String) := match p.run args with | some (r, []) => some r | _ => none
  match op with
  | "vars.envchain" => run doEnvChain
  | "vars.dotenvchain" => run doDotenvChain
  | "vars.loop" => run doLoop
  | "vars.loopmap" => run doLoopMap
  | "vars.env" => run doEnv
  | "vars.product" => run doProduct
  -- execution consistency: what each call printed (command and deferred command) must be the values
  -- resolved for that call, which the `vars.resolve` lines of the same case tie to the model
  | "vars.run" => some (" ".intercalate args)
  | "vars.cli" => run doCli
  | "vars.compile" => run doCompile
  | "vars.envpipe" => run doEnvPipe
  | "vars.fshist" => run doFsHist
  -- monitor of C11 over the file system: `vars.fsmon <call> <what the call reads ALONE in the world as it is>`
  | "vars.fsmon" => match args with | [_, want] => some want | _ => none
  -- monitor of C02 "variables passed in a call are the ones the callee sees": `vars.callmon <mode> <the value handed over>`
  | "vars.callmon" => match args with | [_, want] => some want | _ => none
  -- monitor of "special variables are available": `vars.climon <name> <value the rule demands>`
  | "vars.climon" => match args with | [_, want] => some want | _ => none
  -- monitor of "available unless overridden" for the POST layer: `vars.postmon <name> <value the rule demands>`
  | "vars.postmon" => match args with | [_, want] => some want | _ => none
  | _ => none

end Driver.Vars
