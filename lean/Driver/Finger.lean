import TaskModel.Finger.Machine
import Driver.Util
/-!
Driver glue for the `Finger` domain.

    finger.globs <n> (<neg> <k> <path>{k}){n}                         → <path>* | -
    finger.hist  <nPaths> (<pathHex> <dir>){nPaths} <nDirs> <dirLen>{nDirs} <nTasks> <task>{nTasks} <nSteps> <step>{nSteps}
        pathHex: the slash path relative to the project root;  dirLen: length of `<dir>/` for task directory 0, 1, …
        task := <nameHex> <labelHex> <method> <prompt> <dir> <ignoreError> <pats> <pats> <k> <guardedGen>{k} <k> <path>{k} <nCmds> (<k> (<path> <contentHex>){k} <need> <ignoreError>){nCmds}
          guardedGen: indices of the generates entries written `${G:?}…` (method checksum only)
        pats := <n> (<neg> <k> <path>{k}){n}
        step := I <task> <mode> <now> <yes> <fail> <kill> <cancelled> <gset> <twin> | W <path> <contentHex> <mtime> | T <path> <mtime>
              | D <path> | M <path> <path> | R <dir>
      twin: 1 = a second activation of the task checks while the first is inside its first command (`twinUp`: s=1 if it is reported up to date);
      gset: 1 = the environment variable G is set (entries `${G:?}…` can be expanded); exit `code1` = the check returned an error;
      cancelled: 1 = the run is cancelled by a failing sibling while the task's status commands run (`Env.cancelled`);
      dir / fail / kill / need: 0 = none, k+1 = some k (need = the path a `task:` call's precondition tests);  method: 0 checksum 1 timestamp 2 none;
      mode: 0 run 1 force 2 dry 3 status 4 list-json 5 list 6 summary
    answer: one segment per step joined by " | ":
      [e=<exit> s=<skipped> r=<ran,…|-> b=<bits|-> g=<goodRun of the invoked task before the step> ; ] F <path>=<hex>@<mtime>* ; D <dir>* ; C <keyHex>=<hashHex>* ; M <keyHex>=<mtime>*
The driver runs `Cfg.fixed` with `H := hId` (both hashes the identity: the stored "checksum" is the
byte stream followed by its length table; the harness maps the real value — `%x%x` of xxh3-128 of the
stream, `%016x` of xxh3-64 of the table — back to the two byte strings it hashed).
-/
namespace Driver.Finger
open TaskModel.Finger Driver

abbrev P := StateT (List String) Option

def tok : P String := fun
  | [] => none
  | t :: r => some (t, r)

def nat : P Nat := do let t ← tok; (t.toNat? : Option Nat)
def bool : P Bool := do let t ← tok; (boolTok t : Option Bool)
def optNat : P (Option Nat) := do let n ← nat; pure (if n = 0 then none else some (n - 1))
def bytes : P Bytes := do let t ← tok; let b ← (unhexBytes t : Option _); pure (b.map (·.toNat))
def chars : P Bytes := do let t ← tok; let b ← (unhexChars t : Option _); pure (b.map (·.toNat))

def rep {α : Type} (p : P α) : Nat → P (List α)
  | 0 => pure []
  | n + 1 => do let a ← p; let r ← rep p n; pure (a :: r)

def many {α : Type} (p : P α) : P (List α) := do let n ← nat; rep p n

def pat : P Pat := do let neg ← bool; let ms ← many nat; pure ⟨neg, ms⟩

def method : P Method := do
  match ← nat with
  | 0 => pure .checksum
  | 1 => pure .timestamp
  | 2 => pure .none
  | _ => failure

def cmd : P Cmd := do
  let ws ← many (do let p ← nat; let c ← bytes; pure (p, c))
  let need ← optNat
  let ign ← bool
  pure ⟨ws, need, ign⟩

def task : P Task := do
  let name ← chars; let label ← chars; let m ← method; let prompt ← bool; let dir ← optNat; let ign ← bool
  let srcs ← many pat; let gens ← many pat; let gg ← many nat; let st ← many nat; let cmds ← many cmd
  -- `${G:?}…` entries are only interpreted for method checksum (`checkErr`)
  if !gg.isEmpty && m != .checksum then failure
  pure { name, label, method := m, sources := srcs, generates := gens, status := st, prompt, dir, cmds,
         ignoreError := ign, gguard := gg }

def mode : P Mode := do
  match ← nat with
  | 0 => pure .run | 1 => pure .force | 2 => pure .dry | 3 => pure .status
  | 4 => pure .listJson | 5 => pure .list | 6 => pure .summary
  | _ => failure

def stepP : P Step := do
  match ← tok with
  | "I" => do
    let i ← nat; let m ← mode; let now ← nat; let yes ← bool; let f ← optNat; let k ← optNat; let c ← bool; let g ← bool; let tw ← bool
    pure (.inv i m ⟨now, yes, f, k, c, g, tw⟩)
  | "W" => do let p ← nat; let c ← bytes; let mt ← nat; pure (.op (.write p c mt))
  | "T" => do let p ← nat; let mt ← nat; pure (.op (.touch p mt))
  | "D" => do let p ← nat; pure (.op (.delete p))
  | "M" => do let p ← nat; let q ← nat; pure (.op (.move p q))
  | "R" => do let d ← nat; pure (.op (.rmdir d))
  | _ => failure

def enumFrom {α : Type} : Nat → List α → List (Nat × α)
  | _, [] => []
  | n, a :: l => (n, a) :: enumFrom (n + 1) l

def proj : P Proj := do
  let paths ← many (do let b ← bytes; let d ← optNat; pure (b, d))
  let dirLens ← many nat
  let tasks ← many task
  let ps := enumFrom 0 paths
  pure { base := ps.map (fun x => (x.1, x.2.1)),
         dirOf := ps.filterMap (fun x => x.2.2.map (fun d => (x.1, d))),
         dirLen := enumFrom 0 dirLens,
         tasks }

/-! rendering -/

def natsHex (b : Bytes) : String := hexBytes (b.map UInt8.ofNat)
def keyHex (b : Bytes) : String := hexStr (String.ofList (b.map Char.ofNat))

def joinOr (sep : String) (l : List String) : String := if l.isEmpty then "-" else sep.intercalate l

def sortStrs (l : List String) : List String := (l.toArray.qsort (· < ·)).toList
def sortNatKeyed {α : Type} (l : List (Nat × α)) : List (Nat × α) := (l.toArray.qsort (fun a b => a.1 < b.1)).toList

def showState (s : State) : String :=
  let fs := (sortNatKeyed s.files).map (fun kv => s!"{kv.1}={natsHex kv.2.content}@{kv.2.mtime}")
  let ds := ((s.dirs.toArray.qsort (· < ·)).toList).map toString
  let cs := sortStrs (s.sums.map (fun kv => s!"{keyHex kv.1}={natsHex kv.2}"))
  let ms := sortStrs (s.marks.map (fun kv => s!"{keyHex kv.1}={kv.2}"))
  " ".intercalate (["F"] ++ fs ++ [";", "D"] ++ ds ++ [";", "C"] ++ cs ++ [";", "M"] ++ ms)

def showExit : Exit → String
  | .ok => "ok" | .failed => "failed" | .notUpToDate => "notuptodate" | .cancelled => "cancelled" | .killed => "killed"
  | .checkError => "code1"

def showObs (o : Obs) : String :=
  s!"e={showExit o.exit} s={showBool o.skipped} r={joinOr "," (o.ran.map toString)} b={joinOr "," (o.bits.map showBool)}"

/-- run the history step by step, rendering the observation and the state after each step -/
def goodBit (pr : Proj) (s : State) : Step → String
  | .inv i _ _ =>
    match pr.tasks[i]? with
    | some t => showBool (goodRun hId pr i t s)
    | none => "0"
  | _ => "0"

def render (pr : Proj) : List Step → State → List String
  | [], _ => []
  | st :: rest, s =>
    let r := step Cfg.fixed hId pr st s
    -- (a second activation reported up to date prints the same message: `s=1` although commands ran)
    let tw := match st with | .inv i .run e => twinUp hId pr i e s | _ => false
    let seg := match r.2 with
      | some o => showObs { o with skipped := o.skipped || tw } ++ " g=" ++ goodBit pr s st ++ " ; " ++ showState r.1
      | none => showState r.1
    seg :: render pr rest r.1

def doHist (args : List String) : Option String := do
  let ((pr, steps), rest) ← (do let pr ← proj; let st ← many stepP; pure (pr, st) : P _).run args
  if !rest.isEmpty then none
  some (" | ".intercalate (render pr steps State.empty))

def doGlobs (args : List String) : Option String := do
  let (pats, rest) ← (many pat).run args
  if !rest.isEmpty then none
  some (joinOr " " ((globs pats).map toString))

def handle (op : String) (args : List String) : Option String :=
  match op with
  | "finger.globs" => doGlobs args
  | "finger.hist" => doHist args
  | "finger.mon" => some "ok"     -- the property's monitors demand `ok` for every history (Props.C04 / C05)
  | _ => none

end Driver.Finger
