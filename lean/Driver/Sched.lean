import TaskModel.Sched.Model
import TaskModel.Sched.Monitors
import TaskModel.Sched.Verdicts
import TaskModel.Sched.DeadlockLemmas
import TaskModel.Sched.MonVal
import Driver.Util
/-!
`sched.run F <cap|-> <parallel> <force> <forceAll> <yes> <maxCalls> <promptErr>
           P <ntasks> { <ndeps> dep* <ncmds> cmd* <ignoreErr> <run> <internal> <platformOk> <requiresOk> <enumOk> <precondOk> <upToDate> <prompt> <compileOk> }*
           C <ncalls> task*
           V <ntasks> { <ndeps> pass* <ncmds> pass* }*          what every reference passes as variable V
           E <nevents> { <act> <ev> arg* }*
           R <result>
           O <nobs> { <act> <value> }*`                         the value of V the commands of an activation printed
pass = `n` (nothing) | `l <n>` (literal) | `e` ({{.EXIT_CODE}}) | `o` (a variable of the referring task) | `w` (the referrer's own V);
observed values: 0 nothing printed, 2n+3 the numeral n, 2t+2 LOCAL of task t.
cmd = `s <code> <ignoreErr> <deferred>` | `c <target> <deferred>`;
result = `ok` | `x<n>` | `ctx` | `t<code>` | `gen` | `r:<result>`.
Answer: `accept <monitor verdicts>` | `reject step=<n> <label>` | `reject final <why>`.
-/
namespace Driver.Sched
open TaskModel.Sched Driver

abbrev P := StateT (List String) Option

def tok : P String := do
  match (← get) with
  | [] => failure
  | t :: ts => set ts; pure t

def nat : P Nat := do let t ← tok; match t.toNat? with | some n => pure n | none => failure
def bool : P Bool := do let t ← tok; match boolTok t with | some b => pure b | none => failure
def expect (s : String) : P Unit := do let t ← tok; if t == s then pure () else failure

def many {α} (n : Nat) (p : P α) : P (List α) :=
  match n with
  | 0 => pure []
  | n+1 => do let x ← p; let xs ← many n p; pure (x :: xs)

partial def parseRes (s : String) : Option Res :=
  if s == "ok" then some .ok
  else if s == "ctx" then some .ctx
  else if s == "gen" then some .generic
  else if s == "hang" then some (.typed 999)   -- the run never returned: never accepted (`doRun`)
  else if s.startsWith "r:" then (parseRes (s.drop 2).toString).map .run
  else if s.startsWith "x" then ((s.drop 1).toString.toNat?).map .exit
  else if s.startsWith "t" then ((s.drop 1).toString.toNat?).map .typed
  else none

def showRes : Res → String
  | .ok => "ok" | .ctx => "ctx" | .generic => "gen"
  | .exit n => s!"x{n}" | .typed c => s!"t{c}" | .run r => "r:" ++ showRes r

def res : P Res := do let t ← tok; match parseRes t with | some r => pure r | none => failure

def cmd : P Cmd := do
  let k ← tok
  if k == "s" then do let c ← nat; let ie ← bool; let d ← bool; pure (.shell c ie d)
  else if k == "c" then do let t ← nat; let d ← bool; pure (.call t d)
  else failure

def runMode : P RunMode := do
  let t ← tok
  if t == "always" then pure .always else if t == "once" then pure .once
  else if t == "when_changed" then pure .whenChanged else failure

def taskDef : P TaskDef := do
  let nd ← nat; let deps ← many nd nat
  let nc ← nat; let cmds ← many nc cmd
  let ignoreError ← bool; let run ← runMode; let internal ← bool
  let platformOk ← bool; let requiresOk ← bool; let enumOk ← bool
  let precondOk ← bool; let upToDate ← bool; let prompt ← bool; let compileOk ← bool
  pure { deps, cmds, ignoreError, run, internal, platformOk, requiresOk, compileOk, enumOk, precondOk, upToDate, prompt }

def flags : P Flags := do
  expect "F"
  let c ← tok
  let cap := if c == "-" then none else c.toNat?
  let parallel ← bool; let force ← bool; let forceAll ← bool; let yes ← bool; let maxCalls ← nat
  let promptErr ← bool
  pure { cap, parallel, force, forceAll, yes, maxCalls, promptErr }

def optNat : P (Option Nat) := do let t ← tok; if t == "-" then pure none else match t.toNat? with | some n => pure (some n) | none => failure

def event : P Label := do
  let a ← nat
  let k ← tok
  let ev ← (match k with
    | "enter" => do
      let kind ← tok
      match kind with
      | "top" => do let i ← nat; let t ← nat; pure (Ev.enter (.top i) t)
      | "dep" => do let p ← nat; let j ← nat; let t ← nat; pure (Ev.enter (.dep p j) t)
      | "call" => do let p ← nat; let i ← nat; let t ← nat; pure (Ev.enter (.call p i false) t)
      | "dcall" => do let p ← nat; let i ← nat; let t ← nat; pure (Ev.enter (.call p i true) t)
      | _ => failure
    | "acquire" => pure Ev.acquire
    | "register" => do let key ← nat; pure (Ev.register key)
    | "waiter" => do let key ← nat; pure (Ev.waiter key)
    | "waitCycle" => do let key ← nat; pure (Ev.waitCycle key)
    | "wRelease" => pure Ev.wRelease | "wWake" => pure Ev.wWake | "wReacq" => pure Ev.wReacq
    | "depsRelease" => pure Ev.depsRelease | "depsReacq" => pure Ev.depsReacq
    | "depsDone" => do let r ← res; pure (Ev.depsDone r)
    | "ctxErr" => pure Ev.ctxErr | "precondFail" => pure Ev.precondFail | "upToDate" => pure Ev.upToDate
    | "promptFail" => pure Ev.promptFail | "guardsPassed" => pure Ev.guardsPassed
    | "cmdStart" => do let i ← nat; let seen ← optNat; let d ← bool; pure (Ev.cmdStart i seen d)
    | "cmdEnd" => do let i ← nat; let r ← res; pure (Ev.cmdEnd i r)
    | "callRelease" => do let i ← nat; let d ← bool; pure (Ev.callRelease i d)
    | "callRet" => do let i ← nat; pure (Ev.callRet i)
    | "callReacq" => do let i ← nat; pure (Ev.callReacq i)
    | "execDone" => pure Ev.execDone | "release" => pure Ev.release | "exit" => pure Ev.exit
    | _ => failure : P Ev)
  pure { act := a, ev }

def pass : P Pass := do
  let k ← tok
  if k == "n" then pure .none else if k == "e" then pure .exitCode else if k == "o" then pure .local_
  else if k == "w" then pure .own else if k == "l" then do let n ← nat; pure (.lit n) else failure

def taskPasses : P TaskPasses := do
  let nd ← nat; let deps ← many nd pass
  let nc ← nat; let cmds ← many nc pass
  pure { deps, cmds }

structure Case where
  F : Flags
  prog : Program
  calls : List Nat
  passes : Passes
  trace : List Label
  result : Res
  obs : List (Nat × Nat)

def parseCase : P Case := do
  let F ← flags
  expect "P"; let n ← nat; let prog ← many n taskDef
  expect "C"; let nc ← nat; let calls ← many nc nat
  expect "V"; let nv ← nat; let passes ← many nv taskPasses
  expect "E"; let ne ← nat; let trace ← many ne event
  expect "R"; let result ← res
  expect "O"; let no ← nat; let obs ← many no (do let a ← nat; let v ← nat; pure (a, v))
  pure { F, prog, calls, passes, trace, result, obs }

/-- replay reporting the index of the first rejected label -/
def replayIdx (Pg : Program) (F : Flags) : Config → List Label → Nat → Except Nat Config
  | c, [], _ => .ok c
  | c, l :: ls, i =>
    match step Pg F c l with
    | some c' => replayIdx Pg F c' ls (i+1)
    | none => .error i

def doRun (args : List String) : Option String := do
  let (cs, restToks) ← parseCase.run args
  if !restToks.isEmpty then none else
  -- C03 (status): a failure must reach `main` as a task-run error wrapping the command's status
  -- (201 / the status with --exit-code) or as a typed error — never as a bare exit status (exit 1)
  -- and never doubly wrapped (201 even with --exit-code); no dependency reports a task-run error
  let c03s := statusMon cs.trace cs.result
  -- C02 / C14 (values): every activation's commands saw the value its reference passed (a deferred call: the exit code);
  -- C06 (keys): one key per `run: once` task / per (when_changed task, value), a key belongs to one task
  let c02v := valMon cs.passes cs.prog cs.F cs.calls.length cs.trace cs.obs
  let c06k := keyMon cs.passes cs.prog cs.F cs.calls.length cs.trace
  let verdicts := monitorVerdicts2 cs.prog cs.F cs.calls cs.trace ++ (if c03s then " C03s=1" else " C03s=0") ++
    (if c02v then " C02v=1" else " C02v=0") ++ (if c06k then " C06k=1" else " C06k=0") ++
    -- C07 / C06 (call limit): an acyclic program never ends a call with "called too many times"
    (if callLimitMon cs.prog cs.F cs.calls.length cs.trace then " C07a=1" else " C07a=0")
  match replayIdx cs.prog cs.F (init cs.calls.length) cs.trace 0 with
  | .error i => some s!"reject step={i} {verdicts}"
  | .ok c =>
    if cs.result = .typed 999 then
      -- the run never returned.  No reachable configuration explains that: one that is not final accepts
      -- a label (`Props.C07.C07_no_deadlock`, every program — the wait that would close a cycle through a
      -- deduplicated task is refused), one that is final has returned.  (`S7.deadlocked` is reported for
      -- diagnosis only: `1` would contradict the theorem.)
      some s!"reject hang stuck={if S7.deadlocked c then 1 else 0} {verdicts}" else
    match finalCheck cs.prog cs.F cs.calls c cs.result with
    | some why => some s!"reject final {why} {verdicts}"
    | none => some s!"accept {verdicts}"

def handle (op : String) (args : List String) : Option String :=
  match op with
  | "sched.run" => doRun args
  | _ => none

end Driver.Sched
