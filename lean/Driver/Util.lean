/-! Driver glue: tokens are decimal numbers or hex-encoded UTF-8 / byte strings ("-" = empty). -/
namespace Driver

def hexVal (c : Char) : Option Nat :=
  if '0' ≤ c ∧ c ≤ '9' then some (c.toNat - '0'.toNat)
  else if 'a' ≤ c ∧ c ≤ 'f' then some (c.toNat - 'a'.toNat + 10)
  else none

def unhexBytes (s : String) : Option (List UInt8) :=
  if s == "-" then some [] else
  let rec go : List Char → List UInt8 → Option (List UInt8)
    | [], acc => some acc.reverse
    | [_], _ => none
    | a :: b :: r, acc =>
      match hexVal a, hexVal b with
      | some x, some y => go r (UInt8.ofNat (x*16+y) :: acc)
      | _, _ => none
  go s.toList []

def hexDigit (n : Nat) : Char := if n < 10 then Char.ofNat (48 + n) else Char.ofNat (87 + n)

def hexBytes (bs : List UInt8) : String :=
  if bs.isEmpty then "-" else
  String.ofList (bs.flatMap fun b => [hexDigit (b.toNat / 16), hexDigit (b.toNat % 16)])

def unhexStr (s : String) : Option String := do
  let bs ← unhexBytes s
  String.fromUTF8? (ByteArray.mk bs.toArray)

def hexStr (s : String) : String := hexBytes s.toUTF8.toList

def unhexChars (s : String) : Option (List Char) := (unhexStr s).map String.toList
def hexChars (cs : List Char) : String := hexStr (String.ofList cs)

def boolTok (s : String) : Option Bool :=
  if s == "1" then some true else if s == "0" then some false else none

def showBool (b : Bool) : String := if b then "1" else "0"

end Driver
