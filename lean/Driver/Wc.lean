import TaskModel.Dedup.Key
import Driver.Util
/-! `wc.run <mode> <nv> <nc> v* <ne> v* <ns> v* <nd> v* <k> (<nb> (<var> <val>)*)*` →
`<n> <line>*`: the executions of the deduplicated task under the full hash (the
property-conforming outcome, `Props.C06Key.whenChanged_exact` / `once_exact` /
`always_exact`), rendered as the lines the generated task bodies print, sorted. -/
namespace Driver.Wc
open TaskModel.Dedup Driver

def takeNats : Nat → List String → Option (List Nat × List String)
  | 0, r => some ([], r)
  | k+1, t :: r => do
    let n ← t.toNat?
    let (ns, r') ← takeNats k r
    some (n :: ns, r')
  | _, _ => none

def takeList (r : List String) : Option (List Nat × List String) :=
  match r with
  | n :: r => do let n ← n.toNat?; takeNats n r
  | [] => none

def pairs : List Nat → List (Nat × Nat)
  | a :: b :: r => (a, b) :: pairs r
  | _ => []

def takeCalls : Nat → List String → Option (List Asg × List String)
  | 0, r => some ([], r)
  | k+1, nb :: r => do
    let nb ← nb.toNat?
    let (xs, r') ← takeNats (2*nb) r
    let (cs, r'') ← takeCalls k r'
    some (pairs xs :: cs, r'')
  | _, _ => none

def showVals (vs : Vals) : String := ",".intercalate (vs.map fun | some n => toString n | none => "")

def linesOf (W : Callee) (c : Compiled) : List String :=
  [s!"W|c:{showVals c.cmd}|e:{showVals c.env}"] ++
  (if W.subVars.isEmpty then [] else [s!"S|{showVals c.sub}"]) ++
  (if W.depVars.isEmpty then [] else [s!"D|{showVals c.dep}"])

def insertSorted (s : String) : List String → List String
  | [] => [s]
  | x :: xs => if s ≤ x then s :: x :: xs else x :: insertSorted s xs

def sortStrs (l : List String) : List String := l.foldr insertSorted []

def handle (op : String) (args : List String) : Option String :=
  if op != "wc.run" then none else
  match args with
  | mode :: nv :: r => do
    let m ← (if mode == "always" then some RunMode.always else if mode == "once" then some .once
             else if mode == "when_changed" then some .whenChanged else none)
    let nv ← nv.toNat?
    let (cv, r) ← takeList r
    let (ev, r) ← takeList r
    let (sv, r) ← takeList r
    let (dv, r) ← takeList r
    match r with
    | k :: r =>
      let k ← k.toNat?
      let (calls, rest) ← takeCalls k r
      if !rest.isEmpty then none else
      let W : Callee := { cmdVars := cv, envVars := ev, subVars := sv, depVars := dv }
      let ex := execs m .full nv W calls []
      let ls := sortStrs (ex.flatMap (linesOf W))
      some (" ".intercalate (toString ex.length :: ls))
    | [] => none
  | _ => none

end Driver.Wc
