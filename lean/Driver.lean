import Driver.Util
import Driver.Resolve
import Driver.Sched
import Driver.Output
import Driver.Remote
import Driver.Quote
import Driver.Vars
import Driver.Load
