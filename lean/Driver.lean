import Driver.Util
import Driver.Resolve
import Driver.Finger
