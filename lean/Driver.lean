import Driver.Util
import Driver.Resolve
