import TaskModel.Resolve.Glob
import TaskModel.Load.RootRef
import TaskModel.Load.MergeInvariant
import TaskModel.Load.SortLemmas
import TaskModel.Load.VarsLemmas
import TaskModel.Load.Sites
import TaskModel.Load.Siblings
import TaskModel.Load.NormalizeLemmas
