import TaskModel.Resolve.Glob
