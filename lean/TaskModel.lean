import TaskModel.Resolve.Glob
import TaskModel.Remote.Model
import TaskModel.Remote.Lemmas
import TaskModel.Remote.Tie
