import TaskModel.Resolve.Glob
import TaskModel.Resolve.GlobLemmas
import TaskModel.Resolve.Table
import TaskModel.Sched.Model
import TaskModel.Sched.Monitors
