import TaskModel.Resolve.Glob
import TaskModel.Load.RootRef
