import TaskModel.Resolve.Glob
import TaskModel.Quote.Utf8
import TaskModel.Quote.Quote
import TaskModel.Quote.Words
import TaskModel.Quote.Args
import TaskModel.Quote.Init
