import TaskModel.Resolve.Glob
import TaskModel.Finger.AList
import TaskModel.Finger.Globs
import TaskModel.Finger.GlobsLemmas
import TaskModel.Finger.Machine
import TaskModel.Finger.MachineLemmas
import TaskModel.Finger.Facts
import TaskModel.Finger.StreamLemmas
