import Props.SchedTie
import TaskModel.Sched.MonC01
import TaskModel.Sched.EnterLemmas
import TaskModel.Sched.OutLemmas
/-!
# C01 — Dependencies finish successfully before a task's commands start

Statements are about every trace the executor model accepts (`replay … = some c`): all
programs (dependency graphs, nested calls, run modes, failing commands), all flags
(`--concurrency`, `--parallel`), all interleavings.  Tie: the `sched` correspondence
replays the event log of the real executor through the same `replay`, and evaluates the
raw monitors `wakeAfterDone` / `depsExitedBefore` proved sound here.

The model (`Sched.Model`) contains the two repairs of `startExecution`: a caller that
finds a `run: once` / `when_changed` task already registered waits until that execution
has really finished (`wWake` needs `execResultOf`) and returns its outcome.

Which statements say what (audit, session 3).  The acceptor ENFORCES "all dependencies returned, successfully" as
guards of `depsReacq` / `depsDone ok`; `C01_deps_done_ok`, `C01_deps_explicit`, `C01_cmd_start` turn those guards
into an invariant of every reachable configuration (the guard is read back, globally).  What they assure about the
real executor is therefore: every log it writes is accepted — the correspondence check — and in an accepted log no
command starts before the dependencies are done.  `C01_shared`, `C01_shared_dep`, `C01_wake_after_done` and the
soundness of the raw monitors `wakeAfterDone` / `depsExitedBefore` are statements about whole traces.
-/
namespace Props.C01
open TaskModel.Sched

/-- **C01 (core).** In every reachable configuration, an activation that is past its
dependency join — it is evaluating its guards, running a command (shell or `task:` call) or
its deferred entries, or it has started a command at any earlier time — has, for *every*
entry of its `deps`, a dependency activation that has entered, has exited (`done`) and
returned success. -/
theorem C01_deps_done_ok (P : Program) (F : Flags) (n : Nat) (tr : List Label) (c : Config)
    (h : replay P F (init n) tr = some c) (a : Nat) (x : Act) (hx : c.act? a = some x)
    (hp : pastJoin x.phase = true ∨ x.started ≠ []) :
    ∃ rs, depResults c x x.def_.deps.length 0 = some rs ∧ ∀ r ∈ rs, r = Res.ok :=
  replay_inv P F DepsInv (fun c l c' hi hs => DepsInv_step P F c c' l hi hs) (init n) tr c (DepsInv_init n) h a x hx hp

/-- the same, dependency by dependency: the `j`-th dependency of `x` is served by an
activation `id` of kind `dep a j`, running task `deps[j]`, which is `done` with result `ok` -/
theorem C01_deps_explicit (P : Program) (F : Flags) (n : Nat) (tr : List Label) (c : Config)
    (h : replay P F (init n) tr = some c) (a : Nat) (x : Act) (hx : c.act? a = some x)
    (hp : pastJoin x.phase = true ∨ x.started ≠ []) (j : Nat) (hj : j < x.def_.deps.length) :
    ∃ id k, x.kids.lookup (slotOfDep j) = some id ∧ c.act? id = some k ∧ k.phase = .done ∧ k.res = .ok ∧
      k.kind = .dep a j ∧ x.def_.deps[j]? = some k.task := by
  obtain ⟨rs, hrs, hok⟩ := C01_deps_done_ok P F n tr c h a x hx hp
  obtain ⟨_, hspec⟩ := depResults_spec c x _ 0 rs hrs
  obtain ⟨id, r, h1, h2, h3⟩ := hspec j (Nat.zero_le _) (by omega)
  obtain ⟨k, hk, hd, hr⟩ := (kidDone_eq_some c id r).mp h2
  have hkid := replay_inv P F KidInv (fun c l c' hi hs => KidInv_step P F c c' l hi hs) (init n) tr c (KidInv_init n) h
  obtain ⟨k', hk', hko⟩ := hkid a x (slotOfDep j) id hx h1
  rw [hk] at hk'; cases hk'
  refine ⟨id, k, h1, hk, hd, by rw [hr]; exact hok r h3, ?_⟩
  rcases hko with ⟨j', e1, e2, e3⟩ | ⟨i, d, e1, _, _⟩
  · simp only [slotOfDep] at e1; subst e1; exact ⟨e2, e3⟩
  · simp only [slotOfDep, slotOfCall] at e1; omega

/-- **C01 (at the event).** Whenever the model accepts the start of a command of
activation `a` (a shell command or a `task:` call of its body) in a reachable
configuration, all dependencies of `a` have exited successfully. -/
theorem C01_cmd_start (P : Program) (F : Flags) (n : Nat) (tr : List Label) (c c' : Config)
    (h : replay P F (init n) tr = some c) (l : Label) (hs : step P F c l = some c')
    (hev : isBodyStart l.ev = true) :
    ∃ x rs, c.act? l.act = some x ∧ depResults c x x.def_.deps.length 0 = some rs ∧ ∀ r ∈ rs, r = Res.ok := by
  rcases step_cases P F c c' l hs with ⟨k, t, he, _⟩ | ⟨_, x, y, eff, hx, hl, _⟩
  · rw [he] at hev; cases hev
  · have hb := stepLocal_cmdStart F _ x y eff l.ev hl hev
    obtain ⟨rs, h1, h2⟩ := C01_deps_done_ok P F n tr c h l.act x hx (.inl (by rw [hb]; rfl))
    exact ⟨x, rs, hx, h1, h2⟩

/-- **C01 (shared dependencies).** An activation that found its `run: once` /
`when_changed` key already registered (a dedup *waiter*) and has returned from waiting
carries exactly the outcome of the registered execution of that key — the bare error it
ended with, which the waiter wraps according to its own call like the executing activation
does (`wrapFor`); in particular one succeeded iff the other did — and that execution has
really finished (`execDone` accepted). -/
theorem C01_shared (P : Program) (F : Flags) (n : Nat) (tr : List Label) (c : Config)
    (h : replay P F (init n) tr = some c) (w : Nat) (wx : Act) (k : Nat) (hw : c.act? w = some wx)
    (hk : wx.waitsFor = some k) (hp : wokenPhase wx.phase = true) :
    ∃ e ex, c.execs.lookup k = some e ∧ c.act? e = some ex ∧ ex.key = some k ∧
      exFin ex.phase = true ∧ wx.out = ex.out ∧ wx.res = wrapFor wx.indirect ex.out ∧
      ex.res = wrapFor ex.indirect ex.out := by
  have hD := DedupInv_reachable P F n tr c h
  obtain ⟨e, ex, he, hex, hf, hr⟩ := (execResultOf_eq_some c k wx.out).mp (hD.waiter w wx k hw hk hp)
  obtain ⟨ex', hex', hkey⟩ := hD.execs.bound k e he
  rw [hex] at hex'; cases hex'
  exact ⟨e, ex, he, hex, hkey, hf, hr.symm, by rw [hr]; exact S2.OutInv_sound P F n tr c h w wx hw,
    S2.OutInv_sound P F n tr c h e ex hex⟩

/-- **C01 (shared dependency of a proceeding task).** If a task has got past its join and
one of its dependencies was served by a waiter on key `k`, then the single real execution
of `k` has finished, and finished successfully. -/
theorem C01_shared_dep (P : Program) (F : Flags) (n : Nat) (tr : List Label) (c : Config)
    (h : replay P F (init n) tr = some c) (a : Nat) (x : Act) (hx : c.act? a = some x)
    (hp : pastJoin x.phase = true ∨ x.started ≠ []) (j : Nat) (hj : j < x.def_.deps.length) :
    ∃ id kd, x.kids.lookup (slotOfDep j) = some id ∧ c.act? id = some kd ∧ kd.phase = .done ∧ kd.res = .ok ∧
      ∀ k, kd.waitsFor = some k →
        ∃ e ex, c.execs.lookup k = some e ∧ c.act? e = some ex ∧ ex.key = some k ∧
          exFin ex.phase = true ∧ ex.res = .ok := by
  obtain ⟨id, kd, h1, h2, h3, h4, _⟩ := C01_deps_explicit P F n tr c h a x hx hp j hj
  refine ⟨id, kd, h1, h2, h3, h4, ?_⟩
  intro k hk
  obtain ⟨e, ex, a1, a2, a3, a4, _, a5, a6⟩ := C01_shared P F n tr c h id kd k h2 hk (by rw [h3]; rfl)
  refine ⟨e, ex, a1, a2, a3, a4, ?_⟩
  have hsh := (S2.Shape_sound P F n tr c h e ex a2).out
  have : ex.res.isOk = true := by
    rw [a6, S2.wrapFor_isOk _ _ hsh, ← S2.wrapFor_isOk kd.indirect _ hsh, ← a5, h4]; rfl
  exact S2.isOk_eq_ok _ this

/-! ## the raw-trace monitors hold on every accepted trace -/

/-- a waiter's `wWake` comes after the `execDone` of the activation registered for its key -/
theorem C01_wakeAfterDone (P : Program) (F : Flags) (n : Nat) (tr : List Label) (c : Config)
    (h : replay P F (init n) tr = some c) : wakeAfterDone tr [] [] [] = true :=
  wakeAfterDone_sound P F n tr c h

/-- when an activation starts its first command, it has spawned one activation per
dependency and each of them has exited -/
theorem C01_depsExitedBefore (P : Program) (F : Flags) (n : Nat) (tr : List Label) (c : Config)
    (h : replay P F (init n) tr = some c) (a : Nat) (x : Act) (hx : c.act? a = some x) :
    depsExitedBefore a x.def_.deps.length tr [] [] = true :=
  depsExitedBefore_sound P F n tr c h a _ (by intro x' hx'; rw [hx] at hx'; cases hx'; rfl)

/-- the C01 verdict of `Monitors.monitorVerdicts`, as a function (the same expression) -/
def c01Verdict (P : Program) (tr : List Label) : Bool :=
  wakeAfterDone tr [] [] [] && (actIds tr).all (fun a =>
    match enterOf a tr with
    | some (_, t) => (match P[t]? with | some d => depsExitedBefore a d.deps.length tr [] [] | none => true)
    | none => true)

/-- **every accepted trace gets the verdict `C01=1`** -/
theorem C01_verdict (P : Program) (F : Flags) (n : Nat) (tr : List Label) (c : Config)
    (h : replay P F (init n) tr = some c) : c01Verdict P tr = true := by
  unfold c01Verdict
  rw [C01_wakeAfterDone P F n tr c h, Bool.true_and, List.all_eq_true]
  intro a _
  have he := enterOf_sound P F n tr c h a
  cases hc : c.act? a with
  | none => rw [hc] at he; simp only at he; rw [he]
  | some x =>
    rw [hc] at he
    obtain ⟨he1, he2⟩ := he
    rw [he1]
    simp only
    cases hP : P[x.task]? with
    | none => rfl
    | some d =>
      simp only
      have : x.def_ = d := by rw [he2, hP]; rfl
      rw [← this]
      exact C01_depsExitedBefore P F n tr c h a x hc

/-- `c01Verdict` is literally the C01 field of the verdict line the driver prints -/
theorem monitorVerdicts_c01 (P : Program) (F : Flags) (calls : List Nat) (tr : List Label) :
    ∃ rest, monitorVerdicts P F calls tr = "C01=" ++ ((if c01Verdict P tr then "1" else "0") ++ rest) := by
  unfold monitorVerdicts c01Verdict
  simp only [String.append_assoc]
  exact ⟨_, rfl⟩

/-- … so for every accepted trace the driver's verdict line starts with `C01=1` -/
theorem C01_monitorVerdicts (P : Program) (F : Flags) (n : Nat) (tr : List Label) (c : Config)
    (h : replay P F (init n) tr = some c) (calls : List Nat) :
    ∃ rest, monitorVerdicts P F calls tr = "C01=1" ++ rest := by
  obtain ⟨rest, hm⟩ := monitorVerdicts_c01 P F calls tr
  rw [C01_verdict P F n tr c h] at hm
  exact ⟨rest, by rw [hm, ← String.append_assoc]; rfl⟩

/-! ## non-vacuity: two tasks depending on one shared `run: once` task -/

/-- tasks 0 and 1 depend on task 2 (`run: once`), whose only command exits with `code` -/
private def prog (code : Nat) : Program :=
  [{ deps := [2], cmds := [.shell 0 false false] },
   { deps := [2], cmds := [.shell 0 false false] },
   { run := .once, cmds := [.shell code false false] }]

private def flags : Flags := { parallel := true }

/-- activations: 1, 2 = the two top calls; 3 = dependency of 1 (registers key 7);
4 = dependency of 2 (finds key 7 registered: waiter).  Up to the point where the shared
execution is running its command and the waiter is parked. -/
private def pre : List Label :=
  [⟨1, .enter (.top 0) 0⟩, ⟨1, .acquire⟩, ⟨1, .depsRelease⟩,
   ⟨2, .enter (.top 1) 1⟩, ⟨2, .acquire⟩, ⟨2, .depsRelease⟩,
   ⟨3, .enter (.dep 1 0) 2⟩, ⟨3, .acquire⟩, ⟨3, .register 7⟩, ⟨3, .depsRelease⟩, ⟨3, .depsReacq⟩,
   ⟨3, .depsDone .ok⟩, ⟨3, .guardsPassed⟩, ⟨3, .cmdStart 0 none false⟩,
   ⟨4, .enter (.dep 2 0) 2⟩, ⟨4, .acquire⟩, ⟨4, .waiter 7⟩, ⟨4, .wRelease⟩]

/-- the shared execution ends with `r`, the waiter wakes afterwards, both return -/
private def fin (r : Res) : List Label :=
  [⟨3, .cmdEnd 0 r⟩, ⟨3, .execDone⟩, ⟨4, .wWake⟩, ⟨3, .release⟩, ⟨3, .exit⟩,
   ⟨4, .wReacq⟩, ⟨4, .release⟩, ⟨4, .exit⟩, ⟨1, .depsReacq⟩, ⟨2, .depsReacq⟩]

private def body (a : Nat) : List Label :=
  [⟨a, .depsDone .ok⟩, ⟨a, .guardsPassed⟩, ⟨a, .cmdStart 0 none false⟩, ⟨a, .cmdEnd 0 .ok⟩, ⟨a, .release⟩, ⟨a, .exit⟩]

private def failed (a : Nat) : List Label := [⟨a, .depsDone (.exit 1)⟩, ⟨a, .release⟩, ⟨a, .exit⟩]

private def runOk : List Label := pre ++ fin .ok ++ body 1 ++ body 2
private def runFail : List Label := pre ++ fin (.exit 1) ++ failed 1 ++ failed 2

private def summary (c : Config) : List (Option (Phase × Res × List Nat)) :=
  [1, 2, 3, 4].map (fun a => (c.act? a).map (fun x => (x.phase, x.res, x.started)))

-- the shared task succeeds: both dependents run their command
example : (replay (prog 0) flags (init 2) runOk).map summary =
    some [some (.done, .ok, [0]), some (.done, .ok, [0]), some (.done, .ok, [0]), some (.done, .ok, [])] := by decide
-- the shared task fails: the waiter reports the failure too, neither dependent starts a command
example : (replay (prog 1) flags (init 2) runFail).map summary =
    some [some (.done, .run (.exit 1), []), some (.done, .run (.exit 1), []),
          some (.done, .exit 1, [0]), some (.done, .exit 1, [])] := by decide
-- … and a dependent cannot proceed as if the shared task had succeeded (neither the
-- parent of the real execution nor the parent of the waiter)
example : (replay (prog 1) flags (init 2) (pre ++ fin (.exit 1) ++ [⟨1, .depsDone .ok⟩])).isNone = true := by decide
example : (replay (prog 1) flags (init 2) (pre ++ fin (.exit 1) ++ [⟨2, .depsDone .ok⟩])).isNone = true := by decide
-- a dependent cannot rejoin while its dependency (the waiter) has not returned
example : (replay (prog 0) flags (init 2) (pre ++ [⟨2, .depsReacq⟩])).isNone = true := by decide
-- the waiter cannot wake before the registered execution has finished (`execDone`)
example : (replay (prog 0) flags (init 2) (pre ++ [⟨4, .wWake⟩])).isNone = true := by decide
example : (replay (prog 0) flags (init 2) (pre ++ [⟨3, .cmdEnd 0 .ok⟩, ⟨4, .wWake⟩])).isNone = true := by decide
example : (replay (prog 0) flags (init 2) (pre ++ [⟨3, .cmdEnd 0 .ok⟩, ⟨3, .execDone⟩, ⟨4, .wWake⟩])).isSome = true := by decide
-- the monitors: accepted runs pass, the early wake-up is flagged
example : c01Verdict (prog 0) runOk = true := by decide
example : c01Verdict (prog 1) runFail = true := by decide
example : wakeAfterDone (pre ++ [⟨4, .wWake⟩]) [] [] [] = false := by decide
-- a command start before the dependency has exited is flagged
example : depsExitedBefore 1 1 (pre ++ [⟨1, .cmdStart 0 none false⟩]) [] [] = false := by decide

end Props.C01
