import Props.SchedTie
import TaskModel.Sched.DeferLemmas
import TaskModel.Sched.MonVal
import TaskModel.Sched.ProgInv
/-!
# C14 — Deferred commands always run, exactly once, in reverse order

Statements are about every trace the executor model accepts (`replay … = some c`): all
programs, flags, numbers and positions of `defer:` entries, failing positions and
interleavings with other activations.  Tie: the `sched` correspondence replays the event
log of the real executor through the same `replay`.

Which statements say what (audit, session 3).  `C14_before_return`, `C14_exit_code`, `C14_outcome_unchanged` restate
guards / definitions of the acceptor.  Trace-level: `C14_reverse_order`, `C14_all_run`, and — tying the acceptor's
bookkeeping to the PROGRAM — `C14_regs_are_program`, `C14_all_run_program`, `C14_all_run_complete`.
`C14_deferred_call_sees_exit_code`: semantics of the value monitor (`C02v`).
-/
namespace Props.C14
open TaskModel.Sched

/-- phases before the deferred entries start running -/
def preDefer : Phase → Bool
  | .defers | .finished | .execDoneP | .released | .done => false
  | .inShell _ d | .inCall _ d | .callReturned _ d => !d
  | _ => true

/-- phases before the command loop -/
def preBody : Phase → Bool
  | .early | .entered | .acquired | .wWaiting | .wReleased | .wWoken | .exec | .depsWait | .depsJoined | .guards => true
  | _ => false

/-- the deferred entry an activation is currently running, if any -/
def running : Phase → Option Nat
  | .inShell i true | .inCall i true | .callReturned i true => some i
  | _ => none

theorem running_callReturned (i : Nat) (d : Bool) : running (.callReturned i d) = running (.inCall i d) := by
  cases d <;> rfl
theorem preDefer_callReturned (i : Nat) (d : Bool) : preDefer (.callReturned i d) = preDefer (.inCall i d) := rfl

/-- model state ↔ monitor state -/
def R (last : Option Nat) (x : Act) : Prop :=
  Desc x.stack ∧
  (preDefer x.phase = true → last = none ∧ ∀ k ∈ x.stack, k < x.idx) ∧
  (∀ i, running x.phase = some i → last = some i ∧ ∃ s, x.stack = i :: s) ∧
  (running x.phase = none → ∀ j, last = some j → ∀ k ∈ x.stack, k < j) ∧
  (preBody x.phase = true → x.stack = [])

theorem R_fresh (P : Program) (F : Flags) (c : Config) (kind : Kind) (t : Nat) :
    R none (freshAct P F c kind t) := by
  obtain ⟨hph, hst, _, _, _, hidx, _⟩ := freshAct_fields P F c kind t
  refine ⟨by rw [hst]; trivial, ?_, ?_, ?_, fun _ => hst⟩
  · intro _; exact ⟨rfl, by rw [hst]; simp⟩
  · intro i hi; rcases hph with h | h <;> rw [h] at hi <;> simp [running] at hi
  · intro _ j hj; cases hj

theorem R_next (last : Option Nat) (x : Act) (cs : List Cmd) (i : Nat)
    (hd : Desc x.stack) (hl : last = none) (hb : ∀ k ∈ x.stack, k < i) : R last (x.next cs i) := by
  obtain ⟨h1, h2, h3, _⟩ := next_stack x cs i
  obtain ⟨a1, a2, _⟩ := advance_desc cs i x.regs x.stack hd hb
  subst hl
  refine ⟨by rw [h1]; exact a1, ?_, ?_, ?_, ?_⟩
  · intro _; exact ⟨rfl, by rw [h1, h3]; exact a2⟩
  · intro j hj
    rcases next_phase x cs i with h | ⟨h, _⟩ | ⟨h, _⟩ <;> rw [h] at hj <;> simp [running] at hj
  · intro _ j hj; cases hj
  · intro hh
    rcases next_phase x cs i with h | ⟨h, _⟩ | ⟨h, _⟩ <;> rw [h] at hh <;> simp [preBody] at hh

theorem R_afterDefer (x : Act) (i : Nat) (s : List Nat) (hd : Desc x.stack) (hs : x.stack = i :: s) :
    R (some i) x.afterDefer := by
  unfold Act.afterDefer
  rw [hs] at hd ⊢
  simp only
  refine ⟨hd.2, ?_, ?_, ?_, ?_⟩
  · intro h; split at h <;> simp [preDefer] at h
  · intro j hj; split at hj <;> simp [running] at hj
  · intro _ j hj k hk
    cases hj
    exact hd.1 k hk
  · intro h; split at h <;> simp [preBody] at h

theorem R_fail (last : Option Nat) (x : Act) (r : Res) (hd : Desc x.stack) (hl : last = none) :
    R last (x.fail r) := by
  subst hl
  unfold Act.fail
  refine ⟨hd, ?_, ?_, ?_, ?_⟩
  · intro h; simp only at h; split at h <;> simp [preDefer] at h
  · intro j hj; simp only at hj; split at hj <;> simp [running] at hj
  · intro _ j hj; cases hj
  · intro h; simp only at h; split at h <;> simp [preBody] at h

theorem R_afterCmd (last : Option Nat) (x : Act) (c : Cmd) (r : Res)
    (hd : Desc x.stack) (hl : last = none) (hb : ∀ k ∈ x.stack, k < x.idx) : R last (x.afterCmd c r) := by
  have hb' : ∀ k ∈ x.stack, k < x.idx + 1 := fun k hk => Nat.lt_succ_of_lt (hb k hk)
  unfold Act.afterCmd
  simp only
  split
  · exact R_next last x _ _ hd hl hb'
  · split
    · exact R_next last x _ _ hd hl hb'
    · exact R_fail last _ _ hd hl
  · exact R_fail last x _ hd hl

/-- a step that leaves the defer bookkeeping alone and does not move between the
body / deferred parts of the activation keeps the relation -/
theorem R_same (last : Option Nat) (x y : Act) (hs : y.stack = x.stack) (hi : y.idx = x.idx)
    (hp : preDefer y.phase = preDefer x.phase) (hr : running y.phase = running x.phase)
    (hb : preBody y.phase = true → preBody x.phase = true)
    (h : R last x) : R last y := by
  obtain ⟨h1, h2, h3, h4, h5⟩ := h
  refine ⟨by rw [hs]; exact h1, ?_, ?_, ?_, ?_⟩
  · intro hh; rw [hp] at hh; rw [hs, hi]; exact h2 hh
  · intro i hh; rw [hr] at hh; rw [hs]; exact h3 i hh
  · intro hh; rw [hr] at hh; rw [hs]; exact h4 hh
  · intro hh; rw [hs]; exact h5 (hb hh)

/-- leaving the body part of the activation without having run any deferred entry -/
theorem R_leave (last : Option Nat) (x y : Act) (hs : y.stack = x.stack)
    (hx : preDefer x.phase = true) (hy : preDefer y.phase = false) (hr : running y.phase = none)
    (hb : preBody y.phase = false) (h : R last x) : R last y := by
  obtain ⟨h1, h2, _, _, _⟩ := h
  obtain ⟨rfl, _⟩ := h2 hx
  refine ⟨by rw [hs]; exact h1, ?_, ?_, ?_, ?_⟩
  · intro hh; rw [hy] at hh; cases hh
  · intro i hi; rw [hr] at hi; cases hi
  · intro _ j hj; cases hj
  · intro hh; rw [hb] at hh; cases hh

/-- starting the deferred entry on top of the stack -/
theorem R_enterDefer (x y : Act) (j : Nat) (tail : List Nat) (hs : x.stack = j :: tail)
    (hy : y.stack = x.stack) (hr : running y.phase = some j) (hpd : preDefer y.phase = false)
    (hpb : preBody y.phase = false) (hd : Desc x.stack) : R (some j) y := by
  refine ⟨by rw [hy]; exact hd, ?_, ?_, ?_, ?_⟩
  · intro hh; rw [hpd] at hh; cases hh
  · intro i hi; rw [hr] at hi; cases hi; exact ⟨rfl, tail, by rw [hy, hs]⟩
  · intro hh; rw [hr] at hh; cases hh
  · intro hh; rw [hpb] at hh; cases hh

theorem mon_defer_ok (last : Option Nat) (x : Act) (j : Nat) (tail : List Nat) (hs : x.stack = j :: tail)
    (hidle : ∀ l, last = some l → ∀ k ∈ x.stack, k < l) :
    okAfter last j = true := by
  cases last with
  | none => rfl
  | some l => simpa [okAfter] using hidle l rfl j (by rw [hs]; exact List.mem_cons_self)

set_option maxHeartbeats 1000000 in
theorem R_local (F : Flags) (o : Obs) (last : Option Nat) (x : Act) (ev : Ev) (y : Act) (eff : Eff)
    (hR : R last x) (h : stepLocal F o x ev = some (y, eff)) :
    ∃ s', deferOrderMon.step last ev = some s' ∧ R s' y := by
  have hR' := hR
  obtain ⟨hd, hpre, hrun, hidle, hbody⟩ := hR
  unfold stepLocal at h
  split at h
  all_goals (try (rename_i hph; rw [hph] at hpre hrun hidle hbody))
  all_goals (try (simp only [preDefer, running, forall_const, reduceCtorEq, false_implies,
    implies_true, Option.some.injEq, forall_eq', Bool.not_true, Bool.not_false, Bool.false_eq_true, preBody] at hpre hrun hidle hbody))
  all_goals (try (repeat' split at h))
  all_goals (try cases h)
  all_goals (try (first
    | (refine ⟨last, rfl, R_same last x _ rfl rfl ?_ ?_ ?_ hR'⟩ <;> simp [preDefer, running, preBody, *]; done)
    | (refine ⟨last, rfl, R_leave last x _ rfl ?_ ?_ ?_ ?_ hR'⟩ <;> simp [preDefer, running, preBody, Act.stop, Act.stopDeps, *]; done)))
  -- guardsPassed
  · exact ⟨last, rfl, R_next last x _ 0 hd hpre.1 (by rw [hbody]; simp)⟩
  -- cmdStart (body)
  · rename_i hc
    simp only [Bool.and_eq_true, decide_eq_true_eq, Bool.not_eq_true'] at hc
    obtain ⟨⟨_, _⟩, rfl⟩ := hc
    refine ⟨last, rfl, R_same last x _ rfl rfl ?_ ?_ ?_ hR'⟩ <;> simp [preDefer, running, preBody, *]
  -- cmdEnd (body)
  · exact ⟨last, rfl, R_afterCmd last x _ _ hd hpre.1 hpre.2⟩
  -- callRelease (body)
  · rename_i hc
    simp only [Bool.and_eq_true, decide_eq_true_eq, Bool.not_eq_true'] at hc
    obtain ⟨_, rfl⟩ := hc
    refine ⟨last, rfl, R_same last x _ rfl rfl ?_ ?_ ?_ hR'⟩ <;> simp [preDefer, running, preBody, *]
  -- callRet
  · rename_i hij _ _ _
    have hij' : _ = _ := Decidable.not_not.mp hij
    subst hij'
    refine ⟨last, rfl, R_same last x _ rfl rfl ?_ ?_ ?_ hR'⟩ <;>
      simp [preDefer_callReturned, running_callReturned, preBody, *]
  -- callReacq after a deferred call
  · rename_i hd'
    subst hd'
    simp only [running, forall_eq', Option.some.injEq] at hrun
    obtain ⟨hl, s, hs⟩ := hrun
    refine ⟨last, rfl, ?_⟩
    rw [hl]
    exact R_afterDefer _ _ s hd hs
  -- callReacq after a call in the body
  · rename_i hd' _ _ _ _
    have hd'' : _ = false := Bool.eq_false_iff.mpr hd'
    subst hd''
    have := hpre rfl
    exact ⟨last, rfl, R_afterCmd last _ _ _ hd this.1 this.2⟩
  -- cmdStart of a deferred entry (EXIT_CODE set)
  · simp only at h
    split at h
    · rename_i hc
      have hs := ‹x.stack = _ :: _›
      cases h
      simp only [Bool.and_eq_true, decide_eq_true_eq] at hc
      obtain ⟨⟨rfl, _⟩, rfl⟩ := hc
      refine ⟨some _, ?_, R_enterDefer x _ _ _ hs rfl rfl rfl rfl hd⟩
      simp only [deferOrderMon]; rw [if_pos (mon_defer_ok last x _ _ hs hidle)]
    · cases h
  -- cmdStart of a deferred entry (no EXIT_CODE)
  · simp only at h
    split at h
    · rename_i hc
      have hs := ‹x.stack = _ :: _›
      cases h
      simp only [Bool.and_eq_true, decide_eq_true_eq] at hc
      obtain ⟨⟨rfl, _⟩, rfl⟩ := hc
      refine ⟨some _, ?_, R_enterDefer x _ _ _ hs rfl rfl rfl rfl hd⟩
      simp only [deferOrderMon]; rw [if_pos (mon_defer_ok last x _ _ hs hidle)]
    · cases h
  -- cmdEnd of a deferred entry
  · obtain ⟨hl, s, hs⟩ := hrun
    refine ⟨last, rfl, ?_⟩
    rw [hl]
    exact R_afterDefer _ _ s hd hs
  -- callRelease of a deferred call
  · rename_i hc
    have hs := ‹x.stack = _ :: _›
    simp only [Bool.and_eq_true, decide_eq_true_eq] at hc
    obtain ⟨rfl, rfl⟩ := hc
    refine ⟨some _, ?_, R_enterDefer x _ _ _ hs rfl rfl rfl rfl hd⟩
    simp only [deferOrderMon]; rw [if_pos (mon_defer_ok last x _ _ hs hidle)]

end Props.C14

namespace Props.C14
open TaskModel.Sched

theorem R_kids (last : Option Nat) (x : Act) (k : List (Nat × Nat)) (h : R last x) : R last { x with kids := k } := h

/-- **C14 (order, at most once).** In every run of every program — any number and
position of `defer:` entries, any failing command, any interleaving with other tasks,
any cancellation — the deferred entries of each activation start in strictly decreasing
index order: reverse order of registration, and none twice. -/
theorem C14_reverse_order (P : Program) (F : Flags) (n : Nat) (tr : List Label) (c : Config)
    (h : replay P F (init n) tr = some c) (a : Nat) :
    (deferOrderMon.run deferOrderMon.init (evsOf a tr)).isSome = true :=
  actMon_accepts deferOrderMon R P F
    (fun c kind t => ⟨none, rfl, R_fresh P F c kind t⟩)
    (fun o s x ev y eff hR hs => R_local F o s x ev y eff hR hs)
    R_kids n tr c h a

/-! ## every registered entry runs, exactly once, before the activation returns -/

/-- phases after the last deferred entry -/
def post : Phase → Bool
  | .finished | .execDoneP | .released | .done => true
  | _ => false

/-- bookkeeping invariant of one activation -/
def G (x : Act) : Prop :=
  (preDefer x.phase = true → x.ran = [] ∧ x.stack = x.regs.reverse) ∧
  x.ran ++ x.stack = x.regs.reverse ∧
  (post x.phase = true → x.stack = []) ∧
  (preBody x.phase = true → x.regs = [])

theorem G_fresh (P : Program) (F : Flags) (c : Config) (kind : Kind) (t : Nat) : G (freshAct P F c kind t) := by
  obtain ⟨hph, hst, hrg, hrn, _⟩ := freshAct_fields P F c kind t
  refine ⟨fun _ => ⟨hrn, by rw [hst, hrg]; rfl⟩, by rw [hst, hrg, hrn]; rfl, ?_, fun _ => hrg⟩
  intro hp; rcases hph with h | h <;> rw [h] at hp <;> cases hp

theorem G_next (x : Act) (cs : List Cmd) (i : Nat) (hr : x.ran = []) (hs : x.stack = x.regs.reverse) :
    G (x.next cs i) := by
  obtain ⟨h1, h2, _, h4, _⟩ := next_stack x cs i
  have hadv := advance_regs cs i x.regs x.stack hs
  have e : (x.next cs i).stack = (x.next cs i).regs.reverse := by rw [h1, h2]; exact hadv
  refine ⟨fun _ => ⟨by rw [h4]; exact hr, e⟩, by rw [h4, hr]; simpa using e, ?_, ?_⟩
  · intro hp
    rcases next_phase x cs i with h | ⟨h, _⟩ | ⟨_, h⟩
    · rw [h] at hp; cases hp
    · rw [h] at hp; cases hp
    · exact h
  · intro hp
    rcases next_phase x cs i with h | ⟨h, _⟩ | ⟨h, _⟩ <;> rw [h] at hp <;> cases hp

theorem G_fail (x : Act) (r : Res) (hr : x.ran = []) (hs : x.stack = x.regs.reverse) : G (x.fail r) := by
  unfold Act.fail
  refine ⟨?_, by simp [hr, hs], ?_, ?_⟩
  · intro _; exact ⟨hr, hs⟩
  · intro hp
    simp only at hp ⊢
    split at hp
    · rename_i he; simpa using he
    · cases hp
  · intro hp; simp only at hp; split at hp <;> cases hp

theorem G_afterCmd (x : Act) (c : Cmd) (r : Res) (hr : x.ran = []) (hs : x.stack = x.regs.reverse) :
    G (x.afterCmd c r) := by
  unfold Act.afterCmd
  simp only
  split
  · exact G_next x _ _ hr hs
  · split
    · exact G_next x _ _ hr hs
    · exact G_fail _ _ hr hs
  · exact G_fail x _ hr hs

theorem G_afterDefer (x : Act) (h : x.ran ++ x.stack = x.regs.reverse) : G x.afterDefer := by
  unfold Act.afterDefer
  split
  · rename_i he
    refine ⟨fun hp => (by simp [preDefer] at hp), (by simpa [he] using h), fun _ => he, fun hp => (by simp [preBody] at hp)⟩
  · rename_i i s he
    refine ⟨?_, by simpa [he] using h, ?_, ?_⟩
    · intro hp; simp only at hp; split at hp <;> cases hp
    · intro hp; simp only at hp ⊢; split at hp
      · rename_i hh; simpa using hh
      · cases hp
    · intro hp; simp only at hp; split at hp <;> cases hp

/-- steps that touch neither the defer bookkeeping nor cross a part boundary -/
theorem G_same (x y : Act) (h1 : y.ran = x.ran) (h2 : y.stack = x.stack) (h3 : y.regs = x.regs)
    (hp : preDefer y.phase = true → preDefer x.phase = true)
    (hq : post y.phase = true → post x.phase = true ∨ preBody x.phase = true)
    (hb : preBody y.phase = true → preBody x.phase = true)
    (h : G x) : G y := by
  obtain ⟨a, b, c, d⟩ := h
  refine ⟨fun hh => by rw [h1, h2, h3]; exact a (hp hh), by rw [h1, h2, h3]; exact b, ?_, ?_⟩
  · intro hh
    rw [h2]
    rcases hq hh with h' | h'
    · exact c h'
    · have hr := d h'
      have : preDefer x.phase = true := by
        revert h'; cases x.phase <;> simp [preBody, preDefer]
      rw [(a this).2, hr]; rfl
  · intro hh; rw [h3]; exact d (hb hh)

set_option maxHeartbeats 1000000 in
theorem G_local (F : Flags) (o : Obs) (x : Act) (ev : Ev) (y : Act) (eff : Eff)
    (hG : G x) (h : stepLocal F o x ev = some (y, eff)) : G y := by
  have hG' := hG
  obtain ⟨hpre, hsum, hpost, hbody⟩ := hG
  unfold stepLocal at h
  split at h
  all_goals (try (rename_i hph; rw [hph] at hpre hpost hbody))
  all_goals (try (simp only [preDefer, post, preBody, forall_const, reduceCtorEq, false_implies,
    Bool.not_true, Bool.not_false, Bool.false_eq_true] at hpre hpost hbody))
  all_goals (try (repeat' split at h))
  all_goals (try cases h)
  all_goals (try (first
    | (refine G_same x _ rfl rfl rfl ?_ ?_ ?_ hG' <;> simp [preDefer, post, preBody, Act.stop, Act.stopDeps, *]; done)))
  -- guardsPassed
  · exact G_next x _ 0 hpre.1 hpre.2
  -- cmdEnd (body)
  · exact G_afterCmd x _ _ hpre.1 hpre.2
  -- callReacq after a deferred call
  · exact G_afterDefer _ hsum
  -- callReacq after a call in the body
  · rename_i hd' _ _ _ _
    have hd'' : _ = false := Bool.eq_false_iff.mpr hd'
    subst hd''
    have := hpre rfl
    exact G_afterCmd _ _ _ this.1 this.2
  -- cmdStart of a deferred entry
  · simp only at h
    split at h
    · cases h
      refine G_same x _ rfl rfl rfl ?_ ?_ ?_ hG' <;> simp [preDefer, post, preBody, *]
    · cases h
  · simp only at h
    split at h
    · cases h
      refine G_same x _ rfl rfl rfl ?_ ?_ ?_ hG' <;> simp [preDefer, post, preBody, *]
    · cases h
  -- cmdEnd of a deferred entry
  · exact G_afterDefer _ hsum

theorem G_kids (x : Act) (k : List (Nat × Nat)) (h : G x) : G { x with kids := k } := h

/-- **C14 (always, exactly once, before returning).** Whenever an activation has
finished its deferred part (in particular when it has returned to its caller), the
deferred entries it has run are exactly the entries it registered, in reverse order —
whether its body succeeded, failed or was cancelled. -/
theorem C14_all_run (P : Program) (F : Flags) (n : Nat) (tr : List Label) (c : Config)
    (h : replay P F (init n) tr = some c) (a : Nat) (x : Act) (hx : c.act? a = some x)
    (hp : post x.phase = true) : x.ran = x.regs.reverse := by
  have hg := localInv_sound G P F (G_fresh P F) (fun o x ev y eff => G_local F o x ev y eff) G_kids n tr c h a x hx
  obtain ⟨_, hsum, hpost, _⟩ := hg
  rw [hpost hp] at hsum
  simpa using hsum

/-- an activation that has not finished its deferred part has not returned: `exit` is
only accepted afterwards (the caller continues only after `exit`, see `kidDone`) -/
theorem C14_before_return (x : Act) (h : x.phase = .done) : post x.phase = true := by rw [h]; rfl

/-- **C14 (outcome).** Running a deferred entry never changes the activation's result
or the exit code it exposes: whatever a deferred command or task does, `res` and
`exitCode` are those fixed when the body stopped. -/
theorem C14_outcome_unchanged (x : Act) : x.afterDefer.res = x.res ∧ x.afterDefer.exitCode = x.exitCode := by
  unfold Act.afterDefer; split <;> simp

/-- **C14 (EXIT_CODE).** A deferred shell entry is accepted only if the `EXIT_CODE` it was
rendered with is the exit status recorded when the body failed (none if it did not). -/
theorem C14_exit_code (F : Flags) (o : Obs) (x y : Act) (eff : Eff) (i : Nat) (seen : Option Nat)
    (hph : x.phase = .defers) (h : stepLocal F o x (.cmdStart i seen true) = some (y, eff)) :
    seen = (if x.exitCode > 0 then some x.exitCode else none) := by
  unfold stepLocal at h
  simp only [hph] at h
  repeat' split at h
  all_goals (try (cases h; done))
  all_goals simp_all

/-- the exit status exposed to deferred entries is the one of the command that stopped the body -/
theorem C14_exit_code_recorded (x : Act) (c : Cmd) (n : Nat) (hc : ¬ (∃ k d, c = .shell k true d))
    (hi : x.def_.ignoreError = false) : (x.afterCmd c (.exit n)).exitCode = n % 256 := by
  cases c with
  | shell k ie d =>
    cases ie with
    | true => exact absurd ⟨k, d, rfl⟩ hc
    | false => simp [Act.afterCmd, hi, Act.fail]
  | call t d => simp [Act.afterCmd, hi, Act.fail]

/-! ## non-vacuity: a concrete run with two deferred entries and a failing command -/

private def prog : Program :=
  [{ cmds := [.shell 0 false true, .shell 0 false false, .shell 0 false true, .shell 3 false false, .shell 0 false false] }]

private def run1 : List Label :=
  [⟨1, .enter (.top 0) 0⟩, ⟨1, .acquire⟩, ⟨1, .depsRelease⟩, ⟨1, .depsReacq⟩, ⟨1, .depsDone .ok⟩, ⟨1, .guardsPassed⟩,
   ⟨1, .cmdStart 1 none false⟩, ⟨1, .cmdEnd 1 .ok⟩, ⟨1, .cmdStart 3 none false⟩, ⟨1, .cmdEnd 3 (.exit 3)⟩,
   ⟨1, .cmdStart 2 (some 3) true⟩, ⟨1, .cmdEnd 2 .ok⟩, ⟨1, .cmdStart 0 (some 3) true⟩, ⟨1, .cmdEnd 0 .ok⟩,
   ⟨1, .release⟩, ⟨1, .exit⟩]

example : ((replay prog {} (init 1) run1).bind (fun c => c.act? 1)).map (fun x => (x.ran, x.regs, x.res, x.phase))
    = some ([2, 0], [0, 2], .run (.exit 3), .done) := by decide
-- running the deferred entries in registration order is rejected
example : (replay prog {} (init 1) (run1.take 10 ++ [⟨1, .cmdStart 0 (some 3) true⟩])).isNone = true := by decide

/-! ## deferred `task:` entries see the exit code too

What a reference hands to its callee is not part of the acceptor; `Sched.MonVal` computes it alongside
the acceptor's own `step` (`valsOf`) and the driver compares it with what the callee's commands printed
(verdict `C02v`).  For a deferred `task:` entry written `vars: {V: '{{.EXIT_CODE}}'}` the expected value
is read off the deferring activation at the moment the deferred call enters. -/

/-- **C14 (EXIT_CODE reaches a deferred task call).** The value a deferred `task:` entry passing
`{{.EXIT_CODE}}` hands to its callee is the exit status recorded when the body failed — the same
`Act.exitCode` a deferred shell entry is rendered with (`C14_exit_code`, `C14_exit_code_recorded`) — and
the empty string if the body did not fail with an exit status. -/
theorem C14_deferred_call_sees_exit_code (Ps : Passes) (c : Config) (vals : List (Nat × Nat)) (p i : Nat) (px : Act)
    (hp : c.act? p = some px) (hpass : cmdPass Ps px.task i = .exitCode) :
    expectedVal Ps c vals (.call p i true) = (if px.exitCode > 0 then valNum px.exitCode else valEmpty) := by
  simp [expectedVal, hp, hpass, passVal]

/-- … whatever the deferring activation was called with itself, and a variable of the deferring task
arrives as that task's -/
theorem C14_deferred_call_sees_local (Ps : Passes) (c : Config) (vals : List (Nat × Nat)) (p i : Nat) (px : Act)
    (hp : c.act? p = some px) (hpass : cmdPass Ps px.task i = .local_) :
    expectedVal Ps c vals (.call p i true) = valLocal px.task := by
  simp [expectedVal, hp, hpass, passVal]

/-- non-vacuity: task 0 fails with status 3; its deferred call of task 1 passes `{{.EXIT_CODE}}`; the callee's
command must have printed `3` (`valNum 3`), and a log in which it printed nothing fails the monitor -/
private def progD : Program :=
  [{ cmds := [.call 1 true, .shell 3 false false] }, { cmds := [.shell 0 false false] }]
private def passD : Passes := [{ cmds := [.exitCode, .none] }, { cmds := [.none] }]
private def runD : List Label :=
  [⟨1, .enter (.top 0) 0⟩, ⟨1, .acquire⟩, ⟨1, .depsRelease⟩, ⟨1, .depsReacq⟩, ⟨1, .depsDone .ok⟩, ⟨1, .guardsPassed⟩,
   ⟨1, .cmdStart 1 none false⟩, ⟨1, .cmdEnd 1 (.exit 3)⟩, ⟨1, .callRelease 0 true⟩,
   ⟨2, .enter (.call 1 0 true) 1⟩, ⟨2, .acquire⟩, ⟨2, .depsRelease⟩, ⟨2, .depsReacq⟩, ⟨2, .depsDone .ok⟩, ⟨2, .guardsPassed⟩,
   ⟨2, .cmdStart 0 none false⟩, ⟨2, .cmdEnd 0 .ok⟩, ⟨2, .release⟩, ⟨2, .exit⟩,
   ⟨1, .callRet 0⟩, ⟨1, .callReacq 0⟩, ⟨1, .release⟩, ⟨1, .exit⟩]
example : (replay progD {} (init 1) runD).isSome = true := by decide
example : valMon passD progD {} 1 runD [(2, valNum 3), (1, 0)] = true := by decide
example : valMon passD progD {} 1 runD [(2, 0)] = false := by decide

/-! ## what was registered, read off the PROGRAM (trace-level, every reachable configuration)

`C14_all_run` says `ran = regs.reverse` — about the acceptor's own bookkeeping.  `S2.ProgInv` ties the
bookkeeping to the task's command list, so the statement becomes one about the program. -/

/-- **C14 (the registered entries are the program's).** In every reachable configuration the deferred entries an
activation has registered are exactly the `defer:` entries of its task's command list below the position its
command loop has reached, in order — none is missed, none registered twice. -/
theorem C14_regs_are_program (P : Program) (F : Flags) (n : Nat) (tr : List Label) (c : Config)
    (h : replay P F (init n) tr = some c) (a : Nat) (x : Act) (hx : c.act? a = some x) :
    x.regs = defersBelow x.def_.cmds x.idx :=
  (S2.ProgInv_sound P F n tr c h a x hx).regs

/-- **C14 (all of them run, in reverse order — program form).** An activation that has finished its deferred
part has run exactly the `defer:` entries of the command list below the position where its body stopped, last
one first — whether the body succeeded, failed or was cancelled. -/
theorem C14_all_run_program (P : Program) (F : Flags) (n : Nat) (tr : List Label) (c : Config)
    (h : replay P F (init n) tr = some c) (a : Nat) (x : Act) (hx : c.act? a = some x)
    (hp : post x.phase = true) : x.ran = (defersBelow x.def_.cmds x.idx).reverse := by
  rw [C14_all_run P F n tr c h a x hx hp, C14_regs_are_program P F n tr c h a x hx]

/-- … and when the body ran to its end without a failure: EVERY `defer:` entry of the task -/
theorem C14_all_run_complete (P : Program) (F : Flags) (n : Nat) (tr : List Label) (c : Config)
    (h : replay P F (init n) tr = some c) (a : Nat) (x : Act) (hx : c.act? a = some x)
    (hg : Ev.guardsPassed ∈ evsOf a tr) (hp : post x.phase = true) (ho : x.out = {}) :
    x.ran = (defersBelow x.def_.cmds x.def_.cmds.length).reverse := by
  have hpl : S2.postLoop x.phase = true := by
    cases hph : x.phase <;> rw [hph] at hp <;> first | (cases hp; done) | rfl
  obtain ⟨_, _, hr⟩ := S2.loop_complete P F n tr c h a x hx hg hpl ho
  rw [C14_all_run P F n tr c h a x hx hp, hr]

example : defersBelow prog.head!.cmds 5 = [0, 2] ∧ plainBelow prog.head!.cmds 5 = [1, 3, 4] := by decide

end Props.C14
