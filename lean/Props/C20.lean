import TaskModel.Remote.Lemmas
import TaskModel.Remote.Tie
/-!
# C20 — Remote Taskfiles: nothing unapproved runs, and the cache keeps tasks runnable

Property theorems only; the model is `TaskModel.Remote.Model` (`invoke`, the repaired
fallback rule of fix F16), helper lemmas are in `TaskModel.Remote.Lemmas`, the tie to the
source text is `TaskModel.Remote.Tie` (`remote_skeleton_ok` …, regenerated on every run)
plus the correspondence domain `remote` (harness/remote.go: the real CLI against a loopback
HTTP server over sequences of server states × flags × prompt answers).

All statements are over **arbitrary histories** (`List Step`, no length bound) starting
from the empty cache, and over an arbitrary checksum function `sha` — nothing is assumed
about it.  What is proved is about *checksums*: "the checksum of what runs is the approved
one".  That an approved checksum stands for approved *content* is collision resistance of
SHA-256, outside the model.
-/
namespace Props.C20
open TaskModel.Remote

/-- history invariant: a cached copy, when present, is one whose checksum is the approved one -/
def Inv (sha : Content → Sum) (s : RState) : Prop := ∀ u, EInv sha (s.ent u)

theorem inv_init (sha) : Inv sha RState.init := fun _ => EInv_empty sha

theorem inv_invokeWith (legacy sha s st) (h : Inv sha s) : Inv sha (invokeWith legacy sha s st).2 := by
  intro v
  cases hg : gate st with
  | some code => rw [invokeWith_gate _ _ _ _ _ hg]; exact h v
  | none =>
    have hw : ∀ v, EInv sha (((s.tick st.dt).set st.url.id (stepRead legacy sha s st).2).ent v) := by
      intro v
      by_cases hv : v = st.url.id
      · subst hv; rw [set_ent_same]; exact readRemote_EInv _ _ _ _ _ _ _ (h _)
      · rw [set_ent_other _ _ _ _ hv]; exact h v
    cases hc : st.flags.clearCache with
    | false => rw [invokeWith_open _ _ _ _ hg hc]; exact hw v
    | true =>
      rcases invokeWith_clear legacy sha s st hg hc with ⟨c, _, he⟩ | ⟨_, he⟩
      · rw [he]; exact EInv_empty sha
      · rw [he]; exact hw v

theorem inv_runWith (legacy sha) (h : List Step) : ∀ s, Inv sha s → Inv sha (runWith legacy sha s h).2 := by
  induction h with
  | nil => intro s hs; exact hs
  | cons st rest ih =>
    intro s hs
    simp only [runWith]
    exact ih _ (inv_invokeWith legacy sha s st hs)

/-- the invariant holds after every history -/
theorem inv_reach (sha) (h : List Step) : Inv sha (reach sha h) :=
  inv_runWith false sha h _ (inv_init sha)

/-! ## Trust -/

/-- What C20 demands of one invocation `st` made in state `s` (`u` = the URL's cache slot). -/
structure TrustStep (sha : Content → Sum) (s : RState) (st : Step) : Prop where
  /-- content handed on for execution has the checksum that is the approved one at that moment -/
  ran_is_approved : ∀ c, (invoke sha s st).1 = .run c →
    ((invoke sha s st).2.ent st.url.id).sum = some (sha c)
  /-- … and that checksum was approved before, or is approved in this very invocation -/
  ran_new_needs_approval : ∀ c, (invoke sha s st).1 = .run c →
    (s.ent st.url.id).sum = some (sha c) ∨ approves st.flags st.answer = true
  /-- the approved checksum of any URL changes only in an invocation for that URL in which the
  user accepted the prompt or gave `--yes`, to the checksum of the content just downloaded
  (which is then what runs) — or the whole cache is dropped by `--clear-cache` -/
  change_needs_approval : ∀ v, ((invoke sha s st).2.ent v).sum ≠ (s.ent v).sum →
    (v = st.url.id ∧ approves st.flags st.answer = true ∧
      ∃ c, net st.flags st.server = .content c ∧ (invoke sha s st).1 = .run c ∧
        ((invoke sha s st).2.ent v).sum = some (sha c)) ∨
    (st.flags.clearCache = true ∧ (invoke sha s st).1 = .cleared ∧ ((invoke sha s st).2.ent v).sum = none)
  /-- new or changed content without approval: exit code 104, nothing handed on, no cache
  file of any URL touched -/
  unapproved_refused : ∀ c, gate st = none →
    wantsFetch (s.now + st.dt) (s.ent st.url.id) st.flags = true →
    net st.flags st.server = .content c → (s.ent st.url.id).sum ≠ some (sha c) →
    approves st.flags st.answer = false →
    (invoke sha s st).1 = .error 104 ∧ ∀ v, (invoke sha s st).2.ent v = s.ent v

private theorem stepRead_unapproved (legacy sha s st c)
    (hw : wantsFetch (s.now + st.dt) (s.ent st.url.id) st.flags = true)
    (hn : net st.flags st.server = .content c) (hs : (s.ent st.url.id).sum ≠ some (sha c))
    (ha : approves st.flags st.answer = false) :
    stepRead legacy sha s st = (.error 104, s.ent st.url.id) := by
  unfold stepRead
  rw [readRemote_of_wantsFetch _ _ _ _ _ _ _ hw, hn]
  have hp : needsPrompt (s.ent st.url.id) (sha c) = true := by
    cases hp : needsPrompt (s.ent st.url.id) (sha c) with
    | true => rfl
    | false => exact absurd ((needsPrompt_false_iff _ _).mp hp) hs
  simp [fetch, hp, ha]

/-- the result is `run c` only through the open gate, without `--clear-cache`, from `stepRead` -/
private theorem run_inv (legacy sha s st c) (h : (invokeWith legacy sha s st).1 = .run c) :
    gate st = none ∧ st.flags.clearCache = false ∧
    invokeWith legacy sha s st =
      ((stepRead legacy sha s st).1, (s.tick st.dt).set st.url.id (stepRead legacy sha s st).2) := by
  cases hg : gate st with
  | some code => rw [invokeWith_gate _ _ _ _ _ hg] at h; cases h
  | none =>
    cases hc : st.flags.clearCache with
    | false => exact ⟨rfl, rfl, invokeWith_open _ _ _ _ hg hc⟩
    | true =>
      rcases invokeWith_clear legacy sha s st hg hc with ⟨c', _, he⟩ | ⟨hne, he⟩
      · rw [he] at h; cases h
      · rw [he] at h; exact absurd h (hne c)

theorem trustStep_of_inv (legacy : Bool) (sha : Content → Sum) (s : RState) (st : Step) (hi : Inv sha s) :
    (∀ c, (invokeWith legacy sha s st).1 = .run c →
      ((invokeWith legacy sha s st).2.ent st.url.id).sum = some (sha c) ∧
      ((s.ent st.url.id).sum = some (sha c) ∨ approves st.flags st.answer = true)) := by
  intro c h
  obtain ⟨_, _, he⟩ := run_inv legacy sha s st c h
  rw [he] at h ⊢
  simp only [set_ent_same]
  simp only at h
  rcases readRemote_spec legacy sha (s.now + st.dt) (s.ent st.url.id) st.flags
      (net st.flags st.server) st.answer with ⟨h1, h2⟩ | ⟨_, c', _, h2, h3, h4⟩
  · have hc := hi _ c (h2 c h)
    unfold stepRead
    rw [h1]
    exact ⟨hc, Or.inl hc⟩
  · unfold stepRead at h ⊢
    rw [h2] at h
    cases h
    rw [h3]
    exact ⟨rfl, h4⟩

theorem change_of_inv (legacy : Bool) (sha : Content → Sum) (s : RState) (st : Step) (v : Nat)
    (h : ((invokeWith legacy sha s st).2.ent v).sum ≠ (s.ent v).sum) :
    (v = st.url.id ∧ approves st.flags st.answer = true ∧
      ∃ c, net st.flags st.server = .content c ∧ (invokeWith legacy sha s st).1 = .run c ∧
        ((invokeWith legacy sha s st).2.ent v).sum = some (sha c)) ∨
    (st.flags.clearCache = true ∧ (invokeWith legacy sha s st).1 = .cleared ∧
      ((invokeWith legacy sha s st).2.ent v).sum = none) := by
  cases hg : gate st with
  | some code => rw [invokeWith_gate _ _ _ _ _ hg] at h; exact absurd rfl h
  | none =>
    have main : ∀ (he : invokeWith legacy sha s st =
        ((stepRead legacy sha s st).1, (s.tick st.dt).set st.url.id (stepRead legacy sha s st).2)),
        (v = st.url.id ∧ approves st.flags st.answer = true ∧
          ∃ c, net st.flags st.server = .content c ∧ (invokeWith legacy sha s st).1 = .run c ∧
            ((invokeWith legacy sha s st).2.ent v).sum = some (sha c)) := by
      intro he
      rw [he] at h ⊢
      by_cases hv : v = st.url.id
      · subst hv
        simp only [set_ent_same] at h ⊢
        rcases readRemote_spec legacy sha (s.now + st.dt) (s.ent st.url.id) st.flags
            (net st.flags st.server) st.answer with ⟨h1, _⟩ | ⟨_, c', hn, h2, h3, h4⟩
        · unfold stepRead at h; rw [h1] at h; exact absurd rfl h
        · unfold stepRead at h ⊢
          rw [h3] at h ⊢
          refine ⟨trivial, ?_, c', hn, h2, rfl⟩
          rcases h4 with h4 | h4
          · simp only [written_sum] at h; exact absurd h4.symm h
          · exact h4
      · rw [set_ent_other _ _ _ _ hv] at h; exact absurd rfl h
    cases hc : st.flags.clearCache with
    | false => exact Or.inl (main (invokeWith_open _ _ _ _ hg hc))
    | true =>
      rcases invokeWith_clear legacy sha s st hg hc with ⟨c, _, he⟩ | ⟨_, he⟩
      · right; rw [he]; exact ⟨rfl, rfl, rfl⟩
      · exact Or.inl (main he)

theorem unapproved_of (legacy : Bool) (sha : Content → Sum) (s : RState) (st : Step) (c : Content)
    (hg : gate st = none)
    (hw : wantsFetch (s.now + st.dt) (s.ent st.url.id) st.flags = true)
    (hn : net st.flags st.server = .content c) (hs : (s.ent st.url.id).sum ≠ some (sha c))
    (ha : approves st.flags st.answer = false) :
    (invokeWith legacy sha s st).1 = .error 104 ∧ ∀ v, (invokeWith legacy sha s st).2.ent v = s.ent v := by
  have hr := stepRead_unapproved legacy sha s st c hw hn hs ha
  have he : invokeWith legacy sha s st =
      ((stepRead legacy sha s st).1, (s.tick st.dt).set st.url.id (stepRead legacy sha s st).2) := by
    cases hc : st.flags.clearCache with
    | false => exact invokeWith_open _ _ _ _ hg hc
    | true =>
      rcases invokeWith_clear legacy sha s st hg hc with ⟨c', h1, _⟩ | ⟨_, he⟩
      · rw [hr] at h1; cases h1
      · exact he
  rw [he, hr]
  refine ⟨rfl, fun v => ?_⟩
  by_cases hv : v = st.url.id
  · subst hv; simp
  · simp [set_ent_other _ _ _ _ hv]

theorem trustStep (sha : Content → Sum) (s : RState) (st : Step) (hi : Inv sha s) : TrustStep sha s st where
  ran_is_approved c h := (trustStep_of_inv false sha s st hi c h).1
  ran_new_needs_approval c h := (trustStep_of_inv false sha s st hi c h).2
  change_needs_approval v h := change_of_inv false sha s st v h
  unapproved_refused c hg hw hn hs ha := unapproved_of false sha s st c hg hw hn hs ha

/-- **C20_trust**: after *every* history, whatever the next invocation is (any flags, any
server state, any answer): content is handed on for execution only with the approved
checksum, the approved checksum changes only under an accepted prompt or `--yes` in the same
invocation, and unapproved new or changed content ends in 104 with nothing run and the cache
untouched. -/
theorem C20_trust (sha : Content → Sum) (h : List Step) (st : Step) : TrustStep sha (reach sha h) st :=
  trustStep sha _ st (inv_reach sha h)

/-- `P` holds at every step along a history run from `s` -/
def Always (sha : Content → Sum) (P : RState → Step → Prop) : RState → List Step → Prop
  | _, [] => True
  | s, st :: rest => P s st ∧ Always sha P (invoke sha s st).2 rest

/-- the same, as a statement about every step *inside* an arbitrary history -/
theorem C20_trust_always (sha : Content → Sum) (h : List Step) :
    Always sha (TrustStep sha) RState.init h := by
  suffices ∀ s, Inv sha s → Always sha (TrustStep sha) s h from this _ (inv_init sha)
  induction h with
  | nil => intro _ _; trivial
  | cons st rest ih =>
    intro s hs
    exact ⟨trustStep sha s st hs, ih _ (inv_invokeWith false sha s st hs)⟩

/-- the trust clauses hold for the fallback rule as it was written, too (F16 changes availability only) -/
theorem C20_trust_legacy (sha : Content → Sum) (h : List Step) (s : RState)
    (hs : s = (runWith true sha RState.init h).2) (st : Step) (c : Content)
    (hr : (invokeWith true sha s st).1 = .run c) :
    ((invokeWith true sha s st).2.ent st.url.id).sum = some (sha c) ∧
    ((s.ent st.url.id).sum = some (sha c) ∨ approves st.flags st.answer = true) :=
  trustStep_of_inv true sha s st (hs ▸ inv_runWith true sha h _ (inv_init sha)) c hr

/-- an invocation for one URL never touches the cache files of another (unless it clears all) -/
theorem C20_frame (sha : Content → Sum) (s : RState) (st : Step) (v : Nat) (hv : v ≠ st.url.id)
    (hc : (invoke sha s st).1 ≠ .cleared) : (invoke sha s st).2.ent v = s.ent v := by
  unfold invoke at hc ⊢
  cases hg : gate st with
  | some code => rw [invokeWith_gate _ _ _ _ _ hg]; rfl
  | none =>
    cases hcl : st.flags.clearCache with
    | false => rw [invokeWith_open _ _ _ _ hg hcl]; exact set_ent_other _ _ _ _ hv
    | true =>
      rcases invokeWith_clear false sha s st hg hcl with ⟨c, _, he⟩ | ⟨_, he⟩
      · rw [he] at hc; exact absurd rfl hc
      · rw [he]; exact set_ent_other _ _ _ _ hv

/-! ## Plain http -/

/-- **C20_http**: plain `http://` without `--insecure` is refused — with 105 (with the
remote-Taskfiles experiment switched off: with the generic exit code 1, like every remote
Taskfile) — whatever the cache holds, whatever the server would do, whatever is answered:
the result does not depend on them and the cache is not touched (the check is made when the
node is created, before any cache or network access).  (`flagsOk`: the command line passed
`flags.Validate`.) -/
theorem C20_http (sha : Content → Sum) (s : RState) (st : Step)
    (hf : flagsOk st.flags = true) (hh : st.url.https = false) (hi : st.flags.insecure = false) :
    invoke sha s st = (.error (if st.flags.experiment then 105 else 1), s.tick st.dt) := by
  apply invokeWith_gate
  cases hx : st.flags.experiment <;> simp [gate, hf, hh, hi, hx]

/-- without the experiment nothing remote is read at all -/
theorem C20_experiment_off (sha : Content → Sum) (s : RState) (st : Step)
    (hx : st.flags.experiment = false) : invoke sha s st = (.error 1, s.tick st.dt) := by
  apply invokeWith_gate
  cases hf : flagsOk st.flags <;> simp [gate, hf, hx]

/-- … conversely 105 is given for nothing else -/
theorem C20_http_only (sha : Content → Sum) (s : RState) (st : Step)
    (h : (invoke sha s st).1 = .error 105) : st.url.https = false ∧ st.flags.insecure = false := by
  unfold invoke at h
  cases hg : gate st with
  | some code =>
    rw [invokeWith_gate _ _ _ _ _ hg] at h
    unfold gate at hg
    cases hh : st.url.https <;> cases hi : st.flags.insecure <;>
      cases hf : flagsOk st.flags <;> cases hx : st.flags.experiment <;> simp_all
  | none =>
    exfalso
    have hne : (stepRead false sha s st).1 ≠ .error 105 := by
      intro h'
      have := readRemote_error_codes _ _ _ _ _ _ _ _ h'
      omega
    cases hc : st.flags.clearCache with
    | false => rw [invokeWith_open _ _ _ _ hg hc] at h; exact hne h
    | true =>
      rcases invokeWith_clear false sha s st hg hc with ⟨c, _, he⟩ | ⟨_, he⟩
      · rw [he] at h; cases h
      · rw [he] at h; exact hne h

/-! ## Offline and availability -/

/-- the network gives no content: connection refused / reset, HTTP error, or stalled past `--timeout` -/
def Unavailable (st : Step) : Prop := ∀ c, net st.flags st.server ≠ .content c

/-- **C20_offline**: with a cached copy `c` (approved, by the invariant), `--offline` runs
exactly `c` — for every expiry, clock, server state and answer — and touches nothing. -/
theorem C20_offline (sha : Content → Sum) (h : List Step) (st : Step) (c : Content)
    (hg : gate st = none) (ho : st.flags.offline = true) (hcl : st.flags.clearCache = false)
    (hc : ((reach sha h).ent st.url.id).content = some c) :
    (invoke sha (reach sha h) st).1 = .run c ∧
    ((reach sha h).ent st.url.id).sum = some (sha c) ∧
    ∀ v, (invoke sha (reach sha h) st).2.ent v = (reach sha h).ent v := by
  have hok := ((gate_none_iff st).mp hg).1
  have hd : st.flags.download = false := by
    cases hd : st.flags.download with
    | false => rfl
    | true => simp [flagsOk, hd, ho] at hok
  have hw : wantsFetch ((reach sha h).now + st.dt) ((reach sha h).ent st.url.id) st.flags = false := by
    simp [wantsFetch, hc, ho, hd]
  have hr : stepRead false sha (reach sha h) st = (.run c, (reach sha h).ent st.url.id) := by
    unfold stepRead
    rw [readRemote_of_not_wantsFetch _ _ _ _ _ _ _ hw, hc]
  unfold invoke
  rw [invokeWith_open _ _ _ _ hg hcl, hr]
  refine ⟨rfl, inv_reach sha h _ c hc, fun v => ?_⟩
  by_cases hv : v = st.url.id
  · subst hv; simp
  · simp [set_ent_other _ _ _ _ hv]

/-- The availability half of C20 at full strength, as a statement about a fallback rule:
whenever the network gives no content (refused **or** stalled **or** HTTP error) and a
cached copy exists, that copy is what runs, and the cache is left as it is. -/
def C20_available_full (legacy : Bool) : Prop :=
  ∀ (sha : Content → Sum) (s : RState) (st : Step) (c : Content),
    gate st = none → st.flags.clearCache = false → Unavailable st →
    (s.ent st.url.id).content = some c →
    (invokeWith legacy sha s st).1 = .run c ∧ ∀ v, (invokeWith legacy sha s st).2.ent v = s.ent v

private theorem stepRead_unavailable (legacy sha s st c) (hu : Unavailable st)
    (hc : (s.ent st.url.id).content = some c)
    (hl : legacy = false ∨ net st.flags st.server = .timedOut ∨
      wantsFetch (s.now + st.dt) (s.ent st.url.id) st.flags = false) :
    stepRead legacy sha s st = (.run c, s.ent st.url.id) := by
  unfold stepRead
  cases hw : wantsFetch (s.now + st.dt) (s.ent st.url.id) st.flags with
  | false => rw [readRemote_of_not_wantsFetch _ _ _ _ _ _ _ hw, hc]
  | true =>
    rw [readRemote_of_wantsFetch _ _ _ _ _ _ _ hw, hc]
    cases hn : net st.flags st.server with
    | content c' => exact absurd hn (hu c')
    | timedOut => simp [fetch]
    | failed k =>
      rcases hl with hl | hl | hl
      · subst hl; simp [fetch]
      · rw [hn] at hl; cases hl
      · rw [hw] at hl; cases hl

private theorem available_of_stepRead (legacy sha s st c) (hg : gate st = none)
    (hcl : st.flags.clearCache = false)
    (hr : stepRead legacy sha s st = (.run c, s.ent st.url.id)) :
    (invokeWith legacy sha s st).1 = .run c ∧ ∀ v, (invokeWith legacy sha s st).2.ent v = s.ent v := by
  rw [invokeWith_open _ _ _ _ hg hcl, hr]
  refine ⟨rfl, fun v => ?_⟩
  by_cases hv : v = st.url.id
  · subst hv; simp
  · simp [set_ent_other _ _ _ _ hv]

/-- **C20_available** (for the repaired rule, fix F16): in full. -/
theorem C20_available : C20_available_full false := by
  intro sha s st c hg hcl hu hc
  exact available_of_stepRead _ _ _ _ _ hg hcl (stepRead_unavailable false sha s st c hu hc (Or.inl rfl))

/-- … and over histories: after any history, if a copy of the URL is cached it is an approved
one and it runs when the network is unavailable. -/
theorem C20_available_reach (sha : Content → Sum) (h : List Step) (st : Step) (c : Content)
    (hg : gate st = none) (hcl : st.flags.clearCache = false) (hu : Unavailable st)
    (hc : ((reach sha h).ent st.url.id).content = some c) :
    (invoke sha (reach sha h) st).1 = .run c ∧ ((reach sha h).ent st.url.id).sum = some (sha c) :=
  ⟨(C20_available sha _ st c hg hcl hu hc).1, inv_reach sha h _ c hc⟩

/-! ### The rule as it was written (`ctx.Err() != nil && cacheFound`) -/

private def yesFlags : RFlags :=
  { yes := true, download := false, offline := false, insecure := true, expiry := 0,
    patient := false, clearCache := false, experiment := true }
private def url0 : Url := ⟨0, false⟩
/-- download and approve version 1, default expiry -/
private def stGet : Step := ⟨0, url0, yesFlags, .serve 1, .noTerminal⟩
/-- the same command line while the server refuses connections -/
private def stRefused : Step := ⟨0, url0, yesFlags, .fail .refused, .noTerminal⟩
private def stStalled : Step := ⟨0, url0, yesFlags, .slow 1, .noTerminal⟩

/-- what the unrepaired rule gives on DESIGN §8 row 28: the copy approved a moment ago is in
the cache, the server refuses connections, the default `--expiry 0` makes every cache
"expired" — exit code 103, although the repaired rule runs the cached copy. -/
theorem C20_available_legacy_row28 :
    (runWith true id RState.init [stGet, stRefused]).1 = [.run 1, .error 103] ∧
    (runWith false id RState.init [stGet, stRefused]).1 = [.run 1, .run 1] ∧
    (runWith true id RState.init [stGet, stStalled]).1 = [.run 1, .run 1] := by decide

/-- **C20_available_full is false of the rule as it was written.** -/
theorem C20_available_legacy_counterexample : ¬ C20_available_full true := by
  intro h
  have := (h id (runWith true id RState.init [stGet]).2 stRefused 1 (by decide) (by decide)
    (unavailable_of_failed _ _ .refused (by decide)) (by decide)).1
  exact absurd this (by decide)

/-- what did hold before the repair: the cached copy is used when the fetch *timed out*, or when
the decision table does not go to the network at all (unexpired cache without `--download`,
or `--offline`). -/
theorem C20_available_legacy_partial (sha : Content → Sum) (s : RState) (st : Step) (c : Content)
    (hg : gate st = none) (hcl : st.flags.clearCache = false) (hu : Unavailable st)
    (hc : (s.ent st.url.id).content = some c)
    (hside : net st.flags st.server = .timedOut ∨
      wantsFetch (s.now + st.dt) (s.ent st.url.id) st.flags = false) :
    (invokeWith true sha s st).1 = .run c ∧ ∀ v, (invokeWith true sha s st).2.ent v = s.ent v :=
  available_of_stepRead _ _ _ _ _ hg hcl (stepRead_unavailable true sha s st c hu hc (Or.inr hside))

/-! ### Once approved, runnable from then on -/

theorem runWith_append (legacy sha) (h1 h2 : List Step) : ∀ s,
    (runWith legacy sha s (h1 ++ h2)).2 = (runWith legacy sha (runWith legacy sha s h1).2 h2).2 := by
  induction h1 with
  | nil => intro s; rfl
  | cons st rest ih => intro s; simp only [List.cons_append, runWith]; exact ih _

/-- without `--clear-cache`, a cached copy never disappears -/
theorem content_persists (legacy sha) (s : RState) (st : Step) (v : Nat)
    (hcl : st.flags.clearCache = false) (h : ((s.ent v).content).isSome = true) :
    (((invokeWith legacy sha s st).2.ent v).content).isSome = true := by
  cases hg : gate st with
  | some code => rw [invokeWith_gate _ _ _ _ _ hg]; exact h
  | none =>
    rw [invokeWith_open _ _ _ _ hg hcl]
    by_cases hv : v = st.url.id
    · subst hv
      simp only [set_ent_same]
      rcases readRemote_spec legacy sha (s.now + st.dt) (s.ent st.url.id) st.flags
          (net st.flags st.server) st.answer with ⟨h1, _⟩ | ⟨_, c', _, _, h3, _⟩
      · unfold stepRead; rw [h1]; exact h
      · unfold stepRead; rw [h3]; rfl
    · simp only [set_ent_other _ _ _ _ hv, tick_ent]; exact h

theorem content_persists_run (legacy sha) (h : List Step) : ∀ (s : RState) (v : Nat),
    (∀ x ∈ h, x.flags.clearCache = false) → ((s.ent v).content).isSome = true →
    ((((runWith legacy sha s h).2).ent v).content).isSome = true := by
  induction h with
  | nil => intro s v _ hs; exact hs
  | cons st rest ih =>
    intro s v hx hs
    simp only [runWith]
    exact ih _ v (fun x hx' => hx x (List.mem_cons_of_mem _ hx'))
      (content_persists legacy sha s st v (hx st List.mem_cons_self) hs)

/-- **C20_stays_runnable**: once an invocation has handed on (downloaded-and-approved or
cached) content of a URL, then after *any* further history without `--clear-cache`, an
invocation for that URL made while the network is unavailable, or with `--offline`, runs a
copy whose checksum is the approved one. -/
theorem C20_stays_runnable (sha : Content → Sum) (h1 : List Step) (st : Step) (h2 : List Step)
    (c : Content) (st2 : Step)
    (hrun : (invoke sha (reach sha h1) st).1 = .run c)
    (hnc : ∀ x ∈ h2, x.flags.clearCache = false)
    (hu : st2.url.id = st.url.id) (hg : gate st2 = none) (hcl : st2.flags.clearCache = false)
    (hdown : Unavailable st2 ∨ st2.flags.offline = true) :
    ∃ c', (invoke sha (reach sha (h1 ++ st :: h2)) st2).1 = .run c' ∧
      ((reach sha (h1 ++ st :: h2)).ent st2.url.id).sum = some (sha c') := by
  -- after `st` the copy is in the cache
  have hi := inv_reach sha h1
  obtain ⟨_, hcl1, he⟩ := run_inv false sha (reach sha h1) st c hrun
  have hafter : ((((invoke sha (reach sha h1) st).2).ent st.url.id).content).isSome = true := by
    unfold invoke at hrun ⊢
    rw [he] at hrun ⊢
    simp only [set_ent_same]
    rcases readRemote_spec false sha ((reach sha h1).now + st.dt) ((reach sha h1).ent st.url.id) st.flags
        (net st.flags st.server) st.answer with ⟨h1', h2'⟩ | ⟨_, c', _, _, h3, _⟩
    · unfold stepRead; rw [h1']; rw [h2' c hrun]; rfl
    · unfold stepRead; rw [h3]; rfl
  have hreach : reach sha (h1 ++ st :: h2) = (run sha (invoke sha (reach sha h1) st).2 h2).2 := by
    unfold reach run
    rw [runWith_append]
    simp only [runWith]
    rfl
  have hsome := content_persists_run false sha h2 _ st.url.id hnc hafter
  rw [← hu] at hsome
  unfold run at hreach
  rw [← hreach] at hsome
  cases hc' : ((reach sha (h1 ++ st :: h2)).ent st2.url.id).content with
  | none => rw [hc'] at hsome; cases hsome
  | some c' =>
    refine ⟨c', ?_, inv_reach sha _ _ c' hc'⟩
    rcases hdown with hd | hd
    · exact (C20_available sha _ st2 c' hg hcl hd hc').1
    · exact (C20_offline sha _ st2 c' hg hd hcl hc').1

/-! ## The decision table, row by row (DESIGN App. D) -/

/-- no copy and `--offline`: 106 -/
theorem C20_offline_no_cache (sha : Content → Sum) (s : RState) (st : Step)
    (hg : gate st = none) (ho : st.flags.offline = true)
    (hc : (s.ent st.url.id).content = none) : (invoke sha s st).1 = .error 106 := by
  have hw : wantsFetch (s.now + st.dt) (s.ent st.url.id) st.flags = false := by simp [wantsFetch, hc, ho]
  have hr : stepRead false sha s st = (.error 106, s.ent st.url.id) := by
    unfold stepRead; rw [readRemote_of_not_wantsFetch _ _ _ _ _ _ _ hw, hc]
  unfold invoke
  cases hcl : st.flags.clearCache with
  | false => rw [invokeWith_open _ _ _ _ hg hcl, hr]
  | true =>
    rcases invokeWith_clear false sha s st hg hcl with ⟨c, h1, _⟩ | ⟨_, he⟩
    · rw [hr] at h1; cases h1
    · rw [he, hr]

/-- the default expiry 0 makes no cache valid: after any history, every online invocation
goes to the network (stored timestamps are never ahead of the clock) -/
theorem C20_default_expiry_always_fetches (sha : Content → Sum) (h : List Step) (st : Step)
    (hx : st.flags.expiry = 0) (ho : st.flags.offline = false) :
    wantsFetch ((reach sha h).now + st.dt) ((reach sha h).ent st.url.id) st.flags = true := by
  have hts : TsOk (reach sha h) := tsOk_runWith false sha h _ tsOk_init
  unfold wantsFetch cacheValid
  cases hc : ((reach sha h).ent st.url.id).content with
  | none => simp [ho]
  | some c =>
    cases ht : ((reach sha h).ent st.url.id).ts with
    | none => simp [ho]
    | some t =>
      have := hts _ t ht
      simp [hx, ho]
      left; omega

/-! ## Same definitions as the driver executes -/

theorem observe_results (legacy sha k) (h : List Step) : ∀ s,
    (observe legacy sha k s h).map (·.1) = (runWith legacy sha s h).1 := by
  induction h with
  | nil => intro s; rfl
  | cons st rest ih => intro s; simp only [observe, runWith, List.map_cons]; rw [ih]

/-! ## Non-vacuity: concrete histories meeting the hypotheses -/

private def noFlags : RFlags := { yesFlags with yes := false }
private def stChanged : Step := ⟨0, url0, noFlags, .serve 2, .noTerminal⟩
private def stDecline : Step := ⟨0, url0, noFlags, .serve 2, .decline⟩
private def stAccept : Step := ⟨0, url0, noFlags, .serve 2, .accept⟩
private def stOffline : Step := ⟨0, url0, { noFlags with offline := true }, .serve 2, .noTerminal⟩
private def stHttp : Step := ⟨0, url0, { yesFlags with insecure := false }, .serve 1, .accept⟩
private def stHour : Step := ⟨0, url0, { noFlags with expiry := 1 }, .serve 2, .noTerminal⟩
private def stAged : Step := ⟨2, url0, { noFlags with expiry := 1 }, .fail .notFound, .noTerminal⟩

-- first use without approval: 104; approved download; changed content unapproved: 104 and the
-- old copy stays; offline runs the old copy; accepted prompt switches; http without --insecure: 105
example : (run id RState.init [stChanged, stGet, stChanged, stDecline, stOffline, stAccept, stOffline, stHttp]).1
    = [.error 104, .run 1, .error 104, .error 104, .run 1, .run 2, .run 2, .error 105] := by decide
-- hypotheses of `unapproved_refused` are met by `stChanged` after `stGet`
example : gate stChanged = none ∧
    wantsFetch ((reach id [stGet]).now + 0) ((reach id [stGet]).ent 0) stChanged.flags = true ∧
    ((reach id [stGet]).ent 0).sum ≠ some (id 2) ∧ approves stChanged.flags stChanged.answer = false := by decide
-- an unexpired cache is used without asking the (changed) server; once aged past the expiry the
-- server is asked, and its 404 falls back to the copy
example : (run id RState.init [stGet, stHour, stAged]).1 = [.run 1, .run 1, .run 1] := by decide
example : (runWith true id RState.init [stGet, stHour, stAged]).1 = [.run 1, .run 1, .error 100] := by decide
example : Unavailable stRefused ∧ Unavailable stStalled ∧ Unavailable stAged :=
  ⟨unavailable_of_failed _ _ .refused (by decide), unavailable_of_timedOut _ _ (by decide),
   unavailable_of_failed _ _ .notFound (by decide)⟩
example : ((reach id [stGet]).ent 0).content = some 1 := by decide
-- no cache: refused 103, stalled 108, offline 106
example : (run id RState.init [stRefused, stStalled, stOffline]).1 = [.error 103, .error 108, .error 106] := by decide

end Props.C20
