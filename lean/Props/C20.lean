import TaskModel.Remote.Lemmas
import TaskModel.Remote.Chain
import TaskModel.Remote.TreeLemmas
import TaskModel.Remote.Tie
/-!
# C20 — Remote Taskfiles: nothing unapproved runs, and the cache keeps tasks runnable

Property theorems only; the model is `TaskModel.Remote.Model` (`invoke`: the repaired fallback
rule of fix F16, the checksum recheck of cached copies, the redirect policy, the stored location
of directory-style URLs), helper lemmas are in `TaskModel.Remote.Lemmas`, the tie to the source
text is `TaskModel.Remote.Tie` (`remote_skeleton_ok` …, regenerated on every run) plus the
correspondence domain `remote` (harness/remote.go: the real CLI against loopback HTTP and TLS
servers over sequences of server states × flags × prompt answers × cache damage).

The second part (from "Chains" on) lifts every property to invocations that read a remote
Taskfile *and* the remote Taskfile it includes, under the one `--timeout` deadline of the
invocation (`TaskModel.Remote.Chain`, `invokeChain`; driver op `remote.chain`).

All statements are over **arbitrary states or arbitrary histories** (`List Ev`: complete
invocations, invocations killed between the cache writes, cached copies replaced / truncated /
removed by something else; no length bound) and over an arbitrary checksum function `sha` — nothing
is assumed about it.  What is proved is about *checksums*: "the checksum of what runs is the
approved one".  That an approved checksum stands for approved *content* is collision resistance
of SHA-256, outside the model.

**Trust no longer rests on an invariant between the cache files.**  Before fix R8-3 the theorems
needed `Inv` ("the cached copy is one whose checksum is the stored one"), true only of histories
in which every invocation completes its three writes.  Now `readRemote` recomputes the checksum of
the cached copy (`usable`), `TrustStep` holds in *every* state, and the stored checksum — which
only Task writes, only after approval (`C20_sum_approved`) — is the single anchor.
-/
namespace Props.C20
open TaskModel.Remote

/-! ## Trust -/

/-- "a prompt for THIS checksum was due in this invocation and was accepted, or `--yes` was given":
the invocation gets past the gate, goes to the network, is offered content with checksum `x`, that
checksum is not the stored one (`ChecksumPrompt` returns a prompt: it is shown, or — under `--yes` —
printed with "[assuming yes]"), and the prompt is passed. -/
def ApprovedNow (sha : Content → Sum) (s : RState) (st : Step) (x : Sum) : Prop :=
  gate st = none ∧ wantsFetch sha (s.now + st.dt) (s.ent st.url.id) st.flags = true ∧
  (∃ c, net st.flags st.server = .content c ∧ sha c = x) ∧
  needsPrompt (s.ent st.url.id) x = true ∧ approves st.flags st.answer = true

/-- What C20 demands of one invocation `st` made in state `s`. -/
structure TrustStep (sha : Content → Sum) (s : RState) (st : Step) : Prop where
  /-- content handed on for execution has the checksum that is the stored (approved) one at that moment -/
  ran_is_approved : ∀ c, (invoke sha s st).1 = .run c →
    ((invoke sha s st).2.ent st.url.id).sum = some (sha c)
  /-- … and that checksum was the stored one before, or a prompt for exactly this checksum was
  due and passed (accepted, or `--yes`) in this very invocation.  (An `accept` typed at a terminal
  when no prompt was shown approves nothing.) -/
  ran_new_needs_approval : ∀ c, (invoke sha s st).1 = .run c →
    (s.ent st.url.id).sum = some (sha c) ∨ ApprovedNow sha s st (sha c)
  /-- the stored checksum of any URL changes only in an invocation for that URL in which a prompt
  for the new checksum was passed, to the checksum of the content just downloaded (which is then
  what runs) — or the whole cache is dropped by `--clear-cache` -/
  change_needs_approval : ∀ v, ((invoke sha s st).2.ent v).sum ≠ (s.ent v).sum →
    (v = st.url.id ∧ ∃ c, ApprovedNow sha s st (sha c) ∧ net st.flags st.server = .content c ∧
        (invoke sha s st).1 = .run c ∧ ((invoke sha s st).2.ent v).sum = some (sha c)) ∨
    (st.flags.clearCache = true ∧ (invoke sha s st).1 = .cleared ∧ ((invoke sha s st).2.ent v).sum = none)
  /-- new or changed content without approval: exit code 104, **nothing executed** (the trace the
  harness records is empty), no cache file of any URL touched -/
  unapproved_refused : ∀ c, gate st = none →
    wantsFetch sha (s.now + st.dt) (s.ent st.url.id) st.flags = true →
    net st.flags st.server = .content c → (s.ent st.url.id).sum ≠ some (sha c) →
    approves st.flags st.answer = false →
    (invoke sha s st).1.exit = 104 ∧ (invoke sha s st).1.trace = [] ∧
    ∀ v, (invoke sha s st).2.ent v = s.ent v

private theorem stepRead_unapproved (legacy sha s st c)
    (hw : wantsFetch sha (s.now + st.dt) (s.ent st.url.id) st.flags = true)
    (hn : net st.flags st.server = .content c) (hs : (s.ent st.url.id).sum ≠ some (sha c))
    (ha : approves st.flags st.answer = false) :
    stepRead legacy sha s st = (.error 104, s.ent st.url.id) := by
  unfold stepRead
  rw [readRemote_of_wantsFetch _ _ _ _ _ _ _ _ hw, hn]
  have hp : needsPrompt (s.ent st.url.id) (sha c) = true := by
    cases hp : needsPrompt (s.ent st.url.id) (sha c) with
    | true => rfl
    | false => exact absurd ((needsPrompt_false_iff _ _).mp hp) hs
  simp [fetch, hp, ha]

/-- the result is `run c` only through the open gate, without `--clear-cache`, from `stepRead` -/
private theorem run_inv (legacy sha s st c) (h : (invokeWith legacy sha s st).1 = .run c) :
    gate st = none ∧ st.flags.clearCache = false ∧
    invokeWith legacy sha s st =
      ((stepRead legacy sha s st).1, (s.tick st.dt).set st.url.id (stepRead legacy sha s st).2) := by
  cases hg : gate st with
  | some code => rw [invokeWith_gate _ _ _ _ _ hg] at h; cases h
  | none =>
    cases hc : st.flags.clearCache with
    | false => exact ⟨rfl, rfl, invokeWith_open _ _ _ _ hg hc⟩
    | true =>
      rcases invokeWith_clear legacy sha s st hg hc with ⟨c', _, he⟩ | ⟨hne, he⟩
      · rw [he] at h; cases h
      · rw [he] at h; exact absurd h (hne c)

/-- what runs has the stored checksum afterwards; that checksum was stored before or a prompt for it
was passed now — **in any state** (torn, damaged, whatever): no invariant is needed -/
theorem trust_of_run (legacy : Bool) (sha : Content → Sum) (s : RState) (st : Step) :
    (∀ c, (invokeWith legacy sha s st).1 = .run c →
      ((invokeWith legacy sha s st).2.ent st.url.id).sum = some (sha c) ∧
      ((s.ent st.url.id).sum = some (sha c) ∨ ApprovedNow sha s st (sha c))) := by
  intro c h
  obtain ⟨hg, _, he⟩ := run_inv legacy sha s st c h
  rw [he] at h ⊢
  simp only [set_ent_same]
  simp only at h
  rcases readRemote_spec legacy sha (s.now + st.dt) (s.ent st.url.id) st.flags
      (net st.flags st.server) st.answer (landing st.url st.server) with ⟨h1, h2⟩ | ⟨hw, c', hn, h2, h3, h4⟩
  · have hc := usable_sum sha _ c (h2 c h)
    unfold stepRead
    rw [h1]
    exact ⟨hc, Or.inl hc⟩
  · unfold stepRead at h ⊢
    rw [h2] at h
    cases h
    rw [h3]
    refine ⟨rfl, ?_⟩
    rcases h4 with h4 | ⟨hp, ha⟩
    · exact Or.inl h4
    · exact Or.inr ⟨hg, hw, ⟨c, hn, rfl⟩, hp, ha⟩

theorem change_of_step (legacy : Bool) (sha : Content → Sum) (s : RState) (st : Step) (v : Nat)
    (h : ((invokeWith legacy sha s st).2.ent v).sum ≠ (s.ent v).sum) :
    (v = st.url.id ∧ ∃ c, ApprovedNow sha s st (sha c) ∧ net st.flags st.server = .content c ∧
        (invokeWith legacy sha s st).1 = .run c ∧ ((invokeWith legacy sha s st).2.ent v).sum = some (sha c)) ∨
    (st.flags.clearCache = true ∧ (invokeWith legacy sha s st).1 = .cleared ∧
      ((invokeWith legacy sha s st).2.ent v).sum = none) := by
  cases hg : gate st with
  | some code => rw [invokeWith_gate _ _ _ _ _ hg] at h; exact absurd rfl h
  | none =>
    have main : ∀ (he : invokeWith legacy sha s st =
        ((stepRead legacy sha s st).1, (s.tick st.dt).set st.url.id (stepRead legacy sha s st).2)),
        (v = st.url.id ∧ ∃ c, ApprovedNow sha s st (sha c) ∧ net st.flags st.server = .content c ∧
          (invokeWith legacy sha s st).1 = .run c ∧ ((invokeWith legacy sha s st).2.ent v).sum = some (sha c)) := by
      intro he
      rw [he] at h ⊢
      by_cases hv : v = st.url.id
      · subst hv
        simp only [set_ent_same] at h ⊢
        rcases readRemote_spec legacy sha (s.now + st.dt) (s.ent st.url.id) st.flags
            (net st.flags st.server) st.answer (landing st.url st.server) with ⟨h1, _⟩ | ⟨hw, c', hn, h2, h3, h4⟩
        · unfold stepRead at h; rw [h1] at h; exact absurd rfl h
        · unfold stepRead at h ⊢
          rw [h3] at h ⊢
          refine ⟨trivial, c', ?_, hn, h2, rfl⟩
          rcases h4 with h4 | ⟨hp, ha⟩
          · simp only [written_sum] at h; exact absurd h4.symm h
          · exact ⟨hg, hw, ⟨c', hn, rfl⟩, hp, ha⟩
      · rw [set_ent_other _ _ _ _ hv] at h; exact absurd rfl h
    cases hc : st.flags.clearCache with
    | false => exact Or.inl (main (invokeWith_open _ _ _ _ hg hc))
    | true =>
      rcases invokeWith_clear legacy sha s st hg hc with ⟨c, _, he⟩ | ⟨_, he⟩
      · right; rw [he]; exact ⟨rfl, rfl, rfl⟩
      · exact Or.inl (main he)

theorem unapproved_of (legacy : Bool) (sha : Content → Sum) (s : RState) (st : Step) (c : Content)
    (hg : gate st = none)
    (hw : wantsFetch sha (s.now + st.dt) (s.ent st.url.id) st.flags = true)
    (hn : net st.flags st.server = .content c) (hs : (s.ent st.url.id).sum ≠ some (sha c))
    (ha : approves st.flags st.answer = false) :
    (invokeWith legacy sha s st).1 = .error 104 ∧ ∀ v, (invokeWith legacy sha s st).2.ent v = s.ent v := by
  have hr := stepRead_unapproved legacy sha s st c hw hn hs ha
  have he : invokeWith legacy sha s st =
      ((stepRead legacy sha s st).1, (s.tick st.dt).set st.url.id (stepRead legacy sha s st).2) := by
    cases hc : st.flags.clearCache with
    | false => exact invokeWith_open _ _ _ _ hg hc
    | true =>
      rcases invokeWith_clear legacy sha s st hg hc with ⟨c', h1, _⟩ | ⟨_, he⟩
      · rw [hr] at h1; cases h1
      · exact he
  rw [he, hr]
  refine ⟨rfl, fun v => ?_⟩
  by_cases hv : v = st.url.id
  · subst hv; simp
  · simp [set_ent_other _ _ _ _ hv]

/-- **every state** satisfies the trust clauses -/
theorem trustStep (sha : Content → Sum) (s : RState) (st : Step) : TrustStep sha s st where
  ran_is_approved c h := (trust_of_run false sha s st c h).1
  ran_new_needs_approval c h := (trust_of_run false sha s st c h).2
  change_needs_approval v h := change_of_step false sha s st v h
  unapproved_refused c hg hw hn hs ha := by
    obtain ⟨h1, h2⟩ := unapproved_of false sha s st c hg hw hn hs ha
    unfold invoke
    rw [h1]
    exact ⟨rfl, rfl, h2⟩

/-- **C20_trust**: after *every* history — complete invocations, invocations killed between the
cache writes, cached copies replaced, truncated or removed by something else, in any order —
whatever the next invocation is (any flags, any server state, any answer): content is handed on
for execution only with the stored checksum, which was stored before or for which a prompt was
passed in this invocation; the stored checksum changes only under a passed prompt for the new
one; unapproved new or changed content ends in 104 with nothing run and the cache untouched. -/
theorem C20_trust (sha : Content → Sum) (h : List Ev) (st : Step) : TrustStep sha (reachEv sha h) st :=
  trustStep sha _ st

/-! ### The stored checksum is the anchor: only Task writes it, only after approval -/

/-- the state after one event -/
def after (sha : Content → Sum) (s : RState) : Ev → RState
  | .step st => (invoke sha s st).2
  | .pre p => applyPre sha s p

def reachFrom (sha : Content → Sum) : RState → List Ev → RState
  | s, [] => s
  | s, ev :: rest => reachFrom sha (after sha s ev) rest

theorem runEvWith_state (sha) (h : List Ev) : ∀ s, (runEvWith false sha s h).2 = reachFrom sha s h := by
  induction h with
  | nil => intro s; rfl
  | cons ev rest ih =>
    intro s
    cases ev with
    | step st => simp only [runEvWith, reachFrom, after, invoke]; exact ih _
    | pre p => simp only [runEvWith, reachFrom, after]; exact ih _

theorem reachEv_eq (sha) (h : List Ev) : reachEv sha h = reachFrom sha RState.init h :=
  runEvWith_state sha h _

theorem reachFrom_append (sha) (h1 h2 : List Ev) : ∀ s,
    reachFrom sha s (h1 ++ h2) = reachFrom sha (reachFrom sha s h1) h2 := by
  induction h1 with
  | nil => intro s; rfl
  | cons ev rest ih => intro s; simp only [List.cons_append, reachFrom]; exact ih _

/-- a history of complete invocations, as before -/
theorem reachEv_steps (sha) (h : List Step) : reachEv sha (h.map .step) = reach sha h := by
  unfold reachEv reach run
  suffices ∀ s, (runEvWith false sha s (h.map .step)).2 = (runWith false sha s h).2 from this _
  induction h with
  | nil => intro s; rfl
  | cons st rest ih => intro s; simp only [List.map_cons, runEvWith, runWith]; exact ih _

/-- the event `ev`, happening in state `s`, is an invocation for URL `u` — complete, or killed
somewhere between its cache writes — in which a prompt for the checksum `x` was passed -/
def ApprovesEv (sha : Content → Sum) (s : RState) (ev : Ev) (u : Nat) (x : Sum) : Prop :=
  match ev with
  | .step st => st.url.id = u ∧ ApprovedNow sha s st x
  | .pre (.crash st _) => st.url.id = u ∧ ApprovedNow sha s st x
  | .pre (.damage _ _) => False

theorem partialWrite_sum (sha now e c r) (k : Nat) :
    (partialWrite sha now e c r k).sum = e.sum ∨ (partialWrite sha now e c r k).sum = some (sha c) := by
  match k with
  | 0 => left; rfl
  | 1 => right; rfl
  | 2 => right; rfl
  | 3 => right; rfl
  | _ + 4 => right; rfl

theorem writes_some (sha now e f n a c) (h : writes sha now e f n a = some c) :
    wantsFetch sha now e f = true ∧ n = .content c ∧ (needsPrompt e (sha c) = false ∨ approves f a = true) := by
  unfold writes at h
  cases n with
  | timedOut => cases h
  | failed k => cases h
  | content c' =>
    simp only at h
    split at h
    · rename_i hc
      cases h
      simp only [Bool.and_eq_true, Bool.not_eq_true', Bool.and_eq_false_iff, Bool.not_eq_false'] at hc
      exact ⟨hc.1, rfl, hc.2⟩
    · cases h

/-- whatever event changes the stored checksum of `v` to `some x` is an invocation (complete or
killed) for `v` in which a prompt for `x` was passed -/
theorem after_change (sha : Content → Sum) (s : RState) (ev : Ev) (v : Nat) (x : Sum)
    (hne : ((after sha s ev).ent v).sum ≠ (s.ent v).sum) (hx : ((after sha s ev).ent v).sum = some x) :
    ApprovesEv sha s ev v x := by
  cases ev with
  | step st =>
    simp only [after] at hne hx
    rcases change_of_step false sha s st v hne with ⟨hv, c, ha, _, _, hs⟩ | ⟨_, _, hn⟩
    · have : x = sha c := by
        unfold invoke at hx; rw [hs] at hx; exact (Option.some.inj hx).symm
      subst this
      exact ⟨hv.symm, ha⟩
    · unfold invoke at hx; rw [hn] at hx; cases hx
  | pre p =>
    cases p with
    | damage u c =>
      exfalso
      apply hne
      simp only [after, applyPre]
      by_cases hv : v = u
      · subst hv; simp
      · rw [set_ent_other _ _ _ _ hv]
    | crash st k =>
      simp only [after, applyPre] at hne hx
      cases hg : gate st with
      | some code => rw [hg] at hne; exact absurd rfl hne
      | none =>
        rw [hg] at hne hx
        simp only [tick_now, tick_ent] at hne hx
        cases hw : writes sha (s.now + st.dt) (s.ent st.url.id) st.flags (net st.flags st.server) st.answer with
        | none => rw [hw] at hne; exact absurd rfl hne
        | some c =>
          rw [hw] at hne hx
          simp only at hne hx
          by_cases hv : v = st.url.id
          · subst hv
            rw [set_ent_same] at hne hx
            obtain ⟨hwf, hn, hp⟩ := writes_some _ _ _ _ _ _ _ hw
            rcases partialWrite_sum sha (s.now + st.dt) (s.ent st.url.id) c (landing st.url st.server) k with hs | hs
            · exact absurd hs hne
            · rw [hs] at hne hx
              cases hx
              refine ⟨rfl, hg, hwf, ⟨c, hn, rfl⟩, ?_, ?_⟩
              · cases hp' : needsPrompt (s.ent st.url.id) (sha c) with
                | true => rfl
                | false => exact absurd ((needsPrompt_false_iff _ _).mp hp').symm hne
              · rcases hp with hp | hp
                · exact absurd ((needsPrompt_false_iff _ _).mp hp).symm hne
                · exact hp
          · rw [set_ent_other _ _ _ _ hv] at hne; exact absurd rfl hne

theorem sum_approved_from (sha : Content → Sum) (h : List Ev) : ∀ (s : RState) (u : Nat) (x : Sum),
    ((reachFrom sha s h).ent u).sum = some x →
    (s.ent u).sum = some x ∨
    ∃ h1 ev h2, h = h1 ++ ev :: h2 ∧ ApprovesEv sha (reachFrom sha s h1) ev u x := by
  induction h with
  | nil => intro s u x hx; exact Or.inl hx
  | cons ev rest ih =>
    intro s u x hx
    simp only [reachFrom] at hx
    rcases ih _ u x hx with h0 | ⟨h1, ev', h2, he, ha⟩
    · by_cases hsame : ((after sha s ev).ent u).sum = (s.ent u).sum
      · left; rw [← hsame]; exact h0
      · right; exact ⟨[], ev, rest, rfl, after_change sha s ev u x hsame h0⟩
    · right; exact ⟨ev :: h1, ev', h2, by rw [he]; rfl, ha⟩

/-- **C20_sum_approved**: after any history with crashes and damage, a stored checksum was put there
by an invocation of that history (possibly one that was killed right after `WriteChecksum`) in which
a prompt for exactly that checksum was accepted, or passed by `--yes` -/
theorem C20_sum_approved (sha : Content → Sum) (h : List Ev) (u : Nat) (x : Sum)
    (hx : ((reachEv sha h).ent u).sum = some x) :
    ∃ h1 ev h2, h = h1 ++ ev :: h2 ∧ ApprovesEv sha (reachEv sha h1) ev u x := by
  rw [reachEv_eq] at hx
  rcases sum_approved_from sha h _ u x hx with h0 | ⟨h1, ev, h2, he, ha⟩
  · cases h0
  · exact ⟨h1, ev, h2, he, by rw [reachEv_eq]; exact ha⟩

/-- **C20_trust_history** (end to end): whatever an invocation hands on for execution, at the end of
any history with crashes and damage, has a checksum for which — in this invocation or an earlier
one of the history, complete or killed — a prompt was passed. -/
theorem C20_trust_history (sha : Content → Sum) (h : List Ev) (st : Step) (c : Content)
    (hr : (invoke sha (reachEv sha h) st).1 = .run c) :
    ∃ h1 ev h2, h ++ [.step st] = h1 ++ ev :: h2 ∧ ApprovesEv sha (reachEv sha h1) ev st.url.id (sha c) := by
  apply C20_sum_approved
  rw [reachEv_eq, reachFrom_append, ← reachEv_eq]
  exact (trustStep sha _ st).ran_is_approved c hr

/-! ### A real failure between the writes: the file-size limit

The harness also runs the binary under `ulimit -f 1`: the checksum, timestamp and location files are
written, the write of the (longer) `.yaml` fails like on a full disk.  Such an invocation is, in the
model, `Pre.crash st 3` followed by `Pre.damage` (`limitedPre`) — so everything proved about histories
of `Ev` is proved about histories with size-limited invocations (`LEv`). -/

theorem reachFrom_pres (sha) (ps : List Pre) (t : List Ev) : ∀ s,
    reachFrom sha s (ps.map .pre ++ t) = reachFrom sha (ps.foldl (applyPre sha) s) t := by
  induction ps with
  | nil => intro s; rfl
  | cons p ps ih => intro s; simp only [List.map_cons, List.cons_append, reachFrom, after, List.foldl_cons]; exact ih _

/-- a history with size-limited invocations ends in the state the history of invocations, crashes and
damage it amounts to (`expandL`) ends in -/
theorem stateL_expand (sha) (h : List LEv) : ∀ s,
    stateL false sha s h = reachFrom sha s (expandL false sha s h) := by
  induction h with
  | nil => intro s; rfl
  | cons e rest ih =>
    intro s
    cases e with
    | ev e =>
      cases e with
      | step st => simp only [stateL, expandL, reachFrom, after, invoke]; exact ih _
      | pre p => simp only [stateL, expandL, reachFrom, after]; exact ih _
    | limited st =>
      simp only [stateL, expandL]
      cases limitedPre sha s st with
      | some ps => simp only; rw [reachFrom_pres]; exact ih _
      | none => simp only [reachFrom, after, invoke]; exact ih _

/-- hence `C20_trust` after every history with size-limited invocations -/
theorem C20_trust_limited (sha : Content → Sum) (h : List LEv) (st : Step) :
    TrustStep sha (stateL false sha RState.init h) st := trustStep sha _ st

/-- … and every stored checksum of such a history was approved by an invocation of the history it
amounts to (the one whose `.yaml` write failed included) -/
theorem C20_sum_approved_limited (sha : Content → Sum) (h : List LEv) (u : Nat) (x : Sum)
    (hx : ((stateL false sha RState.init h).ent u).sum = some x) :
    ∃ h1 ev h2, expandL false sha RState.init h = h1 ++ ev :: h2 ∧ ApprovesEv sha (reachEv sha h1) ev u x := by
  rw [stateL_expand, ← reachEv_eq] at hx
  exact C20_sum_approved sha _ u x hx

/-- the rule before fix R8-3 (cached bytes used without recomputing their checksum) hands on
content whose checksum is not the stored one: after a crash between `WriteChecksum` and `Write`
(`.checksum` of the approved new version 2, `.yaml` still version 1), `--offline` runs version 1 -/
theorem C20_trust_norecheck_counterexample :
    let torn : Entry := ⟨some 1, some 2, some 0, none⟩
    let f : RFlags := { yes := false, download := false, offline := true, insecure := true, expiry := 0,
                        patient := false, clearCache := false, experiment := true }
    (readRemoteNoRecheck false id 0 torn f (.failed .refused) .noTerminal ⟨0, false⟩).1 = .run 1 ∧
    torn.sum ≠ some (id 1) ∧
    (readRemote false id 0 torn f (.failed .refused) .noTerminal ⟨0, false⟩).1 = .error 106 := by decide

/-- `P` holds at every complete invocation along a history run from `s` -/
def Always (sha : Content → Sum) (P : RState → Step → Prop) : RState → List Ev → Prop
  | _, [] => True
  | s, .step st :: rest => P s st ∧ Always sha P (invoke sha s st).2 rest
  | s, .pre p :: rest => Always sha P (applyPre sha s p) rest

/-- the same, as a statement about every invocation *inside* an arbitrary history -/
theorem C20_trust_always (sha : Content → Sum) (h : List Ev) :
    Always sha (TrustStep sha) RState.init h := by
  suffices ∀ s, Always sha (TrustStep sha) s h from this _
  induction h with
  | nil => intro _; trivial
  | cons ev rest ih =>
    intro s
    cases ev with
    | step st => exact ⟨trustStep sha s st, ih _⟩
    | pre p => exact ih _

/-- the trust clauses hold for the F16 fallback rule as it was written, too (F16 changes availability only) -/
theorem C20_trust_legacy (sha : Content → Sum) (s : RState) (st : Step) (c : Content)
    (hr : (invokeWith true sha s st).1 = .run c) :
    ((invokeWith true sha s st).2.ent st.url.id).sum = some (sha c) ∧
    ((s.ent st.url.id).sum = some (sha c) ∨ ApprovedNow sha s st (sha c)) :=
  trust_of_run true sha s st c hr

/-- an invocation for one URL never touches the cache files of another (unless it clears all) -/
theorem C20_frame (sha : Content → Sum) (s : RState) (st : Step) (v : Nat) (hv : v ≠ st.url.id)
    (hc : (invoke sha s st).1 ≠ .cleared) : (invoke sha s st).2.ent v = s.ent v := by
  unfold invoke at hc ⊢
  cases hg : gate st with
  | some code => rw [invokeWith_gate _ _ _ _ _ hg]; rfl
  | none =>
    cases hcl : st.flags.clearCache with
    | false => rw [invokeWith_open _ _ _ _ hg hcl]; exact set_ent_other _ _ _ _ hv
    | true =>
      rcases invokeWith_clear false sha s st hg hcl with ⟨c, _, he⟩ | ⟨_, he⟩
      · rw [he] at hc; exact absurd rfl hc
      · rw [he]; exact set_ent_other _ _ _ _ hv

/-! ## Plain http -/

/-- **C20_http** (the entrypoint): plain `http://` without `--insecure` is refused — with 105 (with
the remote-Taskfiles experiment switched off: with the generic exit code 1, like every remote
Taskfile) — whatever the cache holds, whatever the server would do, whatever is answered: the result
does not depend on them and the cache is not touched (the check is made when the node is created,
before any cache or network access).  (`flagsOk`: the command line passed `flags.Validate`.) -/
theorem C20_http (sha : Content → Sum) (s : RState) (st : Step)
    (hf : flagsOk st.flags = true) (hh : st.url.https = false) (hi : st.flags.insecure = false) :
    invoke sha s st = (.error (if st.flags.experiment then 105 else 1), s.tick st.dt) := by
  apply invokeWith_gate
  cases hx : st.flags.experiment <;> simp [gate, hf, hh, hi, hx]

theorem requested_secure (f : RFlags) (sv : Server) : ∀ (u : Url), (u.https = true ∨ f.insecure = true) →
    ∀ v ∈ requested f u sv, v.https = true ∨ f.insecure = true := by
  induction sv with
  | serve c => intro u hu v hv; simp [requested] at hv; subst hv; exact hu
  | fail k => intro u hu v hv; simp [requested] at hv; subst hv; exact hu
  | slow c => intro u hu v hv; simp [requested] at hv; subst hv; exact hu
  | redirect to next ih =>
    intro u hu v hv
    simp only [requested, List.mem_cons] at hv
    rcases hv with hv | hv
    · subst hv; exact hu
    · by_cases hr : (!to.https && !f.insecure) = true
      · simp [hr] at hv
      · simp only [hr] at hv
        refine ih to ?_ v hv
        cases hh : to.https <;> cases hi : f.insecure <;> simp_all
  | dir to file ih => intro u hu v hv; exact ih u hu v hv

/-- **C20_http over EVERY hop**: in an invocation that gets past the gate, every URL a request is
sent to — the node's own, the default names under it, and the target of every redirect that is
followed, however long the chain of redirects — is https, unless `--insecure` was given. -/
theorem C20_http_hops (st : Step) (hg : gate st = none) :
    ∀ v ∈ requested st.flags st.url st.server, v.https = true ∨ st.flags.insecure = true :=
  requested_secure st.flags st.server st.url ((gate_none_iff st).mp hg).2.1

theorem net_refusedHop (f : RFlags) (sv : Server) (h : refusedHop f sv = true) :
    net f sv = .failed .insecureHop := by
  induction sv with
  | serve c => cases h
  | fail k => cases h
  | slow c => cases h
  | redirect to next ih =>
    simp only [refusedHop, Bool.or_eq_true] at h
    by_cases hr : (!to.https && !f.insecure) = true
    · simp [net, hr]
    · simp only [net, hr]
      rcases h with h | h
      · exact absurd h hr
      · exact ih h
  | dir to file ih => exact ih h

/-- a redirect to plain http without `--insecure`, anywhere in the chain of redirects, gives no
content: the fetch fails (105 when there is no cached copy to fall back to), nothing downloaded over
the refused hop is ever looked at -/
theorem C20_http_hop_refused (sha : Content → Sum) (s : RState) (st : Step)
    (hr : refusedHop st.flags st.server = true) :
    (∀ c, net st.flags st.server ≠ .content c) ∧
    (∀ c, (invoke sha s st).1 = .run c → usable sha (s.ent st.url.id) = some c) ∧
    (gate st = none → wantsFetch sha (s.now + st.dt) (s.ent st.url.id) st.flags = true →
      usable sha (s.ent st.url.id) = none → (invoke sha s st).1 = .error 105) := by
  have hn := net_refusedHop _ _ hr
  refine ⟨?_, ?_, ?_⟩
  · intro c hc; rw [hn] at hc; cases hc
  · intro c h
    obtain ⟨_, _, he⟩ := run_inv false sha s st c h
    unfold invoke at h
    rw [he] at h
    simp only at h
    rcases readRemote_spec false sha (s.now + st.dt) (s.ent st.url.id) st.flags
        (net st.flags st.server) st.answer (landing st.url st.server) with ⟨_, h2⟩ | ⟨_, c', hn', _⟩
    · exact h2 c h
    · rw [hn] at hn'; cases hn'
  · intro hg hw hu
    have hread : stepRead false sha s st = (.error 105, s.ent st.url.id) := by
      unfold stepRead
      rw [readRemote_of_wantsFetch _ _ _ _ _ _ _ _ hw, hn, hu]
      rfl
    unfold invoke
    cases hc : st.flags.clearCache with
    | false => rw [invokeWith_open _ _ _ _ hg hc, hread]
    | true =>
      rcases invokeWith_clear false sha s st hg hc with ⟨c, h1, _⟩ | ⟨_, he⟩
      · rw [hread] at h1; cases h1
      · rw [he, hread]

/-- without the experiment nothing remote is read at all -/
theorem C20_experiment_off (sha : Content → Sum) (s : RState) (st : Step)
    (hx : st.flags.experiment = false) : invoke sha s st = (.error 1, s.tick st.dt) := by
  apply invokeWith_gate
  cases hf : flagsOk st.flags <;> simp [gate, hf, hx]

/-- … conversely 105 is given for nothing else: a plain-http entrypoint, or a refused redirect -/
theorem C20_http_only (sha : Content → Sum) (s : RState) (st : Step)
    (h : (invoke sha s st).1 = .error 105) :
    (st.url.https = false ∧ st.flags.insecure = false) ∨ net st.flags st.server = .failed .insecureHop := by
  unfold invoke at h
  cases hg : gate st with
  | some code =>
    left
    rw [invokeWith_gate _ _ _ _ _ hg] at h
    unfold gate at hg
    cases hh : st.url.https <;> cases hi : st.flags.insecure <;>
      cases hf : flagsOk st.flags <;> cases hx : st.flags.experiment <;> simp_all
  | none =>
    right
    have hne : (stepRead false sha s st).1 = .error 105 → net st.flags st.server = .failed .insecureHop :=
      fun h' => readRemote_105 _ _ _ _ _ _ _ _ h'
    cases hc : st.flags.clearCache with
    | false => rw [invokeWith_open _ _ _ _ hg hc] at h; exact hne h
    | true =>
      rcases invokeWith_clear false sha s st hg hc with ⟨c, _, he⟩ | ⟨_, he⟩
      · rw [he] at h; cases h
      · rw [he] at h; exact hne h

/-! ## Offline and availability -/

/-- the network gives no content: connection refused / reset, HTTP error, refused redirect, or
stalled past `--timeout` -/
def Unavailable (st : Step) : Prop := ∀ c, net st.flags st.server ≠ .content c

/-- **C20_offline**: in any state, with a cached copy `c` that has the stored checksum, `--offline`
runs exactly `c` — for every expiry, clock, server state and answer — and touches nothing. -/
theorem C20_offline (sha : Content → Sum) (s : RState) (st : Step) (c : Content)
    (hg : gate st = none) (ho : st.flags.offline = true) (hcl : st.flags.clearCache = false)
    (hc : usable sha (s.ent st.url.id) = some c) :
    (invoke sha s st).1 = .run c ∧ (s.ent st.url.id).sum = some (sha c) ∧
    ∀ v, (invoke sha s st).2.ent v = s.ent v := by
  have hok := ((gate_none_iff st).mp hg).1
  have hd : st.flags.download = false := by
    cases hd : st.flags.download with
    | false => rfl
    | true => simp [flagsOk, hd, ho] at hok
  have hw : wantsFetch sha (s.now + st.dt) (s.ent st.url.id) st.flags = false := by
    simp [wantsFetch, hc, ho, hd]
  have hr : stepRead false sha s st = (.run c, s.ent st.url.id) := by
    unfold stepRead
    rw [readRemote_of_not_wantsFetch _ _ _ _ _ _ _ _ hw, hc]
  unfold invoke
  rw [invokeWith_open _ _ _ _ hg hcl, hr]
  refine ⟨rfl, usable_sum sha _ c hc, fun v => ?_⟩
  by_cases hv : v = st.url.id
  · subst hv; simp
  · simp [set_ent_other _ _ _ _ hv]

/-- The availability half of C20 at full strength, as a statement about a fallback rule:
whenever the network gives no content (refused **or** stalled **or** HTTP error) and a
cached copy with the stored checksum exists, that copy is what runs, and the cache is left as it is. -/
def C20_available_full (legacy : Bool) : Prop :=
  ∀ (sha : Content → Sum) (s : RState) (st : Step) (c : Content),
    gate st = none → st.flags.clearCache = false → Unavailable st →
    usable sha (s.ent st.url.id) = some c →
    (invokeWith legacy sha s st).1 = .run c ∧ ∀ v, (invokeWith legacy sha s st).2.ent v = s.ent v

private theorem stepRead_unavailable (legacy sha s st c) (hu : Unavailable st)
    (hc : usable sha (s.ent st.url.id) = some c)
    (hl : legacy = false ∨ net st.flags st.server = .timedOut ∨
      wantsFetch sha (s.now + st.dt) (s.ent st.url.id) st.flags = false) :
    stepRead legacy sha s st = (.run c, s.ent st.url.id) := by
  unfold stepRead
  cases hw : wantsFetch sha (s.now + st.dt) (s.ent st.url.id) st.flags with
  | false => rw [readRemote_of_not_wantsFetch _ _ _ _ _ _ _ _ hw, hc]
  | true =>
    rw [readRemote_of_wantsFetch _ _ _ _ _ _ _ _ hw, hc]
    cases hn : net st.flags st.server with
    | content c' => exact absurd hn (hu c')
    | timedOut => simp [fetch]
    | failed k =>
      rcases hl with hl | hl | hl
      · subst hl; simp [fetch]
      · rw [hn] at hl; cases hl
      · rw [hw] at hl; cases hl

private theorem available_of_stepRead (legacy sha s st c) (hg : gate st = none)
    (hcl : st.flags.clearCache = false)
    (hr : stepRead legacy sha s st = (.run c, s.ent st.url.id)) :
    (invokeWith legacy sha s st).1 = .run c ∧ ∀ v, (invokeWith legacy sha s st).2.ent v = s.ent v := by
  rw [invokeWith_open _ _ _ _ hg hcl, hr]
  refine ⟨rfl, fun v => ?_⟩
  by_cases hv : v = st.url.id
  · subst hv; simp
  · simp [set_ent_other _ _ _ _ hv]

/-- **C20_available** (for the repaired rule, fix F16): in full. -/
theorem C20_available : C20_available_full false := by
  intro sha s st c hg hcl hu hc
  exact available_of_stepRead _ _ _ _ _ hg hcl (stepRead_unavailable false sha s st c hu hc (Or.inl rfl))

/-! ### The rule as it was written (`ctx.Err() != nil && cacheFound`) -/

private def yesFlags : RFlags :=
  { yes := true, download := false, offline := false, insecure := true, expiry := 0,
    patient := false, clearCache := false, experiment := true }
private def url0 : Url := ⟨0, false⟩
/-- download and approve version 1, default expiry -/
private def stGet : Step := ⟨0, url0, yesFlags, .serve 1, .noTerminal⟩
/-- the same command line while the server refuses connections -/
private def stRefused : Step := ⟨0, url0, yesFlags, .fail .refused, .noTerminal⟩
private def stStalled : Step := ⟨0, url0, yesFlags, .slow 1, .noTerminal⟩

/-- what the unrepaired rule gives on DESIGN §8 row 28: the copy approved a moment ago is in
the cache, the server refuses connections, the default `--expiry 0` makes every cache
"expired" — exit code 103, although the repaired rule runs the cached copy. -/
theorem C20_available_legacy_row28 :
    (runWith true id RState.init [stGet, stRefused]).1 = [.run 1, .error 103] ∧
    (runWith false id RState.init [stGet, stRefused]).1 = [.run 1, .run 1] ∧
    (runWith true id RState.init [stGet, stStalled]).1 = [.run 1, .run 1] := by decide

/-- **C20_available_full is false of the rule as it was written.** -/
theorem C20_available_legacy_counterexample : ¬ C20_available_full true := by
  intro h
  have := (h id (runWith true id RState.init [stGet]).2 stRefused 1 (by decide) (by decide)
    (unavailable_of_failed _ _ .refused (by decide)) (by decide)).1
  exact absurd this (by decide)

/-- what did hold before the repair: the cached copy is used when the fetch *timed out*, or when
the decision table does not go to the network at all (unexpired cache without `--download`,
or `--offline`). -/
theorem C20_available_legacy_partial (sha : Content → Sum) (s : RState) (st : Step) (c : Content)
    (hg : gate st = none) (hcl : st.flags.clearCache = false) (hu : Unavailable st)
    (hc : usable sha (s.ent st.url.id) = some c)
    (hside : net st.flags st.server = .timedOut ∨
      wantsFetch sha (s.now + st.dt) (s.ent st.url.id) st.flags = false) :
    (invokeWith true sha s st).1 = .run c ∧ ∀ v, (invokeWith true sha s st).2.ent v = s.ent v :=
  available_of_stepRead _ _ _ _ _ hg hcl (stepRead_unavailable true sha s st c hu hc (Or.inr hside))

/-! ### Once approved, runnable from then on -/

theorem runWith_append (legacy sha) (h1 h2 : List Step) : ∀ s,
    (runWith legacy sha s (h1 ++ h2)).2 = (runWith legacy sha (runWith legacy sha s h1).2 h2).2 := by
  induction h1 with
  | nil => intro s; rfl
  | cons st rest ih => intro s; simp only [List.cons_append, runWith]; exact ih _

/-- without `--clear-cache`, a complete invocation never takes a usable cached copy away -/
theorem usable_persists (legacy sha) (s : RState) (st : Step) (v : Nat)
    (hcl : st.flags.clearCache = false) (h : (usable sha (s.ent v)).isSome = true) :
    (usable sha ((invokeWith legacy sha s st).2.ent v)).isSome = true := by
  cases hg : gate st with
  | some code => rw [invokeWith_gate _ _ _ _ _ hg]; exact h
  | none =>
    rw [invokeWith_open _ _ _ _ hg hcl]
    by_cases hv : v = st.url.id
    · subst hv
      simp only [set_ent_same]
      rcases readRemote_spec legacy sha (s.now + st.dt) (s.ent st.url.id) st.flags
          (net st.flags st.server) st.answer (landing st.url st.server) with ⟨h1, _⟩ | ⟨_, c', _, _, h3, _⟩
      · unfold stepRead; rw [h1]; exact h
      · unfold stepRead; rw [h3]; simp
    · simp only [set_ent_other _ _ _ _ hv, tick_ent]; exact h

theorem usable_persists_run (legacy sha) (h : List Step) : ∀ (s : RState) (v : Nat),
    (∀ x ∈ h, x.flags.clearCache = false) → (usable sha (s.ent v)).isSome = true →
    (usable sha (((runWith legacy sha s h).2).ent v)).isSome = true := by
  induction h with
  | nil => intro s v _ hs; exact hs
  | cons st rest ih =>
    intro s v hx hs
    simp only [runWith]
    exact ih _ v (fun x hx' => hx x (List.mem_cons_of_mem _ hx'))
      (usable_persists legacy sha s st v (hx st List.mem_cons_self) hs)

/-- **C20_stays_runnable**: once an invocation — in whatever state `s`, reached by whatever history
with crashes and damage — has handed on (downloaded-and-approved or cached) content of a URL, then
after *any* further history of complete invocations without `--clear-cache`, an invocation for that
URL made while the network is unavailable, or with `--offline`, runs a copy whose checksum is the
stored one. -/
theorem C20_stays_runnable (sha : Content → Sum) (s : RState) (st : Step) (h2 : List Step)
    (c : Content) (st2 : Step)
    (hrun : (invoke sha s st).1 = .run c)
    (hnc : ∀ x ∈ h2, x.flags.clearCache = false)
    (hu : st2.url.id = st.url.id) (hg : gate st2 = none) (hcl : st2.flags.clearCache = false)
    (hdown : Unavailable st2 ∨ st2.flags.offline = true) :
    ∃ c', (invoke sha (run sha (invoke sha s st).2 h2).2 st2).1 = .run c' ∧
      (((run sha (invoke sha s st).2 h2).2).ent st2.url.id).sum = some (sha c') := by
  obtain ⟨_, hcl1, he⟩ := run_inv false sha s st c hrun
  have hafter : (usable sha (((invoke sha s st).2).ent st.url.id)).isSome = true := by
    unfold invoke at hrun ⊢
    rw [he] at hrun ⊢
    simp only [set_ent_same]
    have := readRemote_run_usable false sha (s.now + st.dt) (s.ent st.url.id) st.flags
      (net st.flags st.server) st.answer (landing st.url st.server) c hrun
    unfold stepRead; rw [this]; rfl
  have hsome := usable_persists_run false sha h2 _ st.url.id hnc hafter
  rw [← hu] at hsome
  unfold run
  cases hc' : usable sha (((runWith false sha (invoke sha s st).2 h2).2).ent st2.url.id) with
  | none => rw [hc'] at hsome; cases hsome
  | some c' =>
    refine ⟨c', ?_, usable_sum sha _ c' hc'⟩
    rcases hdown with hd | hd
    · exact (C20_available sha _ st2 c' hg hcl hd hc').1
    · exact (C20_offline sha _ st2 c' hg hd hcl hc').1

/-! ## The decision table, row by row (DESIGN App. D) -/

/-- no usable copy and `--offline`: 106 -/
theorem C20_offline_no_cache (sha : Content → Sum) (s : RState) (st : Step)
    (hg : gate st = none) (ho : st.flags.offline = true)
    (hc : usable sha (s.ent st.url.id) = none) : (invoke sha s st).1 = .error 106 := by
  have hw : wantsFetch sha (s.now + st.dt) (s.ent st.url.id) st.flags = false := by simp [wantsFetch, hc, ho]
  have hr : stepRead false sha s st = (.error 106, s.ent st.url.id) := by
    unfold stepRead; rw [readRemote_of_not_wantsFetch _ _ _ _ _ _ _ _ hw, hc]
  unfold invoke
  cases hcl : st.flags.clearCache with
  | false => rw [invokeWith_open _ _ _ _ hg hcl, hr]
  | true =>
    rcases invokeWith_clear false sha s st hg hcl with ⟨c, h1, _⟩ | ⟨_, he⟩
    · rw [hr] at h1; cases h1
    · rw [he, hr]

/-- a cached copy that does not have the stored checksum — torn by a crash between the writes,
truncated, replaced — is no cached copy: `--offline` ends with 106 and runs nothing, online it is
downloaded again (and prompted for unless its checksum is the stored one) -/
theorem C20_torn_copy_not_used (sha : Content → Sum) (s : RState) (st : Step) (c : Content)
    (hc : (s.ent st.url.id).content = some c) (hs : (s.ent st.url.id).sum ≠ some (sha c)) :
    usable sha (s.ent st.url.id) = none ∧
    (gate st = none → st.flags.offline = true → (invoke sha s st).1 = .error 106) := by
  have hu : usable sha (s.ent st.url.id) = none := by simp [usable, hc, hs]
  exact ⟨hu, fun hg ho => C20_offline_no_cache sha s st hg ho hu⟩

/-- stored timestamps are never ahead of the clock, crashes and damage included -/
theorem tsOk_applyPre (sha) (s : RState) (p : Pre) (h : TsOk s) : TsOk (applyPre sha s p) := by
  cases p with
  | damage u c =>
    intro v t ht
    simp only [applyPre] at ht
    by_cases hv : v = u
    · subst hv; rw [set_ent_same] at ht; exact h _ t ht
    · rw [set_ent_other _ _ _ _ hv] at ht; exact h v t ht
  | crash st k =>
    have htick : TsOk (s.tick st.dt) := by
      intro v t ht
      have := h v t ht
      show t ≤ s.now + st.dt
      omega
    simp only [applyPre]
    cases gate st with
    | some code => exact htick
    | none =>
      simp only
      cases writes sha (s.tick st.dt).now ((s.tick st.dt).ent st.url.id) st.flags (net st.flags st.server) st.answer with
      | none => exact htick
      | some c =>
        intro v t ht
        simp only at ht
        by_cases hv : v = st.url.id
        · subst hv
          rw [set_ent_same] at ht
          have hcases : (partialWrite sha (s.tick st.dt).now ((s.tick st.dt).ent st.url.id) c
              (landing st.url st.server) k).ts = ((s.tick st.dt).ent st.url.id).ts ∨
              (partialWrite sha (s.tick st.dt).now ((s.tick st.dt).ent st.url.id) c
              (landing st.url st.server) k).ts = some (s.tick st.dt).now := by
            match k with
            | 0 => left; rfl
            | 1 => left; rfl
            | 2 => right; rfl
            | 3 => right; rfl
            | _ + 4 => right; rfl
          rcases hcases with hc | hc
          · rw [hc] at ht; exact htick _ t ht
          · rw [hc] at ht; cases ht; exact Nat.le_refl _
        · rw [set_ent_other _ _ _ _ hv] at ht; exact htick v t ht

theorem tsOk_reachFrom (sha) (h : List Ev) : ∀ s, TsOk s → TsOk (reachFrom sha s h) := by
  induction h with
  | nil => intro s hs; exact hs
  | cons ev rest ih =>
    intro s hs
    simp only [reachFrom]
    apply ih
    cases ev with
    | step st => exact tsOk_invokeWith false sha s st hs
    | pre p => exact tsOk_applyPre sha s p hs

/-- the default expiry 0 makes no cache valid: after any history, every online invocation
goes to the network (stored timestamps are never ahead of the clock) -/
theorem C20_default_expiry_always_fetches (sha : Content → Sum) (h : List Ev) (st : Step)
    (hx : st.flags.expiry = 0) (ho : st.flags.offline = false) :
    wantsFetch sha ((reachEv sha h).now + st.dt) ((reachEv sha h).ent st.url.id) st.flags = true := by
  have hts : TsOk (reachEv sha h) := by rw [reachEv_eq]; exact tsOk_reachFrom sha h _ tsOk_init
  unfold wantsFetch cacheValid
  cases hc : usable sha ((reachEv sha h).ent st.url.id) with
  | none => simp [ho]
  | some c =>
    cases ht : ((reachEv sha h).ent st.url.id).ts with
    | none => simp [ho]
    | some t =>
      have := hts _ t ht
      simp [hx, ho]
      left; omega

/-! ## Same definitions as the driver executes -/

theorem observe_results (legacy sha k) (h : List Ev) : ∀ s,
    (observe legacy sha k s h).map (·.1) = (runEvWith legacy sha s h).1 := by
  induction h with
  | nil => intro s; rfl
  | cons ev rest ih =>
    intro s
    cases ev with
    | step st => simp only [observe, runEvWith, List.map_cons]; rw [ih]
    | pre p => simp only [observe, runEvWith]; rw [ih]

/-! ## Non-vacuity: concrete histories meeting the hypotheses -/

private def noFlags : RFlags := { yesFlags with yes := false }
private def stChanged : Step := ⟨0, url0, noFlags, .serve 2, .noTerminal⟩
private def stDecline : Step := ⟨0, url0, noFlags, .serve 2, .decline⟩
private def stAccept : Step := ⟨0, url0, noFlags, .serve 2, .accept⟩
private def stOffline : Step := ⟨0, url0, { noFlags with offline := true }, .serve 2, .noTerminal⟩
private def stHttp : Step := ⟨0, url0, { yesFlags with insecure := false }, .serve 1, .accept⟩
private def stHour : Step := ⟨0, url0, { noFlags with expiry := 1 }, .serve 2, .noTerminal⟩
private def stAged : Step := ⟨2, url0, { noFlags with expiry := 1 }, .fail .notFound, .noTerminal⟩
private def steps (h : List Step) : List Ev := h.map .step

-- first use without approval: 104; approved download; changed content unapproved: 104 and the
-- old copy stays; offline runs the old copy; accepted prompt switches; http without --insecure: 105
example : (run id RState.init [stChanged, stGet, stChanged, stDecline, stOffline, stAccept, stOffline, stHttp]).1
    = [.error 104, .run 1, .error 104, .error 104, .run 1, .run 2, .run 2, .error 105] := by decide
-- hypotheses of `unapproved_refused` are met by `stChanged` after `stGet`
example : gate stChanged = none ∧
    wantsFetch id ((reach id [stGet]).now + 0) ((reach id [stGet]).ent 0) stChanged.flags = true ∧
    ((reach id [stGet]).ent 0).sum ≠ some (id 2) ∧ approves stChanged.flags stChanged.answer = false := by decide
-- `ApprovedNow` is met by an accepted prompt for the new checksum — and NOT by an `accept` typed when
-- the offered content already has the stored checksum (no prompt is shown then)
example : ApprovedNow id (reach id [stGet]) stAccept 2 :=
  ⟨by decide, by decide, ⟨2, by decide, rfl⟩, by decide, by decide⟩
example : ¬ ApprovedNow id (reach id [stGet, stAccept]) stAccept 2 := by
  intro h; exact absurd h.2.2.2.1 (by decide)
-- an unexpired cache is used without asking the (changed) server; once aged past the expiry the
-- server is asked, and its 404 falls back to the copy
example : (run id RState.init [stGet, stHour, stAged]).1 = [.run 1, .run 1, .run 1] := by decide
example : (runWith true id RState.init [stGet, stHour, stAged]).1 = [.run 1, .run 1, .error 100] := by decide
example : Unavailable stRefused ∧ Unavailable stStalled ∧ Unavailable stAged :=
  ⟨unavailable_of_failed _ _ .refused (by decide), unavailable_of_timedOut _ _ (by decide),
   unavailable_of_failed _ _ .notFound (by decide)⟩
example : usable id ((reach id [stGet]).ent 0) = some 1 := by decide
-- no cache: refused 103, stalled 108, offline 106
example : (run id RState.init [stRefused, stStalled, stOffline]).1 = [.error 103, .error 108, .error 106] := by decide

-- **torn states.**  Version 1 is approved and cached; an invocation that downloads and approves
-- version 2 is killed after `WriteChecksum` (`crash … 1`): `.checksum` = 2, `.yaml` = 1.  `--offline`
-- does not run the old copy (106); online the new version is downloaded without a prompt (its checksum
-- is the approved one) and runs; a `.yaml` replaced by unapproved content 7 is not used either.
private def stGet2 : Step := ⟨0, url0, yesFlags, .serve 2, .noTerminal⟩
example : (runEvWith false id RState.init
      [.step stGet, .pre (.crash stGet2 1), .step stOffline, .step stChanged, .step stOffline,
       .pre (.damage 0 (some 7)), .step stOffline, .pre (.damage 0 none), .step stOffline]).1
    = [.run 1, .error 106, .run 2, .run 2, .error 106, .error 106] := by decide
example : ((reachEv id [.step stGet, .pre (.crash stGet2 1)]).ent 0).content = some 1 ∧
    ((reachEv id [.step stGet, .pre (.crash stGet2 1)]).ent 0).sum = some 2 := by decide
-- the killed invocation is the one that approved checksum 2 (`C20_sum_approved`)
example : ApprovesEv id (reachEv id [.step stGet]) (.pre (.crash stGet2 1)) 0 2 :=
  ⟨rfl, by decide, by decide, ⟨2, by decide, rfl⟩, by decide, by decide⟩

-- a size-limited download of version 2 after version 1: exit 1, `.checksum` = 2, `.yaml` = garbage;
-- then `--offline`: 106; online: version 2 without a prompt
example : (observeL false id 1 RState.init
      [.ev (.step stGet), .limited stGet2, .ev (.step stOffline), .ev (.step stChanged)]).map
    (fun o => (o.1, o.2.map (fun e => (e.content, e.sum))))
    = [(.run 1, [(some 1, some 1)]), (.error 1, [(some 0, some 2)]), (.error 106, [(some 0, some 2)]),
       (.run 2, [(some 2, some 2)])] := by decide
example : limitedPre id (reach id [stGet]) stGet2 = some [.crash stGet2 3, .damage 0 (some 0)] := by decide

-- **redirects.**  URL 6 is https; its server redirects to the plain-http URL 13
private def url6 : Url := ⟨6, true⟩
private def secureFlags : RFlags := { yesFlags with insecure := false }
private def stRedirPlain : Step := ⟨0, url6, secureFlags, .redirect ⟨13, false⟩ (.serve 1), .noTerminal⟩
private def stRedirPlainInsecure : Step := ⟨0, url6, yesFlags, .redirect ⟨13, false⟩ (.serve 1), .noTerminal⟩
private def stRedirTls : Step := ⟨0, url6, secureFlags, .redirect ⟨14, true⟩ (.serve 1), .noTerminal⟩
private def stRedirTwice : Step :=
  ⟨0, url6, secureFlags, .redirect ⟨14, true⟩ (.redirect ⟨13, false⟩ (.serve 1)), .noTerminal⟩
-- https → http without --insecure: 105, nothing cached; with --insecure or https → https: runs;
-- afterwards the refused redirect falls back to the approved copy
example : (run id RState.init [stRedirPlain, stRedirTwice, stRedirTls, stRedirPlain, stRedirPlainInsecure]).1
    = [.error 105, .error 105, .run 1, .run 1, .run 1] := by decide
example : gate stRedirPlain = none ∧ refusedHop stRedirPlain.flags stRedirPlain.server = true ∧
    refusedHop stRedirTwice.flags stRedirTwice.server = true ∧
    refusedHop stRedirTls.flags stRedirTls.server = false := by decide
example : requested stRedirTwice.flags stRedirTwice.url stRedirTwice.server = [⟨6, true⟩, ⟨14, true⟩] ∧
    requested yesFlags url6 stRedirTwice.server = [⟨6, true⟩, ⟨14, true⟩, ⟨13, false⟩] := by decide

/-! # Chains: one invocation reads a remote Taskfile *and* the remote Taskfile it includes

`TaskModel.Remote.Chain`: `invokeChain sha inc s st` — node 1 as above, then, if the content
node 1 yields includes a remote Taskfile (`inc c1 b = some u2`, `b` = the location stored with node
1's cached copy: `base1`), node 2 = `u2`, read by the same `readRemote` against its own cache
entry, its own server behaviour and its own prompt answer, under the **one `--timeout` deadline of
the invocation**: once node 1's fetch has timed out the deadline has passed (`spent1`), and node 2's
fetch comes back `timedOut` at once, whatever its server would do (`net2`).  `inc` is a parameter
like `sha`: nothing is assumed about it.  All statements below are for arbitrary states (hence for
arbitrary histories of chain invocations, crashes and damage: `reachChainEv`). -/

/-! ## Per-node facts used for both nodes -/

/-- what a node hands on has the stored checksum afterwards, and that checksum was stored
before or a prompt for it is passed in this very read -/
theorem node_trust (legacy sha now e f n a r c)
    (h : (readRemote legacy sha now e f n a r).1 = .run c) :
    (readRemote legacy sha now e f n a r).2.sum = some (sha c) ∧
    (e.sum = some (sha c) ∨ (needsPrompt e (sha c) = true ∧ approves f a = true)) := by
  rcases readRemote_spec legacy sha now e f n a r with ⟨h1, h2⟩ | ⟨_, c', _, h2, h3, h4⟩
  · have hc := usable_sum sha _ c (h2 c h)
    rw [h1]; exact ⟨hc, Or.inl hc⟩
  · rw [h2] at h; cases h
    rw [h3]; exact ⟨rfl, h4⟩

/-- a node's entry changes only by the four writes of downloaded content whose checksum was
the stored one already or for which a prompt is passed in this very read -/
theorem node_write (legacy sha now e f n a r) (h : (readRemote legacy sha now e f n a r).2 ≠ e) :
    ∃ c, n = .content c ∧ (readRemote legacy sha now e f n a r).1 = .run c ∧
      (readRemote legacy sha now e f n a r).2 = written sha now e c r ∧
      (e.sum = some (sha c) ∨ (needsPrompt e (sha c) = true ∧ approves f a = true)) := by
  rcases readRemote_spec legacy sha now e f n a r with ⟨h1, _⟩ | ⟨_, c, hn, h2, h3, h4⟩
  · exact absurd h1 h
  · exact ⟨c, hn, h2, h3, h4⟩

/-- new or changed content without approval: 104, entry untouched -/
theorem node_unapproved (legacy sha now e f n a r c) (hw : wantsFetch sha now e f = true)
    (hn : n = .content c) (hs : e.sum ≠ some (sha c)) (ha : approves f a = false) :
    readRemote legacy sha now e f n a r = (.error 104, e) := by
  rw [readRemote_of_wantsFetch _ _ _ _ _ _ _ _ hw, hn]
  have hp : needsPrompt e (sha c) = true := by
    cases hp : needsPrompt e (sha c) with
    | true => rfl
    | false => exact absurd ((needsPrompt_false_iff _ _).mp hp) hs
  simp [fetch, hp, ha]

/-- **availability of one node** (repaired rule): whenever the fetch gives no content — refused,
HTTP error, refused redirect, stalled past `--timeout`, *or the shared deadline had passed before
the read began* — or no fetch is made at all, a usable cached copy is what the node yields, and its
entry stays as it is -/
theorem node_available (sha now e f n a r c) (hu : ∀ c', n ≠ .content c') (hc : usable sha e = some c) :
    readRemote false sha now e f n a r = (.run c, e) := by
  cases hw : wantsFetch sha now e f with
  | false => rw [readRemote_of_not_wantsFetch _ _ _ _ _ _ _ _ hw, hc]
  | true =>
    rw [readRemote_of_wantsFetch _ _ _ _ _ _ _ _ hw, hc]
    cases n with
    | content c' => exact absurd rfl (hu c')
    | timedOut => simp [fetch]
    | failed k => simp [fetch]

/-- `--offline` (with the `--download` that `flags.Validate` then forbids off): the network
outcome, the answer and the place a download would land at are not looked at -/
theorem node_offline (legacy sha now e f n a r) (ho : f.offline = true) (hd : f.download = false) :
    readRemote legacy sha now e f n a r = (match usable sha e with | some c => .run c | none => .error 106, e) := by
  apply readRemote_of_not_wantsFetch
  unfold wantsFetch
  cases usable sha e <;> simp [ho, hd]

theorem spent_offline (sha now e) (f : RFlags) (n) (ho : f.offline = true) (hd : f.download = false) :
    spent sha now e f n = false := by
  unfold spent wantsFetch
  cases n <;> cases usable sha e <;> simp [ho, hd]

theorem liftErr_ne_run (r : RResult) (h : ∀ c, r ≠ .run c) (c1 c2) : liftErr r ≠ .run c1 c2 := by
  cases r with
  | run c => exact absurd rfl (h c)
  | cleared => intro h'; cases h'
  | error code => intro h'; cases h'

theorem after2_ent_same (legacy sha s st u2) :
    (after2 legacy sha s st u2).ent u2.id = (read2 legacy sha s st u2).2 := by
  simp [after2]

theorem after2_ent_other (legacy sha s st u2 v) (hv : v ≠ u2.id) :
    (after2 legacy sha s st u2).ent v = (after1 legacy sha s st).ent v := by
  simp [after2, set_ent_other _ _ _ _ hv]

/-! ## Cache writes only after trust — for both nodes -/

/-- a prompt for the checksum of `c`, offered for the entry `e`, is passed with the answer `a` -/
def Passed (sha : Content → Sum) (e : Entry) (f : RFlags) (a : Answer) (c : Content) : Prop :=
  needsPrompt e (sha c) = true ∧ approves f a = true

/-- node 1's entry now holds the four writes of content its server gave, whose checksum was
the stored one already or for which a prompt was passed (`--yes` / node 1's prompt accepted) in
this invocation -/
def Wrote1 (sha : Content → Sum) (s : RState) (st : CStep) (v : Nat) (e : Entry) : Prop :=
  v = st.base.url.id ∧ ∃ c, net st.base.flags st.base.server = .content c ∧
    e = written sha (s.now + st.base.dt) (s.ent v) c (landing st.base.url st.base.server) ∧
    ((s.ent v).sum = some (sha c) ∨ Passed sha (s.ent v) st.base.flags st.base.answer c)

/-- the same for node 2: it was read (node 1 yielded content that includes it), the deadline had
not passed, its server gave content, the checksum was known or node 2's own prompt was passed -/
def Wrote2 (legacy : Bool) (sha : Content → Sum) (inc : Content → Url → Option Url) (s : RState) (st : CStep)
    (v : Nat) (e : Entry) : Prop :=
  ∃ c1 u2, (read1 legacy sha s st).1 = .run c1 ∧ inc c1 (base1 legacy sha s st) = some u2 ∧ v = u2.id ∧
    v ≠ st.base.url.id ∧
    spent1 sha s st = false ∧ ∃ c, net st.base.flags st.hop.server = .content c ∧
    e = written sha (s.now + st.base.dt) (s.ent v) c (landing u2 st.hop.server) ∧
    ((s.ent v).sum = some (sha c) ∨ Passed sha (s.ent v) st.base.flags st.hop.answer c)

theorem net2_content (sp : Bool) (f sv c) (h : net2 sp f sv = .content c) : sp = false ∧ net f sv = .content c := by
  unfold net2 at h
  cases sp with
  | true => simp at h
  | false => exact ⟨rfl, by simpa using h⟩

theorem after1_change (legacy sha s st v) (h : (after1 legacy sha s st).ent v ≠ s.ent v) :
    Wrote1 sha s st v ((after1 legacy sha s st).ent v) := by
  by_cases hv : v = st.base.url.id
  · subst hv
    rw [after1_ent_same] at h ⊢
    obtain ⟨c, hn, _, hw, ha⟩ := node_write _ _ _ _ _ _ _ _ h
    exact ⟨rfl, c, hn, hw, ha⟩
  · exact absurd (after1_ent_other _ _ _ _ _ hv) h

theorem after2_change (legacy sha inc s st c1 u2 v) (h1 : (read1 legacy sha s st).1 = .run c1)
    (hi : inc c1 (base1 legacy sha s st) = some u2) (hu : u2.id ≠ st.base.url.id)
    (h : (after2 legacy sha s st u2).ent v ≠ s.ent v) :
    Wrote1 sha s st v ((after2 legacy sha s st u2).ent v) ∨
    Wrote2 legacy sha inc s st v ((after2 legacy sha s st u2).ent v) := by
  by_cases hv : v = u2.id
  · subst hv
    right
    rw [after2_ent_same, read2_eq _ _ _ _ _ hu] at h ⊢
    obtain ⟨c, hn, _, hw, ha⟩ := node_write _ _ _ _ _ _ _ _ h
    obtain ⟨hsp, hn'⟩ := net2_content _ _ _ _ hn
    exact ⟨c1, u2, h1, hi, rfl, hu, hsp, c, hn', hw, ha⟩
  · left
    rw [after2_ent_other _ _ _ _ _ _ hv] at h ⊢
    exact after1_change _ _ _ _ _ h

/-- **Cache written only after trust, for every node of the chain**: whatever entry differs after
an invocation was either dropped by a successful `--clear-cache`, or is node 1's or node 2's and
holds exactly the four writes of downloaded content whose checksum was already the stored
one or for which a prompt was passed — by `--yes` or by *that node's* accepted prompt — in this
invocation. -/
theorem chain_write_spec (legacy sha inc s st v)
    (h : (invokeChainWith legacy sha inc s st).2.ent v ≠ s.ent v) :
    (st.base.flags.clearCache = true ∧ (invokeChainWith legacy sha inc s st).1 = .cleared ∧
      (invokeChainWith legacy sha inc s st).2.ent v = Entry.empty) ∨
    Wrote1 sha s st v ((invokeChainWith legacy sha inc s st).2.ent v) ∨
    Wrote2 legacy sha inc s st v ((invokeChainWith legacy sha inc s st).2.ent v) := by
  cases shape legacy sha inc s st with
  | gated code _ he => rw [he] at h; exact absurd rfl h
  | err1 _ _ he => rw [he] at h ⊢; exact Or.inr (Or.inl (after1_change _ _ _ _ _ h))
  | cycle c1 u2 _ _ _ _ he => rw [he] at h ⊢; exact Or.inr (Or.inl (after1_change _ _ _ _ _ h))
  | gated2 c1 u2 code _ _ _ _ _ he => rw [he] at h ⊢; exact Or.inr (Or.inl (after1_change _ _ _ _ _ h))
  | single c1 _ _ _ he =>
    rw [he] at h ⊢
    cases hc : st.base.flags.clearCache with
    | false =>
      rw [finish_keep _ _ _ hc] at h ⊢; exact Or.inr (Or.inl (after1_change _ _ _ _ _ h))
    | true => rw [finish_clear _ _ _ hc]; exact Or.inl ⟨rfl, rfl, rfl⟩
  | err2 c1 u2 _ h1 hi hu _ _ he =>
    rw [he] at h ⊢; exact Or.inr (after2_change _ _ _ _ _ _ _ _ h1 hi hu h)
  | both c1 u2 c2 _ h1 hi hu _ _ he =>
    rw [he] at h ⊢
    cases hc : st.base.flags.clearCache with
    | false =>
      rw [finish_keep _ _ _ hc] at h ⊢; exact Or.inr (after2_change _ _ _ _ _ _ _ _ h1 hi hu h)
    | true => rw [finish_clear _ _ _ hc]; exact Or.inl ⟨rfl, rfl, rfl⟩

/-! ## Trust -/

/-- What C20 demands of one chain invocation `st` made in state `s`. -/
structure TrustChain (sha : Content → Sum) (inc : Content → Url → Option Url) (s : RState) (st : CStep) : Prop where
  /-- node 1's content handed on for execution has the checksum that is the stored one for its URL
  at that moment, stored before or approved in this very invocation by a prompt for exactly it
  (`--yes` / node 1's prompt accepted) -/
  ran1_is_approved : ∀ c1 c2, (invokeChain sha inc s st).1 = .run c1 c2 →
    ((invokeChain sha inc s st).2.ent st.base.url.id).sum = some (sha c1) ∧
    ((s.ent st.base.url.id).sum = some (sha c1) ∨
      Passed sha (s.ent st.base.url.id) st.base.flags st.base.answer c1)
  /-- node 2's content handed on for execution is that of the URL node 1's content includes (seen from
  the location stored with node 1's copy), has the checksum that is the stored one for *that* URL,
  stored before or approved in this very invocation by node 2's own prompt (or `--yes`) -/
  ran2_is_approved : ∀ c1 c2, (invokeChain sha inc s st).1 = .run c1 (some c2) →
    ∃ u2, inc c1 (base1 false sha s st) = some u2 ∧ u2.id ≠ st.base.url.id ∧
      ((invokeChain sha inc s st).2.ent u2.id).sum = some (sha c2) ∧
      ((s.ent u2.id).sum = some (sha c2) ∨ Passed sha (s.ent u2.id) st.base.flags st.hop.answer c2)
  /-- node 1's content runs alone only if it includes nothing remote -/
  ran_alone : ∀ c1, (invokeChain sha inc s st).1 = .run c1 none → inc c1 (base1 false sha s st) = none
  /-- cache files are written only after trust, for both nodes (`chain_write_spec`) -/
  written_after_trust : ∀ v, (invokeChain sha inc s st).2.ent v ≠ s.ent v →
    (st.base.flags.clearCache = true ∧ (invokeChain sha inc s st).1 = .cleared ∧
      (invokeChain sha inc s st).2.ent v = Entry.empty) ∨
    Wrote1 sha s st v ((invokeChain sha inc s st).2.ent v) ∨
    Wrote2 false sha inc s st v ((invokeChain sha inc s st).2.ent v)
  /-- the stored checksum of any URL changes only to the checksum of content downloaded in this
  invocation for that URL as node 1 or node 2, under a passed prompt of that node — or
  the whole cache is dropped by `--clear-cache` -/
  change_needs_approval : ∀ v, ((invokeChain sha inc s st).2.ent v).sum ≠ (s.ent v).sum →
    (st.base.flags.clearCache = true ∧ (invokeChain sha inc s st).1 = .cleared) ∨
    (v = st.base.url.id ∧
      ∃ c, net st.base.flags st.base.server = .content c ∧ Passed sha (s.ent v) st.base.flags st.base.answer c ∧
        ((invokeChain sha inc s st).2.ent v).sum = some (sha c)) ∨
    (v ≠ st.base.url.id ∧
      ∃ c1 u2 c, (read1 false sha s st).1 = .run c1 ∧ inc c1 (base1 false sha s st) = some u2 ∧ v = u2.id ∧
        net st.base.flags st.hop.server = .content c ∧ Passed sha (s.ent v) st.base.flags st.hop.answer c ∧
        ((invokeChain sha inc s st).2.ent v).sum = some (sha c))
  /-- node 1 offers new or changed content without approval: 104, nothing executed, node 2 is not
  read, no cache file of any URL touched -/
  unapproved1_refused : ∀ c, gate st.base = none →
    wantsFetch sha (s.now + st.base.dt) (s.ent st.base.url.id) st.base.flags = true →
    net st.base.flags st.base.server = .content c → (s.ent st.base.url.id).sum ≠ some (sha c) →
    approves st.base.flags st.base.answer = false →
    (invokeChain sha inc s st).1.exit = 104 ∧ (invokeChain sha inc s st).1.trace = [] ∧
    ∀ v, (invokeChain sha inc s st).2.ent v = s.ent v
  /-- node 2 offers new or changed content without approval: 104, **nothing executed — not node 1's
  content either** — and no cache file other than node 1's is touched -/
  unapproved2_refused : ∀ c1 u2 c, gate st.base = none → (read1 false sha s st).1 = .run c1 →
    inc c1 (base1 false sha s st) = some u2 → u2.id ≠ st.base.url.id → gate2 st.base.flags u2 = none →
    wantsFetch sha (s.now + st.base.dt) (s.ent u2.id) st.base.flags = true →
    net2 (spent1 sha s st) st.base.flags st.hop.server = .content c → (s.ent u2.id).sum ≠ some (sha c) →
    approves st.base.flags st.hop.answer = false →
    (invokeChain sha inc s st).1.exit = 104 ∧ (invokeChain sha inc s st).1.trace = [] ∧
      ∀ v, v ≠ st.base.url.id → (invokeChain sha inc s st).2.ent v = s.ent v

theorem chain_ran (legacy sha inc s st) (c1 : Content) (c2 : Option Content)
    (h : (invokeChainWith legacy sha inc s st).1 = .run c1 c2) :
    (((invokeChainWith legacy sha inc s st).2.ent st.base.url.id).sum = some (sha c1) ∧
      ((s.ent st.base.url.id).sum = some (sha c1) ∨
        Passed sha (s.ent st.base.url.id) st.base.flags st.base.answer c1)) ∧
    (c2 = none → inc c1 (base1 legacy sha s st) = none) ∧
    (∀ c2', c2 = some c2' → ∃ u2, inc c1 (base1 legacy sha s st) = some u2 ∧ u2.id ≠ st.base.url.id ∧
      ((invokeChainWith legacy sha inc s st).2.ent u2.id).sum = some (sha c2') ∧
      ((s.ent u2.id).sum = some (sha c2') ∨ Passed sha (s.ent u2.id) st.base.flags st.hop.answer c2')) := by
  have t1 : ∀ c, (read1 legacy sha s st).1 = .run c →
      (read1 legacy sha s st).2.sum = some (sha c) ∧
      ((s.ent st.base.url.id).sum = some (sha c) ∨
        Passed sha (s.ent st.base.url.id) st.base.flags st.base.answer c) :=
    fun c hc => node_trust _ _ _ _ _ _ _ _ c hc
  cases shape legacy sha inc s st with
  | gated code _ he => rw [he] at h; cases h
  | err1 _ hn he => rw [he] at h; exact absurd h (liftErr_ne_run _ hn _ _)
  | cycle c1' u2 _ _ _ _ he => rw [he] at h; cases h
  | gated2 c1' u2 code _ _ _ _ _ he => rw [he] at h; cases h
  | err2 c1' u2 _ _ _ _ _ hn he => rw [he] at h; exact absurd h (liftErr_ne_run _ hn _ _)
  | single c1' _ h1 hinc he =>
    rw [he] at h ⊢
    cases hc : st.base.flags.clearCache with
    | true => rw [finish_clear _ _ _ hc] at h; cases h
    | false =>
      rw [finish_keep _ _ _ hc] at h ⊢
      cases h
      refine ⟨?_, fun _ => hinc, fun c2' h' => (by cases h')⟩
      simp only [after1_ent_same]
      exact t1 c1 h1
  | both c1' u2 c2' _ h1 hinc hu _ h2 he =>
    rw [he] at h ⊢
    cases hc : st.base.flags.clearCache with
    | true => rw [finish_clear _ _ _ hc] at h; cases h
    | false =>
      rw [finish_keep _ _ _ hc] at h ⊢
      cases h
      refine ⟨?_, fun h' => (by cases h'), fun c2'' h' => ?_⟩
      · rw [after2_ent_other _ _ _ _ _ _ (Ne.symm hu), after1_ent_same]
        exact t1 c1 h1
      · cases h'
        refine ⟨u2, hinc, hu, ?_⟩
        rw [after2_ent_same]
        have h2' := h2
        rw [read2_eq _ _ _ _ _ hu] at h2' ⊢
        exact node_trust _ _ _ _ _ _ _ _ _ h2'

theorem chain_change (legacy sha inc s st v)
    (h : ((invokeChainWith legacy sha inc s st).2.ent v).sum ≠ (s.ent v).sum) :
    (st.base.flags.clearCache = true ∧ (invokeChainWith legacy sha inc s st).1 = .cleared) ∨
    (v = st.base.url.id ∧
      ∃ c, net st.base.flags st.base.server = .content c ∧ Passed sha (s.ent v) st.base.flags st.base.answer c ∧
        ((invokeChainWith legacy sha inc s st).2.ent v).sum = some (sha c)) ∨
    (v ≠ st.base.url.id ∧
      ∃ c1 u2 c, (read1 legacy sha s st).1 = .run c1 ∧ inc c1 (base1 legacy sha s st) = some u2 ∧ v = u2.id ∧
        net st.base.flags st.hop.server = .content c ∧ Passed sha (s.ent v) st.base.flags st.hop.answer c ∧
        ((invokeChainWith legacy sha inc s st).2.ent v).sum = some (sha c)) := by
  have hne : (invokeChainWith legacy sha inc s st).2.ent v ≠ s.ent v := by
    intro he; rw [he] at h; exact h rfl
  rcases chain_write_spec legacy sha inc s st v hne with ⟨hc, hr, _⟩ | ⟨hv, c, hn, hw, ha⟩ |
      ⟨c1, u2, h1, hi, hv, hvn, _, c, hn, hw, ha⟩
  · exact Or.inl ⟨hc, hr⟩
  · right; left
    rw [hw] at h ⊢
    refine ⟨hv, c, hn, ?_, rfl⟩
    rcases ha with ha | ha
    · simp only [written_sum] at h; exact absurd ha.symm h
    · exact ha
  · right; right
    rw [hw] at h ⊢
    refine ⟨hvn, c1, u2, c, h1, hi, hv, hn, ?_, rfl⟩
    rcases ha with ha | ha
    · simp only [written_sum] at h; exact absurd ha.symm h
    · exact ha

theorem chain_unapproved1 (legacy sha inc s st c) (hg : gate st.base = none)
    (hw : wantsFetch sha (s.now + st.base.dt) (s.ent st.base.url.id) st.base.flags = true)
    (hn : net st.base.flags st.base.server = .content c) (hs : (s.ent st.base.url.id).sum ≠ some (sha c))
    (ha : approves st.base.flags st.base.answer = false) :
    (invokeChainWith legacy sha inc s st).1 = .error 104 ∧
      ∀ v, (invokeChainWith legacy sha inc s st).2.ent v = s.ent v := by
  have hr : read1 legacy sha s st = (.error 104, s.ent st.base.url.id) :=
    node_unapproved _ _ _ _ _ _ _ _ c hw hn hs ha
  have h1 : ∀ c', (read1 legacy sha s st).1 ≠ .run c' := by intro c' hc; rw [hr] at hc; cases hc
  rw [invokeChainWith_err1 _ _ _ _ _ hg h1, hr]
  refine ⟨rfl, fun v => ?_⟩
  by_cases hv : v = st.base.url.id
  · subst hv; rw [after1_ent_same, hr]
  · exact after1_ent_other _ _ _ _ _ hv

theorem chain_unapproved2 (legacy sha inc s st c1 u2 c) (hg : gate st.base = none)
    (h1 : (read1 legacy sha s st).1 = .run c1) (hi : inc c1 (base1 legacy sha s st) = some u2)
    (hu : u2.id ≠ st.base.url.id)
    (hg2 : gate2 st.base.flags u2 = none)
    (hw : wantsFetch sha (s.now + st.base.dt) (s.ent u2.id) st.base.flags = true)
    (hn : net2 (spent1 sha s st) st.base.flags st.hop.server = .content c)
    (hs : (s.ent u2.id).sum ≠ some (sha c)) (ha : approves st.base.flags st.hop.answer = false) :
    (invokeChainWith legacy sha inc s st).1 = .error 104 ∧
      ∀ v, v ≠ st.base.url.id → (invokeChainWith legacy sha inc s st).2.ent v = s.ent v := by
  have hr : read2 legacy sha s st u2 = (.error 104, s.ent u2.id) := by
    rw [read2_eq _ _ _ _ _ hu]; exact node_unapproved _ _ _ _ _ _ _ _ c hw hn hs ha
  have h2 : ∀ c', (read2 legacy sha s st u2).1 ≠ .run c' := by intro c' hc; rw [hr] at hc; cases hc
  rw [invokeChainWith_err2 _ _ _ _ _ _ _ hg h1 hi hu hg2 h2, hr]
  refine ⟨rfl, fun v hv1 => ?_⟩
  by_cases hv : v = u2.id
  · subst hv; rw [after2_ent_same, hr]
  · rw [after2_ent_other _ _ _ _ _ _ hv]; exact after1_ent_other _ _ _ _ _ hv1

/-- **every state** satisfies the chain trust clauses -/
theorem trustChain (sha inc s st) : TrustChain sha inc s st where
  ran1_is_approved c1 c2 h := (chain_ran false sha inc s st c1 c2 h).1
  ran2_is_approved c1 c2 h := (chain_ran false sha inc s st c1 (some c2) h).2.2 c2 rfl
  ran_alone c1 h := (chain_ran false sha inc s st c1 none h).2.1 rfl
  written_after_trust v h := chain_write_spec false sha inc s st v h
  change_needs_approval v h := chain_change false sha inc s st v h
  unapproved1_refused c hg hw hn hs ha := by
    obtain ⟨h1, h2⟩ := chain_unapproved1 false sha inc s st c hg hw hn hs ha
    unfold invokeChain; rw [h1]; exact ⟨rfl, rfl, h2⟩
  unapproved2_refused c1 u2 c hg h1 hinc hu hg2 hw hn hs ha := by
    obtain ⟨h1', h2⟩ := chain_unapproved2 false sha inc s st c1 u2 c hg h1 hinc hu hg2 hw hn hs ha
    unfold invokeChain; rw [h1']; exact ⟨rfl, rfl, h2⟩

/-- **C20_chain_trust**: after *every* history of chain invocations, crashes and damage, whatever
the next invocation is (any flags, any behaviour of either node's server, any answers, any `inc`,
any `sha`): content of either node is handed on for execution only with the checksum stored for
*its* URL; cache files and stored checksums change only after trust, node by node; unapproved new or
changed content of either node ends in 104 with nothing run. -/
theorem C20_chain_trust (sha : Content → Sum) (inc : Content → Url → Option Url) (h : List CEv) (st : CStep) :
    TrustChain sha inc (reachChainEv sha inc h) st :=
  trustChain sha inc _ st

def AlwaysChain (sha : Content → Sum) (inc : Content → Url → Option Url) (P : RState → CStep → Prop) :
    RState → List CEv → Prop
  | _, [] => True
  | s, .step st :: rest => P s st ∧ AlwaysChain sha inc P (invokeChain sha inc s st).2 rest
  | s, .pre p :: rest => AlwaysChain sha inc P (applyPre sha s p) rest

/-- the same, for every invocation *inside* an arbitrary history -/
theorem C20_chain_trust_always (sha : Content → Sum) (inc : Content → Url → Option Url) (h : List CEv) :
    AlwaysChain sha inc (TrustChain sha inc) RState.init h := by
  suffices ∀ s, AlwaysChain sha inc (TrustChain sha inc) s h from this _
  induction h with
  | nil => intro _; trivial
  | cons ev rest ih =>
    intro s
    cases ev with
    | step st => exact ⟨trustChain sha inc s st, ih _⟩
    | pre p => exact ih _

/-- a chain whose contents include nothing remote is exactly the single-node invocation above -/
theorem C20_chain_extends (sha : Content → Sum) (s : RState) (st : CStep) :
    invokeChain sha (fun _ _ => none) s st = (liftResult (invoke sha s st.base).1, (invoke sha s st.base).2) :=
  invokeChainWith_noinc false sha s st

/-! ## Offline: no network use, for either node -/

/-- **C20_chain_offline_no_network**: under `--offline` the outcome of the whole chain and the
cache it leaves do not depend on what either server would do, nor on the answers: nothing is
asked of the network and nobody is prompted. -/
theorem C20_chain_offline_no_network (sha : Content → Sum) (inc : Content → Url → Option Url) (s : RState)
    (st st' : CStep) (ho : st.base.flags.offline = true)
    (hdt : st'.base.dt = st.base.dt) (hurl : st'.base.url = st.base.url) (hf : st'.base.flags = st.base.flags) :
    invokeChain sha inc s st' = invokeChain sha inc s st := by
  have hgate : gate st'.base = gate st.base := by simp [gate, hurl, hf]
  cases hg : gate st.base with
  | some code =>
    unfold invokeChain
    rw [invokeChainWith_gate _ _ _ _ _ _ hg, invokeChainWith_gate _ _ _ _ _ _ (hgate.trans hg), hdt]
  | none =>
    have hd : st.base.flags.download = false := by
      have hok := ((gate_none_iff st.base).mp hg).1
      cases hd : st.base.flags.download with
      | false => rfl
      | true => simp [flagsOk, hd, ho] at hok
    unfold invokeChain invokeChainWith
    simp only [hgate, hg, hdt, hurl, hf, hopRead, node_offline _ _ _ _ _ _ _ _ ho hd, spent_offline _ _ _ _ _ ho hd]

/-- the URL node 1's includes are resolved against when node 1 comes out of the cache: the location
stored with the cached copy -/
def cbase (s : RState) (st : CStep) : Url := baseOf st.base.url (s.ent st.base.url.id)

/-- node 1 comes out of the cache untouched ⇒ its includes are resolved against the stored location -/
theorem base1_of_cached (legacy sha s st r) (h : read1 legacy sha s st = (r, s.ent st.base.url.id)) :
    base1 legacy sha s st = cbase s st := by
  simp [base1, cbase, h]

/-- **C20_chain_offline**: in any state, with usable cached copies `c1` of node 1 and — if `c1`,
seen from the location stored with it, includes a remote Taskfile — `c2` of that one, `--offline`
runs exactly these, for every expiry, clock, server behaviour and answer, and touches nothing. -/
theorem C20_chain_offline (sha : Content → Sum) (inc : Content → Url → Option Url) (s : RState) (st : CStep)
    (c1 : Content) (hg : gate st.base = none) (ho : st.base.flags.offline = true)
    (hcl : st.base.flags.clearCache = false)
    (hc1 : usable sha (s.ent st.base.url.id) = some c1) :
    (s.ent st.base.url.id).sum = some (sha c1) ∧
    (inc c1 (cbase s st) = none →
      (invokeChain sha inc s st).1 = .run c1 none ∧
      ∀ v, (invokeChain sha inc s st).2.ent v = s.ent v) ∧
    (∀ u2 c2, inc c1 (cbase s st) = some u2 → u2.id ≠ st.base.url.id → gate2 st.base.flags u2 = none →
      usable sha (s.ent u2.id) = some c2 →
      (invokeChain sha inc s st).1 = .run c1 (some c2) ∧
      (s.ent u2.id).sum = some (sha c2) ∧
      ∀ v, (invokeChain sha inc s st).2.ent v = s.ent v) ∧
    (∀ u2, inc c1 (cbase s st) = some u2 → u2.id ≠ st.base.url.id → gate2 st.base.flags u2 = none →
      usable sha (s.ent u2.id) = none →
      (invokeChain sha inc s st).1 = .error 106) := by
  have hd : st.base.flags.download = false := by
    have hok := ((gate_none_iff st.base).mp hg).1
    cases hd : st.base.flags.download with
    | false => rfl
    | true => simp [flagsOk, hd, ho] at hok
  have hr1 : read1 false sha s st = (.run c1, s.ent st.base.url.id) := by
    show readRemote _ _ _ _ _ _ _ _ = _
    rw [node_offline _ _ _ _ _ _ _ _ ho hd, hc1]
  have hb := base1_of_cached false sha s st _ hr1
  have h1 : (read1 false sha s st).1 = .run c1 := by rw [hr1]
  have hsame1 : ∀ v, (after1 false sha s st).ent v = s.ent v := by
    intro v
    by_cases hv : v = st.base.url.id
    · subst hv; rw [after1_ent_same, hr1]
    · exact after1_ent_other _ _ _ _ _ hv
  refine ⟨usable_sum sha _ c1 hc1, ?_, ?_, ?_⟩
  · intro hi
    rw [← hb] at hi
    unfold invokeChain
    rw [invokeChainWith_single _ _ _ _ _ c1 hg h1 hi, finish_keep _ _ _ hcl]
    exact ⟨rfl, hsame1⟩
  · intro u2 c2 hi hu hg2 hc2
    rw [← hb] at hi
    have hr2 : read2 false sha s st u2 = (.run c2, s.ent u2.id) := by
      rw [read2_eq _ _ _ _ _ hu, node_offline _ _ _ _ _ _ _ _ ho hd, hc2]
    have h2 : (read2 false sha s st u2).1 = .run c2 := by rw [hr2]
    unfold invokeChain
    rw [invokeChainWith_both _ _ _ _ _ c1 u2 c2 hg h1 hi hu hg2 h2, finish_keep _ _ _ hcl]
    refine ⟨rfl, usable_sum sha _ c2 hc2, fun v => ?_⟩
    by_cases hv : v = u2.id
    · subst hv; rw [after2_ent_same, hr2]
    · rw [after2_ent_other _ _ _ _ _ _ hv]; exact hsame1 v
  · intro u2 hi hu hg2 hc2
    rw [← hb] at hi
    have hr2 : read2 false sha s st u2 = (.error 106, s.ent u2.id) := by
      rw [read2_eq _ _ _ _ _ hu, node_offline _ _ _ _ _ _ _ _ ho hd, hc2]
    have h2 : ∀ c, (read2 false sha s st u2).1 ≠ .run c := by intro c hc; rw [hr2] at hc; cases hc
    unfold invokeChain
    rw [invokeChainWith_err2 _ _ _ _ _ c1 u2 hg h1 hi hu hg2 h2, hr2]
    rfl

/-! ## Availability, for every node of the chain -/

/-- node 2's fetch gives no content: its server refuses / answers an HTTP error / stalls past
`--timeout`, **or the shared deadline had passed before its read began** -/
def Unavailable2 (sha : Content → Sum) (s : RState) (st : CStep) : Prop :=
  ∀ c, net2 (spent1 sha s st) st.base.flags st.hop.server ≠ .content c

theorem unavailable2_of_spent (sha s st) (h : spent1 sha s st = true) : Unavailable2 sha s st := by
  intro c hc; unfold net2 at hc; rw [h] at hc; cases hc

theorem unavailable2_of_server (sha s st) (h : ∀ c, net st.base.flags st.hop.server ≠ .content c) :
    Unavailable2 sha s st := by
  intro c hc
  exact h c (net2_content _ _ _ _ hc).2

/-- **Availability of node 1** inside a chain: unavailable network + usable cached copy ⇒ node 1
yields that copy (the load goes on with it), entry untouched. -/
theorem C20_chain_available_node1 (sha : Content → Sum) (s : RState) (st : CStep) (c1 : Content)
    (hu : Unavailable st.base) (hc : usable sha (s.ent st.base.url.id) = some c1) :
    read1 false sha s st = (.run c1, s.ent st.base.url.id) :=
  node_available _ _ _ _ _ _ _ c1 hu hc

/-- **Availability of node 2**: however node 1 came by the content `c1` that includes `u2` (cache or
download), if node 2's fetch gives no content for *any* network reason — including the shared
deadline already used up by node 1 — and a usable copy `c2` of `u2` is cached, then `c1` and `c2` run
and node 2's cache entry stays as it is.  (This is the statement an early `ctx.Err()` return at the top
of `readRemoteNodeContent` falsifies.) -/
theorem C20_chain_available_node2 (sha : Content → Sum) (inc : Content → Url → Option Url) (s : RState)
    (st : CStep) (c1 c2 : Content) (u2 : Url)
    (hg : gate st.base = none) (hcl : st.base.flags.clearCache = false)
    (h1 : (read1 false sha s st).1 = .run c1) (hi : inc c1 (base1 false sha s st) = some u2)
    (hu : u2.id ≠ st.base.url.id)
    (hg2 : gate2 st.base.flags u2 = none)
    (hdown : Unavailable2 sha s st) (hc2 : usable sha (s.ent u2.id) = some c2) :
    (invokeChain sha inc s st).1 = .run c1 (some c2) ∧
    (invokeChain sha inc s st).2.ent u2.id = s.ent u2.id := by
  have hr2 : read2 false sha s st u2 = (.run c2, s.ent u2.id) := by
    rw [read2_eq _ _ _ _ _ hu]; exact node_available _ _ _ _ _ _ _ c2 hdown hc2
  have h2 : (read2 false sha s st u2).1 = .run c2 := by rw [hr2]
  unfold invokeChain
  rw [invokeChainWith_both _ _ _ _ _ c1 u2 c2 hg h1 hi hu hg2 h2, finish_keep _ _ _ hcl]
  exact ⟨rfl, by rw [after2_ent_same, hr2]⟩

/-- The availability half of C20 for chains, at full strength: with the network unavailable
for node 1 and — in whatever way, the spent deadline included — for node 2, usable cached copies are
what runs (node 2 = what node 1's copy includes **seen from the location stored with it**, exactly
as when it was downloaded), and the whole cache is left as it is. -/
theorem C20_chain_available (sha : Content → Sum) (inc : Content → Url → Option Url) (s : RState)
    (st : CStep) (c1 : Content)
    (hg : gate st.base = none) (hcl : st.base.flags.clearCache = false)
    (hu1 : Unavailable st.base) (hc1 : usable sha (s.ent st.base.url.id) = some c1) :
    (inc c1 (cbase s st) = none →
      (invokeChain sha inc s st).1 = .run c1 none ∧ ∀ v, (invokeChain sha inc s st).2.ent v = s.ent v) ∧
    (∀ u2 c2, inc c1 (cbase s st) = some u2 → u2.id ≠ st.base.url.id → gate2 st.base.flags u2 = none →
      Unavailable2 sha s st → usable sha (s.ent u2.id) = some c2 →
      (invokeChain sha inc s st).1 = .run c1 (some c2) ∧ ∀ v, (invokeChain sha inc s st).2.ent v = s.ent v) := by
  have hr1 := C20_chain_available_node1 sha s st c1 hu1 hc1
  have hb := base1_of_cached false sha s st _ hr1
  have h1 : (read1 false sha s st).1 = .run c1 := by rw [hr1]
  have hsame1 : ∀ v, (after1 false sha s st).ent v = s.ent v := by
    intro v
    by_cases hv : v = st.base.url.id
    · subst hv; rw [after1_ent_same, hr1]
    · exact after1_ent_other _ _ _ _ _ hv
  refine ⟨?_, ?_⟩
  · intro hi
    rw [← hb] at hi
    unfold invokeChain
    rw [invokeChainWith_single _ _ _ _ _ c1 hg h1 hi, finish_keep _ _ _ hcl]
    exact ⟨rfl, hsame1⟩
  · intro u2 c2 hi hu hg2 hdown hc2
    rw [← hb] at hi
    have hr2 : read2 false sha s st u2 = (.run c2, s.ent u2.id) := by
      rw [read2_eq _ _ _ _ _ hu]; exact node_available _ _ _ _ _ _ _ c2 hdown hc2
    have h2 : (read2 false sha s st u2).1 = .run c2 := by rw [hr2]
    unfold invokeChain
    rw [invokeChainWith_both _ _ _ _ _ c1 u2 c2 hg h1 hi hu hg2 h2, finish_keep _ _ _ hcl]
    refine ⟨rfl, fun v => ?_⟩
    by_cases hv : v = u2.id
    · subst hv; rw [after2_ent_same, hr2]
    · rw [after2_ent_other _ _ _ _ _ _ hv]; exact hsame1 v

/-- **C20_chain_deadline**: node 1's server is slower than `--timeout`, so node 1's fetch uses up
the deadline of the whole invocation; with usable copies of both nodes in the cache, both run from
the cache — **whatever node 2's server would have done** (serve new content, refuse, stall) and
whatever is answered — and nothing is written. -/
theorem C20_chain_deadline (sha : Content → Sum) (inc : Content → Url → Option Url) (s : RState)
    (st : CStep) (c1 c2 : Content) (u2 : Url)
    (hg : gate st.base = none) (hcl : st.base.flags.clearCache = false)
    (hw : wantsFetch sha (s.now + st.base.dt) (s.ent st.base.url.id) st.base.flags = true)
    (hn : net st.base.flags st.base.server = .timedOut)
    (hc1 : usable sha (s.ent st.base.url.id) = some c1)
    (hi : inc c1 (cbase s st) = some u2) (hu : u2.id ≠ st.base.url.id) (hg2 : gate2 st.base.flags u2 = none)
    (hc2 : usable sha (s.ent u2.id) = some c2) :
    (invokeChain sha inc s st).1 = .run c1 (some c2) ∧ ∀ v, (invokeChain sha inc s st).2.ent v = s.ent v := by
  have hsp : spent1 sha s st = true := by simp [spent1, spent, hn, hw]
  exact (C20_chain_available sha inc s st c1 hg hcl (unavailable_of_timedOut _ _ hn) hc1).2
    u2 c2 hi hu hg2 (unavailable2_of_spent sha s st hsp) hc2

/-! ## The same nodes from the cache as online (fix R8-2) -/

/-- the location node 1's includes were resolved against in an invocation that went on past node 1 is
the one stored with node 1's copy afterwards — what every later read from the cache will use -/
theorem base1_stored (legacy sha s st) (st' : CStep) (hurl : st'.base.url = st.base.url) :
    cbase (after1 legacy sha s st) st' = base1 legacy sha s st := by
  simp [cbase, base1, hurl, after1_ent_same]

/-- **C20_chain_same_nodes**: an invocation — online, in whatever state — read node 1 and the node 2
its content includes, and ran `c1` and `c2`.  Then the next invocation of the same entrypoint that gets
nothing from the network (`--offline`, or both servers unavailable) reaches **the same two nodes** and
runs the same `c1` and `c2` from the cache, touching nothing: whether node 1 was found under a default
name of a directory-style URL or not, its relative includes mean the same files from the cache as they
did online.  (Before the fix `inc` was evaluated at the entrypoint URL whenever node 1 came out of the
cache: `--offline` ended with 106 for a URL nobody had ever downloaded, and with an unexpired cache a
different file was fetched, prompted for and run.) -/
theorem C20_chain_same_nodes (sha : Content → Sum) (inc : Content → Url → Option Url) (s : RState)
    (st st' : CStep) (c1 c2 : Content)
    (hrun : (invokeChain sha inc s st).1 = .run c1 (some c2))
    (hurl : st'.base.url = st.base.url) (hg' : gate st'.base = none)
    (hcl' : st'.base.flags.clearCache = false) (hins : st'.base.flags.insecure = st.base.flags.insecure)
    (hdown : st'.base.flags.offline = true ∨
      (Unavailable st'.base ∧ ∀ c, net st'.base.flags st'.hop.server ≠ .content c)) :
    (invokeChain sha inc (invokeChain sha inc s st).2 st').1 = .run c1 (some c2) ∧
    ∀ v, (invokeChain sha inc (invokeChain sha inc s st).2 st').2.ent v = (invokeChain sha inc s st).2.ent v := by
  unfold invokeChain at hrun
  cases shape false sha inc s st with
  | gated code _ he => rw [he] at hrun; cases hrun
  | err1 _ hn he => rw [he] at hrun; exact absurd hrun (liftErr_ne_run _ hn _ _)
  | cycle c1' u2 _ _ _ _ he => rw [he] at hrun; cases hrun
  | gated2 c1' u2 code _ _ _ _ _ he => rw [he] at hrun; cases hrun
  | err2 c1' u2 _ _ _ _ _ hn he => rw [he] at hrun; exact absurd hrun (liftErr_ne_run _ hn _ _)
  | single c1' _ h1 hinc he =>
    rw [he] at hrun
    cases hc : st.base.flags.clearCache with
    | true => rw [finish_clear _ _ _ hc] at hrun; cases hrun
    | false => rw [finish_keep _ _ _ hc] at hrun; cases hrun
  | both c1' u2 c2' hg h1 hinc hu hg2 h2 he =>
    cases hc : st.base.flags.clearCache with
    | true => rw [he, finish_clear _ _ _ hc] at hrun; cases hrun
    | false =>
      have hs' : (invokeChain sha inc s st).2 = after2 false sha s st u2 := by
        unfold invokeChain; rw [he, finish_keep _ _ _ hc]
      rw [he, finish_keep _ _ _ hc] at hrun
      cases hrun
      rw [hs']
      -- the cache after the first invocation
      have he1 : (after2 false sha s st u2).ent st.base.url.id = (read1 false sha s st).2 := by
        rw [after2_ent_other _ _ _ _ _ _ (Ne.symm hu), after1_ent_same]
      have hu1 : usable sha ((after2 false sha s st u2).ent st'.base.url.id) = some c1 := by
        rw [hurl, he1]; exact readRemote_run_usable _ _ _ _ _ _ _ _ _ h1
      have hu2 : usable sha ((after2 false sha s st u2).ent u2.id) = some c2 := by
        rw [after2_ent_same]
        have h2' := h2
        rw [read2_eq _ _ _ _ _ hu] at h2' ⊢
        exact readRemote_run_usable _ _ _ _ _ _ _ _ _ h2'
      have hb : cbase (after2 false sha s st u2) st' = base1 false sha s st := by
        simp [cbase, base1, hurl, he1]
      have hi' : inc c1 (cbase (after2 false sha s st u2) st') = some u2 := by rw [hb]; exact hinc
      have hu' : u2.id ≠ st'.base.url.id := by rw [hurl]; exact hu
      have hg2' : gate2 st'.base.flags u2 = none := by
        simpa [gate2, hins] using hg2
      rcases hdown with ho | ⟨hd1, hd2⟩
      · have := (C20_chain_offline sha inc _ st' c1 hg' ho hcl' hu1).2.2.1 u2 c2 hi' hu' hg2' hu2
        exact ⟨this.1, this.2.2⟩
      · exact (C20_chain_available sha inc _ st' c1 hg' hcl' hd1 hu1).2 u2 c2 hi' hu' hg2'
          (unavailable2_of_server sha _ st' hd2) hu2

/-- the driver's `observeChain` yields the results of `runChainEvWith` -/
theorem observeChain_results (legacy sha inc k) (h : List CEv) : ∀ s,
    (observeChain legacy sha inc k s h).map (·.1) = (runChainEvWith legacy sha inc s h).1 := by
  induction h with
  | nil => intro s; rfl
  | cons ev rest ih =>
    intro s
    cases ev with
    | step st => simp only [observeChain, runChainEvWith, List.map_cons]; rw [ih]
    | pre p => simp only [observeChain, runChainEvWith]; rw [ih]

/-! ## Non-vacuity: concrete chains -/

/-- content 11 (at URL 0) includes URL 1, from wherever it is seen; everything else includes nothing -/
private def inc1 : Content → Url → Option Url := fun c _ => if c = 11 then some ⟨1, false⟩ else none
private def hopServe (c : Content) : Hop := ⟨.serve c, .noTerminal⟩
/-- download and approve A = 11 (which includes B) and B = 2, `--yes` -/
private def cGet : CStep := ⟨⟨0, url0, yesFlags, .serve 11, .noTerminal⟩, hopServe 2⟩
/-- the same command line; A's server is slower than `--timeout`, B's server would serve a NEW version 3 -/
private def cStallA : CStep := ⟨⟨0, url0, yesFlags, .slow 11, .noTerminal⟩, hopServe 3⟩
/-- both stall -/
private def cStallBoth : CStep := ⟨⟨0, url0, yesFlags, .slow 11, .noTerminal⟩, ⟨.slow 3, .noTerminal⟩⟩
/-- A fine, B refuses -/
private def cRefuseB : CStep := ⟨⟨0, url0, yesFlags, .serve 11, .noTerminal⟩, ⟨.fail .refused, .noTerminal⟩⟩
/-- no `--yes`, no terminal: B changed to 3 -/
private def cChangedB : CStep := ⟨⟨0, url0, noFlags, .serve 11, .noTerminal⟩, hopServe 3⟩
private def cAcceptB : CStep := ⟨⟨0, url0, noFlags, .serve 11, .decline⟩, ⟨.serve 3, .accept⟩⟩
private def cOffline : CStep := ⟨⟨0, url0, { noFlags with offline := true }, .serve 12, .noTerminal⟩, hopServe 9⟩

-- node 1 stalls past the timeout and both have cached copies ⇒ both run from the cache, although
-- node 2's server would have served (unapproved) version 3 at once; the cache is as it was
example : (runChain id inc1 RState.init [cGet, cStallA, cStallBoth, cRefuseB]).1
    = [.run 11 (some 2), .run 11 (some 2), .run 11 (some 2), .run 11 (some 2)] := by decide
example : usable id ((runChain id inc1 RState.init [cGet, cStallA]).2.ent 1) = some 2 := by decide
-- hypotheses of `C20_chain_deadline` are met by `cStallA` after `cGet`
example : gate cStallA.base = none ∧ cStallA.base.flags.clearCache = false ∧
    wantsFetch id ((reachChain id inc1 [cGet]).now + 0) ((reachChain id inc1 [cGet]).ent 0) cStallA.base.flags = true ∧
    net cStallA.base.flags cStallA.base.server = .timedOut ∧
    usable id ((reachChain id inc1 [cGet]).ent 0) = some 11 ∧
    inc1 11 (cbase (reachChain id inc1 [cGet]) cStallA) = some ⟨1, false⟩ ∧
    gate2 cStallA.base.flags ⟨1, false⟩ = none ∧ usable id ((reachChain id inc1 [cGet]).ent 1) = some 2 := by decide
-- without a copy of node 2 the spent deadline is 108; without one of node 1, node 2 is not read
example : (runChain id inc1 RState.init [⟨cGet.base, ⟨.fail .refused, .noTerminal⟩⟩, cStallA]).1
    = [.error 103, .error 108] := by decide
example : (runChain id inc1 RState.init [cStallA]).1 = [.error 108] := by decide
-- node 2 changed without approval: 104, nothing runs (node 1's content neither), node 2's copy
-- stays; offline runs the old pair; node 2's own accepted prompt switches node 2 only
example : (runChain id inc1 RState.init [cGet, cChangedB, cOffline, cAcceptB, cOffline]).1
    = [.run 11 (some 2), .error 104, .run 11 (some 2), .run 11 (some 3), .run 11 (some 3)] := by decide
-- hypotheses of `unapproved2_refused` are met by `cChangedB` after `cGet`
example : (read1 false id (reachChain id inc1 [cGet]) cChangedB).1 = .run 11 ∧
    wantsFetch id ((reachChain id inc1 [cGet]).now + 0) ((reachChain id inc1 [cGet]).ent 1) cChangedB.base.flags = true ∧
    net2 (spent1 id (reachChain id inc1 [cGet]) cChangedB) cChangedB.base.flags cChangedB.hop.server = .content 3 ∧
    ((reachChain id inc1 [cGet]).ent 1).sum ≠ some (id 3) ∧
    approves cChangedB.base.flags cChangedB.hop.answer = false := by decide
-- first use of the pair with node 2 declined: node 1 is downloaded, approved and cached, node 2
-- is not, nothing runs
example : (observeChain false id inc1 2 RState.init
      [.step ⟨⟨0, url0, noFlags, .serve 11, .accept⟩, ⟨.serve 2, .decline⟩⟩]).map
    (fun o => (o.1, o.1.trace, o.2.map (·.content))) = [(.error 104, [], [some 11, none])] := by decide
-- content that includes its own URL: cycle error 110
example : (runChain id (fun c _ => if c = 5 then some url0 else none) RState.init
    [⟨⟨0, url0, yesFlags, .serve 5, .noTerminal⟩, hopServe 1⟩]).1 = [.error 110] := by decide

/-! ### A directory-style URL with a relative include

URL 7 (`http://host/dd`) is a directory: the Taskfile is found under the default name URL 10
(`http://host/dd/Taskfile.yml`).  Content 71 includes `./inc.yml`: seen from URL 10 that is URL 8
(`/dd/inc.yml`), seen from URL 7 itself it is URL 9 (`/inc.yml`). -/
private def url7 : Url := ⟨7, false⟩
private def incDir : Content → Url → Option Url := fun c b =>
  if c = 71 then (if b.id = 10 then some ⟨8, false⟩ else if b.id = 7 then some ⟨9, false⟩ else none) else none
private def dGet : CStep := ⟨⟨0, url7, yesFlags, .dir ⟨10, false⟩ (.serve 71), .noTerminal⟩, hopServe 2⟩
private def dOffline : CStep :=
  ⟨⟨0, url7, { noFlags with offline := true }, .dir ⟨10, false⟩ (.serve 71), .noTerminal⟩, hopServe 9⟩
private def dHour : CStep :=
  ⟨⟨0, url7, { noFlags with expiry := 1 }, .dir ⟨10, false⟩ (.serve 72), .noTerminal⟩, hopServe 9⟩
private def dDown : CStep := ⟨⟨0, url7, noFlags, .fail .refused, .noTerminal⟩, ⟨.fail .refused, .noTerminal⟩⟩

-- online, then `--offline`, then with an unexpired cache, then with the server down: always the
-- same two nodes (URL 7 and URL 8); URL 9 is never looked at, its entry stays empty
example : (observeChain false id incDir 10 RState.init [.step dGet, .step dOffline, .step dHour, .step dDown]).map
    (fun o => (o.1, (o.2.map (·.content)).drop 7)) =
    [(.run 71 (some 2), [some 71, some 2, none]), (.run 71 (some 2), [some 71, some 2, none]),
     (.run 71 (some 2), [some 71, some 2, none]), (.run 71 (some 2), [some 71, some 2, none])] := by decide
-- the location is stored with the copy
example : ((reachChain id incDir [dGet]).ent 7).loc = some ⟨10, false⟩ ∧
    cbase (reachChain id incDir [dGet]) dOffline = ⟨10, false⟩ := by decide
-- hypotheses of `C20_chain_same_nodes` are met by `dOffline` after `dGet`
example : (invokeChain id incDir RState.init dGet).1 = .run 71 (some 2) ∧ gate dOffline.base = none ∧
    dOffline.base.flags.offline = true := by decide
-- a copy from before the location was stored (`loc = none`) falls back to the URL itself
example : baseOf url7 ⟨some 71, some 71, some 0, none⟩ = url7 := by decide
-- a default name that stalls past `--timeout`: 108, as for a file URL (fix R8-6)
example : (runChain id incDir RState.init
    [⟨⟨0, url7, yesFlags, .dir ⟨10, false⟩ (.slow 71), .noTerminal⟩, hopServe 2⟩]).1 = [.error 108] := by decide

/-! # Trees: sibling includes and chains of any depth

`TaskModel.Remote.Tree`: `invokeTree sha inc s st` reads the root, every remote Taskfile its content
includes (`inc c b : List Url` — siblings, read concurrently by the code, each with its own cache entry,
server behaviour and prompt answer `st.world`), every remote Taskfile those include, and so on; every
node by the same `readRemote`.  The layered approach carries: the per-node lemmas lift by one
induction over the depth (`readTree_good`).  Limit: a Taskfile reachable along two paths is read
once by the code and once per path by the model — the theorems below are for invocations that look at
no URL twice (`Nodup` of the URLs read), which is what the harness generates. -/

theorem invokeTree_run (sha inc s st t) (h : (invokeTree sha inc s st).1 = .run t) :
    gateT st = none ∧ st.flags.clearCache = false ∧ (readOf false sha inc s st).errs = [] ∧
    t = (readOf false sha inc s st).trace ∧ (invokeTree sha inc s st).2 = (readOf false sha inc s st).state := by
  cases hg : gateT st with
  | some code => simp [invokeTree, invokeTreeWith, hg] at h
  | none =>
    cases he : (readOf false sha inc s st).errs with
    | cons e es => simp [invokeTree, invokeTreeWith, hg, he] at h
    | nil =>
      cases hc : st.flags.clearCache with
      | true => simp [invokeTree, invokeTreeWith, hg, he, hc] at h
      | false =>
        simp only [invokeTree, invokeTreeWith, hg, he, hc, Bool.false_eq_true, if_false] at h ⊢
        cases h
        simp

/-- **C20_tree_trust**: an invocation that read a tree of remote Taskfiles (no URL twice) and executed
it: **every** node that ran — the root, each of several sibling includes, a node at any depth — has the
checksum that is now the stored one for *its* URL, its cached copy is what ran, and that checksum
was stored before the invocation or a prompt for exactly it was due and passed with the answer given
for *that* URL (or `--yes`).  In every state, for every `inc`, `sha`, flags, servers and answers. -/
theorem C20_tree_trust (sha : Content → Sum) (inc : Content → Url → List Url) (s : RState) (st : TStep)
    (t : List (Nat × Content)) (hrun : (invokeTree sha inc s st).1 = .run t)
    (htree : (readOf false sha inc s st).touched.Nodup) :
    ∀ v c, (v, c) ∈ t → NodeOk sha st.flags st.world s (invokeTree sha inc s st).2 v c := by
  obtain ⟨_, _, _, ht, hs⟩ := invokeTree_run sha inc s st t hrun
  intro v c hm
  rw [ht] at hm
  rw [hs]
  have := (readTree_good false sha inc st.flags (s.now + st.dt) st.world treeFuel [] false).trust
    st.url (s.tick st.dt) htree v c hm
  exact this

/-- cache entries of URLs the load did not look at are as before (unless the whole cache is cleared) -/
theorem C20_tree_frame (sha : Content → Sum) (inc : Content → Url → List Url) (s : RState) (st : TStep)
    (v : Nat) (hv : v ∉ (readOf false sha inc s st).touched) (hc : (invokeTree sha inc s st).1 ≠ .cleared) :
    (invokeTree sha inc s st).2.ent v = s.ent v := by
  have hfr : (readOf false sha inc s st).state.ent v = s.ent v :=
    (readTree_good false sha inc st.flags (s.now + st.dt) st.world treeFuel [] false).frame
      st.url (s.tick st.dt) v hv
  cases hg : gateT st with
  | some code => simp [invokeTree, invokeTreeWith, hg]
  | none =>
    cases he : (readOf false sha inc s st).errs with
    | cons e es => simp only [invokeTree, invokeTreeWith, hg, he]; exact hfr
    | nil =>
      cases hcl : st.flags.clearCache with
      | true => simp [invokeTree, invokeTreeWith, hg, he, hcl] at hc
      | false => simp only [invokeTree, invokeTreeWith, hg, he, hcl, Bool.false_eq_true, if_false]; exact hfr

/-- all or nothing: a load in which any node fails — one sibling out of several, a node three levels
down — executes nothing, whichever of the failing nodes' errors is reported -/
theorem C20_tree_error_runs_nothing (sha : Content → Sum) (inc : Content → Url → List Url) (s : RState)
    (st : TStep) (h : (invokeTree sha inc s st).1.exit ≠ 0) : (invokeTree sha inc s st).1.trace = [] := by
  cases hr : (invokeTree sha inc s st).1 with
  | run t => rw [hr] at h; exact absurd rfl h
  | cleared => rfl
  | error code => rfl

/-- the same for one node and for chains: a non-zero exit status means nothing was executed -/
theorem C20_error_runs_nothing (r : RResult) (h : r.exit ≠ 0) : r.trace = [] := by
  cases r with
  | run c => exact absurd rfl h
  | cleared => rfl
  | error code => rfl

theorem C20_chain_error_runs_nothing (r : CResult) (h : r.exit ≠ 0) : r.trace = [] := by
  cases r with
  | run c1 c2 => exact absurd rfl h
  | cleared => rfl
  | error code => rfl

/-! ### Non-vacuity: siblings and a chain of three -/

/-- content 91 (URL 0) includes URL 1 and URL 3; content 41 (URL 0) includes URL 1; content 62 (URL 1)
includes URL 3 -/
private def incT : Content → Url → List Url := fun c _ =>
  if c = 91 then [⟨1, false⟩, ⟨3, false⟩] else if c = 41 then [⟨1, false⟩] else if c = 62 then [⟨3, false⟩] else []
private def wServe (a b c : Content) : List (Nat × Hop) :=
  [(0, ⟨.serve a, .noTerminal⟩), (1, ⟨.serve b, .noTerminal⟩), (3, ⟨.serve c, .noTerminal⟩)]
private def tGet : TStep := ⟨0, url0, yesFlags, wServe 91 2 3, 0⟩
/-- no `--yes`, no terminal: sibling C changed to 4, sibling B stalls past the timeout -/
private def tChangedC : TStep :=
  ⟨0, url0, noFlags, [(0, ⟨.serve 91, .noTerminal⟩), (1, ⟨.slow 2, .noTerminal⟩), (3, ⟨.serve 4, .noTerminal⟩)], 104⟩
private def tOffline : TStep := ⟨0, url0, { noFlags with offline := true }, wServe 91 7 8, 0⟩
private def t3Get : TStep := ⟨0, url0, yesFlags, wServe 41 62 3, 0⟩
/-- A stalls past `--timeout`: B and C, two levels down, are read under the spent deadline -/
private def t3StallA : TStep :=
  ⟨0, url0, yesFlags, [(0, ⟨.slow 41, .noTerminal⟩), (1, ⟨.serve 63, .noTerminal⟩), (3, ⟨.serve 9, .noTerminal⟩)], 0⟩

-- siblings: both are read and run; a changed sibling without approval: 104, nothing runs, and the other
-- sibling's stalled fetch falls back to its copy all the same; offline runs the three copies
example : ((invokeTree id incT RState.init tGet).1,
    (invokeTree id incT (invokeTree id incT RState.init tGet).2 tChangedC).1,
    (invokeTree id incT (invokeTree id incT RState.init tGet).2 tOffline).1)
    = (.run [(0, 91), (1, 2), (3, 3)], .error 104, .run [(0, 91), (1, 2), (3, 3)]) := by decide
-- a chain of three; with A stalling, all three come out of the cache although B's and C's servers
-- would have served new versions
example : ((invokeTree id incT RState.init t3Get).1,
    (invokeTree id incT (invokeTree id incT RState.init t3Get).2 t3StallA).1)
    = (.run [(0, 41), (1, 62), (3, 3)], .run [(0, 41), (1, 62), (3, 3)]) := by decide
-- hypotheses of `C20_tree_trust` are met
example : (readOf false id incT RState.init tGet).touched = [0, 1, 3] ∧
    (readOf false id incT RState.init t3Get).touched = [0, 1, 3] := by decide
-- two failing siblings: the error reported is the environment's choice among theirs
example : (invokeTree id incT RState.init
    ⟨0, url0, yesFlags, [(0, ⟨.serve 91, .noTerminal⟩), (1, ⟨.fail .notFound, .noTerminal⟩), (3, ⟨.fail .refused, .noTerminal⟩)], 103⟩).1
    = .error 103 ∧
    (invokeTree id incT RState.init
    ⟨0, url0, yesFlags, [(0, ⟨.serve 91, .noTerminal⟩), (1, ⟨.fail .notFound, .noTerminal⟩), (3, ⟨.fail .refused, .noTerminal⟩)], 7⟩).1
    = .error 100 := by decide

end Props.C20
