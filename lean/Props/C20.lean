import TaskModel.Remote.Lemmas
import TaskModel.Remote.Chain
import TaskModel.Remote.Tie
/-!
# C20 — Remote Taskfiles: nothing unapproved runs, and the cache keeps tasks runnable

Property theorems only; the model is `TaskModel.Remote.Model` (`invoke`, the repaired
fallback rule of fix F16), helper lemmas are in `TaskModel.Remote.Lemmas`, the tie to the
source text is `TaskModel.Remote.Tie` (`remote_skeleton_ok` …, regenerated on every run)
plus the correspondence domain `remote` (harness/remote.go: the real CLI against a loopback
HTTP server over sequences of server states × flags × prompt answers).

The second part (from "Chains" on) lifts every property to invocations that read a remote
Taskfile *and* the remote Taskfile it includes, under the one `--timeout` deadline of the
invocation (`TaskModel.Remote.Chain`, `invokeChain`; driver op `remote.chain`).

All statements are over **arbitrary histories** (`List Step`, no length bound) starting
from the empty cache, and over an arbitrary checksum function `sha` — nothing is assumed
about it.  What is proved is about *checksums*: "the checksum of what runs is the approved
one".  That an approved checksum stands for approved *content* is collision resistance of
SHA-256, outside the model.
-/
namespace Props.C20
open TaskModel.Remote

/-- history invariant: a cached copy, when present, is one whose checksum is the approved one -/
def Inv (sha : Content → Sum) (s : RState) : Prop := ∀ u, EInv sha (s.ent u)

theorem inv_init (sha) : Inv sha RState.init := fun _ => EInv_empty sha

theorem inv_invokeWith (legacy sha s st) (h : Inv sha s) : Inv sha (invokeWith legacy sha s st).2 := by
  intro v
  cases hg : gate st with
  | some code => rw [invokeWith_gate _ _ _ _ _ hg]; exact h v
  | none =>
    have hw : ∀ v, EInv sha (((s.tick st.dt).set st.url.id (stepRead legacy sha s st).2).ent v) := by
      intro v
      by_cases hv : v = st.url.id
      · subst hv; rw [set_ent_same]; exact readRemote_EInv _ _ _ _ _ _ _ (h _)
      · rw [set_ent_other _ _ _ _ hv]; exact h v
    cases hc : st.flags.clearCache with
    | false => rw [invokeWith_open _ _ _ _ hg hc]; exact hw v
    | true =>
      rcases invokeWith_clear legacy sha s st hg hc with ⟨c, _, he⟩ | ⟨_, he⟩
      · rw [he]; exact EInv_empty sha
      · rw [he]; exact hw v

theorem inv_runWith (legacy sha) (h : List Step) : ∀ s, Inv sha s → Inv sha (runWith legacy sha s h).2 := by
  induction h with
  | nil => intro s hs; exact hs
  | cons st rest ih =>
    intro s hs
    simp only [runWith]
    exact ih _ (inv_invokeWith legacy sha s st hs)

/-- the invariant holds after every history -/
theorem inv_reach (sha) (h : List Step) : Inv sha (reach sha h) :=
  inv_runWith false sha h _ (inv_init sha)

/-! ## Trust -/

/-- What C20 demands of one invocation `st` made in state `s` (`u` = the URL's cache slot). -/
structure TrustStep (sha : Content → Sum) (s : RState) (st : Step) : Prop where
  /-- content handed on for execution has the checksum that is the approved one at that moment -/
  ran_is_approved : ∀ c, (invoke sha s st).1 = .run c →
    ((invoke sha s st).2.ent st.url.id).sum = some (sha c)
  /-- … and that checksum was approved before, or is approved in this very invocation -/
  ran_new_needs_approval : ∀ c, (invoke sha s st).1 = .run c →
    (s.ent st.url.id).sum = some (sha c) ∨ approves st.flags st.answer = true
  /-- the approved checksum of any URL changes only in an invocation for that URL in which the
  user accepted the prompt or gave `--yes`, to the checksum of the content just downloaded
  (which is then what runs) — or the whole cache is dropped by `--clear-cache` -/
  change_needs_approval : ∀ v, ((invoke sha s st).2.ent v).sum ≠ (s.ent v).sum →
    (v = st.url.id ∧ approves st.flags st.answer = true ∧
      ∃ c, net st.flags st.server = .content c ∧ (invoke sha s st).1 = .run c ∧
        ((invoke sha s st).2.ent v).sum = some (sha c)) ∨
    (st.flags.clearCache = true ∧ (invoke sha s st).1 = .cleared ∧ ((invoke sha s st).2.ent v).sum = none)
  /-- new or changed content without approval: exit code 104, nothing handed on, no cache
  file of any URL touched -/
  unapproved_refused : ∀ c, gate st = none →
    wantsFetch (s.now + st.dt) (s.ent st.url.id) st.flags = true →
    net st.flags st.server = .content c → (s.ent st.url.id).sum ≠ some (sha c) →
    approves st.flags st.answer = false →
    (invoke sha s st).1 = .error 104 ∧ ∀ v, (invoke sha s st).2.ent v = s.ent v

private theorem stepRead_unapproved (legacy sha s st c)
    (hw : wantsFetch (s.now + st.dt) (s.ent st.url.id) st.flags = true)
    (hn : net st.flags st.server = .content c) (hs : (s.ent st.url.id).sum ≠ some (sha c))
    (ha : approves st.flags st.answer = false) :
    stepRead legacy sha s st = (.error 104, s.ent st.url.id) := by
  unfold stepRead
  rw [readRemote_of_wantsFetch _ _ _ _ _ _ _ hw, hn]
  have hp : needsPrompt (s.ent st.url.id) (sha c) = true := by
    cases hp : needsPrompt (s.ent st.url.id) (sha c) with
    | true => rfl
    | false => exact absurd ((needsPrompt_false_iff _ _).mp hp) hs
  simp [fetch, hp, ha]

/-- the result is `run c` only through the open gate, without `--clear-cache`, from `stepRead` -/
private theorem run_inv (legacy sha s st c) (h : (invokeWith legacy sha s st).1 = .run c) :
    gate st = none ∧ st.flags.clearCache = false ∧
    invokeWith legacy sha s st =
      ((stepRead legacy sha s st).1, (s.tick st.dt).set st.url.id (stepRead legacy sha s st).2) := by
  cases hg : gate st with
  | some code => rw [invokeWith_gate _ _ _ _ _ hg] at h; cases h
  | none =>
    cases hc : st.flags.clearCache with
    | false => exact ⟨rfl, rfl, invokeWith_open _ _ _ _ hg hc⟩
    | true =>
      rcases invokeWith_clear legacy sha s st hg hc with ⟨c', _, he⟩ | ⟨hne, he⟩
      · rw [he] at h; cases h
      · rw [he] at h; exact absurd h (hne c)

theorem trustStep_of_inv (legacy : Bool) (sha : Content → Sum) (s : RState) (st : Step) (hi : Inv sha s) :
    (∀ c, (invokeWith legacy sha s st).1 = .run c →
      ((invokeWith legacy sha s st).2.ent st.url.id).sum = some (sha c) ∧
      ((s.ent st.url.id).sum = some (sha c) ∨ approves st.flags st.answer = true)) := by
  intro c h
  obtain ⟨_, _, he⟩ := run_inv legacy sha s st c h
  rw [he] at h ⊢
  simp only [set_ent_same]
  simp only at h
  rcases readRemote_spec legacy sha (s.now + st.dt) (s.ent st.url.id) st.flags
      (net st.flags st.server) st.answer with ⟨h1, h2⟩ | ⟨_, c', _, h2, h3, h4⟩
  · have hc := hi _ c (h2 c h)
    unfold stepRead
    rw [h1]
    exact ⟨hc, Or.inl hc⟩
  · unfold stepRead at h ⊢
    rw [h2] at h
    cases h
    rw [h3]
    exact ⟨rfl, h4⟩

theorem change_of_inv (legacy : Bool) (sha : Content → Sum) (s : RState) (st : Step) (v : Nat)
    (h : ((invokeWith legacy sha s st).2.ent v).sum ≠ (s.ent v).sum) :
    (v = st.url.id ∧ approves st.flags st.answer = true ∧
      ∃ c, net st.flags st.server = .content c ∧ (invokeWith legacy sha s st).1 = .run c ∧
        ((invokeWith legacy sha s st).2.ent v).sum = some (sha c)) ∨
    (st.flags.clearCache = true ∧ (invokeWith legacy sha s st).1 = .cleared ∧
      ((invokeWith legacy sha s st).2.ent v).sum = none) := by
  cases hg : gate st with
  | some code => rw [invokeWith_gate _ _ _ _ _ hg] at h; exact absurd rfl h
  | none =>
    have main : ∀ (he : invokeWith legacy sha s st =
        ((stepRead legacy sha s st).1, (s.tick st.dt).set st.url.id (stepRead legacy sha s st).2)),
        (v = st.url.id ∧ approves st.flags st.answer = true ∧
          ∃ c, net st.flags st.server = .content c ∧ (invokeWith legacy sha s st).1 = .run c ∧
            ((invokeWith legacy sha s st).2.ent v).sum = some (sha c)) := by
      intro he
      rw [he] at h ⊢
      by_cases hv : v = st.url.id
      · subst hv
        simp only [set_ent_same] at h ⊢
        rcases readRemote_spec legacy sha (s.now + st.dt) (s.ent st.url.id) st.flags
            (net st.flags st.server) st.answer with ⟨h1, _⟩ | ⟨_, c', hn, h2, h3, h4⟩
        · unfold stepRead at h; rw [h1] at h; exact absurd rfl h
        · unfold stepRead at h ⊢
          rw [h3] at h ⊢
          refine ⟨trivial, ?_, c', hn, h2, rfl⟩
          rcases h4 with h4 | h4
          · simp only [written_sum] at h; exact absurd h4.symm h
          · exact h4
      · rw [set_ent_other _ _ _ _ hv] at h; exact absurd rfl h
    cases hc : st.flags.clearCache with
    | false => exact Or.inl (main (invokeWith_open _ _ _ _ hg hc))
    | true =>
      rcases invokeWith_clear legacy sha s st hg hc with ⟨c, _, he⟩ | ⟨_, he⟩
      · right; rw [he]; exact ⟨rfl, rfl, rfl⟩
      · exact Or.inl (main he)

theorem unapproved_of (legacy : Bool) (sha : Content → Sum) (s : RState) (st : Step) (c : Content)
    (hg : gate st = none)
    (hw : wantsFetch (s.now + st.dt) (s.ent st.url.id) st.flags = true)
    (hn : net st.flags st.server = .content c) (hs : (s.ent st.url.id).sum ≠ some (sha c))
    (ha : approves st.flags st.answer = false) :
    (invokeWith legacy sha s st).1 = .error 104 ∧ ∀ v, (invokeWith legacy sha s st).2.ent v = s.ent v := by
  have hr := stepRead_unapproved legacy sha s st c hw hn hs ha
  have he : invokeWith legacy sha s st =
      ((stepRead legacy sha s st).1, (s.tick st.dt).set st.url.id (stepRead legacy sha s st).2) := by
    cases hc : st.flags.clearCache with
    | false => exact invokeWith_open _ _ _ _ hg hc
    | true =>
      rcases invokeWith_clear legacy sha s st hg hc with ⟨c', h1, _⟩ | ⟨_, he⟩
      · rw [hr] at h1; cases h1
      · exact he
  rw [he, hr]
  refine ⟨rfl, fun v => ?_⟩
  by_cases hv : v = st.url.id
  · subst hv; simp
  · simp [set_ent_other _ _ _ _ hv]

theorem trustStep (sha : Content → Sum) (s : RState) (st : Step) (hi : Inv sha s) : TrustStep sha s st where
  ran_is_approved c h := (trustStep_of_inv false sha s st hi c h).1
  ran_new_needs_approval c h := (trustStep_of_inv false sha s st hi c h).2
  change_needs_approval v h := change_of_inv false sha s st v h
  unapproved_refused c hg hw hn hs ha := unapproved_of false sha s st c hg hw hn hs ha

/-- **C20_trust**: after *every* history, whatever the next invocation is (any flags, any
server state, any answer): content is handed on for execution only with the approved
checksum, the approved checksum changes only under an accepted prompt or `--yes` in the same
invocation, and unapproved new or changed content ends in 104 with nothing run and the cache
untouched. -/
theorem C20_trust (sha : Content → Sum) (h : List Step) (st : Step) : TrustStep sha (reach sha h) st :=
  trustStep sha _ st (inv_reach sha h)

/-- `P` holds at every step along a history run from `s` -/
def Always (sha : Content → Sum) (P : RState → Step → Prop) : RState → List Step → Prop
  | _, [] => True
  | s, st :: rest => P s st ∧ Always sha P (invoke sha s st).2 rest

/-- the same, as a statement about every step *inside* an arbitrary history -/
theorem C20_trust_always (sha : Content → Sum) (h : List Step) :
    Always sha (TrustStep sha) RState.init h := by
  suffices ∀ s, Inv sha s → Always sha (TrustStep sha) s h from this _ (inv_init sha)
  induction h with
  | nil => intro _ _; trivial
  | cons st rest ih =>
    intro s hs
    exact ⟨trustStep sha s st hs, ih _ (inv_invokeWith false sha s st hs)⟩

/-- the trust clauses hold for the fallback rule as it was written, too (F16 changes availability only) -/
theorem C20_trust_legacy (sha : Content → Sum) (h : List Step) (s : RState)
    (hs : s = (runWith true sha RState.init h).2) (st : Step) (c : Content)
    (hr : (invokeWith true sha s st).1 = .run c) :
    ((invokeWith true sha s st).2.ent st.url.id).sum = some (sha c) ∧
    ((s.ent st.url.id).sum = some (sha c) ∨ approves st.flags st.answer = true) :=
  trustStep_of_inv true sha s st (hs ▸ inv_runWith true sha h _ (inv_init sha)) c hr

/-- an invocation for one URL never touches the cache files of another (unless it clears all) -/
theorem C20_frame (sha : Content → Sum) (s : RState) (st : Step) (v : Nat) (hv : v ≠ st.url.id)
    (hc : (invoke sha s st).1 ≠ .cleared) : (invoke sha s st).2.ent v = s.ent v := by
  unfold invoke at hc ⊢
  cases hg : gate st with
  | some code => rw [invokeWith_gate _ _ _ _ _ hg]; rfl
  | none =>
    cases hcl : st.flags.clearCache with
    | false => rw [invokeWith_open _ _ _ _ hg hcl]; exact set_ent_other _ _ _ _ hv
    | true =>
      rcases invokeWith_clear false sha s st hg hcl with ⟨c, _, he⟩ | ⟨_, he⟩
      · rw [he] at hc; exact absurd rfl hc
      · rw [he]; exact set_ent_other _ _ _ _ hv

/-! ## Plain http -/

/-- **C20_http**: plain `http://` without `--insecure` is refused — with 105 (with the
remote-Taskfiles experiment switched off: with the generic exit code 1, like every remote
Taskfile) — whatever the cache holds, whatever the server would do, whatever is answered:
the result does not depend on them and the cache is not touched (the check is made when the
node is created, before any cache or network access).  (`flagsOk`: the command line passed
`flags.Validate`.) -/
theorem C20_http (sha : Content → Sum) (s : RState) (st : Step)
    (hf : flagsOk st.flags = true) (hh : st.url.https = false) (hi : st.flags.insecure = false) :
    invoke sha s st = (.error (if st.flags.experiment then 105 else 1), s.tick st.dt) := by
  apply invokeWith_gate
  cases hx : st.flags.experiment <;> simp [gate, hf, hh, hi, hx]

/-- without the experiment nothing remote is read at all -/
theorem C20_experiment_off (sha : Content → Sum) (s : RState) (st : Step)
    (hx : st.flags.experiment = false) : invoke sha s st = (.error 1, s.tick st.dt) := by
  apply invokeWith_gate
  cases hf : flagsOk st.flags <;> simp [gate, hf, hx]

/-- … conversely 105 is given for nothing else -/
theorem C20_http_only (sha : Content → Sum) (s : RState) (st : Step)
    (h : (invoke sha s st).1 = .error 105) : st.url.https = false ∧ st.flags.insecure = false := by
  unfold invoke at h
  cases hg : gate st with
  | some code =>
    rw [invokeWith_gate _ _ _ _ _ hg] at h
    unfold gate at hg
    cases hh : st.url.https <;> cases hi : st.flags.insecure <;>
      cases hf : flagsOk st.flags <;> cases hx : st.flags.experiment <;> simp_all
  | none =>
    exfalso
    have hne : (stepRead false sha s st).1 ≠ .error 105 := by
      intro h'
      have := readRemote_error_codes _ _ _ _ _ _ _ _ h'
      omega
    cases hc : st.flags.clearCache with
    | false => rw [invokeWith_open _ _ _ _ hg hc] at h; exact hne h
    | true =>
      rcases invokeWith_clear false sha s st hg hc with ⟨c, _, he⟩ | ⟨_, he⟩
      · rw [he] at h; cases h
      · rw [he] at h; exact hne h

/-! ## Offline and availability -/

/-- the network gives no content: connection refused / reset, HTTP error, or stalled past `--timeout` -/
def Unavailable (st : Step) : Prop := ∀ c, net st.flags st.server ≠ .content c

/-- **C20_offline**: with a cached copy `c` (approved, by the invariant), `--offline` runs
exactly `c` — for every expiry, clock, server state and answer — and touches nothing. -/
theorem C20_offline (sha : Content → Sum) (h : List Step) (st : Step) (c : Content)
    (hg : gate st = none) (ho : st.flags.offline = true) (hcl : st.flags.clearCache = false)
    (hc : ((reach sha h).ent st.url.id).content = some c) :
    (invoke sha (reach sha h) st).1 = .run c ∧
    ((reach sha h).ent st.url.id).sum = some (sha c) ∧
    ∀ v, (invoke sha (reach sha h) st).2.ent v = (reach sha h).ent v := by
  have hok := ((gate_none_iff st).mp hg).1
  have hd : st.flags.download = false := by
    cases hd : st.flags.download with
    | false => rfl
    | true => simp [flagsOk, hd, ho] at hok
  have hw : wantsFetch ((reach sha h).now + st.dt) ((reach sha h).ent st.url.id) st.flags = false := by
    simp [wantsFetch, hc, ho, hd]
  have hr : stepRead false sha (reach sha h) st = (.run c, (reach sha h).ent st.url.id) := by
    unfold stepRead
    rw [readRemote_of_not_wantsFetch _ _ _ _ _ _ _ hw, hc]
  unfold invoke
  rw [invokeWith_open _ _ _ _ hg hcl, hr]
  refine ⟨rfl, inv_reach sha h _ c hc, fun v => ?_⟩
  by_cases hv : v = st.url.id
  · subst hv; simp
  · simp [set_ent_other _ _ _ _ hv]

/-- The availability half of C20 at full strength, as a statement about a fallback rule:
whenever the network gives no content (refused **or** stalled **or** HTTP error) and a
cached copy exists, that copy is what runs, and the cache is left as it is. -/
def C20_available_full (legacy : Bool) : Prop :=
  ∀ (sha : Content → Sum) (s : RState) (st : Step) (c : Content),
    gate st = none → st.flags.clearCache = false → Unavailable st →
    (s.ent st.url.id).content = some c →
    (invokeWith legacy sha s st).1 = .run c ∧ ∀ v, (invokeWith legacy sha s st).2.ent v = s.ent v

private theorem stepRead_unavailable (legacy sha s st c) (hu : Unavailable st)
    (hc : (s.ent st.url.id).content = some c)
    (hl : legacy = false ∨ net st.flags st.server = .timedOut ∨
      wantsFetch (s.now + st.dt) (s.ent st.url.id) st.flags = false) :
    stepRead legacy sha s st = (.run c, s.ent st.url.id) := by
  unfold stepRead
  cases hw : wantsFetch (s.now + st.dt) (s.ent st.url.id) st.flags with
  | false => rw [readRemote_of_not_wantsFetch _ _ _ _ _ _ _ hw, hc]
  | true =>
    rw [readRemote_of_wantsFetch _ _ _ _ _ _ _ hw, hc]
    cases hn : net st.flags st.server with
    | content c' => exact absurd hn (hu c')
    | timedOut => simp [fetch]
    | failed k =>
      rcases hl with hl | hl | hl
      · subst hl; simp [fetch]
      · rw [hn] at hl; cases hl
      · rw [hw] at hl; cases hl

private theorem available_of_stepRead (legacy sha s st c) (hg : gate st = none)
    (hcl : st.flags.clearCache = false)
    (hr : stepRead legacy sha s st = (.run c, s.ent st.url.id)) :
    (invokeWith legacy sha s st).1 = .run c ∧ ∀ v, (invokeWith legacy sha s st).2.ent v = s.ent v := by
  rw [invokeWith_open _ _ _ _ hg hcl, hr]
  refine ⟨rfl, fun v => ?_⟩
  by_cases hv : v = st.url.id
  · subst hv; simp
  · simp [set_ent_other _ _ _ _ hv]

/-- **C20_available** (for the repaired rule, fix F16): in full. -/
theorem C20_available : C20_available_full false := by
  intro sha s st c hg hcl hu hc
  exact available_of_stepRead _ _ _ _ _ hg hcl (stepRead_unavailable false sha s st c hu hc (Or.inl rfl))

/-- … and over histories: after any history, if a copy of the URL is cached it is an approved
one and it runs when the network is unavailable. -/
theorem C20_available_reach (sha : Content → Sum) (h : List Step) (st : Step) (c : Content)
    (hg : gate st = none) (hcl : st.flags.clearCache = false) (hu : Unavailable st)
    (hc : ((reach sha h).ent st.url.id).content = some c) :
    (invoke sha (reach sha h) st).1 = .run c ∧ ((reach sha h).ent st.url.id).sum = some (sha c) :=
  ⟨(C20_available sha _ st c hg hcl hu hc).1, inv_reach sha h _ c hc⟩

/-! ### The rule as it was written (`ctx.Err() != nil && cacheFound`) -/

private def yesFlags : RFlags :=
  { yes := true, download := false, offline := false, insecure := true, expiry := 0,
    patient := false, clearCache := false, experiment := true }
private def url0 : Url := ⟨0, false⟩
/-- download and approve version 1, default expiry -/
private def stGet : Step := ⟨0, url0, yesFlags, .serve 1, .noTerminal⟩
/-- the same command line while the server refuses connections -/
private def stRefused : Step := ⟨0, url0, yesFlags, .fail .refused, .noTerminal⟩
private def stStalled : Step := ⟨0, url0, yesFlags, .slow 1, .noTerminal⟩

/-- what the unrepaired rule gives on DESIGN §8 row 28: the copy approved a moment ago is in
the cache, the server refuses connections, the default `--expiry 0` makes every cache
"expired" — exit code 103, although the repaired rule runs the cached copy. -/
theorem C20_available_legacy_row28 :
    (runWith true id RState.init [stGet, stRefused]).1 = [.run 1, .error 103] ∧
    (runWith false id RState.init [stGet, stRefused]).1 = [.run 1, .run 1] ∧
    (runWith true id RState.init [stGet, stStalled]).1 = [.run 1, .run 1] := by decide

/-- **C20_available_full is false of the rule as it was written.** -/
theorem C20_available_legacy_counterexample : ¬ C20_available_full true := by
  intro h
  have := (h id (runWith true id RState.init [stGet]).2 stRefused 1 (by decide) (by decide)
    (unavailable_of_failed _ _ .refused (by decide)) (by decide)).1
  exact absurd this (by decide)

/-- what did hold before the repair: the cached copy is used when the fetch *timed out*, or when
the decision table does not go to the network at all (unexpired cache without `--download`,
or `--offline`). -/
theorem C20_available_legacy_partial (sha : Content → Sum) (s : RState) (st : Step) (c : Content)
    (hg : gate st = none) (hcl : st.flags.clearCache = false) (hu : Unavailable st)
    (hc : (s.ent st.url.id).content = some c)
    (hside : net st.flags st.server = .timedOut ∨
      wantsFetch (s.now + st.dt) (s.ent st.url.id) st.flags = false) :
    (invokeWith true sha s st).1 = .run c ∧ ∀ v, (invokeWith true sha s st).2.ent v = s.ent v :=
  available_of_stepRead _ _ _ _ _ hg hcl (stepRead_unavailable true sha s st c hu hc (Or.inr hside))

/-! ### Once approved, runnable from then on -/

theorem runWith_append (legacy sha) (h1 h2 : List Step) : ∀ s,
    (runWith legacy sha s (h1 ++ h2)).2 = (runWith legacy sha (runWith legacy sha s h1).2 h2).2 := by
  induction h1 with
  | nil => intro s; rfl
  | cons st rest ih => intro s; simp only [List.cons_append, runWith]; exact ih _

/-- without `--clear-cache`, a cached copy never disappears -/
theorem content_persists (legacy sha) (s : RState) (st : Step) (v : Nat)
    (hcl : st.flags.clearCache = false) (h : ((s.ent v).content).isSome = true) :
    (((invokeWith legacy sha s st).2.ent v).content).isSome = true := by
  cases hg : gate st with
  | some code => rw [invokeWith_gate _ _ _ _ _ hg]; exact h
  | none =>
    rw [invokeWith_open _ _ _ _ hg hcl]
    by_cases hv : v = st.url.id
    · subst hv
      simp only [set_ent_same]
      rcases readRemote_spec legacy sha (s.now + st.dt) (s.ent st.url.id) st.flags
          (net st.flags st.server) st.answer with ⟨h1, _⟩ | ⟨_, c', _, _, h3, _⟩
      · unfold stepRead; rw [h1]; exact h
      · unfold stepRead; rw [h3]; rfl
    · simp only [set_ent_other _ _ _ _ hv, tick_ent]; exact h

theorem content_persists_run (legacy sha) (h : List Step) : ∀ (s : RState) (v : Nat),
    (∀ x ∈ h, x.flags.clearCache = false) → ((s.ent v).content).isSome = true →
    ((((runWith legacy sha s h).2).ent v).content).isSome = true := by
  induction h with
  | nil => intro s v _ hs; exact hs
  | cons st rest ih =>
    intro s v hx hs
    simp only [runWith]
    exact ih _ v (fun x hx' => hx x (List.mem_cons_of_mem _ hx'))
      (content_persists legacy sha s st v (hx st List.mem_cons_self) hs)

/-- **C20_stays_runnable**: once an invocation has handed on (downloaded-and-approved or
cached) content of a URL, then after *any* further history without `--clear-cache`, an
invocation for that URL made while the network is unavailable, or with `--offline`, runs a
copy whose checksum is the approved one. -/
theorem C20_stays_runnable (sha : Content → Sum) (h1 : List Step) (st : Step) (h2 : List Step)
    (c : Content) (st2 : Step)
    (hrun : (invoke sha (reach sha h1) st).1 = .run c)
    (hnc : ∀ x ∈ h2, x.flags.clearCache = false)
    (hu : st2.url.id = st.url.id) (hg : gate st2 = none) (hcl : st2.flags.clearCache = false)
    (hdown : Unavailable st2 ∨ st2.flags.offline = true) :
    ∃ c', (invoke sha (reach sha (h1 ++ st :: h2)) st2).1 = .run c' ∧
      ((reach sha (h1 ++ st :: h2)).ent st2.url.id).sum = some (sha c') := by
  -- after `st` the copy is in the cache
  have hi := inv_reach sha h1
  obtain ⟨_, hcl1, he⟩ := run_inv false sha (reach sha h1) st c hrun
  have hafter : ((((invoke sha (reach sha h1) st).2).ent st.url.id).content).isSome = true := by
    unfold invoke at hrun ⊢
    rw [he] at hrun ⊢
    simp only [set_ent_same]
    rcases readRemote_spec false sha ((reach sha h1).now + st.dt) ((reach sha h1).ent st.url.id) st.flags
        (net st.flags st.server) st.answer with ⟨h1', h2'⟩ | ⟨_, c', _, _, h3, _⟩
    · unfold stepRead; rw [h1']; rw [h2' c hrun]; rfl
    · unfold stepRead; rw [h3]; rfl
  have hreach : reach sha (h1 ++ st :: h2) = (run sha (invoke sha (reach sha h1) st).2 h2).2 := by
    unfold reach run
    rw [runWith_append]
    simp only [runWith]
    rfl
  have hsome := content_persists_run false sha h2 _ st.url.id hnc hafter
  rw [← hu] at hsome
  unfold run at hreach
  rw [← hreach] at hsome
  cases hc' : ((reach sha (h1 ++ st :: h2)).ent st2.url.id).content with
  | none => rw [hc'] at hsome; cases hsome
  | some c' =>
    refine ⟨c', ?_, inv_reach sha _ _ c' hc'⟩
    rcases hdown with hd | hd
    · exact (C20_available sha _ st2 c' hg hcl hd hc').1
    · exact (C20_offline sha _ st2 c' hg hd hcl hc').1

/-! ## The decision table, row by row (DESIGN App. D) -/

/-- no copy and `--offline`: 106 -/
theorem C20_offline_no_cache (sha : Content → Sum) (s : RState) (st : Step)
    (hg : gate st = none) (ho : st.flags.offline = true)
    (hc : (s.ent st.url.id).content = none) : (invoke sha s st).1 = .error 106 := by
  have hw : wantsFetch (s.now + st.dt) (s.ent st.url.id) st.flags = false := by simp [wantsFetch, hc, ho]
  have hr : stepRead false sha s st = (.error 106, s.ent st.url.id) := by
    unfold stepRead; rw [readRemote_of_not_wantsFetch _ _ _ _ _ _ _ hw, hc]
  unfold invoke
  cases hcl : st.flags.clearCache with
  | false => rw [invokeWith_open _ _ _ _ hg hcl, hr]
  | true =>
    rcases invokeWith_clear false sha s st hg hcl with ⟨c, h1, _⟩ | ⟨_, he⟩
    · rw [hr] at h1; cases h1
    · rw [he, hr]

/-- the default expiry 0 makes no cache valid: after any history, every online invocation
goes to the network (stored timestamps are never ahead of the clock) -/
theorem C20_default_expiry_always_fetches (sha : Content → Sum) (h : List Step) (st : Step)
    (hx : st.flags.expiry = 0) (ho : st.flags.offline = false) :
    wantsFetch ((reach sha h).now + st.dt) ((reach sha h).ent st.url.id) st.flags = true := by
  have hts : TsOk (reach sha h) := tsOk_runWith false sha h _ tsOk_init
  unfold wantsFetch cacheValid
  cases hc : ((reach sha h).ent st.url.id).content with
  | none => simp [ho]
  | some c =>
    cases ht : ((reach sha h).ent st.url.id).ts with
    | none => simp [ho]
    | some t =>
      have := hts _ t ht
      simp [hx, ho]
      left; omega

/-! ## Same definitions as the driver executes -/

theorem observe_results (legacy sha k) (h : List Step) : ∀ s,
    (observe legacy sha k s h).map (·.1) = (runWith legacy sha s h).1 := by
  induction h with
  | nil => intro s; rfl
  | cons st rest ih => intro s; simp only [observe, runWith, List.map_cons]; rw [ih]

/-! ## Non-vacuity: concrete histories meeting the hypotheses -/

private def noFlags : RFlags := { yesFlags with yes := false }
private def stChanged : Step := ⟨0, url0, noFlags, .serve 2, .noTerminal⟩
private def stDecline : Step := ⟨0, url0, noFlags, .serve 2, .decline⟩
private def stAccept : Step := ⟨0, url0, noFlags, .serve 2, .accept⟩
private def stOffline : Step := ⟨0, url0, { noFlags with offline := true }, .serve 2, .noTerminal⟩
private def stHttp : Step := ⟨0, url0, { yesFlags with insecure := false }, .serve 1, .accept⟩
private def stHour : Step := ⟨0, url0, { noFlags with expiry := 1 }, .serve 2, .noTerminal⟩
private def stAged : Step := ⟨2, url0, { noFlags with expiry := 1 }, .fail .notFound, .noTerminal⟩

-- first use without approval: 104; approved download; changed content unapproved: 104 and the
-- old copy stays; offline runs the old copy; accepted prompt switches; http without --insecure: 105
example : (run id RState.init [stChanged, stGet, stChanged, stDecline, stOffline, stAccept, stOffline, stHttp]).1
    = [.error 104, .run 1, .error 104, .error 104, .run 1, .run 2, .run 2, .error 105] := by decide
-- hypotheses of `unapproved_refused` are met by `stChanged` after `stGet`
example : gate stChanged = none ∧
    wantsFetch ((reach id [stGet]).now + 0) ((reach id [stGet]).ent 0) stChanged.flags = true ∧
    ((reach id [stGet]).ent 0).sum ≠ some (id 2) ∧ approves stChanged.flags stChanged.answer = false := by decide
-- an unexpired cache is used without asking the (changed) server; once aged past the expiry the
-- server is asked, and its 404 falls back to the copy
example : (run id RState.init [stGet, stHour, stAged]).1 = [.run 1, .run 1, .run 1] := by decide
example : (runWith true id RState.init [stGet, stHour, stAged]).1 = [.run 1, .run 1, .error 100] := by decide
example : Unavailable stRefused ∧ Unavailable stStalled ∧ Unavailable stAged :=
  ⟨unavailable_of_failed _ _ .refused (by decide), unavailable_of_timedOut _ _ (by decide),
   unavailable_of_failed _ _ .notFound (by decide)⟩
example : ((reach id [stGet]).ent 0).content = some 1 := by decide
-- no cache: refused 103, stalled 108, offline 106
example : (run id RState.init [stRefused, stStalled, stOffline]).1 = [.error 103, .error 108, .error 106] := by decide

/-! # Chains: one invocation reads a remote Taskfile *and* the remote Taskfile it includes

`TaskModel.Remote.Chain`: `invokeChain sha inc s st` — node 1 as above, then, if the content
node 1 yields includes a remote Taskfile (`inc c1 = some u2`), node 2 = `u2`, read by the same
`readRemote` against its own cache entry, its own server behaviour and its own prompt answer,
under the **one `--timeout` deadline of the invocation**: once node 1's fetch has timed out the
deadline has passed (`spent1`), and node 2's fetch comes back `timedOut` at once, whatever its
server would do (`net2`).  `inc` is a parameter like `sha`: nothing is assumed about it.
All statements below are for arbitrary histories of such invocations (`reachChain`). -/

theorem inv_after1 (legacy sha s st) (h : Inv sha s) : Inv sha (after1 legacy sha s st) := by
  intro v
  by_cases hv : v = st.base.url.id
  · subst hv; rw [after1_ent_same]; exact readRemote_EInv _ _ _ _ _ _ _ (h _)
  · rw [after1_ent_other _ _ _ _ _ hv]; exact h v

theorem inv_after2 (legacy sha s st u2) (h : Inv sha s) : Inv sha (after2 legacy sha s st u2) := by
  intro v
  have h1 := inv_after1 legacy sha s st h
  by_cases hv : v = u2.id
  · subst hv; simp only [after2, set_ent_same]; exact readRemote_EInv _ _ _ _ _ _ _ (h1 _)
  · simp only [after2, set_ent_other _ _ _ _ hv]; exact h1 v

theorem inv_finish (sha) (f : RFlags) (r s) (h : Inv sha s) : Inv sha (finish f r s).2 := by
  cases hc : f.clearCache with
  | false => rw [finish_keep _ _ _ hc]; exact h
  | true => rw [finish_clear _ _ _ hc]; intro v; exact EInv_empty sha

theorem inv_invokeChainWith (legacy sha inc s st) (h : Inv sha s) :
    Inv sha (invokeChainWith legacy sha inc s st).2 := by
  cases shape legacy sha inc s st with
  | gated code _ he => rw [he]; exact h
  | err1 _ _ he => rw [he]; exact inv_after1 _ _ _ _ h
  | single c1 _ _ _ he => rw [he]; exact inv_finish _ _ _ _ (inv_after1 _ _ _ _ h)
  | cycle c1 u2 _ _ _ _ he => rw [he]; exact inv_after1 _ _ _ _ h
  | gated2 c1 u2 code _ _ _ _ _ he => rw [he]; exact inv_after1 _ _ _ _ h
  | err2 c1 u2 _ _ _ _ _ _ he => rw [he]; exact inv_after2 _ _ _ _ _ h
  | both c1 u2 c2 _ _ _ _ _ _ he => rw [he]; exact inv_finish _ _ _ _ (inv_after2 _ _ _ _ _ h)

theorem inv_runChainWith (legacy sha inc) (h : List CStep) :
    ∀ s, Inv sha s → Inv sha (runChainWith legacy sha inc s h).2 := by
  induction h with
  | nil => intro s hs; exact hs
  | cons st rest ih =>
    intro s hs
    simp only [runChainWith]
    exact ih _ (inv_invokeChainWith legacy sha inc s st hs)

/-- the invariant (a cached copy is one whose checksum is the approved one) holds after every
history of chain invocations, for every entry — node 1's and node 2's alike -/
theorem inv_reachChain (sha inc) (h : List CStep) : Inv sha (reachChain sha inc h) :=
  inv_runChainWith false sha inc h _ (inv_init sha)

/-! ## Per-node facts used for both nodes -/

/-- what a node hands on has the stored checksum afterwards, and that checksum was stored
before or is approved in this very read -/
theorem node_trust (legacy sha now e f n a c) (hi : EInv sha e)
    (h : (readRemote legacy sha now e f n a).1 = .run c) :
    (readRemote legacy sha now e f n a).2.sum = some (sha c) ∧
    (e.sum = some (sha c) ∨ approves f a = true) := by
  rcases readRemote_spec legacy sha now e f n a with ⟨h1, h2⟩ | ⟨_, c', _, h2, h3, h4⟩
  · have hc := hi c (h2 c h)
    rw [h1]; exact ⟨hc, Or.inl hc⟩
  · rw [h2] at h; cases h
    rw [h3]; exact ⟨rfl, h4⟩

/-- a node's entry changes only by the three writes of downloaded content whose checksum was
the stored one already or is approved in this very read -/
theorem node_write (legacy sha now e f n a) (h : (readRemote legacy sha now e f n a).2 ≠ e) :
    ∃ c, n = .content c ∧ (readRemote legacy sha now e f n a).1 = .run c ∧
      (readRemote legacy sha now e f n a).2 = written sha now e c ∧
      (e.sum = some (sha c) ∨ approves f a = true) := by
  rcases readRemote_spec legacy sha now e f n a with ⟨h1, _⟩ | ⟨_, c, hn, h2, h3, h4⟩
  · exact absurd h1 h
  · exact ⟨c, hn, h2, h3, h4⟩

/-- new or changed content without approval: 104, entry untouched -/
theorem node_unapproved (legacy sha now e f n a c) (hw : wantsFetch now e f = true)
    (hn : n = .content c) (hs : e.sum ≠ some (sha c)) (ha : approves f a = false) :
    readRemote legacy sha now e f n a = (.error 104, e) := by
  rw [readRemote_of_wantsFetch _ _ _ _ _ _ _ hw, hn]
  have hp : needsPrompt e (sha c) = true := by
    cases hp : needsPrompt e (sha c) with
    | true => rfl
    | false => exact absurd ((needsPrompt_false_iff _ _).mp hp) hs
  simp [fetch, hp, ha]

/-- **availability of one node** (repaired rule): whenever the fetch gives no content — refused,
HTTP error, stalled past `--timeout`, *or the shared deadline had passed before the read began* —
or no fetch is made at all, a cached copy is what the node yields, and its entry stays as it is -/
theorem node_available (sha now e f n a c) (hu : ∀ c', n ≠ .content c') (hc : e.content = some c) :
    readRemote false sha now e f n a = (.run c, e) := by
  cases hw : wantsFetch now e f with
  | false => rw [readRemote_of_not_wantsFetch _ _ _ _ _ _ _ hw, hc]
  | true =>
    rw [readRemote_of_wantsFetch _ _ _ _ _ _ _ hw, hc]
    cases n with
    | content c' => exact absurd rfl (hu c')
    | timedOut => simp [fetch]
    | failed k => simp [fetch]

/-- `--offline` (with the `--download` that `flags.Validate` then forbids off): the network
outcome and the answer are not looked at -/
theorem node_offline (legacy sha now e f n a) (ho : f.offline = true) (hd : f.download = false) :
    readRemote legacy sha now e f n a = (match e.content with | some c => .run c | none => .error 106, e) := by
  apply readRemote_of_not_wantsFetch
  unfold wantsFetch
  cases e.content <;> simp [ho, hd]

theorem spent_offline (now e) (f : RFlags) (n) (ho : f.offline = true) (hd : f.download = false) :
    spent now e f n = false := by
  unfold spent wantsFetch
  cases n <;> cases e.content <;> simp [ho, hd]

theorem liftErr_ne_run (r : RResult) (h : ∀ c, r ≠ .run c) (c1 c2) : liftErr r ≠ .run c1 c2 := by
  cases r with
  | run c => exact absurd rfl (h c)
  | cleared => intro h'; cases h'
  | error code => intro h'; cases h'

theorem liftErr_ne_cleared (r : RResult) (h : r ≠ .cleared) : liftErr r ≠ .cleared := by
  cases r with
  | run c => intro h'; cases h'
  | cleared => exact absurd rfl h
  | error code => intro h'; cases h'

theorem after2_ent_same (legacy sha s st u2) :
    (after2 legacy sha s st u2).ent u2.id = (read2 legacy sha s st u2).2 := by
  simp [after2]

theorem after2_ent_other (legacy sha s st u2 v) (hv : v ≠ u2.id) :
    (after2 legacy sha s st u2).ent v = (after1 legacy sha s st).ent v := by
  simp [after2, set_ent_other _ _ _ _ hv]

/-! ## Cache writes only after trust — for both nodes -/

/-- node 1's entry now holds the three writes of content its server gave, whose checksum was
the stored one already or was approved (`--yes` / node 1's prompt accepted) in this invocation -/
def Wrote1 (sha : Content → Sum) (s : RState) (st : CStep) (v : Nat) (e : Entry) : Prop :=
  v = st.base.url.id ∧ ∃ c, net st.base.flags st.base.server = .content c ∧
    e = written sha (s.now + st.base.dt) (s.ent v) c ∧
    ((s.ent v).sum = some (sha c) ∨ approves st.base.flags st.base.answer = true)

/-- the same for node 2: it was read (node 1 yielded content that includes it), the deadline had
not passed, its server gave content, the checksum was known or node 2's own prompt was accepted -/
def Wrote2 (legacy : Bool) (sha : Content → Sum) (inc : Content → Option Url) (s : RState) (st : CStep)
    (v : Nat) (e : Entry) : Prop :=
  ∃ c1 u2, (read1 legacy sha s st).1 = .run c1 ∧ inc c1 = some u2 ∧ v = u2.id ∧ v ≠ st.base.url.id ∧
    spent1 s st = false ∧ ∃ c, net st.base.flags st.hop.server = .content c ∧
    e = written sha (s.now + st.base.dt) (s.ent v) c ∧
    ((s.ent v).sum = some (sha c) ∨ approves st.base.flags st.hop.answer = true)

theorem net2_content (sp : Bool) (f sv c) (h : net2 sp f sv = .content c) : sp = false ∧ net f sv = .content c := by
  unfold net2 at h
  cases sp with
  | true => simp at h
  | false => exact ⟨rfl, by simpa using h⟩

theorem after1_change (legacy sha s st v) (h : (after1 legacy sha s st).ent v ≠ s.ent v) :
    Wrote1 sha s st v ((after1 legacy sha s st).ent v) := by
  by_cases hv : v = st.base.url.id
  · subst hv
    rw [after1_ent_same] at h ⊢
    obtain ⟨c, hn, _, hw, ha⟩ := node_write _ _ _ _ _ _ _ h
    exact ⟨rfl, c, hn, hw, ha⟩
  · exact absurd (after1_ent_other _ _ _ _ _ hv) h

theorem after2_change (legacy sha inc s st c1 u2 v) (h1 : (read1 legacy sha s st).1 = .run c1)
    (hi : inc c1 = some u2) (hu : u2.id ≠ st.base.url.id)
    (h : (after2 legacy sha s st u2).ent v ≠ s.ent v) :
    Wrote1 sha s st v ((after2 legacy sha s st u2).ent v) ∨
    Wrote2 legacy sha inc s st v ((after2 legacy sha s st u2).ent v) := by
  by_cases hv : v = u2.id
  · subst hv
    right
    rw [after2_ent_same, read2_eq _ _ _ _ _ hu] at h ⊢
    obtain ⟨c, hn, _, hw, ha⟩ := node_write _ _ _ _ _ _ _ h
    obtain ⟨hsp, hn'⟩ := net2_content _ _ _ _ hn
    exact ⟨c1, u2, h1, hi, rfl, hu, hsp, c, hn', hw, ha⟩
  · left
    rw [after2_ent_other _ _ _ _ _ _ hv] at h ⊢
    exact after1_change _ _ _ _ _ h

/-- **Cache written only after trust, for every node of the chain**: whatever entry differs after
an invocation was either dropped by a successful `--clear-cache`, or is node 1's or node 2's and
holds exactly the three writes of downloaded content whose checksum was already the approved
one or was approved — by `--yes` or by *that node's* accepted prompt — in this invocation. -/
theorem chain_write_spec (legacy sha inc s st v)
    (h : (invokeChainWith legacy sha inc s st).2.ent v ≠ s.ent v) :
    (st.base.flags.clearCache = true ∧ (invokeChainWith legacy sha inc s st).1 = .cleared ∧
      (invokeChainWith legacy sha inc s st).2.ent v = Entry.empty) ∨
    Wrote1 sha s st v ((invokeChainWith legacy sha inc s st).2.ent v) ∨
    Wrote2 legacy sha inc s st v ((invokeChainWith legacy sha inc s st).2.ent v) := by
  cases shape legacy sha inc s st with
  | gated code _ he => rw [he] at h; exact absurd rfl h
  | err1 _ _ he => rw [he] at h ⊢; exact Or.inr (Or.inl (after1_change _ _ _ _ _ h))
  | cycle c1 u2 _ _ _ _ he => rw [he] at h ⊢; exact Or.inr (Or.inl (after1_change _ _ _ _ _ h))
  | gated2 c1 u2 code _ _ _ _ _ he => rw [he] at h ⊢; exact Or.inr (Or.inl (after1_change _ _ _ _ _ h))
  | single c1 _ _ _ he =>
    rw [he] at h ⊢
    cases hc : st.base.flags.clearCache with
    | false =>
      rw [finish_keep _ _ _ hc] at h ⊢; exact Or.inr (Or.inl (after1_change _ _ _ _ _ h))
    | true => rw [finish_clear _ _ _ hc]; exact Or.inl ⟨rfl, rfl, rfl⟩
  | err2 c1 u2 _ h1 hi hu _ _ he =>
    rw [he] at h ⊢; exact Or.inr (after2_change _ _ _ _ _ _ _ _ h1 hi hu h)
  | both c1 u2 c2 _ h1 hi hu _ _ he =>
    rw [he] at h ⊢
    cases hc : st.base.flags.clearCache with
    | false =>
      rw [finish_keep _ _ _ hc] at h ⊢; exact Or.inr (after2_change _ _ _ _ _ _ _ _ h1 hi hu h)
    | true => rw [finish_clear _ _ _ hc]; exact Or.inl ⟨rfl, rfl, rfl⟩

/-! ## Trust -/

/-- What C20 demands of one chain invocation `st` made in state `s`. -/
structure TrustChain (sha : Content → Sum) (inc : Content → Option Url) (s : RState) (st : CStep) : Prop where
  /-- node 1's content handed on for execution has the checksum that is the approved one for its
  URL at that moment, approved before or in this very invocation (`--yes` / node 1's prompt) -/
  ran1_is_approved : ∀ c1 c2, (invokeChain sha inc s st).1 = .run c1 c2 →
    ((invokeChain sha inc s st).2.ent st.base.url.id).sum = some (sha c1) ∧
    ((s.ent st.base.url.id).sum = some (sha c1) ∨ approves st.base.flags st.base.answer = true)
  /-- node 2's content handed on for execution is that of the URL node 1's content includes, has
  the checksum that is the approved one for *that* URL, approved before or in this very invocation
  (`--yes` / node 2's own prompt) -/
  ran2_is_approved : ∀ c1 c2, (invokeChain sha inc s st).1 = .run c1 (some c2) →
    ∃ u2, inc c1 = some u2 ∧ u2.id ≠ st.base.url.id ∧
      ((invokeChain sha inc s st).2.ent u2.id).sum = some (sha c2) ∧
      ((s.ent u2.id).sum = some (sha c2) ∨ approves st.base.flags st.hop.answer = true)
  /-- node 1's content runs alone only if it includes nothing remote -/
  ran_alone : ∀ c1, (invokeChain sha inc s st).1 = .run c1 none → inc c1 = none
  /-- cache files are written only after trust, for both nodes (`chain_write_spec`) -/
  written_after_trust : ∀ v, (invokeChain sha inc s st).2.ent v ≠ s.ent v →
    (st.base.flags.clearCache = true ∧ (invokeChain sha inc s st).1 = .cleared ∧
      (invokeChain sha inc s st).2.ent v = Entry.empty) ∨
    Wrote1 sha s st v ((invokeChain sha inc s st).2.ent v) ∨
    Wrote2 false sha inc s st v ((invokeChain sha inc s st).2.ent v)
  /-- the approved checksum of any URL changes only to the checksum of content downloaded in this
  invocation for that URL as node 1 or node 2, under `--yes` or that node's accepted prompt — or
  the whole cache is dropped by `--clear-cache` -/
  change_needs_approval : ∀ v, ((invokeChain sha inc s st).2.ent v).sum ≠ (s.ent v).sum →
    (st.base.flags.clearCache = true ∧ (invokeChain sha inc s st).1 = .cleared) ∨
    (v = st.base.url.id ∧ approves st.base.flags st.base.answer = true ∧
      ∃ c, net st.base.flags st.base.server = .content c ∧
        ((invokeChain sha inc s st).2.ent v).sum = some (sha c)) ∨
    (v ≠ st.base.url.id ∧ approves st.base.flags st.hop.answer = true ∧
      ∃ c1 u2 c, (read1 false sha s st).1 = .run c1 ∧ inc c1 = some u2 ∧ v = u2.id ∧
        net st.base.flags st.hop.server = .content c ∧
        ((invokeChain sha inc s st).2.ent v).sum = some (sha c))
  /-- node 1 offers new or changed content without approval: 104, node 2 is not read, no cache
  file of any URL touched -/
  unapproved1_refused : ∀ c, gate st.base = none →
    wantsFetch (s.now + st.base.dt) (s.ent st.base.url.id) st.base.flags = true →
    net st.base.flags st.base.server = .content c → (s.ent st.base.url.id).sum ≠ some (sha c) →
    approves st.base.flags st.base.answer = false →
    (invokeChain sha inc s st).1 = .error 104 ∧ ∀ v, (invokeChain sha inc s st).2.ent v = s.ent v
  /-- node 2 offers new or changed content without approval: 104, **nothing runs — not node 1's
  content either** — and no cache file other than node 1's is touched -/
  unapproved2_refused : ∀ c1 u2 c, gate st.base = none → (read1 false sha s st).1 = .run c1 →
    inc c1 = some u2 → u2.id ≠ st.base.url.id → gate2 st.base.flags u2 = none →
    wantsFetch (s.now + st.base.dt) (s.ent u2.id) st.base.flags = true →
    net2 (spent1 s st) st.base.flags st.hop.server = .content c → (s.ent u2.id).sum ≠ some (sha c) →
    approves st.base.flags st.hop.answer = false →
    (invokeChain sha inc s st).1 = .error 104 ∧
      ∀ v, v ≠ st.base.url.id → (invokeChain sha inc s st).2.ent v = s.ent v

theorem chain_ran (legacy sha inc s st) (hi : Inv sha s) (c1 : Content) (c2 : Option Content)
    (h : (invokeChainWith legacy sha inc s st).1 = .run c1 c2) :
    (((invokeChainWith legacy sha inc s st).2.ent st.base.url.id).sum = some (sha c1) ∧
      ((s.ent st.base.url.id).sum = some (sha c1) ∨ approves st.base.flags st.base.answer = true)) ∧
    (c2 = none → inc c1 = none) ∧
    (∀ c2', c2 = some c2' → ∃ u2, inc c1 = some u2 ∧ u2.id ≠ st.base.url.id ∧
      ((invokeChainWith legacy sha inc s st).2.ent u2.id).sum = some (sha c2') ∧
      ((s.ent u2.id).sum = some (sha c2') ∨ approves st.base.flags st.hop.answer = true)) := by
  have t1 : ∀ c, (read1 legacy sha s st).1 = .run c →
      (read1 legacy sha s st).2.sum = some (sha c) ∧
      ((s.ent st.base.url.id).sum = some (sha c) ∨ approves st.base.flags st.base.answer = true) :=
    fun c hc => node_trust _ _ _ _ _ _ _ c (hi _) hc
  cases shape legacy sha inc s st with
  | gated code _ he => rw [he] at h; cases h
  | err1 _ hn he => rw [he] at h; exact absurd h (liftErr_ne_run _ hn _ _)
  | cycle c1' u2 _ _ _ _ he => rw [he] at h; cases h
  | gated2 c1' u2 code _ _ _ _ _ he => rw [he] at h; cases h
  | err2 c1' u2 _ _ _ _ _ hn he => rw [he] at h; exact absurd h (liftErr_ne_run _ hn _ _)
  | single c1' _ h1 hinc he =>
    rw [he] at h ⊢
    cases hc : st.base.flags.clearCache with
    | true => rw [finish_clear _ _ _ hc] at h; cases h
    | false =>
      rw [finish_keep _ _ _ hc] at h ⊢
      cases h
      refine ⟨?_, fun _ => hinc, fun c2' h' => (by cases h')⟩
      simp only [after1_ent_same]
      exact t1 c1 h1
  | both c1' u2 c2' _ h1 hinc hu _ h2 he =>
    rw [he] at h ⊢
    cases hc : st.base.flags.clearCache with
    | true => rw [finish_clear _ _ _ hc] at h; cases h
    | false =>
      rw [finish_keep _ _ _ hc] at h ⊢
      cases h
      refine ⟨?_, fun h' => (by cases h'), fun c2'' h' => ?_⟩
      · rw [after2_ent_other _ _ _ _ _ _ (Ne.symm hu), after1_ent_same]
        exact t1 c1 h1
      · cases h'
        refine ⟨u2, hinc, hu, ?_⟩
        rw [after2_ent_same]
        have h2' := h2
        rw [read2_eq _ _ _ _ _ hu] at h2' ⊢
        exact node_trust _ _ _ _ _ _ _ _ (hi _) h2'

theorem chain_change (legacy sha inc s st v)
    (h : ((invokeChainWith legacy sha inc s st).2.ent v).sum ≠ (s.ent v).sum) :
    (st.base.flags.clearCache = true ∧ (invokeChainWith legacy sha inc s st).1 = .cleared) ∨
    (v = st.base.url.id ∧ approves st.base.flags st.base.answer = true ∧
      ∃ c, net st.base.flags st.base.server = .content c ∧
        ((invokeChainWith legacy sha inc s st).2.ent v).sum = some (sha c)) ∨
    (v ≠ st.base.url.id ∧ approves st.base.flags st.hop.answer = true ∧
      ∃ c1 u2 c, (read1 legacy sha s st).1 = .run c1 ∧ inc c1 = some u2 ∧ v = u2.id ∧
        net st.base.flags st.hop.server = .content c ∧
        ((invokeChainWith legacy sha inc s st).2.ent v).sum = some (sha c)) := by
  have hne : (invokeChainWith legacy sha inc s st).2.ent v ≠ s.ent v := by
    intro he; rw [he] at h; exact h rfl
  rcases chain_write_spec legacy sha inc s st v hne with ⟨hc, hr, _⟩ | ⟨hv, c, hn, hw, ha⟩ |
      ⟨c1, u2, h1, hi, hv, hvn, _, c, hn, hw, ha⟩
  · exact Or.inl ⟨hc, hr⟩
  · right; left
    rw [hw] at h ⊢
    refine ⟨hv, ?_, c, hn, rfl⟩
    rcases ha with ha | ha
    · simp only [written_sum] at h; exact absurd ha.symm h
    · exact ha
  · right; right
    rw [hw] at h ⊢
    refine ⟨hvn, ?_, c1, u2, c, h1, hi, hv, hn, rfl⟩
    rcases ha with ha | ha
    · simp only [written_sum] at h; exact absurd ha.symm h
    · exact ha

theorem chain_unapproved1 (legacy sha inc s st c) (hg : gate st.base = none)
    (hw : wantsFetch (s.now + st.base.dt) (s.ent st.base.url.id) st.base.flags = true)
    (hn : net st.base.flags st.base.server = .content c) (hs : (s.ent st.base.url.id).sum ≠ some (sha c))
    (ha : approves st.base.flags st.base.answer = false) :
    (invokeChainWith legacy sha inc s st).1 = .error 104 ∧
      ∀ v, (invokeChainWith legacy sha inc s st).2.ent v = s.ent v := by
  have hr : read1 legacy sha s st = (.error 104, s.ent st.base.url.id) :=
    node_unapproved _ _ _ _ _ _ _ c hw hn hs ha
  have h1 : ∀ c', (read1 legacy sha s st).1 ≠ .run c' := by intro c' hc; rw [hr] at hc; cases hc
  rw [invokeChainWith_err1 _ _ _ _ _ hg h1, hr]
  refine ⟨rfl, fun v => ?_⟩
  by_cases hv : v = st.base.url.id
  · subst hv; rw [after1_ent_same, hr]
  · exact after1_ent_other _ _ _ _ _ hv

theorem chain_unapproved2 (legacy sha inc s st c1 u2 c) (hg : gate st.base = none)
    (h1 : (read1 legacy sha s st).1 = .run c1) (hi : inc c1 = some u2) (hu : u2.id ≠ st.base.url.id)
    (hg2 : gate2 st.base.flags u2 = none)
    (hw : wantsFetch (s.now + st.base.dt) (s.ent u2.id) st.base.flags = true)
    (hn : net2 (spent1 s st) st.base.flags st.hop.server = .content c)
    (hs : (s.ent u2.id).sum ≠ some (sha c)) (ha : approves st.base.flags st.hop.answer = false) :
    (invokeChainWith legacy sha inc s st).1 = .error 104 ∧
      ∀ v, v ≠ st.base.url.id → (invokeChainWith legacy sha inc s st).2.ent v = s.ent v := by
  have hr : read2 legacy sha s st u2 = (.error 104, s.ent u2.id) := by
    rw [read2_eq _ _ _ _ _ hu]; exact node_unapproved _ _ _ _ _ _ _ c hw hn hs ha
  have h2 : ∀ c', (read2 legacy sha s st u2).1 ≠ .run c' := by intro c' hc; rw [hr] at hc; cases hc
  rw [invokeChainWith_err2 _ _ _ _ _ _ _ hg h1 hi hu hg2 h2, hr]
  refine ⟨rfl, fun v hv1 => ?_⟩
  by_cases hv : v = u2.id
  · subst hv; rw [after2_ent_same, hr]
  · rw [after2_ent_other _ _ _ _ _ _ hv]; exact after1_ent_other _ _ _ _ _ hv1

theorem trustChain (sha inc s st) (hi : Inv sha s) : TrustChain sha inc s st where
  ran1_is_approved c1 c2 h := (chain_ran false sha inc s st hi c1 c2 h).1
  ran2_is_approved c1 c2 h := (chain_ran false sha inc s st hi c1 (some c2) h).2.2 c2 rfl
  ran_alone c1 h := (chain_ran false sha inc s st hi c1 none h).2.1 rfl
  written_after_trust v h := chain_write_spec false sha inc s st v h
  change_needs_approval v h := chain_change false sha inc s st v h
  unapproved1_refused c hg hw hn hs ha := chain_unapproved1 false sha inc s st c hg hw hn hs ha
  unapproved2_refused c1 u2 c hg h1 hinc hu hg2 hw hn hs ha :=
    chain_unapproved2 false sha inc s st c1 u2 c hg h1 hinc hu hg2 hw hn hs ha

/-- **C20_chain_trust**: after *every* history of chain invocations, whatever the next one is (any
flags, any behaviour of either node's server, any answers, any `inc`, any `sha`): content of
either node is handed on for execution only with the checksum approved for *its* URL; cache
files and approved checksums change only after trust, node by node; unapproved new or changed
content of either node ends in 104 with nothing run. -/
theorem C20_chain_trust (sha : Content → Sum) (inc : Content → Option Url) (h : List CStep) (st : CStep) :
    TrustChain sha inc (reachChain sha inc h) st :=
  trustChain sha inc _ st (inv_reachChain sha inc h)

def AlwaysChain (sha : Content → Sum) (inc : Content → Option Url) (P : RState → CStep → Prop) :
    RState → List CStep → Prop
  | _, [] => True
  | s, st :: rest => P s st ∧ AlwaysChain sha inc P (invokeChain sha inc s st).2 rest

/-- the same, for every step *inside* an arbitrary history -/
theorem C20_chain_trust_always (sha : Content → Sum) (inc : Content → Option Url) (h : List CStep) :
    AlwaysChain sha inc (TrustChain sha inc) RState.init h := by
  suffices ∀ s, Inv sha s → AlwaysChain sha inc (TrustChain sha inc) s h from this _ (inv_init sha)
  induction h with
  | nil => intro _ _; trivial
  | cons st rest ih =>
    intro s hs
    exact ⟨trustChain sha inc s st hs, ih _ (inv_invokeChainWith false sha inc s st hs)⟩

/-- a chain whose contents include nothing remote is exactly the single-node invocation above -/
theorem C20_chain_extends (sha : Content → Sum) (s : RState) (st : CStep) :
    invokeChain sha (fun _ => none) s st = (liftResult (invoke sha s st.base).1, (invoke sha s st.base).2) :=
  invokeChainWith_noinc false sha s st

/-! ## Offline: no network use, for either node -/

/-- **C20_chain_offline_no_network**: under `--offline` the outcome of the whole chain and the
cache it leaves do not depend on what either server would do, nor on the answers: nothing is
asked of the network and nobody is prompted. -/
theorem C20_chain_offline_no_network (sha : Content → Sum) (inc : Content → Option Url) (s : RState)
    (st st' : CStep) (ho : st.base.flags.offline = true)
    (hdt : st'.base.dt = st.base.dt) (hurl : st'.base.url = st.base.url) (hf : st'.base.flags = st.base.flags) :
    invokeChain sha inc s st' = invokeChain sha inc s st := by
  have hgate : gate st'.base = gate st.base := by simp [gate, hurl, hf]
  cases hg : gate st.base with
  | some code =>
    unfold invokeChain
    rw [invokeChainWith_gate _ _ _ _ _ _ hg, invokeChainWith_gate _ _ _ _ _ _ (hgate.trans hg), hdt]
  | none =>
    have hd : st.base.flags.download = false := by
      have hok := ((gate_none_iff st.base).mp hg).1
      cases hd : st.base.flags.download with
      | false => rfl
      | true => simp [flagsOk, hd, ho] at hok
    unfold invokeChain invokeChainWith
    simp only [hgate, hg, hdt, hurl, hf, hopRead, node_offline _ _ _ _ _ _ _ ho hd, spent_offline _ _ _ _ ho hd]

/-- **C20_chain_offline**: with cached copies `c1` of node 1 and — if `c1` includes a remote
Taskfile — `c2` of that one (approved ones, by the invariant), `--offline` runs exactly these, for
every expiry, clock, server behaviour and answer, and touches nothing. -/
theorem C20_chain_offline (sha : Content → Sum) (inc : Content → Option Url) (h : List CStep) (st : CStep)
    (c1 : Content) (hg : gate st.base = none) (ho : st.base.flags.offline = true)
    (hcl : st.base.flags.clearCache = false)
    (hc1 : ((reachChain sha inc h).ent st.base.url.id).content = some c1) :
    ((reachChain sha inc h).ent st.base.url.id).sum = some (sha c1) ∧
    (inc c1 = none →
      (invokeChain sha inc (reachChain sha inc h) st).1 = .run c1 none ∧
      ∀ v, (invokeChain sha inc (reachChain sha inc h) st).2.ent v = (reachChain sha inc h).ent v) ∧
    (∀ u2 c2, inc c1 = some u2 → u2.id ≠ st.base.url.id → gate2 st.base.flags u2 = none →
      ((reachChain sha inc h).ent u2.id).content = some c2 →
      (invokeChain sha inc (reachChain sha inc h) st).1 = .run c1 (some c2) ∧
      ((reachChain sha inc h).ent u2.id).sum = some (sha c2) ∧
      ∀ v, (invokeChain sha inc (reachChain sha inc h) st).2.ent v = (reachChain sha inc h).ent v) ∧
    (∀ u2, inc c1 = some u2 → u2.id ≠ st.base.url.id → gate2 st.base.flags u2 = none →
      ((reachChain sha inc h).ent u2.id).content = none →
      (invokeChain sha inc (reachChain sha inc h) st).1 = .error 106) := by
  generalize hs : reachChain sha inc h = s at *
  have hinv : Inv sha s := hs ▸ inv_reachChain sha inc h
  have hd : st.base.flags.download = false := by
    have hok := ((gate_none_iff st.base).mp hg).1
    cases hd : st.base.flags.download with
    | false => rfl
    | true => simp [flagsOk, hd, ho] at hok
  have hr1 : read1 false sha s st = (.run c1, s.ent st.base.url.id) := by
    show readRemote _ _ _ _ _ _ _ = _
    rw [node_offline _ _ _ _ _ _ _ ho hd, hc1]
  have h1 : (read1 false sha s st).1 = .run c1 := by rw [hr1]
  have hsame1 : ∀ v, (after1 false sha s st).ent v = s.ent v := by
    intro v
    by_cases hv : v = st.base.url.id
    · subst hv; rw [after1_ent_same, hr1]
    · exact after1_ent_other _ _ _ _ _ hv
  refine ⟨hinv _ c1 hc1, ?_, ?_, ?_⟩
  · intro hi
    unfold invokeChain
    rw [invokeChainWith_single _ _ _ _ _ c1 hg h1 hi, finish_keep _ _ _ hcl]
    exact ⟨rfl, hsame1⟩
  · intro u2 c2 hi hu hg2 hc2
    have hr2 : read2 false sha s st u2 = (.run c2, s.ent u2.id) := by
      rw [read2_eq _ _ _ _ _ hu, node_offline _ _ _ _ _ _ _ ho hd, hc2]
    have h2 : (read2 false sha s st u2).1 = .run c2 := by rw [hr2]
    unfold invokeChain
    rw [invokeChainWith_both _ _ _ _ _ c1 u2 c2 hg h1 hi hu hg2 h2, finish_keep _ _ _ hcl]
    refine ⟨rfl, hinv _ c2 hc2, fun v => ?_⟩
    by_cases hv : v = u2.id
    · subst hv; rw [after2_ent_same, hr2]
    · rw [after2_ent_other _ _ _ _ _ _ hv]; exact hsame1 v
  · intro u2 hi hu hg2 hc2
    have hr2 : read2 false sha s st u2 = (.error 106, s.ent u2.id) := by
      rw [read2_eq _ _ _ _ _ hu, node_offline _ _ _ _ _ _ _ ho hd, hc2]
    have h2 : ∀ c, (read2 false sha s st u2).1 ≠ .run c := by intro c hc; rw [hr2] at hc; cases hc
    unfold invokeChain
    rw [invokeChainWith_err2 _ _ _ _ _ c1 u2 hg h1 hi hu hg2 h2, hr2]
    rfl

/-! ## Availability, for every node of the chain -/

/-- node 2's fetch gives no content: its server refuses / answers an HTTP error / stalls past
`--timeout`, **or the shared deadline had passed before its read began** -/
def Unavailable2 (s : RState) (st : CStep) : Prop :=
  ∀ c, net2 (spent1 s st) st.base.flags st.hop.server ≠ .content c

theorem unavailable2_of_spent (s st) (h : spent1 s st = true) : Unavailable2 s st := by
  intro c hc; unfold net2 at hc; rw [h] at hc; cases hc

theorem unavailable2_of_server (s st) (h : ∀ c, net st.base.flags st.hop.server ≠ .content c) :
    Unavailable2 s st := by
  intro c hc
  exact h c (net2_content _ _ _ _ hc).2

/-- **Availability of node 1** inside a chain: unavailable network + cached copy ⇒ node 1 yields
that copy (the load goes on with it), entry untouched. -/
theorem C20_chain_available_node1 (sha : Content → Sum) (s : RState) (st : CStep) (c1 : Content)
    (hu : Unavailable st.base) (hc : (s.ent st.base.url.id).content = some c1) :
    read1 false sha s st = (.run c1, s.ent st.base.url.id) :=
  node_available _ _ _ _ _ _ c1 hu hc

/-- **Availability of node 2**: however node 1 came by the content `c1` that includes `u2` (cache or
download), if node 2's fetch gives no content for *any* network reason — including the shared
deadline already used up by node 1 — and a copy `c2` of `u2` is cached, then `c1` and `c2` run and
node 2's cache entry stays as it is.  (This is the statement an early `ctx.Err()` return at the top
of `readRemoteNodeContent` falsifies.) -/
theorem C20_chain_available_node2 (sha : Content → Sum) (inc : Content → Option Url) (s : RState)
    (st : CStep) (c1 c2 : Content) (u2 : Url)
    (hg : gate st.base = none) (hcl : st.base.flags.clearCache = false)
    (h1 : (read1 false sha s st).1 = .run c1) (hi : inc c1 = some u2) (hu : u2.id ≠ st.base.url.id)
    (hg2 : gate2 st.base.flags u2 = none)
    (hdown : Unavailable2 s st) (hc2 : (s.ent u2.id).content = some c2) :
    (invokeChain sha inc s st).1 = .run c1 (some c2) ∧
    (invokeChain sha inc s st).2.ent u2.id = s.ent u2.id := by
  have hr2 : read2 false sha s st u2 = (.run c2, s.ent u2.id) := by
    rw [read2_eq _ _ _ _ _ hu]; exact node_available _ _ _ _ _ _ c2 hdown hc2
  have h2 : (read2 false sha s st u2).1 = .run c2 := by rw [hr2]
  unfold invokeChain
  rw [invokeChainWith_both _ _ _ _ _ c1 u2 c2 hg h1 hi hu hg2 h2, finish_keep _ _ _ hcl]
  exact ⟨rfl, by rw [after2_ent_same, hr2]⟩

/-- The availability half of C20 for chains, at full strength: with the network unavailable
for node 1 and — in whatever way, the spent deadline included — for node 2, cached copies are
what runs, and the whole cache is left as it is. -/
theorem C20_chain_available (sha : Content → Sum) (inc : Content → Option Url) (s : RState)
    (st : CStep) (c1 : Content)
    (hg : gate st.base = none) (hcl : st.base.flags.clearCache = false)
    (hu1 : Unavailable st.base) (hc1 : (s.ent st.base.url.id).content = some c1) :
    (inc c1 = none →
      (invokeChain sha inc s st).1 = .run c1 none ∧ ∀ v, (invokeChain sha inc s st).2.ent v = s.ent v) ∧
    (∀ u2 c2, inc c1 = some u2 → u2.id ≠ st.base.url.id → gate2 st.base.flags u2 = none →
      Unavailable2 s st → (s.ent u2.id).content = some c2 →
      (invokeChain sha inc s st).1 = .run c1 (some c2) ∧ ∀ v, (invokeChain sha inc s st).2.ent v = s.ent v) := by
  have hr1 := C20_chain_available_node1 sha s st c1 hu1 hc1
  have h1 : (read1 false sha s st).1 = .run c1 := by rw [hr1]
  have hsame1 : ∀ v, (after1 false sha s st).ent v = s.ent v := by
    intro v
    by_cases hv : v = st.base.url.id
    · subst hv; rw [after1_ent_same, hr1]
    · exact after1_ent_other _ _ _ _ _ hv
  refine ⟨?_, ?_⟩
  · intro hi
    unfold invokeChain
    rw [invokeChainWith_single _ _ _ _ _ c1 hg h1 hi, finish_keep _ _ _ hcl]
    exact ⟨rfl, hsame1⟩
  · intro u2 c2 hi hu hg2 hdown hc2
    have hr2 : read2 false sha s st u2 = (.run c2, s.ent u2.id) := by
      rw [read2_eq _ _ _ _ _ hu]; exact node_available _ _ _ _ _ _ c2 hdown hc2
    have h2 : (read2 false sha s st u2).1 = .run c2 := by rw [hr2]
    unfold invokeChain
    rw [invokeChainWith_both _ _ _ _ _ c1 u2 c2 hg h1 hi hu hg2 h2, finish_keep _ _ _ hcl]
    refine ⟨rfl, fun v => ?_⟩
    by_cases hv : v = u2.id
    · subst hv; rw [after2_ent_same, hr2]
    · rw [after2_ent_other _ _ _ _ _ _ hv]; exact hsame1 v

/-- **C20_chain_deadline**: node 1's server is slower than `--timeout`, so node 1's fetch uses up
the deadline of the whole invocation; with copies of both nodes in the cache, both run from the
cache — **whatever node 2's server would have done** (serve new content, refuse, stall) and
whatever is answered — and nothing is written. -/
theorem C20_chain_deadline (sha : Content → Sum) (inc : Content → Option Url) (s : RState)
    (st : CStep) (c1 c2 : Content) (u2 : Url)
    (hg : gate st.base = none) (hcl : st.base.flags.clearCache = false)
    (hw : wantsFetch (s.now + st.base.dt) (s.ent st.base.url.id) st.base.flags = true)
    (hn : net st.base.flags st.base.server = .timedOut)
    (hc1 : (s.ent st.base.url.id).content = some c1)
    (hi : inc c1 = some u2) (hu : u2.id ≠ st.base.url.id) (hg2 : gate2 st.base.flags u2 = none)
    (hc2 : (s.ent u2.id).content = some c2) :
    (invokeChain sha inc s st).1 = .run c1 (some c2) ∧ ∀ v, (invokeChain sha inc s st).2.ent v = s.ent v := by
  have hsp : spent1 s st = true := by simp [spent1, spent, hn, hw]
  exact (C20_chain_available sha inc s st c1 hg hcl (unavailable_of_timedOut _ _ hn) hc1).2
    u2 c2 hi hu hg2 (unavailable2_of_spent s st hsp) hc2

/-- … over histories: after any history of chain invocations, cached copies of the two nodes are
approved ones, and they run when the network is unavailable for each in whatever way. -/
theorem C20_chain_available_reach (sha : Content → Sum) (inc : Content → Option Url) (h : List CStep)
    (st : CStep) (c1 c2 : Content) (u2 : Url)
    (hg : gate st.base = none) (hcl : st.base.flags.clearCache = false)
    (hu1 : Unavailable st.base) (hc1 : ((reachChain sha inc h).ent st.base.url.id).content = some c1)
    (hi : inc c1 = some u2) (hu : u2.id ≠ st.base.url.id) (hg2 : gate2 st.base.flags u2 = none)
    (hdown : Unavailable2 (reachChain sha inc h) st)
    (hc2 : ((reachChain sha inc h).ent u2.id).content = some c2) :
    (invokeChain sha inc (reachChain sha inc h) st).1 = .run c1 (some c2) ∧
    ((reachChain sha inc h).ent st.base.url.id).sum = some (sha c1) ∧
    ((reachChain sha inc h).ent u2.id).sum = some (sha c2) :=
  ⟨((C20_chain_available sha inc _ st c1 hg hcl hu1 hc1).2 u2 c2 hi hu hg2 hdown hc2).1,
   inv_reachChain sha inc h _ c1 hc1, inv_reachChain sha inc h _ c2 hc2⟩

/-- the driver's `observeChain` yields the results of `runChainWith` -/
theorem observeChain_results (legacy sha inc k) (h : List CStep) : ∀ s,
    (observeChain legacy sha inc k s h).map (·.1) = (runChainWith legacy sha inc s h).1 := by
  induction h with
  | nil => intro s; rfl
  | cons st rest ih => intro s; simp only [observeChain, runChainWith, List.map_cons]; rw [ih]

/-! ## Non-vacuity: concrete chains -/

/-- content 11 (at URL 0) includes URL 1; everything else includes nothing -/
private def inc1 : Content → Option Url := fun c => if c = 11 then some ⟨1, false⟩ else none
private def hopServe (c : Content) : Hop := ⟨.serve c, .noTerminal⟩
/-- download and approve A = 11 (which includes B) and B = 2, `--yes` -/
private def cGet : CStep := ⟨⟨0, url0, yesFlags, .serve 11, .noTerminal⟩, hopServe 2⟩
/-- the same command line; A's server is slower than `--timeout`, B's server would serve a NEW version 3 -/
private def cStallA : CStep := ⟨⟨0, url0, yesFlags, .slow 11, .noTerminal⟩, hopServe 3⟩
/-- both stall -/
private def cStallBoth : CStep := ⟨⟨0, url0, yesFlags, .slow 11, .noTerminal⟩, ⟨.slow 3, .noTerminal⟩⟩
/-- A fine, B refuses -/
private def cRefuseB : CStep := ⟨⟨0, url0, yesFlags, .serve 11, .noTerminal⟩, ⟨.fail .refused, .noTerminal⟩⟩
/-- no `--yes`, no terminal: B changed to 3 -/
private def cChangedB : CStep := ⟨⟨0, url0, noFlags, .serve 11, .noTerminal⟩, hopServe 3⟩
private def cAcceptB : CStep := ⟨⟨0, url0, noFlags, .serve 11, .decline⟩, ⟨.serve 3, .accept⟩⟩
private def cOffline : CStep := ⟨⟨0, url0, { noFlags with offline := true }, .serve 12, .noTerminal⟩, hopServe 9⟩

-- node 1 stalls past the timeout and both have cached copies ⇒ both run from the cache, although
-- node 2's server would have served (unapproved) version 3 at once; the cache is as it was
example : (runChain id inc1 RState.init [cGet, cStallA, cStallBoth, cRefuseB]).1
    = [.run 11 (some 2), .run 11 (some 2), .run 11 (some 2), .run 11 (some 2)] := by decide
example : ((runChain id inc1 RState.init [cGet, cStallA]).2.ent 1).content = some 2 := by decide
-- hypotheses of `C20_chain_deadline` are met by `cStallA` after `cGet`
example : gate cStallA.base = none ∧ cStallA.base.flags.clearCache = false ∧
    wantsFetch ((reachChain id inc1 [cGet]).now + 0) ((reachChain id inc1 [cGet]).ent 0) cStallA.base.flags = true ∧
    net cStallA.base.flags cStallA.base.server = .timedOut ∧
    ((reachChain id inc1 [cGet]).ent 0).content = some 11 ∧ inc1 11 = some ⟨1, false⟩ ∧
    gate2 cStallA.base.flags ⟨1, false⟩ = none ∧ ((reachChain id inc1 [cGet]).ent 1).content = some 2 := by decide
-- without a copy of node 2 the spent deadline is 108; without one of node 1, node 2 is not read
example : (runChain id inc1 RState.init [⟨cGet.base, ⟨.fail .refused, .noTerminal⟩⟩, cStallA]).1
    = [.error 103, .error 108] := by decide
example : (runChain id inc1 RState.init [cStallA]).1 = [.error 108] := by decide
-- node 2 changed without approval: 104, nothing runs (node 1's content neither), node 2's copy
-- stays; offline runs the old pair; node 2's own accepted prompt switches node 2 only
example : (runChain id inc1 RState.init [cGet, cChangedB, cOffline, cAcceptB, cOffline]).1
    = [.run 11 (some 2), .error 104, .run 11 (some 2), .run 11 (some 3), .run 11 (some 3)] := by decide
-- hypotheses of `unapproved2_refused` are met by `cChangedB` after `cGet`
example : (read1 false id (reachChain id inc1 [cGet]) cChangedB).1 = .run 11 ∧
    wantsFetch ((reachChain id inc1 [cGet]).now + 0) ((reachChain id inc1 [cGet]).ent 1) cChangedB.base.flags = true ∧
    net2 (spent1 (reachChain id inc1 [cGet]) cChangedB) cChangedB.base.flags cChangedB.hop.server = .content 3 ∧
    ((reachChain id inc1 [cGet]).ent 1).sum ≠ some (id 3) ∧
    approves cChangedB.base.flags cChangedB.hop.answer = false := by decide
-- first use of the pair with node 2 declined: node 1 is downloaded, approved and cached, node 2
-- is not, nothing runs
example : (observeChain false id inc1 2 RState.init [⟨⟨0, url0, noFlags, .serve 11, .accept⟩, ⟨.serve 2, .decline⟩⟩]).map
    (fun o => (o.1, o.2.map (·.content))) = [(.error 104, [some 11, none])] := by decide
-- content that includes its own URL: cycle error 110
example : (runChain id (fun c => if c = 5 then some url0 else none) RState.init
    [⟨⟨0, url0, yesFlags, .serve 5, .noTerminal⟩, hopServe 1⟩]).1 = [.error 110] := by decide

end Props.C20
