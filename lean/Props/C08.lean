import TaskModel.Load.MergeInvariant
import TaskModel.Load.ReaderLemmas
import TaskModel.Load.DefaultsLemmas
import TaskModel.Load.RootRef
import TaskModel.Load.PathLemmas
import TaskModel.Load.VarsLemmas
import TaskModel.Gen.Fields
import TaskModel.Gen.Load
import TaskModel.Gen.MergeRule
/-!
# C08 — included tasks behave as namespaced copies of their definitions

Property theorems only; helper lemmas live in `TaskModel.Load.*`.  The model is
`TaskModel.Load` (`mergeTasks` = `Tasks.Merge`, `mergeTaskfile` = `Taskfile.Merge`,
`Graph.merge σ ε` = `TaskfileGraph.Merge` for the topological order `σ` and per-edge
include order `ε` actually used, `readGraph` = `Reader.Read`).  The tie to the source is
the correspondence check `load` (harness/load.go: generated include trees loaded through
`Executor.Setup`, merged table compared with `load`) and the generated tables
`Gen.Fields`, `Gen.Load`.
-/
namespace Props.C08
open TaskModel.Load TaskModel.Gen

/-! ## C08_present — every non-excluded task of every included file is in the merged table -/

/-- **C08_present.**  For every topological order `σ` and per-edge include order `ε`: if
the merge succeeds, every definition of the callable tree of the root (`Reach`: the
file's own tasks, and for every include statement `i` on an edge the non-excluded
definitions reachable from the included file, renamed by `renName i`) is a key of the
merged table and carries its definition's commands and dependencies, renamed level by
level (`renCmds`, `renRefs` only touch `task:` targets) and resolved once at the end
(`resolveCmd`, `resolveRootRef`: the `ResolveRootRefs` pass, which only strips the root
marker `:` of a reference). -/
theorem C08_present (g : Graph) (σ : List Nat) (ε : Edge → List Include) (hσ : IsTopo g σ)
    (tf : Taskfile) (h : g.merge σ ε = .ok tf) (root : Nat) (hroot : σ.head? = some root)
    (n : Name) (c : List Cmd) (d : List Name) (hr : Reach g ε root n c d) :
    HasDef tf n (c.map resolveCmd) (d.map resolveRootRef) :=
  merge_reach g σ ε hσ tf h n c d root hroot hr

/-- the same for the load the driver executes (`load` = read + canonical merge) -/
theorem C08_present_load (fm : FileMap) (root : Nat) (tf : Taskfile) (h : load fm root = .ok tf) :
    ∃ g, readGraph fm root = .ok g ∧
      ∀ n c d, Reach g.normalize canonicalEps root n c d → HasDef tf n (c.map resolveCmd) (d.map resolveRootRef) := by
  simp only [load] at h
  split at h
  · rename_i g hg
    refine ⟨g, hg, ?_⟩
    intro n c d hr
    simp only [Graph.mergeCanonical] at h
    split at h
    · rename_i hc
      simp only [Bool.and_eq_true, beq_iff_eq] at hc
      exact C08_present _ _ _ (isTopoB_sound _ _ hc.1) tf h root hc.2 n c d hr
    · cases h
  · cases h

/-- full name: un-prefixed when flattened … -/
theorem renName_flatten (i : Include) (n : Name) (h : i.flatten = true) : renName i n = n := by
  simp [renName, h]

/-- … and `namespace:name` otherwise (for a name that does not itself start with `:`) -/
theorem renName_nested (i : Include) (c : Nat) (r : Name) (h : i.flatten = false) (hc : c ≠ colon) :
    renName i (c :: r) = i.ns ++ colon :: c :: r := by
  simp [renName, h, withNs, hc]

/-- shell commands are copied verbatim, `task:` entries keep their position -/
theorem renCmds_sh (i : Include) (c : List Cmd) : (renCmds i c).map (·.sh) = c.map (·.sh) := by
  simp only [renCmds]; split
  · rfl
  · simp [List.map_map, Function.comp_def, prefixCmd]

/-- … also by the final pass -/
theorem resolveCmd_sh (c : List Cmd) : (c.map resolveCmd).map (·.sh) = c.map (·.sh) := by
  simp [List.map_map, Function.comp_def, resolveCmd]

/-- **the `ns` → `ns:default` shortcut**: if the included file has a (non-excluded) task
`default`, the include is not flattened and the merged table has no task named like the
namespace, then `ns:default` answers to the alias `ns` and to every namespace alias. -/
theorem C08_default_alias (t1 t2 r : Table) (inc : Include) (itv : Vars)
    (h : mergeTasks t1 t2 inc itv = .ok r)
    (hd : defaultName ∈ t2.names) (hx : defaultName ∉ inc.excludes) (hf : inc.flatten = false)
    (hns : inc.ns ∉ (t1 ++ newTasks inc itv t2).names) :
    ∃ t' ∈ r, t'.name = nsDefault inc.ns ∧ inc.ns ∈ t'.aliases ∧ ∀ a ∈ inc.aliases, a ∈ t'.aliases := by
  rw [mergeTasks_ok _ _ _ _ _ h]
  have h1 : Table.has defaultName t2 = true := (Table.has_iff _ _).mpr hd
  have h2 : Table.has inc.ns (t1 ++ newTasks inc itv t2) = false := (Table.has_false_iff _ _).mpr hns
  simp only [defaultAlias, h1, h2, hf, Bool.not_false, Bool.and_self, if_true]
  have hmem : nsDefault inc.ns ∈ (t1 ++ newTasks inc itv t2).names := by
    simp only [Table.names, List.mem_map] at hd
    obtain ⟨dt, hdt, hdn⟩ := hd
    simp only [Table.names, List.map_append, List.mem_append, List.mem_map]
    refine Or.inr ⟨mergeOne inc itv dt, ?_, ?_⟩
    · simp only [newTasks, List.mem_map, List.mem_filter]
      exact ⟨dt, ⟨hdt, by simpa [hdn] using hx⟩, rfl⟩
    · rw [mergeOne_name, renName, hdn]; simp [hf, withNs_default]
  obtain ⟨t', g1, g2, g3⟩ := addAliases_hit (nsDefault inc.ns) (inc.ns :: inc.aliases) _ hmem
  exact ⟨t', g1, g2, g3 _ List.mem_cons_self, fun a ha => g3 a (List.mem_cons_of_mem _ ha)⟩

/-- aliases of the copy: every task alias under the namespace, and `alias:name`,
`alias:taskAlias` for every namespace alias -/
theorem mergeOne_aliases (inc : Include) (itv : Vars) (t : Task) (hf : inc.flatten = false) :
    (mergeOne inc itv t).aliases =
      t.aliases.map (fun a => withNs a inc.ns) ++ inc.aliases.flatMap (nsAliasNames t) := by
  simp only [mergeOne, hf]; split <;> rfl

theorem C08_aliases (t1 t2 r : Table) (inc : Include) (itv : Vars) (h : mergeTasks t1 t2 inc itv = .ok r)
    (t : Task) (ht : t ∈ t2) (hx : t.name ∉ inc.excludes) :
    ∃ t' ∈ r, t'.name = renName inc t.name ∧ ∀ a ∈ (mergeOne inc itv t).aliases, a ∈ t'.aliases := by
  rw [mergeTasks_ok _ _ _ _ _ h]
  have hnew : mergeOne inc itv t ∈ t1 ++ newTasks inc itv t2 := by
    apply List.mem_append_right
    simp only [newTasks, List.mem_map, List.mem_filter]
    exact ⟨t, ⟨ht, by simpa using hx⟩, rfl⟩
  obtain ⟨t', h1, h2, h3⟩ := defaultAlias_mem inc t2 _ _ hnew
  exact ⟨t', h1, (core_fields h2).1.trans (mergeOne_name _ _ _), h3⟩

/-! ## C08_refs — references resolve to tasks of the own file; `:`-references reach the root -/

/-- a name that is a plain local name: non-empty, not starting with `:` -/
def LocalName (n : Name) : Prop := ∃ c r, n = c :: r ∧ c ≠ colon

/-- one level renames a local reference exactly like the task it names -/
theorem prefixRef_local (ns n : Name) (h : LocalName n) : prefixRef ns n = withNs n ns := by
  obtain ⟨c, r, rfl, hc⟩ := h
  simp [prefixRef, refWithNs, hc]

theorem renRef_eq_renName (i : Include) (n : Name) (h : LocalName n) : renRefs i [n] = [renName i n] := by
  simp only [renRefs, renName]; split
  · rfl
  · simp [prefixRef_local _ _ h]

theorem renName_local (i : Include) (n : Name) (h : LocalName n) (hns : LocalName i.ns) : LocalName (renName i n) := by
  simp only [renName]; split
  · exact h
  · obtain ⟨c, r, rfl, hc⟩ := h
    obtain ⟨c', r', hn, hc'⟩ := hns
    exact ⟨c', r' ++ colon :: c :: r, by simp [withNs, hc, hn], hc'⟩

/-- the final `ResolveRootRefs` pass leaves a local name alone -/
theorem resolveRootRef_local (n : Name) (h : LocalName n) : resolveRootRef n = n := by
  obtain ⟨c, r, rfl, hc⟩ := h
  simp [resolveRootRef, hc]

/-- level by level, a local reference is renamed like the task it names, and the result
is again a local name (`renNamePath`, `renRefPath`: TaskModel.Load.PathLemmas) -/
theorem renRefPath_local (p : List Include) (n : Name) (h : LocalName n) (hp : ∀ i ∈ p, LocalName i.ns) :
    renRefPath p n = renNamePath p n ∧ LocalName (renNamePath p n) := by
  induction p generalizing n with
  | nil => exact ⟨rfl, h⟩
  | cons i r ih =>
    simp only [renRefPath, renNamePath, List.foldl_cons]
    have hstep : (if i.flatten then n else prefixRef i.ns n) = renName i n := by
      simp only [renName]; split
      · rfl
      · exact prefixRef_local _ _ h
    rw [hstep]
    exact ih (renName i n) (renName_local i n h (hp i List.mem_cons_self)) (fun j hj => hp j (List.mem_cons_of_mem _ hj))

/-- **C08_refs.**  Along any include path (any depth, any mix of flattened and namespaced
includes with proper namespaces) a dependency or `task:` target that names a task of its
own file is, in the loaded Taskfile (`finalRef`: renamed at every level, then the single
`ResolveRootRefs` pass), exactly the name of the merged copy of that task. -/
theorem C08_refs (p : List Include) (n : Name) (h : LocalName n) (hp : ∀ i ∈ p, LocalName i.ns) :
    finalRef p n = renNamePath p n := by
  obtain ⟨h1, h2⟩ := renRefPath_local p n h hp
  rw [finalRef, h1]
  exact resolveRootRef_local _ h2

/-- **C08_root_ref_full** — what the property demands of `:`-prefixed references, at full
strength: for EVERY include path `p` (any length, the empty path = the root file itself,
any mix of flattened and namespaced levels, any namespaces) a reference written `:x`
ends up as `x`, the task `x` of the ROOT Taskfile.  Proved by induction over the path
(`renRefPath_root`: every level leaves `:x` untouched) plus the single final strip.
True of the code since F32 (`taskRefWithNamespace`, `ResolveRootRefs`); see the historical
counterexamples below for the rule it replaces. -/
theorem C08_root_ref_full (p : List Include) (x : Name) : finalRef p (colon :: x) = x :=
  finalRef_root p x

/-- the same for `task:` commands: the call keeps its position and payload -/
theorem C08_root_ref_full_cmd (p : List Include) (x : Name) (sh : Nat) : finalCmd p ⟨colon :: x, sh⟩ = ⟨x, sh⟩ :=
  finalCmd_root p x sh

/-- **C08_root_ref_graph** — the whole-graph form.  For every include graph, every
topological order `σ` and per-edge include order `ε`: if the merge succeeds, every
definition of the callable tree of the root (`Reach`) is a task `t` of some file carried
up a path `p` of include statements of the graph, and the merged table holds under its
full name a task whose dependencies and commands are `t`'s carried through `finalRef p` /
`finalCmd p`; in particular every dependency `:x` of `t` is the dependency `x` of the
merged copy and every `task: :x` command is the command `task: x`, whatever the depth and
the flatten flags along `p`. -/
theorem C08_root_ref_graph (g : Graph) (σ : List Nat) (ε : Edge → List Include) (hσ : IsTopo g σ)
    (tf : Taskfile) (h : g.merge σ ε = .ok tf) (root : Nat) (hroot : σ.head? = some root)
    (n : Name) (c : List Cmd) (d : List Name) (hr : Reach g ε root n c d) :
    ∃ (p : List Include) (w : Nat) (f : Taskfile) (t : Task), g.verts.get w = some f ∧ t ∈ f.tasks ∧
      (∀ i ∈ p, ∃ e ∈ g.edges, i ∈ ε e) ∧ n = renNamePath p t.name ∧
      ∃ t' ∈ tf.tasks, t'.name = n ∧ t'.deps = t.deps.map (finalRef p) ∧ t'.cmds = t.cmds.map (finalCmd p) ∧
        (∀ x, colon :: x ∈ t.deps → x ∈ t'.deps) ∧
        (∀ x sh, (⟨colon :: x, sh⟩ : Cmd) ∈ t.cmds → (⟨x, sh⟩ : Cmd) ∈ t'.cmds) := by
  obtain ⟨t', ht', h1, h2, h3⟩ := merge_reach g σ ε hσ tf h n c d root hroot hr
  obtain ⟨p, w, f, t, hv, ht, hp, hn, hc, hd⟩ := reach_path hr
  have hdeps : t'.deps = t.deps.map (finalRef p) := by
    rw [h3, hd, List.map_map]; rfl
  have hcmds : t'.cmds = t.cmds.map (finalCmd p) := by
    rw [h2, hc, List.map_map]; rfl
  refine ⟨p, w, f, t, hv, ht, hp, hn, t', ht', h1, hdeps, hcmds, ?_, ?_⟩
  · intro x hx
    rw [hdeps]
    exact List.mem_map.mpr ⟨colon :: x, hx, C08_root_ref_full p x⟩
  · intro x sh hx
    rw [hcmds]
    exact List.mem_map.mpr ⟨⟨colon :: x, sh⟩, hx, C08_root_ref_full_cmd p x sh⟩

def incNs (ns : Name) (flatten : Bool) : Include :=
  { ns := ns, file := 0, dir := Dir.unset, optional := false, internal := false, flatten := flatten,
    advanced := flatten, aliases := [], excludes := [], vars := [] }

/-- non-vacuity: a depth-3 path with a flattened middle level (`c`, flattened `b`, `a`): `:r`
is carried unchanged through the three merges and resolved to `r`; the local `u` next to
it becomes `a:c:u`, the name of its own file's task -/
example : renRefPath [incNs [99] false, incNs [98] true, incNs [97] false] (colon :: [114]) = [58, 114]
    ∧ finalRef [incNs [99] false, incNs [98] true, incNs [97] false] (colon :: [114]) = [114]
    ∧ finalRef [incNs [99] false, incNs [98] true, incNs [97] false] [117] = [97, 58, 99, 58, 117]
    ∧ renNamePath [incNs [99] false, incNs [98] true, incNs [97] false] [117] = [97, 58, 99, 58, 117] := by decide

/-! ### Historical: the rule before F32 (`taskNameWithNamespace` applied to references)

Until F32 `Tasks.Merge` renamed dependencies and `task:` targets with the function it uses
for task names: the first non-flattened merge stripped the `:`, every later one prefixed
its namespace, and a flattened merge never stripped it.  These two facts about that OLD
rule are the machine-checked witnesses of the (now fixed) findings `C08-root-ref-depth2`
and `C08-root-ref-flatten`; they say nothing about the current model. -/

/-- the old per-level rule -/
def oldPrefixRef (ns : Name) (n : Name) : Name := if n = [] then n else withNs n ns

def oldRenRefPath (p : List Include) (n : Name) : Name :=
  p.foldl (fun acc i => if i.flatten then acc else oldPrefixRef i.ns acc) n

/-- old rule, depth 2: `:r` written two levels down ended up as `a:r`, the PARENT's task -/
theorem C08_old_rule_depth2_counterexample :
    oldRenRefPath [incNs [98] false, incNs [97] false] (colon :: [114]) = [97, 58, 114] := by decide

/-- old rule, flattened include: `:r` stayed `:r`, which names no task -/
theorem C08_old_rule_flatten_counterexample :
    oldRenRefPath [incNs [97] true] (colon :: [114]) = [58, 114] := by decide

/-- … where the current rule gives `r` on both paths -/
example : finalRef [incNs [98] false, incNs [97] false] (colon :: [114]) = [114]
    ∧ finalRef [incNs [97] true] (colon :: [114]) = [114] := by decide

/-! ### The rule in the source (regenerated on every run) -/

/-- **tie, regenerated half**: in `Tasks.Merge` dependencies and `task:` targets go through
`taskRefWithNamespace`, aliases and the task name through `taskNameWithNamespace`;
`taskRefWithNamespace` returns a `:`-prefixed name unchanged and defers to
`taskNameWithNamespace` otherwise; `Tasks.ResolveRootRefs` trims one leading separator from
every `dep.Task` / `cmd.Task`; and `TaskfileGraph.Merge` calls it on the root vertex after
the merge loop, before returning that vertex's Taskfile. -/
theorem root_ref_rule_in_source :
    MergeRule.tasksMergeRenames =
      [("‹*ast.Dep›.Task", "taskRefWithNamespace", "‹*ast.Dep›.Task"),
       ("‹*ast.Cmd›.Task", "taskRefWithNamespace", "‹*ast.Cmd›.Task"),
       ("‹*ast.Task·2›.Aliases[‹int·3›]", "taskNameWithNamespace", "‹string·3›"),
       ("‹*ast.Task·2›.Aliases", "taskNameWithNamespace", "‹*ast.Task·2›.Task"),
       ("‹*ast.Task·2›.Aliases", "taskNameWithNamespace", "‹string·5›"),
       ("‹string·2›", "taskNameWithNamespace", "‹string·1›")]
    ∧ MergeRule.taskRefWithNamespaceBody =
      ["if strings.HasPrefix(‹string·1›, NamespaceSeparator)", "return ‹string·1›",
       "return taskNameWithNamespace(‹string·1›, ‹string·2›)"]
    ∧ MergeRule.resolveRootRefsAssigns =
      [("‹*ast.Dep›.Task", "strings.TrimPrefix(‹*ast.Dep›.Task, NamespaceSeparator)"),
       ("‹*ast.Cmd›.Task", "strings.TrimPrefix(‹*ast.Cmd›.Task, NamespaceSeparator)")]
    ∧ MergeRule.graphMergeAfterLoop =
      ["‹*ast.TaskfileVertex·3›, ‹error·1› := ‹*ast.TaskfileGraph›.Vertex(‹[]string›[0])",
       "‹*ast.TaskfileVertex·3›.Taskfile.Tasks.ResolveRootRefs()", "return ‹*ast.TaskfileVertex·3›.Taskfile, nil"] := by decide

/-! ## C08_attrs — every attribute survives the copy -/

/-- fields of a struct that a copy literal does not mention -/
def missing (fields keys : List String) : List String := fields.filter (fun f => !keys.contains f)

/-- a copy written as a composite literal over `keys`: the other fields get the zero value -/
def copyByKeys (keys : List String) (v : String → Nat) : String → Nat :=
  fun f => if f ∈ keys then v f else 0

/-- generic lemma: a literal that mentions every field copies every field -/
theorem copy_complete (fields keys : List String) (h : missing fields keys = []) (v : String → Nat) :
    ∀ f ∈ fields, copyByKeys keys v f = v f := by
  intro f hf
  by_cases hk : f ∈ keys
  · simp [copyByKeys, hk]
  · have : f ∈ missing fields keys := by simp [missing, List.mem_filter, hf, hk]
    rw [h] at this; cases this

theorem deepCopy_task_complete : missing Fields.fieldsTask Fields.deepCopyTask = [] := by decide
theorem deepCopy_cmd_complete : missing Fields.fieldsCmd Fields.deepCopyCmd = [] := by decide
theorem deepCopy_dep_complete : missing Fields.fieldsDep Fields.deepCopyDep = [] := by decide
theorem deepCopy_include_complete : missing Fields.fieldsInclude Fields.deepCopyInclude = [] := by decide
theorem deepCopy_for_complete : missing Fields.fieldsFor Fields.deepCopyFor = [] := by decide
theorem deepCopy_precondition_complete : missing Fields.fieldsPrecondition Fields.deepCopyPrecondition = [] := by decide
theorem deepCopy_platform_complete : missing Fields.fieldsPlatform Fields.deepCopyPlatform = [] := by decide
theorem deepCopy_requires_complete : missing Fields.fieldsRequires Fields.deepCopyRequires = [] := by decide
theorem deepCopy_location_complete : missing Fields.fieldsLocation Fields.deepCopyLocation = [] := by decide
theorem reader_include_complete : missing Fields.fieldsInclude Load.readerIncludeLiteral = [] := by decide

/-- a key of a copy literal is filled from the field OF THE SAME NAME, as it is, through
`deepcopy.Slice` / `deepcopy.Map`, or through the field's own `DeepCopy()` -/
def ownKey (p : String × String × String) : Bool :=
  p.1 == p.2.2 && (p.2.1 == "field" || p.2.1 == "DeepCopy" || p.2.1 == "deepcopy.Slice" || p.2.1 == "deepcopy.Map")

/-- **every key of every `DeepCopy` literal is copied from its own field** (`Gen.Fields`
`deepCopySources…`, regenerated: `Silent: t.Interactive`, a constant, or a field run through
some other function breaks this): together with `deepCopy_…_complete` — every field is a
key — the literal is the field-by-field copy `copyByKeys` assumes. -/
theorem deepCopy_sources_own_key :
    Fields.deepCopySourcesTask.all ownKey = true ∧ Fields.deepCopySourcesCmd.all ownKey = true
    ∧ Fields.deepCopySourcesDep.all ownKey = true ∧ Fields.deepCopySourcesInclude.all ownKey = true
    ∧ Fields.deepCopySourcesFor.all ownKey = true ∧ Fields.deepCopySourcesPrecondition.all ownKey = true
    ∧ Fields.deepCopySourcesPlatform.all ownKey = true ∧ Fields.deepCopySourcesRequires.all ownKey = true
    ∧ Fields.deepCopySourcesLocation.all ownKey = true
    ∧ Fields.deepCopySourcesTask.map (·.1) = Fields.deepCopyTask := by decide

/-- **C08_attrs.**  `Task.DeepCopy` (and the copies of the values it contains, and the
include literal of the reader) carry every field of the struct, for every value; and the
rest of `Tasks.Merge` leaves the attribute record, the task variables and the location
untouched. -/
theorem C08_attrs :
    (∀ v, ∀ f ∈ Fields.fieldsTask, copyByKeys Fields.deepCopyTask v f = v f) ∧
    (∀ v, ∀ f ∈ Fields.fieldsCmd, copyByKeys Fields.deepCopyCmd v f = v f) ∧
    (∀ v, ∀ f ∈ Fields.fieldsDep, copyByKeys Fields.deepCopyDep v f = v f) ∧
    (∀ v, ∀ f ∈ Fields.fieldsInclude, copyByKeys Fields.deepCopyInclude v f = v f) ∧
    (∀ v, ∀ f ∈ Fields.fieldsInclude, copyByKeys Load.readerIncludeLiteral v f = v f) ∧
    (∀ inc itv t, (mergeOne inc itv t).attrs = t.attrs ∧ (mergeOne inc itv t).vars = t.vars
      ∧ (mergeOne inc itv t).loc = t.loc ∧ (mergeOne inc itv t).internal = (t.internal || inc.internal)) :=
  ⟨copy_complete _ _ deepCopy_task_complete, copy_complete _ _ deepCopy_cmd_complete,
   copy_complete _ _ deepCopy_dep_complete, copy_complete _ _ deepCopy_include_complete,
   copy_complete _ _ reader_include_complete,
   fun _ _ _ => ⟨mergeOne_attrs _ _ _, mergeOne_vars _ _ _, mergeOne_loc _ _ _, mergeOne_internal _ _ _⟩⟩

/-- the attributes also survive the whole graph merge: stated on the merged copy found by
`C08_aliases` / `mergeTaskfile_adds` (same core ⇒ same attributes) -/
theorem C08_attrs_merged (t1 t2 r : Table) (inc : Include) (itv : Vars) (h : mergeTasks t1 t2 inc itv = .ok r)
    (t : Task) (ht : t ∈ t2) (hx : t.name ∉ inc.excludes) :
    ∃ t' ∈ r, t'.name = renName inc t.name ∧ t'.attrs = t.attrs ∧ t'.vars = t.vars ∧ t'.loc = t.loc
      ∧ t'.internal = (t.internal || inc.internal)
      ∧ t'.dir = (if inc.advanced then smartJoin inc.dir t.dir else t.dir) := by
  rw [mergeTasks_ok _ _ _ _ _ h]
  have hnew : mergeOne inc itv t ∈ t1 ++ newTasks inc itv t2 := by
    apply List.mem_append_right
    simp only [newTasks, List.mem_map, List.mem_filter]
    exact ⟨t, ⟨ht, by simpa using hx⟩, rfl⟩
  obtain ⟨t', h1, h2, _⟩ := defaultAlias_mem inc t2 _ _ hnew
  obtain ⟨e1, _, _, e4, e5, e6, e7, e8⟩ := core_fields h2
  exact ⟨t', h1, e1.trans (mergeOne_name _ _ _), e4.trans (mergeOne_attrs _ _ _), e8.trans (mergeOne_vars _ _ _),
    e7.trans (mergeOne_loc _ _ _), e5.trans (mergeOne_internal _ _ _), e6.trans (mergeOne_dir _ _ _)⟩

/-! ## C08_file_defaults — the defaults an included Taskfile declares for its tasks go with them

`method`, `run`, `silent` ("Default … for this Taskfile"), `set`, `shopt` at the top of a
Taskfile.  Since the fix the merge gives them to the file's tasks (`Tasks.setDefaults`,
model `Taskfile.bake` applied by `Graph.mergeIncs`); before it they were dropped and only the
root file's applied. -/

/-- **one merge**: the copy of a non-excluded task `t` of the included file carries `t`'s
attributes with the file's defaults applied — `silent` or-ed, `method` / `run` where `t`
declares none, `set` / `shopt` united — and every other attribute as it is. -/
theorem C08_file_defaults (t1 t2 r : Taskfile) (inc : Include) (h : mergeTaskfile t1 t2.bake inc = .ok r)
    (t : Task) (ht : t ∈ t2.tasks) (hx : t.name ∉ inc.excludes) :
    ∃ t' ∈ r.tasks, t'.name = renName inc t.name ∧ t'.attrs = applyDefaults t2.defaults t.attrs
      ∧ ∀ k, k ≠ posSilent → k ≠ posMethod → k ≠ posRun → k ≠ posSet → k ≠ posShopt → t'.attrs[k]? = t.attrs[k]? := by
  obtain ⟨itv, hr⟩ := mergeTaskfile_tasks _ _ _ _ h
  have hnew : mergeOne inc itv (bakeTask t2.defaults t) ∈ t1.tasks ++ newTasks inc itv t2.bake.tasks := by
    apply List.mem_append_right
    simp only [newTasks, List.mem_map, List.mem_filter, Taskfile.bake]
    exact ⟨bakeTask t2.defaults t, ⟨⟨t, ht, rfl⟩, by rw [bakeTask_name]; exact decide_eq_true hx⟩, rfl⟩
  obtain ⟨t', h1, h2, _⟩ := defaultAlias_mem inc t2.bake.tasks _ _ hnew
  obtain ⟨e1, _, _, e4, _⟩ := core_fields h2
  have hattrs : t'.attrs = applyDefaults t2.defaults t.attrs := e4.trans (mergeOne_attrs _ _ _)
  refine ⟨t', hr ▸ h1, e1.trans (mergeOne_name _ _ _), hattrs, ?_⟩
  intro k h0 h1' h2' h3 h4
  rw [hattrs, applyDefaults_get]
  cases t.attrs[k]? with
  | none => rfl
  | some a => simp [defaultAt_other _ k a h0 h1' h2' h3 h4]

/-- `setDefaults` may be applied any number of times (the implementation does it in place,
once per include statement naming the file): the second time changes nothing -/
theorem C08_file_defaults_idempotent (tf : Taskfile) : tf.bake.bake = tf.bake := bake_idem tf

/-- the full demand "as in its own file" for the five defaults: whatever the including files
declare, a task runs with the value it has when its own file is the root -/
def C08_defaults_full : Prop :=
  ∀ (root c : Defaults) (i a : Nat), effectiveAt root i (defaultAt c i a) = effectiveAt c i a

/-- … is false of the rule as it is (and of any rule in which the root's defaults mean
anything for included tasks): root `method: timestamp`, included file and task silent on
`method` — in its own file the task uses `checksum`, included it uses `timestamp`. -/
theorem C08_defaults_full_counterexample : ¬ C08_defaults_full := by
  intro h
  have := h { method := 2 } {} posMethod 0
  revert this
  decide

/-- **as in its own file wherever something is declared** — `method`, `run`: when the task or
its own file declares the option, the merged task runs with exactly the own-file value;
`silent`: silent in its own file ⇒ silent; `set`, `shopt`: every option it has in its own
file it keeps; and when the root declares nothing, all five are the own-file values. -/
theorem C08_defaults_partial (root c : Defaults) :
    (∀ i a, (i = posMethod ∨ i = posRun) →
        (a ≠ 0 ∨ (i = posMethod ∧ c.method ≠ 0) ∨ (i = posRun ∧ c.run ≠ 0)) →
        effectiveAt root i (defaultAt c i a) = effectiveAt c i a)
    ∧ (∀ a, effectiveAt c posSilent a ≠ 0 → effectiveAt root posSilent (defaultAt c posSilent a) ≠ 0)
    ∧ (∀ a bit, (effectiveAt c posSet a).testBit bit = true → (effectiveAt root posSet (defaultAt c posSet a)).testBit bit = true)
    ∧ (∀ a bit, (effectiveAt c posShopt a).testBit bit = true → (effectiveAt root posShopt (defaultAt c posShopt a)).testBit bit = true) :=
  ⟨fun i a hi hd => effective_declared root c i a hi hd, effective_silent root c, effective_set root c, effective_shopt root c⟩

/-- non-vacuity: file `run: once`, `silent: true`, `set: [pipefail]` (bit 1); a task without
options of its own under a root with `run: when_changed` and `set: [errexit]` (bit 0): runs
`once`, silent, with both shell options -/
example : effective { run := 3, set := 1 } (applyDefaults { silent := 1, run := 2, set := 2 } (List.replicate 21 0))
    = [1, 1, 2, 3, 0] := by decide

/-- **the output style is the root's**: an include never replaces an output style the
including file sets; it supplies one only where there is none -/
theorem C08_output_kept (t1 t2 r : Taskfile) (inc : Include) (h : mergeTaskfile t1 t2 inc = .ok r) :
    r.output = if t1.output = 0 then t2.output else t1.output := by
  simp only [mergeTaskfile] at h
  split at h
  · cases h
  · split at h
    · cases h
    · split at h
      · cases h; rfl
      · cases h

/-- **sees the include's vars, runs in the include's directory**: for an advanced import the
copy's `IncludeVars` answer every name of the include statement's `vars:` with that value
(later levels override earlier ones), and its directory is the include's `dir` joined
with the task's own. -/
theorem C08_include_vars (inc : Include) (itv : Vars) (t : Task) (ha : inc.advanced = true) (k : Nat)
    (hk : k ∈ inc.vars.keys) :
    Vars.get k (mergeOne inc itv t).incVars = Vars.get k (Vars.merge [] none inc.vars)
    ∧ (mergeOne inc itv t).dir = smartJoin inc.dir t.dir := by
  have h1 : (mergeOne inc itv t).incVars = Vars.merge t.incVars none inc.vars := by
    simp only [mergeOne]; split <;> split <;> simp_all
  refine ⟨?_, by rw [mergeOne_dir]; simp [ha]⟩
  rw [h1, get_merge]; simp [hk]

/-! ## C08_errors — clashes, cycles, missing files, version mismatches are errors -/

/-- **duplicate name ⇒ conflict error**: a non-excluded task whose new name is already a
key of the including table makes `Tasks.Merge` fail with the name-conflict error (203). -/
theorem C08_conflict (t1 t2 : Table) (inc : Include) (itv : Vars) (t : Task) (ht : t ∈ t2)
    (hx : t.name ∉ inc.excludes) (hk : renName inc t.name ∈ t1.names) :
    mergeTasks t1 t2 inc itv = .error .conflict := by
  simp only [mergeTasks]
  rw [mergeLoop_conflict inc itv t2 t1 ⟨t, ht, hx, (Table.has_iff _ _).mpr hk⟩]

/-- **never a silent overwrite**: a successful merge keeps every task of the including
table (same name, commands, dependencies, attributes; aliases can only grow) and the keys
stay pairwise distinct. -/
theorem C08_no_overwrite (t1 t2 r : Table) (inc : Include) (itv : Vars) (h : mergeTasks t1 t2 inc itv = .ok r)
    (hn : t1.names.Nodup) :
    r.names.Nodup ∧ ∀ t ∈ t1, ∃ t' ∈ r, t'.core = t.core ∧ ∀ a ∈ t.aliases, a ∈ t'.aliases := by
  refine ⟨mergeTasks_nodup _ _ _ _ _ h hn, ?_⟩
  intro t ht
  rw [mergeTasks_ok _ _ _ _ _ h]
  exact defaultAlias_mem inc t2 _ t (List.mem_append_left _ ht)

/-- … and at graph level, for every order of merging -/
theorem C08_no_overwrite_graph (g : Graph) (σ : List Nat) (ε : Edge → List Include) (tf : Taskfile)
    (h : g.merge σ ε = .ok tf) (hn : Store.AllNodup g.verts) : tf.tasks.names.Nodup :=
  merge_nodup g σ ε tf h hn

/-- **never a silent overwrite, for every load** (no hypothesis on the files): the keys of
a loaded Taskfile are pairwise distinct.  The hypothesis `Store.AllNodup` of the graph-level
theorem is what the decoder guarantees of every file it accepts (`readGraph_allNodup`:
a key used twice in `tasks:` is a decode error since the duplicate-key fix). -/
theorem C08_no_overwrite_load (fm : FileMap) (root : Nat) (tf : Taskfile) (h : load fm root = .ok tf) :
    tf.tasks.names.Nodup := by
  simp only [load] at h
  split at h
  · rename_i g hg
    simp only [Graph.mergeCanonical] at h
    split at h
    · exact C08_no_overwrite_graph _ _ _ tf h (readGraph_allNodup fm root g hg)
    · cases h
  · cases h

/-- … and every file that took part in a successful load has no key used twice, in
`tasks:`, `includes:`, `vars:`, `env:`, task `vars:` and include `vars:` -/
theorem C08_loaded_files_well_keyed (fm : FileMap) (root : Nat) (tf : Taskfile) (h : load fm root = .ok tf) :
    ∃ g, readGraph fm root = .ok g ∧ ∀ p ∈ g.verts, p.2.wellKeyed = true := by
  simp only [load] at h
  split at h
  · rename_i g hg
    exact ⟨g, hg, readGraph_wellKeyed fm root g hg⟩
  · cases h

/-- **duplicate key ⇒ decode error**: a file with a key used twice is refused as soon as it
is read (before its version is looked at, before any of its includes is followed) -/
theorem C08_duplicate_key (fm : FileMap) (fuel : Nat) (stack : List Nat) (f : Nat) (g : Graph) (tf : Taskfile)
    (hf : Store.get f fm = some tf) (hd : tf.wellKeyed = false) :
    visit fm (fuel + 1) stack f g = .error .decode :=
  visit_duplicate_key fm fuel stack f g tf hf hd

/-- … in particular a root Taskfile with a duplicate key never loads -/
theorem C08_duplicate_key_root (fm : FileMap) (root : Nat) (tf : Taskfile)
    (hf : Store.get root fm = some tf) (hd : tf.wellKeyed = false) : load fm root = .error .decode := by
  simp [load, readGraph, visit_duplicate_key fm _ [] root ⟨[], []⟩ tf hf hd]

/-- **tie, regenerated half** of the duplicate-key rule: the mappings `taskfile/ast` decodes
by walking the YAML node by hand are exactly these four; the three that carry tasks,
includes and variables (`vars:` and `env:` at every level are `Vars`) refuse a repeated key
before they `Set` it; `duplicateKeyError` compares the key with every EARLIER key of the same
mapping (kind and value, as yaml.v3 does) and returns a `TaskfileDecodeError`.  (`Matrix`
— the rows of `for: matrix:` — still keeps the last of two equal keys; it carries no
task, include or variable of the loader and is listed so that a fifth hand-decoded mapping
cannot appear unnoticed.) -/
theorem duplicate_key_rule_in_source :
    Load.handDecodedMappings =
      [("Includes.UnmarshalYAML", "dupcheck-before-set"), ("Matrix.UnmarshalYAML", "no-dupcheck"),
       ("Tasks.UnmarshalYAML", "dupcheck-before-set"), ("Vars.UnmarshalYAML", "dupcheck-before-set")]
    ∧ Load.duplicateKeyCheck =
      ["‹0› := ‹p:*yaml.Node›.Content[‹p:int›]", "for ‹1› := 0; ‹1› < ‹p:int›; ‹1› += 2",
       "‹2› := ‹p:*yaml.Node›.Content[‹1›]", "if ‹2›.Kind == ‹0›.Kind && ‹2›.Value == ‹0›.Value",
       "return errors.NewTaskfileDecodeError(…)", "return nil"] := by decide

/-- the only error `Tasks.Merge` can produce is the conflict error -/
theorem C08_tasks_error_is_conflict (t1 t2 : Table) (inc : Include) (itv : Vars) (e : Err)
    (h : mergeTasks t1 t2 inc itv = .error e) : e = .conflict := mergeTasks_error _ _ _ _ _ h

/-- **version mismatch ⇒ error** -/
theorem C08_version (t1 t2 : Taskfile) (inc : Include) (h : t1.version ≠ t2.version) :
    mergeTaskfile t1 t2 inc = .error .version := by
  simp [mergeTaskfile, h]

/-- **dotenv in an included file ⇒ error** -/
theorem C08_dotenv (t1 t2 : Taskfile) (inc : Include) (hv : t1.version = t2.version) (h : t2.dotenv = true) :
    mergeTaskfile t1 t2 inc = .error .dotenv := by
  simp [mergeTaskfile, hv, h]

/-- **missing non-optional file ⇒ error**; an optional one is skipped -/
theorem C08_missing (fm : FileMap) (visit : Nat → Graph → Except Err Graph) (stack : List Nat) (parent : Nat)
    (ptf : Taskfile) (d : IncludeDecl) (r : List IncludeDecl) (g : Graph) (h : Store.get d.file fm = none) :
    visitIncs fm visit stack parent ptf (d :: r) g =
      if d.optional then visitIncs fm visit stack parent ptf r g else .error .missing := by
  simp [visitIncs, h]

/-- **include cycle ⇒ cycle error**: an include statement whose (existing) target is the
including file or one of the files on the current include stack is refused. -/
theorem C08_cycle (fm : FileMap) (visit : Nat → Graph → Except Err Graph) (stack : List Nat) (parent : Nat)
    (ptf tf : Taskfile) (d : IncludeDecl) (r : List IncludeDecl) (g : Graph) (h : Store.get d.file fm = some tf)
    (hc : d.file = parent ∨ d.file ∈ stack) :
    visitIncs fm visit stack parent ptf (d :: r) g = .error .cycle := by
  simp [visitIncs, h, hc]

/-- … and whatever the reader did, a graph that is merged has a validated topological
order: no cyclic include graph ever loads. -/
theorem C08_loaded_is_acyclic (fm : FileMap) (root : Nat) (tf : Taskfile) (h : load fm root = .ok tf) :
    ∃ g, readGraph fm root = .ok g ∧ IsTopo g.normalize (canonicalOrder g.normalize) := by
  simp only [load] at h
  split at h
  · rename_i g hg
    refine ⟨g, hg, ?_⟩
    simp only [Graph.mergeCanonical] at h
    split at h
    · rename_i hc
      simp only [Bool.and_eq_true] at hc
      exact isTopoB_sound _ _ hc.1
    · cases h
  · cases h

/-- an error of any merge step is the result of the whole merge (no step is skipped) -/
theorem C08_errors_propagate (src dst : Nat) (inc : Include) (rest : List Include) (st : Store) (t1 t2 : Taskfile)
    (e : Err) (h1 : st.get src = some t1) (h2 : st.get dst = some t2) (h : mergeTaskfile t1 t2.bake inc = .error e) :
    mergeIncs src dst (inc :: rest) st = .error e := by
  simp [mergeIncs, h1, h2, h]

/-! ## Non-vacuity: concrete trees on which the hypotheses hold and the model computes -/

section Examples

def tk (name : Name) (cmds : List Cmd) (deps : List Name) (loc : Nat) : Task :=
  { name := name, cmds := cmds, deps := deps, aliases := [], internal := false, dir := Dir.unset, attrs := [1, 0, 1],
    vars := [], ns := [], loc := loc, incVars := [], incTfVars := [] }

def decl (ns : Name) (file : Nat) (flatten : Bool := false) : IncludeDecl :=
  { ns := ns, file := file, dir := [], optional := false, internal := false, flatten := flatten, advanced := flatten,
    aliases := [], excludes := [], vars := [] }

def tfile (tasks : Table) (incs : List IncludeDecl) (version : Nat := 3) : Taskfile :=
  { version := version, dotenv := false, fdir := [], vars := [], env := [], tasks := tasks, includes := incs }

/-- root (0) includes `a` → file 1, which includes `b` → file 2; file 2's task `t` calls `:r`
and its own `u`. -/
def fm3 : FileMap :=
  [(0, tfile [tk [114] [⟨[], 1⟩] [] 0] [decl [97] 1]),
   (1, tfile [tk [114] [⟨[], 2⟩] [] 1] [decl [98] 2]),
   (2, tfile [tk [116] [⟨[58, 114], 0⟩, ⟨[117], 0⟩] [] 2, tk [117] [⟨[], 3⟩] [] 2] [])]

def keysOf : Except Err Taskfile → List Name
  | .ok tf => tf.tasks.names
  | .error _ => []

/-- the merged table: `r`, `a:r`, `a:b:t`, `a:b:u` -/
example : keysOf (load fm3 0) = [[114], [97, 58, 114], [97, 58, 98, 58, 116], [97, 58, 98, 58, 117]] := by decide

def refsOf : Except Err Taskfile → List (Name × List Name)
  | .ok tf => tf.tasks.map (fun t => (t.name, t.refs))
  | .error _ => []

/-- the depth-2 tree of the former finding `C08-root-ref-depth2`: `a:b:t` calls `r` (the
root's task, where the old rule gave `a:r`) and `a:b:u`, exactly what the independent
monitor `specRefs` demands. -/
theorem C08_root_ref_witness :
    (refsOf (load fm3 0)).lookup [97, 58, 98, 58, 116] = some [[114], [97, 58, 98, 58, 117]] ∧
    (match specRefs fm3 0 with
     | .ok l => (l.map (fun x => (x.1, x.2.2))).lookup [97, 58, 98, 58, 116]
     | .error _ => none) = some [[114], [97, 58, 98, 58, 117]] := by decide

/-- root (0) includes `a` → file 1, which includes file 2 FLATTENED, which includes `c` →
file 3; file 3's task `t` depends on `:r`, calls `:r` and its own `u`; file 2's task `m`
(flattened into `a`) calls `:r`; the root's own task `s` calls `:r`. -/
def fm4 : FileMap :=
  [(0, tfile [tk [114] [⟨[], 1⟩] [] 0, tk [115] [⟨[58, 114], 0⟩] [] 0] [decl [97] 1]),
   (1, tfile [tk [114] [⟨[], 2⟩] [] 1] [decl [98] 2 true]),
   (2, tfile [tk [109] [⟨[58, 114], 0⟩] [] 2] [decl [99] 3]),
   (3, tfile [tk [116] [⟨[58, 114], 0⟩, ⟨[117], 0⟩] [[58, 114]] 3, tk [117] [⟨[], 3⟩] [] 3] [])]

/-- non-vacuity of `C08_root_ref_graph` on a depth-3 path with a flattened level: the tree
loads with keys `r`, `s`, `a:r`, `a:m`, `a:c:t`, `a:c:u`; every `:r` — written in the root
file, in the flattened file and three levels down — is `r` in the loaded table, the
local `u` is `a:c:u`; and the table of references equals the monitor's. -/
theorem C08_root_ref_depth3_flatten_witness :
    keysOf (load fm4 0) = [[114], [115], [97, 58, 114], [97, 58, 109], [97, 58, 99, 58, 116], [97, 58, 99, 58, 117]] ∧
    (refsOf (load fm4 0)).lookup [97, 58, 99, 58, 116] = some [[114], [114], [97, 58, 99, 58, 117]] ∧
    (refsOf (load fm4 0)).lookup [97, 58, 109] = some [[114]] ∧
    (refsOf (load fm4 0)).lookup [115] = some [[114]] ∧
    (match specRefs fm4 0 with
     | .ok l => some (l.map (fun x => (x.1, x.2.2)))
     | .error _ => none) = some (refsOf (load fm4 0)) := by decide

def isErr (e : Err) : Except Err Taskfile → Bool
  | .error e' => e == e'
  | .ok _ => false

/-- a 3-cycle 0 → 1 → 2 → 0 is a cycle error; so is a self-include -/
example : isErr .cycle (load [(0, tfile [] [decl [97] 1]), (1, tfile [] [decl [98] 2]), (2, tfile [] [decl [99] 0])] 0) = true := by decide
example : isErr .cycle (load [(0, tfile [] [decl [97] 0])] 0) = true := by decide
/-- a missing file, a version mismatch, a clash through a flattened include -/
example : isErr .missing (load [(0, tfile [] [decl [97] 7])] 0) = true := by decide
example : isErr .version (load [(0, tfile [] [decl [97] 1]), (1, tfile [] [] 31)] 0) = true := by decide
example : isErr .conflict (load [(0, tfile [tk [114] [] [] 0] [decl [97] 1 true]), (1, tfile [tk [114] [] [] 1] [])] 0) = true := by decide
/-- duplicate keys: two tasks `r` in the root file; two includes `a` in an included file;
a variable defined twice in an include statement — each a decode error (the unrepaired
decoder kept the second of each silently) -/
example : isErr .decode (load [(0, tfile [tk [114] [⟨[], 1⟩] [] 0, tk [114] [⟨[], 2⟩] [] 0] [])] 0) = true := by decide
example : isErr .decode (load [(0, tfile [] [decl [97] 1]), (1, tfile [] [decl [97] 2, decl [97] 3]), (2, tfile [] []), (3, tfile [] [])] 0) = true := by decide
example : isErr .decode (load [(0, tfile [] [{ decl [97] 1 with vars := [(1, ⟨1, Dir.unset⟩), (1, ⟨2, Dir.unset⟩)] }]), (1, tfile [] [])] 0) = true := by decide
/-- a diamond (0 → 1, 0 → 2, 1 → 3, 2 → 3) loads, with the shared file under both paths -/
example : keysOf (load [(0, tfile [] [decl [97] 1, decl [98] 2]), (1, tfile [] [decl [99] 3]), (2, tfile [] [decl [99] 3]),
    (3, tfile [tk [116] [] [] 3] [])] 0) = [[98, 58, 99, 58, 116], [97, 58, 99, 58, 116]] := by decide

end Examples

end Props.C08
