import TaskModel.Gen.Phases
/-!
Props.SchedTie — the placement of the executor's instrumentation points and actions.

The Sched model is an acceptor over the event log the `verif`-tagged hooks write.  What a
logged event MEANS rests on where its hook sits in `task.go` relative to the action it
reports (an `acquire` event logged before the semaphore is taken would make C07's count
meaningless).  `TaskModel.Gen.Phases` is regenerated from the source on every run; the
theorems below pin, for every executor function the model mirrors, the projection of its
call skeleton on the tokens that carry meaning.  A projection (filter on a token set) and
not the whole list is compared, so statements that do not concern the property (new
validation calls, logging) can move freely.
-/
namespace Props.SchedTie
open TaskModel.Gen.Phases

def proj (keep : List String) (l : List String) : List String := l.filter (fun x => keep.contains x)

/-- compares a projection with what the model assumes, returning the offending projection on failure -/
def chk (keep expect actual : List String) : Bool := proj keep actual == expect

/-- `RunTask`: enter/exit bracket everything; the call counter is bumped before a slot is
taken; the slot is held (and its release deferred) before dedup, deps, guards, commands;
deferred commands are scheduled after the guards passed and before the first command. -/
theorem runTask_skeleton :
    RunTask.take 2 = ["hook:enter", "defer hook:exit"] ∧
    chk ["countCall", "acquire", "hook:acquire", "defer release()", "defer hook:release", "startExecution", "runDeps",
         "preconditions", "isUpToDate", "prompt", "mkdir", "hook:guardsPassed", "defer runDeferred", "runCommand"]
        ["countCall", "acquire", "hook:acquire", "defer release()", "defer hook:release", "startExecution", "runDeps",
         "preconditions", "isUpToDate", "prompt", "mkdir", "hook:guardsPassed", "defer runDeferred", "runCommand"]
        RunTask = true ∧
    -- every guard's failure event sits between its guard and the next one
    chk ["runDeps", "hook:depsDone", "hook:ctxErr", "preconditions", "hook:precondFail", "isUpToDate", "hook:upToDate",
         "prompt", "hook:promptFail", "hook:promptErr", "mkdir"]
        ["runDeps", "hook:depsDone", "hook:depsDone", "hook:ctxErr", "preconditions", "hook:precondFail", "isUpToDate",
         "hook:upToDate", "prompt", "hook:promptFail", "hook:promptFail", "hook:promptErr", "mkdir"]
        RunTask = true ∧
    -- the per-CALL guards (platform, required variables, allowed values) are evaluated for every call,
    -- before the call is counted, takes a slot or can be deduplicated against a running execution
    chk ["fastCompile", "platform", "requiredVars", "compile", "allowedValues", "countCall", "acquire", "startExecution", "closure{"]
        ["fastCompile", "platform", "requiredVars", "compile", "allowedValues", "countCall", "acquire", "startExecution", "closure{"]
        RunTask = true := by decide

/-- `RunTask`, the status rule (C03; after the fix of `C03-dedup-waiter-status`): inside the
closure handed to `startExecution` — the one real execution of a possibly deduplicated task,
whose error every waiter receives — a failing dependency group and a failing command are only
*marked* (a literal of the package-local marker type); the one `TaskRunError` of `RunTask` is
built after `startExecution` has returned, i.e. by every caller for itself.  This is what the
model's `Outcome` / `wrapFor` mirror (`Act.fail`, `Act.stopDeps`, `wWake`). -/
theorem runTask_wrap_after_execution :
    chk ["startExecution", "closure{", "}closure", "runDeps", "runCommand", "mark:local", "wrap:TaskRunError"]
        ["startExecution", "closure{", "runDeps", "mark:local", "runCommand", "mark:local", "}closure", "wrap:TaskRunError"]
        RunTask = true := by decide

/-- `runDeps`: the slot is given back before the dependency goroutines start and retaken
(deferred) after `g.Wait`; each dependency is a child activation running `RunTask`. -/
theorem runDeps_skeleton :
    chk ["errgroup", "hook:depsRelease", "defer hook:depsReacq", "releaseSlot", "defer reacquire()", "hook:child", "g.Go", "RunTask", "g.Wait"]
        ["errgroup", "hook:depsRelease", "defer hook:depsReacq", "releaseSlot", "defer reacquire()", "hook:child", "g.Go", "RunTask", "g.Wait"]
        runDeps = true := by decide

/-- `runCommand`: same release/reacquire bracket around a task call; shell commands are
bracketed by `cmdStart` / `cmdEnd`. -/
theorem runCommand_skeleton :
    chk ["hook:callRelease", "defer hook:callReacq", "releaseSlot", "defer reacquire()", "hook:child", "RunTask", "hook:callRet",
         "hook:cmdStart", "execCommand", "hook:cmdEnd"]
        ["hook:callRelease", "defer hook:callReacq", "releaseSlot", "defer reacquire()", "hook:child", "RunTask", "hook:callRet",
         "hook:cmdStart", "execCommand", "hook:cmdEnd"]
        runCommand = true := by decide

/-- `startExecution` (after the fix of `C07-once-cycle-deadlocks`): the dedup table and the
wait-for relation between executions (`execution.waits`) are read and written under the
table's mutex; the `waitCycle` / `waiter` / `register` events are logged inside the critical
section (so their log order is the order of the table and of the relation — what the model's
`Config.execs` / `Config.waits` replay); the reachability check (`waitsFor`) comes before the
edge of a waiter is added, and a refused wait (`waitCycle`) adds none; a waiter gives its slot
back before blocking on `done`, and `done` is closed (deferred) around the registered
execution. -/
theorem startExecution_skeleton :
    chk ["getHash", "hashMutex.Lock", "hashMutex.Unlock", "waitsFor", "addWait", "hook:waitCycle", "hook:waiter",
         "hook:register", "hook:wRelease", "defer hook:wReacq", "releaseSlot", "defer reacquire()", "recv:_.done",
         "hook:wWake", "defer close:done", "defer hook:execDone"]
        ["getHash", "hashMutex.Lock", "waitsFor", "hook:waitCycle", "hashMutex.Unlock", "addWait", "hook:waiter",
         "hashMutex.Unlock", "hook:wRelease", "defer hook:wReacq", "releaseSlot", "defer reacquire()", "recv:_.done",
         "hook:wWake", "addWait", "hook:register", "hashMutex.Unlock", "defer close:done", "defer hook:execDone"]
        startExecution = true := by decide

/-- `startExecution`, the execution a call is part of (the model's `Act.par` / `Act.inner`): it
is read from the context before the table is locked, and the registered execution — the last
thing the function does — runs under a context that carries it (the other `execute`, first in
the list, is the path of a task that is not deduplicated: same context). -/
theorem startExecution_context :
    chk ["execute", "ctxValue", "ctxWithValue", "hashMutex.Lock", "hook:register", "defer hook:execDone"]
        ["execute", "ctxValue", "hashMutex.Lock", "hook:register", "defer hook:execDone", "execute", "ctxWithValue"]
        startExecution = true ∧
    startExecution.getLast? = some "ctxWithValue" := by decide

/-- `runDeferred`: a deferred command runs under a context that is NOT cancelled with the task
— derived from `context.WithoutCancel` of the task's context (the values, hence the enclosing
execution, are kept: deferred `task:` calls are covered by the wait-for check) or from
`Background`, from nothing else — and as the same activation (`adopt`). -/
theorem runDeferred_skeleton :
    let p := proj ["ctxWithCancel:background", "ctxWithCancel:withoutCancel", "ctxWithCancel:other", "hook:adopt", "runCommand"]
      runDeferred
    (p == ["ctxWithCancel:withoutCancel", "hook:adopt", "runCommand"] ||
     p == ["ctxWithCancel:background", "hook:adopt", "runCommand"]) = true := by decide

/-- … and in the tree under test it is the task's context without its cancellation -/
theorem runDeferred_keeps_values :
    chk ["ctxWithCancel:background", "ctxWithCancel:withoutCancel", "ctxWithCancel:other"]
        ["ctxWithCancel:withoutCancel"] runDeferred = true := by decide

/-- `Run`: top-level calls are registered with the hook and each goes through `RunTask`. -/
theorem run_skeleton :
    chk ["hook:registerTop", "RunTask", "g.Wait"] ["hook:registerTop", "RunTask", "RunTask", "g.Wait"] Run = true := by decide

end Props.SchedTie
