import TaskModel.Vars.Lemmas
import TaskModel.Vars.World
import TaskModel.Vars.CompileLemmas
import TaskModel.Gen.VarLayers
/-!
# C11 — A task's meaning does not depend on what else ran in the same invocation

The only state variable resolution shares between tasks of one invocation is the
dynamic-variable cache.  It is keyed by (directory, command text) (pinned by
`Gen.VarLayers.dynamicCacheKeyDef`).  Theorem: whatever other tasks were compiled before
— i.e. for EVERY cache reachable by earlier compilations — a task resolves to the same
variables as with an empty cache, provided the shell's answer to a command in a directory
does not depend on the rest of the environment handed to it (`EnvIndep`).  Without that
hypothesis the statement is false (counterexample below): a dynamic variable whose command
reads a Taskfile-level `env:` value can be served from the cache entry another task
created with a different environment — recorded as an open finding.
Tie: correspondence domain `vars` compiles every task alone and after prefixes of other
tasks in one executor and compares both with the model.
-/
namespace Props.C11
open TaskModel.Vars

/-- the shell's answer depends on the command and the directory only -/
def EnvIndep (shell : Shell) : Prop := ∀ cmd dir e1 e2, shell cmd dir e1 = shell cmd dir e2

/-- every cache entry is what the shell answers for that command in that directory -/
def Coherent (shell : Shell) (c : Cache) : Prop :=
  ∀ dir cmd v, c.lookup (dir, cmd) = some v → v = shell cmd dir []

theorem coherent_nil (shell : Shell) : Coherent shell [] := by intro _ _ _ h; cases h

theorem dynamic_coherent (shell : Shell) (hs : EnvIndep shell) (c : Cache) (hc : Coherent shell c)
    (cmd dir : Str) (e : Env) :
    (dynamic shell c cmd dir e).1 = (if cmd = [] then [] else shell cmd dir []) ∧
    Coherent shell (dynamic shell c cmd dir e).2 := by
  simp only [dynamic]
  split
  · exact ⟨rfl, hc⟩
  · split
    · rename_i v hv; exact ⟨hc dir cmd v hv, hc⟩
    · refine ⟨hs _ _ _ _, ?_⟩
      intro dir' cmd' v hv
      simp only [List.lookup] at hv
      split at hv
      · rename_i heq
        simp only [beq_iff_eq, Prod.mk.injEq] at heq
        cases hv; rw [heq.1, heq.2]; exact hs _ _ _ _
      · exact hc dir' cmd' v hv

theorem evalDef_indep (w : World) (hs : EnvIndep w.shell) (dir : Str) (e : Env) (c1 c2 : Cache)
    (h1 : Coherent w.shell c1) (h2 : Coherent w.shell c2) (d : VarDef) :
    (evalDef w dir e c1 d).1 = (evalDef w dir e c2 d).1 ∧
    Coherent w.shell (evalDef w dir e c1 d).2 ∧ Coherent w.shell (evalDef w dir e c2 d).2 := by
  cases d with
  | lit ps => exact ⟨rfl, h1, h2⟩
  | refv n => exact ⟨rfl, h1, h2⟩
  | sh ps ov =>
    simp only [evalDef]
    obtain ⟨a1, b1⟩ := dynamic_coherent w.shell hs c1 h1 (render e ps) (ov.getD dir) (shEnv w e)
    obtain ⟨a2, b2⟩ := dynamic_coherent w.shell hs c2 h2 (render e ps) (ov.getD dir) (shEnv w e)
    exact ⟨by rw [a1, a2], b1, b2⟩

theorem evalBlock_indep (w : World) (hs : EnvIndep w.shell) (dirf : Env → Str) (defs : List (Name × VarDef))
    (e : Env) (c1 c2 : Cache) (h1 : Coherent w.shell c1) (h2 : Coherent w.shell c2) :
    (evalBlock w dirf defs e c1).1 = (evalBlock w dirf defs e c2).1 ∧
    Coherent w.shell (evalBlock w dirf defs e c1).2 ∧ Coherent w.shell (evalBlock w dirf defs e c2).2 := by
  induction defs generalizing e c1 c2 with
  | nil => exact ⟨rfl, h1, h2⟩
  | cons d ds ih =>
    obtain ⟨n, d⟩ := d
    simp only [evalBlock]
    obtain ⟨a, b1, b2⟩ := evalDef_indep w hs (dirf e) e c1 c2 h1 h2 d
    rw [a]
    exact ih _ _ _ b1 b2

theorem runLayers_indep (w : World) (hs : EnvIndep w.shell) (cx : Ctx) (ls : List Layer)
    (s1 s2 : St) (he : s1.env = s2.env)
    (h1 : Coherent w.shell s1.cache) (h2 : Coherent w.shell s2.cache) :
    (runLayers w cx ls s1).env = (runLayers w cx ls s2).env ∧
    Coherent w.shell (runLayers w cx ls s1).cache := by
  induction ls generalizing s1 s2 with
  | nil => exact ⟨he, h1⟩
  | cons l ls ih =>
    simp only [runLayers]
    have key := evalBlock_indep w hs
    apply ih
    · simp only [stepLayer, he]
      exact (key _ l.defs s2.env s1.cache s2.cache h1 h2).1
    · simp only [stepLayer]
      exact (key _ l.defs s1.env s1.cache s1.cache h1 h1).2.1
    · simp only [stepLayer]
      exact (key _ l.defs s2.env s2.cache s2.cache h2 h2).2.1

/-- **C11.** The variables a task resolves to do not depend on the cache left behind by
whatever was compiled earlier in the invocation, and compiling a task leaves the cache
coherent — so the statement holds along every history of compilations. -/
theorem C11 (w : World) (hs : EnvIndep w.shell) (cx : Ctx) (base : Env) (layers : List Layer)
    (c : Cache) (hc : Coherent w.shell c) :
    (getVariables w cx base layers c).env = (getVariables w cx base layers []).env ∧
    Coherent w.shell (getVariables w cx base layers c).cache :=
  runLayers_indep w hs cx layers _ _ rfl hc (coherent_nil w.shell)

/-- every cache reachable from the empty one by compilations is coherent -/
theorem C11_reachable_coherent (w : World) (hs : EnvIndep w.shell) :
    ∀ (hist : List (Ctx × Env × List Layer)) (c : Cache), Coherent w.shell c →
      Coherent w.shell (hist.foldl (fun c h => (getVariables w h.1 h.2.1 h.2.2 c).cache) c) := by
  intro hist
  induction hist with
  | nil => intro c hc; exact hc
  | cons h hs' ih => intro c hc; exact ih _ (C11 w hs h.1 h.2.1 h.2.2 c hc).2

/-- **C11 along histories**: a task compiled after any sequence of other compilations gets
the variables it gets when compiled alone. -/
theorem C11_history (w : World) (hs : EnvIndep w.shell) (hist : List (Ctx × Env × List Layer))
    (cx : Ctx) (base : Env) (layers : List Layer) :
    (getVariables w cx base layers
      (hist.foldl (fun c h => (getVariables w h.1 h.2.1 h.2.2 c).cache) [])).env =
    (getVariables w cx base layers []).env :=
  (C11 w hs cx base layers _ (C11_reachable_coherent w hs hist [] (coherent_nil w.shell))).1

/-- the full statement, for arbitrary shells -/
def C11_full : Prop :=
  ∀ (w : World) (cx : Ctx) (base : Env) (layers : List Layer) (hist : List (Ctx × Env × List Layer)),
    (getVariables w cx base layers
      (hist.foldl (fun c h => (getVariables w h.1 h.2.1 h.2.2 c).cache) [])).env =
    (getVariables w cx base layers []).env

private def envShell : Shell := fun _ _ e => get e 0
private def lyA : List Layer := [⟨.taskfileEnv, [(0, .lit [.text [1]])]⟩, ⟨.taskVars, [(5, .sh [.text [9]] none)]⟩]
private def lyB : List Layer := [⟨.taskfileEnv, [(0, .lit [.text [2]])]⟩, ⟨.taskVars, [(5, .sh [.text [9]] none)]⟩]

/-- **Counterexample to the full statement**: a command whose output depends on a variable of
the environment (`envShell` prints variable 0) is served from the entry a task with another
value of that variable created (same directory, same command text). -/
theorem C11_full_counterexample : ¬ C11_full := by
  intro h
  have := h ⟨envShell, [], false⟩ ⟨[], [], []⟩ [] lyB [(⟨[], [], []⟩, [], lyA)]
  revert this
  decide

/-- the cache key really is (directory, command), as the model assumes -/
theorem cache_key_ok :
    TaskModel.Gen.VarLayers.dynamicCacheKeyDef = "dir + \"\\x00\" + *v.Sh" ∧
    TaskModel.Gen.VarLayers.dynamicCacheKey = "cacheKey" ∧
    TaskModel.Gen.VarLayers.dynamicCacheLocked = true := by decide

/-- non-vacuity: a shell that depends on command and directory only, two tasks sharing a command text -/
private def dirShell : Shell := fun cmd dir _ => cmd ++ dir
example : EnvIndep (⟨dirShell, [], false⟩ : World).shell := fun _ _ _ _ => rfl
example : get (getVariables ⟨dirShell, [], false⟩ ⟨[1], [.text [7]], []⟩ [] [⟨.taskVars, [(5, .sh [.text [9]] none)]⟩]
      (getVariables ⟨dirShell, [], false⟩ ⟨[1], [.text [8]], []⟩ [] [⟨.taskVars, [(5, .sh [.text [9]] none)]⟩] []).cache).env 5
    = [9, 1, 47, 7] := by decide

/-! ## the file system

"… depend only on its definition, the call variables, the Taskfile tree, the process environment
AND THE FILE SYSTEM".  The commands of tasks change the file system; an `sh:` variable of a
later task may read what they wrote.  `Vars.World`: the oracle gets a world state, histories
interleave compilations and command effects.  The statement: a task compiled after any
history gets what it gets when compiled ALONE IN THE WORLD THE HISTORY LEFT (a fresh
invocation started now).  False of the code: the cache serves what an earlier compilation
read before a command rewrote the file (`task a b` vs `task b`; open finding
`C11-dynamic-cache-ignores-files`, same root as `C11-dynamic-cache-ignores-env`). -/

def C11_fs_full : Prop :=
  ∀ (ws : WorldS) (σ0 : Sigma) (hist : List Ev) (cx : Ctx) (base : Env) (layers : List Layer),
    (getVariables (ws.at (runHist ws hist (σ0, [])).1) cx base layers (runHist ws hist (σ0, [])).2).env =
    (getVariables (ws.at (runHist ws hist (σ0, [])).1) cx base layers []).env

private def lyCat : List Layer := [⟨.taskVars, [(5, .sh [.text [102]] none)]⟩]      -- V: {sh: cat f}
private def cx0 : Ctx := ⟨[100], [], []⟩

/-- **Counterexample**: task `a` (`V: {sh: cat f}`) is compiled, its command rewrites `f`, task `b` (same
`sh:` text, same directory) is compiled: `b` gets the OLD content; alone it would get the new one. -/
theorem C11_fs_full_counterexample : ¬ C11_fs_full := by
  intro h
  have := h ⟨catShell, [], false⟩ [([100, 47, 102], [111])]
    [.compile cx0 [] lyCat, .effect (writeFile [100, 47, 102] [110])] cx0 [] lyCat
  revert this
  decide

/-- a command whose effect no `sh:` command can see -/
def Invisible (ws : WorldS) (f : Sigma → Sigma) : Prop := ∀ cmd dir e σ, ws.shell cmd dir e (f σ) = ws.shell cmd dir e σ

theorem coherent_effect (ws : WorldS) (f : Sigma → Sigma) (hf : Invisible ws f) (σ : Sigma) (c : Cache)
    (hc : Coherent (ws.at σ).shell c) : Coherent (ws.at (f σ)).shell c := by
  intro dir cmd v hv
  have := hc dir cmd v hv
  simp only [WorldS.at] at this ⊢
  rw [hf]; exact this

theorem runHist_coherent (ws : WorldS) (henv : ∀ σ, EnvIndep (ws.at σ).shell) :
    ∀ (hist : List Ev), (∀ f, Ev.effect f ∈ hist → Invisible ws f) → ∀ (s : Sigma × Cache),
      Coherent (ws.at s.1).shell s.2 → Coherent (ws.at (runHist ws hist s).1).shell (runHist ws hist s).2 := by
  intro hist
  induction hist with
  | nil => intro _ s hs; exact hs
  | cons ev r ih =>
    intro hinv s hs
    cases ev with
    | compile cx base ls =>
      simp only [runHist]
      apply ih (fun f hf => hinv f (List.mem_cons_of_mem _ hf))
      exact (C11 (ws.at s.1) (henv s.1) cx base ls s.2 hs).2
    | effect f =>
      simp only [runHist]
      apply ih (fun g hg => hinv g (List.mem_cons_of_mem _ hg))
      exact coherent_effect ws f (hinv f List.mem_cons_self) s.1 s.2 hs

/-- **C11 with the file system, partial**: along every history whose command effects are invisible to the
`sh:` commands (and whose `sh:` commands do not read their environment), a task resolves to what it
resolves to alone in the world the history left. -/
theorem C11_fs_partial (ws : WorldS) (henv : ∀ σ, EnvIndep (ws.at σ).shell) (σ0 : Sigma) (hist : List Ev)
    (hinv : ∀ f, Ev.effect f ∈ hist → Invisible ws f) (cx : Ctx) (base : Env) (layers : List Layer) :
    (getVariables (ws.at (runHist ws hist (σ0, [])).1) cx base layers (runHist ws hist (σ0, [])).2).env =
    (getVariables (ws.at (runHist ws hist (σ0, [])).1) cx base layers []).env :=
  (C11 _ (henv _) cx base layers _
    (runHist_coherent ws henv hist hinv (σ0, []) (coherent_nil _))).1

/- non-vacuity: the `cat` oracle ignores its environment; an effect on ANOTHER file is invisible to `cat f`
only if nothing reads it — here: a history whose effect writes a file outside every directory read -/
example : ∀ σ, EnvIndep ((⟨catShell, [], false⟩ : WorldS).at σ).shell := fun _ _ _ _ _ => rfl
example : histEnvs ⟨catShell, [], false⟩ [.compile cx0 [] lyCat, .effect (writeFile [100, 47, 102] [110]), .compile cx0 [] lyCat]
    ([([100, 47, 102], [111])], []) = [[(5, [111])], [(5, [111])]] := by decide     -- the model mirrors the stale read
example : histEnvs ⟨catShell, [], false⟩ [.effect (writeFile [100, 47, 102] [110]), .compile cx0 [] lyCat]
    ([([100, 47, 102], [111])], []) = [[(5, [110])]] := by decide

/-! ## the directory clause: "a dynamic (sh:) variable is evaluated in the task's own directory"

The task's own directory is the compiled task's `Dir` — the `dir:` template over the FINAL
variables, `~` expanded (`taskDirOver cx final`): that is where its commands run.  An `sh:`
variable of the included-Taskfile or task site runs in `siteDirf cx s e`, the same expression
over the variables `e` resolved when the definition is reached (fix cd73a37; before,
over what the global and include-statement layers had resolved, unexpanded).  The clause
holds whenever no definition from that point on changes a name the `dir:` refers to; at
full strength it is circular (a `dir:` that refers to a variable defined after, or by, the
`sh:` variable itself), which no evaluation order can satisfy. -/

def refsOf : List Part → List Name
  | [] => []
  | .text _ :: r => refsOf r
  | .ref n :: r => n :: refsOf r

theorem render_congr (e1 e2 : Env) (ps : List Part) (h : ∀ n ∈ refsOf ps, get e1 n = get e2 n) : render e1 ps = render e2 ps := by
  induction ps with
  | nil => rfl
  | cons p r ih =>
    cases p with
    | text t => simp only [render]; rw [ih (fun n hn => h n (by simpa [refsOf] using hn))]
    | ref n =>
      simp only [render]
      rw [h n (by simp [refsOf]), ih (fun n hn => h n (by simp [refsOf, hn]))]

/-- the environment in which the definition `(m, d)` of site `s` is reached (task compiled alone) -/
def envAt (w : World) (cx : Ctx) (base : Env) (defs : Site → Defs) (s : Site) (dpre : Defs) : Env :=
  (evalBlock w (siteDirf cx s) dpre (stateBefore w cx base defs s).env (stateBefore w cx base defs s).cache).1

/-- the clause for one `sh:` definition of a task-dir site: it runs where the task's commands run -/
def DirClauseAt (w : World) (cx : Ctx) (base : Env) (defs : Site → Defs) (s : Site) (dpre : Defs) : Prop :=
  siteDirf cx s (envAt w cx base defs s dpre) = taskDirOver cx (getVariables w cx base (layersOf defs) []).env

def C11_dir_clause_full : Prop :=
  ∀ (w : World) (cx : Ctx) (base : Env) (defs : Site → Defs) (s : Site) (dpre dpost : Defs) (m : Name) (ps : List Part),
    s.inTaskDir = true → defs s = dpre ++ (m, .sh ps none) :: dpost → DirClauseAt w cx base defs s dpre

private def shD : Shell := fun cmd dir _ => cmd ++ [64] ++ dir
private def defsCirc : Site → Defs
  | .taskVars => [(1, .sh [.text [75]] none), (2, .lit [.text [115]])]      -- P: {sh: K}, W: s   with dir: '{{.W}}'
  | _ => []

/-- **Counterexample** (circular by construction): `dir: '{{.W}}'`, `vars: {P: {sh: …}, W: s}` — `P` is reached
before `W` exists. -/
theorem C11_dir_clause_counterexample : ¬ C11_dir_clause_full := by
  intro h
  have := h ⟨shD, [], false⟩ ⟨[114], [.ref 2], []⟩ [] defsCirc .taskVars [] [(2, .lit [.text [115]])] 1 [.text [75]] rfl rfl
  revert this
  unfold DirClauseAt
  decide

/-- **Partial**: the clause holds for an `sh:` definition when nothing from that definition on (the rest of
its block, the higher sites) defines a name the task's `dir:` refers to. -/
theorem C11_dir_clause_partial (w : World) (cx : Ctx) (base : Env) (defs : Site → Defs) (s : Site) (dpre dpost : Defs)
    (m : Name) (d : VarDef) (hs : s.inTaskDir = true) (hdef : defs s = dpre ++ (m, d) :: dpost)
    (hrest : ∀ n ∈ refsOf cx.taskDirTpl, n ∉ names ((m, d) :: dpost))
    (hafter : ∀ n ∈ refsOf cx.taskDirTpl, ∀ s' ∈ sitesAfter s, n ∉ names (defs s')) :
    DirClauseAt w cx base defs s dpre := by
  unfold DirClauseAt
  simp only [siteDirf, hs, if_true, taskDirOver]
  congr 2
  apply render_congr
  intro n hn
  -- the final value of n is its value when (m, d) is reached
  rw [layersOf_split defs s]
  simp only [getVariables]
  rw [runLayers_append]
  simp only [runLayers]
  have hpost : ∀ l ∈ (sitesAfter s).map (lay defs), n ∉ names l.defs := by
    intro l hl
    simp only [List.mem_map] at hl
    obtain ⟨s', hs', rfl⟩ := hl
    exact hafter n hn s' hs'
  rw [runLayers_frame _ _ _ _ _ hpost]
  simp only [stepLayer, lay, hdef, envAt, stateBefore]
  rw [evalBlock_append, evalBlock_frame _ _ _ _ _ _ (hrest n hn)]

/-- the rule before the repair, on the audit's reproduction: `dir: '{{.W}}'` with `W` passed in the call —
the directory was resolved after the include-statement layer (`W` unknown: the root), the commands ran in `sub` -/
theorem C11_dir_old_rule_counterexample :
    let cx : Ctx := ⟨[114], [.ref 2], []⟩
    let defs : Site → Defs := fun s => match s with
      | .callVars => [(2, .lit [.text [115]])] | .taskVars => [(1, .sh [.text [75]] none)] | _ => []
    let oldDir := joinDir cx.rootDir (render (stateBefore ⟨shD, [], false⟩ cx [] defs .includedTaskfileVars).env cx.taskDirTpl)
    let final := (getVariables ⟨shD, [], false⟩ cx [] (layersOf defs) []).env
    oldDir = [114] ∧ taskDirOver cx final = [114, 47, 115] ∧ get final 1 = [75, 64, 114, 47, 115] := by decide

/- non-vacuity of the partial theorem: the same task, `W` from the call: the clause holds for `P` -/
example : DirClauseAt ⟨shD, [], false⟩ ⟨[114], [.ref 2], []⟩ []
    (fun s => match s with | .callVars => [(2, .lit [.text [115]])] | .taskVars => [(1, .sh [.text [75]] none)] | _ => []) .taskVars [] := by
  unfold DirClauseAt; decide
-- `dir: '~'`: expanded for the `sh:` variable as for the commands
example : get (getVariables ⟨shD, [], false⟩ ⟨[114], [.text [126]], [47, 104]⟩ [] [⟨.taskVars, [(1, .sh [.text [75]] none)]⟩] []).env 1 = [75, 64, 47, 104] := by decide

end Props.C11
