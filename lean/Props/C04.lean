import TaskModel.Finger.HistLemmas
import TaskModel.Finger.Facts
/-!
# C04 — up-to-date soundness: never skip a task whose last attempt did not succeed

`goodRun` (TaskModel.Finger.Machine): the most recent command-loop attempt at the task for the
present fingerprint ran every command successfully, and the generates exist.  Attempts are
recorded in the ghost log `State.log` by `runBody` (one entry each time the command loop is
entered; `ok` iff every command ran and succeeded).

* `C04_full` — for every history, "up to date" implies `goodRun`.  **False** in several
  independent ways, each a `decide`-checked run of the executable model:
  `C04_counterexample_kill` (4), `_timestamp_fail` (5), `_listjson` (6, for the wiring as found —
  repaired by F7), `_collision` (7), `_prompt_timestamp` (3, what is left of it: method timestamp
  only), and `_timestamp_generates`, `_timestamp_never_ran`, `_timestamp_marker_moves` found while
  building this check.
* (3) for method checksum is REPAIRED (F31: a declined prompt goes through `statusOnError`):
  `C04_prompt_declined_no_entry` (the declined run leaves no checksum entry for the task and logs
  no attempt), `C04_prompt_declined_next_runs` (so the next run is not skipped),
  `C04_prompt_declined_fixed` (the former witness is no longer bad).
* `C04_partial` — method checksum, pairwise distinct normalised names, histories of ANY length
  made of arbitrary file operations, successful runs, runs failing inside the command loop, runs
  and `--force` runs CANCELLED AT THE PROMPT, `--force`, `--dry`, `--status`,
  `--list[-all] [--json]`, `--summary` (no kill): skip ⇒ goodRun.  Invariant: "stored checksum
  for `t` = h ⇒ the last attempt at `t` with fingerprint h succeeded"; induction over the list of
  steps.
The hash `H` is arbitrary throughout (fingerprints are compared, never inverted).
-/
namespace Props.C04
open TaskModel.Finger

/-- the property, for a given wiring -/
def C04_full (cfg : Cfg) : Prop :=
  ∀ (H : Bytes → Bytes) (pr : Proj) (hist : List Step) (i : Nat) (t : Task) (e : Env),
    pr.tasks[i]? = some t → t.sources.isEmpty = false →
    (invoke cfg H pr i .run e (runHist cfg H pr hist State.empty).1).2.skipped = true →
    goodRun H pr i t (runHist cfg H pr hist State.empty).1 = true

/-! ## Counterexamples -/

private def mk (name : Bytes) (m : Method) (prompt : Bool) (ncmds : Nat) : Task :=
  { name, label := [], method := m, sources := [⟨false, [0]⟩], generates := [], status := [],
    prompt, dir := none, cmds := List.replicate ncmds ⟨[]⟩ }
private def pj (ts : List Task) : Proj := { base := [(0, [97])], dirOf := [], dirLen := [], tasks := ts }
private def w0 : Step := .op (.write 0 [1] 5)
private def env (n : Nat) : Env := ⟨n, true, none, none⟩
private def run (i n : Nat) : Step := .inv i .run (env n)

/-- a history after which task `i` is skipped although `goodRun` fails -/
def Bad (cfg : Cfg) (pr : Proj) (hist : List Step) (i : Nat) (t : Task) : Prop :=
  pr.tasks[i]? = some t ∧ t.sources.isEmpty = false ∧
  (invoke cfg id pr i .run (env 99) (runHist cfg id pr hist State.empty).1).2.skipped = true ∧
  goodRun id pr i t (runHist cfg id pr hist State.empty).1 = false

instance (cfg : Cfg) (pr : Proj) (hist : List Step) (i : Nat) (t : Task) : Decidable (Bad cfg pr hist i t) := by
  unfold Bad; infer_instance

/-- (3, method checksum — REPAIRED by F31) the prompt is declined after the fingerprint was
written; `statusOnError` removes it again, so this history is no longer bad (the general
statements are `C04_prompt_declined_no_entry` / `_next_runs` and `C04_partial` below). -/
theorem C04_prompt_declined_fixed :
    ¬ Bad Cfg.fixed (pj [mk [120] .checksum true 1]) [w0, .inv 0 .run { env 10 with yes := false }] 0
      (mk [120] .checksum true 1) := by decide

/-- (3, method timestamp — still open) the marker is created DURING the check and
`TimestampChecker.OnError` does nothing: after a declined prompt the next run is skipped, the
commands never ran (same root as 5). -/
theorem C04_counterexample_prompt_timestamp :
    Bad Cfg.fixed (pj [mk [120] .timestamp true 1]) [w0, .inv 0 .run { env 10 with yes := false }] 0
      (mk [120] .timestamp true 1) := by decide

/-- (4) the process is killed between the check and the last command. -/
theorem C04_counterexample_kill :
    Bad Cfg.fixed (pj [mk [120] .checksum false 2]) [w0, .inv 0 .run { env 10 with killAt := some 1 }] 0
      (mk [120] .checksum false 2) := by decide

/-- (5) method timestamp: `OnError` does nothing and the marker is touched by every check, so a
failed run makes the next one skip. -/
theorem C04_counterexample_timestamp_fail :
    Bad Cfg.fixed (pj [mk [120] .timestamp false 1]) [w0, .inv 0 .run { env 10 with failAt := some 0 }] 0
      (mk [120] .timestamp false 1) := by decide

/-- (6) with the wiring as found, `--list --json` writes the checksum of a task that never ran
(repaired by F7: under `Cfg.fixed` the same history is not bad). -/
theorem C04_counterexample_listjson :
    Bad Cfg.found (pj [mk [120] .checksum false 1]) [w0, .inv 0 .listJson (env 10)] 0 (mk [120] .checksum false 1) ∧
    ¬ Bad Cfg.fixed (pj [mk [120] .checksum false 1]) [w0, .inv 0 .listJson (env 10)] 0 (mk [120] .checksum false 1) := by
  decide

/-- (7) `a-b` and `a:b` normalise to the same file name: running one makes the other up to date. -/
theorem C04_counterexample_collision :
    Bad Cfg.fixed (pj [mk [97, 45, 98] .checksum false 1, mk [97, 58, 98] .checksum false 1]) [w0, run 0 10] 1
      (mk [97, 58, 98] .checksum false 1) ∧
    sumKey (mk [97, 45, 98] .checksum false 1) = sumKey (mk [97, 58, 98] .checksum false 1) := by decide

/-- (new) method timestamp: once the marker exists a deleted `generates` file goes unnoticed. -/
theorem C04_counterexample_timestamp_generates :
    let t : Task := { mk [120] .timestamp false 1 with generates := [⟨false, [1]⟩], cmds := [⟨[(1, [9])]⟩] }
    Bad Cfg.fixed (pj [t]) [w0, run 0 10, .op (.delete 1)] 0 t := by decide

/-- (new) method timestamp: a task that never ran is up to date as soon as a generates file is
newer than its sources (no marker yet: the generates' mtimes alone decide). -/
theorem C04_counterexample_timestamp_never_ran :
    let t : Task := { mk [120] .timestamp false 1 with generates := [⟨false, [1]⟩], cmds := [⟨[(1, [9])]⟩] }
    Bad Cfg.fixed (pj [t]) [w0, .op (.write 1 [8] 7)] 0 t := by decide

/-- (new, same root as 5) every check — also one ending in "up to date" — moves the marker to the
time of the check: a source whose mtime lies between the last run (10) and the last check (20)
is never rebuilt. -/
theorem C04_counterexample_timestamp_marker_moves :
    Bad Cfg.fixed (pj [mk [120] .timestamp false 1]) [w0, run 0 10, run 0 20, .op (.write 0 [2] 20)] 0
      (mk [120] .timestamp false 1) := by decide

theorem C04_full_false : ¬ C04_full Cfg.fixed := by
  intro h
  have hb := C04_counterexample_kill
  have := h id _ _ 0 _ (env 99) hb.1 hb.2.1 hb.2.2.1
  rw [hb.2.2.2] at this
  cases this

/-! ## The partial theorem -/

section
variable (H : Bytes → Bytes) (pr : Proj)

/-- pairwise distinct normalised names (of the names the checksum store is keyed by) -/
def KeysDistinct (pr : Proj) : Prop :=
  ∀ (i j : Nat) (ti tj : Task), pr.tasks[i]? = some ti → pr.tasks[j]? = some tj → sumKey ti = sumKey tj → i = j

/-- steps of the histories covered: any file operation; any invocation (every mode, prompt
answered yes or declined, any command failing) during which the process is not killed -/
def Allowed : Step → Prop
  | .op _ => True
  | .inv _ _ e => e.killAt = none

/-- the invariant: a stored checksum `h` of a checksum task means the last attempt at that task
with fingerprint `h` succeeded -/
def Inv (pr : Proj) (s : State) : Prop :=
  ∀ (i : Nat) (t : Task) (h : Bytes), pr.tasks[i]? = some t → Cs t → aget s.sums (sumKey t) = some h →
    ∃ a, lastAtt (fun a => decide (a.task = i ∧ a.fp = h)) s.log = some a ∧ a.ok = true

theorem inv_empty : Inv pr State.empty := by
  intro i t h _ _ hget
  simp [State.empty] at hget

/-- one logged attempt at task `j` together with the matching change of the store keeps `Inv` -/
theorem inv_of_effect (hd : KeysDistinct pr) {s s' : State} (hinv : Inv pr s) {j : Nat} {tj : Task}
    (htj : pr.tasks[j]? = some tj) (fp : Bytes) (now : Nat) (ok : Bool)
    (hlog : s'.log = s.log ++ [⟨j, fp, now, ok⟩])
    (hother : ∀ x, (Cs tj → x ≠ sumKey tj) → aget s'.sums x = aget s.sums x)
    (hkey : Cs tj → (ok = true ∧ (aget s'.sums (sumKey tj) = some fp ∨ aget s'.sums (sumKey tj) = aget s.sums (sumKey tj))) ∨
                    (ok = false ∧ aget s'.sums (sumKey tj) = none)) :
    Inv pr s' := by
  intro i t h hti hcs hget
  rw [hlog, lastAtt_append]
  by_cases hij : i = j
  · subst hij
    have htt : t = tj := by rw [hti] at htj; exact Option.some.inj htj
    subst htt
    rcases hkey hcs with ⟨hok, hk⟩ | ⟨_, hk⟩
    · subst hok
      by_cases hfp : fp = h
      · subst hfp; simp
      · have hfp' : ¬ (fp = h) := hfp
        simp only [hfp', and_false, decide_false, Bool.false_eq_true, if_false]
        rcases hk with hk | hk
        · rw [hk] at hget; exact absurd (Option.some.inj hget) hfp
        · rw [hk] at hget; exact hinv i t h hti hcs hget
    · rw [hk] at hget; cases hget
  · have hji : ¬ (j = i) := fun e => hij e.symm
    simp only [hji, false_and, decide_false, Bool.false_eq_true, if_false]
    have hne : Cs tj → sumKey t ≠ sumKey tj := fun _ e => hij (hd i j t tj hti htj e)
    rw [hother _ hne] at hget
    exact hinv i t h hti hcs hget

/-- an invocation of task `j` that logs no attempt and leaves no checksum entry for it (a run
cancelled at the prompt) keeps `Inv` -/
theorem inv_of_cancel (hd : KeysDistinct pr) {s s' : State} (hinv : Inv pr s) {j : Nat} {tj : Task}
    (htj : pr.tasks[j]? = some tj) (hlog : s'.log = s.log)
    (hother : ∀ x, (Cs tj → x ≠ sumKey tj) → aget s'.sums x = aget s.sums x)
    (hkey : Cs tj → aget s'.sums (sumKey tj) = none) : Inv pr s' := by
  intro i t h hti hcs hget
  rw [hlog]
  by_cases hij : i = j
  · subst hij
    have htt : t = tj := by rw [hti] at htj; exact Option.some.inj htj
    subst htt
    rw [hkey hcs] at hget; cases hget
  · have hne : Cs tj → sumKey t ≠ sumKey tj := fun _ e => hij (hd i j t tj hti htj e)
    rw [hother _ hne] at hget
    exact hinv i t h hti hcs hget

/-- every allowed step keeps the invariant -/
theorem inv_step (hd : KeysDistinct pr) (st : Step) (s : State) (ha : Allowed st) (hinv : Inv pr s) :
    Inv pr (step Cfg.fixed H pr st s).1 := by
  cases st with
  | op o =>
    have hf := applyOp_fields pr o s
    intro i t h hti hcs hget
    simp only [step] at hget ⊢
    rw [hf.1] at hget
    rw [hf.2]
    exact hinv i t h hti hcs hget
  | inv j m e =>
    have hk : e.killAt = none := ha
    simp only [step]
    by_cases hro : m.readOnly = true
    · rw [(invoke_readOnly Cfg.fixed H pr rfl rfl j m e s hro).1]; exact hinv
    · cases htj : pr.tasks[j]? with
      | none =>
        have : (invoke Cfg.fixed H pr j m e s).1 = s := by
          cases m <;> simp [Mode.readOnly] at hro <;> simp [invoke, htj]
        rw [this]; exact hinv
      | some tj =>
        by_cases hdec : Declined tj e
        · -- cancelled at the prompt: `statusOnError`, no attempt
          cases m with
          | force =>
            rw [invoke_force Cfg.fixed H pr htj, runBody_declined Cfg.fixed H pr j tj e s hdec]
            apply inv_of_cancel pr hd hinv htj (onError_log tj s)
            · intro x hx
              rw [onError_sums]
              by_cases hcs : Cs tj
              · rw [if_pos hcs, aget_adel_ne _ (fun e => hx hcs e.symm)]
              · rw [if_neg hcs]
            · intro hcs
              rw [onError_sums, if_pos hcs]; simp
          | run =>
            rw [invoke_run Cfg.fixed H pr htj]
            obtain ⟨hclog, _, hcother, _, hcskip⟩ := isUpToDate_effect H pr tj e.now s
            split
            · rename_i hup
              intro i t h hti hcs hget
              simp only at hget ⊢
              rw [hcskip hup] at hget
              rw [hclog]
              exact hinv i t h hti hcs hget
            · rw [runBody_declined Cfg.fixed H pr j tj e _ hdec]
              apply inv_of_cancel pr hd hinv htj (by rw [onError_log, hclog])
              · intro x hx
                rw [onError_sums]
                by_cases hcs : Cs tj
                · rw [if_pos hcs, aget_adel_ne _ (fun e => hx hcs e.symm)]; exact hcother x hx
                · rw [if_neg hcs]; exact hcother x hx
              · intro hcs
                rw [onError_sums, if_pos hcs]; simp
          | dry => simp [Mode.readOnly] at hro
          | status => simp [Mode.readOnly] at hro
          | listJson => simp [Mode.readOnly] at hro
          | list => simp [Mode.readOnly] at hro
          | summary => simp [Mode.readOnly] at hro
        have hpass : Passes tj e := passes_of_not_declined hk hdec
        cases m with
        | force =>
          rw [invoke_force Cfg.fixed H pr htj]
          obtain ⟨ok, hlog, hok, hfail⟩ := runBody_effect Cfg.fixed H pr j tj e s hpass
          apply inv_of_effect pr hd hinv htj _ _ ok hlog
          · intro x hx
            cases ok with
            | true => rw [hok rfl]
            | false =>
              rw [hfail rfl]
              by_cases hcs : Cs tj
              · rw [if_pos hcs, aget_adel_ne _ (fun e => hx hcs e.symm)]
              · rw [if_neg hcs]
          · intro hcs
            cases ok with
            | true => exact Or.inl ⟨rfl, Or.inr (by rw [hok rfl])⟩
            | false => exact Or.inr ⟨rfl, by rw [hfail rfl, if_pos hcs]; simp⟩
        | run =>
          rw [invoke_run Cfg.fixed H pr htj]
          obtain ⟨hclog, hcfiles, hcother, hckey, hcskip⟩ := isUpToDate_effect H pr tj e.now s
          split
          · rename_i hup
            intro i t h hti hcs hget
            simp only at hget ⊢
            rw [hcskip hup] at hget
            rw [hclog]
            exact hinv i t h hti hcs hget
          · obtain ⟨ok, hlog, hok, hfail⟩ :=
              runBody_effect Cfg.fixed H pr j tj e (isUpToDate H pr tj false e.now s).1 hpass
            rw [hclog, hcfiles] at hlog
            apply inv_of_effect pr hd hinv htj _ _ ok hlog
            · intro x hx
              cases ok with
              | true => rw [hok rfl]; exact hcother x hx
              | false =>
                rw [hfail rfl]
                by_cases hcs : Cs tj
                · rw [if_pos hcs, aget_adel_ne _ (fun e => hx hcs e.symm)]; exact hcother x hx
                · rw [if_neg hcs]; exact hcother x hx
            · intro hcs
              cases ok with
              | true => exact Or.inl ⟨rfl, Or.inl (by rw [hok rfl]; exact hckey hcs)⟩
              | false => exact Or.inr ⟨rfl, by rw [hfail rfl, if_pos hcs]; simp⟩
        | dry => simp [Mode.readOnly] at hro
        | status => simp [Mode.readOnly] at hro
        | listJson => simp [Mode.readOnly] at hro
        | list => simp [Mode.readOnly] at hro
        | summary => simp [Mode.readOnly] at hro

/-- … hence every allowed history does -/
theorem inv_hist (hd : KeysDistinct pr) (hist : List Step) (s : State) (ha : ∀ st ∈ hist, Allowed st)
    (hinv : Inv pr s) : Inv pr (runHist Cfg.fixed H pr hist s).1 := by
  induction hist generalizing s with
  | nil => exact hinv
  | cons st rest ih =>
    simp only [runHist]
    exact ih _ (fun x hx => ha x (by simp [hx])) (inv_step H pr hd st s (ha st (by simp)) hinv)

/-- **C04_partial**: for a task fingerprinted with method checksum, in a project whose tasks have
pairwise distinct normalised names, after ANY history of allowed steps (no bound on its length;
since F31 this includes runs cancelled at the prompt): if a run reports the task up to date then
`goodRun` holds. -/
theorem C04_partial (hd : KeysDistinct pr) (hist : List Step) (ha : ∀ st ∈ hist, Allowed st)
    (i : Nat) (t : Task) (e : Env) (ht : pr.tasks[i]? = some t) (hm : t.method = .checksum)
    (hsrc : t.sources.isEmpty = false)
    (hskip : (invoke Cfg.fixed H pr i .run e (runHist Cfg.fixed H pr hist State.empty).1).2.skipped = true) :
    goodRun H pr i t (runHist Cfg.fixed H pr hist State.empty).1 = true := by
  have hinv := inv_hist H pr hd hist State.empty ha (inv_empty pr)
  generalize (runHist Cfg.fixed H pr hist State.empty).1 = s at *
  have hup := run_skipped Cfg.fixed H pr ht e s hskip
  rw [isUpToDate_sources H pr hsrc] at hup
  have hsum : (sumCheck H pr t false s).2 = true := by
    simp only [srcCheck, hm] at hup
    cases hst : t.status.isEmpty <;> simp [hst] at hup <;> simp [hup]
  rw [sumCheck_result] at hsum
  simp only [Bool.and_eq_true, decide_eq_true_eq] at hsum
  obtain ⟨a, ha1, ha2⟩ := hinv i t _ ht ⟨hm, hsrc⟩ hsum.2
  unfold goodRun
  simp only [hm, hsum.1, ha1, ha2, Bool.and_self]

/-! ## The declined prompt (F31) -/

/-- **a declined prompt leaves no checksum entry**: a run of a checksum task that is not up to
date and is cancelled at the prompt exits `cancelled`, starts no command, logs no attempt, and
the checksum the check had recorded is gone again (any wiring, any state, any hash). -/
theorem C04_prompt_declined_no_entry (cfg : Cfg) {i : Nat} {t : Task} (ht : pr.tasks[i]? = some t) (hcs : Cs t)
    (e : Env) (s : State) (hdec : Declined t e) (hns : (invoke cfg H pr i .run e s).2.skipped = false) :
    aget (invoke cfg H pr i .run e s).1.sums (sumKey t) = none ∧
    (invoke cfg H pr i .run e s).2.exit = .cancelled ∧ (invoke cfg H pr i .run e s).2.ran = [] ∧
    (invoke cfg H pr i .run e s).1.log = s.log := by
  rw [invoke_run cfg H pr ht] at hns ⊢
  by_cases hup : (isUpToDate H pr t false e.now s).2 = true
  · rw [if_pos hup] at hns; cases hns
  · rw [if_neg hup, runBody_declined cfg H pr i t e _ hdec]
    refine ⟨?_, rfl, rfl, ?_⟩
    · simp only [onError_sums, if_pos hcs]; simp
    · simp only [onError_log]; exact (isUpToDate_effect H pr t e.now s).1

/-- … so **the next run is not skipped** on account of the cancelled one. -/
theorem C04_prompt_declined_next_runs (cfg : Cfg) {i : Nat} {t : Task} (ht : pr.tasks[i]? = some t) (hcs : Cs t)
    (e e2 : Env) (s : State) (hdec : Declined t e) (hns : (invoke cfg H pr i .run e s).2.skipped = false) :
    (invoke cfg H pr i .run e2 (invoke cfg H pr i .run e s).1).2.skipped = false := by
  have hnone := (C04_prompt_declined_no_entry H pr cfg ht hcs e s hdec hns).1
  generalize (invoke cfg H pr i .run e s).1 = s1 at hnone
  cases hsk : (invoke cfg H pr i .run e2 s1).2.skipped with
  | false => rfl
  | true =>
    have hup := run_skipped cfg H pr ht e2 s1 hsk
    rw [isUpToDate_sources H pr hcs.2] at hup
    have hsum : (sumCheck H pr t false s1).2 = true := by
      simp only [srcCheck, hcs.1] at hup
      cases hst : t.status.isEmpty <;> simp [hst] at hup <;> simp [hup]
    rw [sumCheck_result, hnone] at hsum
    simp at hsum

end

/-- non-vacuity: a history using every allowed kind of step (edit, successful run, failing run,
run cancelled at the prompt, `--force`, `--dry`, `--status`, `--list --json`) on a project with
distinct names, after which the task IS skipped — and, as the theorem says, `goodRun` holds. -/
example :
    let t := mk [120] .checksum false 2
    let pr := pj [t, mk [121] .checksum true 1]
    let hist : List Step := [w0, .inv 0 .run { env 10 with failAt := some 1 }, .inv 0 .dry (env 20), .inv 0 .status (env 30),
      .inv 0 .listJson (env 40), .inv 1 .run { env 45 with yes := false }, run 0 50, .inv 1 .force (env 60), .op (.touch 0 70)]
    (∀ st ∈ hist, Allowed st) ∧
    (invoke Cfg.fixed id pr 0 .run (env 99) (runHist Cfg.fixed id pr hist State.empty).1).2.skipped = true ∧
    goodRun id pr 0 t (runHist Cfg.fixed id pr hist State.empty).1 = true := by
  refine ⟨?_, by decide, by decide⟩
  intro st hst
  simp only [List.mem_cons, List.not_mem_nil, or_false] at hst
  rcases hst with h | h | h | h | h | h | h | h | h <;> subst h <;> simp [Allowed, w0, run, env]

/-- non-vacuity of the declined-prompt theorems: the run is really cancelled after the check wrote
the checksum (it is not up to date), and the task of the example is a checksum task with a prompt -/
example :
    let t := mk [120] .checksum true 1
    let e : Env := { env 10 with yes := false }
    let s := (runHist Cfg.fixed id (pj [t]) [w0] State.empty).1
    Cs t ∧ Declined t e ∧ (invoke Cfg.fixed id (pj [t]) 0 .run e s).2.skipped = false ∧
    (isUpToDate id (pj [t]) t false 10 s).1.sums ≠ [] ∧ (invoke Cfg.fixed id (pj [t]) 0 .run e s).1.sums = [] := by decide

example : KeysDistinct (pj [mk [120] .checksum false 2, mk [121] .checksum true 1]) := by
  intro i j ti tj hi hj hk
  match i, j with
  | 0, 0 => rfl
  | 1, 1 => rfl
  | 0, 1 => simp [pj] at hi hj; subst hi hj; simp [sumKey, mk, normalize, Task.displayName, keepChar] at hk
  | 1, 0 => simp [pj] at hi hj; subst hi hj; simp [sumKey, mk, normalize, Task.displayName, keepChar] at hk
  | i + 2, _ => simp [pj] at hi
  | 0, j + 2 => simp [pj] at hj
  | 1, j + 2 => simp [pj] at hj

end Props.C04
