import TaskModel.Finger.HistLemmas
import TaskModel.Finger.TsLemmas
import TaskModel.Finger.Facts
/-!
# C04 — up-to-date soundness: never skip a task whose last attempt did not succeed

`goodRun` (TaskModel.Finger.Machine): the most recent command-loop attempt at the task for the
present fingerprint ran every command successfully, and the generates exist.  Attempts are
recorded in the ghost log `State.log` by `runBody` (one entry each time the command loop is
entered; `ok` iff every command ran and succeeded).

* `C04_full` — for every history, "up to date" implies `goodRun`.  **False** in several
  independent ways, each a `decide`-checked run of the executable model (which mirrors the tree
  with the timestamp fixes TS1–TS3, fix M and fix N): `C04_counterexample_kill` (4, both methods:
  `_kill_timestamp`), `_listjson` (6, for the wiring as found — repaired by F7), and what is
  LEFT of method timestamp's defects: `_timestamp_never_ran`, `_timestamp_failed_generates` /
  `_timestamp_forced_fail_generates` (a failed run that left a `generates` file behind),
  `_timestamp_generates_by_others` — one root: with method timestamp an existing `generates` file
  at least as new as every source makes the task up to date, whatever happened to its last attempt.
* (7) REPAIRED by fix N for names that merely normalise alike (`a:b` / `a-b` / `a.b`):
  `stateKey_inj` (KeyLemmas), `C04_collision_fixed`; and, what was left of it, by fix F8A for EQUAL
  LABELS (method checksum named its file after `t.Name()`, the label): the checksum state belongs to
  the pair (task name, label) — `sumKey`, `sumKey_inj` (equal keys ⇒ equal task names and labels),
  `C04_equal_labels_fixed` (the two former witnesses; `C04_equal_labels_old_rule`: what the old key
  did).  The hypothesis of `C04_partial` shrank from "distinct normalised names" over "distinct
  `t.Name()`" to `NamesDistinct` — distinct TASK names, true of every table the loader produces —
  which is also all `C04_partial_timestamp` needs.
* (3) a declined prompt is REPAIRED for both methods (F31: it goes through `statusOnError`; TS3:
  `TimestampChecker.OnError` removes the marker): `C04_prompt_declined_no_entry` /
  `C04_timestamp_declined_no_marker` (the declined run leaves no checksum entry / no marker and
  logs no attempt), `C04_prompt_declined_next_runs`, `C04_timestamp_no_marker_next_runs`,
  `C04_prompt_declined_fixed`, `C04_timestamp_prompt_declined_fixed`.
* (5) REPAIRED by TS3: `C04_timestamp_failed_no_marker` (a run or `--force` run that exits
  `failed` leaves no marker), `C04_timestamp_fail_fixed`; TS1: `C04_timestamp_generates_fixed`
  (skip ⇒ the generates exist: `C04_timestamp_skip_generates_exist`); TS2 and fix M:
  `C04_timestamp_uptodate_check_pure` / `C04_timestamp_checks_pure` (a check that ends in "up to
  date" changes NOTHING: it neither moves the marker nor creates one), hence
  `C04_timestamp_edit_after_checks_detected` (however many such checks happened, a source written
  with an mtime after the marker — the last run, `C04_timestamp_marker_is_last_run` — if there is
  one, and after every generates file, is rebuilt), `C04_timestamp_marker_moves_fixed`,
  `C04_timestamp_marker_created_fixed`.
* `C04_partial` — method checksum, `NamesDistinct`, histories of ANY length
  made of arbitrary file operations, successful runs, runs failing inside the command loop, runs
  and `--force` runs CANCELLED AT THE PROMPT, `--force`, `--dry`, `--status`,
  `--list[-all] [--json]`, `--summary` (no kill): skip ⇒ goodRun.  Invariant: "stored checksum
  for `t` = h ⇒ the last attempt at `t` with fingerprint h succeeded"; induction over the list of
  steps.
* `C04_partial_timestamp_general` — the same histories (tasks of both methods mixed) for ANY task
  with method timestamp, `NamesDistinct` and a clock that does not run backwards (`ClockOK`):
  skip ⇒ goodRun ∨ `GenNewer` (an existing `generates` file newer than the marker, or no marker,
  vouched).  Invariant (needs no condition on `generates` since fix M): "a marker `m` of `t` ⇒ the
  last attempt at `t` succeeded, at a time ≥ `m`".  `C04_partial_timestamp`: without a positive
  `generates` pattern (`NoPosGenerates`) simply skip ⇒ goodRun.  `C04_timestamp_with_generates_false`:
  the disjunct is needed.
* `C04_partial_src` — the same with the conclusion in terms of NAMES AND CONTENTS (ghost `Attempt.src`,
  `goodRunSrc`): "the most recent attempt for the present (names, contents) succeeded", under the explicit
  no-collision hypothesis `NoCollision` (F8B's injective encoding: `flatL_lensL_inj`);
  `C04_constant_hash_vacuous`: why — `C04_partial` alone holds for a constant hash.
  `C04_partial_queries`: `--status` / `--dry` / `--list --json` verdicts are as sound as a run.
  `C04_counterexample_concurrent` (open): a second activation of the task in the same invocation.
The hash `H` is arbitrary in `C04_partial` (fingerprints are compared, never inverted).
-/
namespace Props.C04
open TaskModel.Finger

/-- the property, for a given wiring -/
def C04_full (cfg : Cfg) : Prop :=
  ∀ (H : Hashes) (pr : Proj) (hist : List Step) (i : Nat) (t : Task) (e : Env),
    pr.tasks[i]? = some t → t.sources.isEmpty = false →
    (invoke cfg H pr i .run e (runHist cfg H pr hist State.empty).1).2.skipped = true →
    goodRun H pr i t (runHist cfg H pr hist State.empty).1 = true

/-! ## Counterexamples -/

private def mk (name : Bytes) (m : Method) (prompt : Bool) (ncmds : Nat) : Task :=
  { name, label := [], method := m, sources := [⟨false, [0]⟩], generates := [], status := [],
    prompt, dir := none, cmds := List.replicate ncmds ⟨[], none, false⟩ }
private def pj (ts : List Task) : Proj := { base := [(0, [97])], dirOf := [], dirLen := [], tasks := ts }
private def w0 : Step := .op (.write 0 [1] 5)
private def env (n : Nat) : Env := ⟨n, true, none, none, false, true, false⟩
private def run (i n : Nat) : Step := .inv i .run (env n)

/-- a history after which task `i` is skipped although `goodRun` fails -/
def Bad (cfg : Cfg) (pr : Proj) (hist : List Step) (i : Nat) (t : Task) : Prop :=
  pr.tasks[i]? = some t ∧ t.sources.isEmpty = false ∧
  (invoke cfg hId pr i .run (env 99) (runHist cfg hId pr hist State.empty).1).2.skipped = true ∧
  goodRun hId pr i t (runHist cfg hId pr hist State.empty).1 = false

instance (cfg : Cfg) (pr : Proj) (hist : List Step) (i : Nat) (t : Task) : Decidable (Bad cfg pr hist i t) := by
  unfold Bad; infer_instance

/-- (3, method checksum — REPAIRED by F31) the prompt is declined after the fingerprint was
written; `statusOnError` removes it again, so this history is no longer bad (the general
statements are `C04_prompt_declined_no_entry` / `_next_runs` and `C04_partial` below). -/
theorem C04_prompt_declined_fixed :
    ¬ Bad Cfg.fixed (pj [mk [120] .checksum true 1]) [w0, .inv 0 .run { env 10 with yes := false }] 0
      (mk [120] .checksum true 1) := by decide

/-- (3, method timestamp — REPAIRED by TS3) the marker created during the check is removed again by
`TimestampChecker.OnError`: the former witness is no longer bad. -/
theorem C04_timestamp_prompt_declined_fixed :
    ¬ Bad Cfg.fixed (pj [mk [120] .timestamp true 1]) [w0, .inv 0 .run { env 10 with yes := false }] 0
      (mk [120] .timestamp true 1) := by decide

/-- (4) the process is killed between the check and the last command. -/
theorem C04_counterexample_kill :
    Bad Cfg.fixed (pj [mk [120] .checksum false 2]) [w0, .inv 0 .run { env 10 with killAt := some 1 }] 0
      (mk [120] .checksum false 2) := by decide

/-- (4, method timestamp) the same: the marker touched by the check survives the kill. -/
theorem C04_counterexample_kill_timestamp :
    Bad Cfg.fixed (pj [mk [120] .timestamp false 2]) [w0, .inv 0 .run { env 10 with killAt := some 1 }] 0
      (mk [120] .timestamp false 2) := by decide

/-- (5, REPAIRED by TS3) a failed run removes the marker: the former witness is no longer bad. -/
theorem C04_timestamp_fail_fixed :
    ¬ Bad Cfg.fixed (pj [mk [120] .timestamp false 1]) [w0, .inv 0 .run { env 10 with failAt := some 0 }] 0
      (mk [120] .timestamp false 1) := by decide

/-- (6) with the wiring as found, `--list --json` writes the checksum of a task that never ran
(repaired by F7: under `Cfg.fixed` the same history is not bad). -/
theorem C04_counterexample_listjson :
    Bad Cfg.found (pj [mk [120] .checksum false 1]) [w0, .inv 0 .listJson (env 10)] 0 (mk [120] .checksum false 1) ∧
    ¬ Bad Cfg.fixed (pj [mk [120] .checksum false 1]) [w0, .inv 0 .listJson (env 10)] 0 (mk [120] .checksum false 1) := by
  decide

/-- (7, REPAIRED by fix N) `a-b` and `a:b` normalise to the same name, which was their state file
name (`oldKey`, the rule before the fix: an OLD-RULE fact, not true of the tree any more); the
file name now carries a tag of the original name, the two keys differ, and the former witness —
running `a-b` made `a:b` up to date — is no longer bad. -/
theorem C04_collision_fixed :
    ¬ Bad Cfg.fixed (pj [mk [97, 45, 98] .checksum false 1, mk [97, 58, 98] .checksum false 1]) [w0, run 0 10] 1
      (mk [97, 58, 98] .checksum false 1) ∧
    sumKey (mk [97, 45, 98] .checksum false 1) ≠ sumKey (mk [97, 58, 98] .checksum false 1) ∧
    oldKey (mk [97, 45, 98] .checksum false 1).displayName = oldKey (mk [97, 58, 98] .checksum false 1).displayName := by
  decide

/-- (7, the rest — REPAIRED by fix F8A) method checksum keyed the state by `t.Name()` — the LABEL
when there is one — so two tasks with the same label, or a task whose label is another task's name,
shared one checksum file.  The key is now a function of the pair (task name, label): the two former
witnesses — running `a` made `b` up to date — are no longer bad, and the keys differ. -/
theorem C04_equal_labels_fixed :
    (let a : Task := { mk [120] .checksum false 1 with label := [76] }
     let b : Task := { mk [121] .checksum false 1 with label := [76] }
     ¬ Bad Cfg.fixed (pj [a, b]) [w0, run 0 10] 1 b ∧ sumKey a ≠ sumKey b) ∧
    (let a : Task := mk [120] .checksum false 1
     let b : Task := { mk [121] .checksum false 1 with label := [120] }
     ¬ Bad Cfg.fixed (pj [a, b]) [w0, run 0 10] 1 b ∧ sumKey a ≠ sumKey b) := by decide

/-- the rule before fix F8A (`oldSumKey` = `stateFilename(t.Name())`: an OLD-RULE fact, not true of
the tree any more) gave both pairs ONE key -/
theorem C04_equal_labels_old_rule :
    oldSumKey { mk [120] .checksum false 1 with label := [76] } = oldSumKey { mk [121] .checksum false 1 with label := [76] } ∧
    oldSumKey (mk [120] .checksum false 1) = oldSumKey { mk [121] .checksum false 1 with label := [120] } := by decide

/- method timestamp with a `generates` entry: path 1, written by the first of two commands -/
private def tg : Task := { mk [120] .timestamp false 1 with generates := [⟨false, [1]⟩], cmds := [⟨[(1, [9])], none, false⟩] }
private def tg2 : Task := { tg with cmds := [⟨[(1, [9])], none, false⟩, ⟨[], none, false⟩] }

/-- (REPAIRED by TS1) once the marker existed a deleted `generates` file went unnoticed: the former
witness is no longer bad. -/
theorem C04_timestamp_generates_fixed : ¬ Bad Cfg.fixed (pj [tg]) [w0, run 0 10, .op (.delete 1)] 0 tg := by decide

/-- (REPAIRED by TS2) every check — also one ending in "up to date" — moved the marker to the time
of the check; now a source whose mtime lies between the last run (10) and the last check (20) is
rebuilt: the former witness is no longer bad. -/
theorem C04_timestamp_marker_moves_fixed :
    ¬ Bad Cfg.fixed (pj [mk [120] .timestamp false 1]) [w0, run 0 10, run 0 20, .op (.write 0 [2] 20)] 0
      (mk [120] .timestamp false 1) := by decide

/-- (open, by design of the method) a task that never ran is up to date as soon as a generates
file is newer than its sources (no marker yet: the generates' mtimes alone decide). -/
theorem C04_counterexample_timestamp_never_ran : Bad Cfg.fixed (pj [tg]) [w0, .op (.write 1 [8] 7)] 0 tg := by decide

/-- (open; what is left of 5) a run whose FIRST command wrote the generates file and whose second
command failed: `OnError` removes the marker, but the generates file is newer than the source … -/
theorem C04_counterexample_timestamp_failed_generates :
    Bad Cfg.fixed (pj [tg2]) [w0, .inv 0 .run { env 10 with failAt := some 1 }] 0 tg2 := by decide

/-- … and the same after a failed `--force` run. -/
theorem C04_counterexample_timestamp_forced_fail_generates :
    Bad Cfg.fixed (pj [tg2]) [w0, .inv 0 .force { env 10 with failAt := some 1 }] 0 tg2 := by decide

/-- (REPAIRED by fix M; was what TS2 left of "the marker is moved by every check") a check that
ends in "up to date" while no marker exists (here: the generates file, written at 10 by hand, vouches
for a task that has no marker — since F8F a `--force` run leaves one, so the former witness starts
differently) no longer creates one: the source written with mtime 15 is compared with the generates
file (10) alone and rebuilt — the history is not bad, and no marker exists after the up-to-date check. -/
theorem C04_timestamp_marker_created_fixed :
    ¬ Bad Cfg.fixed (pj [tg]) [w0, .op (.write 1 [9] 10), run 0 20, .op (.write 0 [2] 15)] 0 tg ∧
    (invoke Cfg.fixed hId (pj [tg]) 0 .run (env 20) (runHist Cfg.fixed hId (pj [tg]) [w0, .op (.write 1 [9] 10)] State.empty).1).2.skipped = true ∧
    (runHist Cfg.fixed hId (pj [tg]) [w0, .op (.write 1 [9] 10), run 0 20] State.empty).1.marks = [] := by decide

/-- (open, same root) the generates file is rewritten by something else (another task, an editor)
after the source was edited. -/
theorem C04_counterexample_timestamp_generates_by_others :
    Bad Cfg.fixed (pj [tg]) [w0, run 0 10, .op (.write 0 [2] 15), .op (.write 1 [7] 17)] 0 tg := by decide

theorem C04_full_false : ¬ C04_full Cfg.fixed := by
  intro h
  have hb := C04_counterexample_kill
  have := h hId _ _ 0 _ (env 99) hb.1 hb.2.1 hb.2.2.1
  rw [hb.2.2.2] at this
  cases this

/-! ## The partial theorem -/

section
variable (H : Hashes) (pr : Proj)

/-- pairwise distinct checksum file names among the checksum tasks -/
def KeysDistinct (pr : Proj) : Prop :=
  ∀ (i j : Nat) (ti tj : Task), pr.tasks[i]? = some ti → pr.tasks[j]? = some tj → Cs ti → Cs tj →
    sumKey ti = sumKey tj → i = j

/-- the task names of the table are pairwise distinct — true of every table the loader produces (a
second definition of a name is a load error, C08).  It is ALL that is left of the hypothesis of
`C04_partial` after fix N (names that merely normalise alike have distinct files) and fix F8A (the
checksum file is a function of task name AND label: equal labels, or a label equal to another
task's name, no longer share a file), and all that is left of `TsKeysDistinct`: the marker is named
after the task name, and `stateKey` is injective -/
def NamesDistinct (pr : Proj) : Prop :=
  ∀ (i j : Nat) (ti tj : Task), pr.tasks[i]? = some ti → pr.tasks[j]? = some tj → ti.name = tj.name → i = j

theorem keysDistinct_of_names {pr : Proj} (h : NamesDistinct pr) : KeysDistinct pr :=
  fun i j ti tj hi hj _ _ hk => h i j ti tj hi hj (sumKey_inj hk).1

/-- steps of the histories covered: any file operation; any invocation (every mode, prompt
answered yes or declined, any command failing) during which the process is not killed -/
def Allowed : Step → Prop
  | .op _ => True
  | .inv _ _ e => e.killAt = none

/-- the invariant: a stored checksum `h` of a checksum task means the last attempt at that task
with fingerprint `h` succeeded -/
def Inv (pr : Proj) (s : State) : Prop :=
  ∀ (i : Nat) (t : Task) (h : Bytes), pr.tasks[i]? = some t → Cs t → aget s.sums (sumKey t) = some h →
    ∃ a, lastAtt (fun a => decide (a.task = i ∧ a.fp = h)) s.log = some a ∧ a.ok = true

theorem inv_empty : Inv pr State.empty := by
  intro i t h _ _ hget
  simp [State.empty] at hget

/-- one logged attempt at task `j` together with the matching change of the store keeps `Inv` -/
theorem inv_of_effect (hd : KeysDistinct pr) {s s' : State} (hinv : Inv pr s) {j : Nat} {tj : Task}
    (htj : pr.tasks[j]? = some tj) (fp : Bytes) (now : Nat) (ok : Bool)
    {src : List (Bytes × Bytes)} (hlog : s'.log = s.log ++ [⟨j, fp, now, ok, src⟩])
    (hother : ∀ x, (Cs tj → x ≠ sumKey tj) → aget s'.sums x = aget s.sums x)
    (hkey : Cs tj → (ok = true ∧ (aget s'.sums (sumKey tj) = some fp ∨ aget s'.sums (sumKey tj) = aget s.sums (sumKey tj))) ∨
                    (ok = false ∧ aget s'.sums (sumKey tj) = none)) :
    Inv pr s' := by
  intro i t h hti hcs hget
  rw [hlog, lastAtt_append]
  by_cases hij : i = j
  · subst hij
    have htt : t = tj := by rw [hti] at htj; exact Option.some.inj htj
    subst htt
    rcases hkey hcs with ⟨hok, hk⟩ | ⟨_, hk⟩
    · subst hok
      by_cases hfp : fp = h
      · subst hfp; simp
      · have hfp' : ¬ (fp = h) := hfp
        simp only [hfp', and_false, decide_false, Bool.false_eq_true, if_false]
        rcases hk with hk | hk
        · rw [hk] at hget; exact absurd (Option.some.inj hget) hfp
        · rw [hk] at hget; exact hinv i t h hti hcs hget
    · rw [hk] at hget; cases hget
  · have hji : ¬ (j = i) := fun e => hij e.symm
    simp only [hji, false_and, decide_false, Bool.false_eq_true, if_false]
    have hne : Cs tj → sumKey t ≠ sumKey tj := fun hcj e => hij (hd i j t tj hti htj hcs hcj e)
    rw [hother _ hne] at hget
    exact hinv i t h hti hcs hget

/-- an invocation of task `j` that logs no attempt and leaves no checksum entry for it (a run
cancelled at the prompt) keeps `Inv` -/
theorem inv_of_cancel (hd : KeysDistinct pr) {s s' : State} (hinv : Inv pr s) {j : Nat} {tj : Task}
    (htj : pr.tasks[j]? = some tj) (hlog : s'.log = s.log)
    (hother : ∀ x, (Cs tj → x ≠ sumKey tj) → aget s'.sums x = aget s.sums x)
    (hkey : Cs tj → aget s'.sums (sumKey tj) = none) : Inv pr s' := by
  intro i t h hti hcs hget
  rw [hlog]
  by_cases hij : i = j
  · subst hij
    have htt : t = tj := by rw [hti] at htj; exact Option.some.inj htj
    subst htt
    rw [hkey hcs] at hget; cases hget
  · have hne : Cs tj → sumKey t ≠ sumKey tj := fun hcj e => hij (hd i j t tj hti htj hcs hcj e)
    rw [hother _ hne] at hget
    exact hinv i t h hti hcs hget

/-- every allowed step keeps the invariant -/
theorem inv_step (hd : KeysDistinct pr) (st : Step) (s : State) (ha : Allowed st) (hinv : Inv pr s) :
    Inv pr (step Cfg.fixed H pr st s).1 := by
  cases st with
  | op o =>
    have hf := applyOp_fields pr o s
    intro i t h hti hcs hget
    simp only [step] at hget ⊢
    rw [hf.1] at hget
    rw [hf.2.1]
    exact hinv i t h hti hcs hget
  | inv j m e =>
    have hk : e.killAt = none := ha
    simp only [step]
    by_cases hro : m.readOnly = true
    · rw [(invoke_readOnly Cfg.fixed H pr rfl rfl rfl j m e s hro).1]; exact hinv
    · cases htj : pr.tasks[j]? with
      | none =>
        have : (invoke Cfg.fixed H pr j m e s).1 = s := by
          cases m <;> simp [Mode.readOnly] at hro <;> simp [invoke, htj]
        rw [this]; exact hinv
      | some tj =>
        by_cases hdec : Declined tj e
        · -- cancelled at the prompt: `statusOnError`, no attempt
          cases m with
          | force =>
            obtain ⟨hclog, _, hcother, _⟩ := forceStart_effect H pr tj e s
            rw [invoke_force Cfg.fixed H pr htj, runBody_declined Cfg.fixed H pr j tj e _ hdec]
            apply inv_of_cancel pr hd hinv htj (by rw [onError_log, hclog])
            · intro x hx
              rw [onError_sums]
              by_cases hcs : Cs tj
              · rw [if_pos hcs, aget_adel_ne _ (fun e => hx hcs e.symm)]; exact hcother x hx
              · rw [if_neg hcs]; exact hcother x hx
            · intro hcs
              rw [onError_sums, if_pos hcs]; simp
          | run =>
            cases hce : checkErr tj e s.files with
            | true => rw [invoke_run_err Cfg.fixed H pr htj e s hce]; exact hinv
            | false =>
            rw [invoke_run Cfg.fixed H pr htj e s hce]
            obtain ⟨hclog, _, hcother, _, hcskip⟩ := isUpToDate_effect H pr tj e.now s
            split
            · rename_i hup
              intro i t h hti hcs hget
              simp only at hget ⊢
              rw [hcskip (and_left_true hup)] at hget
              rw [hclog]
              exact hinv i t h hti hcs hget
            · rw [runBody_declined Cfg.fixed H pr j tj e _ hdec]
              apply inv_of_cancel pr hd hinv htj (by rw [onError_log, hclog])
              · intro x hx
                rw [onError_sums]
                by_cases hcs : Cs tj
                · rw [if_pos hcs, aget_adel_ne _ (fun e => hx hcs e.symm)]; exact hcother x hx
                · rw [if_neg hcs]; exact hcother x hx
              · intro hcs
                rw [onError_sums, if_pos hcs]; simp
          | dry => simp [Mode.readOnly] at hro
          | status => simp [Mode.readOnly] at hro
          | listJson => simp [Mode.readOnly] at hro
          | list => simp [Mode.readOnly] at hro
          | summary => simp [Mode.readOnly] at hro
        have hpass : Passes tj e := passes_of_not_declined hk hdec
        cases m with
        | force =>
          rw [invoke_force Cfg.fixed H pr htj]
          obtain ⟨hclog, hcfiles, hcother, hckey⟩ := forceStart_effect H pr tj e s
          obtain ⟨ok, hlog, hok, hfail⟩ :=
            runBody_effect Cfg.fixed H pr j tj e (forceStart H pr tj e s) hpass
          rw [hclog, hcfiles] at hlog
          apply inv_of_effect pr hd hinv htj _ _ ok hlog
          · intro x hx
            cases ok with
            | true => rw [(hok rfl).1]; exact hcother x hx
            | false =>
              rw [(hfail rfl).1]
              by_cases hcs : Cs tj
              · rw [if_pos hcs, aget_adel_ne _ (fun e => hx hcs e.symm)]; exact hcother x hx
              · rw [if_neg hcs]; exact hcother x hx
          · intro hcs
            cases ok with
            | true => exact Or.inl ⟨rfl, by rw [(hok rfl).1]; exact hckey hcs⟩
            | false => exact Or.inr ⟨rfl, by rw [(hfail rfl).1, if_pos hcs]; simp⟩
        | run =>
          cases hce : checkErr tj e s.files with
          | true => rw [invoke_run_err Cfg.fixed H pr htj e s hce]; exact hinv
          | false =>
          rw [invoke_run Cfg.fixed H pr htj e s hce]
          obtain ⟨hclog, hcfiles, hcother, hckey, hcskip⟩ := isUpToDate_effect H pr tj e.now s
          split
          · rename_i hup
            intro i t h hti hcs hget
            simp only at hget ⊢
            rw [hcskip (and_left_true hup)] at hget
            rw [hclog]
            exact hinv i t h hti hcs hget
          · obtain ⟨ok, hlog, hok, hfail⟩ :=
              runBody_effect Cfg.fixed H pr j tj e (isUpToDate H pr tj false e.now s).1 hpass
            rw [hclog, hcfiles] at hlog
            apply inv_of_effect pr hd hinv htj _ _ ok hlog
            · intro x hx
              cases ok with
              | true => rw [(hok rfl).1]; exact hcother x hx
              | false =>
                rw [(hfail rfl).1]
                by_cases hcs : Cs tj
                · rw [if_pos hcs, aget_adel_ne _ (fun e => hx hcs e.symm)]; exact hcother x hx
                · rw [if_neg hcs]; exact hcother x hx
            · intro hcs
              cases ok with
              | true => exact Or.inl ⟨rfl, Or.inl (by rw [(hok rfl).1]; exact hckey hcs)⟩
              | false => exact Or.inr ⟨rfl, by rw [(hfail rfl).1, if_pos hcs]; simp⟩
        | dry => simp [Mode.readOnly] at hro
        | status => simp [Mode.readOnly] at hro
        | listJson => simp [Mode.readOnly] at hro
        | list => simp [Mode.readOnly] at hro
        | summary => simp [Mode.readOnly] at hro

/-- … hence every allowed history does -/
theorem inv_hist (hd : KeysDistinct pr) (hist : List Step) (s : State) (ha : ∀ st ∈ hist, Allowed st)
    (hinv : Inv pr s) : Inv pr (runHist Cfg.fixed H pr hist s).1 := by
  induction hist generalizing s with
  | nil => exact hinv
  | cons st rest ih =>
    simp only [runHist]
    exact ih _ (fun x hx => ha x (by simp [hx])) (inv_step H pr hd st s (ha st (by simp)) hinv)

/-- **C04_partial**: for a task fingerprinted with method checksum, in a project whose tasks have
pairwise distinct names — every project; labels may coincide with each other and with task names
(fix F8A), names may normalise alike (fix N) —, after ANY history of allowed steps (no bound on its length;
since F31 this includes runs cancelled at the prompt): if a run reports the task up to date then
`goodRun` holds. -/
theorem C04_partial (hd : NamesDistinct pr) (hist : List Step) (ha : ∀ st ∈ hist, Allowed st)
    (i : Nat) (t : Task) (e : Env) (ht : pr.tasks[i]? = some t) (hm : t.method = .checksum)
    (hsrc : t.sources.isEmpty = false)
    (hskip : (invoke Cfg.fixed H pr i .run e (runHist Cfg.fixed H pr hist State.empty).1).2.skipped = true) :
    goodRun H pr i t (runHist Cfg.fixed H pr hist State.empty).1 = true := by
  have hinv := inv_hist H pr (keysDistinct_of_names hd) hist State.empty ha (inv_empty pr)
  generalize (runHist Cfg.fixed H pr hist State.empty).1 = s at *
  have hup := run_skipped Cfg.fixed H pr ht e s hskip
  rw [isUpToDate_sources H pr hsrc] at hup
  have hsum : (sumCheck H pr t false s).2 = true := by
    simp only [srcCheck, hm] at hup
    cases hst : t.status.isEmpty <;> simp [hst] at hup <;> simp [hup]
  rw [sumCheck_result] at hsum
  simp only [Bool.and_eq_true, decide_eq_true_eq] at hsum
  obtain ⟨a, ha1, ha2⟩ := hinv i t _ ht ⟨hm, hsrc⟩ hsum.2
  unfold goodRun
  simp only [hm, hsum.1, ha1, ha2, Bool.and_self]

/-- the core of `C04_partial`, for the VERDICT of the check (whatever mode asked for it) -/
theorem C04_partial_verdict (hd : NamesDistinct pr) (hist : List Step) (ha : ∀ st ∈ hist, Allowed st)
    (i : Nat) (t : Task) (now : Nat) (dry : Bool) (ht : pr.tasks[i]? = some t) (hm : t.method = .checksum)
    (hsrc : t.sources.isEmpty = false)
    (hv : (isUpToDate H pr t dry now (runHist Cfg.fixed H pr hist State.empty).1).2 = true) :
    goodRun H pr i t (runHist Cfg.fixed H pr hist State.empty).1 = true := by
  have hinv := inv_hist H pr (keysDistinct_of_names hd) hist State.empty ha (inv_empty pr)
  generalize (runHist Cfg.fixed H pr hist State.empty).1 = s at *
  have hup : (isUpToDate H pr t false now s).2 = true := by
    cases dry with
    | false => exact hv
    | true => rw [← isUpToDate_verdict_dry]; exact hv
  rw [isUpToDate_sources H pr hsrc] at hup
  have hsum : (sumCheck H pr t false s).2 = true := by
    simp only [srcCheck, hm] at hup
    cases hst : t.status.isEmpty <;> simp [hst] at hup <;> simp [hup]
  rw [sumCheck_result] at hsum
  simp only [Bool.and_eq_true, decide_eq_true_eq] at hsum
  obtain ⟨a, ha1, ha2⟩ := hinv i t _ ht ⟨hm, hsrc⟩ hsum.2
  unfold goodRun
  simp only [hm, hsum.1, ha1, ha2, Bool.and_self]

/-- **the query modes are as sound as a run** (the verdict is mode-independent:
`isUpToDate_verdict_dry`): after any allowed history, `--status` exiting 0, `--dry` reporting "up to
date" and an `up_to_date: true` of `--list --json` each imply `goodRun`. -/
theorem C04_partial_queries (hd : NamesDistinct pr) (hist : List Step) (ha : ∀ st ∈ hist, Allowed st)
    (i : Nat) (t : Task) (e : Env) (ht : pr.tasks[i]? = some t) (hm : t.method = .checksum)
    (hsrc : t.sources.isEmpty = false) :
    ((invoke Cfg.fixed H pr i .status e (runHist Cfg.fixed H pr hist State.empty).1).2.exit = .ok →
      goodRun H pr i t (runHist Cfg.fixed H pr hist State.empty).1 = true) ∧
    ((invoke Cfg.fixed H pr i .dry e (runHist Cfg.fixed H pr hist State.empty).1).2.skipped = true →
      goodRun H pr i t (runHist Cfg.fixed H pr hist State.empty).1 = true) ∧
    ((invoke Cfg.fixed H pr i .listJson e (runHist Cfg.fixed H pr hist State.empty).1).2.bits[i]? = some true →
      goodRun H pr i t (runHist Cfg.fixed H pr hist State.empty).1 = true) := by
  have key := fun hv => C04_partial_verdict H pr hd hist ha i t e.now true ht hm hsrc hv
  generalize (runHist Cfg.fixed H pr hist State.empty).1 = s at *
  refine ⟨?_, ?_, ?_⟩
  · intro h
    simp only [invoke, ht] at h
    split at h
    · cases h
    · apply key
      cases hv : (isUpToDate H pr t true e.now s).2 with
      | true => rfl
      | false => simp [hv] at h
  · intro h
    simp only [invoke, ht] at h
    split at h
    · cases h
    · apply key
      cases hv : (isUpToDate H pr t true e.now s).2 with
      | true => rfl
      | false =>
        simp only [hv, Bool.false_eq_true, if_false] at h
        rw [runBody_skipped] at h; cases h
  · intro h
    simp only [invoke] at h
    split at h
    · simp at h
    · apply key
      simp only [listJson_bits Cfg.fixed H pr rfl, List.nil_append] at h
      rw [List.getElem?_map, ht] at h
      simpa using h

/-! ## The conclusion in terms of names and contents (ghost `Attempt.src`) -/

/-- every logged attempt carries the fingerprint OF its ghost source list -/
def LogOk (H : Hashes) (s : State) : Prop := ∀ a ∈ s.log, a.fp = fpOfList H a.src

theorem logOk_hist (hist : List Step) (s : State) (h : LogOk H s) : LogOk H (runHist Cfg.fixed H pr hist s).1 := by
  induction hist generalizing s with
  | nil => exact h
  | cons st rest ih =>
    simp only [runHist]
    apply ih
    cases st with
    | op o =>
      intro a ha
      simp only [step, (applyOp_fields pr o s).2.1] at ha
      exact h a ha
    | inv j m e =>
      intro a ha
      simp only [step] at ha
      rcases invoke_log_src H pr j m e s with hl | ⟨b, hl, hb⟩
      · rw [hl] at ha; exact h a ha
      · rw [hl, List.mem_append, List.mem_singleton] at ha
        rcases ha with ha | ha
        · exact h a ha
        · rw [ha]; exact hb

theorem lastAtt_congr (p q : Attempt → Bool) : ∀ (l : List Attempt), (∀ a ∈ l, p a = q a) → lastAtt p l = lastAtt q l
  | [], _ => rfl
  | a :: l, h => by
    simp only [lastAtt]
    rw [lastAtt_congr p q l (fun x hx => h x (by simp [hx])), h a (by simp)]

/-- the explicit hypothesis about the uninterpreted hashes: the checksum of the PRESENT sources of `t`
collides with that of no logged attempt at `t` (for each such pair: `FpInj`) -/
def NoCollision (H : Hashes) (pr : Proj) (i : Nat) (t : Task) (s : State) : Prop :=
  ∀ a ∈ s.log, a.task = i → fpOfList H a.src = fpOfList H (srcList pr t s.files) →
    flatL a.src = flatL (srcList pr t s.files) ∧ lensL a.src = lensL (srcList pr t s.files)

/-- **C04_partial, stated for names and contents**: `C04_partial` compares FINGERPRINTS, so it would
also hold for a hash that maps everything to one value.  With the ghost source list of every attempt
(`Attempt.src`), the injective encoding of F8B (`flatL_lensL_inj`) and "no collision" as an explicit
hypothesis, the conclusion is the property's own: if a run reports the task up to date, then the MOST
RECENT ATTEMPT AT ITS COMMANDS FOR THE PRESENT (names, contents) OF ITS SOURCES ran them all
successfully, and the generates exist. -/
theorem C04_partial_src (hd : NamesDistinct pr) (hist : List Step) (ha : ∀ st ∈ hist, Allowed st)
    (i : Nat) (t : Task) (e : Env) (ht : pr.tasks[i]? = some t) (hm : t.method = .checksum)
    (hsrc : t.sources.isEmpty = false)
    (hnc : NoCollision H pr i t (runHist Cfg.fixed H pr hist State.empty).1)
    (hskip : (invoke Cfg.fixed H pr i .run e (runHist Cfg.fixed H pr hist State.empty).1).2.skipped = true) :
    goodRunSrc pr i t (runHist Cfg.fixed H pr hist State.empty).1 = true := by
  have hgood := C04_partial H pr hd hist ha i t e ht hm hsrc hskip
  have hlog := logOk_hist H pr hist State.empty (by intro a ha; simp [State.empty] at ha)
  generalize (runHist Cfg.fixed H pr hist State.empty).1 = s at *
  have hcongr : lastAtt (fun a => decide (a.task = i ∧ a.fp = fpNow H pr t s.files)) s.log =
      lastAtt (fun a => decide (a.task = i ∧ a.src = srcList pr t s.files)) s.log := by
    apply lastAtt_congr
    intro a hmem
    by_cases hti : a.task = i
    · have hfp := hlog a hmem
      by_cases hs : a.src = srcList pr t s.files
      · have : a.fp = fpNow H pr t s.files := by rw [hfp, hs, fpNow_eq_fpOfList]
        simp [hti, hs, this]
      · have : ¬ a.fp = fpNow H pr t s.files := by
          intro hc
          rw [hfp, fpNow_eq_fpOfList] at hc
          have := hnc a hmem hti hc
          exact hs (flatL_lensL_inj _ _ this.1 this.2)
        simp [hti, hs, this]
    · simp [hti]
  unfold goodRun at hgood
  unfold goodRunSrc
  simp only [hm] at hgood
  rw [← hcongr]
  exact hgood

/-- non-vacuity: the history of the example above; the hashes `hId`; no collision; the task is skipped
and the last attempt for the present names and contents succeeded -/
example :
    let t := mk [97, 45, 98] .checksum false 2
    let pr := pj [t, mk [97, 58, 98] .checksum true 1]
    let hist : List Step := [w0, .inv 0 .run { env 10 with failAt := some 1 }, .inv 0 .dry (env 20), run 0 50, .op (.touch 0 70)]
    let s := (runHist Cfg.fixed hId pr hist State.empty).1
    (invoke Cfg.fixed hId pr 0 .run (env 99) s).2.skipped = true ∧ goodRunSrc pr 0 t s = true ∧
    (∀ a ∈ s.log, a.task = 0 → fpOfList hId a.src = fpOfList hId (srcList pr t s.files) →
      flatL a.src = flatL (srcList pr t s.files) ∧ lensL a.src = lensL (srcList pr t s.files)) := by
  refine ⟨by decide, by decide, ?_⟩
  decide

/-- **why the ghost is needed**: with a CONSTANT hash `C04_partial`'s conclusion says nothing about
contents — after a successful run and an edit the task is skipped, `goodRun` (fingerprints equal: both
are the constant) holds, while `goodRunSrc` is false: no attempt was made for the present contents.
(`NoCollision` fails for that hash, as it must.) -/
theorem C04_constant_hash_vacuous :
    let Hc : Hashes := ⟨fun _ => [], fun _ => []⟩
    let t := mk [120] .checksum false 1
    let s := (runHist Cfg.fixed Hc (pj [t]) [w0, run 0 10, .op (.write 0 [2] 15)] State.empty).1
    (invoke Cfg.fixed Hc (pj [t]) 0 .run (env 99) s).2.skipped = true ∧ goodRun Hc (pj [t]) 0 t s = true ∧
    goodRunSrc (pj [t]) 0 t s = false := by decide

/-! ## The declined prompt (F31) -/

/-- **a declined prompt leaves no checksum entry**: a run of a checksum task that is not up to
date and is cancelled at the prompt exits `cancelled`, starts no command, logs no attempt, and
the checksum the check had recorded is gone again (any wiring, any state, any hash). -/
theorem C04_prompt_declined_no_entry (cfg : Cfg) {i : Nat} {t : Task} (ht : pr.tasks[i]? = some t) (hcs : Cs t)
    (e : Env) (hg : e.gset = true) (s : State) (hdec : Declined t e) (hns : (invoke cfg H pr i .run e s).2.skipped = false) :
    aget (invoke cfg H pr i .run e s).1.sums (sumKey t) = none ∧
    (invoke cfg H pr i .run e s).2.exit = .cancelled ∧ (invoke cfg H pr i .run e s).2.ran = [] ∧
    (invoke cfg H pr i .run e s).1.log = s.log := by
  rw [invoke_run cfg H pr ht e s (checkErr_gset t e s.files hg)] at hns ⊢
  by_cases hup : ((isUpToDate H pr t false e.now s).2 && !interrupted t e) = true
  · rw [if_pos hup] at hns; cases hns
  · rw [if_neg hup, runBody_declined cfg H pr i t e _ hdec]
    refine ⟨?_, rfl, rfl, ?_⟩
    · simp only [onError_sums, if_pos hcs]; simp
    · simp only [onError_log]; exact (isUpToDate_effect H pr t e.now s).1

/-- … so **the next run is not skipped** on account of the cancelled one. -/
theorem C04_prompt_declined_next_runs (cfg : Cfg) {i : Nat} {t : Task} (ht : pr.tasks[i]? = some t) (hcs : Cs t)
    (e e2 : Env) (hg : e.gset = true) (s : State) (hdec : Declined t e) (hns : (invoke cfg H pr i .run e s).2.skipped = false) :
    (invoke cfg H pr i .run e2 (invoke cfg H pr i .run e s).1).2.skipped = false := by
  have hnone := (C04_prompt_declined_no_entry H pr cfg ht hcs e hg s hdec hns).1
  generalize (invoke cfg H pr i .run e s).1 = s1 at hnone
  cases hsk : (invoke cfg H pr i .run e2 s1).2.skipped with
  | false => rfl
  | true =>
    have hup := run_skipped cfg H pr ht e2 s1 hsk
    rw [isUpToDate_sources H pr hcs.2] at hup
    have hsum : (sumCheck H pr t false s1).2 = true := by
      simp only [srcCheck, hcs.1] at hup
      cases hst : t.status.isEmpty <;> simp [hst] at hup <;> simp [hup]
    rw [sumCheck_result, hnone] at hsum
    simp at hsum

/-! ## A run cancelled by a failing sibling (`Env.cancelled`) -/

/-- **cancelled between the check and the first command**: a task with `status:` commands that runs
as a dependency next to a sibling which fails while those commands run — they are interrupted, the
sources checker has ALREADY written the new checksum, the cancelled context refuses the first command
— goes through `statusOnError` like any failing command: the run exits `failed`, no command started,
one attempt is logged as NOT ok, and the checksum the check had recorded is gone again (any wiring,
any state, any hash).  (A tree that returns the context's error before the command loop — without the
clean-up — keeps the entry: the next run would skip a task whose commands never ran.) -/
theorem C04_sibling_cancelled_no_entry (cfg : Cfg) {i : Nat} {t : Task} (ht : pr.tasks[i]? = some t) (hcs : Cs t)
    (e : Env) (hg : e.gset = true) (s : State) (hcan : e.cancelled = true) (hst : t.status.isEmpty = false) (hcmds : t.cmds ≠ [])
    (hp : t.prompt = false ∨ e.yes = true) :
    aget (invoke cfg H pr i .run e s).1.sums (sumKey t) = none ∧
    (invoke cfg H pr i .run e s).2.exit = .failed ∧ (invoke cfg H pr i .run e s).2.ran = [] ∧
    (invoke cfg H pr i .run e s).2.skipped = false ∧
    (invoke cfg H pr i .run e s).1.log = s.log ++ [⟨i, fpNow H pr t s.files, e.now, false, srcList pr t s.files⟩] := by
  have hint : interrupted t e = true := by simp [interrupted, hcan, hst]
  rw [invoke_run cfg H pr ht e s (checkErr_gset t e s.files hg)]
  simp only [hint, Bool.not_true, Bool.and_false, Bool.false_eq_true, if_false]
  have hcond : (t.prompt && !false && !e.yes) = false := by
    rcases hp with h | h <;> simp [h]
  obtain ⟨hclog, hcfiles, _, _, _⟩ := isUpToDate_effect H pr t e.now s
  have hmk := mkdirTask_fields t (isUpToDate H pr t false e.now s).1
  cases hc : t.cmds with
  | nil => exact absurd hc hcmds
  | cons c cs =>
    unfold runBody
    simp only [hcond, Bool.false_eq_true, if_false, hc, cmdLoop, hcan, if_true]
    refine ⟨?_, trivial, trivial, trivial, ?_⟩
    · simp only [onError_sums, if_pos hcs]; simp
    · simp only [onError_log]
      simp [hmk.1, hmk.2.2.1, hclog, hcfiles]

/-- the history of the directed stream — source in place, status file in place, the run is cancelled
by its sibling — is not bad: the next run is NOT skipped, and `goodRun` is false (the one attempt
failed) -/
theorem C04_sibling_cancelled_not_bad :
    let t : Task := { mk [120] .checksum false 1 with status := [1] }
    let hist : List Step := [w0, .op (.write 1 [1] 6), .inv 0 .run { env 10 with cancelled := true }]
    ¬ Bad Cfg.fixed (pj [t]) hist 0 t ∧
    (invoke Cfg.fixed hId (pj [t]) 0 .run (env 99) (runHist Cfg.fixed hId (pj [t]) hist State.empty).1).2.skipped = false ∧
    (runHist Cfg.fixed hId (pj [t]) hist State.empty).1.sums = [] ∧
    goodRun hId (pj [t]) 0 t (runHist Cfg.fixed hId (pj [t]) hist State.empty).1 = false ∧
    -- … and the same for method timestamp (the marker is removed again)
    (let tt : Task := { mk [120] .timestamp false 1 with status := [1] }
     (runHist Cfg.fixed hId (pj [tt]) hist State.empty).1.marks = [] ∧
     (invoke Cfg.fixed hId (pj [tt]) 0 .run (env 99) (runHist Cfg.fixed hId (pj [tt]) hist State.empty).1).2.skipped = false) := by
  decide

/-! ## Two activations of one task in one invocation (`Env.twin`, open finding) -/

/-- the property for a second activation: it is reported up to date only if `goodRun` holds of the
state the invocation started from -/
def C04_concurrent : Prop :=
  ∀ (H : Hashes) (pr : Proj) (hist : List Step) (i : Nat) (t : Task) (e : Env),
    pr.tasks[i]? = some t → t.sources.isEmpty = false →
    twinUp H pr i e (runHist Cfg.fixed H pr hist State.empty).1 = true →
    goodRun H pr i t (runHist Cfg.fixed H pr hist State.empty).1 = true

/-- **(open, the root of the kill finding without any kill)** the task has never run; it is activated
twice in one invocation: the first activation's check records the fingerprint and its commands start
— and the second activation, checking meanwhile, is reported UP TO DATE (both methods) -/
theorem C04_counterexample_concurrent :
    let e : Env := { env 10 with twin := true }
    (let t := mk [120] .checksum false 2
     let s := (runHist Cfg.fixed hId (pj [t]) [w0] State.empty).1
     twinUp hId (pj [t]) 0 e s = true ∧ goodRun hId (pj [t]) 0 t s = false ∧
     (invoke Cfg.fixed hId (pj [t]) 0 .run e s).2.ran = [0, 1] ∧ (invoke Cfg.fixed hId (pj [t]) 0 .run e s).2.skipped = false) ∧
    (let t := mk [120] .timestamp false 2
     let s := (runHist Cfg.fixed hId (pj [t]) [w0] State.empty).1
     twinUp hId (pj [t]) 0 e s = true ∧ goodRun hId (pj [t]) 0 t s = false) := by decide

theorem C04_concurrent_false : ¬ C04_concurrent := by
  intro h
  have hc := C04_counterexample_concurrent.1
  have := h hId (pj [mk [120] .checksum false 2]) [w0] 0 _ { env 10 with twin := true } rfl (by decide) hc.1
  rw [hc.2.1] at this
  cases this

/-- **why** (method checksum): the first activation's non-dry check leaves the present fingerprint in
the store (`sumCheck_stored`), so a second check on that state — files untouched: the first is still
inside its first command — finds it: for a task without `status:` and `generates:` the second
activation is reported up to date WHENEVER the first one runs. -/
theorem C04_concurrent_root {i : Nat} {t : Task} (ht : pr.tasks[i]? = some t) (hcs : Cs t)
    (hst : t.status.isEmpty = true) (hgen : t.generates = []) (e : Env) (s : State) (htw : e.twin = true)
    (hg : e.gset = true) (hp : t.prompt = false ∨ e.yes = true) (hcm : t.cmds ≠ [])
    (hno : (isUpToDate H pr t false e.now s).2 = false) :
    twinUp H pr i e s = true := by
  have hcond : (t.prompt && !e.yes) = false := by rcases hp with h | h <;> simp [h]
  have hce : checkErr t e s.files = false := checkErr_gset t e s.files hg
  have hne : t.cmds.isEmpty = false := by cases hc : t.cmds with | nil => exact absurd hc hcm | cons _ _ => rfl
  have hstored : aget (isUpToDate H pr t false e.now s).1.sums (sumKey t) = some (fpNow H pr t s.files) :=
    (isUpToDate_effect H pr t e.now s).2.2.2.1 hcs
  have hfiles : (isUpToDate H pr t false e.now s).1.files = s.files := (isUpToDate_effect H pr t e.now s).2.1
  have h2 : (isUpToDate H pr t false e.now (isUpToDate H pr t false e.now s).1).2 = true := by
    rw [isUpToDate_sources H pr hcs.2]
    simp only [srcCheck, hcs.1, sumCheck_result, hfiles, hstored, hst, if_true, decide_true, Bool.and_true]
    simp [gensOk, hgen]
  simp only [twinUp, ht, htw, hce, hno, hcond, hne, h2]
  simp

/-! ## An error of the up-to-date check (F8D) -/

/-- **a check that ends in an error leaves nothing behind**: when a `generates` entry cannot be
expanded (`${G:?}…` while `G` is not set — `checkErr`), the run exits with the error of the check
(`checkError`), starts no command, logs no attempt, and — F8D: the entries are looked at BEFORE the
checksum is recorded — the state is exactly what it was. -/
theorem C04_check_error_leaves_nothing (cfg : Cfg) {i : Nat} {t : Task} (ht : pr.tasks[i]? = some t)
    (e : Env) (s : State) (hce : checkErr t e s.files = true) :
    (invoke cfg H pr i .run e s).1 = s ∧ (invoke cfg H pr i .run e s).2.exit = .checkError ∧
    (invoke cfg H pr i .run e s).2.ran = [] ∧ (invoke cfg H pr i .run e s).2.skipped = false := by
  rw [invoke_run_err cfg H pr ht e s hce]
  exact ⟨rfl, rfl, rfl, rfl⟩

/- sources `[0]`, generates `[1]` written `${G:?}/…` -/
private def tGe : Task := { mk [120] .checksum false 1 with generates := [⟨false, [1]⟩], gguard := [0] }

/-- the former witness of D-C04-check-error: the generates file is in place, the run WITHOUT `G` ends
with the error of the check; with `G` set the next run is NOT skipped (and `checkErr` really holds in
the first run: non-vacuity of `C04_check_error_leaves_nothing`) -/
theorem C04_check_error_fixed :
    let hist : List Step := [w0, .op (.write 1 [7] 6), .inv 0 .run { env 10 with gset := false }]
    checkErr tGe { env 10 with gset := false } (runHist Cfg.fixed hId (pj [tGe]) [w0, .op (.write 1 [7] 6)] State.empty).1.files = true ∧
    ¬ Bad Cfg.fixed (pj [tGe]) hist 0 tGe ∧ (runHist Cfg.fixed hId (pj [tGe]) hist State.empty).1.sums = [] ∧
    (invoke Cfg.fixed hId (pj [tGe]) 0 .run (env 99) (runHist Cfg.fixed hId (pj [tGe]) hist State.empty).1).2.ran = [0] := by
  decide

/-- **HISTORICAL (before F8D — NOT the tree any more)**: the checksum had been recorded before the
entries were looked at; from THAT state (`sumCheck` applied) the next run, with `G` set, is skipped
although no command ever ran (`goodRun` is false) -/
theorem C04_check_error_old_rule :
    let s0 := (runHist Cfg.fixed hId (pj [tGe]) [w0, .op (.write 1 [7] 6)] State.empty).1
    let sOld := (sumCheck hId (pj [tGe]) tGe false s0).1
    (invoke Cfg.fixed hId (pj [tGe]) 0 .run (env 99) sOld).2.skipped = true ∧ goodRun hId (pj [tGe]) 0 tGe sOld = false := by
  decide

/-! ## Method timestamp after TS1–TS3: what is true now -/

/-- **a declined prompt leaves no marker** (TS3, analogue of `C04_prompt_declined_no_entry`): a run
of a timestamp task that is not up to date and is cancelled at the prompt exits `cancelled`, starts
no command, logs no attempt, and the marker the check had created/touched is gone again. -/
theorem C04_timestamp_declined_no_marker (cfg : Cfg) {i : Nat} {t : Task} (ht : pr.tasks[i]? = some t) (hts : Ts t)
    (e : Env) (s : State) (hdec : Declined t e) (hns : (invoke cfg H pr i .run e s).2.skipped = false) :
    aget (invoke cfg H pr i .run e s).1.marks (tsKey t) = none ∧
    (invoke cfg H pr i .run e s).2.exit = .cancelled ∧ (invoke cfg H pr i .run e s).2.ran = [] ∧
    (invoke cfg H pr i .run e s).1.log = s.log ∧ (invoke cfg H pr i .run e s).1.files = s.files := by
  rw [invoke_run cfg H pr ht e s (checkErr_timestamp e s.files hts.1)] at hns ⊢
  by_cases hup : ((isUpToDate H pr t false e.now s).2 && !interrupted t e) = true
  · rw [if_pos hup] at hns; cases hns
  · rw [if_neg hup, runBody_declined cfg H pr i t e _ hdec]
    refine ⟨?_, rfl, rfl, ?_, ?_⟩
    · simp only [onError_marks, if_pos hts]; simp
    · simp only [onError_log]; exact (isUpToDate_effect H pr t e.now s).1
    · simp only [(onError_files t _).1]; exact (isUpToDate_effect H pr t e.now s).2.1

/-- **a failed run leaves no marker** (TS3): a run or `--force` run of a timestamp task that exits
`failed` (a command failed) ends with the marker removed — whatever the check did before. -/
theorem C04_timestamp_failed_no_marker (cfg : Cfg) {i : Nat} {t : Task} (ht : pr.tasks[i]? = some t) (hts : Ts t)
    (m : Mode) (hm : m = .run ∨ m = .force) (e : Env) (s : State)
    (hf : (invoke cfg H pr i m e s).2.exit = .failed) :
    aget (invoke cfg H pr i m e s).1.marks (tsKey t) = none := by
  rcases hm with rfl | rfl
  · rw [invoke_run cfg H pr ht e s (checkErr_timestamp e s.files hts.1)] at hf ⊢
    by_cases hup : ((isUpToDate H pr t false e.now s).2 && !interrupted t e) = true
    · rw [if_pos hup] at hf; cases hf
    · rw [if_neg hup] at hf ⊢
      rw [runBody_failed_marks cfg H pr i t e _ hf, if_pos hts]; simp
  · rw [invoke_force cfg H pr ht] at hf ⊢
    rw [runBody_failed_marks cfg H pr i t e _ hf, if_pos hts]; simp

/-- **without a marker only the generates can vouch**: if no marker exists and the run is skipped,
some `generates` file exists and is at least as new as every source (and every entry matches). -/
theorem C04_timestamp_no_marker_skip_needs_generates (cfg : Cfg) {i : Nat} {t : Task} (ht : pr.tasks[i]? = some t)
    (hts : Ts t) (e : Env) (s : State) (hmk : aget s.marks (tsKey t) = none)
    (hsk : (invoke cfg H pr i .run e s).2.skipped = true) :
    globs (nowPats t.generates s.files) ≠ [] ∧ gensOk t s.files = true ∧
    ∀ p ∈ srcsNow t s.files,
      mtimeOf s.files p ≤ maxOf ((globs (nowPats t.generates s.files)).map (mtimeOf s.files)) := by
  have hup := tsUp_of_upToDate H pr hts false e.now s (run_skipped cfg H pr ht e s hsk)
  rw [tsUp_iff] at hup
  unfold tsGts at hup
  simp only [hmk, List.append_nil] at hup
  refine ⟨fun h => hup.1 (by simp [h]), hup.2.2, hup.2.1⟩

/-- … so **after a failed run or a declined prompt the next run is not skipped** unless a
`generates` file is there to vouch (`C04_counterexample_timestamp_failed_generates`). -/
theorem C04_timestamp_no_marker_next_runs (cfg : Cfg) {i : Nat} {t : Task} (ht : pr.tasks[i]? = some t)
    (hts : Ts t) (e : Env) (s : State) (hmk : aget s.marks (tsKey t) = none)
    (hng : globs (nowPats t.generates s.files) = []) :
    (invoke cfg H pr i .run e s).2.skipped = false := by
  cases hsk : (invoke cfg H pr i .run e s).2.skipped with
  | false => rfl
  | true => exact absurd hng (C04_timestamp_no_marker_skip_needs_generates H pr cfg ht hts e s hmk hsk).1

/-- the two together, for the declined prompt (the files are those of before) -/
theorem C04_timestamp_declined_next_runs (cfg : Cfg) {i : Nat} {t : Task} (ht : pr.tasks[i]? = some t) (hts : Ts t)
    (e e2 : Env) (s : State) (hdec : Declined t e) (hns : (invoke cfg H pr i .run e s).2.skipped = false)
    (hng : globs (nowPats t.generates s.files) = []) :
    (invoke cfg H pr i .run e2 (invoke cfg H pr i .run e s).1).2.skipped = false := by
  have h := C04_timestamp_declined_no_marker H pr cfg ht hts e s hdec hns
  exact C04_timestamp_no_marker_next_runs H pr cfg ht hts e2 _ h.1 (by rw [h.2.2.2.2]; exact hng)

/-- **skip ⇒ the generates exist** (TS1) -/
theorem C04_timestamp_skip_generates_exist (cfg : Cfg) {i : Nat} {t : Task} (ht : pr.tasks[i]? = some t) (hts : Ts t)
    (e : Env) (s : State) (hsk : (invoke cfg H pr i .run e s).2.skipped = true) : gensOk t s.files = true :=
  ((tsUp_iff t s).mp (tsUp_of_upToDate H pr hts false e.now s (run_skipped cfg H pr ht e s hsk))).2.2

/-- **an up-to-date check is pure** (TS2 + fix M): a run of a timestamp task that is reported up to
date changes NOTHING AT ALL — it neither moves the marker nor (fix M) creates one. -/
theorem C04_timestamp_uptodate_check_pure (cfg : Cfg) {i : Nat} {t : Task} (ht : pr.tasks[i]? = some t) (hts : Ts t)
    (e : Env) (s : State)
    (hsk : (invoke cfg H pr i .run e s).2.skipped = true) : (invoke cfg H pr i .run e s).1 = s := by
  have hup := run_skipped cfg H pr ht e s hsk
  have hts' := tsUp_of_upToDate H pr hts false e.now s hup
  rw [invoke_run cfg H pr ht e s (checkErr_timestamp e s.files hts.1), if_pos (run_skipped_cond cfg H pr ht e s hsk), isUpToDate_ts H pr hts]
  exact tsCheck_upToDate_pure t false e.now s (by rw [tsCheck_result]; exact hts')

/-- a sequence of runs of task `i` -/
def checks (i : Nat) (es : List Env) : List Step := es.map (fun e => Step.inv i .run e)

/-- every observation is "up to date" -/
def AllSkipped (obs : List (Option Obs)) : Prop :=
  obs.all (fun o => match o with | some ob => ob.skipped | none => false) = true

instance (obs : List (Option Obs)) : Decidable (AllSkipped obs) := by unfold AllSkipped; infer_instance

/-- … **however many of them**: any number of runs that are all reported up to date leave the state
(the marker) exactly as it was. -/
theorem C04_timestamp_checks_pure (cfg : Cfg) {i : Nat} {t : Task} (ht : pr.tasks[i]? = some t) (hts : Ts t)
    (es : List Env) (s : State)
    (hall : AllSkipped (runHist cfg H pr (checks i es) s).2) : (runHist cfg H pr (checks i es) s).1 = s := by
  induction es with
  | nil => rfl
  | cons e es ih =>
    simp only [checks, List.map_cons, runHist, step, AllSkipped, List.all_cons, Bool.and_eq_true] at hall ⊢
    have hpure := C04_timestamp_uptodate_check_pure H pr cfg ht hts e s hall.1
    rw [hpure] at hall ⊢
    exact ih hall.2

/-- **the marker is the time of the last run**: a run that the timestamp check itself asked for
(`tsUp = false`) and that was neither cancelled nor failed (it exits `ok`, or the process is killed)
leaves the marker at the time of that run. -/
theorem C04_timestamp_marker_is_last_run (cfg : Cfg) {i : Nat} {t : Task} (ht : pr.tasks[i]? = some t) (hts : Ts t)
    (e : Env) (s : State) (hno : tsUp t s = false)
    (h1 : (invoke cfg H pr i .run e s).2.exit ≠ .failed) (h2 : (invoke cfg H pr i .run e s).2.exit ≠ .cancelled) :
    aget (invoke cfg H pr i .run e s).1.marks (tsKey t) = some e.now := by
  have hup : ¬ (isUpToDate H pr t false e.now s).2 = true := fun h => by
    rw [tsUp_of_upToDate H pr hts false e.now s h] at hno; cases hno
  rw [invoke_run cfg H pr ht e s (checkErr_timestamp e s.files hts.1), if_neg (fun h => hup (and_left_true h))] at h1 h2 ⊢
  rw [runBody_marks_kept cfg H pr i t e _ h1 h2, isUpToDate_ts H pr hts]
  exact tsCheck_stored t e.now s (by rw [tsCheck_result]; exact hno)

/-- **an edit after the last run is detected, whatever was checked in between** (the precise
statement TS2 and fix M make true): let any number of runs happen that are all reported up to date,
then let a source `p` (matched by `t`'s `sources`) be written with an mtime `mt` that is newer than
the marker — the time of `t`'s last run — IF THERE IS ONE, and newer than every existing
`generates` file.  The next run is NOT skipped.  (Before TS2 the checks in between had moved the
marker past `mt`: `C04_timestamp_marker_moves_fixed`; before fix M they had created one at their
own time when there was none: `C04_timestamp_marker_created_fixed`.) -/
theorem C04_timestamp_edit_after_checks_detected (cfg : Cfg) {i : Nat} {t : Task} (ht : pr.tasks[i]? = some t)
    (hts : Ts t) (es : List Env) (s : State)
    (hall : AllSkipped (runHist cfg H pr (checks i es) s).2)
    (p : Path) (c : Bytes) (mt : Nat) (hp : lastFlag t.sources p = some true) (hpos : 0 < mt)
    (hmt : ∀ m, aget s.marks (tsKey t) = some m → m < mt)
    (hgen : ∀ g ∈ globs (nowPats t.generates (aset s.files p ⟨c, mt⟩)), mtimeOf (aset s.files p ⟨c, mt⟩) g < mt)
    (e : Env) :
    (invoke cfg H pr i .run e (applyOp pr (.write p c mt) (runHist cfg H pr (checks i es) s).1)).2.skipped = false := by
  rw [C04_timestamp_checks_pure H pr cfg ht hts es s hall]
  have hfiles : (applyOp pr (.write p c mt) s).files = aset s.files p ⟨c, mt⟩ := rfl
  have hmarks : (applyOp pr (.write p c mt) s).marks = s.marks := rfl
  generalize applyOp pr (.write p c mt) s = s' at hfiles hmarks
  have hmt' : mtimeOf s'.files p = mt := by rw [hfiles]; simp [mtimeOf]
  have hfalse : tsUp t s' = false := by
    apply tsUp_false_of_newer t s' p
    · rw [mem_srcsNow, hfiles, ahas_aset]; simp [hp]
    · intro x hx
      unfold tsGts at hx
      rw [hmarks, hfiles] at hx
      rw [hmt']
      simp only [List.mem_append, List.mem_map] at hx
      rcases hx with ⟨g, hg, rfl⟩ | hx
      · exact hgen g hg
      · cases hmk : aget s.marks (tsKey t) with
        | none => simp [hmk] at hx
        | some m => simp only [hmk, List.mem_singleton] at hx; subst hx; exact hmt _ hmk
    · rw [hmt']; exact hpos
  cases hsk : (invoke cfg H pr i .run e s').2.skipped with
  | false => rfl
  | true =>
    rw [tsUp_of_upToDate H pr hts false e.now s' (run_skipped cfg H pr ht e s' hsk)] at hfalse
    cases hfalse

/-! ## The partial theorem for method timestamp -/

/-- pairwise distinct marker names among the timestamp tasks -/
def TsKeysDistinct (pr : Proj) : Prop :=
  ∀ (i j : Nat) (ti tj : Task), pr.tasks[i]? = some ti → pr.tasks[j]? = some tj → Ts ti → Ts tj →
    tsKey ti = tsKey tj → i = j

theorem tsKeysDistinct_of_names {pr : Proj} (h : NamesDistinct pr) : TsKeysDistinct pr :=
  fun i j ti tj hi hj _ _ hk => h i j ti tj hi hj (tsKey_inj hk)

/-- the clock of the invocations does not run backwards (`c` = the time of the latest invocation
so far); file operations may carry any mtime -/
def clockOK : Nat → List Step → Bool
  | _, [] => true
  | c, .op _ :: r => clockOK c r
  | c, .inv _ _ e :: r => decide (c ≤ e.now) && clockOK e.now r

def ClockOK (c : Nat) (hist : List Step) : Prop := clockOK c hist = true

instance (c : Nat) (hist : List Step) : Decidable (ClockOK c hist) := by unfold ClockOK; infer_instance

/-- the invariant: a marker `m` of task `i` is not in the future, and the last attempt at `i`
succeeded, at a time ≥ `m` -/
def InvTs (i : Nat) (t : Task) (c : Nat) (s : State) : Prop :=
  ∀ m, aget s.marks (tsKey t) = some m →
    m ≤ c ∧ ∃ a, lastAtt (fun a => decide (a.task = i)) s.log = some a ∧ a.ok = true ∧ m ≤ a.time

theorem invTs_empty (i : Nat) (t : Task) (c : Nat) : InvTs i t c State.empty := by
  intro m hm; simp [State.empty] at hm

theorem invTs_mono {i : Nat} {t : Task} {c c' : Nat} {s : State} (h : InvTs i t c s) (hc : c ≤ c') : InvTs i t c' s := by
  intro m hm
  obtain ⟨h1, h2⟩ := h m hm
  exact ⟨Nat.le_trans h1 hc, h2⟩

/-- the body of an invocation of task `i` itself (no kill): afterwards either no marker is left
(cancelled, failed) or the attempt just logged succeeded at `e.now`, which no marker exceeds -/
theorem invTs_body {i : Nat} {t : Task} (hts : Ts t) (e : Env) (hk : e.killAt = none) (s1 : State)
    (hle : ∀ m, aget s1.marks (tsKey t) = some m → m ≤ e.now) :
    InvTs i t e.now (runBody Cfg.fixed H pr i t false e s1).1 := by
  by_cases hdec : Declined t e
  · rw [runBody_declined Cfg.fixed H pr i t e s1 hdec]
    intro m hm
    simp only [onError_marks, if_pos hts] at hm
    simp at hm
  · obtain ⟨ok, hlog, hok, hfail⟩ := runBody_effect Cfg.fixed H pr i t e s1 (passes_of_not_declined hk hdec)
    intro m hm
    cases ok with
    | false =>
      rw [(hfail rfl).2.1, if_pos hts] at hm
      simp at hm
    | true =>
      rw [(hok rfl).2] at hm
      refine ⟨hle m hm, ⟨i, fpNow H pr t s1.files, e.now, true, srcList pr t s1.files⟩, ?_, rfl, hle m hm⟩
      rw [hlog, lastAtt_append]
      simp

/-- every allowed step keeps the invariant (the clock moves to the time of the invocation) -/
theorem invTs_step (hd : TsKeysDistinct pr) {i : Nat} {t : Task} (ht : pr.tasks[i]? = some t) (hts : Ts t)
    (c : Nat) (s : State) (hinv : InvTs i t c s) :
    (∀ o, InvTs i t c (step Cfg.fixed H pr (.op o) s).1) ∧
    (∀ j m e, e.killAt = none → c ≤ e.now → InvTs i t e.now (step Cfg.fixed H pr (.inv j m e) s).1) := by
  constructor
  · intro o
    have hf := applyOp_fields pr o s
    intro m hm
    simp only [step] at hm ⊢
    rw [hf.2.2] at hm
    rw [hf.2.1]
    exact hinv m hm
  · intro j m e hk hce
    have hinv' : InvTs i t e.now s := invTs_mono hinv hce
    simp only [step]
    by_cases hro : m.readOnly = true
    · rw [(invoke_readOnly Cfg.fixed H pr rfl rfl rfl j m e s hro).1]; exact hinv'
    · cases htj : pr.tasks[j]? with
      | none =>
        have : (invoke Cfg.fixed H pr j m e s).1 = s := by
          cases m <;> simp [Mode.readOnly] at hro <;> simp [invoke, htj]
        rw [this]; exact hinv'
      | some tj =>
        by_cases hij : j = i
        · -- an invocation of the task itself
          subst hij
          have htt : tj = t := by rw [ht] at htj; exact (Option.some.inj htj).symm
          subst htt
          have hle : ∀ m, aget s.marks (tsKey tj) = some m → m ≤ e.now := fun m hm => (hinv' m hm).1
          cases m with
          | force =>
            rw [invoke_force Cfg.fixed H pr htj, forceStart_ts H pr hts.1]
            apply invTs_body H pr hts e hk
            intro m hm
            rw [isUpToDate_ts H pr hts] at hm
            simp only at hm
            rcases tsCheck_marker_after tj e.now s with h | ⟨_, hs⟩
            · rw [h] at hm; cases hm; exact Nat.le_refl _
            · rw [hs] at hm; exact hle m hm
          | run =>
            rw [invoke_run Cfg.fixed H pr htj e s (checkErr_timestamp e s.files hts.1)]
            split
            · rename_i hup
              have hup' := tsUp_of_upToDate H pr hts false e.now s (and_left_true hup)
              have hpure : (isUpToDate H pr tj false e.now s).1 = s := by
                rw [isUpToDate_ts H pr hts]
                exact tsCheck_upToDate_pure tj false e.now s (by rw [tsCheck_result]; exact hup')
              simp only [hpure]; exact hinv'
            · apply invTs_body H pr hts e hk
              intro m hm
              rw [isUpToDate_ts H pr hts] at hm
              simp only at hm
              rcases tsCheck_marker_after tj e.now s with h | ⟨_, hs⟩
              · rw [h] at hm; cases hm; exact Nat.le_refl _
              · rw [hs] at hm; exact hle m hm
          | dry => simp [Mode.readOnly] at hro
          | status => simp [Mode.readOnly] at hro
          | listJson => simp [Mode.readOnly] at hro
          | list => simp [Mode.readOnly] at hro
          | summary => simp [Mode.readOnly] at hro
        · -- an invocation of another task: neither `t`'s marker nor its attempts change
          have hx : Ts tj → tsKey t ≠ tsKey tj := fun htsj e' => hij (hd i j t tj ht htj hts htsj e').symm
          intro m0 hm0
          rw [invoke_marks_other H pr htj m e s _ hx] at hm0
          obtain ⟨h1, a, ha1, ha2, ha3⟩ := hinv' m0 hm0
          refine ⟨h1, a, ?_, ha2, ha3⟩
          rcases invoke_log H pr j m e s with hl | ⟨fp, ok, src, hl⟩
          · rw [hl]; exact ha1
          · rw [hl, lastAtt_append]
            simp [hij, ha1]

/-- … hence every allowed history with a clock that does not run backwards does -/
theorem invTs_hist (hd : TsKeysDistinct pr) {i : Nat} {t : Task} (ht : pr.tasks[i]? = some t) (hts : Ts t)
    (hist : List Step) (c : Nat) (s : State) (ha : ∀ st ∈ hist, Allowed st)
    (hclk : ClockOK c hist) (hinv : InvTs i t c s) : ∃ c', InvTs i t c' (runHist Cfg.fixed H pr hist s).1 := by
  induction hist generalizing c s with
  | nil => exact ⟨c, hinv⟩
  | cons st rest ih =>
    simp only [runHist]
    have hstep := invTs_step H pr hd ht hts c s hinv
    cases st with
    | op o => exact ih c _ (fun x hx => ha x (by simp [hx])) hclk (hstep.1 o)
    | inv j m e =>
      have hk : e.killAt = none := ha (.inv j m e) (by simp)
      simp only [ClockOK, clockOK, Bool.and_eq_true, decide_eq_true_eq] at hclk
      exact ih e.now _ (fun x hx => ha x (by simp [hx])) hclk.2 (hstep.2 j m e hk hclk.1)

/-- some existing `generates` file is newer than the marker (or there is no marker) -/
def GenNewer (t : Task) (s : State) : Prop :=
  ∃ g ∈ globs (nowPats t.generates s.files), ∀ m, aget s.marks (tsKey t) = some m → m < mtimeOf s.files g

theorem exists_ge_of_le_foldl_max (l : List Nat) (a x : Nat) (h : x ≤ l.foldl Nat.max a) : x ≤ a ∨ ∃ y ∈ l, x ≤ y := by
  induction l generalizing a with
  | nil => exact Or.inl h
  | cons b l ih =>
    simp only [List.foldl_cons] at h
    rcases ih _ h with h1 | ⟨y, hy, hxy⟩
    · by_cases hab : x ≤ a
      · exact Or.inl hab
      · right; refine ⟨b, by simp, ?_⟩
        have : Nat.max a b = a ∨ Nat.max a b = b := by
          by_cases hle : a ≤ b
          · exact Or.inr (Nat.max_eq_right hle)
          · exact Or.inl (Nat.max_eq_left (Nat.le_of_not_le hle))
        rcases this with e | e <;> rw [e] at h1
        · exact absurd h1 hab
        · exact h1
    · exact Or.inr ⟨y, by simp [hy], hxy⟩

/-- **C04_partial_timestamp_general** (every timestamp task, with or without `generates`): in a
project with pairwise distinct task names, after ANY history of allowed steps (tasks of both
methods, successful / failing / cancelled runs, `--force`, the read-only modes, arbitrary file
operations; no kill) whose invocations carry a non-decreasing clock: if a run reports the task up
to date then `goodRun` holds — OR an existing `generates` file, newer than the marker, vouched
(`GenNewer`: the one root of the open timestamp findings).  Since fix M the invariant "a marker
⇒ the last attempt succeeded, not before it" needs no condition on `generates` any more. -/
theorem C04_partial_timestamp_general (hd : NamesDistinct pr) (hist : List Step) (ha : ∀ st ∈ hist, Allowed st)
    (hclk : ClockOK 0 hist) (i : Nat) (t : Task) (e : Env) (ht : pr.tasks[i]? = some t) (hm : t.method = .timestamp)
    (hsrc : t.sources.isEmpty = false)
    (hskip : (invoke Cfg.fixed H pr i .run e (runHist Cfg.fixed H pr hist State.empty).1).2.skipped = true) :
    goodRun H pr i t (runHist Cfg.fixed H pr hist State.empty).1 = true ∨
    GenNewer t (runHist Cfg.fixed H pr hist State.empty).1 := by
  have hts : Ts t := ⟨hm, hsrc⟩
  obtain ⟨c, hinv⟩ := invTs_hist H pr (tsKeysDistinct_of_names hd) ht hts hist 0 State.empty ha hclk (invTs_empty i t 0)
  generalize (runHist Cfg.fixed H pr hist State.empty).1 = s at *
  have hup := tsUp_of_upToDate H pr hts false e.now s (run_skipped Cfg.fixed H pr ht e s hskip)
  obtain ⟨hne, hle, hge⟩ := (tsUp_iff t s).mp hup
  cases hmk : aget s.marks (tsKey t) with
  | none =>
    right
    unfold tsGts at hne
    simp only [hmk, List.append_nil] at hne
    cases hg : globs (nowPats t.generates s.files) with
    | nil => simp [hg] at hne
    | cons g gs => exact ⟨g, by rw [hg]; simp, fun m hm' => by rw [hmk] at hm'; cases hm'⟩
  | some m =>
    by_cases hex : ∃ p, p ∈ srcsNow t s.files ∧ m < mtimeOf s.files p
    · right
      obtain ⟨p, hp, hlt⟩ := hex
      have hpm := hle p hp
      unfold tsGts maxOf at hpm
      rw [hmk] at hpm
      rcases exists_ge_of_le_foldl_max _ 0 _ hpm with h0 | ⟨y, hy, hxy⟩
      · omega
      · simp only [List.mem_append, List.mem_map, List.mem_singleton] at hy
        rcases hy with ⟨g, hg, rfl⟩ | rfl
        · exact ⟨g, hg, fun m' hm' => by rw [hmk] at hm'; cases hm'; omega⟩
        · omega
    · left
      obtain ⟨_, a, ha1, ha2, ha3⟩ := hinv m hmk
      unfold goodRun
      simp only [hm, hge, ha1, ha2, Bool.true_and, List.all_eq_true, decide_eq_true_eq]
      intro p hp
      have : mtimeOf s.files p ≤ m := Nat.le_of_not_lt (fun hlt => hex ⟨p, hp, hlt⟩)
      exact Nat.le_trans this ha3

/-- **C04_partial_timestamp**: … and for a task without a positive `generates` pattern (then the
marker alone decides) simply: skip ⇒ `goodRun`. -/
theorem C04_partial_timestamp (hd : NamesDistinct pr) (hist : List Step) (ha : ∀ st ∈ hist, Allowed st)
    (hclk : ClockOK 0 hist) (i : Nat) (t : Task) (e : Env) (ht : pr.tasks[i]? = some t) (hm : t.method = .timestamp)
    (hsrc : t.sources.isEmpty = false) (hng : NoPosGenerates t)
    (hskip : (invoke Cfg.fixed H pr i .run e (runHist Cfg.fixed H pr hist State.empty).1).2.skipped = true) :
    goodRun H pr i t (runHist Cfg.fixed H pr hist State.empty).1 = true := by
  rcases C04_partial_timestamp_general H pr hd hist ha hclk i t e ht hm hsrc hskip with h | ⟨g, hg, _⟩
  · exact h
  · rw [(noPos_gens hng _).1] at hg; cases hg

end

/-- non-vacuity: a history using every allowed kind of step (edit, successful run, failing run,
run cancelled at the prompt, `--force`, `--dry`, `--status`, `--list --json`) on a project with
distinct names, after which the task IS skipped — and, as the theorem says, `goodRun` holds. -/
example :
    let t := mk [97, 45, 98] .checksum false 2
    let pr := pj [t, mk [97, 58, 98] .checksum true 1]
    let hist : List Step := [w0, .inv 0 .run { env 10 with failAt := some 1 }, .inv 0 .dry (env 20), .inv 0 .status (env 30),
      .inv 0 .listJson (env 40), .inv 1 .run { env 45 with yes := false }, run 0 50, .inv 1 .force (env 60), .op (.touch 0 70)]
    (∀ st ∈ hist, Allowed st) ∧
    (invoke Cfg.fixed hId pr 0 .run (env 99) (runHist Cfg.fixed hId pr hist State.empty).1).2.skipped = true ∧
    goodRun hId pr 0 t (runHist Cfg.fixed hId pr hist State.empty).1 = true := by
  refine ⟨?_, by decide, by decide⟩
  intro st hst
  simp only [List.mem_cons, List.not_mem_nil, or_false] at hst
  rcases hst with h | h | h | h | h | h | h | h | h <;> subst h <;> simp [Allowed, w0, run, env]

/-- non-vacuity of the declined-prompt theorems: the run is really cancelled after the check wrote
the checksum (it is not up to date), and the task of the example is a checksum task with a prompt -/
example :
    let t := mk [120] .checksum true 1
    let e : Env := { env 10 with yes := false }
    let s := (runHist Cfg.fixed hId (pj [t]) [w0] State.empty).1
    Cs t ∧ Declined t e ∧ (invoke Cfg.fixed hId (pj [t]) 0 .run e s).2.skipped = false ∧
    (isUpToDate hId (pj [t]) t false 10 s).1.sums ≠ [] ∧ (invoke Cfg.fixed hId (pj [t]) 0 .run e s).1.sums = [] := by decide

/-- the hypothesis left after fix N and fix F8A holds of the project of the example — `a-b` and
`a:b`, which NORMALISE to one name — and of a project whose two checksum tasks carry the SAME label
(`L`), which shared one checksum file before F8A: only the task names have to differ … -/
example : NamesDistinct (pj [mk [97, 45, 98] .checksum false 2, mk [97, 58, 98] .checksum true 1]) ∧
    NamesDistinct (pj [{ mk [120] .checksum false 1 with label := [76] }, { mk [121] .checksum false 1 with label := [76] }]) := by
  constructor <;>
  · intro i j ti tj hi hj hk
    match i, j with
    | 0, 0 => rfl
    | 1, 1 => rfl
    | 0, 1 => simp [pj] at hi hj; subst hi hj; simp [mk] at hk
    | 1, 0 => simp [pj] at hi hj; subst hi hj; simp [mk] at hk
    | i + 2, _ => simp [pj] at hi
    | 0, j + 2 => simp [pj] at hj
    | 1, j + 2 => simp [pj] at hj

/-- … and `C04_partial` is not vacuous there: with equal labels, after `x` ran, `y` is NOT skipped;
after `y` ran too, both are skipped and `goodRun` holds of both -/
example :
    let x : Task := { mk [120] .checksum false 1 with label := [76] }
    let y : Task := { mk [121] .checksum false 1 with label := [76] }
    let pr := pj [x, y]
    (invoke Cfg.fixed hId pr 1 .run (env 99) (runHist Cfg.fixed hId pr [w0, run 0 10] State.empty).1).2.skipped = false ∧
    (invoke Cfg.fixed hId pr 1 .run (env 99) (runHist Cfg.fixed hId pr [w0, run 0 10, run 1 20] State.empty).1).2.skipped = true ∧
    goodRun hId pr 1 y (runHist Cfg.fixed hId pr [w0, run 0 10, run 1 20] State.empty).1 = true ∧
    (invoke Cfg.fixed hId pr 0 .run (env 99) (runHist Cfg.fixed hId pr [w0, run 0 10, run 1 20] State.empty).1).2.skipped = true := by
  decide

/-- the statement of `C04_partial_timestamp` WITHOUT the side condition on `generates` -/
def C04_timestamp_with_generates : Prop :=
  ∀ (H : Hashes) (pr : Proj), NamesDistinct pr → ∀ (hist : List Step), (∀ st ∈ hist, Allowed st) → ClockOK 0 hist →
    ∀ (i : Nat) (t : Task) (e : Env), pr.tasks[i]? = some t → t.method = .timestamp → t.sources.isEmpty = false →
      (invoke Cfg.fixed H pr i .run e (runHist Cfg.fixed H pr hist State.empty).1).2.skipped = true →
      goodRun H pr i t (runHist Cfg.fixed H pr hist State.empty).1 = true

/-- … is false of the patched tree too: the never-ran witness (one task, two file writes, no kill) -/
theorem C04_timestamp_with_generates_false : ¬ C04_timestamp_with_generates := by
  intro h
  have hb := C04_counterexample_timestamp_never_ran
  have hd : NamesDistinct (pj [tg]) := by
    intro i j ti tj hi hj _
    match i, j with
    | 0, 0 => rfl
    | i + 1, _ => simp [pj] at hi
    | 0, j + 1 => simp [pj] at hj
  have := h hId (pj [tg]) hd [w0, .op (.write 1 [8] 7)] (by intro st hst; simp at hst; rcases hst with h | h <;> subst h <;> simp [Allowed, w0])
    (by decide) 0 tg (env 99) hb.1 (by decide) hb.2.1 hb.2.2.1
  rw [hb.2.2.2] at this
  cases this

/-- **clock granularity** (the `≤ a.time` of `goodRun`'s timestamp branch, stated as a fact): a source
rewritten in the same tick as a successful run (mtime 10 = the time of the run) is NOT newer than the
marker: the next run is skipped, and `goodRun` — which reads "no source newer than the last attempt"
with the same `≤` — holds; one tick later (mtime 11) the run rebuilds -/
theorem C04_same_tick_edit_counts_as_seen :
    let t := mk [120] .timestamp false 1
    let s1 := (runHist Cfg.fixed hId (pj [t]) [w0, run 0 10, .op (.write 0 [2] 10)] State.empty).1
    (invoke Cfg.fixed hId (pj [t]) 0 .run (env 20) s1).2.skipped = true ∧ goodRun hId (pj [t]) 0 t s1 = true ∧
    (invoke Cfg.fixed hId (pj [t]) 0 .run (env 20)
      (runHist Cfg.fixed hId (pj [t]) [w0, run 0 10, .op (.write 0 [2] 11)] State.empty).1).2.ran = [0] := by decide

/-! ## non-vacuity of the timestamp theorems -/

/-- declined prompt: a timestamp task with a prompt; the check creates the marker, the cancelled run
removes it again, and (no generates file) the next run is not skipped -/
example :
    let t := mk [120] .timestamp true 1
    let e : Env := { env 10 with yes := false }
    let s := (runHist Cfg.fixed hId (pj [t]) [w0] State.empty).1
    Ts t ∧ Declined t e ∧ (invoke Cfg.fixed hId (pj [t]) 0 .run e s).2.skipped = false ∧
    (isUpToDate hId (pj [t]) t false 10 s).1.marks ≠ [] ∧ (invoke Cfg.fixed hId (pj [t]) 0 .run e s).1.marks = [] ∧
    globs (nowPats t.generates s.files) = [] ∧
    (invoke Cfg.fixed hId (pj [t]) 0 .run (env 20) (invoke Cfg.fixed hId (pj [t]) 0 .run e s).1).2.ran = [0] := by decide

/-- failed run / failed `--force` run: exit `failed`, a marker (of an earlier successful run) is there
before and gone afterwards -/
example :
    let t := mk [120] .timestamp false 1
    let s := (runHist Cfg.fixed hId (pj [t]) [w0, run 0 10, .op (.touch 0 15)] State.empty).1
    let ef : Env := { env 20 with failAt := some 0 }
    Ts t ∧ aget s.marks (tsKey t) = some 10 ∧
    (invoke Cfg.fixed hId (pj [t]) 0 .run ef s).2.exit = .failed ∧ (invoke Cfg.fixed hId (pj [t]) 0 .run ef s).1.marks = [] ∧
    (invoke Cfg.fixed hId (pj [t]) 0 .force ef s).2.exit = .failed ∧ (invoke Cfg.fixed hId (pj [t]) 0 .force ef s).1.marks = [] := by
  decide

/-- without a marker a skip needs generates: the never-ran witness meets the hypotheses -/
example :
    let s := (runHist Cfg.fixed hId (pj [tg]) [w0, .op (.write 1 [8] 7)] State.empty).1
    Ts tg ∧ aget s.marks (tsKey tg) = none ∧ (invoke Cfg.fixed hId (pj [tg]) 0 .run (env 99) s).2.skipped = true ∧
    globs (nowPats tg.generates s.files) = [1] := by decide

/-- the up-to-date checks and the edit: marker 10 after the run at 10; two runs (20, 30) are reported
up to date and change nothing; the source is then written with mtime 25 (> 10, newer than the
generates file written at 10) and the run at 40 executes the command.  `marker_is_last_run`: the
run at 10 was asked for by the timestamp check. -/
example :
    let s0 := (runHist Cfg.fixed hId (pj [tg]) [w0] State.empty).1
    let s := (invoke Cfg.fixed hId (pj [tg]) 0 .run (env 10) s0).1
    Ts tg ∧ tsUp tg s0 = false ∧ (invoke Cfg.fixed hId (pj [tg]) 0 .run (env 10) s0).2.exit = .ok ∧
    aget s.marks (tsKey tg) = some 10 ∧
    AllSkipped (runHist Cfg.fixed hId (pj [tg]) (checks 0 [env 20, env 30]) s).2 ∧
    (runHist Cfg.fixed hId (pj [tg]) (checks 0 [env 20, env 30]) s).1 = s ∧
    lastFlag tg.sources 0 = some true ∧
    (∀ g ∈ globs (nowPats tg.generates (aset s.files 0 ⟨[2], 25⟩)), mtimeOf (aset s.files 0 ⟨[2], 25⟩) g < 25) ∧
    (invoke Cfg.fixed hId (pj [tg]) 0 .run (env 40)
      (applyOp (pj [tg]) (.write 0 [2] 25) (runHist Cfg.fixed hId (pj [tg]) (checks 0 [env 20, env 30]) s).1)).2.ran = [0] := by
  decide

/-- `C04_partial_timestamp`: a history using every allowed kind of step on a project with a checksum
and two timestamp tasks (distinct marker names, non-decreasing clock), after which the timestamp
task without generates IS skipped — and `goodRun` holds -/
example :
    let t := mk [120] .timestamp false 2
    let pr := pj [t, mk [121] .timestamp true 1, mk [122] .checksum false 1]
    let hist : List Step := [w0, .inv 0 .run { env 10 with failAt := some 1 }, .inv 0 .dry (env 20), .inv 0 .status (env 30),
      .inv 0 .listJson (env 40), .inv 1 .run { env 45 with yes := false }, run 0 50, .inv 1 .force (env 60), run 2 65,
      .inv 0 .force (env 70), .op (.touch 0 45)]
    (∀ st ∈ hist, Allowed st) ∧ ClockOK 0 hist ∧ NoPosGenerates t ∧ Ts t ∧
    (invoke Cfg.fixed hId pr 0 .run (env 99) (runHist Cfg.fixed hId pr hist State.empty).1).2.skipped = true ∧
    goodRun hId pr 0 t (runHist Cfg.fixed hId pr hist State.empty).1 = true := by
  refine ⟨?_, by decide, by decide, by decide, by decide, by decide⟩
  intro st hst
  simp only [List.mem_cons, List.not_mem_nil, or_false] at hst
  rcases hst with h | h | h | h | h | h | h | h | h | h | h <;> subst h <;> simp [Allowed, w0, run, env]

example : NamesDistinct (pj [mk [120] .timestamp false 2, mk [121] .timestamp true 1, mk [122] .checksum false 1]) := by
  intro i j ti tj hi hj hk
  match i, j with
  | 0, 0 => rfl
  | 1, 1 => rfl
  | 2, 2 => rfl
  | 0, 1 => simp [pj] at hi hj; subst hi hj; simp [mk] at hk
  | 1, 0 => simp [pj] at hi hj; subst hi hj; simp [mk] at hk
  | 0, 2 => simp [pj] at hi hj; subst hi hj; simp [mk] at hk
  | 2, 0 => simp [pj] at hi hj; subst hi hj; simp [mk] at hk
  | 1, 2 => simp [pj] at hi hj; subst hi hj; simp [mk] at hk
  | 2, 1 => simp [pj] at hi hj; subst hi hj; simp [mk] at hk
  | i + 3, _ => simp [pj] at hi
  | 0, j + 3 => simp [pj] at hj
  | 1, j + 3 => simp [pj] at hj
  | 2, j + 3 => simp [pj] at hj

/-- `C04_partial_timestamp_general` on a task WITH generates: the history of the never-ran witness
ends in a skip without `goodRun`, and `GenNewer` holds (no marker, the generates file exists) -/
example :
    (invoke Cfg.fixed hId (pj [tg]) 0 .run (env 99)
      (runHist Cfg.fixed hId (pj [tg]) [w0, .op (.write 1 [8] 7)] State.empty).1).2.skipped = true ∧
    goodRun hId (pj [tg]) 0 tg (runHist Cfg.fixed hId (pj [tg]) [w0, .op (.write 1 [8] 7)] State.empty).1 = false ∧
    GenNewer tg (runHist Cfg.fixed hId (pj [tg]) [w0, .op (.write 1 [8] 7)] State.empty).1 := by
  refine ⟨by decide, by decide, 1, by decide, ?_⟩
  intro m hm
  have h0 : aget (runHist Cfg.fixed hId (pj [tg]) [w0, .op (.write 1 [8] 7)] State.empty).1.marks (tsKey tg) = none := by
    decide
  rw [h0] at hm; cases hm

end Props.C04
