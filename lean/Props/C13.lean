import Props.SchedTie
import TaskModel.Sched.MonC13
import TaskModel.Gen.Codes
/-!
# C13 — Guards are enforced before any command of the guarded task

Statements are about every trace the executor model accepts (`replay … = some c`) and about
every single step (`stepLocal`): all programs, all guard outcomes, all flags — in
particular with and without `--force` / `--force-all` / `--yes` — and all interleavings.
Tie: the `sched` correspondence replays the event log of the real executor through the same
`replay`; `guardedNoCmd` is also evaluated directly on the implementation's event log.

Which statements say what (audit, session 3).  `C13_early`, `C13_platform_skip_first`, `C13_guard_order`, `C13_precond`,
`C13_prompt`, `C13_guardsPassed_disabled`, `C13_force_only_upToDate` are statements about ONE step (`freshAct`,
`stepLocal`): they restate the guards of the acceptor, in the order `SchedTie.runTask_skeleton` pins for `RunTask`;
that the real executor obeys them is the acceptance of its logs (a guarded task that ran a command, or a guard asked
out of order, is a rejected log).  Trace-level: `C13_guarded_state`, `C13_no_cmd`, `C13_through_*`.
-/
namespace Props.C13
open TaskModel.Sched.S7
open TaskModel.Sched

/-! ## guards decided at `enter`: unknown task, platform, `requires`, enum -/

/-- the result classes of the early guards, in the order the code checks them (`SchedTie.runTask_skeleton`:
platform, required variables, compilation, allowed values): each line holds WHATEVER the guards
after it would say — the first failing guard alone decides -/
theorem C13_early_classes (d : TaskDef) :
    (d.platformOk = false → earlyRes d = some .ok) ∧
    (d.platformOk = true → d.requiresOk = false → earlyRes d = some (.typed 206)) ∧
    (d.platformOk = true → d.requiresOk = true → d.compileOk = false → earlyRes d = some .generic) ∧
    (d.platformOk = true → d.requiresOk = true → d.compileOk = true → d.enumOk = false → earlyRes d = some (.typed 207)) := by
  unfold earlyRes
  cases d.platformOk <;> cases d.requiresOk <;> cases d.compileOk <;> cases d.enumOk <;> simp

/-- **C13 (early guards).** If the platform is excluded (result `ok`: skipped silently
and successfully), a required variable is missing (206), the task does not compile (a plain
error) or a variable is outside its enum (207), the activation is born with that result: it takes no slot, starts nothing, does not count as a
call of the task, and the only event it can perform is `exit`, returning that result. -/
theorem C13_early (P : Program) (F : Flags) (c : Config) (kind : Kind) (t : Nat) (d : TaskDef) (r : Res)
    (hd : P[t]? = some d) (hr : earlyRes d = some r) :
    (freshAct P F c kind t).phase = .early ∧ (freshAct P F c kind t).res = r ∧
    (freshAct P F c kind t).started = [] ∧ (freshAct P F c kind t).holds = false ∧
    bumpCalls P c t = c ∧
    (∀ o ev y eff, stepLocal F o (freshAct P F c kind t) ev = some (y, eff) →
      ev = .exit ∧ eff = .none ∧ y.phase = .done ∧ y.res = r ∧ y.started = [] ∧ y.holds = false) := by
  have hdef : (freshAct P F c kind t).def_ = d := by
    rw [(freshAct_fields P F c kind t).2.2.2.2.2.2.2.2.2.2.2.2.1, hd]; rfl
  obtain ⟨h1, h2⟩ := freshAct_earlyRes P F c kind t r (by rw [hdef]; exact hr)
  obtain ⟨_, _, _, _, hs, _, hh, _⟩ := freshAct_fields P F c kind t
  refine ⟨h1, h2, hs, hh, ?_, ?_⟩
  · have hb : earlyBlocked d = true := by rw [← earlyRes_some, hr]; rfl
    unfold bumpCalls
    rw [hd]
    simp only [earlyBlocked, Bool.or_eq_true, Bool.not_eq_true'] at hb
    have : (d.platformOk && d.requiresOk && d.compileOk && d.enumOk) = false := by
      rcases hb with ((hb | hb) | hb) | hb <;> simp [hb]
    simp [this]
  · intro o ev y eff hst
    obtain ⟨e1, e2, e3⟩ := stepLocal_early F o _ ev y eff h1 hst
    exact ⟨e1, e2, by rw [e3], by rw [e3]; exact h2, by rw [e3]; exact hs, by rw [e3]; exact hh⟩

/-- **C13 (the platform check comes first).** An activation of a task that `platforms:` excludes
exits with success — skipped silently — without any other guard being asked, WHATEVER the other
guards would say (a missing required variable, a template error, a value outside its enum, a failing
precondition, a prompt …): it is born with result `ok`, takes no slot, does not count as a call,
starts nothing, and the only event it can perform is `exit`. -/
theorem C13_platform_skip_first (P : Program) (F : Flags) (c : Config) (kind : Kind) (t : Nat) (d : TaskDef)
    (hd : P[t]? = some d) (hp : d.platformOk = false) :
    (freshAct P F c kind t).phase = .early ∧ (freshAct P F c kind t).res = .ok ∧
    (freshAct P F c kind t).started = [] ∧ (freshAct P F c kind t).holds = false ∧
    bumpCalls P c t = c ∧
    (∀ o ev y eff, stepLocal F o (freshAct P F c kind t) ev = some (y, eff) →
      ev = .exit ∧ eff = .none ∧ y.phase = .done ∧ y.res = .ok ∧ y.started = [] ∧ y.holds = false) :=
  C13_early P F c kind t d .ok hd ((C13_early_classes d).1 hp)

/-- non-vacuity: a task excluded by `platforms:` that ALSO lacks a required variable, does not
compile, has a value outside its enum, a failing precondition and a prompt — skipped with success -/
example : (freshAct [{ platformOk := false, requiresOk := false, compileOk := false, enumOk := false,
                       precondOk := false, prompt := true, cmds := [.shell 0 false false] }] {} (init 1) (.top 0) 0).res = .ok ∧
          (freshAct [{ platformOk := false, requiresOk := false, compileOk := false, enumOk := false,
                       precondOk := false, prompt := true, cmds := [.shell 0 false false] }] {} (init 1) (.top 0) 0).phase = .early := by
  decide

/-- **C13 (order of the per-call guards).** With the platform admitted, a missing required variable
wins (206) over a template error and over a value outside its enum; a task that does not compile
fails with a plain error before its allowed values are looked at, before it counts as a call and
before it takes a slot or can be deduplicated — so before any of its commands (cf. `C13_early`). -/
theorem C13_guard_order (P : Program) (F : Flags) (c : Config) (kind : Kind) (t : Nat) (d : TaskDef)
    (hd : P[t]? = some d) (hp : d.platformOk = true) :
    (d.requiresOk = false → (freshAct P F c kind t).res = .typed 206) ∧
    (d.requiresOk = true → d.compileOk = false → (freshAct P F c kind t).res = .generic) ∧
    (d.requiresOk = true → d.compileOk = true → d.enumOk = false → (freshAct P F c kind t).res = .typed 207) ∧
    (earlyBlocked d = true → (freshAct P F c kind t).phase = .early ∧ bumpCalls P c t = c) := by
  obtain ⟨_, h2, h3, h4⟩ := C13_early_classes d
  refine ⟨fun h => (C13_early P F c kind t d _ hd (h2 hp h)).2.1,
          fun h h' => (C13_early P F c kind t d _ hd (h3 hp h h')).2.1,
          fun h h' h'' => (C13_early P F c kind t d _ hd (h4 hp h h' h'')).2.1, ?_⟩
  intro hb
  have hs : (earlyRes d).isSome = true := by rw [earlyRes_some]; exact hb
  obtain ⟨r, hr⟩ := Option.isSome_iff_exists.mp hs
  have := C13_early P F c kind t d r hd hr
  exact ⟨this.1, this.2.2.2.2.1⟩

example : (freshAct [{ requiresOk := false, compileOk := false, enumOk := false }] {} (init 1) (.top 0) 0).res = .typed 206 ∧
          (freshAct [{ compileOk := false, enumOk := false }] {} (init 1) (.top 0) 0).res = .generic ∧
          (freshAct [{ enumOk := false }] {} (init 1) (.top 0) 0).res = .typed 207 := by decide

/-- **C13 (unknown task).** A reference to a task that does not exist gives 200 at once. -/
theorem C13_unknown (P : Program) (F : Flags) (c : Config) (kind : Kind) (t : Nat) (h : P[t]? = none) :
    (freshAct P F c kind t).phase = .early ∧ (freshAct P F c kind t).res = .typed 200 :=
  freshAct_unknown P F c kind t h

/-! ## guards decided after the dependencies: precondition, prompt -/

set_option maxHeartbeats 1000000 in
/-- **C13 (precondition).** When the precondition of the task fails, the only events
accepted in phase `guards` are `precondFail` — result: a generic failure — and, if the
context has been cancelled, `ctxErr`; never `upToDate`, `promptFail` or `guardsPassed`.
For all flags: `--force` and `--force-all` make no difference. -/
theorem C13_precond (F : Flags) (o : Obs) (x : Act) (ev : Ev) (y : Act) (eff : Eff)
    (hph : x.phase = .guards) (hpre : x.def_.precondOk = false)
    (h : stepLocal F o x ev = some (y, eff)) :
    eff = .none ∧ y.phase = .finished ∧ y.started = [] ++ x.started ∧
    ((ev = .precondFail ∧ y.res = .generic) ∨ (ev = .ctxErr ∧ o.cancelled () = true ∧ y.res = .ctx)) := by
  steplocal_cases h
  all_goals (simp_all [Act.stop])

set_option maxHeartbeats 1000000 in
/-- **C13 (prompt).** When the task has a prompt and `--yes` is not given, `guardsPassed`
is not accepted: the activation leaves `guards` only by stopping (`finished`), and when it
is the prompt that stops it the result is 205 (a refusal or no terminal), or a plain error
when the answer could not be read (`F.promptErr`).  For all flags: with and without `--force`. -/
theorem C13_prompt (F : Flags) (o : Obs) (x : Act) (ev : Ev) (y : Act) (eff : Eff)
    (hph : x.phase = .guards) (hpr : x.def_.prompt = true) (hyes : F.yes = false)
    (h : stepLocal F o x ev = some (y, eff)) :
    ev ≠ .guardsPassed ∧ eff = .none ∧ y.phase = .finished ∧ y.started = x.started ∧
    (ev = .promptFail → y.res = promptRes F ∧ (F.promptErr = false → y.res = .typed 205)) := by
  steplocal_cases h
  all_goals (simp_all [Act.stop, promptRes])

/-- in short: a failing late guard disables `guardsPassed` under every combination of flags -/
theorem C13_guardsPassed_disabled (F : Flags) (o : Obs) (x : Act) (hph : x.phase = .guards)
    (hb : lateBlocked F x.def_ = true) : stepLocal F o x .guardsPassed = none := by
  simp only [lateBlocked, Bool.or_eq_true, Bool.and_eq_true, Bool.not_eq_true'] at hb
  simp only [stepLocal, hph]
  rcases hb with hb | ⟨h1, h2⟩
  · simp [hb]
  · simp [h1, h2]

/-- `--force` / `--force-all` only decide whether `upToDate` may be answered -/
theorem C13_force_only_upToDate (F : Flags) (o : Obs) (x : Act) (hph : x.phase = .guards)
    (hf : skipFingerprinting F x = true) : stepLocal F o x .upToDate = none := by
  simp [stepLocal, hph, hf]

/-! ## no command of a guarded task ever starts -/

/-- **C13 (state).** In every reachable configuration an activation of a task with a
failing guard is outside the command loop, has started no command and registered or run no
deferred entry; if the failing guard is an early one it holds no slot and its result is the
guard's. -/
theorem C13_guarded_state (P : Program) (F : Flags) (n : Nat) (tr : List Label) (c : Config)
    (h : replay P F (init n) tr = some c) (a : Nat) (x : Act) (hx : c.act? a = some x)
    (hb : blockedD F x.def_ = true) :
    cmdFree x.phase = true ∧ x.started = [] ∧ x.regs = [] ∧ x.ran = [] ∧
    (∀ r, earlyRes x.def_ = some r → (x.phase = .early ∨ x.phase = .done) ∧ x.res = r ∧ x.holds = false) := by
  have hg : Guarded F x := localInv_sound (Guarded F) P F (guarded_fresh P F)
    (fun o x ev y eff => guarded_local F o x ev y eff) (guarded_kids F) n tr c h a x hx
  obtain ⟨h1, h2, h3⟩ := hg.quiet hb
  exact ⟨guarded_cmdFree F x hg hb, h1, h2, h3, hg.early⟩

/-- **C13 (events of one activation).** The per-activation monitor accepts: the first
event is `enter`, and if a guard of the entered task fails no `cmdStart` / `callRelease`
follows. -/
theorem C13_no_cmd_mon (P : Program) (F : Flags) (n : Nat) (tr : List Label) (c : Config)
    (h : replay P F (init n) tr = some c) (a : Nat) :
    ((noCmdMon P F).run (noCmdMon P F).init (evsOf a tr)).isSome = true :=
  actMon_accepts (noCmdMon P F) (noCmdR F) P F (noCmdR_fresh P F)
    (fun o s x ev y eff hR hs => noCmdR_local P F o s x ev y eff hR hs)
    (fun _ x k hR => ⟨hR.1, guarded_kids F x k hR.2⟩) n tr c h a

/-- **C13 (no command).** In every accepted trace an activation of a task with a failing
guard — excluded platform, missing or not allowed variable, failed precondition, prompt
without `--yes` — never starts a command, shell or `task:`, deferred or not: the raw
monitor `guardedNoCmd` that `monitorVerdicts` evaluates on the implementation's log holds.
With and without `--force`. -/
theorem C13_no_cmd (P : Program) (F : Flags) (n : Nat) (tr : List Label) (c : Config)
    (h : replay P F (init n) tr = some c) : guardedNoCmd P F tr = true := by
  unfold guardedNoCmd
  rw [List.all_eq_true]
  intro a _
  have hm := noCmdMon_accept P F (evsOf a tr) (C13_no_cmd_mon P F n tr c h a)
  rw [← enterOf_evs] at hm
  cases he : enterOf a tr with
  | none => rfl
  | some kt =>
    obtain ⟨k, t⟩ := kt
    rw [he] at hm
    simp only at hm ⊢
    cases hd : P[t]? with
    | none => rfl
    | some d =>
      simp only
      cases hb : blockedD F d with
      | false =>
        unfold blockedD at hb
        rw [hb]; rfl
      | true =>
        have hall := List.all_eq_true.mp (hm d hd hb)
        rw [Bool.or_eq_true]
        right
        rw [List.all_eq_true]
        intro e he
        have := hall e he
        cases e <;> first | rfl | (simp [isCmdEv] at this)

/-! ## the result classes -/

/-- the exit codes of the error classes, from the tree under test -/
theorem codes_ok :
    TaskModel.Gen.Codes.errorCodes.lookup "TaskNotFoundError" = some 200 ∧
    TaskModel.Gen.Codes.errorCodes.lookup "TaskRunError" = some 201 ∧
    TaskModel.Gen.Codes.errorCodes.lookup "TaskInternalError" = some 202 ∧
    TaskModel.Gen.Codes.errorCodes.lookup "TaskCalledTooManyTimesError" = some 204 ∧
    TaskModel.Gen.Codes.errorCodes.lookup "TaskCancelledByUserError" = some 205 ∧
    TaskModel.Gen.Codes.errorCodes.lookup "TaskCancelledNoTerminalError" = some 205 ∧
    TaskModel.Gen.Codes.errorCodes.lookup "TaskMissingRequiredVarsError" = some 206 ∧
    TaskModel.Gen.Codes.errorCodes.lookup "TaskNotAllowedVarsError" = some 207 := by decide

/-- **C13 (a failed precondition fails the task).** In every reachable configuration, an
activation whose precondition fails (and whose early guards pass) and whose result has been
decided has an error result — whatever the flags, `--force` included.  Exception stated in
the hypothesis: a deduplicated waiter (`waitsFor ≠ none`) returns the outcome of the
execution it waited for instead of evaluating its own guards. -/
theorem C13_precond_fails (P : Program) (F : Flags) (n : Nat) (tr : List Label) (c : Config)
    (h : replay P F (init n) tr = some c) (a : Nat) (x : Act) (hx : c.act? a = some x)
    (hpre : x.def_.precondOk = false) (hearly : earlyBlocked x.def_ = false) (hw : x.waitsFor = none)
    (hp : postPhase x.phase = true) : x.res.isOk = false := by
  have hg : Guarded F x ∧ FailInv x := localInv_sound (fun x => Guarded F x ∧ FailInv x) P F
    (fun c kind t => ⟨guarded_fresh P F c kind t, failInv_fresh P F c kind t⟩)
    (fun o x ev y eff hg hs => ⟨guarded_local F o x ev y eff hg.1 hs, failInv_local F o x ev y eff hg.1 hg.2 hs⟩)
    (fun x k hg => ⟨guarded_kids F x k hg.1, ⟨hg.2.waiter, hg.2.fails⟩⟩) n tr c h a x hx
  exact hg.2.fails hpre hearly hw (.inl hp)

/-- **C13 (internal task on the command line).** `Run` rejects the invocation with 202
before any activation exists: a complete run (`finalCheck`) has no event at all and
returns 202. -/
theorem C13_internal (P : Program) (F : Flags) (pre post : List Nat) (t : Nat) (d : TaskDef)
    (hpre : precheck P pre = none) (hd : P[t]? = some d) (hi : d.internal = true) :
    precheck P (pre ++ t :: post) = some (.typed 202) ∧
    ∀ c result, finalCheck P F (pre ++ t :: post) c result = none → c.acts = [] ∧ result = .typed 202 := by
  have hp : precheck P (pre ++ t :: post) = some (.typed 202) := by
    induction pre with
    | nil => simp [precheck, hd, hi]
    | cons u us ih =>
      simp only [precheck, List.cons_append] at hpre ⊢
      cases hu : P[u]? with
      | none => rw [hu] at hpre; cases hpre
      | some du =>
        rw [hu] at hpre
        simp only at hpre ⊢
        cases hdi : du.internal with
        | true => rw [hdi] at hpre; cases hpre
        | false => rw [hdi] at hpre; simp only [Bool.false_eq_true, if_false] at hpre ⊢; exact ih hpre
  refine ⟨hp, ?_⟩
  intro c result hf
  unfold finalCheck at hf
  rw [hp] at hf
  simp only at hf
  split at hf
  · cases hf
  · rename_i he
    split at hf
    · cases hf
    · rename_i hr
      refine ⟨?_, Decidable.not_not.mp hr⟩
      cases hc : c.acts with
      | nil => rfl
      | cons _ _ => rw [hc] at he; simp at he

/-- **C13 (through a nested `task:` call).** When a called task returns a guard's error —
anything but success or a plain exit status — the calling task stops with that same error:
as it is if the caller was itself called by a task, wrapped in a task-run error (201) if the
caller was named on the command line; no further command of the caller's body starts. -/
theorem C13_through_call (x : Act) (c : Cmd) (r : Res) (hok : r ≠ .ok) (hex : ∀ n, r ≠ .exit n) :
    (x.afterCmd c r).res = (if x.indirect then r else .run r) ∧
    ((x.afterCmd c r).phase = .defers ∨ (x.afterCmd c r).phase = .finished) := by
  cases r with
  | ok => exact absurd rfl hok
  | exit n => exact absurd rfl (hex n)
  | _ =>
    cases c with
    | call t d => by_cases hs : x.stack.isEmpty <;> simp [Act.afterCmd, Act.fail, hs]
    | shell k ie d => cases ie <;> by_cases hs : x.stack.isEmpty <;> simp [Act.afterCmd, Act.fail, hs]

/-- the error the caller sees is the callee's result: `callRet` records it, `callReacq`
hands it to `afterCmd` -/
theorem C13_call_result (F : Flags) (o : Obs) (x : Act) (i : Nat) (y : Act) (eff : Eff)
    (h : stepLocal F o x (.callRet i) = some (y, eff)) : o.callKid () = some y.callRes := by
  steplocal_cases h
  all_goals simp_all

/-- **C13 (through `deps:`).** When a dependency returns a guard's error the depending
task stops with it before its own guards and commands. -/
theorem C13_through_deps (F : Flags) (o : Obs) (x : Act) (r : Res) (y : Act) (eff : Eff)
    (hok : r.isOk = false) (hex : ∀ n, r ≠ .exit n)
    (h : stepLocal F o x (.depsDone r) = some (y, eff)) :
    y.res = r ∧ y.phase = .finished ∧ y.started = x.started ∧ ∃ rs, o.deps () = some rs ∧ rs.contains r = true := by
  steplocal_cases h
  all_goals (simp_all [Act.stopDeps])
  exact depErr_not_exit _ _ hex

/-! ## non-vacuity -/

private def prog : Program :=
  [ { deps := [1] },                                             -- 0: depends on a task with a missing variable
    { requiresOk := false, cmds := [.shell 0 false false] },     -- 1
    { precondOk := false, cmds := [.shell 0 false false] },      -- 2
    { cmds := [.call 2 false, .shell 0 false false] },           -- 3: calls the task whose precondition fails
    { prompt := true, cmds := [.shell 0 false false] },          -- 4
    { platformOk := false, cmds := [.shell 0 false false] },     -- 5
    { internal := true },                                        -- 6
    { enumOk := false, cmds := [.shell 0 false false] } ]        -- 7

private def resOf (F : Flags) (tr : List Label) (a : Nat) : Option (Res × Phase × List Nat × Nat) :=
  (replay prog F (init 1) tr).bind (fun c => (c.act? a).map (fun x => (x.res, x.phase, x.started, c.tokens)))

-- named on the command line: 206 / 207 / skipped platform (ok); nothing runs; not counted as a call
example : resOf {} [⟨1, .enter (.top 0) 1⟩, ⟨1, .exit⟩] 1 = some (.typed 206, .done, [], 0) := by decide
example : resOf {} [⟨1, .enter (.top 0) 7⟩, ⟨1, .exit⟩] 1 = some (.typed 207, .done, [], 0) := by decide
example : resOf {} [⟨1, .enter (.top 0) 5⟩, ⟨1, .exit⟩] 1 = some (.ok, .done, [], 0) := by decide
example : ((replay prog {} (init 1) [⟨1, .enter (.top 0) 1⟩]).map (fun c => c.callCount 1)) = some 0 := by decide
example : (replay prog {} (init 1) [⟨1, .enter (.top 0) 1⟩, ⟨1, .acquire⟩]).isNone = true := by decide

-- reached through `deps:`: the depending task fails with 206 and starts nothing
private def viaDep : List Label :=
  [⟨1, .enter (.top 0) 0⟩, ⟨1, .acquire⟩, ⟨1, .depsRelease⟩, ⟨2, .enter (.dep 1 0) 1⟩, ⟨2, .exit⟩,
   ⟨1, .depsReacq⟩, ⟨1, .depsDone (.typed 206)⟩, ⟨1, .release⟩, ⟨1, .exit⟩]
example : resOf {} viaDep 1 = some (.typed 206, .done, [], 0) := by decide

-- failed precondition, WITH `--force` and `--force-all`: generic failure, `guardsPassed` rejected
private def forced : Flags := { force := true, forceAll := true }
private def toGuards (t : Nat) : List Label :=
  [⟨1, .enter (.top 0) t⟩, ⟨1, .acquire⟩, ⟨1, .depsRelease⟩, ⟨1, .depsReacq⟩, ⟨1, .depsDone .ok⟩]
example : resOf forced (toGuards 2 ++ [⟨1, .precondFail⟩, ⟨1, .release⟩, ⟨1, .exit⟩]) 1
    = some (.generic, .done, [], 0) := by decide
example : (replay prog forced (init 1) (toGuards 2 ++ [⟨1, .guardsPassed⟩])).isNone = true := by decide
example : (replay prog {} (init 1) (toGuards 2 ++ [⟨1, .guardsPassed⟩])).isNone = true := by decide

-- prompt without `--yes`: 205, with and without `--force`; with `--yes` the task runs
example : resOf forced (toGuards 4 ++ [⟨1, .promptFail⟩, ⟨1, .release⟩, ⟨1, .exit⟩]) 1
    = some (.typed 205, .done, [], 0) := by decide
example : (replay prog forced (init 1) (toGuards 4 ++ [⟨1, .guardsPassed⟩])).isNone = true := by decide
example : (replay prog {} (init 1) (toGuards 4 ++ [⟨1, .guardsPassed⟩])).isNone = true := by decide
example : (replay prog { yes := true } (init 1) (toGuards 4 ++ [⟨1, .guardsPassed⟩, ⟨1, .cmdStart 0 none false⟩])).isSome
    = true := by decide

-- reached through a nested `task:` call: the caller fails (201 wrapping the generic failure)
-- and does not start its next command
private def viaCall : List Label :=
  toGuards 3 ++ [⟨1, .guardsPassed⟩, ⟨1, .callRelease 0 false⟩,
   ⟨2, .enter (.call 1 0 false) 2⟩, ⟨2, .acquire⟩, ⟨2, .depsRelease⟩, ⟨2, .depsReacq⟩, ⟨2, .depsDone .ok⟩,
   ⟨2, .precondFail⟩, ⟨2, .release⟩, ⟨2, .exit⟩,
   ⟨1, .callRet 0⟩, ⟨1, .callReacq 0⟩, ⟨1, .release⟩, ⟨1, .exit⟩]
example : resOf {} viaCall 1 = some (.run .generic, .done, [0], 0) := by decide
example : resOf {} viaCall 2 = some (.generic, .done, [], 0) := by decide
example : guardedNoCmd prog {} viaCall = true := by decide

-- internal task on the command line
example : precheck prog [0, 6, 1] = some (.typed 202) := by decide

-- the raw monitors reject a log in which the guarded task runs its command
example : guardedNoCmd prog forced (toGuards 2 ++ [⟨1, .guardsPassed⟩, ⟨1, .cmdStart 0 none false⟩]) = false := by decide
example : ((noCmdMon prog forced).run none
    [.enter (.top 0) 2, .acquire, .depsRelease, .depsReacq, .depsDone .ok, .guardsPassed, .cmdStart 0 none false]).isNone
    = true := by decide

end Props.C13
