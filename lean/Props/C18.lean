import TaskModel.Race.Model
import TaskModel.Race.Threads
import TaskModel.Race.Table
import TaskModel.Gen.Access
/-!
# C18 — Concurrent execution is free of data races (lockset discipline; partial by scope)

What is proved.

1. *Semantics of the discipline* (`TaskModel.Race.Threads`): in a model of goroutines running
   sequences of `lock` / `unlock` / `access` / `close` / `recv` under mutex and channel
   semantics, a program whose conflicting access positions all share a statically held mutex
   (`heldAt`: locked and not yet unlocked, the extractor's rule) or are ordered by the close of
   a channel has NO reachable state with two threads at conflicting accesses — any number of
   threads, any interleaving, any length (`C18_no_race_state`, `C18_chan_ordered`).
2. *The table* regenerated from the current source on every run passes the discipline
   (`C18_lockset`, by `decide`), so (1) applies to it: `C18_no_race_state_table` (any program
   whose access positions are rows of the table) and `C18_no_race_state_rows` (any number of
   threads running the critical sections of any rows).
3. *The inputs of the table are obligations, not trusted constants*: which functions only run
   while the program is single-threaded is CHECKED against the static call graph
   (`setup_edges_reviewed`, `no_setup_function_in_run_phase`); the confined types against a
   syntactic escape search (`confined_no_escape`); the channel exemption is computed from the
   ordering facts about `startExecution` (`chanSync_is`, `chanSync_ordered`); copiers do not
   return their argument (`copiers_return_fresh`) and the compiled task holds only fresh copies
   (`compiled_task_holds_copies`).

(Lockset rules of the extractor: a mutex is held from `Lock` to `Unlock` in source order, an
`Unlock` inside a block that ends with `return` ends it for that block only, and a mutex held at
every call site of an unexported, call-only helper is held inside it — `execution.waitsFor`.)
What is not: the Go memory model, accesses through interfaces/closures the syntactic
lockset cannot see, per-object aliasing beyond the facts above, third-party code.  The search
half is real: generated concurrent workloads run under the race detector, in-process with
seeded delays and through the `-race` CLI (domain `race`); a report is a violation whose
replay is the workload.
-/
namespace Props.C18
open TaskModel.Race

def table : List Access := TaskModel.Gen.Access.accesses.map ofTuple

/-- **Lockset discipline** on the current source. -/
theorem C18_lockset : disciplineOk table = true := by decide

/-- unfolded: any two conflicting run-phase accesses share a mutex (or the done channel) -/
theorem C18_conflicts_synchronised (a b : Access) (ha : a ∈ table) (hb : b ∈ table)
    (hl : a.loc = b.loc) (hw : a.write = true ∨ b.write = true) :
    a.loc ∈ chanSync ∨ ∃ l, l ∈ a.locks ∧ l ∈ b.locks :=
  disciplineOk_spec table C18_lockset a b ha hb hl hw

/-- every remaining run-phase write is under a mutex or on the channel-ordered field -/
theorem C18_writes_locked : table.all (fun a => !a.write || a.locks ≠ [] || chanSync.contains a.loc) = true := by decide

/-- the loop definition is copied (rows included) before matrix references are resolved,
which is what makes the rows written by `resolveMatrixRefs` private to one compilation -/
theorem C18_matrix_rows_private : TaskModel.Gen.Access.itemsFromForCopiesMatrix = true := by decide

/-- the table is not empty: the classification did not throw everything away -/
theorem C18_table_nonempty : table.length ≥ 8 ∧ TaskModel.Gen.Access.totalAccesses ≥ 500 := by decide

/-! ## the phase claims, checked against the call graph -/

/-- `hash.Hash` hands the task definition to `hashstructure.Hash` as an `any`; the call-graph rule
"a value converted to the empty interface may have any of its methods called" then yields every
method of `*ast.Task`, `UnmarshalYAML` among them.  hashstructure walks exported fields by reflection
and calls only `Hash()` / `HashInclude` methods; nothing decodes YAML here. -/
def edge_hash_unmarshal : String × String := ("internal/hash:Hash", "taskfile/ast:Task.UnmarshalYAML")

/-- `Run` prints the task list when a requested task does not exist — in its first loop, before any
task has been started (`ListTasks` compiles the tasks in goroutines of its own and waits for them). -/
def edge_run_listTasks : String × String := ("task:Executor.Run", "task:Executor.ListTasks")

/-- watch mode starts after `g.Wait()` of the regular calls; it is outside every model of this framework. -/
def edge_run_watch : String × String := ("task:Executor.Run", "task:Executor.watchTasks")

/-- the reviewed call edges from run-phase functions into functions classified set-up-only -/
def reviewedSetupEdges : List (String × String) := [edge_hash_unmarshal, edge_run_listTasks, edge_run_watch]

/-- **Phase claims are checked**: the call edges from functions reachable from `Executor.Run` /
`Executor.RunTask` into set-up-classified functions, regenerated from the call graph of the current
tree, are exactly the reviewed ones.  (A lazily initialised field — `GetTask → setupFuzzyModel` —
shows up here as a new edge.) -/
theorem setup_edges_reviewed : TaskModel.Gen.Access.setupReachedFromRun = reviewedSetupEdges := by decide

/-- … and no set-up-classified function is reachable from the run roots through an unreviewed edge
(if one were, its accesses would be in `table` and subject to `C18_lockset`). -/
theorem no_setup_function_in_run_phase : TaskModel.Gen.Access.setupPromoted = [] := by decide

/-- the reachable set is not empty: the call graph found the executor -/
theorem run_phase_nonempty : TaskModel.Gen.Access.runReachableFunctions ≥ 150 := by decide

/-! ## the confinement claims, checked by a syntactic escape search -/

/-- `Run` starts one goroutine per top-level call under `--parallel` and hands it that call: each `*Call`
goes to exactly one goroutine and `Run` does not touch it afterwards. -/
def escape_run_parallel : String × String × String := ("task.Call", "captured by a .Go( callback", "task:Executor.Run")

/-- watch mode (outside every model) -/
def escape_watch : String × String × String := ("task.Call", "captured by a go statement", "task:Executor.watchTasks")

/-- **Confinement claims are checked**: a value of a type the classification calls confined
(per call / per command) is nowhere stored into a field of a non-confined struct or a package-level
variable, sent on a channel, or captured by a goroutine's function literal — except the reviewed places. -/
theorem confined_no_escape :
    TaskModel.Gen.Access.confinedEscapes = [escape_run_parallel, escape_watch] := by decide

/-- **Copiers return fresh objects**: no function of the run-phase packages returns one of its own
pointer / map / slice parameters unchanged (an "empty: nothing to do, return the argument" shortcut in a
copier makes a per-call object an alias of the shared definition). -/
theorem copiers_return_fresh : TaskModel.Gen.Access.returnsParam = [] := by decide

/-- **The compiled task holds only fresh copies**: everything `compiledTask` appends to the command,
dependency and precondition lists of the task it hands to an activation is the result of a `DeepCopy()`
(that is what makes `runDeferred`'s write of `cmd.Cmd`, and the bases the classification calls
"fresh copies", private to one activation). -/
theorem compiled_task_holds_copies : TaskModel.Gen.Access.compiledAppends =
    [("Cmds", "‹range ‹*ast.Task›.Cmds›.DeepCopy()"), ("Cmds", "‹‹*ast.Cmd›.DeepCopy()›"),
     ("Deps", "‹‹*ast.Dep›.DeepCopy()›"), ("Preconditions", "‹‹*ast.Precondition›.DeepCopy()›")] := by decide

/-! ## the channel exemption, computed from the ordering facts -/

/-- the only channel-ordered location is `execution.err` … -/
theorem chanSync_is : chanSync = ["task.execution.err"] := by decide

/-- … and every lock-free access to a field of a struct with a closed channel field, anywhere in the
module, is ordered: writes by the creating activation before its `close(done)`, reads there or after
a receive from `done` -/
theorem chanSync_ordered : (TaskModel.Gen.Access.chanOrdered.map chanFactOf).all roleOk = true := by decide

/-- the facts are not empty (the extractor found the write before the close and the read after the receive) -/
theorem chanSync_nonvacuous :
    (TaskModel.Gen.Access.chanOrdered.map chanFactOf).any (fun f => f.write && f.role == "before-close") = true ∧
    (TaskModel.Gen.Access.chanOrdered.map chanFactOf).any (fun f => !f.write && f.role == "after-recv") = true := by decide

/-! ## what the discipline means: no race state in any interleaving -/
open TaskModel.Race.Threads

/-- **No race state, all schedules** — any number of threads, any bodies (that only unlock what
they hold), any interleaving of any length: if every two conflicting access positions of different
threads share a statically held mutex or are ordered by a channel close, no reachable state has two
threads both positioned at conflicting accesses. -/
theorem C18_no_race_state {M L C : Type} [DecidableEq M] [DecidableEq C] (P : Prog M L C)
    (hwf : ∀ b ∈ P, WF b) (hd : Discipline P) (s : State M C) (hr : Reach P s) : ¬ RaceState P s :=
  no_race_state P hwf hd s hr

/-- the invariant behind it: in every reachable state a mutex is in a thread's static lockset exactly
when that thread owns it -/
theorem C18_lockset_is_ownership {M L C : Type} [DecidableEq M] [DecidableEq C] (P : Prog M L C)
    (hwf : ∀ b ∈ P, WF b) (s : State M C) (hr : Reach P s) (t : Nat) (m : M) :
    m ∈ heldAt (body P t) (s.pc t) ↔ s.owner m = some t :=
  held_iff_owner P hwf s hr t m

/-- the same for threads drawn from a SET of bodies that keeps the lockset discipline -/
theorem C18_no_race_state_bodies {M L C : Type} [DecidableEq M] [DecidableEq C] (B : Body M L C → Prop)
    (hB : LocksetDiscipline B) (hwfB : ∀ b, B b → WF b) (P : Prog M L C) (hP : ∀ b ∈ P, B b)
    (s : State M C) (hr : Reach P s) : ¬ RaceState P s :=
  no_race_state_of_bodies B hB hwfB P hP s hr

/-- **The `done` channel**: locations written by the one closer before `close c` and read by others
only after `recv c`, everything else under the lockset rule — no race state. -/
theorem C18_chan_ordered {M L C : Type} [DecidableEq M] [DecidableEq C] [DecidableEq L] (P : Prog M L C)
    (hwf : ∀ b ∈ P, WF b) (hd : MixedDiscipline P) (s : State M C) (hr : Reach P s) : ¬ RaceState P s :=
  chan_ordered_no_race P hwf hd s hr

/-- **Corollary over the generated table**: any program whose access positions are rows of `table`
(location, kind, and the row's mutexes statically held there) and whose `chanSync` locations are
published through a channel has no reachable race state. -/
theorem C18_no_race_state_table {C : Type} [DecidableEq C] (P : Prog String String C)
    (hwf : ∀ b ∈ P, WF b) (hcov : Covered table P)
    (hchan : ∀ l, l ∈ chanSync → ∃ c t0, ChanSynced P c l t0)
    (s : State String C) (hr : Reach P s) : ¬ RaceState P s :=
  no_race_state_of_table table C18_lockset P hwf hcov hchan s hr

/-- the critical sections the rows stand for only unlock what they hold -/
theorem C18_rows_wellformed : table.all (fun r => wfBody (rowBody r)) = true := by decide

/-- **The table as a program**: any number of threads, each running the critical section
`lock locks…; access loc; unlock …` of any row of `table` (channel-ordered rows aside) — no
interleaving reaches a state with two threads at conflicting accesses. -/
theorem C18_no_race_state_rows (threads : List Access) (hmem : ∀ r ∈ threads, r ∈ table ∧ r.loc ∉ chanSync)
    (s : State String Unit) (hr : Reach (rowProg threads) s) : ¬ RaceState (rowProg threads) s :=
  no_race_state_of_rows table C18_lockset C18_rows_wellformed threads hmem s hr

/-- non-vacuity of `C18_no_race_state_rows`: three threads on two rows of the real table that conflict
(the read and the write of `Compiler.dynamicCache` in `HandleDynamicVar`) meet the hypotheses, and both
orders of entering the critical section are runnable -/
example : ∃ r1 r2, r1 ∈ table ∧ r2 ∈ table ∧ r1.loc ∉ chanSync ∧ conflict r1 r2 = true ∧
    runnable (rowProg [r1, r2, r2]) [0, 0, 0, 1, 1, 1, 2, 2, 2] = true ∧
    runnable (rowProg [r1, r2, r2]) [2, 2, 2, 0, 0, 0] = true ∧
    runnable (rowProg [r1, r2, r2]) [0, 1] = false :=
  ⟨⟨"task.Compiler.dynamicCache", "task:Compiler.HandleDynamicVar", "c", false, ["task.Compiler.muDynamicCache"]⟩,
   ⟨"task.Compiler.dynamicCache", "task:Compiler.HandleDynamicVar", "c", true, ["task.Compiler.muDynamicCache"]⟩,
   by decide, by decide, by decide, by decide, by decide, by decide, by decide⟩

/-- the skeleton of `startExecution` as a program of the model: thread 0 registers its execution under the
dedup mutex, runs it, writes the outcome, returns it (a read) and closes `done` (deferred: last); threads 1
and 2 find the execution under the mutex, wait for `done` and read the outcome -/
def startExecutionSkeleton : Prog String String String :=
  [[.lock "task.Executor.executionHashesMutex", .access "task.Executor.executionHashes" false,
    .access "task.Executor.executionHashes" true, .unlock "task.Executor.executionHashesMutex",
    .access "task.execution.err" true, .access "task.execution.err" false, .close "done"],
   [.lock "task.Executor.executionHashesMutex", .access "task.Executor.executionHashes" false,
    .unlock "task.Executor.executionHashesMutex", .recv "done", .access "task.execution.err" false],
   [.lock "task.Executor.executionHashesMutex", .access "task.Executor.executionHashes" false,
    .unlock "task.Executor.executionHashesMutex", .recv "done", .access "task.execution.err" false]]

/-- non-vacuity of `C18_no_race_state_table`, channel part included: the skeleton's access positions are rows
of the real table, its `chanSync` location is published through `done` by thread 0, so NO interleaving of it
reaches a race state — while waiters and the registered execution do interleave -/
theorem startExecution_skeleton_no_race (s : State String String) (hr : Reach startExecutionSkeleton s) :
    ¬ RaceState startExecutionSkeleton s := by
  apply C18_no_race_state_table startExecutionSkeleton _ (coveredB_sound _ _ (by decide)) _ s hr
  · intro b hb
    have : startExecutionSkeleton.all wfBody = true := by decide
    exact wfBody_spec b ((List.all_eq_true.mp this) b hb)
  · intro l hl
    rw [chanSync_is] at hl
    simp only [List.mem_singleton] at hl
    subst hl
    exact ⟨"done", 0, chanSyncedB_sound _ _ _ _ (by decide)⟩

example : runnable startExecutionSkeleton [0, 0, 0, 0, 1, 1, 1, 2, 2, 0, 2, 0, 0, 1, 2, 2, 1] = true := by decide
example : runnable startExecutionSkeleton [1, 1, 1, 1] = false := by decide   -- a waiter blocks until the close

/-- a violating table IS racy in the model: the unlocked write of the r7 mutant next to the unlocked read -/
theorem C18_unlocked_rows_race :
    ∃ s, Reach (rowProg [⟨"task.Executor.fuzzyModel", "task:Executor.setupFuzzyModel", "e", true, []⟩,
                          ⟨"task.Executor.fuzzyModel", "task:Executor.GetTask", "e", false, []⟩]) s ∧
      RaceState (rowProg [⟨"task.Executor.fuzzyModel", "task:Executor.setupFuzzyModel", "e", true, []⟩,
                          ⟨"task.Executor.fuzzyModel", "task:Executor.GetTask", "e", false, []⟩]) s :=
  race_reachable_of_schedule _ [] (by decide)

/-- non-vacuity: the discipline rejects an unlocked write next to a locked read -/
example : disciplineOk [⟨"T.f", "f1", "x", true, []⟩, ⟨"T.f", "f2", "x", false, ["T.mu"]⟩] = false := by decide
example : disciplineOk [⟨"T.f", "f1", "x", true, ["T.mu"]⟩, ⟨"T.f", "f2", "x", false, ["T.mu"]⟩] = true := by decide

end Props.C18
