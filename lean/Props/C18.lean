import TaskModel.Race.Model
import TaskModel.Gen.Access
/-!
# C18 — Concurrent execution is free of data races (lockset discipline; partial by scope)

What is proved: over the access table regenerated from the current source on every run,
every pair of conflicting accesses that can happen during concurrent task execution on a
non-confined object holds a common mutex or is ordered by the `done` channel.  A finite
table checked completely by the kernel (`decide`) is a proof about that abstraction.
(Lockset rules of the extractor: a mutex is held from `Lock` to `Unlock` in source order, an
`Unlock` inside a block that ends with `return` ends it for that block only, and a mutex held at
every call site of an unexported, call-only helper is held inside it — `execution.waitsFor`.)
What is not: the Go memory model, accesses through interfaces/closures the syntactic
lockset cannot see, third-party code.  The search half is real: the harness is built with
`-race` and runs concurrent workloads (domain `race`); a report is a violation with the
report as replay.
-/
namespace Props.C18
open TaskModel.Race

def table : List Access := TaskModel.Gen.Access.accesses.map ofTuple

/-- **Lockset discipline** on the current source. -/
theorem C18_lockset : disciplineOk table = true := by decide

/-- unfolded: any two conflicting run-phase accesses share a mutex (or the done channel) -/
theorem C18_conflicts_synchronised (a b : Access) (ha : a ∈ table) (hb : b ∈ table)
    (hl : a.loc = b.loc) (hw : a.write = true ∨ b.write = true) :
    a.loc ∈ chanSync ∨ ∃ l, l ∈ a.locks ∧ l ∈ b.locks :=
  disciplineOk_spec table C18_lockset a b ha hb hl hw

/-- every remaining run-phase write is under a mutex or on the channel-ordered field -/
theorem C18_writes_locked : table.all (fun a => !a.write || a.locks ≠ [] || chanSync.contains a.loc) = true := by decide

/-- the loop definition is copied (rows included) before matrix references are resolved,
which is what makes the rows written by `resolveMatrixRefs` private to one compilation -/
theorem C18_matrix_rows_private : TaskModel.Gen.Access.itemsFromForCopiesMatrix = true := by decide

/-- the table is not empty: the classification did not throw everything away -/
theorem C18_table_nonempty : table.length ≥ 8 ∧ TaskModel.Gen.Access.totalAccesses ≥ 500 := by decide

/-- non-vacuity: the discipline rejects an unlocked write next to a locked read -/
example : disciplineOk [⟨"T.f", "f1", "x", true, []⟩, ⟨"T.f", "f2", "x", false, ["T.mu"]⟩] = false := by decide
example : disciplineOk [⟨"T.f", "f1", "x", true, ["T.mu"]⟩, ⟨"T.f", "f2", "x", false, ["T.mu"]⟩] = true := by decide

end Props.C18
